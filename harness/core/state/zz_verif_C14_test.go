//go:build verif

package state

import (
	"bytes"
	"encoding/json"
	"fmt"
	"math/big"
	"runtime/debug"
	"sort"
	"strings"
	"sync/atomic"
	"testing"

	"github.com/ethereum/go-ethereum/common"
	"github.com/ethereum/go-ethereum/core/rawdb"
	"github.com/ethereum/go-ethereum/core/state/snapshot"
	"github.com/ethereum/go-ethereum/core/tracing"
	"github.com/ethereum/go-ethereum/core/types"
	"github.com/ethereum/go-ethereum/crypto"
	"github.com/ethereum/go-ethereum/ethdb"
	"github.com/ethereum/go-ethereum/internal/verif/mc"
	"github.com/ethereum/go-ethereum/params"
	"github.com/ethereum/go-ethereum/rlp"
	"github.com/ethereum/go-ethereum/trie"
	"github.com/ethereum/go-ethereum/triedb"
	"github.com/ethereum/go-ethereum/triedb/hashdb"
	"github.com/ethereum/go-ethereum/triedb/pathdb"
	"github.com/holiman/uint256"
)

// ---------------------------------------------------------------------------
// Reference model: a plain table of accounts (balance, nonce, code, storage).

const (
	c14NA = 4 // addresses: A (contract with storage), B (plain account), C (absent at start), D (contract, never touched)
	c14NS = 3 // storage slots
)

var c14Addrs = [c14NA]common.Address{
	common.HexToAddress("0xa100000000000000000000000000000000000001"),
	common.HexToAddress("0xb200000000000000000000000000000000000002"),
	common.HexToAddress("0xc300000000000000000000000000000000000003"),
	common.HexToAddress("0xd400000000000000000000000000000000000004"),
}
var c14AddrNames = [c14NA]string{"A", "B", "C", "D"}
var c14Slots = [c14NS]common.Hash{{31: 0x01}, {31: 0x02}, {0: 0xff, 31: 0x03}}
// codes 1 and 2 are deployed in the base state (their blobs are on disk from block 0);
// codes 3 and 4 only ever reach the disk through the explored histories
var c14Codes = [][]byte{nil, {0x60, 0x01, 0x00}, {0x60, 0x02, 0x60, 0x03, 0x00}, {0x60, 0x03, 0x60, 0x04, 0x01, 0x00}, {0x60, 0x0a, 0x60, 0x0b, 0x02, 0x00, 0xfe}}

func c14Val(v uint8) common.Hash { return common.Hash{31: v} }

type c14Acct struct {
	Bal, Nonce  uint64
	Code        int
	Stor        [c14NS]uint8 // 0 = slot absent
	Destructed  bool         // SelfDestruct called in the running transaction
	NewContract bool         // created in the running transaction
}

type c14View [c14NA]*c14Acct

func (v *c14View) clone() c14View {
	var out c14View
	for i, a := range v {
		if a != nil {
			c := *a
			out[i] = &c
		}
	}
	return out
}

// c14Model is the state as a block executor sees it: the view inside the running
// transaction and the view at the start of that transaction.
type c14Model struct {
	cur     c14View
	txStart c14View
	wiped   [c14NA]bool // destructed at a transaction boundary of the running block (statistics only)
}

func (m *c14Model) clone() *c14Model {
	return &c14Model{cur: m.cur.clone(), txStart: m.txStart.clone(), wiped: m.wiped}
}

// endTx applies the transaction boundary: self-destructed accounts vanish.
func (m *c14Model) endTx() {
	for i, a := range m.cur {
		if a == nil {
			continue
		}
		if a.Destructed {
			m.cur[i] = nil
			m.wiped[i] = true
			continue
		}
		a.NewContract = false
		if a.Nonce == 0 && a.Bal == 0 && a.Code == 0 {
			panic("c14: the alphabet is not supposed to produce empty accounts")
		}
	}
	m.txStart = m.cur.clone()
}

func (v *c14View) canon(b *strings.Builder) {
	for i, a := range v {
		if a == nil {
			b.WriteString("-;")
			continue
		}
		fmt.Fprintf(b, "%s:%d,%d,%d,%v", c14AddrNames[i], a.Bal, a.Nonce, a.Code, a.Stor)
		if a.Destructed {
			b.WriteByte('D')
		}
		if a.NewContract {
			b.WriteByte('N')
		}
		b.WriteByte(';')
	}
}

type c14KV struct{ k, v []byte }

func c14StackRoot(kvs []c14KV) common.Hash {
	sort.Slice(kvs, func(i, j int) bool { return bytes.Compare(kvs[i].k, kvs[j].k) < 0 })
	st := trie.NewStackTrie(nil)
	for _, e := range kvs {
		st.Update(e.k, e.v)
	}
	return st.Hash()
}

func (a *c14Acct) storageRoot() common.Hash {
	var kvs []c14KV
	for i, v := range a.Stor {
		if v != 0 {
			enc, _ := rlp.EncodeToBytes([]byte{v})
			kvs = append(kvs, c14KV{crypto.Keccak256(c14Slots[i][:]), enc})
		}
	}
	return c14StackRoot(kvs)
}

type c14RLPAccount struct {
	Nonce    uint64
	Balance  *big.Int
	Root     []byte
	CodeHash []byte
}

// root is the state root of a view, computed with the ordered stack-trie builder
// from the plain table (independent of StateDB, its tries and its databases).
func (v *c14View) root() common.Hash {
	var kvs []c14KV
	for i, a := range v {
		if a == nil {
			continue
		}
		enc, _ := rlp.EncodeToBytes(&c14RLPAccount{Nonce: a.Nonce, Balance: new(big.Int).SetUint64(a.Bal),
			Root: a.storageRoot().Bytes(), CodeHash: crypto.Keccak256(c14Codes[a.Code])})
		kvs = append(kvs, c14KV{crypto.Keccak256(c14Addrs[i][:]), enc})
	}
	return c14StackRoot(kvs)
}

func c14BaseView() c14View {
	return c14View{
		{Bal: 5, Nonce: 1, Code: 1, Stor: [c14NS]uint8{1, 2, 0}},
		{Bal: 3},
		nil,
		{Bal: 1, Nonce: 1, Code: 2, Stor: [c14NS]uint8{7, 0, 9}},
	}
}

// ---------------------------------------------------------------------------
// Configurations and the system under exploration.

type c14Cfg struct {
	Name     string
	Depth    int
	Path     bool // path scheme (else hash scheme)
	Snap     bool // hash scheme with the flat snapshot tree attached
	Cancun   bool // Cancun rules: plain storage keys in the state update, EIP-6780 self-destruct
	Prefetch bool // trie prefetcher started for every block
	// Prefix is executed (unobserved) on the base state before the exploration starts:
	// the explored histories then begin in the middle of a block.
	Prefix []string
	// Focus ("A", "C") restricts the alphabet of a dedicated family to the operations on that
	// one address plus the global operations (boundaries, snapshot/revert, copy).
	Focus string
}

func (c *c14Cfg) rules() params.Rules {
	return params.Rules{IsHomestead: true, IsEIP150: true, IsEIP155: true, IsEIP158: true, IsByzantium: true,
		IsConstantinople: true, IsPetersburg: true, IsIstanbul: true, IsBerlin: true, IsLondon: true, IsMerge: true, IsShanghai: true,
		IsCancun: c.Cancun}
}

func (c *c14Cfg) trieConfig() *triedb.Config {
	if c.Path {
		return &triedb.Config{PathDB: &pathdb.Config{NoAsyncFlush: true, NoAsyncGeneration: true, WriteBufferSize: 4 * 1024 * 1024}}
	}
	return &triedb.Config{HashDB: &hashdb.Config{}}
}

type c14Op struct {
	kind string // addbal set destruct create setcode endtx endblock copyOnCopy copyOnOrig
	a    int
	slot int
	val  uint8
}

func (o c14Op) name() string {
	switch o.kind {
	case "addbal":
		return "AddBalance(" + c14AddrNames[o.a] + ",1)"
	case "set":
		return fmt.Sprintf("SetState(%s,s%d,%d)", c14AddrNames[o.a], o.slot, o.val)
	case "destruct":
		return "SelfDestruct(" + c14AddrNames[o.a] + ")"
	case "create":
		return "Create(" + c14AddrNames[o.a] + ")"
	case "setcode":
		return fmt.Sprintf("SetCode(%s,c%d)", c14AddrNames[o.a], o.val)
	case "snapshot":
		return "Snapshot"
	case "revert":
		return "RevertToSnapshot"
	case "endtx":
		return "EndTx"
	case "ir":
		return "IntermediateRoot"
	case "endblock":
		return "EndBlock"
	case "copyOnCopy":
		return "Copy;continue-on-copy"
	case "copyOnOrig":
		return "Copy;continue-on-original"
	}
	return o.kind
}

func (a *c14Acct) stor() [c14NS]uint8 {
	if a == nil {
		return [c14NS]uint8{}
	}
	return a.Stor
}

func c14Ops() []c14Op {
	var ops []c14Op
	base := c14BaseView()
	ops = append(ops, c14Op{kind: "endtx"}, c14Op{kind: "endblock"}, c14Op{kind: "ir"})
	for _, a := range []int{0, 2} {
		ops = append(ops,
			c14Op{kind: "set", a: a, slot: 0, val: 3},
			c14Op{kind: "set", a: a, slot: 0, val: 0},
			c14Op{kind: "set", a: a, slot: 2, val: 4},
			c14Op{kind: "destruct", a: a},
			c14Op{kind: "create", a: a},
			c14Op{kind: "addbal", a: a},
			c14Op{kind: "setcode", a: a, val: 3},
			c14Op{kind: "setcode", a: a, val: 4},
		)
		// "restore" writes: every slot that the alphabet can change can also be written back
		// to the value it has in the committed base state (A: s0=1, s2=0; C: s0=0 is above, s2=0)
		for k, v := range base[a].stor() {
			if base[a] == nil {
				break // C does not exist in the base state: its origin values are all zero, SetState(s0,0) covers it
			}
			if k == 1 {
				continue // s1 is never written
			}
			if k == 0 && v == 0 {
				continue // SetState(s0,0) is already in the alphabet
			}
			ops = append(ops, c14Op{kind: "set", a: a, slot: k, val: v})
		}
	}
	ops = append(ops, c14Op{kind: "copyOnCopy"}, c14Op{kind: "copyOnOrig"})
	ops = append(ops, c14Op{kind: "snapshot", a: -1}, c14Op{kind: "revert", a: -1})
	return ops
}

func (o c14Op) global() bool {
	switch o.kind {
	case "endtx", "endblock", "ir", "copyOnCopy", "copyOnOrig", "snapshot", "revert":
		return true
	}
	return false
}

// c14OpsFor is the alphabet of one configuration.
func c14OpsFor(cfg *c14Cfg) []c14Op {
	var ops []c14Op
	for _, o := range c14Ops() {
		// a Snapshot ... RevertToSnapshot window followed by a commit needs four operations:
		// explorations of depth 3 run without the two operations
		if (o.kind == "snapshot" || o.kind == "revert") && cfg.Depth < 4 {
			continue
		}
		if cfg.Focus == "" || o.global() || c14AddrNames[o.a] == cfg.Focus {
			ops = append(ops, o)
		}
	}
	return ops
}

type c14Sys struct {
	r     *mc.R
	cfg   *c14Cfg
	rules params.Rules
	ops   []c14Op

	disk  ethdb.Database
	tdb   *triedb.Database
	snaps *snapshot.Tree
	db    Database

	s *StateDB
	m *c14Model
	// the other side of a Copy (original or copy), left alone until the end of the block
	aside     *StateDB
	am        *c14Model
	asideWhat string

	root       common.Hash // root of the last committed block
	blockStart c14View
	block    uint64
	txOps    int
	blockOps int
	copied   bool
	dirty    bool // a state operation was applied to the live object since its last IntermediateRoot
	// one Snapshot ... RevertToSnapshot window per transaction on the live object
	snapOpen  bool
	snapUsed  bool
	snapID    int
	snapOps   int
	snapModel c14View

	applied   int
	armed     bool
	replayLen int
	key       string
	initErr   error
}

var c14FollowUps, c14Reverts, c14ColdCode atomic.Int64
var c14Armed, c14Reopens, c14Persisted, c14AsideSweeps, c14Resurrections, c14Wipes atomic.Int64

func c14NewSys(r *mc.R, cfg *c14Cfg, ops []c14Op) *c14Sys {
	x := &c14Sys{r: r, cfg: cfg, rules: cfg.rules(), ops: ops, replayLen: -1}
	// Fail fast: once the tree is known to violate the property the verdict is fixed, and
	// exploring deeper on broken code risks a panic in one of StateDB's commit goroutines,
	// which would take the whole process (and the recorded counterexamples) down.
	if !r.Replaying() && r.Violations() > 0 {
		r.NotExhaustive("exploration stopped after the first violation")
	}
	if r.Replaying() {
		var d struct {
			Ops []string `json:"ops"`
		}
		if json.Unmarshal(r.ReplayDescriptor(), &d) == nil {
			x.replayLen = len(d.Ops)
		}
	}
	x.disk = rawdb.NewMemoryDatabase()
	x.tdb = triedb.NewDatabase(x.disk, cfg.trieConfig())
	mdb := NewMPTDatabase(x.tdb, nil)
	x.db = mdb
	if cfg.Snap {
		snaps, err := snapshot.New(snapshot.Config{CacheSize: 1, AsyncBuild: false}, x.disk, x.tdb, types.EmptyRootHash)
		if err != nil {
			x.initErr = err
			return x
		}
		x.snaps = snaps
		x.db = mdb.WithSnapshot(snaps)
	}
	// block 0: the base state, committed through the same database
	s, err := New(types.EmptyRootHash, x.db)
	if err != nil {
		x.initErr = err
		return x
	}
	base := c14BaseView()
	for i, a := range base {
		if a == nil {
			continue
		}
		addr := c14Addrs[i]
		s.CreateAccount(addr)
		s.SetBalance(addr, uint256.NewInt(a.Bal), tracing.BalanceChangeUnspecified)
		s.SetNonce(addr, a.Nonce, tracing.NonceChangeUnspecified)
		if a.Code != 0 {
			s.SetCode(addr, c14Codes[a.Code], tracing.CodeChangeUnspecified)
		}
		for k, v := range a.Stor {
			if v != 0 {
				s.SetState(addr, c14Slots[k], c14Val(v))
			}
		}
	}
	root, err := s.Commit(x.rules, 0)
	if err != nil {
		x.initErr = err
		return x
	}
	if want := base.root(); root != want {
		x.initErr = fmt.Errorf("base state root %x, model %x", root, want)
		return x
	}
	x.root = root
	x.m = &c14Model{cur: base.clone(), txStart: base.clone()}
	if err := x.openBlock(); err != nil {
		x.initErr = err
		return x
	}
	for _, name := range cfg.Prefix {
		op := -1
		for i, o := range ops {
			if o.name() == name {
				op = i
			}
		}
		if op < 0 || !x.Enabled(op) {
			x.initErr = fmt.Errorf("prefix op %q unknown or not enabled", name)
			return x
		}
		if err := x.apply(op, false); err != nil {
			x.initErr = fmt.Errorf("prefix op %q: %v", name, err)
			return x
		}
	}
	x.armed = false
	x.key = x.computeKey()
	return x
}

func (x *c14Sys) openBlock() error {
	s, err := New(x.root, x.db)
	if err != nil {
		return fmt.Errorf("state.New(%x): %v", x.root, err)
	}
	x.s = s
	x.blockStart = x.m.cur.clone()
	x.block++
	if x.cfg.Prefetch {
		s.StartPrefetcher("c14", nil)
	}
	x.txOps, x.blockOps, x.copied, x.dirty = 0, 0, false, false
	x.snapOpen, x.snapUsed = false, false
	return nil
}

func (x *c14Sys) close() {
	if x.s != nil {
		x.s.StopPrefetcher()
	}
	if x.aside != nil {
		x.aside.StopPrefetcher()
	}
	if x.snaps != nil {
		x.snaps.Release()
	}
	if x.tdb != nil {
		x.tdb.Close()
	}
}

func (x *c14Sys) Enabled(i int) bool {
	x.armed = true
	if x.initErr != nil {
		x.r.HarnessError("C14 setup [" + x.cfg.Name + "]: " + x.initErr.Error())
		return false
	}
	o := x.ops[i]
	var a *c14Acct
	if !o.global() {
		a = x.m.cur[o.a]
	}
	switch o.kind {
	case "addbal":
		return true
	case "set":
		// SSTORE runs in the context of an existing account; unchanged values are no-ops
		return a != nil && a.Stor[o.slot] != o.val
	case "setcode":
		return a != nil && a.Code != int(o.val)
	case "snapshot":
		return !x.snapOpen && !x.snapUsed
	case "revert":
		return x.snapOpen && x.snapOps > 0
	case "destruct":
		if a == nil || a.Destructed {
			return false
		}
		return !x.cfg.Cancun || a.NewContract // EIP-6780
	case "create":
		// evm.create: the address must hold no contract (nonce, code, storage)
		return a == nil || (a.Nonce == 0 && a.Code == 0 && a.Stor == [c14NS]uint8{} && !a.Destructed)
	case "endtx":
		return x.txOps > 0
	case "ir":
		return x.dirty
	case "endblock":
		return x.blockOps > 0
	case "copyOnCopy", "copyOnOrig":
		return x.aside == nil && !x.copied
	}
	return false
}

func (x *c14Sys) Apply(i int) error {
	if x.initErr != nil {
		return fmt.Errorf("harness setup: %v", x.initErr)
	}
	check := x.armed
	if x.replayLen >= 0 {
		check = x.applied == x.replayLen-1
	}
	x.armed = false
	x.applied++
	err := x.apply(i, check)
	if err == nil && x.s.Error() != nil {
		err = fmt.Errorf("StateDB.Error(): %v", x.s.Error())
	}
	return err
}

func (x *c14Sys) apply(i int, check bool) error {
	o := x.ops[i]
	s, m := x.s, x.m
	if check {
		c14Armed.Add(1)
	}
	switch o.kind {
	case "addbal":
		s.AddBalance(c14Addrs[o.a], uint256.NewInt(1), tracing.BalanceChangeUnspecified)
		if m.cur[o.a] == nil {
			m.cur[o.a] = &c14Acct{}
		}
		m.cur[o.a].Bal++
	case "set":
		prev := s.SetState(c14Addrs[o.a], c14Slots[o.slot], c14Val(o.val))
		if prev != c14Val(m.cur[o.a].Stor[o.slot]) {
			return fmt.Errorf("SetState returned previous value %x, model %d", prev, m.cur[o.a].Stor[o.slot])
		}
		m.cur[o.a].Stor[o.slot] = o.val
	case "setcode":
		s.SetCode(c14Addrs[o.a], c14Codes[o.val], tracing.CodeChangeUnspecified)
		m.cur[o.a].Code = int(o.val)
	case "snapshot":
		x.snapID = s.Snapshot()
		x.snapModel = m.cur.clone()
		x.snapOpen, x.snapUsed, x.snapOps = true, true, 0
		x.txOps--
		x.blockOps--
	case "revert":
		// everything journalled since the snapshot is rolled back: the view of the running
		// transaction is the one recorded at the snapshot
		s.RevertToSnapshot(x.snapID)
		m.cur = x.snapModel.clone()
		x.snapOpen = false
		c14Reverts.Add(1)
	case "destruct":
		s.SelfDestruct(c14Addrs[o.a])
		m.cur[o.a].Destructed = true
	case "create":
		// what evm.create does before running the init code
		addr := c14Addrs[o.a]
		if !s.Exist(addr) {
			s.CreateAccount(addr)
		}
		s.CreateContract(addr)
		s.SetNonce(addr, 1, tracing.NonceChangeNewContract)
		if m.cur[o.a] == nil {
			m.cur[o.a] = &c14Acct{}
		}
		m.cur[o.a].Nonce = 1
		m.cur[o.a].NewContract = true
	case "endtx":
		s.Finalise(x.rules)
		m.endTx()
		x.txOps = -1
		x.snapOpen, x.snapUsed = false, false
	case "ir":
		// mid-block IntermediateRoot (receipts before Byzantium, miner, tracing): transaction
		// boundary plus loading and updating the tries
		root := s.IntermediateRoot(x.rules)
		m.endTx()
		if want := m.cur.root(); root != want {
			return fmt.Errorf("IntermediateRoot %x, root of the model state %x", root, want)
		}
		x.txOps = -1
		x.snapOpen, x.snapUsed = false, false
	case "copyOnCopy", "copyOnOrig":
		cp := s.Copy()
		x.copied = true
		if o.kind == "copyOnCopy" {
			x.snapOpen = false // snapshots of the original cannot be applied to the copy
			x.aside, x.asideWhat, x.s = s, "original", cp
		} else {
			x.aside, x.asideWhat = cp, "copy"
		}
		x.am = m.clone()
		x.txOps--
		x.blockOps--
	case "endblock":
		return x.endBlock(check)
	}
	x.txOps++
	x.blockOps++
	switch o.kind {
	case "ir":
		x.dirty = false
	case "endtx", "copyOnCopy", "copyOnOrig", "snapshot":
	default:
		x.dirty = true
		if x.snapOpen {
			x.snapOps++
		}
	}
	x.key = x.computeKey()
	if !check {
		return nil
	}
	if err := c14Compare(x.s, x.m, "live state"); err != nil {
		return err
	}
	if x.aside != nil {
		c14AsideSweeps.Add(1)
		if err := c14Compare(x.aside, x.am, "the "+x.asideWhat+" left aside after Copy"); err != nil {
			return err
		}
	}
	return nil
}

// commitOne: IntermediateRoot, Commit, root equalities.
func (x *c14Sys) commitOne(s *StateDB, m *c14Model, what string) (common.Hash, error) {
	ir := s.IntermediateRoot(x.rules)
	root, err := s.Commit(x.rules, x.block)
	if err != nil {
		return root, fmt.Errorf("%s: Commit: %v", what, err)
	}
	if root != ir {
		return root, fmt.Errorf("%s: Commit root %x differs from the preceding IntermediateRoot %x", what, root, ir)
	}
	m.endTx()
	for i, w := range m.wiped {
		if w && x.blockStart[i] != nil && x.blockStart[i].Stor != [c14NS]uint8{} {
			c14Wipes.Add(1)
			if m.cur[i] != nil {
				c14Resurrections.Add(1)
			}
		}
	}
	m.wiped = [c14NA]bool{}
	if want := m.cur.root(); root != want {
		return root, fmt.Errorf("%s: Commit root %x, root of the model state %x", what, root, want)
	}
	return root, nil
}

func (x *c14Sys) endBlock(check bool) error {
	root, err := x.commitOne(x.s, x.m, "live state")
	if err != nil {
		return err
	}
	if check {
		if err := x.verifyRoot(root, &x.m.cur, "block state"); err != nil {
			return err
		}
	}
	if x.aside != nil {
		if check {
			c14AsideSweeps.Add(1)
			if err := c14Compare(x.aside, x.am, "the "+x.asideWhat+" left aside after Copy (after the other side was committed)"); err != nil {
				return err
			}
		}
		aroot, err := x.commitOne(x.aside, x.am, "the "+x.asideWhat+" left aside after Copy")
		if err != nil {
			return err
		}
		if check {
			if err := x.verifyRoot(aroot, &x.am.cur, "state committed from the "+x.asideWhat+" left aside"); err != nil {
				return err
			}
			if err := x.verifyRoot(root, &x.m.cur, "block state after the other side of the Copy was committed too"); err != nil {
				return err
			}
			if err := x.followUp(aroot, &x.am.cur, "state committed from the "+x.asideWhat+" left aside"); err != nil {
				return err
			}
			if !x.cfg.Path { // the hash scheme keeps both forks when one of them is flushed
				if err := x.verifyPersisted(aroot, &x.am.cur); err != nil {
					return fmt.Errorf("state committed from the %s left aside: %v", x.asideWhat, err)
				}
			}
		}
		x.aside, x.am = nil, nil
	}
	if check {
		if err := x.followUp(root, &x.m.cur, "block state"); err != nil {
			return err
		}
		if err := x.verifyPersisted(root, &x.m.cur); err != nil {
			return err
		}
	}
	x.root = root
	if err := x.openBlock(); err != nil {
		return err
	}
	x.key = x.computeKey()
	return nil
}

// c14Compare sweeps the getters of a live StateDB against the model.
func c14Compare(s *StateDB, m *c14Model, what string) error {
	for i, addr := range c14Addrs {
		a := m.cur[i]
		n := c14AddrNames[i]
		if got := s.Exist(addr); got != (a != nil) {
			return fmt.Errorf("%s: Exist(%s)=%v, model %v", what, n, got, a != nil)
		}
		var z c14Acct
		if a == nil {
			a = &z
		}
		if got := s.GetBalance(addr); !got.IsUint64() || got.Uint64() != a.Bal {
			return fmt.Errorf("%s: GetBalance(%s)=%v, model %d", what, n, got, a.Bal)
		}
		if got := s.GetNonce(addr); got != a.Nonce {
			return fmt.Errorf("%s: GetNonce(%s)=%d, model %d", what, n, got, a.Nonce)
		}
		if got := s.GetCode(addr); !bytes.Equal(got, c14Codes[a.Code]) {
			return fmt.Errorf("%s: GetCode(%s)=%x, model %x", what, n, got, c14Codes[a.Code])
		}
		if got := s.GetCodeSize(addr); got != len(c14Codes[a.Code]) {
			return fmt.Errorf("%s: GetCodeSize(%s)=%d, model %d", what, n, got, len(c14Codes[a.Code]))
		}
		wantHash := common.Hash{}
		if m.cur[i] != nil {
			wantHash = crypto.Keccak256Hash(c14Codes[a.Code])
		}
		if got := s.GetCodeHash(addr); got != wantHash {
			return fmt.Errorf("%s: GetCodeHash(%s)=%x, model %x", what, n, got, wantHash)
		}
		if got := s.HasSelfDestructed(addr); got != a.Destructed {
			return fmt.Errorf("%s: HasSelfDestructed(%s)=%v, model %v", what, n, got, a.Destructed)
		}
		for k, slot := range c14Slots {
			if got := s.GetState(addr, slot); got != c14Val(a.Stor[k]) {
				return fmt.Errorf("%s: GetState(%s,s%d)=%x, model %d", what, n, k, got, a.Stor[k])
			}
			var committed uint8
			if st := m.txStart[i]; st != nil {
				committed = st.Stor[k]
			}
			if got := s.GetCommittedState(addr, slot); got != c14Val(committed) {
				return fmt.Errorf("%s: GetCommittedState(%s,s%d)=%x, model %d", what, n, k, got, committed)
			}
		}
	}
	return nil
}

func c14CheckReader(rd StateReader, v *c14View, what string) error {
	for i, addr := range c14Addrs {
		a := v[i]
		n := c14AddrNames[i]
		acct, err := rd.Account(addr)
		if err != nil {
			return fmt.Errorf("%s: Account(%s): %v", what, n, err)
		}
		if (acct != nil) != (a != nil) {
			return fmt.Errorf("%s: Account(%s) present=%v, model %v", what, n, acct != nil, a != nil)
		}
		if a != nil {
			if acct.Nonce != a.Nonce || !acct.Balance.IsUint64() || acct.Balance.Uint64() != a.Bal {
				return fmt.Errorf("%s: Account(%s) nonce=%d balance=%v, model %d/%d", what, n, acct.Nonce, acct.Balance, a.Nonce, a.Bal)
			}
			if !bytes.Equal(acct.CodeHash, crypto.Keccak256(c14Codes[a.Code])) {
				return fmt.Errorf("%s: Account(%s) code hash %x, model code %d", what, n, acct.CodeHash, a.Code)
			}
			if want := a.storageRoot(); acct.Root != want {
				return fmt.Errorf("%s: Account(%s) storage root %x, model %x", what, n, acct.Root, want)
			}
		}
		for k, slot := range c14Slots {
			var want uint8
			if a != nil {
				want = a.Stor[k]
			}
			got, err := rd.Storage(addr, slot)
			if err != nil {
				return fmt.Errorf("%s: Storage(%s,s%d): %v", what, n, k, err)
			}
			if got != c14Val(want) {
				return fmt.Errorf("%s: Storage(%s,s%d)=%x, model %d", what, n, k, got, want)
			}
		}
	}
	return nil
}

// c14CheckDB checks a state root through one Database: a fresh StateDB, each
// reader on its own, the code reader, the state iterators and a raw trie walk.
func (x *c14Sys) checkDB(db Database, tdb *triedb.Database, flat StateReader, root common.Hash, v *c14View, what string) error {
	fresh := &c14Model{cur: v.clone(), txStart: v.clone()}
	s, err := New(root, db)
	if err != nil {
		return fmt.Errorf("%s: state.New(%x): %v", what, root, err)
	}
	if err := c14Compare(s, fresh, what+", reopened StateDB"); err != nil {
		return err
	}
	if s.Error() != nil {
		return fmt.Errorf("%s, reopened StateDB: Error(): %v", what, s.Error())
	}
	// every committed non-empty code hash has its blob on disk, and a code reader with a
	// cold cache on that disk hands it out
	cold := NewCodeDB(x.disk).Reader()
	for i, a := range v {
		if a == nil || a.Code == 0 {
			continue
		}
		c14ColdCode.Add(1)
		h := crypto.Keccak256Hash(c14Codes[a.Code])
		if blob := rawdb.ReadCode(x.disk, h); !bytes.Equal(blob, c14Codes[a.Code]) {
			return fmt.Errorf("%s: code blob of %s (code %d, hash %x) on disk is %x, model %x", what, c14AddrNames[i], a.Code, h[:4], blob, c14Codes[a.Code])
		}
		if got := cold.Code(c14Addrs[i], h); !bytes.Equal(got, c14Codes[a.Code]) {
			return fmt.Errorf("%s: cold code reader Code(%s)=%x, model %x", what, c14AddrNames[i], got, c14Codes[a.Code])
		}
		if got := cold.CodeSize(c14Addrs[i], h); got != len(c14Codes[a.Code]) {
			return fmt.Errorf("%s: cold code reader CodeSize(%s)=%d, model %d", what, c14AddrNames[i], got, len(c14Codes[a.Code]))
		}
	}
	for i, addr := range c14Addrs {
		want := types.EmptyRootHash
		if v[i] == nil {
			want = common.Hash{}
		} else {
			want = v[i].storageRoot()
		}
		if got := s.GetStorageRoot(addr); got != want {
			return fmt.Errorf("%s, reopened StateDB: GetStorageRoot(%s)=%x, model %x", what, c14AddrNames[i], got, want)
		}
	}
	tr, err := newMPTTrieReader(root, tdb)
	if err != nil {
		return fmt.Errorf("%s: trie reader: %v", what, err)
	}
	if err := c14CheckReader(tr, v, what+", trie reader"); err != nil {
		return err
	}
	if flat != nil {
		if err := c14CheckReader(flat, v, what+", flat reader"); err != nil {
			return err
		}
	}
	rd, err := db.Reader(root)
	if err != nil {
		return fmt.Errorf("%s: Reader: %v", what, err)
	}
	for i, a := range v {
		if a == nil || a.Code == 0 {
			continue
		}
		h := crypto.Keccak256Hash(c14Codes[a.Code])
		if got := rd.Code(c14Addrs[i], h); !bytes.Equal(got, c14Codes[a.Code]) {
			return fmt.Errorf("%s: Reader.Code(%s)=%x, model %x", what, c14AddrNames[i], got, c14Codes[a.Code])
		}
		if got := rd.CodeSize(c14Addrs[i], h); got != len(c14Codes[a.Code]) {
			return fmt.Errorf("%s: Reader.CodeSize(%s)=%d, model %d", what, c14AddrNames[i], got, len(c14Codes[a.Code]))
		}
	}
	// state iterators (flat state where available): exactly the model's accounts and slots
	itee, err := db.Iteratee(root)
	if err != nil {
		return fmt.Errorf("%s: Iteratee: %v", what, err)
	}
	var wantAccts []string
	for i, a := range v {
		if a != nil {
			wantAccts = append(wantAccts, crypto.Keccak256Hash(c14Addrs[i][:]).Hex())
		}
	}
	sort.Strings(wantAccts)
	ait, err := itee.NewAccountIterator(common.Hash{})
	if err != nil {
		return fmt.Errorf("%s: NewAccountIterator: %v", what, err)
	}
	var gotAccts []string
	for ait.Next() {
		gotAccts = append(gotAccts, ait.Hash().Hex())
	}
	err = ait.Error()
	ait.Release()
	if err != nil {
		return fmt.Errorf("%s: account iterator: %v", what, err)
	}
	if strings.Join(gotAccts, ",") != strings.Join(wantAccts, ",") {
		return fmt.Errorf("%s: account iterator yields %v, model %v", what, gotAccts, wantAccts)
	}
	for i, a := range v {
		var want []string
		if a != nil {
			for k, val := range a.Stor {
				if val != 0 {
					want = append(want, fmt.Sprintf("%x=%d", crypto.Keccak256(c14Slots[k][:])[:4], val))
				}
			}
		}
		sort.Strings(want)
		sit, err := itee.NewStorageIterator(crypto.Keccak256Hash(c14Addrs[i][:]), common.Hash{})
		if err != nil {
			return fmt.Errorf("%s: NewStorageIterator(%s): %v", what, c14AddrNames[i], err)
		}
		var got []string
		for sit.Next() {
			h, val := sit.Hash(), sit.Slot()
			got = append(got, fmt.Sprintf("%x=%d", h[:4], new(big.Int).SetBytes(val[:])))
		}
		err = sit.Error()
		sit.Release()
		if err != nil {
			return fmt.Errorf("%s: storage iterator(%s): %v", what, c14AddrNames[i], err)
		}
		if strings.Join(got, ",") != strings.Join(want, ",") {
			return fmt.Errorf("%s: storage iterator of %s yields %v, model %v", what, c14AddrNames[i], got, want)
		}
	}
	// raw trie walk: number of leaves
	at, err := trie.NewStateTrie(trie.StateTrieID(root), tdb)
	if err != nil {
		return fmt.Errorf("%s: open account trie: %v", what, err)
	}
	nit, err := at.NodeIterator(nil)
	if err != nil {
		return fmt.Errorf("%s: account trie iterator: %v", what, err)
	}
	leaves := 0
	for it := trie.NewIterator(nit); it.Next(); {
		leaves++
	}
	if nit.Error() != nil {
		return fmt.Errorf("%s: account trie walk: %v", what, nit.Error())
	}
	if leaves != len(wantAccts) {
		return fmt.Errorf("%s: account trie has %d leaves, model %d accounts", what, leaves, len(wantAccts))
	}
	return nil
}

func (x *c14Sys) verifyRoot(root common.Hash, v *c14View, what string) error {
	c14Reopens.Add(1)
	var flat StateReader
	switch {
	case x.cfg.Path:
		sr, err := x.tdb.StateReader(root)
		if err != nil {
			return fmt.Errorf("%s: pathdb StateReader(%x): %v", what, root, err)
		}
		flat = newFlatReader(sr)
	case x.cfg.Snap:
		snap := x.snaps.Snapshot(root)
		if snap == nil {
			return fmt.Errorf("%s: no snapshot layer for the committed root %x", what, root)
		}
		flat = newFlatReader(snap)
	}
	return x.checkDB(x.db, x.tdb, flat, root, v, what+" ["+x.cfg.Name+"]")
}

// followUp executes one more block on top of a committed root: every account of the model is
// touched (balance +1, which walks every path of the account trie) and slot s1 of every account
// with storage is written; the block is committed and its root re-read through the readers.
func (x *c14Sys) followUp(root common.Hash, v *c14View, what string) error {
	c14FollowUps.Add(1)
	what = "follow-up block on " + what + " [" + x.cfg.Name + "]"
	s, err := New(root, x.db)
	if err != nil {
		return fmt.Errorf("%s: state.New(%x): %v", what, root, err)
	}
	next := v.clone()
	for i, a := range next {
		if a == nil {
			continue
		}
		s.AddBalance(c14Addrs[i], uint256.NewInt(1), tracing.BalanceChangeUnspecified)
		a.Bal++
		if a.Stor != [c14NS]uint8{} {
			s.SetState(c14Addrs[i], c14Slots[1], c14Val(5))
			a.Stor[1] = 5
		}
	}
	ir := s.IntermediateRoot(x.rules)
	nroot, err := s.Commit(x.rules, x.block+1)
	if err != nil {
		return fmt.Errorf("%s: Commit: %v", what, err)
	}
	if s.Error() != nil {
		return fmt.Errorf("%s: StateDB.Error(): %v", what, s.Error())
	}
	if want := next.root(); nroot != want || ir != nroot {
		return fmt.Errorf("%s: Commit root %x, IntermediateRoot %x, root of the model state %x", what, nroot, ir, want)
	}
	tr, err := newMPTTrieReader(nroot, x.tdb)
	if err != nil {
		return fmt.Errorf("%s: trie reader: %v", what, err)
	}
	if err := c14CheckReader(tr, &next, what+", trie reader"); err != nil {
		return err
	}
	var flat StateReader
	switch {
	case x.cfg.Path:
		sr, err := x.tdb.StateReader(nroot)
		if err != nil {
			return fmt.Errorf("%s: pathdb StateReader: %v", what, err)
		}
		flat = newFlatReader(sr)
	case x.cfg.Snap:
		if snap := x.snaps.Snapshot(nroot); snap != nil {
			flat = newFlatReader(snap)
		} else {
			return fmt.Errorf("%s: no snapshot layer for %x", what, nroot)
		}
	}
	if flat != nil {
		return c14CheckReader(flat, &next, what+", flat reader")
	}
	return nil
}

// verifyPersisted flushes the root to disk and reads it back through a second
// trie database opened on the same disk.
func (x *c14Sys) verifyPersisted(root common.Hash, v *c14View) error {
	c14Persisted.Add(1)
	if err := x.tdb.Commit(root, false); err != nil {
		return fmt.Errorf("triedb.Commit(%x): %v", root, err)
	}
	tdb2 := triedb.NewDatabase(x.disk, x.cfg.trieConfig())
	defer tdb2.Close()
	var flat StateReader
	if x.cfg.Path {
		sr, err := tdb2.StateReader(root)
		if err != nil {
			return fmt.Errorf("persisted: pathdb StateReader(%x): %v", root, err)
		}
		flat = newFlatReader(sr)
	}
	return x.checkDB(NewMPTDatabase(tdb2, nil), tdb2, flat, root, v, "block state persisted and reopened from disk ["+x.cfg.Name+"]")
}

// ---------------------------------------------------------------------------
// De-duplication key: model + white-box fingerprint of the live StateDB(s).

func c14Storage(b *strings.Builder, tag string, st Storage) {
	if len(st) == 0 {
		return
	}
	keys := make([]common.Hash, 0, len(st))
	for k := range st {
		keys = append(keys, k)
	}
	sort.Slice(keys, func(i, j int) bool { return bytes.Compare(keys[i][:], keys[j][:]) < 0 })
	b.WriteString(tag)
	for _, k := range keys {
		v := st[k]
		fmt.Fprintf(b, "%x=%x,", k[31], v[31])
	}
}

func c14Finger(b *strings.Builder, s *StateDB) {
	for i, addr := range c14Addrs {
		if obj := s.stateObjects[addr]; obj != nil {
			fmt.Fprintf(b, "%s{%d,%v,%x", c14AddrNames[i], obj.data.Nonce, obj.data.Balance, obj.data.CodeHash[:2])
			if obj.origin == nil {
				b.WriteByte('o')
			}
			if obj.selfDestructed {
				b.WriteByte('D')
			}
			if obj.newContract {
				b.WriteByte('N')
			}
			if obj.dirtyCode {
				b.WriteByte('C')
			}
			if obj.trie != nil {
				b.WriteByte('T')
			}
			c14Storage(b, "O", obj.originStorage)
			c14Storage(b, "P", obj.pendingStorage)
			c14Storage(b, "Y", obj.dirtyStorage)
			c14Storage(b, "U", obj.uncommittedStorage)
			b.WriteByte('}')
		}
		if obj := s.stateObjectsDestruct[addr]; obj != nil {
			fmt.Fprintf(b, "%s:X", c14AddrNames[i])
			if obj.origin == nil {
				b.WriteByte('o')
			}
		}
		if mu := s.mutations[addr]; mu != nil {
			fmt.Fprintf(b, "%s:m%d%v", c14AddrNames[i], mu.typ, mu.applied)
		}
		if _, ok := s.journal.mutations[addr]; ok {
			fmt.Fprintf(b, "%s:j", c14AddrNames[i])
		}
	}
	fmt.Fprintf(b, "J%d/%d", len(s.journal.entries), len(s.journal.validRevisions))
	if s.trie != nil {
		b.WriteByte('T')
	}
}

func (x *c14Sys) computeKey() string {
	var b strings.Builder
	x.m.cur.canon(&b)
	b.WriteByte('|')
	x.m.txStart.canon(&b)
	fmt.Fprintf(&b, "|%d,%d,%v,%v|", min(x.txOps, 1), min(x.blockOps, 1), x.copied, x.dirty)
	if x.snapOpen {
		fmt.Fprintf(&b, "S%d:", min(x.snapOps, 1))
		x.snapModel.canon(&b)
		b.WriteByte('|')
	} else if x.snapUsed {
		b.WriteString("s|")
	}
	c14Finger(&b, x.s)
	if x.aside != nil {
		b.WriteString("|" + x.asideWhat + "|")
		x.am.cur.canon(&b)
		b.WriteByte('|')
		x.am.txStart.canon(&b)
		b.WriteByte('|')
		c14Finger(&b, x.aside)
	}
	return b.String()
}

func (x *c14Sys) Key() string { return x.key }

// c14AfterIR: mid-block start state after an IntermediateRoot in which C was changed and A was
// written and restored (A's account is rewritten with identical content: its trie path is
// resolved in the loaded account trie, the leaf stays clean); tries and their tracers are live.
var c14AfterIR = []string{"AddBalance(C,1)", "SetState(A,s0,3)", "SetState(A,s0,1)", "IntermediateRoot"}

func c14Configs(r *mc.R) []*c14Cfg {
	deep, shallow, minor := mc.Pick(r, 4, 5), mc.Pick(r, 3, 5), mc.Pick(r, 3, 4)
	return []*c14Cfg{
		{Name: "hash+snapshot", Depth: deep, Snap: true},
		{Name: "path", Depth: shallow, Path: true},
		{Name: "hash+snapshot@A-destructed", Focus: "A", Depth: shallow, Snap: true, Prefix: []string{"SelfDestruct(A)", "EndTx"}},
		{Name: "path@A-destructed", Focus: "A", Depth: deep, Path: true, Prefix: []string{"SelfDestruct(A)", "EndTx"}},
		{Name: "path@A-two-slots-written", Focus: "A", Depth: deep, Path: true, Prefix: []string{"SetState(A,s0,3)", "SetState(A,s2,4)", "EndTx"}},
		{Name: "hash+snapshot@A-two-slots-written", Focus: "A", Depth: shallow, Snap: true, Prefix: []string{"SetState(A,s0,3)", "SetState(A,s2,4)", "EndTx"}},
		{Name: "path@after-IntermediateRoot", Depth: shallow, Path: true, Prefix: c14AfterIR},
		{Name: "hash+snapshot@after-IntermediateRoot", Depth: shallow, Snap: true, Prefix: c14AfterIR},
		// dedicated families for contract code: an account that received code in the running block
		// (new in this transaction / in an earlier transaction / destructed and recreated), with a
		// second code, Snapshot and RevertToSnapshot one step away; alphabet focused on that account
		{Name: "path@C-deployed-this-tx", Depth: deep, Path: true, Focus: "C", Prefix: []string{"Create(C)", "SetCode(C,c3)"}},
		{Name: "hash+snapshot@C-deployed-earlier-tx", Depth: deep, Snap: true, Focus: "C", Prefix: []string{"Create(C)", "SetCode(C,c3)", "EndTx"}},
		{Name: "path@A-recreated-with-code", Depth: deep, Path: true, Focus: "A", Prefix: []string{"SelfDestruct(A)", "EndTx", "Create(A)", "SetCode(A,c3)"}},
		{Name: "path/cancun", Depth: minor, Path: true, Cancun: true},
		{Name: "hash", Depth: minor, Path: false},
		{Name: "hash+snapshot/cancun", Depth: minor, Snap: true, Cancun: true},
		{Name: "path+prefetcher", Depth: minor, Path: true, Prefetch: true},
		{Name: "hash+snapshot+prefetcher", Depth: minor, Snap: true, Prefetch: true},
	}
}

func TestVerif_C14(t *testing.T) {
	mc.Run(t, "C14", func(r *mc.R) {
		defer debug.SetGCPercent(debug.SetGCPercent(400)) // allocation-heavy, tiny live heap
		r.Rule("BFS over operation sequences on a StateDB opened on a committed base state (contract A with code and 2 slots, plain account B, absent C, untouched contract D); " +
			"alphabet on A and C: SetState(s0,3|0), SetState(s2,4), writes of the committed base value of s0/s2 (restore), SelfDestruct, Create (= evm.create: CreateAccount if absent, CreateContract, nonce 1), AddBalance, SetCode with two codes that are not on disk; " +
			"Snapshot / RevertToSnapshot (one window per transaction); " +
			"EndTx (Finalise), IntermediateRoot mid-block, EndBlock (IntermediateRoot, Commit, next block on state.New(root)), Copy continuing on the copy / on the original (the other side is left alone and committed at EndBlock); " +
			"one exploration per configuration {hash, hash+snapshot, path} x {pre-Cancun, Cancun} (+ prefetcher); a state = model + white-box fingerprint of the StateDB(s)")
		r.Assume("reference model = plain account table (balance, nonce, code, storage) with transaction/block boundaries; expected roots from an ordered stack trie over the table")
		r.Assume("API contract as driven by the EVM: SetState/SetCode on existing accounts, Create only on addresses without nonce/code/storage, SelfDestruct of pre-existing accounts only before Cancun (EIP-6780 afterwards)")
		r.Assume("getter sweeps and reopen checks run on the new transition of every explored sequence (prefixes are re-executed without observation, so observation never perturbs an explored history)")
		for _, cfg := range c14Configs(r) {
			if r.Expired() {
				break
			}
			ops := c14OpsFor(cfg)
			names := make([]string, len(ops))
			for i, o := range ops {
				names[i] = o.name()
			}
			r.Explore(mc.Config{
				Name:  cfg.Name,
				Ops:   names,
				Depth: cfg.Depth,
				New:   func() mc.Sys { return c14NewSys(r, cfg, ops) },
				Close: func(s mc.Sys) { s.(*c14Sys).close() },
			})
		}
		r.OutcomeN("observed_transitions", c14Armed.Load())
		r.OutcomeN("roots_reopened_and_checked", c14Reopens.Load())
		r.OutcomeN("roots_persisted_and_reopened_from_disk", c14Persisted.Load())
		r.OutcomeN("follow_up_blocks_on_committed_roots", c14FollowUps.Load())
		r.OutcomeN("reverts_to_snapshot", c14Reverts.Load())
		r.OutcomeN("code_blobs_checked_on_disk_and_through_cold_reader", c14ColdCode.Load())
		r.OutcomeN("copy_other_side_sweeps", c14AsideSweeps.Load())
		r.OutcomeN("commits_wiping_a_destructed_account_with_storage", c14Wipes.Load())
		r.OutcomeN("commits_with_destructed_account_recreated_in_the_block", c14Resurrections.Load())
	})
}
