//go:build verif

package snapshot

// C22 (legacy snapshot tree part) - flat-state iterators enumerate exactly the live entries.
//
// Same exploration as the path database part (triedb/pathdb/zz_verif_C22_test.go), on the real
// snapshot.Tree: one delta per diff layer (account create / modify / destruct / destruct-and-recreate,
// slot set / delete), plus the structural operations Cap(head, n) that flattens the two bottom-most
// diff layers into one accumulator layer and Cap(head, 0) that persists everything, on prepared
// bases. After every operation every live root is iterated with the fast (merged) and the binary
// iterators from every seek position and compared with the reference world of that root.

import (
	"bytes"
	"crypto/sha256"
	"fmt"
	"math/big"
	"sort"
	"strings"
	"sync"
	"testing"

	"github.com/VictoriaMetrics/fastcache"
	"github.com/ethereum/go-ethereum/common"
	"github.com/ethereum/go-ethereum/core/rawdb"
	"github.com/ethereum/go-ethereum/core/types"
	"github.com/ethereum/go-ethereum/crypto"
	"github.com/ethereum/go-ethereum/ethdb"
	"github.com/ethereum/go-ethereum/internal/verif/mc"
	"github.com/ethereum/go-ethereum/trie"
	"github.com/holiman/uint256"
)

// ---------------------------------------------------------------------------
// Reference worlds.

const (
	c22NAcct = 3
	c22NSlot = 2
)

type c22Acct struct {
	N uint8           // 0 absent, else nonce 1|2
	S [c22NSlot]uint8 // slot values, 0 absent
}

type c22World [c22NAcct]c22Acct

func (w c22World) String() string {
	var sb strings.Builder
	for i, a := range w {
		fmt.Fprintf(&sb, "%c%d", 'A'+i, a.N)
		if i < 2 {
			fmt.Fprintf(&sb, "[%d%d]", a.S[0], a.S[1])
		}
	}
	return sb.String()
}

var (
	// account and slot hashes are synthetic (the flat state never checks pre-images): they include the
	// smallest non-zero hash, a hash with trailing zero bytes (seek positions are right-trimmed for the
	// key-value iterator) and the maximal hash.
	c22AcctHash = [c22NAcct]common.Hash{
		common.HexToHash("0x0000000000000000000000000000000000000000000000000000000000000001"),
		common.HexToHash("0x8000000000000000000000000000000000000000000000000000000000000000"),
		common.HexToHash("0xffffffffffffffffffffffffffffffffffffffffffffffffffffffffffffffff"),
	}
	c22AcctAddr = [c22NAcct]common.Address{common.HexToAddress("0xa1"), common.HexToAddress("0xb2"), common.HexToAddress("0xc3")}
	c22SlotHash = [c22NSlot]common.Hash{
		common.HexToHash("0x1000000000000000000000000000000000000000000000000000000000000000"),
		common.HexToHash("0xfffffffffffffffffffffffffffffffffffffffffffffffffffffffffffffffe"),
	}
)

func c22AccountBlob(a c22Acct) []byte {
	if a.N == 0 {
		return nil
	}
	root := types.EmptyRootHash
	if a.S != ([c22NSlot]uint8{}) {
		root = crypto.Keccak256Hash([]byte{0xc2, a.S[0], a.S[1]}) // stands for the storage root: changes with every slot change
	}
	return types.SlimAccountRLP(types.StateAccount{Nonce: uint64(a.N), Balance: uint256.NewInt(7), Root: root, CodeHash: types.EmptyCodeHash[:]})
}

func c22SlotBlob(v uint8) []byte {
	if v == 0 {
		return nil
	}
	return []byte{v}
}

type c22Entry struct {
	h common.Hash
	v []byte
}

func (w c22World) accounts() []c22Entry {
	var out []c22Entry
	for i, a := range w {
		if a.N != 0 {
			out = append(out, c22Entry{c22AcctHash[i], c22AccountBlob(a)})
		}
	}
	sort.Slice(out, func(i, j int) bool { return bytes.Compare(out[i].h[:], out[j].h[:]) < 0 })
	return out
}

func (w c22World) slots(acct int) []c22Entry {
	var out []c22Entry
	for j, v := range w[acct].S {
		if w[acct].N != 0 && v != 0 {
			out = append(out, c22Entry{c22SlotHash[j], c22SlotBlob(v)})
		}
	}
	sort.Slice(out, func(i, j int) bool { return bytes.Compare(out[i].h[:], out[j].h[:]) < 0 })
	return out
}

// ---------------------------------------------------------------------------
// Deltas (one per layer).

type c22Delta struct {
	name string
	acct int
	kind int // 0 set, 1 del, 2 recreate, 3 slot set, 4 slot del
	slot int
}

func c22Deltas() []c22Delta {
	var ds []c22Delta
	for i := 0; i < c22NAcct; i++ {
		n := string(rune('A' + i))
		ds = append(ds, c22Delta{n + ".set", i, 0, 0}, c22Delta{n + ".destruct", i, 1, 0})
		if i < 2 {
			ds = append(ds, c22Delta{n + ".destruct+recreate", i, 2, 0})
		}
	}
	for i := 0; i < 2; i++ {
		n := string(rune('A' + i))
		for j := 0; j < c22NSlot; j++ {
			ds = append(ds, c22Delta{fmt.Sprintf("%s.s%d.set", n, j+1), i, 3, j}, c22Delta{fmt.Sprintf("%s.s%d.del", n, j+1), i, 4, j})
		}
	}
	return ds
}

// apply returns the successor world and whether the delta is enabled in w.
func (d c22Delta) apply(w c22World) (c22World, bool) {
	a := &w[d.acct]
	switch d.kind {
	case 0: // create, or modify the nonce
		if a.N == 0 {
			a.N = 1
		} else {
			a.N = 3 - a.N
		}
	case 1:
		if a.N == 0 {
			return w, false
		}
		*a = c22Acct{}
	case 2: // destructed and recreated in the same transition with a fresh storage {s2}
		if a.N == 0 {
			return w, false
		}
		nv := uint8(2)
		if a.S[1] == 2 {
			nv = 1
		}
		*a = c22Acct{N: 3 - a.N, S: [c22NSlot]uint8{0, nv}}
	case 3:
		if a.N == 0 {
			return w, false
		}
		if a.S[d.slot] == 1 {
			a.S[d.slot] = 2
		} else {
			a.S[d.slot] = 1
		}
	case 4:
		if a.N == 0 || a.S[d.slot] == 0 {
			return w, false
		}
		a.S[d.slot] = 0
	}
	return w, true
}

// c22StateSet is the flat-state diff from world p to world c in the form the
// state database hands it over: changed accounts (nil = deleted) and changed
// slots (nil = deleted; a destructed account lists all its former slots).
func c22StateSet(p, c c22World) (map[common.Hash][]byte, map[common.Hash]map[common.Hash][]byte) {
	accounts := map[common.Hash][]byte{}
	storages := map[common.Hash]map[common.Hash][]byte{}
	for i := 0; i < c22NAcct; i++ {
		pb, cb := c22AccountBlob(p[i]), c22AccountBlob(c[i])
		if !bytes.Equal(pb, cb) {
			accounts[c22AcctHash[i]] = cb
		}
		for j := 0; j < c22NSlot; j++ {
			var pv, cv uint8
			if p[i].N != 0 {
				pv = p[i].S[j]
			}
			if c[i].N != 0 {
				cv = c[i].S[j]
			}
			if pv != cv {
				if storages[c22AcctHash[i]] == nil {
					storages[c22AcctHash[i]] = map[common.Hash][]byte{}
				}
				storages[c22AcctHash[i]][c22SlotHash[j]] = c22SlotBlob(cv)
			}
		}
	}
	return accounts, storages
}

// ---------------------------------------------------------------------------
// Seek positions.

func c22Seeks(keys []common.Hash) []common.Hash {
	seen := map[common.Hash]bool{}
	var out []common.Hash
	add := func(h common.Hash) {
		if !seen[h] {
			seen[h] = true
			out = append(out, h)
		}
	}
	max := new(big.Int).Sub(new(big.Int).Lsh(big.NewInt(1), 256), big.NewInt(1))
	add(common.Hash{})
	for _, k := range keys {
		x := new(big.Int).SetBytes(k[:])
		if x.Sign() > 0 {
			add(common.BigToHash(new(big.Int).Sub(x, big.NewInt(1))))
		}
		add(k)
		if x.Cmp(max) < 0 {
			add(common.BigToHash(new(big.Int).Add(x, big.NewInt(1))))
		}
	}
	add(common.BigToHash(max))
	sort.Slice(out, func(i, j int) bool { return bytes.Compare(out[i][:], out[j][:]) < 0 })
	return out
}

var (
	c22AcctSeeks = c22Seeks(c22AcctHash[:])
	c22SlotSeeks = c22Seeks(c22SlotHash[:])
)

func c22From(all []c22Entry, seek common.Hash) []c22Entry {
	for i, e := range all {
		if bytes.Compare(e.h[:], seek[:]) >= 0 {
			return all[i:]
		}
	}
	return nil
}

// ---------------------------------------------------------------------------
// Trie agreement of the reference (once per world): the leaves of the state /
// storage trie of a world, in iteration order, are the reference entries.

var c22TrieChecked sync.Map

func c22CheckTrieOrder(w c22World) error {
	if _, done := c22TrieChecked.LoadOrStore(w, true); done {
		return nil
	}
	cmp := func(what string, want []c22Entry, conv func([]byte) []byte) error {
		tr, err := trie.New(trie.TrieID(types.EmptyRootHash), nil)
		if err != nil {
			return err
		}
		for i := len(want) - 1; i >= 0; i-- {
			tr.MustUpdate(want[i].h[:], conv(want[i].v))
		}
		it := trie.NewIterator(tr.MustNodeIterator(nil))
		n := 0
		for it.Next() {
			if n >= len(want) || !bytes.Equal(it.Key, want[n].h[:]) || !bytes.Equal(it.Value, conv(want[n].v)) {
				return fmt.Errorf("world %v: %s trie leaf #%d = %x, reference order has %v", w, what, n, it.Key, want)
			}
			n++
		}
		if n != len(want) {
			return fmt.Errorf("world %v: %s trie has %d leaves, reference %d", w, what, n, len(want))
		}
		return nil
	}
	if err := cmp("account", w.accounts(), func(slim []byte) []byte {
		full, err := types.FullAccountRLP(slim)
		if err != nil {
			panic(err)
		}
		return full
	}); err != nil {
		return err
	}
	for i := 0; i < c22NAcct; i++ {
		if err := cmp(fmt.Sprintf("storage(%c)", 'A'+i), w.slots(i), func(b []byte) []byte { return b }); err != nil {
			return err
		}
	}
	return nil
}

// ---------------------------------------------------------------------------
// Configuration, model stack and live instance.

type c22Cfg struct {
	Name    string
	Disk    c22World   // world persisted to the key-value store before the exploration
	Preload []c22Delta // deltas stacked afterwards; all but the last are flattened into one accumulator layer
}

type c22Layer struct {
	root  common.Hash
	world c22World
}

type c22Stack struct {
	layers []c22Layer // [0] = disk layer, then the diff layers up to the head
	dead   []c22Layer // roots that were flattened away
}

func (s *c22Stack) head() c22Layer { return s.layers[len(s.layers)-1] }

type c22Inst struct {
	kv    ethdb.KeyValueStore
	snaps *Tree
}

var c22BaseRoot = common.HexToHash("0xc22")

func c22NewInst() *c22Inst {
	kv := rawdb.NewMemoryDatabase()
	rawdb.WriteSnapshotRoot(kv, c22BaseRoot) // what a persisted disk layer leaves behind; needed to load the tree again
	base := &diskLayer{diskdb: kv, root: c22BaseRoot, cache: fastcache.New(64 * 1024)}
	return &c22Inst{kv: kv, snaps: &Tree{diskdb: kv, layers: map[common.Hash]snapshot{base.root: base}}}
}

// reload journals the tree from head and loads it back from the key-value
// store, the way a node restart does.
func (in *c22Inst) reload(head common.Hash, wantLayers int) error {
	if _, err := in.snaps.Journal(head); err != nil {
		return fmt.Errorf("Journal: %v", err)
	}
	in.snaps.Release()
	reloaded, err := New(Config{CacheSize: 1, NoBuild: true}, in.kv, nil, head)
	if err != nil {
		return fmt.Errorf("snapshot.New after Journal: %v", err)
	}
	in.snaps = reloaded
	if len(reloaded.layers) != wantLayers {
		return fmt.Errorf("reloaded tree has %d layers, journalled %d", len(reloaded.layers), wantLayers)
	}
	return nil
}

func (in *c22Inst) close() {
	in.snaps.Release()
	in.kv.Close()
}

func c22ChildRoot(parent common.Hash, name string) common.Hash {
	return crypto.Keccak256Hash(parent[:], []byte(name))
}

// ---------------------------------------------------------------------------
// Iterator runs.

type c22Stats struct{ iterators, entries int }

func c22Drain(it Iterator, value func() []byte) ([]c22Entry, error) {
	defer it.Release()
	var out []c22Entry
	for it.Next() {
		out = append(out, c22Entry{it.Hash(), common.CopyBytes(value())})
		if len(out) > 16 {
			return out, fmt.Errorf("iterator does not terminate: %d entries so far", len(out))
		}
	}
	return out, it.Error()
}

func c22Equal(a, b []c22Entry) bool {
	if len(a) != len(b) {
		return false
	}
	for i := range a {
		if a[i].h != b[i].h || !bytes.Equal(a[i].v, b[i].v) {
			return false
		}
	}
	return true
}

func c22Fmt(es []c22Entry) string {
	var parts []string
	for _, e := range es {
		parts = append(parts, fmt.Sprintf("%x..=%x", e.h[:2], e.v))
	}
	return "[" + strings.Join(parts, " ") + "]"
}

// checkRoot runs every iterator kind at every seek position on one live root.
// quickTouch restricts it to the zero seek.
func (in *c22Inst) checkRoot(l c22Layer, quickTouch bool, st *c22Stats) error {
	lay := in.snaps.Snapshot(l.root)
	if lay == nil {
		return fmt.Errorf("live root %x.. (%v) is not in the snapshot tree", l.root[:4], l.world)
	}
	wantA := l.world.accounts()
	aseeks, sseeks := c22AcctSeeks, c22SlotSeeks
	if quickTouch {
		aseeks, sseeks = aseeks[:1], sseeks[:1]
	}
	for _, kind := range []string{"fast", "binary"} {
		for _, seek := range aseeks {
			var it AccountIterator
			var err error
			if kind == "fast" {
				it, err = in.snaps.AccountIterator(l.root, seek)
				if err != nil {
					return fmt.Errorf("AccountIterator(%v, seek=%x) failed: %v", l.world, seek, err)
				}
			} else {
				switch x := lay.(type) {
				case *diffLayer:
					it = x.newBinaryAccountIterator(seek)
				case *diskLayer:
					it = x.AccountIterator(seek) // a disk layer alone is iterated directly
				}
			}
			got, err := c22Drain(it, it.Account)
			st.iterators++
			st.entries += len(got)
			want := c22From(wantA, seek)
			if err != nil {
				return fmt.Errorf("%s account iterator at %v seek=%x: error %v after %s", kind, l.world, seek, err, c22Fmt(got))
			}
			if !c22Equal(got, want) {
				return fmt.Errorf("%s account iterator at %v seek=%x yields %s, the state has %s", kind, l.world, seek, c22Fmt(got), c22Fmt(want))
			}
		}
		for a := 0; a < c22NAcct; a++ {
			wantS := l.world.slots(a)
			for si, seek := range sseeks {
				if a == c22NAcct-1 && si > 0 {
					break // account C never has storage: one (empty) iteration suffices
				}
				var it StorageIterator
				var err error
				if kind == "fast" {
					it, err = in.snaps.StorageIterator(l.root, c22AcctHash[a], seek)
					if err != nil {
						return fmt.Errorf("StorageIterator(%v, %c, seek=%x) failed: %v", l.world, 'A'+a, seek, err)
					}
				} else {
					switch x := lay.(type) {
					case *diffLayer:
						it = x.newBinaryStorageIterator(c22AcctHash[a], seek)
					case *diskLayer:
						it = x.StorageIterator(c22AcctHash[a], seek)
					}
				}
				got, err := c22Drain(it, it.Slot)
				st.iterators++
				st.entries += len(got)
				want := c22From(wantS, seek)
				if err != nil {
					return fmt.Errorf("%s storage iterator of %c at %v seek=%x: error %v after %s", kind, 'A'+a, l.world, seek, err, c22Fmt(got))
				}
				if !c22Equal(got, want) {
					return fmt.Errorf("%s storage iterator of %c at %v seek=%x yields %s, the state has %s", kind, 'A'+a, l.world, seek, c22Fmt(got), c22Fmt(want))
				}
			}
		}
	}
	return nil
}

// check runs the iterators on every live root. After a structural operation (or
// when allRoots is set) every root gets every seek position; after a new layer
// was stacked on top only the new head does, the roots below (whose stacks are
// unchanged and were checked completely when they were the head) are iterated
// from the zero position only.
func (in *c22Inst) check(s *c22Stack, quickTouch, allRoots bool, st *c22Stats) error {
	for i, l := range s.layers {
		if err := c22CheckTrieOrder(l.world); err != nil {
			return err
		}
		touch := quickTouch || (!allRoots && i != len(s.layers)-1)
		if err := in.checkRoot(l, touch, st); err != nil {
			return err
		}
	}
	if quickTouch {
		return nil
	}
	// roots that were flattened away must not be iterable as anything but themselves
	for _, l := range s.dead {
		it, err := in.snaps.AccountIterator(l.root, common.Hash{})
		if err != nil {
			continue
		}
		got, err := c22Drain(it, it.Account)
		if err == nil && !c22Equal(got, l.world.accounts()) {
			return fmt.Errorf("account iterator at the flattened root of %v yields %s without error", l.world, c22Fmt(got))
		}
	}
	return nil
}

// fingerprint: content and sorted-list caches of every layer and the flat
// state in the key-value store.
func (in *c22Inst) fingerprint(s *c22Stack) string {
	var sb strings.Builder
	for _, l := range s.layers {
		switch x := in.snaps.layers[l.root].(type) {
		case *diskLayer:
			fmt.Fprintf(&sb, "disk(stale=%v):", x.stale)
		case *diffLayer:
			fmt.Fprintf(&sb, "diff(stale=%v,al=%v):", x.stale.Load(), x.accountList != nil)
			for i, h := range c22AcctHash {
				if v, ok := x.accountData[h]; ok {
					fmt.Fprintf(&sb, "a%d=%x/%v;", i, v, v == nil) // nil-ness is part of the state: deletions are nil
				}
				if m, ok := x.storageData[h]; ok {
					sb.WriteString("{")
					for j, sh := range c22SlotHash {
						if v, ok := m[sh]; ok {
							fmt.Fprintf(&sb, "s%d=%x/%v;", j, v, v == nil)
						}
					}
					sb.WriteString("}")
				}
				_, cached := x.storageList[h]
				fmt.Fprintf(&sb, "c%v;", cached)
			}
		default:
			sb.WriteString("missing:")
		}
	}
	fmt.Fprintf(&sb, "n=%d|", len(in.snaps.layers))
	for _, p := range [][]byte{rawdb.SnapshotAccountPrefix, rawdb.SnapshotStoragePrefix} {
		it := in.kv.NewIterator(p, nil)
		for it.Next() {
			fmt.Fprintf(&sb, "%x=%x;", it.Key(), it.Value())
		}
		it.Release()
	}
	sum := sha256.Sum256([]byte(sb.String()))
	return string(sum[:16])
}

// ---------------------------------------------------------------------------
// The explored system.

type c22Shared struct {
	cfg    c22Cfg
	deltas []c22Delta
	names  []string
	mu     sync.Mutex
	counts map[string]int64
	st     c22Stats
	shapes map[string]bool
}

const (
	c22OpFlatten = -1
	c22OpPersist = -2
	c22OpReload  = -3
)

func c22NewShared(cfg c22Cfg) *c22Shared {
	sh := &c22Shared{cfg: cfg, deltas: c22Deltas(), counts: map[string]int64{}, shapes: map[string]bool{}}
	for _, d := range sh.deltas {
		sh.names = append(sh.names, d.name)
	}
	sh.names = append(sh.names, "flatten-two-bottom-diffs", "persist-head", "journal+reload")
	return sh
}

type c22Sys struct {
	sh    *c22Shared
	stack *c22Stack
	trace []int
	in    *c22Inst
	err   error
}

func (sh *c22Shared) initialStack() *c22Stack {
	return &c22Stack{layers: []c22Layer{{root: c22BaseRoot}}}
}

func (sh *c22Shared) newSys() mc.Sys {
	s := &c22Sys{sh: sh, stack: sh.initialStack()}
	for _, op := range sh.preloadOps() {
		if !s.modelStep(s.stack, op, false) {
			panic("c22: preload op not enabled")
		}
	}
	s.stack.dead = nil
	return s
}

func (sh *c22Shared) find(acct, kind, slot int) int {
	for i, d := range sh.deltas {
		if d.acct == acct && d.kind == kind && d.slot == slot {
			return i
		}
	}
	panic("c22: no such delta")
}

// preload operations, expressed with the same primitives as the explored ones
func (sh *c22Shared) preloadOps() []int {
	var ops []int
	w := c22World{}
	if sh.cfg.Disk != w {
		for i := 0; i < c22NAcct; i++ {
			for w[i].N != sh.cfg.Disk[i].N {
				ops = append(ops, sh.find(i, 0, 0))
				w, _ = sh.deltas[ops[len(ops)-1]].apply(w)
			}
			for j := 0; j < c22NSlot; j++ {
				for w[i].S[j] != sh.cfg.Disk[i].S[j] {
					ops = append(ops, sh.find(i, 3, j))
					w, _ = sh.deltas[ops[len(ops)-1]].apply(w)
				}
			}
		}
		ops = append(ops, c22OpPersist)
	}
	for _, d := range sh.cfg.Preload {
		ops = append(ops, sh.find(d.acct, d.kind, d.slot))
	}
	for i := 0; i+2 < len(sh.cfg.Preload); i++ {
		ops = append(ops, c22OpFlatten)
	}
	return ops
}

func (s *c22Sys) opOf(i int) int {
	switch {
	case i < len(s.sh.deltas):
		return i
	case i == len(s.sh.deltas):
		return c22OpFlatten
	case i == len(s.sh.deltas)+1:
		return c22OpPersist
	default:
		return c22OpReload
	}
}

// modelStep applies op to the reference stack; false if not enabled.
func (s *c22Sys) modelStep(st *c22Stack, op int, limit bool) bool {
	switch op {
	case c22OpReload:
		return true // Journal(head) + snapshot.New: the stack and its worlds do not change
	case c22OpFlatten:
		if len(st.layers) < 4 {
			return false // needs three diff layers: the two bottom-most ones are merged below the third
		}
		st.dead = append(st.dead, st.layers[1])
		st.layers = append(st.layers[:1:1], st.layers[2:]...)
		return true
	case c22OpPersist:
		if len(st.layers) < 2 {
			return false
		}
		st.dead = append(st.dead, st.layers[:len(st.layers)-1]...)
		st.layers = st.layers[len(st.layers)-1:]
		return true
	}
	if limit && len(st.layers) > 4 {
		return false // at most 4 diff layers on top of the disk layer
	}
	d := s.sh.deltas[op]
	head := st.head()
	nw, ok := d.apply(head.world)
	if !ok {
		return false
	}
	st.layers = append(st.layers, c22Layer{root: c22ChildRoot(head.root, d.name), world: nw})
	return true
}

func (s *c22Sys) realStep(st *c22Stack, op int) error {
	switch op {
	case c22OpReload:
		return s.in.reload(st.head().root, len(st.layers))
	case c22OpFlatten:
		return s.in.snaps.Cap(st.head().root, len(st.layers)-3)
	case c22OpPersist:
		return s.in.snaps.Cap(st.head().root, 0)
	}
	head := st.head()
	d := s.sh.deltas[op]
	nw, _ := d.apply(head.world)
	accounts, storage := c22StateSet(head.world, nw)
	return s.in.snaps.Update(c22ChildRoot(head.root, d.name), head.root, accounts, storage)
}

func (s *c22Sys) Enabled(i int) bool {
	probe := &c22Stack{layers: append([]c22Layer{}, s.stack.layers...)}
	if !s.modelStep(probe, s.opOf(i), true) {
		return false
	}
	s.materialise()
	return true
}

func (s *c22Sys) materialise() {
	if s.in != nil {
		return
	}
	s.in = c22NewInst()
	st := s.sh.initialStack()
	var stats c22Stats
	for _, op := range s.sh.preloadOps() {
		if err := s.realStep(st, op); err != nil {
			panic(fmt.Sprintf("c22: preload %d: %v", op, err))
		}
		s.modelStep(st, op, false)
	}
	st.dead = nil
	if err := s.in.check(st, true, false, &stats); err != nil {
		s.err = fmt.Errorf("prepared base: %v", err)
		return
	}
	for _, i := range s.trace {
		op := s.opOf(i)
		if err := s.realStep(st, op); err != nil {
			s.err = fmt.Errorf("replay divergence at prefix op %s: %v", s.sh.names[i], err)
			return
		}
		s.modelStep(st, op, true)
		if err := s.in.check(st, true, false, &stats); err != nil {
			s.err = fmt.Errorf("replay divergence at prefix op %s: %v", s.sh.names[i], err)
			return
		}
	}
}

func (s *c22Sys) Apply(i int) error {
	op := s.opOf(i)
	if s.in == nil {
		if !s.modelStep(s.stack, op, true) {
			return fmt.Errorf("c22: op %s applied while disabled", s.sh.names[i])
		}
		s.trace = append(s.trace, i)
		return nil
	}
	if s.err != nil {
		return s.err
	}
	if err := s.realStep(s.stack, op); err != nil {
		return fmt.Errorf("%s failed: %v", s.sh.names[i], err)
	}
	s.modelStep(s.stack, op, true)
	s.trace = append(s.trace, i)
	var st c22Stats
	err := s.in.check(s.stack, false, op < 0 || len(s.trace) == 1, &st)
	sh := s.sh
	sh.mu.Lock()
	switch op {
	case c22OpFlatten:
		sh.counts["flatten"]++
	case c22OpPersist:
		sh.counts["persist"]++
	case c22OpReload:
		sh.counts["journal+reload"]++
	default:
		sh.counts[[]string{"account set", "account destruct", "account destruct+recreate", "slot set", "slot delete"}[sh.deltas[op].kind]]++
	}
	sh.st.iterators += st.iterators
	sh.st.entries += st.entries
	it := s.in.kv.NewIterator(rawdb.SnapshotAccountPrefix, nil)
	store := it.Next()
	it.Release()
	sh.shapes[fmt.Sprintf("store=%v diffs=%d", store, len(s.stack.layers)-1)] = true
	sh.mu.Unlock()
	return err
}

func (s *c22Sys) Key() string {
	s.materialise()
	if s.err != nil {
		return ""
	}
	var sb strings.Builder
	for _, l := range s.stack.layers {
		sb.WriteString(l.world.String() + "/")
	}
	return sb.String() + "#" + s.in.fingerprint(s.stack)
}

func c22Close(s mc.Sys) {
	if in := s.(*c22Sys).in; in != nil {
		in.close()
	}
}

func TestVerif_C22_snapshot(t *testing.T) {
	mc.Run(t, "C22", func(r *mc.R) {
		r.Rule("explicit-state BFS over layer stacks of the real legacy snapshot.Tree: one delta per diff layer out of {account create/modify, destruct, destruct+recreate with fresh storage, slot set, slot delete} " +
			"over 3 accounts x 2 slots, plus Cap(head,n) flattening the two bottom-most diff layers, Cap(head,0) and journal+reload (Tree.Journal(head) then snapshot.New on the same store), on prepared bases; after every operation every live root is iterated with the fast and " +
			"the binary account iterator and all storage iterators from every seek position; state key = worlds of the stack + content/list caches of all layers and the flat store")
		r.Bound("accounts", c22NAcct)
		r.Bound("slots_per_account", c22NSlot)
		r.Bound("account_seek_positions", len(c22AcctSeeks))
		r.Bound("slot_seek_positions", len(c22SlotSeeks))
		r.Assume("reference = per-root world (sorted existing entries >= seek); its order is cross-checked once per world against the leaf order of a trie built from it; synthetic account/slot hashes and layer roots; snapshot generation is complete (no generator marker)")
		rich := c22World{{N: 1, S: [2]uint8{1, 1}}, {N: 1, S: [2]uint8{0, 1}}, {N: 1}}
		ds := c22Deltas()
		pick := func(acct, kind, slot int) c22Delta {
			for _, d := range ds {
				if d.acct == acct && d.kind == kind && d.slot == slot {
					return d
				}
			}
			panic("c22: delta")
		}
		// accumulator layer on top of the rich store: A destructed and recreated, slot of B deleted (flattened into
		// one diff layer that does not mention C); C destructed stays as a separate diff layer on top of it.
		stacked := []c22Delta{pick(0, 2, 0), pick(1, 4, 1), pick(2, 1, 0)}
		type plan struct {
			cfg   c22Cfg
			depth int
		}
		dq := mc.Pick(r, 3, 4)
		plans := []plan{
			{c22Cfg{Name: "fresh"}, mc.Pick(r, 3, 5)},
			{c22Cfg{Name: "store", Disk: rich}, dq},
			{c22Cfg{Name: "store+accumulator", Disk: rich, Preload: stacked}, dq},
		}
		for _, p := range plans {
			if r.Expired() {
				break
			}
			sh := c22NewShared(p.cfg)
			r.Bound(p.cfg.Name+".depth", p.depth)
			r.Explore(mc.Config{Name: "C22/snapshot/" + p.cfg.Name, Ops: sh.names, Depth: p.depth, New: sh.newSys, Close: c22Close})
			var tr int64
			for k, v := range sh.counts {
				r.OutcomeN(p.cfg.Name+"/"+k, v)
				tr += v
			}
			r.OutcomeN(p.cfg.Name+"/transitions", tr)
			r.OutcomeN(p.cfg.Name+"/iterator runs", int64(sh.st.iterators))
			r.OutcomeN(p.cfg.Name+"/entries yielded", int64(sh.st.entries))
			var shapes []string
			for s := range sh.shapes {
				shapes = append(shapes, s)
			}
			sort.Strings(shapes)
			r.Bound(p.cfg.Name+".stack_shapes", shapes)
		}
	})
}
