//go:build verif

package state

// C15 — "Block access lists record exactly the net state changes".
//
// Builds on the C13 system (zz_verif_C13_test.go: real StateDB + reference account
// model, Amsterdam rules). Every transaction of an explored operation sequence is
// closed with Finalise; the per-transaction ConstructionBlockAccessList it returns
// is compared with the diff of the reference model between the start and the end
// of the transaction (accounts accessed, balance/nonce/code that differ, slots
// whose value differs as writes, other accessed slots as reads, reverted frames
// contribute accesses only). The per-transaction lists are merged into a block
// level list exactly as core.StateProcessor does, compared with the merged model,
// and the encoded form is checked (independent ordering check, Validate, RLP
// round trip, hash) together with every single edit of it (must be rejected).

import (
	"bytes"
	"fmt"
	"sort"
	"strings"
	"sync"
	"sync/atomic"
	"testing"

	"github.com/ethereum/go-ethereum/common"
	"github.com/ethereum/go-ethereum/core/types/bal"
	"github.com/ethereum/go-ethereum/crypto"
	"github.com/ethereum/go-ethereum/internal/verif/mc"
	"github.com/ethereum/go-ethereum/rlp"
)

// c15Acct is the expected access-list content of one account (per transaction or merged per block).
type c15Acct struct {
	bal    map[uint32]uint64
	nonce  map[uint32]uint64
	code   map[uint32]int
	writes map[int]map[uint32]uint8
	reads  map[int]bool
}

func c15NewAcct() *c15Acct {
	return &c15Acct{bal: map[uint32]uint64{}, nonce: map[uint32]uint64{}, code: map[uint32]int{}, writes: map[int]map[uint32]uint8{}, reads: map[int]bool{}}
}

type c15List map[int]*c15Acct

func (l c15List) changes() int {
	n := 0
	for _, a := range l {
		n += len(a.bal) + len(a.nonce) + len(a.code) + len(a.writes)
	}
	return n
}

// merge applies a later transaction's list on top (reads are unioned, a slot written anywhere is not a read).
func (l c15List) merge(o c15List) {
	for a, oa := range o {
		la := l[a]
		if la == nil {
			la = c15NewAcct()
			l[a] = la
		}
		for k, v := range oa.bal {
			la.bal[k] = v
		}
		for k, v := range oa.nonce {
			la.nonce[k] = v
		}
		for k, v := range oa.code {
			la.code[k] = v
		}
		for s, w := range oa.writes {
			if la.writes[s] == nil {
				la.writes[s] = map[uint32]uint8{}
			}
			for k, v := range w {
				la.writes[s][k] = v
			}
		}
		for s := range oa.reads {
			la.reads[s] = true
		}
		for s := range la.writes {
			delete(la.reads, s)
		}
	}
}

func (l c15List) canon() string {
	var b strings.Builder
	for a := 0; a < 3; a++ {
		if x := l[a]; x != nil {
			fmt.Fprintf(&b, "%d{b%v n%v c%v w%v r%v}", a, x.bal, x.nonce, x.code, x.writes, x.reads)
		}
	}
	return b.String()
}

// c15Compare compares a construction list produced by the implementation with the expected one.
func c15Compare(got *bal.ConstructionBlockAccessList, want c15List) error {
	if got == nil {
		return fmt.Errorf("access list is nil")
	}
	for a, w := range want {
		g := got.Accounts[c13Addrs[a]]
		an := c13AddrNames[a]
		if g == nil {
			return fmt.Errorf("account %s was accessed but is missing from the list", an)
		}
		if len(g.BalanceChanges) != len(w.bal) {
			return fmt.Errorf("%s: balance changes %v, expected %v", an, g.BalanceChanges, w.bal)
		}
		for idx, v := range w.bal {
			if gv := g.BalanceChanges[idx]; gv == nil || !gv.IsUint64() || gv.Uint64() != v {
				return fmt.Errorf("%s: balance change at index %d = %v, expected %d", an, idx, gv, v)
			}
		}
		if len(g.NonceChanges) != len(w.nonce) {
			return fmt.Errorf("%s: nonce changes %v, expected %v", an, g.NonceChanges, w.nonce)
		}
		for idx, v := range w.nonce {
			if gv, ok := g.NonceChanges[idx]; !ok || gv != v {
				return fmt.Errorf("%s: nonce change at index %d = %v (present %v), expected %d", an, idx, gv, ok, v)
			}
		}
		if len(g.CodeChange) != len(w.code) {
			return fmt.Errorf("%s: code changes %x, expected %v", an, g.CodeChange, w.code)
		}
		for idx, v := range w.code {
			if gv, ok := g.CodeChange[idx]; !ok || !bytes.Equal(gv, c13Codes[v]) {
				return fmt.Errorf("%s: code change at index %d = %x (present %v), expected %x", an, idx, gv, ok, c13Codes[v])
			}
		}
		if len(g.StorageWrites) != len(w.writes) {
			return fmt.Errorf("%s: storage writes %v, expected %v", an, g.StorageWrites, w.writes)
		}
		for s, ww := range w.writes {
			gw := g.StorageWrites[c13Slots[s]]
			if len(gw) != len(ww) {
				return fmt.Errorf("%s: writes of slot s%d = %v, expected %v", an, s, gw, ww)
			}
			for idx, v := range ww {
				if gv, ok := gw[idx]; !ok || gv != c13Val(v) {
					return fmt.Errorf("%s: write of slot s%d at index %d = %x (present %v), expected %d", an, s, idx, gv, ok, v)
				}
			}
		}
		if len(g.StorageReads) != len(w.reads) {
			return fmt.Errorf("%s: storage reads %v, expected slots %v", an, g.StorageReads, w.reads)
		}
		for s := range w.reads {
			if _, ok := g.StorageReads[c13Slots[s]]; !ok {
				return fmt.Errorf("%s: slot s%d was accessed without net change but is not listed as read", an, s)
			}
		}
	}
	if len(got.Accounts) != len(want) {
		var extra []string
		for addr := range got.Accounts {
			extra = append(extra, addr.Hex())
		}
		sort.Strings(extra)
		return fmt.Errorf("list contains %d accounts %v, expected %d", len(got.Accounts), extra, len(want))
	}
	return nil
}

var (
	c15SeenEnc  sync.Map // hash of encoded list -> struct{}: the single-edit check is made once per distinct list
	c15Edits    atomic.Int64
	c15Lists    atomic.Int64
	c15TxChecks atomic.Int64
)

const c15GasLimit = 30_000_000

// c15CheckEncoding checks the encoded form of a (block level) list with txCount transactions.
func c15CheckEncoding(list *bal.ConstructionBlockAccessList, txCount int) error {
	enc := list.ToEncodingObj()
	maxIdx := uint32(txCount + 1)
	// independent ordering / uniqueness check
	for i := range *enc {
		acc := &(*enc)[i]
		if i > 0 && bytes.Compare((*enc)[i-1].Address[:], acc.Address[:]) >= 0 {
			return fmt.Errorf("encoded accounts not strictly ascending at %d", i)
		}
		written := map[common.Hash]bool{}
		for j := range acc.StorageChanges {
			sc := &acc.StorageChanges[j]
			if j > 0 && acc.StorageChanges[j-1].Slot.Cmp(sc.Slot) >= 0 {
				return fmt.Errorf("%x: storage change slots not strictly ascending", acc.Address)
			}
			if len(sc.SlotChanges) == 0 {
				return fmt.Errorf("%x: slot %v without changes", acc.Address, sc.Slot)
			}
			for k := range sc.SlotChanges {
				if k > 0 && sc.SlotChanges[k-1].BlockAccessIndex >= sc.SlotChanges[k].BlockAccessIndex {
					return fmt.Errorf("%x: slot %v change indices not strictly ascending", acc.Address, sc.Slot)
				}
				if sc.SlotChanges[k].BlockAccessIndex > maxIdx {
					return fmt.Errorf("%x: slot change index %d beyond %d", acc.Address, sc.SlotChanges[k].BlockAccessIndex, maxIdx)
				}
			}
			written[sc.Slot.Bytes32()] = true
		}
		for j := range acc.StorageReads {
			if j > 0 && acc.StorageReads[j-1].Cmp(acc.StorageReads[j]) >= 0 {
				return fmt.Errorf("%x: storage reads not strictly ascending", acc.Address)
			}
			if written[acc.StorageReads[j].Bytes32()] {
				return fmt.Errorf("%x: slot %v listed as read and as write", acc.Address, acc.StorageReads[j])
			}
		}
		for j := range acc.BalanceChanges {
			if j > 0 && acc.BalanceChanges[j-1].BlockAccessIndex >= acc.BalanceChanges[j].BlockAccessIndex || acc.BalanceChanges[j].BlockAccessIndex > maxIdx {
				return fmt.Errorf("%x: balance change indices not strictly ascending / in range", acc.Address)
			}
		}
		for j := range acc.NonceChanges {
			if j > 0 && acc.NonceChanges[j-1].BlockAccessIndex >= acc.NonceChanges[j].BlockAccessIndex || acc.NonceChanges[j].BlockAccessIndex > maxIdx {
				return fmt.Errorf("%x: nonce change indices not strictly ascending / in range", acc.Address)
			}
		}
		for j := range acc.CodeChanges {
			if j > 0 && acc.CodeChanges[j-1].BlockAccessIndex >= acc.CodeChanges[j].BlockAccessIndex || acc.CodeChanges[j].BlockAccessIndex > maxIdx {
				return fmt.Errorf("%x: code change indices not strictly ascending / in range", acc.Address)
			}
		}
	}
	if err := enc.Validate(c15GasLimit, txCount); err != nil {
		return fmt.Errorf("Validate rejects the list built during execution: %v\n%s", err, enc.PrettyPrint())
	}
	b1, err := rlp.EncodeToBytes(enc)
	if err != nil {
		return fmt.Errorf("encode: %v", err)
	}
	var viaConstruction bytes.Buffer
	if err := list.EncodeRLP(&viaConstruction); err != nil || !bytes.Equal(viaConstruction.Bytes(), b1) {
		return fmt.Errorf("ConstructionBlockAccessList.EncodeRLP differs from ToEncodingObj().EncodeRLP (err %v)", err)
	}
	var dec bal.BlockAccessList
	if err := rlp.DecodeBytes(b1, &dec); err != nil {
		return fmt.Errorf("decode(encode(list)): %v", err)
	}
	b2, err := rlp.EncodeToBytes(&dec)
	if err != nil || !bytes.Equal(b1, b2) {
		return fmt.Errorf("encode(decode(encode(list))) differs: %x vs %x (err %v)", b2, b1, err)
	}
	if err := dec.Validate(c15GasLimit, txCount); err != nil {
		return fmt.Errorf("Validate rejects the decoded list: %v", err)
	}
	h := enc.Hash()
	if h != crypto.Keccak256Hash(b1) || h != enc.Hash() || h != dec.Hash() {
		return fmt.Errorf("hash not stable: %x, keccak(encoding) %x, decoded %x", h, crypto.Keccak256Hash(b1), dec.Hash())
	}
	if _, dup := c15SeenEnc.LoadOrStore(h, struct{}{}); dup {
		return nil
	}
	c15Lists.Add(1)
	return c15SingleEdits(enc, txCount)
}

// c15SingleEdits applies every single structural edit (swap of neighbours, duplication of an element, index
// beyond the transaction count, written slot also listed as read) to the encoded list; each edited list must be
// rejected by Validate after an RLP round trip (or fail to decode).
func c15SingleEdits(enc *bal.BlockAccessList, txCount int) error {
	rejected := func(what string, l *bal.BlockAccessList) error {
		c15Edits.Add(1)
		b, err := rlp.EncodeToBytes(l)
		if err != nil {
			return nil
		}
		var dec bal.BlockAccessList
		if err := rlp.DecodeBytes(b, &dec); err != nil {
			return nil
		}
		if err := dec.Validate(c15GasLimit, txCount); err == nil {
			return fmt.Errorf("edited list (%s) passes Validate:\n%s", what, dec.PrettyPrint())
		}
		return nil
	}
	n := len(*enc)
	for i := 0; i < n; i++ {
		if i+1 < n {
			l := *enc.Copy()
			l[i], l[i+1] = l[i+1], l[i]
			if err := rejected(fmt.Sprintf("accounts %d,%d swapped", i, i+1), &l); err != nil {
				return err
			}
		}
		{
			l := *enc.Copy()
			l = append(l[:i+1], l[i:]...)
			l[i+1] = l[i].Copy()
			if err := rejected(fmt.Sprintf("account %d duplicated", i), &l); err != nil {
				return err
			}
		}
		acc := (*enc)[i]
		for j := range acc.StorageChanges {
			if j+1 < len(acc.StorageChanges) {
				l := *enc.Copy()
				sc := l[i].StorageChanges
				sc[j], sc[j+1] = sc[j+1], sc[j]
				if err := rejected("storage change slots swapped", &l); err != nil {
					return err
				}
			}
			{
				l := *enc.Copy()
				sc := l[i].StorageChanges
				l[i].StorageChanges = append(sc[:j+1], sc[j:]...)
				if err := rejected("storage change slot duplicated", &l); err != nil {
					return err
				}
			}
			{
				l := *enc.Copy()
				w := l[i].StorageChanges[j].SlotChanges
				l[i].StorageChanges[j].SlotChanges = append(w, w[len(w)-1])
				if err := rejected("slot write duplicated", &l); err != nil {
					return err
				}
			}
			if len(acc.StorageChanges[j].SlotChanges) > 1 {
				l := *enc.Copy()
				w := l[i].StorageChanges[j].SlotChanges
				w[0], w[1] = w[1], w[0]
				if err := rejected("slot writes swapped", &l); err != nil {
					return err
				}
			}
			{
				l := *enc.Copy()
				w := l[i].StorageChanges[j].SlotChanges
				w[len(w)-1].BlockAccessIndex = uint32(txCount + 2)
				if err := rejected("slot write index beyond the transaction count", &l); err != nil {
					return err
				}
			}
			{
				l := *enc.Copy()
				l[i].StorageReads = append(l[i].StorageReads, nil)
				copy(l[i].StorageReads[1:], l[i].StorageReads)
				l[i].StorageReads[0] = acc.StorageChanges[j].Slot.Clone()
				sort.Slice(l[i].StorageReads, func(a, b int) bool { return l[i].StorageReads[a].Cmp(l[i].StorageReads[b]) < 0 })
				if err := rejected("written slot also listed as read", &l); err != nil {
					return err
				}
			}
		}
		for j := range acc.StorageReads {
			if j+1 < len(acc.StorageReads) {
				l := *enc.Copy()
				sr := l[i].StorageReads
				sr[j], sr[j+1] = sr[j+1], sr[j]
				if err := rejected("storage reads swapped", &l); err != nil {
					return err
				}
			}
			l := *enc.Copy()
			sr := l[i].StorageReads
			l[i].StorageReads = append(sr[:j+1], sr[j:]...)
			l[i].StorageReads[j+1] = sr[j].Clone()
			if err := rejected("storage read duplicated", &l); err != nil {
				return err
			}
		}
		if k := len(acc.BalanceChanges); k > 0 {
			l := *enc.Copy()
			l[i].BalanceChanges = append(l[i].BalanceChanges, l[i].BalanceChanges[k-1])
			if err := rejected("balance change duplicated", &l); err != nil {
				return err
			}
			l = *enc.Copy()
			l[i].BalanceChanges[k-1].BlockAccessIndex = uint32(txCount + 2)
			if err := rejected("balance change index beyond the transaction count", &l); err != nil {
				return err
			}
			if k > 1 {
				l = *enc.Copy()
				l[i].BalanceChanges[0], l[i].BalanceChanges[1] = l[i].BalanceChanges[1], l[i].BalanceChanges[0]
				if err := rejected("balance changes swapped", &l); err != nil {
					return err
				}
			}
		}
		if k := len(acc.NonceChanges); k > 0 {
			l := *enc.Copy()
			l[i].NonceChanges = append(l[i].NonceChanges, l[i].NonceChanges[k-1])
			if err := rejected("nonce change duplicated", &l); err != nil {
				return err
			}
			l = *enc.Copy()
			l[i].NonceChanges[k-1].BlockAccessIndex = uint32(txCount + 2)
			if err := rejected("nonce change index beyond the transaction count", &l); err != nil {
				return err
			}
			if k > 1 {
				l = *enc.Copy()
				l[i].NonceChanges[0], l[i].NonceChanges[1] = l[i].NonceChanges[1], l[i].NonceChanges[0]
				if err := rejected("nonce changes swapped", &l); err != nil {
					return err
				}
			}
		}
		if k := len(acc.CodeChanges); k > 0 {
			l := *enc.Copy()
			l[i].CodeChanges = append(l[i].CodeChanges, l[i].CodeChanges[k-1])
			if err := rejected("code change duplicated", &l); err != nil {
				return err
			}
			l = *enc.Copy()
			l[i].CodeChanges[k-1].BlockAccessIndex = uint32(txCount + 2)
			if err := rejected("code change index beyond the transaction count", &l); err != nil {
				return err
			}
			if k > 1 {
				l = *enc.Copy()
				l[i].CodeChanges[0], l[i].CodeChanges[1] = l[i].CodeChanges[1], l[i].CodeChanges[0]
				if err := rejected("code changes swapped", &l); err != nil {
					return err
				}
			}
		}
	}
	return nil
}

// ---------------------------------------------------------------------------

type c15Sys struct {
	in      *c13Sys
	r       *mc.R
	txStart map[int]c13Acct // accounts at the start of the current transaction
	accAddr map[int]bool    // accounts accessed in the current transaction (reverted frames included)
	accSlot map[[2]int]bool // slots accessed in the current transaction (reverted frames included)
	wrote   bool            // a state-writing operation was executed in the current transaction
	revd    bool            // a frame of the current transaction was reverted
	block   *bal.ConstructionBlockAccessList
	mblock  c15List
	last    string
}

func c15NewSys(r *mc.R, ru *c13Rules, base *c13Base, ops []c13Op) *c15Sys {
	x := &c15Sys{in: c13NewSys(r, ru, base, ops), r: r, block: bal.NewConstructionBlockAccessList(), mblock: c15List{}, last: "initial"}
	x.beginTx()
	return x
}

func (x *c15Sys) beginTx() {
	x.txStart = map[int]c13Acct{}
	for a, acc := range x.in.m.f.accts {
		x.txStart[a] = *acc
	}
	x.accAddr = map[int]bool{}
	x.accSlot = map[[2]int]bool{}
	x.wrote, x.revd = false, false
}

func (x *c15Sys) Enabled(i int) bool {
	if o := x.in.ops[i]; o.kind == c13kSetState {
		// caller contract: SSTORE only runs in the context of a contract account (code, or nonce >= 1 which a
		// post-EIP-158 CREATE sets before the init code runs); storage on an EIP-161-empty account is unreachable.
		if acc := x.in.m.f.accts[o.a]; acc == nil || (acc.nonce == 0 && acc.code == 0) {
			return false
		}
	}
	return x.in.Enabled(i)
}

func (x *c15Sys) Apply(i int) error {
	o := x.in.ops[i]
	m := x.in.m
	armed := x.in.armed
	x.last = "op"
	switch o.kind {
	case c13kAddBal, c13kSubBal, c13kSetNonce, c13kSetCode, c13kCreateContract, c13kSelfDestruct:
		x.accAddr[o.a] = true
		x.wrote = true
	case c13kTouch:
		x.accAddr[o.a] = true
	case c13kCreateAccount:
		// caller contract: the EVM creates an account only after Exist() returned false
		if x.in.s.Exist(c13Addrs[o.a]) {
			return fmt.Errorf("Exist(%s) = true before CreateAccount, model says the account does not exist", c13AddrNames[o.a])
		}
		x.accAddr[o.a] = true
		x.wrote = true
	case c13kSetState:
		x.accAddr[o.a] = true
		x.accSlot[[2]int{o.a, o.s}] = true
		x.wrote = true
	case c13kGetState:
		x.accAddr[o.a] = true
		if m.f.accts[o.a] != nil {
			x.accSlot[[2]int{o.a, o.s}] = true
		}
	case c13kRevert:
		x.revd = true
	}
	tx := m.tx
	if err := x.in.Apply(i); err != nil {
		return err
	}
	if o.kind != c13kEndTx {
		return nil
	}
	// ---- end of transaction `tx` (block access index tx+1): expected list = diff of the model
	idx := uint32(tx + 1)
	exp := c15List{}
	for a := range x.accAddr {
		e := c15NewAcct()
		exp[a] = e
		pre := x.txStart[a] // zero value: the account did not exist
		var post c13Acct
		if acc := m.f.accts[a]; acc != nil {
			post = *acc
		}
		if pre.bal != post.bal {
			e.bal[idx] = post.bal
		}
		if pre.nonce != post.nonce {
			e.nonce[idx] = post.nonce
		}
		if pre.code != post.code {
			e.code[idx] = post.code
		}
		for s := 0; s < 2; s++ {
			if pre.stor[s] != post.stor[s] {
				e.writes[s] = map[uint32]uint8{idx: post.stor[s]}
			} else if x.accSlot[[2]int{a, s}] {
				e.reads[s] = true
			}
		}
	}
	got := x.in.lastBAL
	if err := c15Compare(got, exp); err != nil {
		return fmt.Errorf("access list of transaction %d: %v\nexpected %s\ngot:\n%s", tx, err, exp.canon(), c15Pretty(got))
	}
	c15TxChecks.Add(1)
	switch {
	case exp.changes() > 0 && x.revd:
		x.last = "tx-net-change-with-reverted-frame"
	case exp.changes() > 0:
		x.last = "tx-net-change"
	case x.wrote && x.revd:
		x.last = "tx-no-net-change-after-revert"
	case x.wrote:
		x.last = "tx-no-net-change-values-restored-or-account-removed"
	default:
		x.last = "tx-reads-only"
	}
	// block level: merge like core.StateProcessor does, compare with the merged model
	x.block.Merge(got)
	x.mblock.merge(exp)
	if err := c15Compare(x.block, x.mblock); err != nil {
		return fmt.Errorf("block access list after merging transaction %d: %v\nexpected %s\ngot:\n%s", tx, err, x.mblock.canon(), c15Pretty(x.block))
	}
	if armed {
		if err := c15CheckEncoding(x.block, tx+1); err != nil {
			return fmt.Errorf("encoded block access list after transaction %d: %v", tx, err)
		}
	}
	x.beginTx()
	return nil
}

func c15Pretty(l *bal.ConstructionBlockAccessList) string {
	if l == nil {
		return "<nil>"
	}
	return l.PrettyPrint()
}

func (x *c15Sys) Key() string {
	x.in.last = x.last
	k := x.in.Key()
	var b strings.Builder
	b.WriteString(k)
	fmt.Fprintf(&b, "|%v|%v|", x.accAddr, x.accSlot)
	for a := 0; a < 3; a++ {
		if acc, ok := x.txStart[a]; ok {
			fmt.Fprintf(&b, "%d:%d,%d,%d,%v;", a, acc.nonce, acc.bal, acc.code, acc.stor)
		}
	}
	b.WriteString(x.mblock.canon())
	// white box: the list under construction in the StateDB (the merged block list equals mblock, compared at every EndTx)
	if l := x.in.s.stateAccessList; l != nil {
		for a := 0; a < 3; a++ {
			if acc := l.Accounts[c13Addrs[a]]; acc != nil {
				fmt.Fprintf(&b, "|%d:%d,%d,%d,w%d,r%d", a, len(acc.BalanceChanges), len(acc.NonceChanges), len(acc.CodeChange), len(acc.StorageWrites), len(acc.StorageReads))
				for sl := 0; sl < 2; sl++ {
					_, w := acc.StorageWrites[c13Slots[sl]]
					_, rd := acc.StorageReads[c13Slots[sl]]
					fmt.Fprintf(&b, ",%v%v", w, rd)
				}
			}
		}
		fmt.Fprintf(&b, "|n%d", len(l.Accounts))
	}
	return fmt.Sprintf("%x", crypto.Keccak256([]byte(b.String()))[:16])
}

// ---------------------------------------------------------------------------
// Alphabets (Amsterdam rules only).

// c15ChangeRestoreOps: on the committed contract A every field can be changed and restored inside one
// transaction (balance +1/-1, nonce 2/1, code c2/c1, slot s0 2/1, slot s1 0/2), B is the legacy empty account.
func c15ChangeRestoreOps(wide bool) []c13Op {
	ops := []c13Op{
		{kind: c13kAddBal, a: c13A, v: 1},
		{kind: c13kSubBal, a: c13A, v: 1},
		{kind: c13kSetNonce, a: c13A, v: 2},
		{kind: c13kSetNonce, a: c13A, v: 1},
		{kind: c13kSetCode, a: c13A, v: 2},
		{kind: c13kSetCode, a: c13A, v: 1},
		{kind: c13kSetState, a: c13A, s: 0, v: 2},
		{kind: c13kSetState, a: c13A, s: 0, v: 1},
		{kind: c13kGetState, a: c13A, s: 1},
		{kind: c13kAddBal, a: c13B, v: 1},
		{kind: c13kSubBal, a: c13B, v: 1},
	}
	if wide {
		ops = append(ops,
			c13Op{kind: c13kSetState, a: c13A, s: 1, v: 0},
			c13Op{kind: c13kSetState, a: c13A, s: 1, v: 2},
			c13Op{kind: c13kGetState, a: c13A, s: 0},
			c13Op{kind: c13kAddBal, a: c13B, v: 0},
			c13Op{kind: c13kSetState, a: c13B, s: 0, v: 1},
			c13Op{kind: c13kGetState, a: c13B, s: 0},
			c13Op{kind: c13kRevert, v: 1},
		)
	}
	return append(ops,
		c13Op{kind: c13kSnapshot},
		c13Op{kind: c13kRevert, v: 0},
		c13Op{kind: c13kEndTx},
	)
}

// c15CreateOps: account / contract creation and same-transaction destruction on a fresh address B next to the
// pre-funded address A.
func c15CreateOps() []c13Op {
	return []c13Op{
		{kind: c13kCreateAccount, a: c13B},
		{kind: c13kCreateContract, a: c13B},
		{kind: c13kSetNonce, a: c13B, v: 1},
		{kind: c13kSetCode, a: c13B, v: 2},
		{kind: c13kSetState, a: c13B, s: 0, v: 1},
		{kind: c13kAddBal, a: c13B, v: 1},
		{kind: c13kSubBal, a: c13B, v: 1},
		{kind: c13kSelfDestruct, a: c13B},
		{kind: c13kAddBal, a: c13A, v: 0},
		{kind: c13kCreateContract, a: c13A},
		{kind: c13kSelfDestruct, a: c13A},
		{kind: c13kSnapshot},
		{kind: c13kRevert, v: 0},
		{kind: c13kEndTx},
	}
}

func c15Explore(r *mc.R, family, start string, ops []c13Op, depth int) {
	ru := &c13RuleSets[2] // amsterdam
	base, err := c13BuildBase(start, c13Starts[start])
	if err != nil {
		r.Violation("base:"+start, "cannot build committed start state: "+err.Error(), nil)
		return
	}
	before := c15TxChecks.Load()
	name := fmt.Sprintf("%s/%s", family, start)
	defer func() { r.Bound(name+".transactions_compared", c15TxChecks.Load()-before) }()
	r.Explore(mc.Config{
		Name:  name,
		Ops:   c13Names(ops),
		Depth: depth,
		New:   func() mc.Sys { return c15NewSys(r, ru, base, ops) },
	})
}

func TestVerif_C15(t *testing.T) {
	mc.Run(t, "C15", func(r *mc.R) {
		r.Rule("BFS over all sequences of StateDB operations under Amsterdam rules (change and restore of balance, nonce, code and storage of a committed " +
			"contract, reads, creation and same-transaction self-destruct of fresh accounts, snapshot/revert, end of transaction) up to the depth bound; " +
			"every Finalise result and every merged block list is compared with the diff of the reference model; distinct = model state + StateDB " +
			"fingerprint + list under construction + merged block list")
		r.Assume("expected list of a transaction = for every account accessed by any operation (reverted or not): balance / nonce / code listed iff the value at " +
			"the end of the transaction differs from the value at its start (non-existent = 0 / 0 / empty), slot listed as write iff its value differs, " +
			"as read iff it was accessed by GetState/SetState otherwise")
		r.Assume("reference account model, fork rules and caller contract as in C13 (Amsterdam: SelfDestruct only on contracts created in the same transaction; " +
			"existing code is read before it is replaced); additionally Exist() is called before CreateAccount, as the EVM does")
		r.Assume("block level list = per-transaction lists merged in order with ConstructionBlockAccessList.Merge as in core.StateProcessor; gas limit for the size rule 30M")
		c13Observed.Store(0)
		c13Armed.Store(0)
		defer func() {
			r.Bound("transactions_compared", c15TxChecks.Load())
			r.Bound("distinct_encoded_lists", c15Lists.Load())
			r.Bound("single_edits_rejected", c15Edits.Load())
			if !r.Replaying() && c13Observed.Load() < c13Armed.Load() {
				r.Violation("harness-wiring", fmt.Sprintf("only %d of %d new transitions were observed", c13Observed.Load(), c13Armed.Load()), nil)
			}
		}()
		if r.Quick() {
			r.Bound("change_restore_depth", 5)
			r.Bound("create_depth", 5)
			c15Explore(r, "change-restore", "contract", c15ChangeRestoreOps(false), 5)
			c15Explore(r, "create-destruct", "funded", c15CreateOps(), 5)
			return
		}
		r.Bound("change_restore_depth", 6)
		r.Bound("change_restore_wide_depth", 5)
		r.Bound("create_depth", 6)
		c15Explore(r, "create-destruct", "funded", c15CreateOps(), 6)
		c15Explore(r, "change-restore-wide", "contract", c15ChangeRestoreOps(true), 5)
		c15Explore(r, "change-restore", "contract", c15ChangeRestoreOps(false), 6)
	})
}
