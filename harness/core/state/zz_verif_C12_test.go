//go:build verif

package state

// C12 — trie synchronisation completes with exactly the target nodes.
//
// The real scheduler (state.NewStateSync -> trie.Sync) is driven by an adversarial
// environment: the harness explores EVERY order of environment events
// (Missing(1|2|all), delivery of any in-flight node/code, duplicate delivery,
// corrupted delivery, unsolicited delivery, Commit) by depth-first search with
// de-duplication on a white-box fingerprint of the scheduler (request tables,
// dependency counters, queue, membatch, database contents) plus the environment
// bookkeeping. There is no depth bound: the reachable state graph of each
// configuration is explored completely.

import (
	"bytes"
	"crypto/sha256"
	"encoding/binary"
	"encoding/hex"
	"encoding/json"
	"errors"
	"fmt"
	"reflect"
	"sort"
	"strconv"
	"strings"
	"testing"
	"unsafe"

	"github.com/ethereum/go-ethereum/common"
	"github.com/ethereum/go-ethereum/common/prque"
	"github.com/ethereum/go-ethereum/core/rawdb"
	"github.com/ethereum/go-ethereum/core/types"
	"github.com/ethereum/go-ethereum/crypto"
	"github.com/ethereum/go-ethereum/ethdb"
	"github.com/ethereum/go-ethereum/internal/verif/mc"
	"github.com/ethereum/go-ethereum/rlp"
	"github.com/ethereum/go-ethereum/trie"
	"github.com/ethereum/go-ethereum/triedb"
	"github.com/ethereum/go-ethereum/triedb/pathdb"
	"github.com/holiman/uint256"
)

// ---------------------------------------------------------------------------
// Target states

type c12AcctSpec struct {
	key   string          // leading nibbles of the account hash (rest is filler)
	nonce uint64          // distinguishes account bodies
	slots map[string]byte // leading nibbles of the slot hash -> value byte
	code  string          // "" = no code
}

type c12TargetSpec struct {
	name  string
	accts []c12AcctSpec
	// tiers in which every dependency-closed pre-population is explored ("" = both); in the other tier(s) the
	// target is explored from an empty local store only (with and without foreign nodes). skipQuick drops the
	// target from the quick tier altogether.
	fullPrepop string
	skipQuick  bool
}

func c12Specs() []c12TargetSpec {
	shared := map[string]byte{"2": 1, "b": 2}
	return []c12TargetSpec{
		{name: "plain1", accts: []c12AcctSpec{{key: "3a", nonce: 1}}},
		{name: "one", accts: []c12AcctSpec{{key: "3a", nonce: 1, slots: map[string]byte{"4": 7}, code: "c1"}}},
		{name: "deepstorage", accts: []c12AcctSpec{{key: "c0", nonce: 2, slots: map[string]byte{"a1": 1, "a9": 2, "c": 3}, code: "c1"}}},
		{name: "ext", accts: []c12AcctSpec{
			{key: "5a51", nonce: 1, slots: map[string]byte{"77a": 1, "77b": 2}},
			{key: "5a5e", nonce: 2, code: "c2"},
		}},
		{name: "shared", accts: []c12AcctSpec{
			{key: "1", nonce: 1, slots: shared, code: "c1"},
			{key: "8", nonce: 2, slots: shared, code: "c1"},
		}},
		{name: "three", fullPrepop: "thorough", accts: []c12AcctSpec{
			{key: "0", nonce: 1},
			{key: "70", nonce: 2, slots: map[string]byte{"9": 5}, code: "c1"},
			{key: "7f", nonce: 3, slots: map[string]byte{"1": 1, "6": 2, "e": 3}, code: "c2"},
		}},
		{name: "four", fullPrepop: "never", skipQuick: true, accts: []c12AcctSpec{
			{key: "2", nonce: 1, slots: map[string]byte{"3": 1, "d": 2}, code: "c1"},
			{key: "94", nonce: 2, code: "c2"},
			{key: "9b1", nonce: 3, slots: map[string]byte{"3": 1, "d": 2}, code: "c1"},
			{key: "9b2", nonce: 4, slots: map[string]byte{"5": 9}},
		}},
	}
}

// c12Key expands a nibble prefix to a 32-byte key (filler nibbles are fixed, so
// the prefix alone decides the trie shape).
func c12Key(prefix string) common.Hash {
	s := prefix + strings.Repeat("0", 64-len(prefix)-2) + "e1"
	b, err := hex.DecodeString(s)
	if err != nil || len(b) != 32 {
		panic("c12: bad key prefix " + prefix)
	}
	return common.BytesToHash(b)
}

func c12Nibbles(k common.Hash) []byte {
	out := make([]byte, 64)
	for i, b := range k {
		out[2*i], out[2*i+1] = b>>4, b&15
	}
	return out
}

type c12Item struct {
	id     int
	isCode bool
	path   []byte // composite nibble path (account path ++ inner path); codes: nil
	owner  common.Hash
	inner  []byte
	hash   common.Hash
	blob   []byte
	deps   []int
	label  string
	// paths strictly inside the key of an extension node whose child is a hashed node
	extInner [][]byte
}

type c12Acct struct {
	key   common.Hash
	body  []byte // RLP of the account
	root  common.Hash
	code  common.Hash
	slots map[common.Hash][]byte // slot hash -> RLP value as stored in the trie
}

type c12Target struct {
	name   string
	root   common.Hash
	items  []*c12Item
	byPath map[string]int
	byCode map[common.Hash]int
	accts  []c12Acct
}

func c12Build(spec c12TargetSpec) *c12Target {
	tg := &c12Target{name: spec.name, byPath: map[string]int{}, byCode: map[common.Hash]int{}}
	tdb := triedb.NewDatabase(rawdb.NewMemoryDatabase(), nil)
	add := func(it *c12Item) int {
		it.id = len(tg.items)
		tg.items = append(tg.items, it)
		if it.isCode {
			tg.byCode[it.hash] = it.id
		} else {
			tg.byPath[string(it.path)] = it.id
		}
		return it.id
	}
	// link parents/children inside one trie: parent = longest proper prefix among the trie's node paths
	link := func(prefix []byte, ids []int) {
		for _, c := range ids {
			best := -1
			for _, p := range ids {
				pi, ci := tg.items[p], tg.items[c]
				if p != c && len(pi.inner) < len(ci.inner) && bytes.HasPrefix(ci.inner, pi.inner) {
					if best < 0 || len(pi.inner) > len(tg.items[best].inner) {
						best = p
					}
				}
			}
			if best >= 0 {
				pi, ci := tg.items[best], tg.items[c]
				pi.deps = append(pi.deps, c)
				if d := len(ci.inner) - len(pi.inner); d >= 2 {
					key := ci.inner[len(pi.inner):]
					for i := 1; i < len(key); i++ {
						pi.extInner = append(pi.extInner, append(append(append([]byte{}, prefix...), pi.inner...), key[:i]...))
					}
				}
			}
		}
	}
	acctTrie := trie.NewEmpty(tdb)
	type pendingStorage struct {
		key common.Hash
		ids []int
	}
	var storages []pendingStorage
	for _, as := range spec.accts {
		ak := c12Key(as.key)
		acct := c12Acct{key: ak, root: types.EmptyRootHash, code: types.EmptyCodeHash, slots: map[common.Hash][]byte{}}
		if len(as.slots) > 0 {
			st := trie.NewEmpty(tdb)
			var sk []string
			for k := range as.slots {
				sk = append(sk, k)
			}
			sort.Strings(sk)
			for _, k := range sk {
				v, _ := rlp.EncodeToBytes([]byte{as.slots[k]})
				st.MustUpdate(c12Key(k).Bytes(), v)
				acct.slots[c12Key(k)] = v
			}
			sroot, set := st.Commit(false)
			acct.root = sroot
			var paths []string
			for p := range set.Nodes {
				paths = append(paths, p)
			}
			sort.Strings(paths)
			ps := pendingStorage{key: ak}
			for _, p := range paths {
				n := set.Nodes[p]
				it := &c12Item{owner: ak, inner: []byte(p), path: append(c12Nibbles(ak), []byte(p)...), hash: n.Hash, blob: n.Blob,
					label: fmt.Sprintf("storage[%s]/%x", as.key, []byte(p))}
				ps.ids = append(ps.ids, add(it))
			}
			link(c12Nibbles(ak), ps.ids)
			storages = append(storages, ps)
		}
		if as.code != "" {
			code := []byte("code-" + as.code)
			acct.code = crypto.Keccak256Hash(code)
			if _, ok := tg.byCode[acct.code]; !ok {
				add(&c12Item{isCode: true, hash: acct.code, blob: code, label: "code[" + as.code + "]"})
			}
		}
		body, _ := rlp.EncodeToBytes(&types.StateAccount{Nonce: as.nonce, Balance: uint256.NewInt(100 + as.nonce), Root: acct.root, CodeHash: acct.code.Bytes()})
		acct.body = body
		acctTrie.MustUpdate(ak.Bytes(), body)
		tg.accts = append(tg.accts, acct)
	}
	root, set := acctTrie.Commit(false)
	tg.root = root
	var paths []string
	for p := range set.Nodes {
		paths = append(paths, p)
	}
	sort.Strings(paths)
	var ids []int
	for _, p := range paths {
		n := set.Nodes[p]
		ids = append(ids, add(&c12Item{inner: []byte(p), path: []byte(p), hash: n.Hash, blob: n.Blob, label: fmt.Sprintf("account/%x", []byte(p))}))
	}
	link(nil, ids)
	// the node holding an account leaf depends on the storage root and the code
	for _, a := range tg.accts {
		nib := c12Nibbles(a.key)
		best := -1
		for _, id := range ids {
			it := tg.items[id]
			if bytes.HasPrefix(nib, it.inner) && (best < 0 || len(it.inner) > len(tg.items[best].inner)) {
				best = id
			}
		}
		holder := tg.items[best]
		if a.root != types.EmptyRootHash {
			sr, ok := tg.byPath[string(nib)]
			if !ok || tg.items[sr].hash != a.root {
				panic("c12: storage root item not found")
			}
			holder.deps = append(holder.deps, sr)
		}
		if a.code != types.EmptyCodeHash {
			holder.deps = append(holder.deps, tg.byCode[a.code])
		}
	}
	if ri, ok := tg.byPath[""]; !ok || tg.items[ri].hash != root {
		panic("c12: root item not found")
	}
	return tg
}

// ---------------------------------------------------------------------------
// Raw database view

func c12Dump(db ethdb.Database) map[string][]byte {
	out := map[string][]byte{}
	it := db.NewIterator(nil, nil)
	defer it.Release()
	for it.Next() {
		out[string(it.Key())] = common.CopyBytes(it.Value())
	}
	return out
}

func c12RawOf(scheme string, it *c12Item) (string, []byte) {
	tmp := rawdb.NewMemoryDatabase()
	if it.isCode {
		rawdb.WriteCode(tmp, it.hash, it.blob)
	} else {
		rawdb.WriteTrieNode(tmp, it.owner, it.inner, it.hash, it.blob, scheme)
	}
	d := c12Dump(tmp)
	if len(d) != 1 {
		panic("c12: expected one raw entry")
	}
	for k, v := range d {
		return k, v
	}
	return "", nil
}

func c12RawStale(path []byte) (string, []byte) {
	tmp := rawdb.NewMemoryDatabase()
	blob := append([]byte("stale-node-at-"), path...)
	if len(path) >= 64 {
		owner := common.BytesToHash(c12Pack(path[:64]))
		rawdb.WriteStorageTrieNode(tmp, owner, path[64:], blob)
	} else {
		rawdb.WriteAccountTrieNode(tmp, path, blob)
	}
	for k, v := range c12Dump(tmp) {
		return k, v
	}
	return "", nil
}

func c12Pack(nib []byte) []byte {
	out := make([]byte, len(nib)/2)
	for i := range out {
		out[i] = nib[2*i]<<4 | nib[2*i+1]
	}
	return out
}

// c12View is a target seen through one node scheme.
type c12View struct {
	tg     *c12Target
	scheme string
	rawK   []string // per item
	rawV   [][]byte
	full   map[string][]byte // expected final database content
	class  []int             // presence class of each item (items sharing a raw key share a class)
	nclass int
	cdeps  [][]int // class -> dependent classes
	crep   []int   // class -> representative item
}

func c12NewView(tg *c12Target, scheme string) *c12View {
	v := &c12View{tg: tg, scheme: scheme, full: map[string][]byte{}}
	byKey := map[string]int{}
	for _, it := range tg.items {
		k, val := c12RawOf(scheme, it)
		v.rawK = append(v.rawK, k)
		v.rawV = append(v.rawV, val)
		v.full[k] = val
		c, ok := byKey[k]
		if !ok {
			c = v.nclass
			v.nclass++
			byKey[k] = c
			v.crep = append(v.crep, it.id)
			v.cdeps = append(v.cdeps, nil)
		}
		v.class = append(v.class, c)
	}
	for _, it := range tg.items {
		for _, d := range it.deps {
			v.cdeps[v.class[it.id]] = append(v.cdeps[v.class[it.id]], v.class[d])
		}
	}
	return v
}

// closedSubsets enumerates every dependency-closed set of presence classes (a
// valid partial local copy: a node is only present together with everything
// below it), as bit masks.
func (v *c12View) closedSubsets() []uint32 {
	var out []uint32
	for m := uint32(0); m < 1<<uint(v.nclass); m++ {
		ok := true
		for c := 0; c < v.nclass && ok; c++ {
			if m&(1<<uint(c)) == 0 {
				continue
			}
			for _, d := range v.cdeps[c] {
				if m&(1<<uint(d)) == 0 {
					ok = false
					break
				}
			}
		}
		if ok {
			out = append(out, m)
		}
	}
	return out
}

// ---------------------------------------------------------------------------
// Configuration = target x scheme x local pre-population x stale entries

type c12Desc struct {
	Target string   `json:"target"`
	Scheme string   `json:"scheme"`
	Prepop []int    `json:"prepop"` // item ids present locally before the sync starts
	Stale  []string `json:"stale"`  // hex nibble paths carrying a foreign node before the sync starts (path scheme)
	Ops    []string `json:"ops"`
}

type c12Config struct {
	v       *c12View
	prepop  uint32
	stale   [][]byte
	weight  int
	staleKV map[string][]byte // raw entries of stale (built on first use by the single goroutine owning the configuration)
}

func (c *c12Config) desc(ops []string) c12Desc {
	d := c12Desc{Target: c.v.tg.name, Scheme: c.v.scheme, Prepop: []int{}, Stale: []string{}, Ops: append([]string{}, ops...)}
	for _, it := range c.v.tg.items {
		if c.prepop&(1<<uint(c.v.class[it.id])) != 0 {
			d.Prepop = append(d.Prepop, it.id)
		}
	}
	for _, p := range c.stale {
		d.Stale = append(d.Stale, hex.EncodeToString(p))
	}
	return d
}

// stalePlacements lists the paths at which a foreign node may sit under the path
// scheme such that the scheduler is responsible for removing it: the path of a
// target node that is not present locally, and the paths strictly inside the key
// of a missing extension node.
func (c *c12Config) stalePlacements() [][]byte {
	var out [][]byte
	for _, it := range c.v.tg.items {
		if it.isCode || c.prepop&(1<<uint(c.v.class[it.id])) != 0 {
			continue
		}
		out = append(out, it.path)
		out = append(out, it.extInner...)
	}
	return out
}

// ---------------------------------------------------------------------------
// World: real scheduler + environment bookkeeping

type c12World struct {
	cfg       *c12Config
	db        ethdb.Database
	s         *trie.Sync
	initial   map[string][]byte
	staleRaw  map[string][]byte
	inflightN map[string]bool
	inflightC map[common.Hash]bool
	everN     map[string]bool
	everC     map[common.Hash]bool
	procN     map[string]bool
	procC     map[common.Hash]bool
	leafErr   error
	leaves    int
}

func (c *c12Config) newWorld() *c12World {
	w := &c12World{cfg: c, db: rawdb.NewMemoryDatabase(), staleRaw: map[string][]byte{},
		inflightN: map[string]bool{}, inflightC: map[common.Hash]bool{}, everN: map[string]bool{}, everC: map[common.Hash]bool{},
		procN: map[string]bool{}, procC: map[common.Hash]bool{}}
	for _, it := range c.v.tg.items {
		if c.prepop&(1<<uint(c.v.class[it.id])) != 0 {
			w.db.Put([]byte(c.v.rawK[it.id]), c.v.rawV[it.id])
		}
	}
	if c.staleKV == nil {
		c.staleKV = map[string][]byte{}
		for _, p := range c.stale {
			k, val := c12RawStale(p)
			c.staleKV[k] = val
		}
	}
	for k, val := range c.staleKV {
		w.db.Put([]byte(k), val)
		w.staleRaw[k] = val
	}
	w.initial = c12Dump(w.db)
	w.s = NewStateSync(c.v.tg.root, w.db, w.onLeaf, c.v.scheme)
	return w
}

// onLeaf is the external leaf callback of the state sync: every reported leaf
// must be a leaf of the target state.
func (w *c12World) onLeaf(keys [][]byte, leaf []byte) error {
	w.leaves++
	tg := w.cfg.v.tg
	bad := func() {
		if w.leafErr == nil {
			w.leafErr = fmt.Errorf("leaf callback reported keys=%x leaf=%x which is not part of the target state", keys, leaf)
		}
	}
	if len(keys) != 1 && len(keys) != 2 {
		bad()
		return nil
	}
	for _, a := range tg.accts {
		if !bytes.Equal(a.key.Bytes(), keys[0]) {
			continue
		}
		if len(keys) == 1 {
			if !bytes.Equal(a.body, leaf) {
				bad()
			}
			return nil
		}
		if v, ok := a.slots[common.BytesToHash(keys[1])]; !ok || !bytes.Equal(v, leaf) {
			bad()
		}
		return nil
	}
	bad()
	return nil
}

// --- white-box access to the scheduler -------------------------------------

func c12Acc(v reflect.Value) reflect.Value {
	if v.CanAddr() {
		return reflect.NewAt(v.Type(), unsafe.Pointer(v.UnsafeAddr())).Elem()
	}
	return v
}

func c12Field(v reflect.Value, name string) reflect.Value {
	f := v.FieldByName(name)
	if !f.IsValid() {
		panic("c12: trie.Sync layout changed, field " + name + " not found")
	}
	return c12Acc(f)
}

type c12ReqInfo struct {
	path    string
	hasData bool
	deps    int64
	parent  string
}

type c12Whitebox struct {
	nodeReqs  []c12ReqInfo
	codeReqs  []string // "hash hasData nparents path"
	codePaths map[common.Hash][]byte
	codeData  map[common.Hash]bool
	queue     int
	fetches   string
	batchOps  []string // canonical: grouped per database key, order kept inside a group
	batchLen  int
	batchSize uint64
}

func (w *c12World) whitebox() *c12Whitebox {
	wb := &c12Whitebox{codePaths: map[common.Hash][]byte{}, codeData: map[common.Hash]bool{}}
	sv := reflect.ValueOf(w.s).Elem()
	it := c12Field(sv, "nodeReqs").MapRange()
	for it.Next() {
		req := it.Value().Elem()
		ri := c12ReqInfo{path: it.Key().String(), hasData: !req.FieldByName("data").IsNil(), deps: req.FieldByName("deps").Int()}
		if p := req.FieldByName("parent"); !p.IsNil() {
			ri.parent = "^" + string(p.Elem().FieldByName("path").Bytes())
		}
		if string(req.FieldByName("path").Bytes()) != ri.path {
			panic("c12: node request registered under a different path")
		}
		wb.nodeReqs = append(wb.nodeReqs, ri)
	}
	sort.Slice(wb.nodeReqs, func(i, j int) bool { return wb.nodeReqs[i].path < wb.nodeReqs[j].path })
	ci := c12Field(sv, "codeReqs").MapRange()
	for ci.Next() {
		h := c12HashOf(ci.Key())
		req := ci.Value().Elem()
		has := !req.FieldByName("data").IsNil()
		var parents []string
		ps := req.FieldByName("parents")
		for i := 0; i < ps.Len(); i++ {
			parents = append(parents, hex.EncodeToString(ps.Index(i).Elem().FieldByName("path").Bytes()))
		}
		sort.Strings(parents)
		path := common.CopyBytes(req.FieldByName("path").Bytes())
		wb.codePaths[h] = path
		wb.codeData[h] = has
		wb.codeReqs = append(wb.codeReqs, string(h[:])+fmt.Sprint(has)+strings.Join(parents, ","))
	}
	sort.Strings(wb.codeReqs)
	wb.queue = c12Field(sv, "queue").Interface().(*prque.Prque[int64, any]).Size()
	fm := c12Field(sv, "fetches").Interface().(map[int]int)
	var fk []int
	for k := range fm {
		fk = append(fk, k)
	}
	sort.Ints(fk)
	for _, k := range fk {
		if fm[k] != 0 {
			wb.fetches += fmt.Sprintf("%d:%d,", k, fm[k])
		}
	}
	mb := c12Field(sv, "membatch").Elem()
	nodes := mb.FieldByName("nodes")
	type op struct {
		group string
		idx   int
		repr  string
	}
	var ops []op
	for i := 0; i < nodes.Len(); i++ {
		n := nodes.Index(i)
		owner := c12HashOf(n.FieldByName("owner"))
		hash := c12HashOf(n.FieldByName("hash"))
		path := n.FieldByName("path").Bytes()
		blob := n.FieldByName("blob").Bytes()
		del := n.FieldByName("del").Bool()
		g := string(owner[:]) + "/" + string(path)
		if w.cfg.v.scheme == rawdb.HashScheme {
			g = string(hash[:])
		}
		d := "w"
		if del {
			d = "d"
		}
		ops = append(ops, op{g, i, d + string(owner[:]) + string(hash[:]) + c12Len(path) + string(path) + c12Len(blob) + string(blob)})
	}
	sort.Slice(ops, func(i, j int) bool {
		if ops[i].group != ops[j].group {
			return ops[i].group < ops[j].group
		}
		return ops[i].idx < ops[j].idx
	})
	for _, o := range ops {
		wb.batchOps = append(wb.batchOps, o.repr)
	}
	codes := c12Acc(mb.FieldByName("codes")).Interface().(map[common.Hash][]byte)
	var cs []string
	for h, b := range codes {
		cs = append(cs, "c"+string(h[:])+c12Len(b)+string(b))
	}
	sort.Strings(cs)
	wb.batchOps = append(wb.batchOps, cs...)
	wb.batchLen = nodes.Len() + len(codes)
	wb.batchSize = mb.FieldByName("size").Uint()
	return wb
}

func c12HashOf(v reflect.Value) common.Hash {
	var h common.Hash
	for i := 0; i < 32; i++ {
		h[i] = byte(v.Index(i).Uint())
	}
	return h
}

type c12Key32 [32]byte

// key is the de-duplication key: the complete scheduler state (white box), the
// database contents and the environment bookkeeping.
func (w *c12World) key() (c12Key32, *c12Whitebox) {
	wb := w.whitebox()
	h := sha256.New()
	var num [8]byte
	put := func(tag byte, parts ...string) {
		h.Write([]byte{tag})
		for _, p := range parts {
			binary.LittleEndian.PutUint64(num[:], uint64(len(p)))
			h.Write(num[:])
			h.Write([]byte(p))
		}
	}
	for _, r := range wb.nodeReqs {
		d := "0"
		if r.hasData {
			d = "1"
		}
		put('N', r.path, d, strconv.FormatInt(r.deps, 10), r.parent)
	}
	for _, c := range wb.codeReqs {
		put('C', c)
	}
	put('Q', strconv.Itoa(wb.queue), wb.fetches, strconv.FormatUint(wb.batchSize, 10))
	for _, o := range wb.batchOps {
		put('M', o)
	}
	it := w.db.NewIterator(nil, nil)
	for it.Next() {
		put('D', string(it.Key()), string(it.Value()))
	}
	it.Release()
	wset := func(tag byte, m map[string]bool) {
		ks := make([]string, 0, len(m))
		for k := range m {
			ks = append(ks, k)
		}
		sort.Strings(ks)
		put(tag, ks...)
	}
	hset := func(tag byte, m map[common.Hash]bool) {
		ks := make([]string, 0, len(m))
		for k := range m {
			ks = append(ks, string(k[:]))
		}
		sort.Strings(ks)
		put(tag, ks...)
	}
	wset('i', w.inflightN)
	hset('j', w.inflightC)
	wset('e', w.everN)
	hset('f', w.everC)
	wset('p', w.procN)
	hset('q', w.procC)
	var k c12Key32
	copy(k[:], h.Sum(nil))
	return k, wb
}

func c12Len(b []byte) string {
	var num [4]byte
	binary.LittleEndian.PutUint32(num[:], uint32(len(b)))
	return string(num[:])
}

// --- events ---------------------------------------------------------------

func c12Prio(path []byte) string {
	n := len(path)
	if n > 14 {
		n = 14
	}
	return fmt.Sprintf("%03d/%x", len(path), path[:n])
}

// missingDeterministic reports whether Missing(n) hands out a set of requests
// that does not depend on the tie-break among equally prioritised queue entries
// (the priority only encodes the depth and the first 14 nibbles; ties are broken
// by heap history, which depends on goroutine completion order inside
// Sync.children and is therefore not replayable).
func (w *c12World) missingDeterministic(wb *c12Whitebox, n int) bool {
	var prios []string
	for _, r := range wb.nodeReqs {
		if !r.hasData && !w.inflightN[r.path] {
			prios = append(prios, c12Prio([]byte(r.path)))
		}
	}
	for h, p := range wb.codePaths {
		if !wb.codeData[h] && !w.inflightC[h] {
			prios = append(prios, c12Prio(p))
		}
	}
	if len(prios) <= n {
		return true
	}
	// order: deeper first, then lexicographically smaller first
	sort.Slice(prios, func(i, j int) bool {
		a, b := prios[i], prios[j]
		if a[:3] != b[:3] {
			return a[:3] > b[:3]
		}
		return a < b
	})
	return prios[n-1] != prios[n]
}

func (w *c12World) progressEvents(wb *c12Whitebox) []string {
	var evs []string
	if wb.queue > 0 {
		// Missing(n) with n >= queue size is Missing(all)
		if wb.queue > 1 && w.missingDeterministic(wb, 1) {
			evs = append(evs, "missing:1")
		}
		if wb.queue > 2 && w.missingDeterministic(wb, 2) {
			evs = append(evs, "missing:2")
		}
		evs = append(evs, "missing:0")
	}
	var ns []string
	for p := range w.inflightN {
		ns = append(ns, "node:"+hex.EncodeToString([]byte(p)))
	}
	sort.Strings(ns)
	evs = append(evs, ns...)
	var cs []string
	for h := range w.inflightC {
		cs = append(cs, "code:"+hex.EncodeToString(h[:]))
	}
	sort.Strings(cs)
	evs = append(evs, cs...)
	evs = append(evs, "commit")
	return evs
}

// selfLoopEvents are the environment misbehaviours: each must be refused and
// must leave the scheduler, the membatch and the database untouched.
func (w *c12World) selfLoopEvents(wb *c12Whitebox) []string {
	var evs []string
	for p := range w.inflightN {
		hp := hex.EncodeToString([]byte(p))
		evs = append(evs, "bad-empty:"+hp, "bad-trunc:"+hp, "bad-list3:"+hp, "bad-string:"+hp)
	}
	for p := range w.procN {
		evs = append(evs, "dup-node:"+hex.EncodeToString([]byte(p)))
	}
	for h := range w.procC {
		evs = append(evs, "dup-code:"+hex.EncodeToString(h[:]))
	}
	known := map[string]bool{}
	for _, r := range wb.nodeReqs {
		known[r.path] = true
	}
	for _, it := range w.cfg.v.tg.items {
		if it.isCode {
			if _, pending := wb.codePaths[it.hash]; !pending && !w.procC[it.hash] {
				evs = append(evs, "unsolicited-code:"+hex.EncodeToString(it.hash[:]))
			}
		} else if !known[string(it.path)] && !w.procN[string(it.path)] {
			evs = append(evs, "unsolicited-node:"+hex.EncodeToString(it.path))
		}
	}
	sort.Strings(evs)
	return evs
}

func (w *c12World) present(id int) bool {
	v, err := w.db.Get([]byte(w.cfg.v.rawK[id]))
	return err == nil && bytes.Equal(v, w.cfg.v.rawV[id])
}

// checkDB: the database only ever holds target entries (plus the not yet removed
// foreign entries it started with) and is dependency closed: a target node is
// present only together with everything it references.
func (w *c12World) checkDB() error {
	v := w.cfg.v
	for k, val := range c12Dump(w.db) {
		if exp, ok := v.full[k]; ok && bytes.Equal(exp, val) {
			continue
		}
		if st, ok := w.staleRaw[k]; ok && bytes.Equal(st, val) {
			continue
		}
		return fmt.Errorf("database holds an entry that is neither target data nor initial content: key=%x value=%x", k, val)
	}
	for k, val := range w.initial {
		if _, stale := w.staleRaw[k]; stale {
			continue
		}
		if got, err := w.db.Get([]byte(k)); err != nil || !bytes.Equal(got, val) {
			return fmt.Errorf("locally present target entry %x was removed or changed", k)
		}
	}
	for _, it := range v.tg.items {
		if !w.present(it.id) {
			continue
		}
		for _, d := range it.deps {
			if !w.present(d) {
				return fmt.Errorf("premature write: %s is in the database but its dependency %s is not", it.label, v.tg.items[d].label)
			}
		}
	}
	return nil
}

func (w *c12World) apply(ev string) error {
	kind, arg, _ := strings.Cut(ev, ":")
	tg := w.cfg.v.tg
	raw, _ := hex.DecodeString(arg)
	defer func() { w.leafErr = nil }()
	switch kind {
	case "missing":
		n := int(arg[0] - '0')
		paths, hashes, codes := w.s.Missing(n)
		if len(paths) != len(hashes) {
			return fmt.Errorf("Missing(%d) returned %d paths and %d hashes", n, len(paths), len(hashes))
		}
		if n > 0 && len(paths)+len(codes) > n {
			return fmt.Errorf("Missing(%d) returned %d requests", n, len(paths)+len(codes))
		}
		if len(paths)+len(codes) == 0 {
			return fmt.Errorf("Missing(%d) returned nothing although %d requests are queued", n, w.whitebox().queue)
		}
		for i, p := range paths {
			id, ok := tg.byPath[p]
			if !ok {
				return fmt.Errorf("Missing requested path %x (hash %x) which is not a node of the target", p, hashes[i])
			}
			if tg.items[id].hash != hashes[i] {
				return fmt.Errorf("Missing requested path %x with hash %x, the target node there is %x", p, hashes[i], tg.items[id].hash)
			}
			if w.everN[p] {
				return fmt.Errorf("path %x (%s) requested twice", p, tg.items[id].label)
			}
			if v, ok := w.initial[w.cfg.v.rawK[id]]; ok && bytes.Equal(v, w.cfg.v.rawV[id]) {
				return fmt.Errorf("%s requested although it was present locally when the sync started", tg.items[id].label)
			}
			w.everN[p], w.inflightN[p] = true, true
		}
		for _, h := range codes {
			id, ok := tg.byCode[h]
			if !ok {
				return fmt.Errorf("Missing requested code %x which is not referenced by the target", h)
			}
			if w.everC[h] {
				return fmt.Errorf("code %x requested twice", h)
			}
			if _, ok := w.initial[w.cfg.v.rawK[id]]; ok {
				return fmt.Errorf("%s requested although it was present locally when the sync started", tg.items[id].label)
			}
			w.everC[h], w.inflightC[h] = true, true
		}
	case "node":
		it := tg.items[tg.byPath[string(raw)]]
		if err := w.s.ProcessNode(trie.NodeSyncResult{Path: string(raw), Data: common.CopyBytes(it.blob)}); err != nil {
			return fmt.Errorf("correct delivery of in-flight %s refused: %v", it.label, err)
		}
		delete(w.inflightN, string(raw))
		w.procN[string(raw)] = true
		if w.leafErr != nil {
			return w.leafErr
		}
	case "code":
		h := common.BytesToHash(raw)
		it := tg.items[tg.byCode[h]]
		if err := w.s.ProcessCode(trie.CodeSyncResult{Hash: h, Data: common.CopyBytes(it.blob)}); err != nil {
			return fmt.Errorf("correct delivery of in-flight %s refused: %v", it.label, err)
		}
		delete(w.inflightC, h)
		w.procC[h] = true
	case "commit":
		batch := w.db.NewBatch()
		if err := w.s.Commit(batch); err != nil {
			return fmt.Errorf("Commit failed: %v", err)
		}
		if err := batch.Write(); err != nil {
			return fmt.Errorf("batch write failed: %v", err)
		}
		if w.s.MemSize() != 0 {
			return fmt.Errorf("MemSize()=%d after Commit", w.s.MemSize())
		}
		if err := w.checkDB(); err != nil {
			return err
		}
	case "bad-empty", "bad-trunc", "bad-list3", "bad-string":
		it := tg.items[tg.byPath[string(raw)]]
		var blob []byte
		switch kind {
		case "bad-empty":
			blob = []byte{}
		case "bad-trunc":
			blob = common.CopyBytes(it.blob[:len(it.blob)-1])
		case "bad-list3":
			blob, _ = rlp.EncodeToBytes([][]byte{{1}, {2}, {3}})
		case "bad-string":
			blob, _ = rlp.EncodeToBytes(it.blob)
		}
		if err := w.s.ProcessNode(trie.NodeSyncResult{Path: string(raw), Data: blob}); err == nil {
			return fmt.Errorf("corrupted blob %x delivered for %s was accepted", blob, it.label)
		}
	case "dup-node":
		it := tg.items[tg.byPath[string(raw)]]
		err := w.s.ProcessNode(trie.NodeSyncResult{Path: string(raw), Data: common.CopyBytes(it.blob)})
		if !errors.Is(err, trie.ErrAlreadyProcessed) && !errors.Is(err, trie.ErrNotRequested) {
			return fmt.Errorf("duplicate delivery of %s: got %v, want already-processed / not-requested", it.label, err)
		}
	case "dup-code":
		h := common.BytesToHash(raw)
		err := w.s.ProcessCode(trie.CodeSyncResult{Hash: h, Data: common.CopyBytes(tg.items[tg.byCode[h]].blob)})
		if !errors.Is(err, trie.ErrAlreadyProcessed) && !errors.Is(err, trie.ErrNotRequested) {
			return fmt.Errorf("duplicate delivery of code %x: got %v", h, err)
		}
	case "unsolicited-node":
		it := tg.items[tg.byPath[string(raw)]]
		if err := w.s.ProcessNode(trie.NodeSyncResult{Path: string(raw), Data: common.CopyBytes(it.blob)}); !errors.Is(err, trie.ErrNotRequested) {
			return fmt.Errorf("delivery of never scheduled %s: got %v, want not-requested", it.label, err)
		}
	case "unsolicited-code":
		h := common.BytesToHash(raw)
		if err := w.s.ProcessCode(trie.CodeSyncResult{Hash: h, Data: common.CopyBytes(tg.items[tg.byCode[h]].blob)}); !errors.Is(err, trie.ErrNotRequested) {
			return fmt.Errorf("delivery of never scheduled code %x: got %v, want not-requested", h, err)
		}
	default:
		return fmt.Errorf("c12: unknown event %q", ev)
	}
	if w.s.Pending() == 0 && len(w.inflightN)+len(w.inflightC) > 0 {
		return fmt.Errorf("Pending()==0 while %d handed-out requests were never answered", len(w.inflightN)+len(w.inflightC))
	}
	return nil
}

func c12IsSelfLoop(ev string) bool {
	return strings.HasPrefix(ev, "bad-") || strings.HasPrefix(ev, "dup-") || strings.HasPrefix(ev, "unsolicited-")
}

// checkFinal: the sync reports completion and everything is flushed: the store
// must hold exactly the target (raw key space), nothing more may be requested, and
// the store must open at the root through the real trie database and iterate
// exactly the target accounts, storage slots and codes.
func (w *c12World) checkFinal() error {
	v := w.cfg.v
	got := c12Dump(w.db)
	for k, exp := range v.full {
		if val, ok := got[k]; !ok {
			return fmt.Errorf("sync complete but target entry %x is missing from the database", k)
		} else if !bytes.Equal(val, exp) {
			return fmt.Errorf("sync complete but entry %x holds %x, want %x", k, val, exp)
		}
	}
	for k, val := range got {
		if _, ok := v.full[k]; !ok {
			return fmt.Errorf("sync complete but the database holds a non-target entry %x=%x", k, val)
		}
	}
	if p, h, c := w.s.Missing(0); len(p)+len(h)+len(c) != 0 {
		return fmt.Errorf("sync complete but Missing still returns %d requests", len(p)+len(c))
	}
	// open a copy through the real trie database
	cp := rawdb.NewMemoryDatabase()
	for k, val := range got {
		cp.Put([]byte(k), val)
	}
	cfg := &triedb.Config{}
	if v.scheme == rawdb.PathScheme {
		cfg.PathDB = &pathdb.Config{SnapshotNoBuild: true, NoAsyncFlush: true, TrienodeHistory: -1, FullValueCheckpoint: 1}
	}
	tdb := triedb.NewDatabase(cp, cfg)
	defer tdb.Close()
	at, err := trie.New(trie.StateTrieID(v.tg.root), tdb)
	if err != nil {
		return fmt.Errorf("store does not open at the target root: %v", err)
	}
	nit, err := at.NodeIterator(nil)
	if err != nil {
		return fmt.Errorf("account iterator: %v", err)
	}
	ait := trie.NewIterator(nit)
	seen := 0
	for ait.Next() {
		var acct *c12Acct
		for i := range v.tg.accts {
			if bytes.Equal(v.tg.accts[i].key.Bytes(), ait.Key) {
				acct = &v.tg.accts[i]
			}
		}
		if acct == nil || !bytes.Equal(acct.body, ait.Value) {
			return fmt.Errorf("synced state has account %x=%x which the target does not", ait.Key, ait.Value)
		}
		seen++
		if acct.code != types.EmptyCodeHash {
			want := v.tg.items[v.tg.byCode[acct.code]].blob
			if code := rawdb.ReadCode(cp, acct.code); !bytes.Equal(code, want) {
				return fmt.Errorf("code of account %x: have %x want %x", acct.key, code, want)
			}
		}
		nslots := 0
		if acct.root != types.EmptyRootHash {
			st, err := trie.New(trie.StorageTrieID(v.tg.root, acct.key, acct.root), tdb)
			if err != nil {
				return fmt.Errorf("storage trie of %x does not open: %v", acct.key, err)
			}
			snit, err := st.NodeIterator(nil)
			if err != nil {
				return err
			}
			sit := trie.NewIterator(snit)
			for sit.Next() {
				if val, ok := acct.slots[common.BytesToHash(sit.Key)]; !ok || !bytes.Equal(val, sit.Value) {
					return fmt.Errorf("synced storage of %x has slot %x=%x which the target does not", acct.key, sit.Key, sit.Value)
				}
				nslots++
			}
			if sit.Err != nil {
				return fmt.Errorf("storage iteration of %x failed: %v", acct.key, sit.Err)
			}
		}
		if nslots != len(acct.slots) {
			return fmt.Errorf("synced storage of %x has %d slots, target has %d", acct.key, nslots, len(acct.slots))
		}
	}
	if ait.Err != nil {
		return fmt.Errorf("account iteration failed: %v", ait.Err)
	}
	if seen != len(v.tg.accts) {
		return fmt.Errorf("synced state has %d accounts, target has %d", seen, len(v.tg.accts))
	}
	return nil
}

// ---------------------------------------------------------------------------
// Search

type c12Search struct {
	r    *mc.R
	cfg  *c12Config
	seen map[c12Key32]struct{}
	// shallow: replay mode; only the reached state is checked (refused events, completion, stuck), its
	// successors are executed to decide "stuck" but neither reported nor expanded.
	shallow bool
	// statistics
	finals, maxDepth int
}

func (s *c12Search) violation(ops []string, err error) {
	d := s.cfg.desc(ops)
	b, _ := json.Marshal(d)
	s.r.Violation(string(b), err.Error(), d)
}

// replay rebuilds the world reached by ops (already validated) and checks that it
// is the state recorded under want; a mismatch means the harness is not replayable
// (infrastructure error, never a verdict).
func (s *c12Search) replay(ops []string, want c12Key32) *c12World {
	w := s.cfg.newWorld()
	err := mc.Safely(func() error {
		for _, o := range ops {
			if e := w.apply(o); e != nil {
				return fmt.Errorf("%s: %v", o, e)
			}
		}
		return nil
	})
	if err == nil {
		if k, _ := w.key(); k != want {
			err = errors.New("state key differs")
		}
	}
	if err != nil {
		b, _ := json.Marshal(s.cfg.desc(ops))
		s.r.HarnessError("C12 replay divergence at " + string(b) + ": " + err.Error())
		return nil
	}
	return w
}

// expand explores everything reachable from the state of w (reached by ops, key k).
func (s *c12Search) expand(ops []string, w *c12World, k c12Key32, wb *c12Whitebox) {
	if s.r.Expired() {
		return
	}
	if len(ops) > s.maxDepth {
		s.maxDepth = len(ops)
	}
	// 1. misbehaving environment: refused, nothing changes. All refused events of this state are executed on
	// the live world, each checked for its error; the state key is compared once afterwards, and on a
	// difference the culprit is located by re-running them one by one.
	sl := w.selfLoopEvents(wb)
	for _, ev := range sl {
		s.r.Transition(1)
		s.r.Trace(1)
		s.r.Eval(1)
		if err := mc.Safely(func() error { return w.apply(ev) }); err != nil {
			s.violation(append(append([]string{}, ops...), ev), err)
			s.r.Outcome("violation")
			return
		}
	}
	s.r.OutcomeN("refused-deliveries", int64(len(sl)))
	if k2, _ := w.key(); k2 != k {
		for _, ev := range sl {
			w1 := s.replay(ops, k)
			if w1 == nil {
				return
			}
			err := mc.Safely(func() error { return w1.apply(ev) })
			if k1, _ := w1.key(); err == nil && k1 != k {
				err = fmt.Errorf("refused delivery %s changed the scheduler/membatch/database state", ev)
			}
			if err != nil {
				s.violation(append(append([]string{}, ops...), ev), err)
				s.r.Outcome("violation")
				return
			}
		}
		s.violation(ops, fmt.Errorf("the refused deliveries %v together changed the scheduler/membatch/database state", sl))
		s.r.Outcome("violation")
		return
	}
	// 2. completion
	final := w.s.Pending() == 0 && wb.batchLen == 0
	if final {
		s.finals++
		s.r.Outcome("final-state")
		if err := mc.Safely(w.checkFinal); err != nil {
			s.violation(ops, err)
			return
		}
	}
	// 3. progress events
	evs := w.progressEvents(wb)
	progressed := false
	for i, ev := range evs {
		w2 := w
		if i != len(evs)-1 {
			if w2 = s.replay(ops, k); w2 == nil {
				return
			}
		}
		s.r.Transition(1)
		s.r.Trace(1)
		s.r.Eval(1)
		seq := append(append([]string{}, ops...), ev)
		if err := mc.Safely(func() error { return w2.apply(ev) }); err != nil {
			progressed = true
			if !s.shallow {
				s.violation(seq, err)
				s.r.Outcome("violation")
			}
			continue
		}
		k2, wb2 := w2.key()
		if k2 == k {
			s.r.Outcome("noop:" + ev)
			continue
		}
		progressed = true
		s.r.Outcome(ev[:strings.IndexAny(ev+":", ":")])
		if _, dup := s.seen[k2]; dup || s.shallow {
			continue
		}
		s.seen[k2] = struct{}{}
		s.r.State(1)
		s.r.DistinctHash(mc.Hash64(string(k2[:])))
		s.expand(seq, w2, k2, wb2)
		if s.r.Expired() {
			return
		}
	}
	if !final && !progressed {
		s.violation(ops, fmt.Errorf("stuck: Pending()=%d, membatch=%d entries, but no request is queued or in flight and Commit changes nothing", w.s.Pending(), wb.batchLen))
	}
}

func (c *c12Config) explore(r *mc.R) (states, finals, depth int) {
	s := &c12Search{r: r, cfg: c, seen: map[c12Key32]struct{}{}}
	w := c.newWorld()
	if err := w.checkDB(); err != nil {
		panic("c12: initial database violates the invariant: " + err.Error())
	}
	k, wb := w.key()
	s.seen[k] = struct{}{}
	r.State(1)
	s.expand(nil, w, k, wb)
	return len(s.seen), s.finals, s.maxDepth
}

// runReplay re-executes one recorded case with all oracles.
func (c *c12Config) runReplay(r *mc.R, ops []string) {
	s := &c12Search{r: r, cfg: c, seen: map[c12Key32]struct{}{}}
	w := c.newWorld()
	k, wb := w.key()
	for i, ev := range ops {
		r.Eval(1)
		err := mc.Safely(func() error { return w.apply(ev) })
		k2, wb2 := w.key()
		if err == nil && c12IsSelfLoop(ev) && k2 != k {
			err = fmt.Errorf("refused delivery %s changed the scheduler/membatch/database state", ev)
		}
		if err != nil {
			s.violation(ops[:i+1], err)
			return
		}
		k, wb = k2, wb2
	}
	// state checks of the reached state (refused events, final check, stuck check)
	s.seen[k] = struct{}{}
	s.shallow = true
	s.expand(ops, w, k, wb)
}

func c12Configs(r *mc.R) []*c12Config {
	specs := c12Specs()
	var out []*c12Config
	for _, sp := range specs {
		if sp.skipQuick && r.Quick() {
			continue
		}
		full := sp.fullPrepop == "" || sp.fullPrepop == mc.Tier()
		tg := c12Build(sp)
		for _, scheme := range []string{rawdb.HashScheme, rawdb.PathScheme} {
			v := c12NewView(tg, scheme)
			for _, m := range v.closedSubsets() {
				if !full && m != 0 {
					continue
				}
				missing := 0
				for c := 0; c < v.nclass; c++ {
					if m&(1<<uint(c)) == 0 {
						missing++
					}
				}
				base := &c12Config{v: v, prepop: m, weight: missing}
				out = append(out, base)
				if scheme != rawdb.PathScheme {
					continue
				}
				pl := base.stalePlacements()
				if len(pl) > 0 {
					out = append(out, &c12Config{v: v, prepop: m, stale: pl, weight: missing})
				}
				if m == 0 && len(pl) > 1 && full {
					for _, p := range pl {
						out = append(out, &c12Config{v: v, prepop: m, stale: [][]byte{p}, weight: missing})
					}
				}
			}
		}
	}
	// heaviest first for load balance
	sort.SliceStable(out, func(i, j int) bool { return out[i].weight > out[j].weight })
	return out
}

func TestVerif_C12(t *testing.T) {
	mc.Run(t, "C12", func(r *mc.R) {
		r.Rule("configuration = target state x node scheme x dependency-closed set of locally present subtrees x foreign nodes at target/extension-internal paths (path scheme); " +
			"per configuration: depth-first search over ALL orders of environment events {Missing(1), Missing(2), Missing(all), deliver any in-flight node or code, Commit} until completion, no depth bound, " +
			"de-duplicated on sha256(white-box scheduler state: nodeReqs(path,data?,deps,parent), codeReqs(hash,data?,parents), queue size, fetches, membatch ops per database key, membatch size; database contents; in-flight / ever-requested / processed sets); " +
			"in every state additionally every refused event (4 kinds of undecodable blob per in-flight node, duplicate of every processed node/code, unsolicited delivery of every unscheduled target node/code) is executed and must leave the key unchanged. " +
			"A batch delivery is a sequence of single deliveries without interleaved events, i.e. one of the explored orders. distinct = distinct state keys.")
		r.Assume("trie.Sync does not hash delivered blobs itself: ProcessNode/ProcessCode trust the caller (snap.Syncer.OnTrieNodes/OnByteCodes, property C47) to match blob hashes against requests; " +
			"corrupted deliveries explored here are the ones the scheduler itself can recognise (empty, truncated, wrong list arity, RLP string instead of list); corrupted code blobs are out of scope of this seam")
		r.Assume("a locally present node implies its whole subtree (and code) is present (dependency-closed pre-population); foreign path-scheme nodes are placed only where the scheduler is responsible for them " +
			"(at a target node path, inside the key of a missing extension node); garbage below target leaves is retained by design (trie/sync.go comment in children)")
		r.Assume("deliveries are only made for requests handed out by Missing (a queued but not yet handed-out request is never answered)")
		r.Assume("Missing(1)/Missing(2) are only explored in states where the handed-out set does not depend on the tie-break between equally prioritised queue entries (heap history depends on goroutine completion order in Sync.children); Missing(all) is always explored")

		cfgs := c12Configs(r)
		r.Bound("configurations", len(cfgs))
		if r.Replaying() {
			var d c12Desc
			if err := json.Unmarshal(r.ReplayDescriptor(), &d); err != nil {
				r.HarnessError("C12: bad replay descriptor: " + err.Error())
				return
			}
			for _, c := range cfgs {
				cd := c.desc(nil)
				if cd.Target == d.Target && cd.Scheme == d.Scheme && fmt.Sprint(cd.Prepop) == fmt.Sprint(d.Prepop) && fmt.Sprint(cd.Stale) == fmt.Sprint(d.Stale) {
					r.ReplayHit()
					c.runReplay(r, d.Ops)
					return
				}
			}
			return
		}
		type stat struct{ states, finals, depth int }
		stats := make([]stat, len(cfgs))
		done := r.Parallel(len(cfgs), func(i int) {
			st, fin, dep := cfgs[i].explore(r)
			stats[i] = stat{st, fin, dep}
			if i%17 == 0 {
				r.Sample(map[string]any{"config": cfgs[i].desc(nil), "states": st, "final_states": fin, "longest_event_sequence": dep})
			}
		})
		maxStates, maxDepth, nofinal := 0, 0, 0
		perTarget := map[string]int{}
		for i, st := range stats[:] {
			if st.states > maxStates {
				maxStates = st.states
			}
			if st.depth > maxDepth {
				maxDepth = st.depth
			}
			if st.finals == 0 {
				nofinal++
			}
			perTarget[cfgs[i].v.tg.name+"/"+cfgs[i].v.scheme] += st.states
		}
		r.Bound("configurations_completed", done)
		r.Bound("max_states_per_configuration", maxStates)
		r.Bound("longest_event_sequence", maxDepth)
		r.Bound("states_per_target", perTarget)
		if done == len(cfgs) && !r.Expired() && nofinal > 0 {
			r.Violation("no-final-state", fmt.Sprintf("%d configurations never reached a completed sync", nofinal), nil)
		}
	})
}
