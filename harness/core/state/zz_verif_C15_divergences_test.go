//go:build verif

package state

// Strict stand-alone check for the one operation pattern that the C15 exploration
// excludes through its caller contract (existing code is read before SetCode
// replaces it) because the unchanged tree diverges on it. Same root cause as C13
// divergence D1: stateObject.SetCode journals / stashes clone(obj.code), which is
// nil while the committed code has not been loaded into the state object.

import (
	"fmt"
	"testing"

	"github.com/ethereum/go-ethereum/core/tracing"
	"github.com/ethereum/go-ethereum/internal/verif/mc"
)

func TestVerif_C15_Divergences(t *testing.T) {
	mc.Run(t, "C15", func(r *mc.R) {
		r.Rule("fixed minimal operation sequence outside the caller contract assumed by the exploration, compared with the reference diff")
		base, err := c13BuildBase("contract", c13Starts["contract"])
		if err != nil {
			r.Violation("base", err.Error(), nil)
			return
		}
		ru := &c13RuleSets[2]
		r.Case(map[string]any{"divergence": "D1-cold-SetCode-change-and-restore-recorded-as-code-change"}, func() error {
			s, _ := New(base.root, base.db)
			a := c13Addrs[c13A]
			s.SetTxContext(c13TxHash(0), 0, 1)
			s.Prepare(ru.rules, c13Addrs[c13B], c13Addrs[c13B], nil, nil, nil)
			s.SetCode(a, c13Codes[2], tracing.CodeChangeUnspecified) // committed code c1 not loaded yet
			s.SetCode(a, c13Codes[1], tracing.CodeChangeUnspecified) // restored within the same transaction
			list := s.Finalise(ru.rules)
			if acc := list.Accounts[a]; acc == nil || len(acc.CodeChange) != 0 {
				return fmt.Errorf("tx0: SetCode(A,%x); SetCode(A,%x) on committed A with code %x (not read before): the code is unchanged at the end of "+
					"the transaction but the access list records code changes %x", c13Codes[2], c13Codes[1], c13Codes[1], acc.CodeChange)
			}
			return nil
		})
		r.Outcome("checked")
	})
}
