//go:build verif

package state

// Strict, stand-alone checks for the operation patterns that the C13 exploration
// (zz_verif_C13_test.go) excludes through its caller contract because the
// unchanged tree diverges from the reference account model on them. Each case is
// one fixed, minimal operation sequence with a stable violation key, so that the
// divergence stays visible (and is re-checked on every run) without flooding the
// exploration with one violation per sequence that contains the pattern.

import (
	"bytes"
	"fmt"
	"testing"

	"github.com/ethereum/go-ethereum/core/tracing"
	"github.com/ethereum/go-ethereum/internal/verif/mc"
	"github.com/holiman/uint256"
)

func TestVerif_C13_Divergences(t *testing.T) {
	mc.Run(t, "C13", func(r *mc.R) {
		r.Rule("fixed minimal operation sequences outside the caller contract assumed by the exploration, each compared with the reference account model")
		base, err := c13BuildBase("contract", c13Starts["contract"])
		if err != nil {
			r.Violation("base", err.Error(), nil)
			return
		}
		for i := range c13RuleSets {
			ru := &c13RuleSets[i]

			// D1: SetCode on an account whose committed code has not been loaded into the state object yet,
			// followed by a revert. The journal records prevCode = clone(obj.code) = nil (not loaded), and the
			// revert installs code nil / hash keccak(nil): the account loses its code.
			r.Case(map[string]any{"divergence": "D1-cold-SetCode-then-revert-loses-code", "rules": ru.name}, func() error {
				s, _ := New(base.root, base.db)
				a := c13Addrs[c13A]
				id := s.Snapshot()
				s.SetCode(a, c13Codes[2], tracing.CodeChangeUnspecified)
				s.RevertToSnapshot(id)
				if got := s.GetCode(a); !bytes.Equal(got, c13Codes[1]) {
					return fmt.Errorf("New(committed A with code %x); Snapshot; SetCode(A,%x); RevertToSnapshot: GetCode(A) = %x, GetCodeHash(A) = %x; the reference model keeps the committed code",
						c13Codes[1], c13Codes[2], got, s.GetCodeHash(a))
				}
				return nil
			})
			r.Outcome("checked")

			// D2: CreateContract on an existing account that carries no other mutation in the transaction: the
			// createContractChange entry does not put the account into journal.mutations, so Finalise never
			// reaches stateObject.finalise() and the newContract flag survives into the following transactions.
			r.Case(map[string]any{"divergence": "D2-CreateContract-without-mutation-survives-Finalise", "rules": ru.name}, func() error {
				s, _ := New(base.root, base.db)
				b := c13Addrs[c13B]
				s.AddBalance(b, uint256.NewInt(1), tracing.BalanceChangeUnspecified)
				s.Finalise(ru.rules)
				s.SetTxContext(c13TxHash(1), 1, 2)
				s.CreateContract(b)
				s.Finalise(ru.rules)
				s.SetTxContext(c13TxHash(2), 2, 3)
				if s.IsNewContract(b) {
					return fmt.Errorf("tx0: AddBalance(B,1); Finalise; tx1: CreateContract(B); Finalise; tx2: IsNewContract(B) = true, " +
						"although B was not deployed in the current transaction")
				}
				return nil
			})
			r.Outcome("checked")
		}
	})
}
