//go:build verif

package core

// C33 — parallel (block-access-list driven) block execution agrees with
// sequential execution, and every block whose access list differs from the true
// one is rejected.
//
// Space: every ordered selection of 0-2 (and 3) transactions from an alphabet of
// interacting transactions (shared senders with consecutive nonces, a sender that
// is only solvent after an earlier transaction funded it, read/write/restore
// conflicts on one storage slot, CREATE2 followed by a call of the created
// contract, self-destruct + funding, EIP-7702 delegation followed by a call of the
// delegated account, coinbase payments, system-contract reads and a withdrawal
// request) becomes one Amsterdam block: the sequential processor executes the
// selection on top of a chain of 7 empty ancestors and the header is completed
// from that execution (BLOCKHASH units reach back to N-1, N-3, N-6 and genesis).
//
// Oracle A (differential, schedule independent): the block is executed by the
// sequential processor and by the parallel processor (workers run free) under
// GOMAXPROCS 1, 2 and 16; receipts, logs, gas, requests, the rebuilt access list
// bytes and the post-state root must be identical and equal to the header.
//
// Oracle B: every single edit of the true access list is re-encoded, attached to
// the block with the header's access-list hash recomputed (and every other
// execution-derived header field recomputed from what the node itself computes
// for the edited list, i.e. the strongest block producer), and must be rejected
// by ValidateBody / Process / ValidateState.

import (
	"bytes"
	"context"
	"crypto/ecdsa"
	"encoding/binary"
	"encoding/json"
	"fmt"
	"math/big"
	"runtime"
	"sort"
	"strings"
	"sync"
	"sync/atomic"
	"testing"
	"time"

	"github.com/ethereum/go-ethereum/common"
	"github.com/ethereum/go-ethereum/consensus"
	"github.com/ethereum/go-ethereum/consensus/beacon"
	"github.com/ethereum/go-ethereum/consensus/ethash"
	"github.com/ethereum/go-ethereum/consensus/misc/eip1559"
	"github.com/ethereum/go-ethereum/consensus/misc/eip4844"
	"github.com/ethereum/go-ethereum/core/rawdb"
	"github.com/ethereum/go-ethereum/core/state"
	"github.com/ethereum/go-ethereum/core/types"
	"github.com/ethereum/go-ethereum/core/types/bal"
	"github.com/ethereum/go-ethereum/core/vm"
	"github.com/ethereum/go-ethereum/core/vm/program"
	"github.com/ethereum/go-ethereum/crypto"
	"github.com/ethereum/go-ethereum/internal/verif/mc"
	"github.com/ethereum/go-ethereum/params"
	"github.com/ethereum/go-ethereum/rlp"
	"github.com/ethereum/go-ethereum/trie"
	"github.com/holiman/uint256"
)

// ---------------------------------------------------------------------------
// world

var (
	c33KeyB, _ = crypto.HexToECDSA("8a1f9a8f95be41cd7ccb6168179afb4504aefe388d1e14474d32c45c72ce7b7a")
	c33KeyC, _ = crypto.HexToECDSA("49a7b37aa6f6645917e7b807e9d1c00d4fa71f18343b0d4122a4d2df64dd6fee")
	c33KeyP, _ = crypto.HexToECDSA("0c06818f82e04c564290b32ab86b25676731fc34e9a546108bf109194c8e3aae")
	c33KeyE, _ = crypto.HexToECDSA("1111111111111111111111111111111111111111111111111111111111111111")
	c33KeyF, _ = crypto.HexToECDSA("3333333333333333333333333333333333333333333333333333333333333333") // authority that is already delegated (EIP-7702) in genesis

	c33CTR   = common.HexToAddress("0xc700000000000000000000000000000000000c01") // counter: slot0 += calldata word, logs old value
	c33OBS   = common.HexToAddress("0x0b50000000000000000000000000000000000b02") // observer: logs what it sees of everybody else
	c33FAC   = common.HexToAddress("0xfa00000000000000000000000000000000000f03") // CREATE2 factory of K
	c33FACSD = common.HexToAddress("0xfb00000000000000000000000000000000000f04") // creates and self-destructs M in one transaction
	c33FACSD2 = common.HexToAddress("0xfc00000000000000000000000000000000000f15") // CREATE2 of M2 whose constructor self-destructs to X
	c33LOOP   = common.HexToAddress("0x1000000000000000000000000000000000000f17") // endless loop: burns the whole gas limit of the call as execution gas
	c33FACSD3 = common.HexToAddress("0xfd00000000000000000000000000000000000f16") // the same onto M3, an address that holds a balance in genesis
	c33D     = common.HexToAddress("0xd000000000000000000000000000000000000d05") // self-destructs to X when called with data
	c33DLG   = common.HexToAddress("0xd100000000000000000000000000000000000d06") // delegation target of E
	c33REV   = common.HexToAddress("0x7e00000000000000000000000000000000000e07") // increments CTR, then reverts
	c33X     = common.HexToAddress("0x5800000000000000000000000000000000005808") // absent beneficiary
	c33CB    = common.HexToAddress("0xcb00000000000000000000000000000000000c09") // fee recipient
	c33W     = common.HexToAddress("0x3300000000000000000000000000000000003310") // withdrawal recipient (absent)
	c33Extra = common.HexToAddress("0x9900000000000000000000000000000000009911") // never touched: "extra account" edit
	c33DLG2  = common.HexToAddress("0xd200000000000000000000000000000000000d13") // second delegation target (adds twice the calldata word)
	c33DLG3  = common.HexToAddress("0xd300000000000000000000000000000000000d14") // the target F is delegated to in genesis (kept apart from DLG so that no code blob created in a block already exists in the parent state)
	c33BH    = common.HexToAddress("0xb100000000000000000000000000000000000b12") // stores and logs BLOCKHASH of ancestors N-1, N-3, N-6, N-8 and of N itself
)

type c33World struct {
	env    *balTestEnv
	engine consensus.Engine
	keys   []*ecdsa.PrivateKey // A, B, C, P, E
	addrs  []common.Address
	k      common.Address // contract created by FAC
	m, m2  common.Address // absent addresses that FACSD / FACSD2 create and destroy in one transaction
	m3     common.Address // the same for FACSD3, but holding a balance in genesis
	txs    []c33TxSpec
	beacon common.Hash
	raceAlphabet int // the first raceAlphabet entries take part in the race step
	prefix []*types.Block // empty Amsterdam ancestors 1..c33Ancestors; the explored blocks are their children
}

// c33Ancestors is the number of empty blocks between genesis and the explored
// block, so that BLOCKHASH / header-chain walks reach real ancestors.
const c33Ancestors = 7

// c33BHDepths are the ancestor distances the BH contract asks BLOCKHASH for
// (the last one is genesis); it also asks for the block's own number (=> 0).
var c33BHDepths = []int{1, 3, 6, 8}

const (
	c33A = iota
	c33B
	c33C
	c33P
	c33E
	c33F
)

type c33TxSpec struct {
	name   string
	sender int
	needs  string // name of the entry that must precede this one in the block ("" = always valid)
	to     common.Address
	make   func(w *c33World, nonce uint64) *types.Transaction
	// makeAuth, if set, replaces make: authNonce(i) returns the nonce the next authorization of
	// authority w.keys[i] must carry at this position of the block (and counts it)
	makeAuth func(w *c33World, nonce uint64, authNonce func(authority int) uint64) *types.Transaction
}

func c33Word(v int64) []byte {
	x := new(big.Int).SetInt64(v)
	if v < 0 {
		x.Add(x, new(big.Int).Lsh(big.NewInt(1), 256))
	}
	return common.LeftPadBytes(x.Bytes(), 32)
}

// c33Branch assembles: if calldatasize == 0 { onEmpty } else { onData }.
func c33Branch(onEmpty, onData []byte) []byte {
	dest := 5 + len(onEmpty)
	p := program.New().Op(vm.CALLDATASIZE).Op(vm.PUSH2).Append([]byte{byte(dest >> 8), byte(dest)}).Op(vm.JUMPI)
	p.Append(onEmpty)
	p.Op(vm.JUMPDEST).Append(onData)
	return p.Bytes()
}

// c33Adder: v = SLOAD(0); SSTORE(0, v + calldata[0:32]); SLOAD(1); LOG0(v).
func c33Adder() []byte {
	p := program.New()
	p.Push(0).Op(vm.SLOAD, vm.DUP1).Push(0).Op(vm.MSTORE)
	p.Push(0).Op(vm.CALLDATALOAD, vm.ADD).Push(0).Op(vm.SSTORE)
	p.Push(1).Op(vm.SLOAD, vm.POP)
	p.Push(32).Push(0).Op(vm.LOG0, vm.STOP)
	return p.Bytes()
}

func c33NewWorld() *c33World {
	w := &c33World{engine: beacon.New(ethash.NewFaker()), beacon: common.HexToHash("0xbeac0000000000000000000000000000000000000000000000000000000033aa")}
	getter := program.New().Push(0).Op(vm.SLOAD).Push(0).Op(vm.MSTORE).Return(0, 32).Bytes()
	ctr := c33Branch(getter, c33Adder())

	initK := program.New().Sstore(5, 9).ReturnViaCodeCopy(append(c33Adder(), byte(vm.STOP))).Bytes() // runtime code that exists nowhere in the parent state
	w.k = crypto.CreateAddress2(c33FAC, common.BigToHash(big.NewInt(1)), crypto.Keccak256(initK))
	fac := program.New().Create2(initK, 1).Push(0).Op(vm.MSTORE).Push(32).Push(0).Op(vm.LOG0, vm.STOP).Bytes()

	initM := program.New().ReturnViaCodeCopy(program.New().Selfdestruct(c33X).Bytes()).Bytes()
	facsd := program.New().Mstore(initM, 0).Push(2).Push(len(initM)).Push(0).Push(5).Op(vm.CREATE2).
		Push(0).Push(0).Push(0).Push(0).Push(0).Op(vm.DUP6, vm.GAS, vm.CALL, vm.POP, vm.POP, vm.STOP).Bytes()

	// addresses that are created and destroyed within one transaction: M (FACSD: CREATE2 with value, then a call
	// that self-destructs), M2 / M3 (FACSD2 / FACSD3: the constructor self-destructs). M and M2 do not exist before
	// the block and can be funded by an earlier transaction of the block; M3 holds a balance in genesis.
	initSD := program.New().Selfdestruct(c33X).Bytes()
	sdFactory := func(salt int) []byte {
		return program.New().Mstore(initSD, 0).Push(salt).Push(len(initSD)).Push(0).Push(0).Op(vm.CREATE2, vm.POP, vm.STOP).Bytes()
	}
	w.m = crypto.CreateAddress2(c33FACSD, common.BigToHash(big.NewInt(2)), crypto.Keccak256(initM))
	w.m2 = crypto.CreateAddress2(c33FACSD2, common.BigToHash(big.NewInt(3)), crypto.Keccak256(initSD))
	w.m3 = crypto.CreateAddress2(c33FACSD3, common.BigToHash(big.NewInt(4)), crypto.Keccak256(initSD))
	d := c33Branch([]byte{byte(vm.STOP)}, program.New().Selfdestruct(c33X).Bytes())

	rev := program.New().Push(1).Push(0).Op(vm.MSTORE).Call(nil, c33CTR, 0, 0, 32, 0, 0).Op(vm.POP).
		Push(0).Push(0).Op(vm.REVERT).Bytes()

	// BH: for k, d in c33BHDepths: h = BLOCKHASH(NUMBER-d); mem[32k] = h; SSTORE(calldata[0]+k, h);
	// then SSTORE(calldata[0]+4, BLOCKHASH(NUMBER)+7) and LOG0(mem[0:128]).
	bh := program.New()
	for k, d := range c33BHDepths {
		bh.Push(d).Op(vm.NUMBER, vm.SUB, vm.BLOCKHASH)
		bh.Op(vm.DUP1).Push(32 * k).Op(vm.MSTORE)
		bh.Push(k).Push(0).Op(vm.CALLDATALOAD, vm.ADD, vm.SSTORE)
	}
	bh.Op(vm.NUMBER, vm.BLOCKHASH).Push(7).Op(vm.ADD).Push(4).Push(0).Op(vm.CALLDATALOAD, vm.ADD, vm.SSTORE)
	bh.Push(32 * len(c33BHDepths)).Push(0).Op(vm.LOG0, vm.STOP)

	keyA, _ := crypto.HexToECDSA("b71c71a67e1177ad4e901695e1b4b9ee17ae16c6668d313eac2f96dbcda3f291")
	w.keys = []*ecdsa.PrivateKey{keyA, c33KeyB, c33KeyC, c33KeyP, c33KeyE, c33KeyF}
	for _, k := range w.keys {
		w.addrs = append(w.addrs, crypto.PubkeyToAddress(k.PublicKey))
	}
	obs := program.New()
	obs.StaticCall(nil, c33CTR, 0, 0, 0, 32).Op(vm.POP)
	obs.Push(c33CB).Op(vm.BALANCE).Push(32).Op(vm.MSTORE)
	obs.Push(c33X).Op(vm.BALANCE).Push(64).Op(vm.MSTORE)
	obs.Push(c33D).Op(vm.BALANCE).Push(96).Op(vm.MSTORE)
	obs.Push(w.k).Op(vm.EXTCODESIZE).Push(128).Op(vm.MSTORE)
	obs.Push(w.addrs[c33E]).Op(vm.EXTCODEHASH).Push(160).Op(vm.MSTORE)
	obs.Op(vm.TIMESTAMP).Push(320).Op(vm.MSTORE)
	obs.StaticCall(nil, params.BeaconRootsAddress, 320, 32, 192, 32).Op(vm.POP)
	obs.Push(1).Op(vm.NUMBER, vm.SUB).Push(320).Op(vm.MSTORE)
	obs.StaticCall(nil, params.HistoryStorageAddress, 320, 32, 224, 32).Op(vm.POP)
	obs.Push(w.addrs[c33P]).Op(vm.BALANCE).Push(256).Op(vm.MSTORE)
	obs.Push(w.addrs[c33E]).Op(vm.EXTCODESIZE).Push(288).Op(vm.MSTORE)
	obs.Push(0).Op(vm.MLOAD).Push(0).Op(vm.SSTORE)
	obs.Push(320).Push(0).Op(vm.LOG0, vm.STOP)

	// DLG2: v = SLOAD(0); SSTORE(0, v + 2*calldata[0:32]); SLOAD(7); LOG0(v)
	dlg2p := program.New()
	dlg2p.Push(0).Op(vm.SLOAD, vm.DUP1).Push(0).Op(vm.MSTORE)
	dlg2p.Push(0).Op(vm.CALLDATALOAD, vm.DUP1, vm.ADD, vm.ADD).Push(0).Op(vm.SSTORE)
	dlg2p.Push(7).Op(vm.SLOAD, vm.POP)
	dlg2p.Push(32).Push(0).Op(vm.LOG0, vm.STOP)
	dlg2 := dlg2p.Bytes()
	rich := newGwei(1_000_000_000)
	w.env = newBALTestEnv(types.GenesisAlloc{
		w.addrs[c33B]: {Balance: rich},
		w.addrs[c33C]: {Balance: rich},
		c33CTR:        {Code: ctr, Balance: common.Big0, Nonce: 1},
		c33OBS:        {Code: obs.Bytes(), Balance: common.Big0, Nonce: 1},
		c33FAC:        {Code: fac, Balance: common.Big0, Nonce: 1},
		c33FACSD:      {Code: facsd, Balance: big.NewInt(100), Nonce: 1},
		c33FACSD2:     {Code: sdFactory(3), Balance: common.Big0, Nonce: 1},
		c33FACSD3:     {Code: sdFactory(4), Balance: common.Big0, Nonce: 1},
		w.m3:          {Balance: big.NewInt(7)},
		c33LOOP:       {Code: []byte{byte(vm.JUMPDEST), byte(vm.PUSH0), byte(vm.JUMP)}, Balance: common.Big0, Nonce: 1},
		c33D:          {Code: d, Balance: big.NewInt(1000), Nonce: 1, Storage: map[common.Hash]common.Hash{{}: common.BigToHash(big.NewInt(1))}},
		c33DLG:        {Code: c33Adder(), Balance: common.Big0, Nonce: 1},
		c33REV:        {Code: rev, Balance: common.Big0, Nonce: 1},
		c33BH:         {Code: bh.Bytes(), Balance: common.Big0, Nonce: 1},
		c33DLG2:       {Code: dlg2, Balance: common.Big0, Nonce: 1},
		// F is an externally owned account whose delegation to DLG exists before the block
		w.addrs[c33F]: {Code: types.AddressToDelegation(c33DLG3), Balance: common.Big0},
		c33DLG3:       {Code: append(c33Adder(), byte(vm.STOP), byte(vm.STOP)), Balance: common.Big0, Nonce: 1},
	})
	w.env.gspec.GasLimit = 30_000_000
	if w.addrs[c33A] != w.env.from {
		panic("c33: sender A is not the BAL test environment's funded account")
	}

	call := func(name string, sender int, to common.Address, value int64, data []byte) c33TxSpec {
		return c33TxSpec{name: name, sender: sender, to: to, make: func(w *c33World, nonce uint64) *types.Transaction {
			return types.MustSignNewTx(w.keys[sender], w.env.signer, &types.DynamicFeeTx{
				ChainID: w.env.cfg.ChainID, Nonce: nonce, To: &to, Value: big.NewInt(value), Gas: 3_000_000,
				GasFeeCap: newGwei(10), GasTipCap: newGwei(1 + int64(sender)), Data: data,
			})
		}}
	}
	wreq := make([]byte, 56)
	for i := range wreq[:48] {
		wreq[i] = byte(0xa0 + i%7)
	}
	binary.BigEndian.PutUint64(wreq[48:], 32_000_000_000)
	nopP := call("NOP_P", c33P, c33CTR, 0, c33Word(0))
	nopP.needs = "FUND_P"
	fundP := call("FUND_P", c33A, w.addrs[c33P], 0, nil)
	fundP.make = func(w *c33World, nonce uint64) *types.Transaction {
		to := w.addrs[c33P]
		return types.MustSignNewTx(w.keys[c33A], w.env.signer, &types.DynamicFeeTx{
			ChainID: w.env.cfg.ChainID, Nonce: nonce, To: &to, Value: newGwei(100_000_000), Gas: 3_000_000,
			GasFeeCap: newGwei(10), GasTipCap: newGwei(1),
		})
	}
	setcode := c33TxSpec{name: "SETCODE_B", sender: c33B, to: w.addrs[c33E], make: func(w *c33World, nonce uint64) *types.Transaction {
		auth, err := types.SignSetCode(w.keys[c33E], types.SetCodeAuthorization{
			ChainID: *uint256.MustFromBig(w.env.cfg.ChainID), Address: c33DLG, Nonce: 0,
		})
		if err != nil {
			panic(err)
		}
		return types.MustSignNewTx(w.keys[c33B], w.env.signer, &types.SetCodeTx{
			ChainID: uint256.MustFromBig(w.env.cfg.ChainID), Nonce: nonce, To: w.addrs[c33E], Value: new(uint256.Int), Gas: 3_000_000,
			GasFeeCap: uint256.MustFromBig(newGwei(10)), GasTipCap: uint256.MustFromBig(newGwei(2)), Data: c33Word(1),
			AuthList: []types.SetCodeAuthorization{auth},
		})
	}}
	redelegate := func(name string, sender int, tip int64, targets ...common.Address) c33TxSpec {
		return c33TxSpec{name: name, sender: sender, to: w.addrs[c33F], makeAuth: func(w *c33World, nonce uint64, authNonce func(int) uint64) *types.Transaction {
			var auths []types.SetCodeAuthorization
			for _, target := range targets {
				auth, err := types.SignSetCode(w.keys[c33F], types.SetCodeAuthorization{ChainID: *uint256.MustFromBig(w.env.cfg.ChainID), Address: target, Nonce: authNonce(c33F)})
				if err != nil {
					panic(err)
				}
				auths = append(auths, auth)
			}
			return types.MustSignNewTx(w.keys[sender], w.env.signer, &types.SetCodeTx{
				ChainID: uint256.MustFromBig(w.env.cfg.ChainID), Nonce: nonce, To: w.addrs[c33F], Value: new(uint256.Int), Gas: 3_000_000,
				GasFeeCap: uint256.MustFromBig(newGwei(10)), GasTipCap: uint256.MustFromBig(newGwei(tip)), Data: c33Word(1), AuthList: auths,
			})
		}}
	}
	gasTx := func(name string, sender int, to common.Address, value int64, gas uint64) c33TxSpec {
		return c33TxSpec{name: name, sender: sender, to: to, make: func(w *c33World, nonce uint64) *types.Transaction {
			return types.MustSignNewTx(w.keys[sender], w.env.signer, &types.DynamicFeeTx{
				ChainID: w.env.cfg.ChainID, Nonce: nonce, To: &to, Value: big.NewInt(value), Gas: gas, GasFeeCap: newGwei(10), GasTipCap: newGwei(1),
			})
		}}
	}
	burn := gasTx("BURN_6M_C", c33C, c33LOOP, 0, 6_000_000)
	bigGas := gasTx("GAS_28M_B", c33B, w.addrs[c33A], 1, 28_000_000)
	w.txs = []c33TxSpec{
		call("INC_A", c33A, c33CTR, 0, c33Word(1)),
		call("DEC_B", c33B, c33CTR, 0, c33Word(-1)),
		nopP,
		fundP,
		call("OBS_C", c33C, c33OBS, 0, nil),
		call("FAC_A", c33A, c33FAC, 0, nil),
		call("CALLK_B", c33B, w.k, 0, c33Word(1)),
		call("SD_B", c33B, c33D, 0, []byte{1}),
		setcode,
		call("CALLE_A", c33A, w.addrs[c33E], 0, c33Word(1)),
		// up to here: the entries whose 0-2 transaction blocks are edited in the quick tier
		call("BH_A", c33A, c33BH, 0, c33Word(0x10)),
		call("BH_B", c33B, c33BH, 0, c33Word(0x20)),
		// the entries below take part in pairs (quick) and in triples only in the thorough tier
		call("FUND_D_A", c33A, c33D, 77, nil),
		call("T_A_X", c33A, c33X, 1234, nil),
		call("INC_B", c33B, c33CTR, 0, c33Word(1)),
		call("FACSD_C", c33C, c33FACSD, 0, nil),
		call("WREQ_A", c33A, params.WithdrawalQueueAddress, 1, wreq),
		call("PAYCB_C", c33C, c33CB, 999, nil),
		call("REV_C", c33C, c33REV, 0, nil),
		call("BH_C", c33C, c33BH, 0, c33Word(0x30)),
		// an authority that is delegated before the block: re-delegation to another target, clearing,
		// two authorizations in one transaction (away and back to the old target), and a plain call of it
		redelegate("REDELEG_F_B", c33B, 3, c33DLG2),
		redelegate("CLEAR_F_C", c33C, 4, common.Address{}),
		redelegate("REDELEG_F_TWICE_A", c33A, 5, c33DLG2, c33DLG3),
		call("CALLF_A", c33A, w.addrs[c33F], 0, c33Word(1)),
		// accounts that end the block EMPTY: an address that does not exist before the block is funded by one
		// transaction and created-and-destroyed by a later one (M via FACSD_C above, M2 via FACSD2_C); controls: the
		// same onto an address that holds a balance in genesis (FACSD3_B), fresh address funded and left funded (T_A_X)
		call("FUND_M_A", c33A, w.m, 9, nil),
		call("FUND_M2_B", c33B, w.m2, 11, nil),
		call("FACSD2_C", c33C, c33FACSD2, 0, nil),
		call("FACSD3_B", c33B, c33FACSD3, 0, nil),
		// block-level gas accounting (two dimensions in Amsterdam): a transaction that burns 6M execution gas and a
		// plain transfer whose gas limit (28M) is above params.MaxTxGas, in a 30M block, in both orders
		burn,
		bigGas,
	}
	w.raceAlphabet = len(w.txs) - 6 // the race step keeps to the entries before these
	// Code blobs that come into existence inside the explored blocks must not already exist in the
	// parent state: the code database is keyed by hash, so an identical blob in genesis would make a
	// reader that ignores the block's own code changes look correct.
	inGenesis := map[string]bool{}
	for _, acc := range w.env.gspec.Alloc {
		inGenesis[string(acc.Code)] = true
	}
	for name, blob := range map[string][]byte{
		"runtime code of K": append(c33Adder(), byte(vm.STOP)), "delegation of E": types.AddressToDelegation(c33DLG), "re-delegation of F": types.AddressToDelegation(c33DLG2),
	} {
		if inGenesis[string(blob)] {
			panic("c33: " + name + " already exists as code in genesis")
		}
	}
	// the ancestors: empty blocks, generated once
	_, w.prefix, _ = GenerateChainWithGenesis(w.env.gspec, w.engine, c33Ancestors, func(int, *BlockGen) {})
	return w
}

// ---------------------------------------------------------------------------
// blocks

type c33Block struct {
	sel    []int
	names  []string
	block  *types.Block
	balEnc []byte // RLP of the true access list
	ref    *c33Outcome
}

func (w *c33World) feasible(sel []int) bool {
	for i, s := range sel {
		if need := w.txs[s].needs; need != "" {
			ok := false
			for _, p := range sel[:i] {
				if w.txs[p].name == need {
					ok = true
				}
			}
			if !ok {
				return false
			}
		}
	}
	return true
}

// build makes the block for a selection: the transactions are executed by the
// sequential processor on top of the last ancestor and the header is completed from that
// execution (state root, receipts, bloom, gas, requests hash and the hash of the
// access list sequential execution produced), the way a block producer does.
func (w *c33World) build(c *c33Chain, sel []int) (b *c33Block, err error) {
	b = &c33Block{sel: sel}
	nonces := map[int]uint64{}
	authNonces := map[int]uint64{}
	var txs []*types.Transaction
	for _, s := range sel {
		spec := w.txs[s]
		b.names = append(b.names, spec.name)
		if spec.makeAuth != nil {
			txs = append(txs, spec.makeAuth(w, nonces[spec.sender], func(a int) uint64 { n := authNonces[a]; authNonces[a]++; return n }))
		} else {
			txs = append(txs, spec.make(w, nonces[spec.sender]))
		}
		nonces[spec.sender]++
	}
	var (
		cfg    = w.env.cfg
		parent = c.bc.CurrentBlock()
		tm     = parent.Time + 10
		excess = eip4844.CalcExcessBlobGas(cfg, parent, tm)
		slot   = uint64(0)
		root   = w.beacon
	)
	if parent.SlotNumber != nil {
		slot = *parent.SlotNumber + 1
	}
	h := &types.Header{
		ParentHash: parent.Hash(), Coinbase: c33CB, Difficulty: new(big.Int), GasLimit: parent.GasLimit, Number: new(big.Int).Add(parent.Number, common.Big1), Time: tm,
		BaseFee: eip1559.CalcBaseFee(cfg, parent), ExcessBlobGas: &excess, BlobGasUsed: new(uint64), ParentBeaconRoot: &root, SlotNumber: &slot,
	}
	body := &types.Body{Transactions: txs, Withdrawals: []*types.Withdrawal{{Index: 0, Validator: 7, Address: c33W, Amount: 3}}}
	skeleton := types.NewBlock(h, body, nil, trie.NewStackTrie(nil))
	statedb, err := c.bc.StateAt(parent)
	if err != nil {
		return nil, err
	}
	res, err := NewStateProcessor(c.bc).Process(context.Background(), skeleton, statedb, nil, nil, vm.Config{DisableParallelExecution: true}, nil)
	if err != nil {
		return nil, fmt.Errorf("sequential execution of the selection failed: %v", err)
	}
	h.GasUsed = res.GasUsed
	if res.Requests != nil {
		rh := types.CalcRequestsHash(res.Requests)
		h.RequestsHash = &rh
	}
	b.block = AssembleBlock(c.bc, h, statedb, body, res.Receipts, res.Bal)
	if b.block.AccessList() == nil {
		return nil, fmt.Errorf("assembled block carries no access list")
	}
	b.balEnc, err = rlp.EncodeToBytes(b.block.AccessList())
	return b, err
}

// observe decodes what the observer contract logged in the reference execution and
// records which cross-transaction effects it saw (evidence that the enumerated
// blocks really contain the interactions), and checks the two values that every
// block must show: the beacon root and the parent hash written by the
// pre-execution system calls (block-access index 0).
func (w *c33World) observe(r *mc.R, b *c33Block) error {
	pos := -1
	for i, n := range b.names {
		if n == "OBS_C" {
			pos = i
		}
	}
	if pos < 0 {
		return nil
	}
	logs := b.ref.res.Receipts[pos].Logs
	var data []byte
	for _, l := range logs {
		if l.Address == c33OBS && len(l.Data) == 320 {
			data = l.Data
		}
	}
	if data == nil {
		return fmt.Errorf("observer did not log (status %d)", b.ref.res.Receipts[pos].Status)
	}
	word := func(i int) *big.Int { return new(big.Int).SetBytes(data[32*i : 32*i+32]) }
	if got := common.BytesToHash(data[192:224]); got != w.beacon {
		return fmt.Errorf("observer read beacon root %x, want %x", got, w.beacon)
	}
	if got := common.BytesToHash(data[224:256]); got != b.block.ParentHash() {
		return fmt.Errorf("observer read parent hash %x, want %x", got, b.block.ParentHash())
	}
	before := map[string]bool{}
	for _, n := range b.names[:pos] {
		before[n] = true
	}
	seen := func(name string, cond bool) {
		if cond {
			r.Outcome("observed:" + name)
		}
	}
	seen("counter-written-by-earlier-tx", word(0).Sign() != 0)
	seen("coinbase-paid-by-earlier-tx", word(1).Sign() != 0)
	seen("beneficiary-X-funded-by-earlier-tx", word(2).Sign() != 0)
	seen("D-balance-changed-by-earlier-tx", word(3).Cmp(big.NewInt(1000)) != 0)
	seen("created-contract-K-has-code", word(4).Sign() != 0)
	seen("E-delegated-by-earlier-tx", word(9).Sign() != 0)
	seen("P-funded-by-earlier-tx", word(8).Sign() != 0)
	// the observations must be explained by the transactions in front of the observer
	if (word(4).Sign() != 0) != before["FAC_A"] {
		return fmt.Errorf("EXTCODESIZE(K)=%v but FAC_A before observer: %v", word(4), before["FAC_A"])
	}
	if (word(9).Sign() != 0) != before["SETCODE_B"] {
		return fmt.Errorf("EXTCODESIZE(E)=%v but SETCODE_B before observer: %v", word(9), before["SETCODE_B"])
	}
	if (word(8).Sign() != 0) != before["FUND_P"] {
		return fmt.Errorf("BALANCE(P)=%v but FUND_P before observer: %v", word(8), before["FUND_P"])
	}
	if (word(1).Sign() != 0) != (pos > 0) {
		return fmt.Errorf("BALANCE(coinbase)=%v at position %d", word(1), pos)
	}
	return nil
}

// observeBH checks that every BH transaction of the reference execution logged
// the real ancestor hashes (so the enumerated blocks do walk the header chain).
func (w *c33World) observeBH(r *mc.R, b *c33Block) error {
	for pos, n := range b.names {
		if !strings.HasPrefix(n, "BH_") {
			continue
		}
		var data []byte
		for _, l := range b.ref.res.Receipts[pos].Logs {
			if l.Address == c33BH && len(l.Data) == 32*len(c33BHDepths) {
				data = l.Data
			}
		}
		if data == nil {
			return fmt.Errorf("%s did not log (status %d)", n, b.ref.res.Receipts[pos].Status)
		}
		for k, d := range c33BHDepths {
			want := w.prefix[0].ParentHash() // genesis
			if d <= c33Ancestors {
				want = w.prefix[c33Ancestors-d].Hash()
			}
			if got := common.BytesToHash(data[32*k : 32*k+32]); got != want {
				return fmt.Errorf("%s: BLOCKHASH(N-%d) = %x, want %x", n, d, got, want)
			}
		}
		r.Outcome("observed:ancestor-hashes-N-1,N-3,N-6,N-8")
	}
	return nil
}

// c33Digest is a compact form of the compared results (used where a block is
// executed many times): gas, state root, receipt root (covers status, cumulative
// gas, bloom and logs), requests and the rebuilt access list.
func c33Digest(res *ProcessResult, root common.Hash) string {
	enc, err := rlp.EncodeToBytes(res.Bal.ToEncodingObj())
	if err != nil {
		return "bal encode error: " + err.Error()
	}
	return fmt.Sprintf("gas=%d root=%x receipts=%x requests=%x bal=%x", res.GasUsed, root,
		types.DeriveSha(res.Receipts, trie.NewStackTrie(nil)), types.CalcRequestsHash(res.Requests), crypto.Keccak256(enc))
}

// c33Outcome is everything the statement compares, rendered canonically.
type c33Outcome struct {
	fields []string // "name=value", fixed order
	root   common.Hash
	res    *ProcessResult
}

func c33LogString(l *types.Log) string {
	return fmt.Sprintf("{%x %x %x n=%d tx=%x ti=%d bh=%x i=%d ts=%d rm=%v}", l.Address, l.Topics, l.Data, l.BlockNumber, l.TxHash, l.TxIndex, l.BlockHash, l.Index, l.BlockTimestamp, l.Removed)
}

func c33Render(res *ProcessResult, root common.Hash) *c33Outcome {
	o := &c33Outcome{root: root, res: res}
	add := func(k string, v any) { o.fields = append(o.fields, fmt.Sprintf("%s=%v", k, v)) }
	add("gasUsed", res.GasUsed)
	add("stateRoot", root.Hex())
	add("nReceipts", len(res.Receipts))
	for i, rc := range res.Receipts {
		var logs []string
		for _, l := range rc.Logs {
			logs = append(logs, c33LogString(l))
		}
		add(fmt.Sprintf("receipt[%d]", i), fmt.Sprintf("type=%d status=%d cum=%d gas=%d post=%x tx=%x ca=%x ti=%d bh=%x bn=%v bloom=%x blobgas=%d logs=%v",
			rc.Type, rc.Status, rc.CumulativeGasUsed, rc.GasUsed, rc.PostState, rc.TxHash, rc.ContractAddress, rc.TransactionIndex, rc.BlockHash, rc.BlockNumber,
			crypto.Keccak256(rc.Bloom[:]), rc.BlobGasUsed, logs))
	}
	var logs []string
	for _, l := range res.Logs {
		logs = append(logs, c33LogString(l))
	}
	add("logs", logs)
	if res.Requests == nil {
		add("requests", "nil")
	} else {
		add("requests", fmt.Sprintf("%x", res.Requests))
	}
	if res.Bal == nil {
		add("bal", "nil")
	} else {
		enc, err := rlp.EncodeToBytes(res.Bal.ToEncodingObj())
		if err != nil {
			add("bal", "encode error: "+err.Error())
		} else {
			add("bal", fmt.Sprintf("%x", enc))
		}
	}
	return o
}

func (o *c33Outcome) diff(other *c33Outcome) string {
	for i := range o.fields {
		if i >= len(other.fields) {
			return "missing field " + o.fields[i]
		}
		if o.fields[i] != other.fields[i] {
			a, b := o.fields[i], other.fields[i]
			if len(a) > 600 {
				a = a[:600] + "…"
			}
			if len(b) > 600 {
				b = b[:600] + "…"
			}
			return fmt.Sprintf("sequential %s\n  parallel   %s", a, b)
		}
	}
	if len(other.fields) != len(o.fields) {
		return "field count differs"
	}
	return ""
}

// c33Chain is one BlockChain whose head is the last ancestor; blocks are executed against it without
// ever being written, so it can be reused for any number of cases.
type c33Chain struct{ bc *BlockChain }

type c33Pool struct {
	w      *c33World
	mu     sync.Mutex
	free   []*c33Chain
	all    []*c33Chain
	failed error
}

func (p *c33Pool) get() *c33Chain {
	p.mu.Lock()
	if n := len(p.free); n > 0 {
		c := p.free[n-1]
		p.free = p.free[:n-1]
		p.mu.Unlock()
		return c
	}
	p.mu.Unlock()
	bc, err := NewBlockChain(rawdb.NewMemoryDatabase(), p.w.env.gspec, p.w.engine, nil)
	if err != nil {
		panic(fmt.Sprintf("c33: cannot create chain: %v", err))
	}
	if _, err := bc.InsertChain(p.w.prefix); err != nil {
		panic(fmt.Sprintf("c33: cannot import the ancestors: %v", err))
	}
	if head := bc.CurrentBlock(); head.Number.Uint64() != c33Ancestors || head.Hash() != p.w.prefix[c33Ancestors-1].Hash() {
		panic(fmt.Sprintf("c33: head is block %d after importing the ancestors", head.Number))
	}
	c := &c33Chain{bc: bc}
	p.mu.Lock()
	p.all = append(p.all, c)
	p.mu.Unlock()
	return c
}

func (p *c33Pool) put(c *c33Chain) { p.mu.Lock(); p.free = append(p.free, c); p.mu.Unlock() }

func (p *c33Pool) close() {
	for _, c := range p.all {
		c.bc.Stop()
	}
}

func (c *c33Chain) rules(block *types.Block) params.Rules {
	return c.bc.chainConfig.Rules(block.Number(), block.Difficulty().Sign() == 0, block.Time())
}

// sequential executes block with the sequential processor.
func (c *c33Chain) sequential(block *types.Block) (*c33Outcome, error) {
	parent := c.bc.GetHeader(block.ParentHash(), block.NumberU64()-1)
	statedb, err := c.bc.StateAt(parent)
	if err != nil {
		return nil, err
	}
	res, err := NewStateProcessor(c.bc).Process(context.Background(), block, statedb, nil, nil, vm.Config{DisableParallelExecution: true}, nil)
	if err != nil {
		return nil, err
	}
	return c33Render(res, statedb.IntermediateRoot(c.rules(block))), nil
}

// parallel executes block exactly the way BlockChain.ProcessBlock does for a
// block that carries an access list (shared cached reader with access-list
// prefetch hint, trie prefetcher, the chain's caches and vm config), and returns
// the processor error, or the outcome together with ValidateState's verdict.
func (c *c33Chain) parallel(block *types.Block) (out *c33Outcome, procErr, valErr error) {
	procErr = c.parallelDo(block, func(statedb *state.StateDB, res *ProcessResult) {
		valErr = c.bc.validator.ValidateState(block, statedb, res, false)
		out = c33Render(res, statedb.IntermediateRoot(c.rules(block)))
	})
	return out, procErr, valErr
}

// parallelDo runs the access-list driven processor and hands the live state and
// the result to after (before the readers and prefetchers are released).
func (c *c33Chain) parallelDo(block *types.Block, after func(statedb *state.StateDB, res *ProcessResult)) error {
	bc := c.bc
	if !bc.useBALExecution(block, false) {
		return fmt.Errorf("c33: block is not eligible for access-list driven execution")
	}
	parent := bc.GetHeader(block.ParentHash(), block.NumberU64()-1)
	var (
		interrupt atomic.Bool
		execIndex atomic.Int64
	)
	execIndex.Store(-1)
	statedb, cleanup, err := bc.setupExecutionState(parent.Root, block, ExecuteConfig{}, &interrupt, &execIndex)
	if err != nil {
		return err
	}
	defer cleanup(nil)
	statedb.StartPrefetcher("chain", nil)
	defer statedb.StopPrefetcher()
	res, err := bc.processor.Process(context.Background(), block, statedb, bc.jumpDestCache, bc.precompileCache, bc.cfg.VmConfig, &execIndex)
	if err != nil {
		return err
	}
	after(statedb, res)
	return nil
}

// importDry runs the block through the import pipeline's body validation,
// execution and state validation without writing anything.
func (c *c33Chain) importDry(block *types.Block) (stage string, err error) {
	if err := c.bc.validator.ValidateBody(block); err != nil {
		return "body", err
	}
	parent := c.bc.GetHeader(block.ParentHash(), block.NumberU64()-1)
	if _, err := c.bc.ProcessBlock(context.Background(), parent.Root, block, ExecuteConfig{}); err != nil {
		return "execute", err
	}
	return "", nil
}

// ---------------------------------------------------------------------------
// access-list edits (on a mirror of the wire format)

type c33Write struct {
	Index uint32
	Value *uint256.Int
}
type c33Slot struct {
	Slot    *uint256.Int
	Changes []c33Write
}
type c33BalCh struct {
	Index   uint32
	Balance *uint256.Int
}
type c33NonceCh struct {
	Index uint32
	Nonce uint64
}
type c33CodeCh struct {
	Index uint32
	Code  []byte
}
type c33Acc struct {
	Address  common.Address
	Storage  []c33Slot
	Reads    []*uint256.Int
	Balances []c33BalCh
	Nonces   []c33NonceCh
	Codes    []c33CodeCh
}

func c33Decode(enc []byte) []c33Acc {
	var l []c33Acc
	if err := rlp.DecodeBytes(enc, &l); err != nil {
		panic(fmt.Sprintf("c33: mirror decode: %v", err))
	}
	return l
}

func c33Encode(l []c33Acc) []byte {
	b, err := rlp.EncodeToBytes(l)
	if err != nil {
		panic(fmt.Sprintf("c33: mirror encode: %v", err))
	}
	return b
}

type c33Edit struct {
	desc string
	enc  []byte
}

// c33Edits returns every single edit of the access list (deduplicated by
// encoding, the identity excluded). nTx is the number of transactions. Entries
// for which skip returns true are left alone (see "static entries" in the driver).
func c33Edits(orig []byte, nTx int, skip func(a c33Acc) bool) []c33Edit {
	var (
		out  []c33Edit
		seen = map[string]bool{string(orig): true}
	)
	emit := func(desc string, mutate func(l []c33Acc) []c33Acc) {
		l := mutate(c33Decode(orig)) // fresh deep copy per edit
		enc := c33Encode(l)
		if seen[string(enc)] {
			return
		}
		seen[string(enc)] = true
		out = append(out, c33Edit{desc, enc})
	}
	u := func(v uint64) *uint256.Int { return uint256.NewInt(v) }
	base := c33Decode(orig)
	last := uint32(nTx + 1)
	for ai := range base {
		a := base[ai]
		if skip != nil && skip(a) {
			continue
		}
		an := fmt.Sprintf("acct[%d:%x]", ai, a.Address[:2])
		emit(an+" drop", func(l []c33Acc) []c33Acc { return append(l[:ai], l[ai+1:]...) })
		emit(an+" duplicate", func(l []c33Acc) []c33Acc {
			return append(l[:ai+1], append([]c33Acc{l[ai]}, l[ai+1:]...)...)
		})
		if ai+1 < len(base) {
			emit(an+" swap-with-next", func(l []c33Acc) []c33Acc { l[ai], l[ai+1] = l[ai+1], l[ai]; return l })
		}
		emit(an+" address+1", func(l []c33Acc) []c33Acc { l[ai].Address[19] ^= 1; return l })
		// storage writes
		for si := range a.Storage {
			sn := fmt.Sprintf("%s slot[%s]", an, a.Storage[si].Slot.Hex())
			emit(sn+" drop", func(l []c33Acc) []c33Acc {
				l[ai].Storage = append(l[ai].Storage[:si], l[ai].Storage[si+1:]...)
				return l
			})
			emit(sn+" demote-to-read", func(l []c33Acc) []c33Acc {
				s := l[ai].Storage[si].Slot
				l[ai].Storage = append(l[ai].Storage[:si], l[ai].Storage[si+1:]...)
				l[ai].Reads = c33InsertSorted(l[ai].Reads, s)
				return l
			})
			emit(sn+" key+1", func(l []c33Acc) []c33Acc {
				l[ai].Storage[si].Slot = new(uint256.Int).AddUint64(l[ai].Storage[si].Slot, 1)
				return l
			})
			if si+1 < len(a.Storage) {
				emit(sn+" swap-with-next", func(l []c33Acc) []c33Acc {
					l[ai].Storage[si], l[ai].Storage[si+1] = l[ai].Storage[si+1], l[ai].Storage[si]
					return l
				})
			}
			for wi := range a.Storage[si].Changes {
				wn := fmt.Sprintf("%s write[%d]", sn, a.Storage[si].Changes[wi].Index)
				emit(wn+" drop", func(l []c33Acc) []c33Acc {
					c := l[ai].Storage[si].Changes
					l[ai].Storage[si].Changes = append(c[:wi], c[wi+1:]...)
					return l
				})
				emit(wn+" value+1", func(l []c33Acc) []c33Acc {
					c := &l[ai].Storage[si].Changes[wi]
					c.Value = new(uint256.Int).AddUint64(c.Value, 1)
					return l
				})
				emit(wn+" value=0", func(l []c33Acc) []c33Acc { l[ai].Storage[si].Changes[wi].Value = u(0); return l })
				emit(wn+" index-1", func(l []c33Acc) []c33Acc { l[ai].Storage[si].Changes[wi].Index--; return l })
				emit(wn+" index+1", func(l []c33Acc) []c33Acc { l[ai].Storage[si].Changes[wi].Index++; return l })
				emit(wn+" duplicate", func(l []c33Acc) []c33Acc {
					c := l[ai].Storage[si].Changes
					l[ai].Storage[si].Changes = append(c[:wi+1], append([]c33Write{c[wi]}, c[wi+1:]...)...)
					return l
				})
				if wi+1 < len(a.Storage[si].Changes) {
					emit(wn+" swap-with-next", func(l []c33Acc) []c33Acc {
						c := l[ai].Storage[si].Changes
						c[wi], c[wi+1] = c[wi+1], c[wi]
						return l
					})
				}
			}
			// an additional write of the slot at every index it is not written at
			for _, idx := range []uint32{0, 1, last} {
				emit(fmt.Sprintf("%s add-write[%d]", sn, idx), func(l []c33Acc) []c33Acc {
					c := l[ai].Storage[si].Changes
					for _, w := range c {
						if w.Index == idx {
							return l
						}
					}
					c = append(c, c33Write{idx, u(0x77)})
					sort.Slice(c, func(i, j int) bool { return c[i].Index < c[j].Index })
					l[ai].Storage[si].Changes = c
					return l
				})
			}
		}
		// storage reads
		for ri := range a.Reads {
			rn := fmt.Sprintf("%s read[%s]", an, a.Reads[ri].Hex())
			emit(rn+" drop", func(l []c33Acc) []c33Acc {
				l[ai].Reads = append(l[ai].Reads[:ri], l[ai].Reads[ri+1:]...)
				return l
			})
			emit(rn+" key+1", func(l []c33Acc) []c33Acc { l[ai].Reads[ri] = new(uint256.Int).AddUint64(l[ai].Reads[ri], 1); return l })
			emit(rn+" duplicate", func(l []c33Acc) []c33Acc {
				l[ai].Reads = append(l[ai].Reads[:ri+1], append([]*uint256.Int{l[ai].Reads[ri]}, l[ai].Reads[ri+1:]...)...)
				return l
			})
			if ri+1 < len(a.Reads) {
				emit(rn+" swap-with-next", func(l []c33Acc) []c33Acc {
					l[ai].Reads[ri], l[ai].Reads[ri+1] = l[ai].Reads[ri+1], l[ai].Reads[ri]
					return l
				})
			}
			for _, idx := range []uint32{1, last} {
				emit(fmt.Sprintf("%s promote-to-write[%d]", rn, idx), func(l []c33Acc) []c33Acc {
					s := l[ai].Reads[ri]
					l[ai].Reads = append(l[ai].Reads[:ri], l[ai].Reads[ri+1:]...)
					l[ai].Storage = c33InsertSlot(l[ai].Storage, c33Slot{s, []c33Write{{idx, u(0x77)}}})
					return l
				})
			}
			emit(rn+" also-written", func(l []c33Acc) []c33Acc {
				l[ai].Storage = c33InsertSlot(l[ai].Storage, c33Slot{l[ai].Reads[ri], []c33Write{{1, u(0x77)}}})
				return l
			})
		}
		// extra read / write of every alphabet slot that is not listed
		for _, s := range []uint64{0, 5} {
			emit(fmt.Sprintf("%s add-read[%d]", an, s), func(l []c33Acc) []c33Acc {
				if c33HasSlot(l[ai], u(s)) {
					return l
				}
				l[ai].Reads = c33InsertSorted(l[ai].Reads, u(s))
				return l
			})
			emit(fmt.Sprintf("%s add-slot-write[%d]", an, s), func(l []c33Acc) []c33Acc {
				if c33HasSlot(l[ai], u(s)) {
					return l
				}
				l[ai].Storage = c33InsertSlot(l[ai].Storage, c33Slot{u(s), []c33Write{{1, u(0x77)}}})
				return l
			})
		}
		// balances
		for bi := range a.Balances {
			bn := fmt.Sprintf("%s balance[%d]", an, a.Balances[bi].Index)
			emit(bn+" drop", func(l []c33Acc) []c33Acc {
				l[ai].Balances = append(l[ai].Balances[:bi], l[ai].Balances[bi+1:]...)
				return l
			})
			emit(bn+" value+1", func(l []c33Acc) []c33Acc {
				l[ai].Balances[bi].Balance = new(uint256.Int).AddUint64(l[ai].Balances[bi].Balance, 1)
				return l
			})
			emit(bn+" value-1", func(l []c33Acc) []c33Acc {
				if l[ai].Balances[bi].Balance.IsZero() {
					return l
				}
				l[ai].Balances[bi].Balance = new(uint256.Int).SubUint64(l[ai].Balances[bi].Balance, 1)
				return l
			})
			emit(bn+" index-1", func(l []c33Acc) []c33Acc { l[ai].Balances[bi].Index--; return l })
			emit(bn+" index+1", func(l []c33Acc) []c33Acc { l[ai].Balances[bi].Index++; return l })
			emit(bn+" duplicate", func(l []c33Acc) []c33Acc {
				c := l[ai].Balances
				l[ai].Balances = append(c[:bi+1], append([]c33BalCh{c[bi]}, c[bi+1:]...)...)
				return l
			})
			if bi+1 < len(a.Balances) {
				emit(bn+" swap-with-next", func(l []c33Acc) []c33Acc {
					l[ai].Balances[bi], l[ai].Balances[bi+1] = l[ai].Balances[bi+1], l[ai].Balances[bi]
					return l
				})
			}
		}
		for _, idx := range []uint32{1, last} {
			emit(fmt.Sprintf("%s add-balance[%d]", an, idx), func(l []c33Acc) []c33Acc {
				for _, b := range l[ai].Balances {
					if b.Index == idx {
						return l
					}
				}
				// repeat the balance that is in force at idx (a "no-change" entry) or 1 when there is none
				v := u(1)
				for _, b := range l[ai].Balances {
					if b.Index < idx {
						v = b.Balance
					}
				}
				c := append(l[ai].Balances, c33BalCh{idx, v})
				sort.Slice(c, func(i, j int) bool { return c[i].Index < c[j].Index })
				l[ai].Balances = c
				return l
			})
		}
		// nonces
		for ni := range a.Nonces {
			nn := fmt.Sprintf("%s nonce[%d]", an, a.Nonces[ni].Index)
			emit(nn+" drop", func(l []c33Acc) []c33Acc {
				l[ai].Nonces = append(l[ai].Nonces[:ni], l[ai].Nonces[ni+1:]...)
				return l
			})
			emit(nn+" value+1", func(l []c33Acc) []c33Acc { l[ai].Nonces[ni].Nonce++; return l })
			emit(nn+" value-1", func(l []c33Acc) []c33Acc { l[ai].Nonces[ni].Nonce--; return l })
			emit(nn+" index-1", func(l []c33Acc) []c33Acc { l[ai].Nonces[ni].Index--; return l })
			emit(nn+" index+1", func(l []c33Acc) []c33Acc { l[ai].Nonces[ni].Index++; return l })
			emit(nn+" duplicate", func(l []c33Acc) []c33Acc {
				c := l[ai].Nonces
				l[ai].Nonces = append(c[:ni+1], append([]c33NonceCh{c[ni]}, c[ni+1:]...)...)
				return l
			})
			if ni+1 < len(a.Nonces) {
				emit(nn+" swap-with-next", func(l []c33Acc) []c33Acc {
					l[ai].Nonces[ni], l[ai].Nonces[ni+1] = l[ai].Nonces[ni+1], l[ai].Nonces[ni]
					return l
				})
			}
		}
		for _, idx := range []uint32{1, last} {
			emit(fmt.Sprintf("%s add-nonce[%d]", an, idx), func(l []c33Acc) []c33Acc {
				for _, n := range l[ai].Nonces {
					if n.Index == idx {
						return l
					}
				}
				v := uint64(1)
				for _, n := range l[ai].Nonces {
					if n.Index < idx {
						v = n.Nonce
					}
				}
				c := append(l[ai].Nonces, c33NonceCh{idx, v})
				sort.Slice(c, func(i, j int) bool { return c[i].Index < c[j].Index })
				l[ai].Nonces = c
				return l
			})
		}
		// code
		for ci := range a.Codes {
			cn := fmt.Sprintf("%s code[%d]", an, a.Codes[ci].Index)
			emit(cn+" drop", func(l []c33Acc) []c33Acc {
				l[ai].Codes = append(l[ai].Codes[:ci], l[ai].Codes[ci+1:]...)
				return l
			})
			emit(cn+" flip-last-byte", func(l []c33Acc) []c33Acc {
				c := bytes.Clone(l[ai].Codes[ci].Code)
				if len(c) > 0 {
					c[len(c)-1] ^= 1
				}
				l[ai].Codes[ci].Code = c
				return l
			})
			emit(cn+" truncate", func(l []c33Acc) []c33Acc {
				if n := len(l[ai].Codes[ci].Code); n > 0 {
					l[ai].Codes[ci].Code = l[ai].Codes[ci].Code[:n-1]
				}
				return l
			})
			emit(cn+" empty", func(l []c33Acc) []c33Acc { l[ai].Codes[ci].Code = nil; return l })
			emit(cn+" index-1", func(l []c33Acc) []c33Acc { l[ai].Codes[ci].Index--; return l })
			emit(cn+" index+1", func(l []c33Acc) []c33Acc { l[ai].Codes[ci].Index++; return l })
		}
		for _, idx := range []uint32{1, last} {
			emit(fmt.Sprintf("%s add-code[%d]", an, idx), func(l []c33Acc) []c33Acc {
				for _, c := range l[ai].Codes {
					if c.Index == idx {
						return l
					}
				}
				c := append(l[ai].Codes, c33CodeCh{idx, []byte{0x00}})
				sort.Slice(c, func(i, j int) bool { return c[i].Index < c[j].Index })
				l[ai].Codes = c
				return l
			})
		}
	}
	// an account nobody touched
	emit("add-empty-account", func(l []c33Acc) []c33Acc {
		l = append(l, c33Acc{Address: c33Extra})
		sort.Slice(l, func(i, j int) bool { return bytes.Compare(l[i].Address[:], l[j].Address[:]) < 0 })
		return l
	})
	emit("add-account-with-read", func(l []c33Acc) []c33Acc {
		l = append(l, c33Acc{Address: c33Extra, Reads: []*uint256.Int{u(0)}})
		sort.Slice(l, func(i, j int) bool { return bytes.Compare(l[i].Address[:], l[j].Address[:]) < 0 })
		return l
	})
	emit("empty-list", func(l []c33Acc) []c33Acc { return nil })
	return out
}

func c33HasSlot(a c33Acc, s *uint256.Int) bool {
	for _, r := range a.Reads {
		if r.Eq(s) {
			return true
		}
	}
	for _, w := range a.Storage {
		if w.Slot.Eq(s) {
			return true
		}
	}
	return false
}

func c33InsertSorted(l []*uint256.Int, s *uint256.Int) []*uint256.Int {
	l = append(l, s)
	sort.SliceStable(l, func(i, j int) bool { return l[i].Lt(l[j]) })
	return l
}

func c33InsertSlot(l []c33Slot, s c33Slot) []c33Slot {
	l = append(l, s)
	sort.SliceStable(l, func(i, j int) bool { return l[i].Slot.Lt(l[j].Slot) })
	return l
}

// c33Mutant attaches the edited list to the block: the header commits to the
// edited list. When adjust is non-nil the other execution-derived header fields
// are taken from it.
func c33Mutant(block *types.Block, enc []byte, adjust *c33Outcome) (*types.Block, error) {
	var list bal.BlockAccessList
	if err := rlp.DecodeBytes(enc, &list); err != nil {
		return nil, err
	}
	h := block.Header()
	hash := list.Hash()
	h.BlockAccessListHash = &hash
	if adjust != nil {
		h.Root = adjust.root
		h.GasUsed = adjust.res.GasUsed
		h.Bloom = types.MergeBloom(adjust.res.Receipts)
		h.ReceiptHash = types.DeriveSha(adjust.res.Receipts, trie.NewStackTrie(nil))
		if adjust.res.Requests != nil {
			rh := types.CalcRequestsHash(adjust.res.Requests)
			h.RequestsHash = &rh
		}
	}
	return types.NewBlockWithHeader(h).WithBody(*block.Body()).WithAccessListUnsafe(&list), nil
}

func c33ErrClass(stage string, err error) string {
	s := err.Error()
	for _, k := range []string{"access list hash mismatch", "invalid block access list", "invalid merkle root", "invalid gas used", "invalid bloom",
		"invalid receipt root", "invalid requests hash", "nonce too low", "nonce too high", "insufficient funds", "could not apply tx", "system call failed", "empty system contract"} {
		if strings.Contains(s, k) {
			return stage + ":" + k
		}
	}
	if len(s) > 40 {
		s = s[:40]
	}
	return stage + ":" + s
}

// checkEdit returns a non-nil error when the edited block is accepted.
//
// Pass 1: the header commits to the edited list, every other field as built.
// Pass 2 (the strongest producer): state root, receipt root, bloom, gas used and
// requests hash are set to what this node itself computes for the edited list, so
// only the access-list checks (and the processor's own errors) can still reject.
// Execution does not read those header fields, so pass 2 validates the result of
// the same execution against the adjusted header; with full it is additionally
// re-executed through BlockChain.ProcessBlock.
func (c *c33Chain) checkEdit(b *c33Block, e c33Edit, full bool, note func(string)) error {
	m, err := c33Mutant(b.block, e.enc, nil)
	if err != nil {
		note("rejected:decode")
		return nil
	}
	if err := c.bc.validator.ValidateBody(m); err != nil {
		note("rejected:" + c33ErrClass("body", err))
		return nil
	}
	var (
		verdict error
		m2      *types.Block
		first   string
	)
	procErr := c.parallelDo(m, func(statedb *state.StateDB, res *ProcessResult) {
		valErr := c.bc.validator.ValidateState(m, statedb, res, false)
		if valErr == nil {
			verdict = fmt.Errorf("edited access list accepted by ValidateBody, Process and ValidateState (header fields as built)")
			return
		}
		first = c33ErrClass("state", valErr)
		m2, err = c33Mutant(b.block, e.enc, &c33Outcome{root: statedb.IntermediateRoot(c.rules(m)), res: res})
		if err != nil {
			verdict = fmt.Errorf("internal: %v", err)
			return
		}
		if err := c.bc.validator.ValidateBody(m2); err != nil {
			verdict = fmt.Errorf("internal: adjusted header fails body validation: %v", err)
			return
		}
		err2 := c.bc.validator.ValidateState(m2, statedb, res, false)
		if err2 == nil {
			verdict = fmt.Errorf("edited access list accepted by ValidateState once state root, receipt root, bloom, gas used and requests hash "+
				"were set to what the node computes for the edited list (as built it was rejected only by: %v)", valErr)
			return
		}
		note("rejected:" + c33ErrClass("state", err2) + " (as-built:" + first + ")")
	})
	if procErr != nil {
		note("rejected:" + c33ErrClass("process", procErr))
		return nil
	}
	if verdict != nil || !full {
		return verdict
	}
	if stage, err := c.importDry(m2); err == nil {
		return fmt.Errorf("edited access list with adjusted header accepted by BlockChain.ProcessBlock")
	} else if stage != "execute" {
		return fmt.Errorf("internal: adjusted block rejected at %s: %v", stage, err)
	}
	return nil
}

// ---------------------------------------------------------------------------
// driver

func c33Selections(alphabet []int, k int) [][]int {
	var out [][]int
	var rec func(cur []int)
	rec = func(cur []int) {
		if len(cur) == k {
			out = append(out, append([]int{}, cur...))
			return
		}
		for _, a := range alphabet {
			dup := false
			for _, c := range cur {
				if c == a {
					dup = true
				}
			}
			if !dup {
				rec(append(cur, a))
			}
		}
	}
	rec(nil)
	return out
}

func TestVerif_C33(t *testing.T) {
	mc.Run(t, "C33", func(r *mc.R) {
		defer runtime.GOMAXPROCS(runtime.GOMAXPROCS(0))
		w := c33NewWorld()
		pool := &c33Pool{w: w}
		defer pool.close()
		// The ancestors are valid (empty) Amsterdam blocks produced by the sequential chain
		// maker; importing them runs the access-list-driven processor: a rejection is a
		// violation of the property itself.
		if err := mc.Safely(func() error { pool.put(pool.get()); return nil }); err != nil {
			desc := map[string]any{"phase": "ancestors"}
			r.Eval(1)
			r.Violation(c33JSON(desc), "the chain of empty ancestor blocks built by sequential execution is rejected by block import: "+err.Error(), desc)
			return
		}

		nAll := len(w.txs)
		nCore := 12 // the first nCore entries carry the densest interactions
		nTriple := mc.Pick(r, nCore, nAll)
		nEdit := mc.Pick(r, 10, nCore) // 0-2 transaction blocks over the first nEdit entries are edited (thorough: all 0-2 blocks, 3-transaction blocks over nEdit)
		staticEvery := mc.Pick(r, 16, 1)
		procs := []int{1, 2, 16}
		r.Rule("every ordered selection of 0, 1 and 2 transactions from the full alphabet and of 3 transactions from its first alphabet_for_triples entries is one Amsterdam block " +
			"(selections where the unfunded sender acts before it is funded cannot form a block and are counted as infeasible); " +
			"oracle A on every block: sequential vs access-list-driven execution per GOMAXPROCS value; " +
			"oracle B: every single edit (see c33Edits: drop/duplicate/swap/re-key every account, slot, read, write, balance, nonce and code entry, value +-1, index +-1, " +
			"demote/promote between read and write, additional reads/writes/balance/nonce/code entries, additional accounts) of the true access list with a distinct encoding must be rejected; " +
			"quick: edits on 0-2 transaction blocks over the first alphabet_for_edits entries, thorough: on all 0-2 transaction blocks (each edited block also re-executed through BlockChain.ProcessBlock) and on the 3-transaction blocks over the first alphabet_for_edits entries; " +
			"account entries that are byte-identical to the entry in the transaction-less block (system contracts no transaction touched) are edited on every static_every-th edited block only; " +
			"distinct = distinct true access lists (oracle A) plus distinct (block, edited list) pairs (oracle B)")
		r.Bound("alphabet", nAll)
		r.Bound("alphabet_for_triples", nTriple)
		r.Bound("alphabet_for_edits", nEdit)
		r.Bound("static_every", staticEvery)
		r.Bound("gomaxprocs", procs)
		r.Assume("worker goroutines of the parallel processor, the access-list prefetcher and the trie prefetcher run free; the oracle does not depend on their schedule (controlled schedules are a separate part of C33)")
		r.Assume("a block is the sequential processor's execution of the selection on top of 7 empty Amsterdam ancestors (block 8) with the header completed from that execution (AssembleBlock); the sequential reference is StateProcessor.Process with DisableParallelExecution")
		r.Assume("pass 2 of oracle B relies on block execution not reading the header's state root, receipt root, bloom, gas used and requests hash (thorough re-executes through ProcessBlock)")

		var all []int
		for i := 0; i < nAll; i++ {
			all = append(all, i)
		}
		sels := [][]int{{}}
		sels = append(sels, c33Selections(all, 1)...)
		sels = append(sels, c33Selections(all, 2)...)
		sels = append(sels, c33Selections(all[:nTriple], 3)...)
		if r.Replaying() {
			// only the block of the replayed case (and the transaction-less block) is needed
			var d struct {
				Txs []string `json:"txs"`
			}
			_ = json.Unmarshal(r.ReplayDescriptor(), &d)
			var keep [][]int
			for _, sel := range sels {
				same := len(sel) == len(d.Txs)
				for i := 0; same && i < len(sel); i++ {
					same = w.txs[sel[i]].name == d.Txs[i]
				}
				if same || len(sel) == 0 {
					keep = append(keep, sel)
				}
			}
			sels = keep
		}
		inCore := func(sel []int) bool {
			for _, s := range sel {
				if s >= nEdit {
					return false
				}
			}
			return true
		}

		t0 := time.Now()
		lap := func(what string) { r.T.Logf("c33 phase %s done at %.1fs", what, time.Since(t0).Seconds()) }
		// ---- phase 0: build every block, sequential reference
		runtime.GOMAXPROCS(16)
		blocks := make([]*c33Block, len(sels))
		r.Parallel(len(sels), func(i int) {
			sel := sels[i]
			var names []string
			for _, s := range sel {
				names = append(names, w.txs[s].name)
			}
			if !w.feasible(sel) {
				r.Outcome("infeasible-selection")
				return
			}
			c := pool.get()
			defer pool.put(c)
			// built outside r.Case so that later phases can be replayed on their own
			buildErr := mc.Safely(func() error {
				b, err := w.build(c, sel)
				if err != nil {
					return err
				}
				if got := len(b.block.Transactions()); got != len(sel) {
					return fmt.Errorf("block has %d transactions, want %d", got, len(sel))
				}
				ref, err := c.sequential(b.block)
				if err != nil {
					return fmt.Errorf("sequential execution of the built block failed: %v", err)
				}
				// the sequential re-execution must reproduce what the builder committed to
				h := b.block.Header()
				if ref.root != h.Root || ref.res.GasUsed != h.GasUsed {
					return fmt.Errorf("sequential re-execution: root %x gas %d, header root %x gas %d", ref.root, ref.res.GasUsed, h.Root, h.GasUsed)
				}
				enc, _ := rlp.EncodeToBytes(ref.res.Bal.ToEncodingObj())
				if !bytes.Equal(enc, b.balEnc) {
					return fmt.Errorf("sequential re-execution rebuilds a different access list than the builder")
				}
				if !bytes.Equal(c33Encode(c33Decode(b.balEnc)), b.balEnc) {
					return fmt.Errorf("internal: mirror encoding is not the identity")
				}
				b.ref = ref
				blocks[i] = b
				return nil
			})
			r.Case(map[string]any{"phase": "build", "txs": names}, func() error { return buildErr })
			if b := blocks[i]; b != nil {
				r.DistinctHash(mc.Hash64(string(b.balEnc)))
				st := ""
				for _, rc := range b.ref.res.Receipts {
					st += fmt.Sprint(rc.Status)
				}
				r.Outcome("built:statuses=" + st)
				if err := w.observe(r, b); err != nil {
					r.HarnessError(fmt.Sprintf("c33: %v: %v", b.names, err))
				}
				if err := w.observeBH(r, b); err != nil {
					r.HarnessError(fmt.Sprintf("c33: %v: %v", b.names, err))
				}
				// accounts that end the block empty although the access list carries balance changes for them
				for _, a := range c33Decode(b.balEnc) {
					if n := len(a.Balances); n > 0 && a.Balances[n-1].Balance.IsZero() && len(a.Codes) == 0 && len(a.Nonces) == 0 {
						switch a.Address {
						case w.m, w.m2:
							if n >= 2 {
								r.Outcome("observed:absent-address-funded-then-emptied-in-a-later-tx")
							}
						case w.m3:
							r.Outcome("observed:existing-balance-only-account-emptied")
						}
					}
				}
				// how the pre-delegated authority's code changes in this block (none / one / several entries)
				for _, a := range c33Decode(b.balEnc) {
					if a.Address == w.addrs[c33F] && len(a.Codes) > 0 {
						last := a.Codes[len(a.Codes)-1].Code
						kind := "re-delegated"
						if len(last) == 0 {
							kind = "cleared"
						}
						r.Outcome(fmt.Sprintf("observed:pre-delegated-authority:%d-code-changes:finally-%s", len(a.Codes), kind))
					}
				}
				if len(b.ref.res.Requests) > 0 {
					r.Outcome("built:with-requests")
				}
			}
		})
		var live []*c33Block
		for _, b := range blocks {
			if b != nil {
				live = append(live, b)
			}
		}
		r.Bound("blocks", len(live))
		lap("build")
		if r.Expired() {
			return
		}

		// ---- phase 1: oracle A under each GOMAXPROCS value
		for _, g := range procs {
			runtime.GOMAXPROCS(g)
			var ran atomic.Int64
			workers := 16
			var wg sync.WaitGroup
			var next atomic.Int64
			for wk := 0; wk < workers; wk++ {
				wg.Add(1)
				go func() {
					defer wg.Done()
					c := pool.get()
					defer pool.put(c)
					for {
						i := int(next.Add(1) - 1)
						if i >= len(live) || r.Expired() {
							return
						}
						b := live[i]
						r.Case(map[string]any{"phase": "parallel", "gomaxprocs": g, "txs": b.names}, func() error {
							if got := runtime.GOMAXPROCS(0); got != g {
								return fmt.Errorf("internal: GOMAXPROCS is %d, want %d", got, g)
							}
							out, procErr, valErr := c.parallel(b.block)
							if procErr != nil {
								return fmt.Errorf("parallel execution failed on a block sequential execution accepts: %v", procErr)
							}
							if d := b.ref.diff(out); d != "" {
								return fmt.Errorf("parallel != sequential: %s", d)
							}
							if valErr != nil {
								return fmt.Errorf("ValidateState rejects the true block after parallel execution: %v", valErr)
							}
							if g == 16 {
								if stage, err := c.importDry(b.block); err != nil {
									return fmt.Errorf("import pipeline rejects the true block at %s: %v", stage, err)
								}
							}
							return nil
						})
						ran.Add(1)
					}
				}()
			}
			wg.Wait()
			r.OutcomeN(fmt.Sprintf("oracleA:agree:gomaxprocs=%d", g), ran.Load())
			lap(fmt.Sprintf("oracleA/%d", g))
			if r.Expired() {
				return
			}
		}
		runtime.GOMAXPROCS(16)

		// ---- phase 2: oracle B
		static := map[common.Address]string{}
		for _, b := range live {
			if len(b.sel) == 0 {
				for _, a := range c33Decode(b.balEnc) {
					static[a.Address] = string(c33Encode([]c33Acc{a}))
				}
			}
		}
		if len(static) == 0 {
			r.HarnessError("c33: transaction-less block missing")
			return
		}
		isStatic := func(a c33Acc) bool { return static[a.Address] == string(c33Encode([]c33Acc{a})) }
		type target struct {
			b          *c33Block
			withStatic bool
			full       bool
		}
		var targets []target
		for _, b := range live {
			switch {
			case len(b.sel) <= 2 && r.Thorough():
				targets = append(targets, target{b, true, true})
			case len(b.sel) <= 2 && inCore(b.sel), len(b.sel) == 3 && inCore(b.sel) && r.Thorough():
				targets = append(targets, target{b, len(targets)%staticEvery == 0 || r.Replaying(), false})
			}
		}
		var nEdits, nStaticBlocks atomic.Int64
		r.Parallel(len(targets), func(i int) {
			tg := targets[i]
			b := tg.b
			c := pool.get()
			defer pool.put(c)
			skip := isStatic
			if tg.withStatic {
				skip = nil
				nStaticBlocks.Add(1)
			}
			edits := c33Edits(b.balEnc, len(b.sel), skip)
			local := map[string]int64{}
			for _, e := range edits {
				if r.Expired() {
					break
				}
				desc := map[string]any{"phase": "edit", "txs": b.names, "edit": e.desc}
				r.Case(desc, func() error {
					return c.checkEdit(b, e, tg.full, func(o string) { local[o]++ })
				})
				r.DistinctHash(mc.Hash64(string(b.balEnc) + "|" + string(e.enc)))
				if n := nEdits.Add(1); n%4099 == 0 {
					r.Sample(desc)
				}
			}
			for k, v := range local {
				r.OutcomeN("oracleB:"+k, v)
			}
		})
		r.Bound("edited_blocks_with_static_entries", nStaticBlocks.Load())
		lap("oracleB")
		r.Bound("edited_blocks", len(targets))
		r.Bound("edits", nEdits.Load())
	})
}

// TestVerif_C33_race is the auxiliary free-running pass that run.py builds with
// `go test -race`: a reduced oracle A (every ordered selection of 2 transactions
// of the full alphabet, each block executed `reps` times by the parallel
// processor under GOMAXPROCS 4 and 16 and compared with the sequential result).
// Besides the result comparison done here, any report of the Go race detector in
// the log of this step is turned into a violation by run.py: state shared between
// the processor's worker goroutines without synchronisation is found even when the
// interleaving that corrupts the result does not happen in this run.
func TestVerif_C33_race(t *testing.T) {
	mc.Run(t, "C33", func(r *mc.R) {
		defer runtime.GOMAXPROCS(runtime.GOMAXPROCS(0))
		w := c33NewWorld()
		pool := &c33Pool{w: w}
		defer pool.close()
		// The ancestors are valid (empty) Amsterdam blocks produced by the sequential chain
		// maker; importing them runs the access-list-driven processor: a rejection is a
		// violation of the property itself.
		if err := mc.Safely(func() error { pool.put(pool.get()); return nil }); err != nil {
			desc := map[string]any{"phase": "ancestors"}
			r.Eval(1)
			r.Violation(c33JSON(desc), "the chain of empty ancestor blocks built by sequential execution is rejected by block import: "+err.Error(), desc)
			return
		}

		// Repetitions per block and GOMAXPROCS value. The race detector only reports accesses that really
		// were unordered in the run (the processor's atomic work cursor orders a worker that starts late
		// after the work of the others), so overlap has to happen: blocks whose transactions all call the
		// same account (densest sharing) are repeated repsDense times, the others reps times.
		reps := mc.Pick(r, 1, 20)
		repsDense := mc.Pick(r, 10, 40)
		procs := []int{4, 16}
		r.Rule("every ordered selection of 2 transactions of the full alphabet (incl. the BLOCKHASH units of three senders) and every ordered selection of 3 transactions calling one and the same account, on top of 7 empty ancestors; each block executed reps times (blocks whose transactions all call the same account: repsDense times) by the access-list-driven processor per GOMAXPROCS value, " +
			"result digest (gas, state root, receipt root, requests hash, rebuilt access list) compared with sequential execution, ValidateState must accept; the step runs under the Go race detector")
		r.Bound("alphabet", w.raceAlphabet)
		r.Bound("repetitions_per_gomaxprocs", reps)
		r.Bound("repetitions_per_gomaxprocs_same_target_blocks", repsDense)
		r.Bound("gomaxprocs", procs)
		r.Assume("free-running goroutines: the race detector observes the synchronisation actually performed, it does not enumerate schedules")

		var all []int
		for i := range w.txs[:w.raceAlphabet] {
			all = append(all, i)
		}
		sels := c33Selections(all, 2)
		// plus every ordered selection of 3 transactions that all call the same account (three workers)
		for _, sel := range c33Selections(all, 3) {
			if w.txs[sel[0]].to == w.txs[sel[1]].to && w.txs[sel[1]].to == w.txs[sel[2]].to {
				sels = append(sels, sel)
			}
		}
		if r.Replaying() {
			var d struct {
				Txs []string `json:"txs"`
			}
			_ = json.Unmarshal(r.ReplayDescriptor(), &d)
			var keep [][]int
			for _, sel := range sels {
				same := len(d.Txs) == len(sel)
				for i := 0; same && i < len(sel); i++ {
					same = w.txs[sel[i]].name == d.Txs[i]
				}
				if same {
					keep = append(keep, sel)
				}
			}
			sels = keep
		}
		type item struct {
			b      *c33Block
			digest string
		}
		runtime.GOMAXPROCS(16)
		items := make([]*item, len(sels))
		r.Parallel(len(sels), func(i int) {
			if !w.feasible(sels[i]) {
				r.Outcome("infeasible-selection")
				return
			}
			c := pool.get()
			defer pool.put(c)
			err := mc.Safely(func() error {
				b, err := w.build(c, sels[i])
				if err != nil {
					return err
				}
				// the block header is the sequential execution's result (see build)
				h := b.block.Header()
				items[i] = &item{b, fmt.Sprintf("gas=%d root=%x receipts=%x requests=%x bal=%x", h.GasUsed, h.Root, h.ReceiptHash, *h.RequestsHash, *h.BlockAccessListHash)}
				return nil
			})
			if err != nil {
				var names []string
				for _, x := range sels[i] {
					names = append(names, w.txs[x].name)
				}
				r.Violation("race-build:"+fmt.Sprint(names), err.Error(), map[string]any{"phase": "race-build", "txs": names})
			}
		})
		var live []*item
		for _, it := range items {
			if it != nil {
				live = append(live, it)
			}
		}
		r.Bound("blocks", len(live))
		// Order of execution only (the space is unchanged): blocks whose two transactions call the
		// same account first, then same sender, then the rest, so that a run cut short by its budget
		// has covered the blocks with the densest sharing.
		rank := func(it *item) int {
			a, b := w.txs[it.b.sel[0]], w.txs[it.b.sel[1]]
			switch {
			case len(it.b.sel) == 3: // same account by construction
				return 0
			case a.to == b.to:
				return 0
			case a.sender == b.sender:
				return 1
			}
			return 2
		}
		sort.SliceStable(live, func(i, j int) bool { return rank(live[i]) < rank(live[j]) })
		for _, g := range procs {
			if r.Expired() {
				return
			}
			runtime.GOMAXPROCS(g)
			var (
				next atomic.Int64
				runs atomic.Int64
				wg   sync.WaitGroup
			)
			for wk := 0; wk < 16; wk++ {
				wg.Add(1)
				go func() {
					defer wg.Done()
					c := pool.get()
					defer pool.put(c)
					for {
						i := int(next.Add(1) - 1)
						if i >= len(live) || r.Expired() {
							return
						}
						it := live[i]
						desc := map[string]any{"phase": "race", "gomaxprocs": g, "txs": it.b.names}
						n := reps
						if rank(it) == 0 {
							n = repsDense
							if len(it.b.sel) == 3 {
								n = (repsDense*2 + 4) / 5 // same-account triples: 40% of the dense repetitions
							}
						}
						r.Case(desc, func() error {
							for rep := 0; rep < n; rep++ {
								var got string
								var valErr error
								procErr := c.parallelDo(it.b.block, func(statedb *state.StateDB, res *ProcessResult) {
									valErr = c.bc.validator.ValidateState(it.b.block, statedb, res, false)
									got = c33Digest(res, statedb.IntermediateRoot(c.rules(it.b.block)))
								})
								runs.Add(1)
								switch {
								case procErr != nil:
									return fmt.Errorf("repetition %d: parallel execution failed on a block sequential execution accepts: %v", rep, procErr)
								case got != it.digest:
									return fmt.Errorf("repetition %d: parallel != sequential:\n  sequential %s\n  parallel   %s", rep, it.digest, got)
								case valErr != nil:
									return fmt.Errorf("repetition %d: ValidateState rejects the true block after parallel execution: %v", rep, valErr)
								}
							}
							return nil
						})
						r.DistinctHash(mc.Hash64(fmt.Sprint(g) + string(it.b.balEnc)))
						if i%97 == 0 {
							r.Sample(desc)
						}
					}
				}()
			}
			wg.Wait()
			r.OutcomeN(fmt.Sprintf("race-pass:parallel-executions:gomaxprocs=%d", g), runs.Load())
		}
	})
}

func c33JSON(v any) string {
	b, _ := json.Marshal(v)
	return string(b)
}
