//go:build verif

package core

import (
	"crypto/ecdsa"
	"encoding/json"
	"fmt"
	"math/big"
	"sort"
	"testing"

	"github.com/ethereum/go-ethereum/common"
	"github.com/ethereum/go-ethereum/consensus"
	"github.com/ethereum/go-ethereum/consensus/beacon"
	"github.com/ethereum/go-ethereum/consensus/ethash"
	"github.com/ethereum/go-ethereum/core/rawdb"
	"github.com/ethereum/go-ethereum/core/types"
	"github.com/ethereum/go-ethereum/core/vm"
	"github.com/ethereum/go-ethereum/crypto"
	"github.com/ethereum/go-ethereum/ethdb"
	"github.com/ethereum/go-ethereum/internal/verif/mc"
	"github.com/ethereum/go-ethereum/params"
	"github.com/ethereum/go-ethereum/rlp"
	"github.com/ethereum/go-ethereum/trie"
	"github.com/ethereum/go-ethereum/triedb"
	"github.com/holiman/uint256"
)

// ---------------------------------------------------------------------------
// world

var (
	c32Key1, _ = crypto.HexToECDSA("b71c71a67e1177ad4e901695e1b4b9ee17ae16c6668d313eac2f96dbcda3f291")
	c32Key2, _ = crypto.HexToECDSA("8a1f9a8f95be41cd7ccb6168179afb4504aefe388d1e14474d32c45c72ce7b7a")
	c32S       = crypto.PubkeyToAddress(c32Key1.PublicKey) // sender of the program transaction
	c32S2      = crypto.PubkeyToAddress(c32Key2.PublicKey) // sender of the second (plain) transaction

	c32B  = common.HexToAddress("0xb000000000000000000000000000000000000b01") // runs the program
	c32E  = common.HexToAddress("0xe000000000000000000000000000000000000e02") // existing EOA
	c32F  = common.HexToAddress("0xf000000000000000000000000000000000000f03") // absent account
	c32F2 = common.HexToAddress("0xf200000000000000000000000000000000000f04") // absent beneficiary
	c32Rv = common.HexToAddress("0xc000000000000000000000000000000000000c05") // callee: REVERT
	c32Og = common.HexToAddress("0xc100000000000000000000000000000000000c06") // callee: SSTORE (runs out of its 100 gas)
	c32D1 = common.HexToAddress("0xd100000000000000000000000000000000000d07") // callee: SELFDESTRUCT(self)
	c32D2 = common.HexToAddress("0xd200000000000000000000000000000000000d08") // callee: SELFDESTRUCT(E)
	c32D3 = common.HexToAddress("0xd300000000000000000000000000000000000d09") // callee: SELFDESTRUCT(F2)
	c32CB = common.HexToAddress("0xcb00000000000000000000000000000000000c0a") // fee recipient
	c32P4 = common.BytesToAddress([]byte{4})                                  // identity precompile
	c32W  = common.HexToAddress("0xaa00000000000000000000000000000000000a0b") // absent withdrawal recipient
	c32U1 = common.HexToAddress("0xab00000000000000000000000000000000000a0c") // never funded uncle miner
	c32U2 = common.HexToAddress("0xac00000000000000000000000000000000000a0d") // never funded uncle miner
)

type c32Fork struct {
	name                                string
	cfg                                 *params.ChainConfig
	pow                                 bool  // proof-of-work: block / uncle / nephew rewards
	reward                              int64 // static block reward in ether (Frontier 5, Byzantium 3, Constantinople+ 2)
	london                              bool  // base fee exists and is burned
	status                              bool  // receipts carry a status (Byzantium+)
	programs                            bool  // the unit programs are meaningful (EIP-150 gas forwarding, REVERT, DELEGATECALL exist)
	shanghai, cancun, prague, amsterdam bool
	blobFraction                        int64
}

func c32U64(v uint64) *uint64 { return &v }

func c32Forks() []c32Fork {
	mk := func(name string, level int) c32Fork {
		cfg := *params.MergedTestChainConfig
		cfg.ShanghaiTime, cfg.CancunTime, cfg.PragueTime, cfg.OsakaTime, cfg.AmsterdamTime = nil, nil, nil, nil, nil
		cfg.BPO1Time, cfg.BPO2Time, cfg.BPO3Time, cfg.BPO4Time, cfg.BPO5Time = nil, nil, nil, nil, nil
		f := c32Fork{name: name, cfg: &cfg, blobFraction: 3338477, london: true, status: true, programs: true}
		if level >= 1 {
			cfg.ShanghaiTime, f.shanghai = c32U64(0), true
		}
		if level >= 2 {
			cfg.CancunTime, f.cancun = c32U64(0), true
		}
		if level >= 3 {
			cfg.PragueTime, f.prague, f.blobFraction = c32U64(0), true, 5007716
		}
		if level >= 4 {
			cfg.OsakaTime = c32U64(0)
		}
		if level >= 5 {
			cfg.AmsterdamTime, f.amsterdam = c32U64(0), true
		}
		return f
	}
	// proof-of-work rule sets: AllEthashProtocolChanges (everything up to London at block 0, never merged)
	// with the later forks switched off again
	powCfg := func(level int) *params.ChainConfig {
		cfg := *params.AllEthashProtocolChanges
		if level < 4 { // before London
			cfg.LondonBlock, cfg.ArrowGlacierBlock, cfg.GrayGlacierBlock = nil, nil, nil
		}
		if level < 3 { // before Constantinople..Berlin
			cfg.ConstantinopleBlock, cfg.PetersburgBlock, cfg.IstanbulBlock, cfg.MuirGlacierBlock, cfg.BerlinBlock = nil, nil, nil, nil, nil
		}
		if level < 2 { // Frontier
			cfg.HomesteadBlock, cfg.EIP150Block, cfg.EIP155Block, cfg.EIP158Block, cfg.ByzantiumBlock = nil, nil, nil, nil, nil
		}
		return &cfg
	}
	return []c32Fork{
		{name: "london-pow", cfg: powCfg(4), pow: true, reward: 2, london: true, status: true, programs: true},
		mk("paris", 0), mk("shanghai", 1), mk("cancun", 2), mk("prague", 3), mk("osaka", 4), mk("amsterdam", 5),
		// only used for the uncle / reward chains
		{name: "frontier-pow", cfg: powCfg(1), pow: true, reward: 5},
		{name: "byzantium-pow", cfg: powCfg(2), pow: true, reward: 3, status: true, programs: true},
		{name: "berlin-pow", cfg: powCfg(3), pow: true, reward: 2, status: true, programs: true},
	}
}

// ---------------------------------------------------------------------------
// tiny assembler

type c32Asm struct{ b []byte }

func (a *c32Asm) op(ops ...vm.OpCode) *c32Asm {
	for _, o := range ops {
		a.b = append(a.b, byte(o))
	}
	return a
}

func (a *c32Asm) pushBytes(p []byte) *c32Asm {
	for len(p) > 1 && p[0] == 0 {
		p = p[1:]
	}
	a.b = append(a.b, byte(vm.PUSH1)+byte(len(p)-1))
	a.b = append(a.b, p...)
	return a
}

func (a *c32Asm) push(v uint64) *c32Asm {
	return a.pushBytes(new(big.Int).SetUint64(v).FillBytes(make([]byte, 8)))
}

func (a *c32Asm) pushAddr(x common.Address) *c32Asm {
	a.b = append(a.b, byte(vm.PUSH20))
	a.b = append(a.b, x.Bytes()...)
	return a
}

const c32AllGas = 0xffffffffff

// call emits CALL(gas, to, value, 0,0,0,0) and drops the result.
func (a *c32Asm) call(gas uint64, to common.Address, value *big.Int) *c32Asm {
	a.push(0).push(0).push(0).push(0)
	a.pushBytes(value.FillBytes(make([]byte, 32)))
	a.pushAddr(to).push(gas)
	return a.op(vm.CALL, vm.POP)
}

// create emits CREATE(endowment, init code) and drops the result (init code of at most 32 bytes).
func (a *c32Asm) create(endowment uint64, init []byte) *c32Asm {
	a.pushBytes(append([]byte{}, init...)).push(0).op(vm.MSTORE)
	a.push(uint64(len(init))).push(uint64(32 - len(init))).push(endowment)
	return a.op(vm.CREATE, vm.POP)
}

var (
	c32InitOK        = (&c32Asm{}).push(0).push(0).op(vm.RETURN).b
	c32InitRevert    = (&c32Asm{}).push(0).push(0).op(vm.REVERT).b
	c32InitDestrSelf = (&c32Asm{}).op(vm.ADDRESS, vm.SELFDESTRUCT).b
	c32InitDestrE    = (&c32Asm{}).pushAddr(c32E).op(vm.SELFDESTRUCT).b
)

// ---------------------------------------------------------------------------
// reference model of ether movements (balances only; which inner operations succeed is known by
// construction of the units, gas used is taken from the receipt)

type c32Model struct {
	f          c32Fork
	bal        map[common.Address]*big.Int
	nonce      map[common.Address]uint64
	created    map[common.Address]bool // created in the current transaction
	destructed map[common.Address]bool // scheduled for deletion at the end of the current transaction
}

func (m *c32Model) get(a common.Address) *big.Int {
	if b, ok := m.bal[a]; ok {
		return b
	}
	b := new(big.Int)
	m.bal[a] = b
	return b
}

func (m *c32Model) add(a common.Address, v *big.Int) { m.get(a).Add(m.get(a), v) }

func (m *c32Model) transfer(from, to common.Address, v *big.Int) bool {
	if m.get(from).Cmp(v) < 0 {
		return false
	}
	m.get(from).Sub(m.get(from), v)
	m.add(to, v)
	return true
}

func (m *c32Model) copy() *c32Model {
	c := &c32Model{f: m.f, bal: map[common.Address]*big.Int{}, nonce: map[common.Address]uint64{}, created: map[common.Address]bool{}, destructed: map[common.Address]bool{}}
	for k, v := range m.bal {
		c.bal[k] = new(big.Int).Set(v)
	}
	for k, v := range m.nonce {
		c.nonce[k] = v
	}
	for k, v := range m.created {
		c.created[k] = v
	}
	for k, v := range m.destructed {
		c.destructed[k] = v
	}
	return c
}

// selfdestruct: Frontier rule (the balance goes to the beneficiary, is destroyed when the beneficiary is the
// account itself, the account is deleted at the end of the transaction); EIP-6780 (Cancun): deletion and burn only
// for accounts created in the same transaction, otherwise only the transfer; EIP-8246 as implemented by this
// tree's Amsterdam rules: self-destruction to self no longer burns.
func (m *c32Model) selfdestruct(this, beneficiary common.Address) {
	if !m.f.cancun {
		if this != beneficiary {
			m.transfer(this, beneficiary, new(big.Int).Set(m.get(this)))
		} else {
			m.get(this).SetInt64(0)
		}
		m.destructed[this] = true
		return
	}
	if this != beneficiary {
		m.transfer(this, beneficiary, new(big.Int).Set(m.get(this)))
	} else if m.created[this] && !m.f.amsterdam {
		m.get(this).SetInt64(0)
	}
	if m.created[this] {
		m.destructed[this] = true
	}
}

// endTx: accounts scheduled for deletion disappear together with anything they received after
// self-destructing (Amsterdam keeps such an account as a balance-only account).
func (m *c32Model) endTx() {
	for a := range m.destructed {
		if !m.f.amsterdam {
			m.get(a).SetInt64(0)
		}
	}
	m.created = map[common.Address]bool{}
	m.destructed = map[common.Address]bool{}
}

func (m *c32Model) createFrom(creator common.Address, endowment *big.Int, init string) {
	if m.get(creator).Cmp(endowment) < 0 {
		return // fails before the nonce is bumped
	}
	addr := crypto.CreateAddress(creator, m.nonce[creator])
	m.nonce[creator]++
	switch init {
	case "ok":
		m.transfer(creator, addr, endowment)
		m.created[addr] = true
	case "revert":
	case "destruct_self":
		m.transfer(creator, addr, endowment)
		m.created[addr] = true
		m.selfdestruct(addr, addr)
	case "destruct_e":
		m.transfer(creator, addr, endowment)
		m.created[addr] = true
		m.selfdestruct(addr, c32E)
	}
}

const (
	c32Continue = iota
	c32Stop     // execution of B ends successfully (SELFDESTRUCT)
	c32Fail     // the top-level frame fails: everything but the fee is rolled back
)

type c32Unit struct {
	name  string
	emit  func(a *c32Asm)
	model func(m *c32Model) int
}

var (
	c32Three = big.NewInt(3)
	c32Five  = big.NewInt(5)
	c32Huge  = new(big.Int).Exp(big.NewInt(10), big.NewInt(24), nil)
)

func c32Units() []c32Unit {
	xfer := func(name string, to common.Address) c32Unit {
		return c32Unit{name, func(a *c32Asm) { a.call(c32AllGas, to, c32Three) }, func(m *c32Model) int { m.transfer(c32B, to, c32Three); return c32Continue }}
	}
	noop := func(name string, emit func(a *c32Asm)) c32Unit {
		return c32Unit{name, emit, func(m *c32Model) int { return c32Continue }}
	}
	callDestr := func(name string, d, beneficiary common.Address) c32Unit {
		return c32Unit{name, func(a *c32Asm) { a.call(c32AllGas, d, c32Three) }, func(m *c32Model) int {
			if m.transfer(c32B, d, c32Three) {
				m.selfdestruct(d, beneficiary)
			}
			return c32Continue
		}}
	}
	create := func(name string, init []byte, kind string) c32Unit {
		return c32Unit{name, func(a *c32Asm) { a.create(5, init) }, func(m *c32Model) int { m.createFrom(c32B, c32Five, kind); return c32Continue }}
	}
	return []c32Unit{
		xfer("call_eoa", c32E),
		xfer("call_absent", c32F),
		noop("call_self", func(a *c32Asm) { a.call(c32AllGas, c32B, c32Three) }), // B -> B: re-enters B's code with empty calldata... see c32Program: guarded
		xfer("call_precompile", c32P4),
		noop("call_reverting", func(a *c32Asm) { a.call(c32AllGas, c32Rv, c32Three) }),
		noop("call_callee_oog", func(a *c32Asm) { a.call(100, c32Og, c32Three) }),
		noop("call_value_exceeds_balance", func(a *c32Asm) { a.call(c32AllGas, c32E, c32Huge) }),
		xfer("call_coinbase", c32CB),
		xfer("call_sender", c32S),
		create("create_ok", c32InitOK, "ok"),
		create("create_revert", c32InitRevert, "revert"),
		create("create_destruct_self", c32InitDestrSelf, "destruct_self"),
		create("create_destruct_to_eoa", c32InitDestrE, "destruct_e"),
		callDestr("call_destruct_self", c32D1, c32D1),
		callDestr("call_destruct_to_eoa", c32D2, c32E),
		callDestr("call_destruct_to_absent", c32D3, c32F2),
		{"delegatecall_destruct_to_eoa", func(a *c32Asm) {
			a.push(0).push(0).push(0).push(0).pushAddr(c32D2).push(c32AllGas).op(vm.DELEGATECALL, vm.POP)
		}, func(m *c32Model) int { m.selfdestruct(c32B, c32E); return c32Continue }},
		{"selfdestruct_to_eoa", func(a *c32Asm) { a.pushAddr(c32E).op(vm.SELFDESTRUCT) }, func(m *c32Model) int { m.selfdestruct(c32B, c32E); return c32Stop }},
		{"selfdestruct_to_self", func(a *c32Asm) { a.op(vm.ADDRESS, vm.SELFDESTRUCT) }, func(m *c32Model) int { m.selfdestruct(c32B, c32B); return c32Stop }},
		// no ether moves, but the cleared slot produces a gas refund (the sender must be credited once)
		noop("sstore_clear_refund", func(a *c32Asm) { a.push(0).push(1).op(vm.SSTORE) }),
		{"revert", func(a *c32Asm) { a.push(0).push(0).op(vm.REVERT) }, func(m *c32Model) int { return c32Fail }},
		{"invalid", func(a *c32Asm) { a.op(vm.INVALID) }, func(m *c32Model) int { return c32Fail }},
		{"out_of_gas", func(a *c32Asm) { a.push(1).push(0x3fffffff).op(vm.MSTORE) }, func(m *c32Model) int { return c32Fail }},
		// ---- gas-settlement units (not part of the sequence alphabet, used by the [settlement] part): no ether moves
		noop("sstore_set", func(a *c32Asm) { a.push(1).push(0).op(vm.SSTORE) }),
		noop("sstore_clear_4_more", func(a *c32Asm) { // slots 2..5 hold 1: four more refunds
			for slot := uint64(2); slot <= 5; slot++ {
				a.push(0).push(slot).op(vm.SSTORE)
			}
		}),
		noop("work_1", func(a *c32Asm) { a.push(1).push(0x21).op(vm.SSTORE) }), // one fresh storage slot worth of gas each
		noop("work_2", func(a *c32Asm) { a.push(1).push(0x22).op(vm.SSTORE) }),
		noop("work_3", func(a *c32Asm) { a.push(1).push(0x23).op(vm.SSTORE) }),
		noop("work_small", func(a *c32Asm) { a.push(0x31).op(vm.SLOAD, vm.POP).push(64).push(0).op(vm.KECCAK256, vm.POP) }),
	}
}

// c32Alphabet: number of leading units of c32Units that form the sequence alphabet.
const c32Alphabet = 23

// c32Program: B's code. A call that carries any calldata returns immediately, so that the B -> B value call of
// unit call_self (which passes no calldata either) would recurse: to keep the model trivial the guard is on
// CALLER instead: when B is called by itself it stops at once.
func c32Program(units []c32Unit, seq []int) []byte {
	a := &c32Asm{}
	// if CALLER == ADDRESS: STOP
	a.op(vm.CALLER, vm.ADDRESS, vm.EQ, vm.ISZERO)
	a.b = append(a.b, byte(vm.PUSH2), 0, 0) // patched: jump target
	patch := len(a.b) - 2
	a.op(vm.JUMPI, vm.STOP)
	dest := len(a.b)
	a.op(vm.JUMPDEST)
	a.b[patch], a.b[patch+1] = byte(dest>>8), byte(dest)
	for _, u := range seq {
		units[u].emit(a)
	}
	a.op(vm.STOP)
	return a.b
}

// ---------------------------------------------------------------------------
// one block = one case

type c32TxSpec struct {
	Kind       string `json:"kind"` // legacy | dynamic | blob | create
	Value      uint64 `json:"value"`
	Tip        uint64 `json:"tip,omitempty"`
	FeeCap     uint64 `json:"fee_cap,omitempty"` // gas price for legacy
	BlobCapAdd uint64 `json:"blob_cap_above_fee,omitempty"`
	Init       string `json:"init,omitempty"`      // create: ok | revert | destruct_self | destruct_e
	BigValue   string `json:"big_value,omitempty"` // decimal; overrides Value (amounts around 2^64 / 2^128 wei)
	DataNZ     int    `json:"calldata_nonzero_bytes,omitempty"`
	DataZ      int    `json:"calldata_zero_bytes,omitempty"`
}

type c32PowSpec struct {
	Uncles       string   `json:"uncles"`          // none | b3d1 | b4d2 | b4d2d1 | b3d1d1 (block number, depths)
	Coinbases    []string `json:"uncle_coinbases"` // never_funded | never_funded2 | funded_eoa | block_coinbase | tx_sender
	Price        uint64   `json:"gas_price"`
	ProgramBlock bool     `json:"program_in_block_2,omitempty"`
}

type c32Case struct {
	Fork        string        `json:"fork"`
	Program     []string      `json:"program"`
	GenesisFee  uint64        `json:"genesis_base_fee"`
	Tx          c32TxSpec     `json:"tx"`
	SecondTx    bool          `json:"second_tx,omitempty"`
	Withdrawals []uint64      `json:"withdrawals_gwei,omitempty"` // alternating recipients E, W
	Insert      bool          `json:"insert_into_blockchain,omitempty"`
	ExactSender bool          `json:"sender_balance_exactly_max_cost,omitempty"`
	Pow         *c32PowSpec   `json:"pow_chain,omitempty"`
	Cross       *c32CrossSpec `json:"cross_transaction,omitempty"`
}

// c32Val: the wei value of a transaction spec.
func c32Val(spec c32TxSpec) *big.Int {
	if spec.BigValue != "" {
		v, ok := new(big.Int).SetString(spec.BigValue, 10)
		if !ok {
			panic("bad big value " + spec.BigValue)
		}
		return v
	}
	return new(big.Int).SetUint64(spec.Value)
}

func c32BigPow10(n int64) *big.Int { return new(big.Int).Exp(big.NewInt(10), big.NewInt(n), nil) }

// c32FakeExp: EIP-4844 fake_exponential.
func c32FakeExp(factor, numerator, denominator *big.Int) *big.Int {
	i := big.NewInt(1)
	output := new(big.Int)
	accum := new(big.Int).Mul(factor, denominator)
	for accum.Sign() > 0 {
		output.Add(output, accum)
		accum.Mul(accum, numerator)
		accum.Quo(accum, new(big.Int).Mul(denominator, i))
		i.Add(i, big.NewInt(1))
	}
	return output.Quo(output, denominator)
}

// c32TrieBalances reads every account of the state trie at root straight from the trie database.
func c32TrieBalances(db ethdb.Database, root common.Hash) (map[common.Hash]*big.Int, *big.Int, error) {
	bal, total, _, err := c32TrieAccounts(db, root)
	return bal, total, err
}

// c32TrieAccounts additionally returns the decoded accounts (nonce, code hash).
func c32TrieAccounts(db ethdb.Database, root common.Hash) (map[common.Hash]*big.Int, *big.Int, map[common.Hash]types.StateAccount, error) {
	tdb := triedb.NewDatabase(db, triedb.HashDefaults)
	defer tdb.Close()
	tr, err := trie.New(trie.StateTrieID(root), tdb)
	if err != nil {
		return nil, nil, nil, err
	}
	nit, err := tr.NodeIterator(nil)
	if err != nil {
		return nil, nil, nil, err
	}
	out := map[common.Hash]*big.Int{}
	accs := map[common.Hash]types.StateAccount{}
	total := new(big.Int)
	it := trie.NewIterator(nit)
	for it.Next() {
		var acc types.StateAccount
		if err := rlp.DecodeBytes(it.Value, &acc); err != nil {
			return nil, nil, nil, err
		}
		b := acc.Balance.ToBig()
		out[common.BytesToHash(it.Key)] = b
		accs[common.BytesToHash(it.Key)] = acc
		total.Add(total, b)
	}
	if it.Err != nil {
		return nil, nil, nil, it.Err
	}
	return out, total, accs, nil
}

type c32TxPlan struct {
	spec    c32TxSpec
	from    common.Address
	key     *ecdsa.PrivateKey
	program bool // runs B's program (or the creation); otherwise a plain transfer to E
	// custom transactions (cross-transaction part): explicit destination (nil = creation), calldata and model
	custom bool
	to     *common.Address
	data   []byte
	model  func(m *c32Model, senderNonce uint64) int
}

// c32CrossSpec: a contract created by the first transaction is acted upon by a later transaction.
type c32CrossSpec struct {
	Creator   string `json:"creator"` // tx | create | create2
	CtorStore bool   `json:"constructor_writes_storage"`
	Endowment uint64 `json:"endowment"`
	Runtime   string `json:"runtime"`            // destruct_self | destruct_other | plain
	Action    string `json:"second_transaction"` // call | call_then_fund | fund
	Where     string `json:"where"`              // same_block | next_block
}

// c32Expect: what must be true of the created contract once the acting transaction has run.
type c32Expect struct {
	addr      common.Address
	fromBlock int // index of the block holding the acting transaction
	alive     bool
	codeHash  common.Hash
}

var c32H = common.HexToAddress("0xa400000000000000000000000000000000000a0e") // helper: calls the created contract twice

// c32CrossRuntime: with calldata the contract just accepts the value; without it performs its action.
func c32CrossRuntime(kind string) []byte {
	a := &c32Asm{}
	a.op(vm.CALLDATASIZE)
	a.b = append(a.b, byte(vm.PUSH1), 0)
	patch := len(a.b) - 1
	a.op(vm.JUMPI)
	switch kind {
	case "destruct_self":
		a.op(vm.ADDRESS, vm.SELFDESTRUCT)
	case "destruct_other":
		a.pushAddr(c32E).op(vm.SELFDESTRUCT)
	default:
		a.op(vm.STOP)
	}
	a.b[patch] = byte(len(a.b))
	a.op(vm.JUMPDEST, vm.STOP)
	return a.b
}

// c32CrossInit: constructor (optionally one SSTORE) that deploys runtime.
func c32CrossInit(store bool, runtime []byte) []byte {
	a := &c32Asm{}
	if store {
		a.push(1).push(0).op(vm.SSTORE)
	}
	a.push(uint64(len(runtime)))
	a.b = append(a.b, byte(vm.PUSH1), 0)
	patch := len(a.b) - 1
	a.push(0).op(vm.CODECOPY)
	a.push(uint64(len(runtime))).push(0).op(vm.RETURN)
	a.b[patch] = byte(len(a.b))
	return append(a.b, runtime...)
}

// c32CrossFactory: code for B that creates the contract with CREATE / CREATE2 (salt 0x5a).
func c32CrossFactory(create2 bool, endowment uint64, init []byte) []byte {
	a := &c32Asm{}
	a.push(uint64(len(init)))
	a.b = append(a.b, byte(vm.PUSH2), 0, 0)
	patch := len(a.b) - 2
	a.push(0).op(vm.CODECOPY)
	if create2 {
		a.push(0x5a)
	}
	a.push(uint64(len(init))).push(0).push(endowment)
	if create2 {
		a.op(vm.CREATE2)
	} else {
		a.op(vm.CREATE)
	}
	a.op(vm.POP, vm.STOP)
	a.b[patch], a.b[patch+1] = byte(len(a.b)>>8), byte(len(a.b))
	return append(a.b, init...)
}

// c32CrossPlan builds the chain for a cross-transaction case.
func c32CrossPlan(f c32Fork, c c32Case) (plans []c32BlockPlan, bCode []byte, extra types.GenesisAlloc, exp *c32Expect) {
	x := c.Cross
	runtime := c32CrossRuntime(x.Runtime)
	init := c32CrossInit(x.CtorStore, runtime)
	endow := new(big.Int).SetUint64(x.Endowment)
	fee := c32TxSpec{Kind: "dynamic", Tip: 1, FeeCap: 1_000_000_000}
	var addr common.Address
	var txA c32TxPlan
	switch x.Creator {
	case "tx":
		addr = crypto.CreateAddress(c32S, 0)
		spec := fee
		spec.Value = x.Endowment
		txA = c32TxPlan{spec: spec, from: c32S, key: c32Key1, custom: true, to: nil, data: init, model: func(m *c32Model, nonce uint64) int {
			a := crypto.CreateAddress(c32S, nonce)
			m.transfer(c32S, a, endow)
			m.created[a] = true
			return c32Continue
		}}
	default:
		create2 := x.Creator == "create2"
		bCode = c32CrossFactory(create2, x.Endowment, init)
		if create2 {
			addr = crypto.CreateAddress2(c32B, common.Hash{31: 0x5a}, crypto.Keccak256(init))
		} else {
			addr = crypto.CreateAddress(c32B, 0)
		}
		created := addr
		txA = c32TxPlan{spec: fee, from: c32S, key: c32Key1, custom: true, to: &c32B, model: func(m *c32Model, _ uint64) int {
			m.nonce[c32B]++
			m.transfer(c32B, created, endow)
			m.created[created] = true
			return c32Continue
		}}
	}
	act := func(m *c32Model) {
		switch x.Runtime {
		case "destruct_self":
			m.selfdestruct(addr, addr)
		case "destruct_other":
			m.selfdestruct(addr, c32E)
		}
	}
	target := addr
	var txB c32TxPlan
	switch x.Action {
	case "call": // value call without calldata: the contract performs its action
		spec := fee
		spec.Value = 5
		txB = c32TxPlan{spec: spec, from: c32S2, key: c32Key2, custom: true, to: &target, model: func(m *c32Model, _ uint64) int {
			m.transfer(c32S2, addr, big.NewInt(5))
			act(m)
			return c32Continue
		}}
	case "fund": // value call with calldata: plain credit
		spec := fee
		spec.Value = 5
		txB = c32TxPlan{spec: spec, from: c32S2, key: c32Key2, custom: true, to: &target, data: []byte{1}, model: func(m *c32Model, _ uint64) int {
			m.transfer(c32S2, addr, big.NewInt(5))
			return c32Continue
		}}
	default: // helper: action first, then ether is sent back to the contract in the same transaction
		h := &c32Asm{}
		h.call(c32AllGas, addr, big.NewInt(3))
		h.push(0).push(0).push(1).push(0).push(4).pushAddr(addr).push(c32AllGas).op(vm.CALL, vm.POP, vm.STOP)
		extra = types.GenesisAlloc{c32H: {Balance: big.NewInt(100), Code: h.b}}
		txB = c32TxPlan{spec: fee, from: c32S2, key: c32Key2, custom: true, to: &c32H, model: func(m *c32Model, _ uint64) int {
			if m.transfer(c32H, addr, big.NewInt(3)) {
				act(m)
			}
			m.transfer(c32H, addr, big.NewInt(4))
			return c32Continue
		}}
	}
	exp = &c32Expect{addr: addr, codeHash: crypto.Keccak256Hash(runtime)}
	// before Cancun a self-destructed account is deleted at the end of the transaction; from Cancun on (EIP-6780, also under
	// Amsterdam) a contract created in an EARLIER transaction survives with code, nonce and balance
	exp.alive = f.cancun || x.Runtime == "plain" || x.Action == "fund"
	if x.Where == "same_block" {
		plans = []c32BlockPlan{{txs: []c32TxPlan{txA, txB}}, {}}
		exp.fromBlock = 0
	} else {
		plans = []c32BlockPlan{{txs: []c32TxPlan{txA}}, {txs: []c32TxPlan{txB}}, {}}
		exp.fromBlock = 1
	}
	return plans, bCode, extra, exp
}

type c32UnclePlan struct {
	parent   int // index of the uncle's parent in the generated chain (uncle number = parent + 2)
	coinbase common.Address
	extra    byte
}

type c32BlockPlan struct {
	txs         []c32TxPlan
	withdrawals []uint64
	uncles      []c32UnclePlan
}

const c32TxGas = 5_000_000

// c32Plan turns a case into the list of blocks to build. Every chain ends with an empty block so that
// values shared between the state and a caller's scratch variable would show up one block later.
func c32Plan(c c32Case) []c32BlockPlan {
	if c.Pow == nil {
		first := c32BlockPlan{txs: []c32TxPlan{{spec: c.Tx, from: c32S, key: c32Key1, program: true}}, withdrawals: c.Withdrawals}
		if c.SecondTx {
			first.txs = append(first.txs, c32TxPlan{spec: c32TxSpec{Kind: "dynamic", Value: 9, Tip: 3, FeeCap: 2_000_000_000}, from: c32S2, key: c32Key2})
		}
		return []c32BlockPlan{first, {}}
	}
	cb := func(i int) common.Address {
		switch c.Pow.Coinbases[i] {
		case "never_funded":
			return c32U1
		case "never_funded2":
			return c32U2
		case "funded_eoa":
			return c32E
		case "block_coinbase":
			return c32CB
		default:
			return c32S
		}
	}
	plans := make([]c32BlockPlan, 5)
	for i := 0; i < 4; i++ {
		tx := c32TxPlan{spec: c32TxSpec{Kind: "legacy", Value: 9, FeeCap: c.Pow.Price}, from: c32S, key: c32Key1}
		if c.Pow.ProgramBlock && i == 1 {
			tx.program, tx.spec.Value = true, 7
		}
		plans[i].txs = []c32TxPlan{tx}
	}
	switch c.Pow.Uncles {
	case "b3d1":
		plans[2].uncles = []c32UnclePlan{{0, cb(0), 1}}
	case "b4d2":
		plans[3].uncles = []c32UnclePlan{{0, cb(0), 1}}
	case "b4d2d1":
		plans[3].uncles = []c32UnclePlan{{0, cb(0), 1}, {1, cb(1), 2}}
	case "b3d1d1":
		plans[2].uncles = []c32UnclePlan{{0, cb(0), 1}, {0, cb(1), 2}}
	}
	return plans
}

func c32Run(f c32Fork, units []c32Unit, seq []int, c c32Case) (outcome string, err error) {
	plans := c32Plan(c)
	var (
		crossCode  []byte
		crossAlloc types.GenesisAlloc
		expect     *c32Expect
	)
	if c.Cross != nil {
		plans, crossCode, crossAlloc, expect = c32CrossPlan(f, c)
	}
	// ---- genesis
	ample := c32BigPow10(45) // > 2^128 wei, far below 2^256
	alloc := types.GenesisAlloc{
		c32S:  {Balance: ample},
		c32S2: {Balance: ample},
		c32B:  {Balance: big.NewInt(1000), Code: c32Program(units, seq), Storage: map[common.Hash]common.Hash{{31: 1}: {31: 1}, {31: 2}: {31: 1}, {31: 3}: {31: 1}, {31: 4}: {31: 1}, {31: 5}: {31: 1}}},
		c32E:  {Balance: big.NewInt(1)},
		c32Rv: {Balance: new(big.Int), Code: (&c32Asm{}).push(0).push(0).op(vm.REVERT).b},
		c32Og: {Balance: new(big.Int), Code: (&c32Asm{}).push(1).push(0).op(vm.SSTORE, vm.STOP).b},
		c32D1: {Balance: big.NewInt(7), Code: (&c32Asm{}).op(vm.ADDRESS, vm.SELFDESTRUCT).b},
		c32D2: {Balance: big.NewInt(7), Code: (&c32Asm{}).pushAddr(c32E).op(vm.SELFDESTRUCT).b},
		c32D3: {Balance: big.NewInt(7), Code: (&c32Asm{}).pushAddr(c32F2).op(vm.SELFDESTRUCT).b},
	}
	if crossCode != nil {
		acc := alloc[c32B]
		acc.Code = crossCode
		alloc[c32B] = acc
	}
	for a, acc := range crossAlloc {
		alloc[a] = acc
	}
	if c.ExactSender {
		// the sender owns exactly gas limit x gas price + value: its balance is zero while the transaction runs and
		// every later credit (refund of unused gas, ether sent back by the program) lands on a zero balance
		exact := new(big.Int).Mul(big.NewInt(c32TxGas), new(big.Int).SetUint64(c.Tx.FeeCap))
		exact.Add(exact, c32Val(c.Tx))
		alloc[c32S] = types.Account{Balance: exact}
	}
	m := &c32Model{f: f, bal: map[common.Address]*big.Int{}, nonce: map[common.Address]uint64{}, created: map[common.Address]bool{}, destructed: map[common.Address]bool{}}
	for a, acc := range alloc {
		m.bal[a] = new(big.Int).Set(acc.Balance)
	}
	preTotal := new(big.Int)
	for _, b := range m.bal {
		preTotal.Add(preTotal, b)
	}
	if f.prague {
		alloc = withSystemContracts(alloc) // zero balances
	}
	gspec := &Genesis{Config: f.cfg, GasLimit: 30_000_000, Alloc: alloc}
	if f.london {
		gspec.BaseFee = new(big.Int).SetUint64(c.GenesisFee)
	}
	if f.cancun {
		// parent excess chosen so that the block's blob base fee is well above 1
		gspec.ExcessBlobGas = c32U64(uint64(3*f.blobFraction) + 20*131072)
		gspec.BlobGasUsed = c32U64(0)
	}
	var engine consensus.Engine = beacon.New(ethash.NewFaker())
	if f.pow {
		engine = ethash.NewFaker()
	}
	signer := types.LatestSigner(f.cfg)
	chainID := f.cfg.ChainID

	var (
		genErr      error
		baseFee     = new(big.Int)
		blobFee     = new(big.Int)
		delta       = new(big.Int) // expected change of the total supply apart from destroyed ether
		firstStatus = uint64(1)
		firstGas    uint64
		snaps       []*c32Model // model after each block
		deltas      []*big.Int
	)
	mkTx := func(tp c32TxPlan, nonce uint64) *types.Transaction {
		spec := tp.spec
		to := &c32E
		if tp.program {
			to = &c32B
		}
		var data []byte
		if tp.custom {
			to, data = tp.to, tp.data
		}
		if spec.DataNZ+spec.DataZ > 0 {
			data = make([]byte, spec.DataNZ+spec.DataZ)
			for i := 0; i < spec.DataNZ; i++ {
				data[i] = byte(1 + i%255)
			}
		}
		if spec.Kind == "create" {
			switch spec.Init {
			case "ok":
				data = c32InitOK
			case "revert":
				data = c32InitRevert
			case "destruct_self":
				data = c32InitDestrSelf
			default:
				data = c32InitDestrE
			}
			to = nil
		}
		switch spec.Kind {
		case "legacy":
			return types.MustSignNewTx(tp.key, signer, &types.LegacyTx{Nonce: nonce, To: to, Gas: c32TxGas, GasPrice: new(big.Int).SetUint64(spec.FeeCap), Value: c32Val(spec), Data: data})
		case "blob":
			bcap := new(big.Int).Add(blobFee, new(big.Int).SetUint64(spec.BlobCapAdd))
			return types.MustSignNewTx(tp.key, signer, &types.BlobTx{ChainID: uint256.MustFromBig(chainID), Nonce: nonce, To: *to, Gas: c32TxGas,
				GasTipCap: uint256.NewInt(spec.Tip), GasFeeCap: uint256.NewInt(spec.FeeCap), Value: uint256.MustFromBig(c32Val(spec)),
				BlobFeeCap: uint256.MustFromBig(bcap), BlobHashes: []common.Hash{{0: 0x01, 31: 0x42}}})
		default:
			return types.MustSignNewTx(tp.key, signer, &types.DynamicFeeTx{ChainID: chainID, Nonce: nonce, To: to, Gas: c32TxGas,
				GasTipCap: new(big.Int).SetUint64(spec.Tip), GasFeeCap: new(big.Int).SetUint64(spec.FeeCap), Value: c32Val(spec), Data: data})
		}
	}
	// effective gas price (EIP-1559): base fee + min(tip cap, fee cap - base fee); legacy: the gas price.
	effPrice := func(spec c32TxSpec) *big.Int {
		if spec.Kind == "legacy" {
			return new(big.Int).SetUint64(spec.FeeCap)
		}
		tip := new(big.Int).Sub(new(big.Int).SetUint64(spec.FeeCap), baseFee)
		if t := new(big.Int).SetUint64(spec.Tip); t.Cmp(tip) < 0 {
			tip = t
		}
		return tip.Add(tip, baseFee)
	}
	// applies the model of one transaction given the gas the receipt reports; returns the expected status
	applyModel := func(tr c32TxPlan, used uint64) uint64 {
		price := effPrice(tr.spec)
		g := new(big.Int).SetUint64(used)
		m.get(tr.from).Sub(m.get(tr.from), new(big.Int).Mul(g, price))
		m.add(c32CB, new(big.Int).Mul(g, new(big.Int).Sub(price, baseFee)))
		delta.Sub(delta, new(big.Int).Mul(g, baseFee)) // burned
		if tr.spec.Kind == "blob" {
			fee := new(big.Int).Mul(big.NewInt(131072), blobFee)
			m.get(tr.from).Sub(m.get(tr.from), fee)
			delta.Sub(delta, fee) // burned
		}
		value := c32Val(tr.spec)
		status := uint64(1)
		if tr.custom {
			nonce := m.nonce[tr.from]
			m.nonce[tr.from]++
			snap := m.copy()
			if tr.model(m, nonce) == c32Fail {
				*m = *snap
				status = 0
			}
			m.endTx()
			return status
		}
		if tr.spec.Kind == "create" {
			// the sender's nonce is consumed, then the creation runs as a frame of its own (a reverting
			// init code leaves the endowment with the sender)
			m.createFrom(tr.from, value, tr.spec.Init)
			if tr.spec.Init == "revert" {
				status = 0
			}
			m.endTx()
			return status
		}
		m.nonce[tr.from]++
		snap := m.copy()
		to := c32E
		if tr.program {
			to = c32B
		}
		m.transfer(tr.from, to, value)
		if tr.program {
		loop:
			for _, u := range seq {
				switch units[u].model(m) {
				case c32Stop:
					break loop
				case c32Fail:
					*m = *snap
					status = 0
					break loop
				}
			}
		}
		m.endTx()
		return status
	}
	check := func(b *BlockGen, what string, addrs ...common.Address) error {
		for _, a := range addrs {
			if got, want := b.GetBalance(a).ToBig(), m.get(a); got.Cmp(want) != 0 {
				return fmt.Errorf("%s: balance of %s is %s, model %s (difference %s)", what, c32Name(a), got, want, new(big.Int).Sub(got, want))
			}
		}
		return nil
	}
	ether := c32BigPow10(18)
	db, blocks, _ := GenerateChainWithGenesis(gspec, engine, len(plans), func(i int, b *BlockGen) {
		plan := plans[i]
		b.SetCoinbase(c32CB)
		if f.london {
			baseFee = b.BaseFee()
		}
		if f.cancun {
			blobFee = c32FakeExp(big.NewInt(1), new(big.Int).SetUint64(*b.header.ExcessBlobGas), big.NewInt(f.blobFraction))
		}
		for ti, tr := range plan.txs {
			nonce := m.nonce[tr.from]
			if tr.spec.Kind == "create" {
				// createFrom consumes the nonce itself
			}
			b.AddTx(mkTx(tr, nonce))
			rc := b.receipts[len(b.receipts)-1]
			want := applyModel(tr, rc.GasUsed)
			if i == 0 && ti == 0 {
				firstStatus = want
				firstGas = rc.GasUsed
			}
			if genErr == nil && f.status && rc.Status != want {
				genErr = fmt.Errorf("block %d tx %d: receipt status %d, expected by construction %d", i+1, ti, rc.Status, want)
			}
			// each sender pays exactly gas fee + value + blob fee; the fee recipient receives gasUsed x tip (+ what the program sent it)
			if genErr == nil {
				genErr = check(b, fmt.Sprintf("block %d after tx %d", i+1, ti), tr.from, c32CB)
			}
		}
		// consensus rewards (yellow paper 11.3): R to the beneficiary plus R/32 per ommer; (8 + U_n - B_n) R / 8 to each ommer's beneficiary
		if f.pow {
			R := new(big.Int).Mul(big.NewInt(f.reward), ether)
			num := int64(i + 1)
			for _, u := range plan.uncles {
				unum := int64(u.parent + 2)
				b.AddUncle(&types.Header{ParentHash: b.PrevBlock(u.parent).Hash(), Number: big.NewInt(unum), Coinbase: u.coinbase, Extra: []byte{u.extra}})
				ur := new(big.Int).Mul(big.NewInt(8+unum-num), R)
				ur.Quo(ur, big.NewInt(8))
				m.add(u.coinbase, ur)
				delta.Add(delta, ur)
				nephew := new(big.Int).Quo(R, big.NewInt(32))
				m.add(c32CB, nephew)
				delta.Add(delta, nephew)
			}
			m.add(c32CB, R)
			delta.Add(delta, R)
		}
		for wi, gwei := range plan.withdrawals {
			to := c32E
			if wi%2 == 1 {
				to = c32W
			}
			b.AddWithdrawal(&types.Withdrawal{Validator: uint64(wi), Address: to, Amount: gwei})
			w := new(big.Int).Mul(new(big.Int).SetUint64(gwei), big.NewInt(1_000_000_000))
			m.add(to, w)
			delta.Add(delta, w)
		}
		snaps = append(snaps, m.copy())
		deltas = append(deltas, new(big.Int).Set(delta))
	})
	if genErr != nil {
		return "", genErr
	}
	// ---- totals and every account from the state tries (before = genesis state, after = state of each block)
	parent := rawdb.ReadHeader(db, blocks[0].ParentHash(), 0)
	if parent == nil {
		return "", fmt.Errorf("harness: genesis header not found")
	}
	_, preTrie, err := c32TrieBalances(db, parent.Root)
	if err != nil {
		return "", fmt.Errorf("harness: pre-state: %v", err)
	}
	if preTrie.Cmp(preTotal) != 0 {
		return "", fmt.Errorf("harness: genesis state holds %s wei, alloc %s", preTrie, preTotal)
	}
	destroyed := new(big.Int)
	for bi, block := range blocks {
		mb := snaps[bi]
		post, postTrie, accs, err := c32TrieAccounts(db, block.Root())
		if err != nil {
			return "", fmt.Errorf("harness: state of block %d: %v", bi+1, err)
		}
		if expect != nil {
			acc, ok := accs[crypto.Keccak256Hash(expect.addr.Bytes())]
			alive := expect.alive || bi < expect.fromBlock
			switch {
			case alive && !ok:
				return "", fmt.Errorf("contract %s created by an earlier transaction is gone after block %d (model balance %s)", expect.addr.Hex(), bi+1, mb.get(expect.addr))
			case alive && (acc.Nonce != 1 || common.BytesToHash(acc.CodeHash) != expect.codeHash):
				return "", fmt.Errorf("contract %s after block %d has nonce %d code hash %x, expected nonce 1 code hash %x", expect.addr.Hex(), bi+1, acc.Nonce, acc.CodeHash, expect.codeHash)
			case !alive && ok:
				return "", fmt.Errorf("contract %s self-destructed before Cancun still exists after block %d", expect.addr.Hex(), bi+1)
			}
		}
		// conservation: after - before == withdrawals + rewards - baseFee*gasUsed - blobFee*blobGas - destroyed
		modelTotal := new(big.Int)
		for _, b := range mb.bal {
			modelTotal.Add(modelTotal, b)
		}
		// destroyed = what the model says self-destruction burned
		destroyed = new(big.Int).Sub(new(big.Int).Add(preTotal, deltas[bi]), modelTotal)
		if destroyed.Sign() < 0 {
			return "", fmt.Errorf("harness: model created ether (%s)", destroyed)
		}
		want := new(big.Int).Sub(new(big.Int).Add(preTotal, deltas[bi]), destroyed)
		if postTrie.Cmp(want) != 0 {
			return "", fmt.Errorf("total ether after block %d is %s, expected %s = genesis %s %+d (withdrawals, block/uncle/nephew rewards, burned fees) - destroyed %s; difference %s",
				bi+1, postTrie, want, preTotal, deltas[bi], destroyed, new(big.Int).Sub(postTrie, want))
		}
		// every account of the model
		addrs := make([]common.Address, 0, len(mb.bal))
		for a := range mb.bal {
			addrs = append(addrs, a)
		}
		sort.Slice(addrs, func(i, j int) bool { return addrs[i].Cmp(addrs[j]) < 0 })
		for _, a := range addrs {
			got := post[crypto.Keccak256Hash(a.Bytes())]
			if got == nil {
				got = new(big.Int)
			}
			if got.Cmp(mb.bal[a]) != 0 {
				return "", fmt.Errorf("balance of %s after block %d is %s, model %s (difference %s)", c32Name(a), bi+1, got, mb.bal[a], new(big.Int).Sub(got, mb.bal[a]))
			}
		}
	}
	if c.Insert {
		chain, err := NewBlockChain(rawdb.NewMemoryDatabase(), gspec, engine, nil)
		if err != nil {
			return "", fmt.Errorf("harness: NewBlockChain: %v", err)
		}
		n, ierr := chain.InsertChain(blocks)
		bals := map[common.Address]*big.Int{}
		if ierr == nil {
			if st, e := chain.State(); e == nil {
				for _, a := range []common.Address{c32S, c32CB, c32E, c32U1, c32U2} {
					bals[a] = st.GetBalance(a).ToBig()
				}
			}
		}
		chain.Stop()
		if ierr != nil {
			return "", fmt.Errorf("block %d produced by GenerateChain is rejected by BlockChain.InsertChain (state processor path): %v", n+1, ierr)
		}
		for _, a := range []common.Address{c32S, c32CB, c32E, c32U1, c32U2} {
			if bals[a] == nil || bals[a].Cmp(m.get(a)) != 0 {
				return "", fmt.Errorf("balance of %s after InsertChain %v, model %s", c32Name(a), bals[a], m.get(a))
			}
		}
	}
	if c.Pow != nil {
		return "pow_uncles_" + c.Pow.Uncles, nil
	}
	if c.Cross != nil {
		o := "cross_" + c.Cross.Where + "_survives"
		if !expect.alive {
			o = "cross_" + c.Cross.Where + "_deleted"
		}
		if destroyed.Sign() > 0 {
			o += "_ether_destroyed"
		}
		return o, nil
	}
	st := "ok"
	if firstStatus == 0 {
		st = "failed"
	}
	// EIP-7623 (Prague..Osaka): was the gas used lifted to the calldata floor 21000 + 10*(zeros + 4*nonzeros)?
	if f.prague && !f.amsterdam && c.Tx.Kind != "create" && c.Tx.DataNZ+c.Tx.DataZ > 0 {
		if firstGas == uint64(21000+10*(c.Tx.DataZ+4*c.Tx.DataNZ)) {
			st += "_calldata_floor_binding"
		} else {
			st += "_above_calldata_floor"
		}
	}
	if destroyed.Sign() > 0 {
		return "tx_" + st + "_ether_destroyed", nil
	}
	return "tx_" + st + "_no_burn", nil
}

func c32Name(a common.Address) string {
	names := map[common.Address]string{c32S: "sender", c32S2: "sender2", c32B: "B", c32E: "E", c32F: "F(absent)", c32F2: "F2(absent)", c32Rv: "reverter",
		c32Og: "oog-callee", c32D1: "D1", c32D2: "D2", c32D3: "D3", c32CB: "coinbase", c32P4: "precompile4", c32W: "W(absent)", c32U1: "uncle-miner(never funded)", c32U2: "uncle-miner2(never funded)"}
	if n, ok := names[a]; ok {
		return n
	}
	return a.Hex()
}

func TestVerif_C32(t *testing.T) {
	mc.Run(t, "C32", func(r *mc.R) {
		units := c32Units()
		forks := c32Forks()
		maxLen := mc.Pick(r, 2, 3)
		var seqs [][]int
		var rec func(seq []int)
		rec = func(seq []int) {
			seqs = append(seqs, seq)
			if len(seq) < maxLen {
				for u := range units[:c32Alphabet] {
					rec(append(append([]int{}, seq...), u))
				}
			}
		}
		rec(nil)
		idx := map[string]int{}
		for i, u := range units {
			idx[u.name] = i
		}
		r.Rule("one chain per case through GenerateChain: the block under test followed by an empty block (and BlockChain.InsertChain for the single-unit programs, creations, uncle chains); [programs] every sequence of <=N units over a 23-unit alphabet of value-moving operations " +
			"(CALL with value to EOA / absent / self / precompile / reverting callee / callee that runs out of gas / with more value than the balance / coinbase / sender, CREATE with endowment whose init code returns / reverts / self-destructs to itself / to an EOA, " +
			"CALL to contracts self-destructing to themselves / an EOA / an absent account, DELEGATECALL into a self-destructing contract, SELFDESTRUCT to EOA / to self, an SSTORE that earns a refund, REVERT, INVALID, out of gas) x 7 rule sets (london proof-of-work with block reward, paris, shanghai, cancun, prague, osaka, amsterdam) x 2 fee settings; " +
			"[fees] 10 programs x rule sets x block base fee {0,1,7,875000000} x every valid (tip, fee cap) in {0,1,7,1e9}^2, legacy prices {base, base+1, 1e9}, blob transactions (Cancun+, blob base fee > 1) x value {0,7}; [create] creation transactions with 4 init codes; " +
			"[withdrawals] {1}, {1,3}, {0,2,5} gwei to an existing and an absent account (Shanghai+); [two] a second plain transfer from another sender in the same block; " +
			"[zero-credit] every <=1-unit program with a sender owning exactly gas limit x price + value (refund and program credits land on a zero balance), price == base fee (coinbase stays at zero) and above; " +
			"[amounts] withdrawals of {0, 1, 18446744073, 18446744074, 32e9, 2^40, 2^64-1} gwei singly and 3-7 per block (Shanghai+), transaction values and creation endowments of 2^64-1, 2^64, 2^64+1, 2^128-1, 2^128, 2^128+1 wei " +
			"through 7 programs (incl. self-destruction burning / forwarding the big balance) and 4 creation init codes; the model credits amount x 10^9 wei in big integers; " +
			"[cross-tx] first transaction creates a contract {creation transaction, factory CREATE, factory CREATE2} x constructor {without, with SSTORE} x endowment {0,500} x runtime {SELFDESTRUCT to self, to an EOA, plain}; " +
			"a later transaction of the same block (and, as control, of the next block) {calls it with value (it self-destructs), calls it and then sends ether back in the same transaction, plain value call} x 7 rule sets; additionally asserted: the contract survives with nonce 1, its code and the model balance from Cancun on, is deleted before Cancun; " +
			"[settlement] calldata {0, 4, 2000 zero, 1000, 1500+500 zero, 2000, 2500, 3000, 6000 non-zero bytes} (EIP-7623 floor 21000+10*tokens from not binding to binding) x execution {none, SSTORE set, SSTORE clear (refund), clear+set, clear+small work, " +
			"5 clears, 5 clears + 0..3 fresh-slot SSTOREs / small work (usage before and after the refund moved across the floor), clear + value call, 5 clears + REVERT} x 7 rule sets x {dynamic fee with value, legacy with a sender owning exactly the maximal cost}; " +
			"[rewards] proof-of-work chains of 5 blocks on 4 rule sets (frontier 5 ether, byzantium 3, berlin 2, london 2 with base fee) with uncles {none, one at depth 1 in block 3, one at depth 2 in block 4, two at depths 2+1 in block 4, two at depth 1 in block 3} x " +
			"uncle coinbases {never funded, funded EOA, the block's coinbase, the transaction sender} (6 pairs for two uncles, incl. the same never-funded miner twice) x 2 gas prices (0 leaves the coinbase unfunded until the reward), plus program transactions next to uncles; " +
			"rewards computed by the model from the yellow-paper formula R + R/32 per uncle, (8 + U - B) R / 8 per uncle miner; " +
			"oracle: reference model of balances (fork rules for self-destruction as booleans, gas used taken from the receipts) == every account balance read from the state trie after every block of the chain (incl. the trailing empty block), total ether equation, per-transaction sender and coinbase deltas, receipt status")
		r.Bound("units", c32Alphabet)
		r.Bound("max_units", maxLen)
		r.Bound("programs", len(seqs))
		r.Assume("gas used per transaction is an input (taken from the receipt); which inner calls fail is fixed by construction (explicit REVERT / INVALID / 100 gas for an SSTORE / value above the balance), every transaction has 5M gas")
		r.Assume("self-destruction rules of the model: before Cancun the balance sent to oneself is destroyed and the account (with later receipts) is deleted at the end of the transaction; EIP-6780 from Cancun; this tree's Amsterdam rule (EIP-8246) destroys nothing")
		type job struct {
			fi  int
			seq []int
			c   c32Case
		}
		var jobs []job
		names := func(seq []int) []string {
			out := []string{}
			for _, u := range seq {
				out = append(out, units[u].name)
			}
			return out
		}
		add := func(fi int, seq []int, c c32Case) {
			c.Fork, c.Program = forks[fi].name, names(seq)
			jobs = append(jobs, job{fi, seq, c})
		}
		dyn := func(value, tip, cap uint64) c32TxSpec {
			return c32TxSpec{Kind: "dynamic", Value: value, Tip: tip, FeeCap: cap}
		}
		gridSeqs := [][]int{{}, {idx["call_eoa"]}, {idx["call_coinbase"]}, {idx["call_sender"]}, {idx["create_destruct_self"]}, {idx["call_destruct_self"]},
			{idx["selfdestruct_to_self"]}, {idx["sstore_clear_refund"]}, {idx["revert"]}, {idx["out_of_gas"]}}
		for fi, f := range forks[:7] {
			for _, seq := range seqs {
				add(fi, seq, c32Case{GenesisFee: 8, Tx: dyn(7, 1, 1_000_000_000), Insert: len(seq) == 1})
				if len(seq) <= 1 || r.Thorough() {
					add(fi, seq, c32Case{GenesisFee: 1_000_000_000, Tx: c32TxSpec{Kind: "legacy", FeeCap: 1_000_000_000}})
				}
				if len(seq) == 1 {
					add(fi, seq, c32Case{GenesisFee: 8, Tx: dyn(0, 2, 9), SecondTx: true})
				}
			}
			for _, g := range []uint64{0, 1, 8, 1_000_000_000} {
				base := g - g/8
				for _, seq := range gridSeqs {
					for _, tip := range []uint64{0, 1, 7, 1_000_000_000} {
						for _, cap := range []uint64{0, 1, 7, 1_000_000_000} {
							if cap < tip || cap < base {
								continue
							}
							for _, v := range []uint64{0, 7} {
								add(fi, seq, c32Case{GenesisFee: g, Tx: dyn(v, tip, cap)})
							}
						}
					}
					for _, p := range []uint64{base, base + 1, 1_000_000_000} {
						if p >= base {
							add(fi, seq, c32Case{GenesisFee: g, Tx: c32TxSpec{Kind: "legacy", Value: 7, FeeCap: p}})
						}
					}
					if f.cancun {
						for _, extra := range []uint64{0, 5} {
							add(fi, seq, c32Case{GenesisFee: g, Tx: c32TxSpec{Kind: "blob", Value: 7, Tip: 1, FeeCap: max(base, 1) + 1, BlobCapAdd: extra}})
						}
					}
				}
			}
			for _, init := range []string{"ok", "revert", "destruct_self", "destruct_e"} {
				for _, v := range []uint64{0, 7} {
					add(fi, nil, c32Case{GenesisFee: 8, Tx: c32TxSpec{Kind: "create", Value: v, Tip: 1, FeeCap: 1_000_000_000, Init: init}, Insert: true})
				}
			}
			// credits to a zero balance: the sender owns exactly the maximal cost, so the gas refund (and ether the
			// program sends back) is credited while its balance is zero; price 7 == base fee also leaves the coinbase at zero
			for _, seq := range seqs {
				if len(seq) <= 1 {
					for _, p := range []uint64{7, 9} {
						add(fi, seq, c32Case{GenesisFee: 8, Tx: c32TxSpec{Kind: "legacy", Value: 7, FeeCap: p}, ExactSender: true, Insert: p == 9 && len(seq) == 0})
					}
				}
			}
			if f.shanghai {
				for _, w := range [][]uint64{{1}, {1, 3}, {0, 2, 5}} {
					for _, seq := range gridSeqs[:5] {
						add(fi, seq, c32Case{GenesisFee: 8, Tx: dyn(7, 1, 1_000_000_000), Withdrawals: w, Insert: len(seq) == 0})
					}
				}
			}
		}
		// boundary amounts: withdrawals around the uint64 wei limit (18446744073.709 gwei) up to 2^64-1 gwei, several per block;
		// transfer values and creation endowments around 2^64 and 2^128 wei
		wBound := []uint64{0, 1, 18446744073, 18446744074, 32_000_000_000, 1 << 40, ^uint64(0)}
		var wLists [][]uint64
		for _, w := range wBound {
			wLists = append(wLists, []uint64{w})
		}
		wLists = append(wLists, []uint64{0, 1, 18446744073, 18446744074}, []uint64{32_000_000_000, 1 << 40, ^uint64(0)}, wBound,
			[]uint64{^uint64(0), ^uint64(0), 18446744074, 18446744074})
		two := func(k uint, d int64) string {
			return new(big.Int).Add(new(big.Int).Lsh(big.NewInt(1), k), big.NewInt(d)).String()
		}
		bigVals := []string{two(64, -1), two(64, 0), two(64, 1), two(128, -1), two(128, 0), two(128, 1)}
		nBound := 0
		for fi, f := range forks[:7] {
			if f.shanghai {
				for _, w := range wLists {
					for _, seq := range [][]int{{}, {idx["call_eoa"]}, {idx["revert"]}} {
						add(fi, seq, c32Case{GenesisFee: 8, Tx: dyn(7, 1, 1_000_000_000), Withdrawals: w, Insert: len(seq) == 0})
						nBound++
					}
				}
			}
			for _, bv := range bigVals {
				for _, u := range []string{"", "call_sender", "call_eoa", "selfdestruct_to_self", "selfdestruct_to_eoa", "delegatecall_destruct_to_eoa", "revert"} {
					seq := []int{}
					if u != "" {
						seq = []int{idx[u]}
					}
					t := dyn(0, 1, 1_000_000_000)
					t.BigValue = bv
					add(fi, seq, c32Case{GenesisFee: 8, Tx: t, Insert: u == "selfdestruct_to_self"})
					nBound++
				}
				for _, init := range []string{"ok", "revert", "destruct_self", "destruct_e"} {
					add(fi, nil, c32Case{GenesisFee: 8, Tx: c32TxSpec{Kind: "create", BigValue: bv, Tip: 1, FeeCap: 1_000_000_000, Init: init}})
					nBound++
				}
			}
		}
		r.Bound("boundary_amount_chains", nBound)
		// cross-transaction leakage: a contract created by the first transaction is acted upon by a later one
		nCross := 0
		for fi := range forks[:7] {
			for _, creator := range []string{"tx", "create", "create2"} {
				for _, store := range []bool{false, true} {
					for _, endow := range []uint64{0, 500} {
						for _, rt := range []string{"destruct_self", "destruct_other", "plain"} {
							for _, action := range []string{"call", "call_then_fund", "fund"} {
								for _, where := range []string{"same_block", "next_block"} {
									if where == "next_block" && (store || endow == 0) {
										continue // control cases: one variant is enough
									}
									add(fi, nil, c32Case{GenesisFee: 8, Insert: creator == "tx" && where == "same_block" && !store && action == "call",
										Cross: &c32CrossSpec{Creator: creator, CtorStore: store, Endowment: endow, Runtime: rt, Action: action, Where: where}})
									nCross++
								}
							}
						}
					}
				}
			}
		}
		r.Bound("cross_transaction_chains", nCross)
		// gas settlement: calldata sizes around the EIP-7623 floor x executions with / without refunds and with work that moves
		// the usage before / after the refund across the floor
		settleExec := [][]string{{}, {"sstore_set"}, {"sstore_clear_refund"}, {"sstore_clear_refund", "sstore_set"}, {"sstore_clear_refund", "work_small"},
			{"sstore_clear_refund", "sstore_clear_4_more"}, {"sstore_clear_refund", "sstore_clear_4_more", "work_small"},
			{"sstore_clear_refund", "sstore_clear_4_more", "work_1"}, {"sstore_clear_refund", "sstore_clear_4_more", "work_1", "work_small"},
			{"sstore_clear_refund", "sstore_clear_4_more", "work_1", "work_2"}, {"sstore_clear_refund", "sstore_clear_4_more", "work_1", "work_2", "work_3"},
			{"sstore_clear_refund", "call_eoa"}, {"sstore_clear_refund", "sstore_clear_4_more", "revert"}}
		type dshape struct{ nz, z int }
		settleData := []dshape{{0, 0}, {4, 0}, {0, 2000}, {1000, 0}, {1500, 500}, {2000, 0}, {2500, 0}, {3000, 0}, {6000, 0}}
		nSettle := 0
		for fi := range forks[:7] {
			for _, ex := range settleExec {
				seq := []int{}
				for _, n := range ex {
					seq = append(seq, idx[n])
				}
				for _, d := range settleData {
					t1 := dyn(7, 1, 1_000_000_000)
					t1.DataNZ, t1.DataZ = d.nz, d.z
					add(fi, seq, c32Case{GenesisFee: 8, Tx: t1, Insert: d.nz == 2000 && len(ex) <= 1})
					t2 := c32TxSpec{Kind: "legacy", FeeCap: 9, DataNZ: d.nz, DataZ: d.z}
					add(fi, seq, c32Case{GenesisFee: 8, Tx: t2, ExactSender: true})
					nSettle += 2
				}
			}
		}
		r.Bound("settlement_chains", nSettle)
		// proof-of-work chains of 5 blocks with uncles (consensus rewards): block 3 / block 4 carry 0, 1 or 2 uncles at depth 1..2
		singles := [][]string{{"never_funded"}, {"funded_eoa"}, {"block_coinbase"}, {"tx_sender"}}
		pairs := [][]string{{"never_funded", "never_funded"}, {"never_funded", "never_funded2"}, {"never_funded", "funded_eoa"}, {"funded_eoa", "block_coinbase"},
			{"block_coinbase", "tx_sender"}, {"tx_sender", "never_funded"}}
		type pat struct {
			name string
			cbs  [][]string
		}
		pats := []pat{{"none", [][]string{nil}}, {"b3d1", singles}, {"b4d2", singles}, {"b4d2d1", pairs}, {"b3d1d1", pairs}}
		powForks := 0
		for fi, f := range forks {
			if !f.pow {
				continue
			}
			powForks++
			type fee struct{ g, p uint64 }
			fees := []fee{{0, 0}, {0, 3}}
			if f.london {
				fees = []fee{{0, 0}, {8, 9}}
			}
			for _, pt := range pats {
				for _, cbs := range pt.cbs {
					for _, fe := range fees {
						add(fi, nil, c32Case{GenesisFee: fe.g, Insert: true, Pow: &c32PowSpec{Uncles: pt.name, Coinbases: cbs, Price: fe.p}})
					}
				}
			}
			if f.programs {
				for _, u := range []string{"call_coinbase", "call_destruct_to_absent", "selfdestruct_to_self"} {
					add(fi, []int{idx[u]}, c32Case{GenesisFee: fees[1].g, Insert: true, Pow: &c32PowSpec{Uncles: "b3d1", Coinbases: singles[0], Price: fees[1].p, ProgramBlock: true}})
					add(fi, []int{idx[u]}, c32Case{GenesisFee: fees[1].g, Insert: true, Pow: &c32PowSpec{Uncles: "b4d2d1", Coinbases: pairs[2], Price: fees[1].p, ProgramBlock: true}})
				}
			}
		}
		r.Bound("pow_rule_sets", powForks)
		r.Bound("chains", len(jobs))
		r.Parallel(len(jobs), func(ji int) {
			jb := jobs[ji]
			oc := ""
			r.Case(jb.c, func() error {
				o, err := c32Run(forks[jb.fi], units, jb.seq, jb.c)
				oc = o
				return err
			})
			if oc != "" {
				r.Outcome(forks[jb.fi].name + "/" + oc)
			}
			kb, _ := json.Marshal(jb.c)
			r.DistinctHash(mc.Hash64(string(kb)))
			if ji%499 == 0 {
				r.Sample(jb.c)
			}
		})
	})
}
