//go:build verif

package bal

// C15, encoding part — every construction list that can be built by a bounded
// sequence of recording calls (AccountRead, StorageRead, StorageWrite,
// BalanceChange, NonceChange, CodeChange over 2 addresses, 5 slot keys of mixed byte width, 3 block
// access indices) and every Merge of two such lists is converted to its encoded
// form and compared with a reference set model; the encoded form must be strictly
// ordered and duplicate free, must pass Validate exactly when no index exceeds
// the transaction count, must survive an RLP round trip byte-identically with a
// stable hash, and every single structural edit of it must be rejected.

import (
	"bytes"
	"fmt"
	"math/big"
	"sort"
	"testing"

	"github.com/ethereum/go-ethereum/common"
	"github.com/ethereum/go-ethereum/crypto"
	"github.com/ethereum/go-ethereum/internal/verif/mc"
	"github.com/ethereum/go-ethereum/rlp"
	"github.com/holiman/uint256"
)

var (
	// deliberately not in ascending order of construction
	c15eAddrs = [2]common.Address{common.HexToAddress("0xbb00000000000000000000000000000000000001"), common.HexToAddress("0x0a00000000000000000000000000000000000002")}
	// slot keys of mixed byte width (as integers: 0x0100 > 0x30 > 0x02 although its leading byte is smaller, a
	// full-width key starting 0x1f, and 2^255), deliberately not in ascending order
	c15eSlots = [5]common.Hash{
		common.HexToHash("0x0100"),
		common.HexToHash("0x02"),
		common.HexToHash("0x1f00000000000000000000000000000000000000000000000000000000000001"),
		common.HexToHash("0x30"),
		common.HexToHash("0x8000000000000000000000000000000000000000000000000000000000000000"),
	}
	c15eIdx   = [3]uint32{2, 1, 4} // 4 is beyond the transaction count (2 transactions -> indices 0..3)
	c15eCodes = [2][]byte{{0x60, 0x00}, {}}
)

const (
	c15eTxCount  = 2
	c15eGasLimit = 30_000_000
)

type c15eOp struct {
	kind    int // 0 AccountRead 1 StorageRead 2 StorageWrite 3 BalanceChange 4 NonceChange 5 CodeChange
	a, s, i int
	v       uint64
}

func (o c15eOp) String() string {
	switch o.kind {
	case 0:
		return fmt.Sprintf("AccountRead(a%d)", o.a)
	case 1:
		return fmt.Sprintf("StorageRead(a%d,k%d)", o.a, o.s)
	case 2:
		return fmt.Sprintf("StorageWrite(%d,a%d,k%d,%d)", c15eIdx[o.i], o.a, o.s, o.v)
	case 3:
		return fmt.Sprintf("BalanceChange(%d,a%d,%d)", c15eIdx[o.i], o.a, o.v)
	case 4:
		return fmt.Sprintf("NonceChange(a%d,%d,%d)", o.a, c15eIdx[o.i], o.v)
	default:
		return fmt.Sprintf("CodeChange(a%d,%d,c%d)", o.a, c15eIdx[o.i], o.v)
	}
}

// reference model: plain sets / maps keyed by small integers
type c15eAcct struct {
	writes map[int]map[uint32]uint64
	reads  map[int]bool
	bal    map[uint32]uint64
	nonce  map[uint32]uint64
	code   map[uint32]int
}

type c15eModel map[int]*c15eAcct

func (m c15eModel) get(a int) *c15eAcct {
	if m[a] == nil {
		m[a] = &c15eAcct{writes: map[int]map[uint32]uint64{}, reads: map[int]bool{}, bal: map[uint32]uint64{}, nonce: map[uint32]uint64{}, code: map[uint32]int{}}
	}
	return m[a]
}

func (m c15eModel) apply(o c15eOp) {
	acc := m.get(o.a)
	idx := c15eIdx[o.i]
	switch o.kind {
	case 1:
		if acc.writes[o.s] == nil {
			acc.reads[o.s] = true
		}
	case 2:
		if acc.writes[o.s] == nil {
			acc.writes[o.s] = map[uint32]uint64{}
		}
		acc.writes[o.s][idx] = o.v
		delete(acc.reads, o.s)
	case 3:
		acc.bal[idx] = o.v
	case 4:
		acc.nonce[idx] = o.v
	case 5:
		acc.code[idx] = int(o.v)
	}
}

func (m c15eModel) merge(o c15eModel) {
	for a, oa := range o {
		acc := m.get(a)
		for s, w := range oa.writes {
			if acc.writes[s] == nil {
				acc.writes[s] = map[uint32]uint64{}
			}
			for k, v := range w {
				acc.writes[s][k] = v
			}
		}
		for s := range oa.reads {
			acc.reads[s] = true
		}
		for s := range acc.writes {
			delete(acc.reads, s)
		}
		for k, v := range oa.bal {
			acc.bal[k] = v
		}
		for k, v := range oa.nonce {
			acc.nonce[k] = v
		}
		for k, v := range oa.code {
			acc.code[k] = v
		}
	}
}

func (m c15eModel) maxIndex() uint32 {
	var mx uint32
	up := func(k uint32) {
		if k > mx {
			mx = k
		}
	}
	for _, acc := range m {
		for _, w := range acc.writes {
			for k := range w {
				up(k)
			}
		}
		for k := range acc.bal {
			up(k)
		}
		for k := range acc.nonce {
			up(k)
		}
		for k := range acc.code {
			up(k)
		}
	}
	return mx
}

func c15eApply(b *ConstructionBlockAccessList, o c15eOp) {
	addr, slot, idx := c15eAddrs[o.a], c15eSlots[o.s], c15eIdx[o.i]
	switch o.kind {
	case 0:
		b.AccountRead(addr)
	case 1:
		b.StorageRead(addr, slot)
	case 2:
		b.StorageWrite(idx, addr, slot, common.BigToHash(uint256.NewInt(o.v).ToBig()))
	case 3:
		b.BalanceChange(idx, addr, uint256.NewInt(o.v))
	case 4:
		b.NonceChange(addr, idx, o.v)
	case 5:
		b.CodeChange(addr, idx, c15eCodes[o.v])
	}
}

func c15eSortedKeys[V any](m map[uint32]V) []uint32 {
	out := make([]uint32, 0, len(m))
	for k := range m {
		out = append(out, k)
	}
	sort.Slice(out, func(i, j int) bool { return out[i] < out[j] })
	return out
}

// c15eExpect checks the encoded object field by field against the model.
func c15eExpect(enc *BlockAccessList, m c15eModel) error {
	// expected account order: ascending address bytes
	var order []int
	for a := range m {
		order = append(order, a)
	}
	sort.Slice(order, func(i, j int) bool { return bytes.Compare(c15eAddrs[order[i]][:], c15eAddrs[order[j]][:]) < 0 })
	if len(*enc) != len(order) {
		return fmt.Errorf("%d encoded accounts, expected %d", len(*enc), len(order))
	}
	for n, a := range order {
		e, acc := (*enc)[n], m[a]
		if e.Address != c15eAddrs[a] {
			return fmt.Errorf("account %d is %x, expected %x", n, e.Address, c15eAddrs[a])
		}
		var slots []int
		for s := range acc.writes {
			slots = append(slots, s)
		}
		sort.Slice(slots, func(i, j int) bool { return bytes.Compare(c15eSlots[slots[i]][:], c15eSlots[slots[j]][:]) < 0 })
		if len(e.StorageChanges) != len(slots) {
			return fmt.Errorf("%x: %d storage changes, expected %d", e.Address, len(e.StorageChanges), len(slots))
		}
		for k, s := range slots {
			sc := e.StorageChanges[k]
			if sc.Slot.Bytes32() != c15eSlots[s] {
				return fmt.Errorf("%x: storage change %d is slot %v, expected %x", e.Address, k, sc.Slot, c15eSlots[s])
			}
			idxs := c15eSortedKeys(acc.writes[s])
			if len(sc.SlotChanges) != len(idxs) {
				return fmt.Errorf("%x: slot %v has %d writes, expected %d", e.Address, sc.Slot, len(sc.SlotChanges), len(idxs))
			}
			for q, idx := range idxs {
				if sc.SlotChanges[q].BlockAccessIndex != idx || !sc.SlotChanges[q].PostValue.IsUint64() || sc.SlotChanges[q].PostValue.Uint64() != acc.writes[s][idx] {
					return fmt.Errorf("%x: slot %v write %d = {%d,%v}, expected {%d,%d}", e.Address, sc.Slot, q, sc.SlotChanges[q].BlockAccessIndex, sc.SlotChanges[q].PostValue, idx, acc.writes[s][idx])
				}
			}
		}
		var reads []int
		for s := range acc.reads {
			reads = append(reads, s)
		}
		sort.Slice(reads, func(i, j int) bool { return bytes.Compare(c15eSlots[reads[i]][:], c15eSlots[reads[j]][:]) < 0 })
		if len(e.StorageReads) != len(reads) {
			return fmt.Errorf("%x: %d storage reads, expected %d", e.Address, len(e.StorageReads), len(reads))
		}
		for k, s := range reads {
			if e.StorageReads[k].Bytes32() != c15eSlots[s] {
				return fmt.Errorf("%x: storage read %d is %v, expected %x", e.Address, k, e.StorageReads[k], c15eSlots[s])
			}
		}
		bi := c15eSortedKeys(acc.bal)
		if len(e.BalanceChanges) != len(bi) {
			return fmt.Errorf("%x: %d balance changes, expected %d", e.Address, len(e.BalanceChanges), len(bi))
		}
		for k, idx := range bi {
			if e.BalanceChanges[k].BlockAccessIndex != idx || e.BalanceChanges[k].PostBalance.Uint64() != acc.bal[idx] {
				return fmt.Errorf("%x: balance change %d = {%d,%v}, expected {%d,%d}", e.Address, k, e.BalanceChanges[k].BlockAccessIndex, e.BalanceChanges[k].PostBalance, idx, acc.bal[idx])
			}
		}
		ni := c15eSortedKeys(acc.nonce)
		if len(e.NonceChanges) != len(ni) {
			return fmt.Errorf("%x: %d nonce changes, expected %d", e.Address, len(e.NonceChanges), len(ni))
		}
		for k, idx := range ni {
			if e.NonceChanges[k].BlockAccessIndex != idx || e.NonceChanges[k].PostNonce != acc.nonce[idx] {
				return fmt.Errorf("%x: nonce change %d = {%d,%d}, expected {%d,%d}", e.Address, k, e.NonceChanges[k].BlockAccessIndex, e.NonceChanges[k].PostNonce, idx, acc.nonce[idx])
			}
		}
		ci := c15eSortedKeys(acc.code)
		if len(e.CodeChanges) != len(ci) {
			return fmt.Errorf("%x: %d code changes, expected %d", e.Address, len(e.CodeChanges), len(ci))
		}
		for k, idx := range ci {
			if e.CodeChanges[k].BlockAccessIndex != idx || !bytes.Equal(e.CodeChanges[k].NewCode, c15eCodes[acc.code[idx]]) {
				return fmt.Errorf("%x: code change %d = {%d,%x}, expected {%d,%x}", e.Address, k, e.CodeChanges[k].BlockAccessIndex, e.CodeChanges[k].NewCode, idx, c15eCodes[acc.code[idx]])
			}
		}
	}
	return nil
}

// c15eReferenceRLP encodes the model directly, in canonical order (addresses, slots and indices ascending as
// unsigned integers / byte strings), as nested RLP lists per EIP-7928:
// [address, [[slot, [[index, value]...]]...], [slot...], [[index, balance]...], [[index, nonce]...], [[index, code]...]].
func c15eReferenceRLP(m c15eModel) ([]byte, error) {
	big32 := func(h common.Hash) *big.Int { return new(big.Int).SetBytes(h[:]) }
	bySlot := func(keys []int) {
		sort.Slice(keys, func(i, j int) bool { return big32(c15eSlots[keys[i]]).Cmp(big32(c15eSlots[keys[j]])) < 0 })
	}
	var order []int
	for a := range m {
		order = append(order, a)
	}
	sort.Slice(order, func(i, j int) bool { return bytes.Compare(c15eAddrs[order[i]][:], c15eAddrs[order[j]][:]) < 0 })
	list := []interface{}{}
	for _, a := range order {
		acc := m[a]
		var ws, rs []int
		for k := range acc.writes {
			ws = append(ws, k)
		}
		for k := range acc.reads {
			rs = append(rs, k)
		}
		bySlot(ws)
		bySlot(rs)
		changes := []interface{}{}
		for _, k := range ws {
			writes := []interface{}{}
			for _, idx := range c15eSortedKeys(acc.writes[k]) {
				writes = append(writes, []interface{}{uint64(idx), new(big.Int).SetUint64(acc.writes[k][idx])})
			}
			changes = append(changes, []interface{}{big32(c15eSlots[k]), writes})
		}
		reads := []interface{}{}
		for _, k := range rs {
			reads = append(reads, big32(c15eSlots[k]))
		}
		bals, nonces, codes := []interface{}{}, []interface{}{}, []interface{}{}
		for _, idx := range c15eSortedKeys(acc.bal) {
			bals = append(bals, []interface{}{uint64(idx), new(big.Int).SetUint64(acc.bal[idx])})
		}
		for _, idx := range c15eSortedKeys(acc.nonce) {
			nonces = append(nonces, []interface{}{uint64(idx), acc.nonce[idx]})
		}
		for _, idx := range c15eSortedKeys(acc.code) {
			codes = append(codes, []interface{}{uint64(idx), c15eCodes[acc.code[idx]]})
		}
		list = append(list, []interface{}{c15eAddrs[a][:], changes, reads, bals, nonces, codes})
	}
	return rlp.EncodeToBytes(list)
}

// c15eStrictOrder is an ordering check of the encoded object that does not look at the model: addresses, write
// slots, read slots and all index lists strictly ascending (slots compared as 256-bit unsigned integers).
func c15eStrictOrder(enc *BlockAccessList) error {
	for i := range *enc {
		acc := &(*enc)[i]
		if i > 0 && bytes.Compare((*enc)[i-1].Address[:], acc.Address[:]) >= 0 {
			return fmt.Errorf("encoded accounts not strictly ascending at position %d", i)
		}
		for j := range acc.StorageChanges {
			if j > 0 && acc.StorageChanges[j-1].Slot.ToBig().Cmp(acc.StorageChanges[j].Slot.ToBig()) >= 0 {
				return fmt.Errorf("%x: write slots not strictly ascending: %v then %v", acc.Address, acc.StorageChanges[j-1].Slot, acc.StorageChanges[j].Slot)
			}
			w := acc.StorageChanges[j].SlotChanges
			for k := 1; k < len(w); k++ {
				if w[k-1].BlockAccessIndex >= w[k].BlockAccessIndex {
					return fmt.Errorf("%x: write indices of slot %v not strictly ascending", acc.Address, acc.StorageChanges[j].Slot)
				}
			}
		}
		for j := 1; j < len(acc.StorageReads); j++ {
			if acc.StorageReads[j-1].ToBig().Cmp(acc.StorageReads[j].ToBig()) >= 0 {
				return fmt.Errorf("%x: read slots not strictly ascending: %v then %v", acc.Address, acc.StorageReads[j-1], acc.StorageReads[j])
			}
		}
		for j := 1; j < len(acc.BalanceChanges); j++ {
			if acc.BalanceChanges[j-1].BlockAccessIndex >= acc.BalanceChanges[j].BlockAccessIndex {
				return fmt.Errorf("%x: balance change indices not strictly ascending", acc.Address)
			}
		}
		for j := 1; j < len(acc.NonceChanges); j++ {
			if acc.NonceChanges[j-1].BlockAccessIndex >= acc.NonceChanges[j].BlockAccessIndex {
				return fmt.Errorf("%x: nonce change indices not strictly ascending", acc.Address)
			}
		}
		for j := 1; j < len(acc.CodeChanges); j++ {
			if acc.CodeChanges[j-1].BlockAccessIndex >= acc.CodeChanges[j].BlockAccessIndex {
				return fmt.Errorf("%x: code change indices not strictly ascending", acc.Address)
			}
		}
	}
	return nil
}

// c15eEncoding checks Validate / RLP round trip / hash, and returns the number of single edits tried.
func c15eEncoding(b *ConstructionBlockAccessList, m c15eModel) (int, error) {
	enc := b.ToEncodingObj()
	if err := c15eStrictOrder(enc); err != nil {
		return 0, fmt.Errorf("%v\n%s", err, enc.PrettyPrint())
	}
	if err := c15eExpect(enc, m); err != nil {
		return 0, err
	}
	inRange := m.maxIndex() <= c15eTxCount+1
	verr := enc.Validate(c15eGasLimit, c15eTxCount)
	if inRange && verr != nil {
		return 0, fmt.Errorf("Validate rejects a well-formed list: %v\n%s", verr, enc.PrettyPrint())
	}
	if !inRange && verr == nil {
		return 0, fmt.Errorf("Validate accepts a list with index %d beyond %d transactions\n%s", m.maxIndex(), c15eTxCount, enc.PrettyPrint())
	}
	b1, err := rlp.EncodeToBytes(enc)
	if err != nil {
		return 0, fmt.Errorf("encode: %v", err)
	}
	ref, err := c15eReferenceRLP(m)
	if err != nil {
		return 0, fmt.Errorf("reference encoding: %v", err)
	}
	if !bytes.Equal(ref, b1) || enc.Hash() != crypto.Keccak256Hash(ref) {
		return 0, fmt.Errorf("encoding %x (hash %x) differs from the canonical reference encoding of the model %x (hash %x)", b1, enc.Hash(), ref, crypto.Keccak256Hash(ref))
	}
	var via bytes.Buffer
	if err := b.EncodeRLP(&via); err != nil || !bytes.Equal(via.Bytes(), b1) {
		return 0, fmt.Errorf("ConstructionBlockAccessList.EncodeRLP differs from the encoding object's (err %v)", err)
	}
	var dec BlockAccessList
	if err := rlp.DecodeBytes(b1, &dec); err != nil {
		return 0, fmt.Errorf("decode(encode(list)): %v", err)
	}
	if err := c15eExpect(&dec, m); err != nil && len(m) > 0 {
		return 0, fmt.Errorf("decoded list: %v", err)
	}
	b2, err := rlp.EncodeToBytes(&dec)
	if err != nil || !bytes.Equal(b1, b2) {
		return 0, fmt.Errorf("encode(decode(encode(list))) differs: %x vs %x (err %v)", b2, b1, err)
	}
	if (dec.Validate(c15eGasLimit, c15eTxCount) == nil) != (verr == nil) {
		return 0, fmt.Errorf("Validate verdict changes across an RLP round trip")
	}
	h := enc.Hash()
	if h != crypto.Keccak256Hash(b1) || h != dec.Hash() || h != enc.Copy().Hash() {
		return 0, fmt.Errorf("hash not stable: %x / keccak(encoding) %x / decoded %x", h, crypto.Keccak256Hash(b1), dec.Hash())
	}
	if !inRange {
		return 0, nil
	}
	return c15eSingleEdits(enc)
}

func c15eSingleEdits(enc *BlockAccessList) (int, error) {
	edits := 0
	rejected := func(what string, l *BlockAccessList) error {
		edits++
		b, err := rlp.EncodeToBytes(l)
		if err != nil {
			return nil
		}
		var dec BlockAccessList
		if err := rlp.DecodeBytes(b, &dec); err != nil {
			return nil
		}
		if err := dec.Validate(c15eGasLimit, c15eTxCount); err == nil {
			return fmt.Errorf("edited list (%s) passes Validate:\n%s", what, dec.PrettyPrint())
		}
		return nil
	}
	beyond := uint32(c15eTxCount + 2)
	for i := range *enc {
		if i+1 < len(*enc) {
			l := *enc.Copy()
			l[i], l[i+1] = l[i+1], l[i]
			if err := rejected("accounts swapped", &l); err != nil {
				return edits, err
			}
		}
		{
			l := *enc.Copy()
			l = append(l[:i+1], l[i:]...)
			l[i+1] = l[i].Copy()
			if err := rejected("account duplicated", &l); err != nil {
				return edits, err
			}
		}
		acc := (*enc)[i]
		for j := range acc.StorageChanges {
			if j+1 < len(acc.StorageChanges) {
				l := *enc.Copy()
				l[i].StorageChanges[j], l[i].StorageChanges[j+1] = l[i].StorageChanges[j+1], l[i].StorageChanges[j]
				if err := rejected("storage change slots swapped", &l); err != nil {
					return edits, err
				}
			}
			l := *enc.Copy()
			l[i].StorageChanges = append(l[i].StorageChanges[:j+1], l[i].StorageChanges[j:]...)
			if err := rejected("storage change slot duplicated", &l); err != nil {
				return edits, err
			}
			l = *enc.Copy()
			w := l[i].StorageChanges[j].SlotChanges
			l[i].StorageChanges[j].SlotChanges = append(w, w[len(w)-1])
			if err := rejected("slot write duplicated", &l); err != nil {
				return edits, err
			}
			l = *enc.Copy()
			l[i].StorageChanges[j].SlotChanges = nil
			if err := rejected("slot without writes", &l); err != nil {
				return edits, err
			}
			if len(acc.StorageChanges[j].SlotChanges) > 1 {
				l = *enc.Copy()
				w = l[i].StorageChanges[j].SlotChanges
				w[0], w[1] = w[1], w[0]
				if err := rejected("slot writes swapped", &l); err != nil {
					return edits, err
				}
			}
			l = *enc.Copy()
			w = l[i].StorageChanges[j].SlotChanges
			w[len(w)-1].BlockAccessIndex = beyond
			if err := rejected("slot write index beyond the transaction count", &l); err != nil {
				return edits, err
			}
			l = *enc.Copy()
			l[i].StorageReads = append(l[i].StorageReads, acc.StorageChanges[j].Slot.Clone())
			sort.Slice(l[i].StorageReads, func(a, b int) bool { return l[i].StorageReads[a].Cmp(l[i].StorageReads[b]) < 0 })
			if err := rejected("written slot also listed as read", &l); err != nil {
				return edits, err
			}
		}
		for j := range acc.StorageReads {
			if j+1 < len(acc.StorageReads) {
				l := *enc.Copy()
				l[i].StorageReads[j], l[i].StorageReads[j+1] = l[i].StorageReads[j+1], l[i].StorageReads[j]
				if err := rejected("storage reads swapped", &l); err != nil {
					return edits, err
				}
			}
			l := *enc.Copy()
			l[i].StorageReads = append(l[i].StorageReads[:j+1], l[i].StorageReads[j:]...)
			l[i].StorageReads[j+1] = l[i].StorageReads[j].Clone()
			if err := rejected("storage read duplicated", &l); err != nil {
				return edits, err
			}
		}
		if k := len(acc.BalanceChanges); k > 0 {
			l := *enc.Copy()
			l[i].BalanceChanges = append(l[i].BalanceChanges, l[i].BalanceChanges[k-1])
			if err := rejected("balance change duplicated", &l); err != nil {
				return edits, err
			}
			l = *enc.Copy()
			l[i].BalanceChanges[k-1].BlockAccessIndex = beyond
			if err := rejected("balance change index beyond the transaction count", &l); err != nil {
				return edits, err
			}
			if k > 1 {
				l = *enc.Copy()
				l[i].BalanceChanges[0], l[i].BalanceChanges[1] = l[i].BalanceChanges[1], l[i].BalanceChanges[0]
				if err := rejected("balance changes swapped", &l); err != nil {
					return edits, err
				}
			}
		}
		if k := len(acc.NonceChanges); k > 0 {
			l := *enc.Copy()
			l[i].NonceChanges = append(l[i].NonceChanges, l[i].NonceChanges[k-1])
			if err := rejected("nonce change duplicated", &l); err != nil {
				return edits, err
			}
			l = *enc.Copy()
			l[i].NonceChanges[k-1].BlockAccessIndex = beyond
			if err := rejected("nonce change index beyond the transaction count", &l); err != nil {
				return edits, err
			}
			if k > 1 {
				l = *enc.Copy()
				l[i].NonceChanges[0], l[i].NonceChanges[1] = l[i].NonceChanges[1], l[i].NonceChanges[0]
				if err := rejected("nonce changes swapped", &l); err != nil {
					return edits, err
				}
			}
		}
		if k := len(acc.CodeChanges); k > 0 {
			l := *enc.Copy()
			l[i].CodeChanges = append(l[i].CodeChanges, l[i].CodeChanges[k-1])
			if err := rejected("code change duplicated", &l); err != nil {
				return edits, err
			}
			l = *enc.Copy()
			l[i].CodeChanges[k-1].BlockAccessIndex = beyond
			if err := rejected("code change index beyond the transaction count", &l); err != nil {
				return edits, err
			}
			if k > 1 {
				l = *enc.Copy()
				l[i].CodeChanges[0], l[i].CodeChanges[1] = l[i].CodeChanges[1], l[i].CodeChanges[0]
				if err := rejected("code changes swapped", &l); err != nil {
					return edits, err
				}
			}
		}
	}
	return edits, nil
}

func c15eAlphabet() []c15eOp {
	var ops []c15eOp
	for a := 0; a < 2; a++ {
		ops = append(ops, c15eOp{kind: 0, a: a})
	}
	for s := range c15eSlots {
		ops = append(ops, c15eOp{kind: 1, a: 0, s: s})
		if s == 0 {
			for i := 0; i < 3; i++ {
				ops = append(ops, c15eOp{kind: 2, a: 0, s: s, i: i, v: uint64(5 + i)})
			}
		} else {
			ops = append(ops, c15eOp{kind: 2, a: 0, s: s, i: 1, v: uint64(5 + s)})
		}
	}
	ops = append(ops, c15eOp{kind: 1, a: 1, s: 2}, c15eOp{kind: 2, a: 1, s: 0, i: 1, v: 0})
	for i := 0; i < 3; i++ {
		ops = append(ops, c15eOp{kind: 3, a: 0, i: i, v: uint64(100 + i)})
	}
	ops = append(ops, c15eOp{kind: 3, a: 1, i: 0, v: 0})
	for i := 0; i < 2; i++ {
		ops = append(ops, c15eOp{kind: 4, a: 0, i: i, v: uint64(1 + i)}, c15eOp{kind: 5, a: 0, i: i, v: uint64(i)})
	}
	return ops
}

func TestVerif_C15_Encoding(t *testing.T) {
	mc.Run(t, "C15", func(r *mc.R) {
		ops := c15eAlphabet()
		seqLen := mc.Pick(r, 3, 4)
		mergeLen := mc.Pick(r, 2, 2)
		r.Rule(fmt.Sprintf("all sequences of <= %d recording calls over an alphabet of %d calls (2 addresses, 5 slot keys of mixed byte width used for reads and writes, block access indices {1,2,4} with 2 transactions) "+
			"build a construction list; all ordered pairs of lists built by <= %d calls (quick: one of the two by <= 1 call) are merged; each resulting list is one case; distinct = distinct encodings", seqLen, len(ops), mergeLen))
		r.Bound("alphabet", len(ops))
		r.Bound("max_calls", seqLen)
		r.Bound("max_calls_per_merge_operand", mergeLen)
		r.Assume("the encoding and its hash must equal an RLP encoding built directly from the model as nested lists in canonical order (slots ordered as 256-bit integers)")
		r.Assume("reference = set model of the recording calls (a written slot is never a read; later call wins per index); expected encoding = model sorted by address / slot / index")
		var edits, lists int64
		// enumerate sequences by index in base len(ops), sharded on the first call
		var seqs [][]int
		var gen func(prefix []int)
		gen = func(prefix []int) {
			seqs = append(seqs, append([]int{}, prefix...))
			if len(prefix) == seqLen {
				return
			}
			for o := range ops {
				gen(append(prefix, o))
			}
		}
		gen(nil)
		r.Bound("sequences", len(seqs))
		names := func(seq []int) []string {
			out := make([]string, len(seq))
			for i, o := range seq {
				out[i] = ops[o].String()
			}
			return out
		}
		build := func(seq []int) (*ConstructionBlockAccessList, c15eModel) {
			b, m := NewConstructionBlockAccessList(), c15eModel{}
			for _, o := range seq {
				c15eApply(b, ops[o])
				m.apply(ops[o])
			}
			return b, m
		}
		const chunk = 256
		nchunks := (len(seqs) + chunk - 1) / chunk
		var mu = make(chan struct{}, 1)
		mu <- struct{}{}
		r.Parallel(nchunks, func(ci int) {
			var le, ll int64
			for k := ci * chunk; k < (ci+1)*chunk && k < len(seqs); k++ {
				seq := seqs[k]
				c := map[string]any{"calls": names(seq)}
				r.Case(c, func() error {
					b, m := build(seq)
					n, err := c15eEncoding(b, m)
					le += int64(n)
					ll++
					if err != nil {
						return err
					}
					// Copy must be deep and equal
					cp := b.Copy()
					if cp.ToEncodingObj().Hash() != b.ToEncodingObj().Hash() {
						return fmt.Errorf("Copy() encodes differently")
					}
					c15eApply(cp, ops[len(ops)-1])
					c15eApply(cp, ops[4])
					if err := c15eExpect(b.ToEncodingObj(), m); err != nil {
						return fmt.Errorf("mutating a Copy() changed the original: %v", err)
					}
					enc, _ := rlp.EncodeToBytes(b.ToEncodingObj())
					r.DistinctHash(mc.Hash64(string(enc)))
					if m.maxIndex() > c15eTxCount+1 {
						r.Outcome("index-beyond-tx-count-rejected")
					} else {
						r.Outcome("valid")
					}
					return nil
				})
				if k%997 == 0 {
					r.Sample(c)
				}
			}
			<-mu
			edits += le
			lists += ll
			mu <- struct{}{}
		})
		// merges
		var short [][]int
		for _, s := range seqs {
			if len(s) <= mergeLen {
				short = append(short, s)
			}
		}
		r.Bound("merge_operands", len(short))
		r.Parallel(len(short), func(i int) {
			var le int64
			for j := range short {
				if r.Quick() && len(short[i]) == 2 && len(short[j]) == 2 {
					continue // quick: one operand has at most one call
				}
				c := map[string]any{"merge_left": names(short[i]), "merge_right": names(short[j])}
				r.Case(c, func() error {
					b1, m1 := build(short[i])
					b2, m2 := build(short[j])
					b1.Merge(b2)
					m1.merge(m2)
					n, err := c15eEncoding(b1, m1)
					le += int64(n)
					if err != nil {
						return fmt.Errorf("after Merge: %v", err)
					}
					r.Outcome("merged")
					return nil
				})
			}
			<-mu
			edits += le
			mu <- struct{}{}
		})
		r.Bound("single_edits_rejected", edits)
	})
}
