//go:build verif

package types

import (
	"bytes"
	"crypto/ecdsa"
	"errors"
	"fmt"
	"math/big"
	"testing"

	"github.com/ethereum/go-ethereum/common"
	"github.com/ethereum/go-ethereum/crypto"
	"github.com/ethereum/go-ethereum/internal/verif/mc"
	"github.com/ethereum/go-ethereum/params"
	"github.com/holiman/uint256"
	xsha3 "golang.org/x/crypto/sha3"
)

// ---------------------------------------------------------------------------
// Reference side. Signature hashes are computed from the EIPs (155, 2718, 2930,
// 1559, 4844, 7702) with a minimal RLP encoder written here and x/crypto Keccak;
// acceptance rules are the table c03Model below. Trusted base of this step:
// crypto.Sign / crypto.Ecrecover / crypto.PubkeyToAddress, which the backend
// steps of this property compare with an independent secp256k1 reference.

func c03RlpLen(l int, off byte) []byte {
	if l < 56 {
		return []byte{off + byte(l)}
	}
	b := new(big.Int).SetInt64(int64(l)).Bytes()
	return append([]byte{off + 55 + byte(len(b))}, b...)
}

func c03RlpBytes(b []byte) []byte {
	if len(b) == 1 && b[0] < 0x80 {
		return []byte{b[0]}
	}
	return append(c03RlpLen(len(b), 0x80), b...)
}

func c03RlpBig(v *big.Int) []byte { return c03RlpBytes(v.Bytes()) }
func c03RlpUint(v uint64) []byte  { return c03RlpBig(new(big.Int).SetUint64(v)) }
func c03RlpList(items ...[]byte) []byte {
	var body []byte
	for _, it := range items {
		body = append(body, it...)
	}
	return append(c03RlpLen(len(body), 0xc0), body...)
}

func c03Keccak(parts ...[]byte) []byte {
	h := xsha3.NewLegacyKeccak256()
	for _, p := range parts {
		h.Write(p)
	}
	return h.Sum(nil)
}

type c03Auth struct {
	chain *big.Int
	addr  common.Address
	nonce uint64
	v     uint8
	r, s  *big.Int
}

// c03Fields is the neutral description of a transaction body from which both the
// client's TxData and the reference encoding are produced.
type c03Fields struct {
	typ        byte
	nonce      uint64
	gasPrice   *big.Int // legacy, access list
	tip, cap   *big.Int // 1559 style
	gas        uint64
	to         *common.Address
	value      *big.Int
	data       []byte
	al         AccessList
	blobCap    *big.Int
	blobHashes []common.Hash
	auths      []c03Auth
}

func (f *c03Fields) rlpTo() []byte {
	if f.to == nil {
		return c03RlpBytes(nil)
	}
	return c03RlpBytes(f.to[:])
}

func (f *c03Fields) rlpAL() []byte {
	var tuples [][]byte
	for _, t := range f.al {
		var keys [][]byte
		for _, k := range t.StorageKeys {
			keys = append(keys, c03RlpBytes(k[:]))
		}
		tuples = append(tuples, c03RlpList(c03RlpBytes(t.Address[:]), c03RlpList(keys...)))
	}
	return c03RlpList(tuples...)
}

// refSigHash returns the hash to be signed; chain == nil means the pre-EIP-155 legacy form.
func (f *c03Fields) refSigHash(chain *big.Int) []byte {
	switch f.typ {
	case LegacyTxType:
		items := [][]byte{c03RlpUint(f.nonce), c03RlpBig(f.gasPrice), c03RlpUint(f.gas), f.rlpTo(), c03RlpBig(f.value), c03RlpBytes(f.data)}
		if chain != nil {
			items = append(items, c03RlpBig(chain), c03RlpUint(0), c03RlpUint(0))
		}
		return c03Keccak(c03RlpList(items...))
	case AccessListTxType:
		return c03Keccak([]byte{1}, c03RlpList(c03RlpBig(chain), c03RlpUint(f.nonce), c03RlpBig(f.gasPrice), c03RlpUint(f.gas), f.rlpTo(),
			c03RlpBig(f.value), c03RlpBytes(f.data), f.rlpAL()))
	case DynamicFeeTxType:
		return c03Keccak([]byte{2}, c03RlpList(c03RlpBig(chain), c03RlpUint(f.nonce), c03RlpBig(f.tip), c03RlpBig(f.cap), c03RlpUint(f.gas), f.rlpTo(),
			c03RlpBig(f.value), c03RlpBytes(f.data), f.rlpAL()))
	case BlobTxType:
		var hs [][]byte
		for _, h := range f.blobHashes {
			hs = append(hs, c03RlpBytes(h[:]))
		}
		return c03Keccak([]byte{3}, c03RlpList(c03RlpBig(chain), c03RlpUint(f.nonce), c03RlpBig(f.tip), c03RlpBig(f.cap), c03RlpUint(f.gas), f.rlpTo(),
			c03RlpBig(f.value), c03RlpBytes(f.data), f.rlpAL(), c03RlpBig(f.blobCap), c03RlpList(hs...)))
	case SetCodeTxType:
		var as [][]byte
		for _, a := range f.auths {
			as = append(as, c03RlpList(c03RlpBig(a.chain), c03RlpBytes(a.addr[:]), c03RlpUint(a.nonce), c03RlpUint(uint64(a.v)), c03RlpBig(a.r), c03RlpBig(a.s)))
		}
		return c03Keccak([]byte{4}, c03RlpList(c03RlpBig(chain), c03RlpUint(f.nonce), c03RlpBig(f.tip), c03RlpBig(f.cap), c03RlpUint(f.gas), f.rlpTo(),
			c03RlpBig(f.value), c03RlpBytes(f.data), f.rlpAL(), c03RlpList(as...)))
	}
	panic("unknown type")
}

// txdata builds the client's TxData; txChain is the chain id stored in a typed transaction.
func (f *c03Fields) txdata(txChain *big.Int) TxData {
	u := func(b *big.Int) *uint256.Int { return uint256.MustFromBig(b) }
	switch f.typ {
	case LegacyTxType:
		return &LegacyTx{Nonce: f.nonce, GasPrice: f.gasPrice, Gas: f.gas, To: f.to, Value: f.value, Data: f.data}
	case AccessListTxType:
		return &AccessListTx{ChainID: txChain, Nonce: f.nonce, GasPrice: f.gasPrice, Gas: f.gas, To: f.to, Value: f.value, Data: f.data, AccessList: f.al}
	case DynamicFeeTxType:
		return &DynamicFeeTx{ChainID: txChain, Nonce: f.nonce, GasTipCap: f.tip, GasFeeCap: f.cap, Gas: f.gas, To: f.to, Value: f.value, Data: f.data, AccessList: f.al}
	case BlobTxType:
		return &BlobTx{ChainID: u(txChain), Nonce: f.nonce, GasTipCap: u(f.tip), GasFeeCap: u(f.cap), Gas: f.gas, To: *f.to, Value: u(f.value), Data: f.data,
			AccessList: f.al, BlobFeeCap: u(f.blobCap), BlobHashes: f.blobHashes}
	case SetCodeTxType:
		var as []SetCodeAuthorization
		for _, a := range f.auths {
			as = append(as, SetCodeAuthorization{ChainID: *u(a.chain), Address: a.addr, Nonce: a.nonce, V: a.v, R: *u(a.r), S: *u(a.s)})
		}
		return &SetCodeTx{ChainID: u(txChain), Nonce: f.nonce, GasTipCap: u(f.tip), GasFeeCap: u(f.cap), Gas: f.gas, To: *f.to, Value: u(f.value), Data: f.data,
			AccessList: f.al, AuthList: as}
	}
	panic("unknown type")
}

var (
	c03N = func() *big.Int {
		v, _ := new(big.Int).SetString("FFFFFFFFFFFFFFFFFFFFFFFFFFFFFFFEBAAEDCE6AF48A03BBFD25E8CD0364141", 16)
		return v
	}()
	c03HalfN = new(big.Int).Rsh(c03N, 1)
	c03Two56 = new(big.Int).Lsh(big.NewInt(1), 256)
)

var c03TypeNames = map[byte]string{LegacyTxType: "legacy", AccessListTxType: "accesslist", DynamicFeeTxType: "dynamicfee", BlobTxType: "blob", SetCodeTxType: "setcode"}

func c03Bodies() []*c03Fields {
	to := common.HexToAddress("0x00000000000000000000000000000000000c0301")
	al := AccessList{{Address: common.HexToAddress("0xaa"), StorageKeys: []common.Hash{{1}, {0: 0xff, 31: 2}}}, {Address: common.HexToAddress("0xbb")}}
	big1 := func(s string) *big.Int { v, _ := new(big.Int).SetString(s, 10); return v }
	auth := c03Auth{chain: big.NewInt(1), addr: common.HexToAddress("0xcc"), nonce: 7, v: 1, r: big.NewInt(0x1234), s: big1("340282366920938463463374607431768211456")}
	var out []*c03Fields
	for _, typ := range []byte{LegacyTxType, AccessListTxType, DynamicFeeTxType, BlobTxType, SetCodeTxType} {
		minimal := &c03Fields{typ: typ, gasPrice: new(big.Int), tip: new(big.Int), cap: new(big.Int), value: new(big.Int), blobCap: new(big.Int)}
		rich := &c03Fields{typ: typ, nonce: 0xffffffffffffffff, gasPrice: big1("1000000007"), tip: big.NewInt(3), cap: big1("115792089237316195423570985008687907853269984665640564039457584007913129639935"),
			gas: 0x80, to: &to, value: big1("1000000000000000000000"), data: bytes.Repeat([]byte{0x7f, 0x80, 0x00}, 20), al: al, blobCap: big.NewInt(0x100)}
		if typ == BlobTxType || typ == SetCodeTxType {
			minimal.to = &common.Address{}
		}
		if typ == BlobTxType {
			minimal.blobHashes = []common.Hash{{0: 1}}
			rich.blobHashes = []common.Hash{{0: 1, 31: 9}, {0: 1, 1: 2}}
		}
		if typ == SetCodeTxType {
			minimal.auths = []c03Auth{{chain: new(big.Int), r: new(big.Int), s: new(big.Int)}}
			rich.auths = []c03Auth{auth, {chain: new(big.Int), addr: to, nonce: 0, v: 0, r: big.NewInt(1), s: big.NewInt(1)}}
		}
		out = append(out, minimal, rich)
	}
	return out
}

// ---- signers

type c03Signer struct {
	name  string // how it was constructed
	kind  string // rule set: frontier, homestead, eip155, berlin, london, cancun, prague
	chain *big.Int
	s     Signer
}

var c03KindTypes = map[string][]byte{
	"frontier": {LegacyTxType}, "homestead": {LegacyTxType}, "eip155": {LegacyTxType},
	"berlin": {LegacyTxType, AccessListTxType}, "london": {LegacyTxType, AccessListTxType, DynamicFeeTxType},
	"cancun": {LegacyTxType, AccessListTxType, DynamicFeeTxType, BlobTxType},
	"prague": {LegacyTxType, AccessListTxType, DynamicFeeTxType, BlobTxType, SetCodeTxType},
}

func c03Supports(kind string, typ byte) bool {
	return bytes.IndexByte(c03KindTypes[kind], typ) >= 0
}

func c03Signers(c *big.Int) []c03Signer {
	u := func(v uint64) *uint64 { return &v }
	cfg := &params.ChainConfig{ChainID: c, HomesteadBlock: big.NewInt(10), EIP150Block: big.NewInt(10), EIP155Block: big.NewInt(20), EIP158Block: big.NewInt(20),
		ByzantiumBlock: big.NewInt(20), ConstantinopleBlock: big.NewInt(20), PetersburgBlock: big.NewInt(20), IstanbulBlock: big.NewInt(20),
		BerlinBlock: big.NewInt(30), LondonBlock: big.NewInt(40), ShanghaiTime: u(500), CancunTime: u(1000), PragueTime: u(2000)}
	out := []c03Signer{
		{"FrontierSigner", "frontier", nil, FrontierSigner{}},
		{"HomesteadSigner", "homestead", nil, HomesteadSigner{}},
		{"NewEIP155Signer", "eip155", c, NewEIP155Signer(c)},
		{"NewEIP2930Signer", "berlin", c, NewEIP2930Signer(c)},
		{"NewLondonSigner", "london", c, NewLondonSigner(c)},
		{"NewCancunSigner", "cancun", c, NewCancunSigner(c)},
		{"NewPragueSigner", "prague", c, NewPragueSigner(c)},
		{"LatestSignerForChainID", "prague", c, LatestSignerForChainID(c)},
		{"LatestSigner(cfg)", "prague", c, LatestSigner(cfg)},
	}
	for _, m := range []struct {
		block int64
		time  uint64
		kind  string
	}{{5, 0, "frontier"}, {15, 0, "homestead"}, {25, 0, "eip155"}, {35, 0, "berlin"}, {45, 0, "london"}, {45, 1500, "cancun"}, {45, 2500, "prague"}, {35, 2500, "berlin"}} {
		ch := c
		if m.kind == "frontier" || m.kind == "homestead" {
			ch = nil
		}
		out = append(out, c03Signer{fmt.Sprintf("MakeSigner(block=%d,time=%d)", m.block, m.time), m.kind, ch, MakeSigner(cfg, big.NewInt(m.block), m.time)})
	}
	return out
}

// ---- the acceptance model

type c03Exp struct {
	class string // ok, type, chain, sig, reject
	hash  []byte
	recid byte
}

// c03Model says what Sender must do for a transaction of body f carrying (v,r,s)
// (and txChain for typed transactions) under a signer of rule set kind / chain c.
//
//	ok     -> the address recovered from (hash, r, s, recid)
//	type   -> ErrTxTypeNotSupported, chain -> ErrInvalidChainId, sig -> ErrInvalidSig
//	reject -> any error (v is not a well-formed value of any scheme; the EIPs do not name the error)
func c03Model(kind string, c *big.Int, f *c03Fields, txChain, v, r, s *big.Int) c03Exp {
	if !c03Supports(kind, f.typ) {
		return c03Exp{class: "type"}
	}
	rsOK := func(lowS bool) bool {
		if r.Sign() <= 0 || s.Sign() <= 0 || r.Cmp(c03N) >= 0 || s.Cmp(c03N) >= 0 {
			return false
		}
		return !lowS || s.Cmp(c03HalfN) <= 0
	}
	is := func(x *big.Int, k int64) bool { return x.IsInt64() && x.Int64() == k }
	if f.typ != LegacyTxType {
		if txChain.Cmp(c) != 0 {
			return c03Exp{class: "chain"}
		}
		if !(is(v, 0) || is(v, 1)) || !rsOK(true) {
			return c03Exp{class: "sig"}
		}
		return c03Exp{class: "ok", hash: f.refSigHash(c), recid: byte(v.Int64())}
	}
	unprotected := func(lowS bool) c03Exp {
		if !(is(v, 27) || is(v, 28)) || !rsOK(lowS) {
			return c03Exp{class: "sig"}
		}
		return c03Exp{class: "ok", hash: f.refSigHash(nil), recid: byte(v.Int64() - 27)}
	}
	switch kind {
	case "frontier":
		return unprotected(false)
	case "homestead":
		return unprotected(true)
	}
	// EIP-155 and later
	if is(v, 27) || is(v, 28) {
		return unprotected(true)
	}
	if v.Cmp(big.NewInt(35)) < 0 {
		return c03Exp{class: "reject"}
	}
	d := new(big.Int).Sub(v, big.NewInt(35))
	rec := d.Bit(0)
	d.Rsh(d, 1)
	if d.Cmp(c) != 0 {
		return c03Exp{class: "chain"}
	}
	if !rsOK(true) {
		return c03Exp{class: "sig"}
	}
	return c03Exp{class: "ok", hash: f.refSigHash(c), recid: byte(rec)}
}

func c03Recover(hash []byte, r, s *big.Int, recid byte) (common.Address, bool) {
	sig := make([]byte, 65)
	r.FillBytes(sig[:32])
	s.FillBytes(sig[32:64])
	sig[64] = recid
	pub, err := crypto.Ecrecover(hash, sig)
	if err != nil || len(pub) != 65 {
		return common.Address{}, false
	}
	return common.BytesToAddress(c03Keccak(pub[1:])[12:]), true
}

// c03Check compares one Sender result with the model.
func c03Check(exp c03Exp, r, s *big.Int, got common.Address, err error) error {
	switch exp.class {
	case "ok":
		want, ok := c03Recover(exp.hash, r, s, exp.recid)
		if !ok {
			if err == nil {
				return fmt.Errorf("Sender returned %x although no key is recoverable from (hash %x, r %x, s %x, recid %d)", got, exp.hash, r, s, exp.recid)
			}
			return nil
		}
		if err != nil {
			return fmt.Errorf("Sender failed (%v); model: accepted, sender %x", err, want)
		}
		if got != want {
			return fmt.Errorf("Sender = %x; model: %x (hash %x recid %d)", got, want, exp.hash, exp.recid)
		}
	case "type":
		if !errors.Is(err, ErrTxTypeNotSupported) {
			return fmt.Errorf("Sender = (%x, %v); model: ErrTxTypeNotSupported", got, err)
		}
	case "chain":
		if !errors.Is(err, ErrInvalidChainId) {
			return fmt.Errorf("Sender = (%x, %v); model: ErrInvalidChainId", got, err)
		}
	case "sig":
		if !errors.Is(err, ErrInvalidSig) {
			return fmt.Errorf("Sender = (%x, %v); model: ErrInvalidSig", got, err)
		}
	case "reject":
		if err == nil {
			return fmt.Errorf("Sender = %x; model: rejected (v is not a valid value of any signature scheme)", got)
		}
	}
	return nil
}

// c03WithSig returns a fresh transaction (empty caches) equal to tx with the signature
// fields (and, for typed transactions, optionally the chain id) overwritten. ok is false
// when the value is not representable in the transaction type (uint256 fields).
func c03WithSig(tx *Transaction, v, r, s, chain *big.Int) (*Transaction, bool) {
	fits := func(x *big.Int) bool { return x.Sign() >= 0 && x.Cmp(c03Two56) < 0 }
	cpy := tx.inner.copy()
	switch t := cpy.(type) {
	case *LegacyTx:
		t.V, t.R, t.S = v, r, s
	case *AccessListTx:
		t.V, t.R, t.S = v, r, s
		if chain != nil {
			t.ChainID = chain
		}
	case *DynamicFeeTx:
		t.V, t.R, t.S = v, r, s
		if chain != nil {
			t.ChainID = chain
		}
	case *BlobTx:
		if !fits(v) || !fits(r) || !fits(s) || (chain != nil && !fits(chain)) {
			return nil, false
		}
		t.V, t.R, t.S = uint256.MustFromBig(v), uint256.MustFromBig(r), uint256.MustFromBig(s)
		if chain != nil {
			t.ChainID = uint256.MustFromBig(chain)
		}
	case *SetCodeTx:
		if !fits(v) || !fits(r) || !fits(s) || (chain != nil && !fits(chain)) {
			return nil, false
		}
		t.V, t.R, t.S = uint256.MustFromBig(v), uint256.MustFromBig(r), uint256.MustFromBig(s)
		if chain != nil {
			t.ChainID = uint256.MustFromBig(chain)
		}
	}
	return NewTx(cpy), true
}

type c03Case struct {
	Kind    string `json:"kind"`
	Signer  string `json:"signer"`
	Chain   string `json:"chain"`
	Tx      string `json:"tx"`
	TxChain string `json:"tx_chain,omitempty"`
	Key     int    `json:"key"`
	Mut     string `json:"mut,omitempty"`
	Under   string `json:"under,omitempty"`
}

func c03Stop(r *mc.R) bool {
	if r.Violations() > 40 {
		r.NotExhaustive("stopped early after more than 40 violations")
		return true
	}
	return false
}

func c03Keys() []*ecdsa.PrivateKey {
	var out []*ecdsa.PrivateKey
	for _, d := range []*big.Int{big.NewInt(1), new(big.Int).Sub(c03N, big.NewInt(1)),
		new(big.Int).SetBytes(c03Keccak([]byte("verif-C03-key-a"))), new(big.Int).SetBytes(c03Keccak([]byte("verif-C03-key-b")))} {
		d.Mod(d, c03N)
		k, err := crypto.ToECDSA(d.FillBytes(make([]byte, 32)))
		if err != nil {
			panic(err)
		}
		out = append(out, k)
	}
	return out
}

// TestVerif_C03 enumerates signer x chain id x transaction body x key, signs with
// the real SignTx and checks the inverse, the independence of the signature hash
// from the signature fields, the acceptance of the result by every other signer and
// the rejection of every substituted r/s/v/chain-id value against c03Model.
func TestVerif_C03(t *testing.T) {
	mc.Run(t, "C03", func(r *mc.R) {
		two := big.NewInt(2)
		chains := []*big.Int{big.NewInt(1), big.NewInt(1337),
			new(big.Int).Sub(new(big.Int).Exp(two, big.NewInt(63), nil), big.NewInt(3)), // (v-35)/2 of v=29 computed in uint64 wraps to this value
			new(big.Int).Exp(two, big.NewInt(63), nil),
			new(big.Int).Add(new(big.Int).Exp(two, big.NewInt(64), nil), big.NewInt(1)),
			new(big.Int).Add(new(big.Int).Exp(two, big.NewInt(255), nil), big.NewInt(11))}
		bodies := c03Bodies()
		keys := c03Keys()
		mutKeys := mc.Pick(r, 1, 2)
		r.Rule("chain ids {1,1337,2^63-3,2^63,2^64+1,2^255+11} x 17 signer constructions (direct constructors, LatestSigner*, MakeSigner at 8 fork points) " +
			"x 10 transaction bodies (5 types x {minimal,rich}; typed bodies with tx chain id = signer's and = 0) x 4 keys (1, n-1, 2 hashed): SignTx, Sender, " +
			"Hash before/after signing and with overwritten V,R,S, then the signed tx under every signer of the same and of the next chain id (sender cache filled under the signing signer first, and in the reverse order); " +
			"strictness: for the direct constructors, every substitution r in {0,n,n+1,2^256-1,-1,2^256}, s in {0,n,n+1,2^256-1,n-s,n-s with flipped v}, " +
			"v in 0..300 and scheme boundary values (negative v in a separate group), tx chain id in {0,c-1,c+1,c+2^64}; plus EIP155 signer with chain id 0/nil and SetCode authorizations; " +
			"one case = one (signer,chain,tx,key[,mutation,evaluating signer]); distinct = distinct case tuples")
		r.Bound("chain_ids", len(chains))
		r.Bound("bodies", len(bodies))
		r.Bound("keys", len(keys))
		r.Bound("keys_for_substitutions", mutKeys)
		r.Assume("trusted base of this step: crypto.Sign/Ecrecover/PubkeyToAddress (checked against an independent reference by the backend steps); " +
			"signature hashes and acceptance rules are transcribed from EIP-155/2718/2930/1559/4844/7702 in the harness")

		type job struct {
			ci int
			si int
		}
		var jobs []job
		nsig := len(c03Signers(chains[0]))
		for ci := range chains {
			for si := 0; si < nsig; si++ {
				jobs = append(jobs, job{ci, si})
			}
		}
		r.Bound("signer_constructions", nsig)
		r.Parallel(len(jobs), func(ji int) {
			if c03Stop(r) {
				return
			}
			c := chains[jobs[ji].ci]
			signers := c03Signers(c)
			other := c03Signers(chains[(jobs[ji].ci+1)%len(chains)])[:8]
			sg := signers[jobs[ji].si]
			oc := map[string]int64{}
			for bi, f := range bodies {
				bname := fmt.Sprintf("%s/%d", c03TypeNames[f.typ], bi%2)
				txChains := []*big.Int{c}
				if f.typ != LegacyTxType {
					txChains = append(txChains, new(big.Int), new(big.Int).Add(c, big.NewInt(1)))
				}
				for _, txc := range txChains {
					for ki, key := range keys {
						cs := c03Case{Kind: "sign", Signer: sg.name, Chain: c.String(), Tx: bname, TxChain: txc.String(), Key: ki}
						// SignTx runs outside the case so that the cases derived from its result can be replayed on their own
						var signed *Transaction
						var signErr error
						if perr := mc.Safely(func() error {
							signed, signErr = SignTx(NewTx(f.txdata(txc)), sg.s, key)
							return nil
						}); perr != nil {
							signed, signErr = nil, perr
						}
						r.Case(cs, func() error {
							unsigned := NewTx(f.txdata(txc))
							// what must be signed
							hashChain := sg.chain
							if sg.kind == "frontier" || sg.kind == "homestead" {
								hashChain = nil
							}
							if !c03Supports(sg.kind, f.typ) {
								if !errors.Is(signErr, ErrTxTypeNotSupported) {
									return fmt.Errorf("SignTx err = %v; model: ErrTxTypeNotSupported", signErr)
								}
								oc["sign_type_not_supported"]++
								return nil
							}
							if f.typ != LegacyTxType && txc.Sign() != 0 && txc.Cmp(c) != 0 {
								if !errors.Is(signErr, ErrInvalidChainId) {
									return fmt.Errorf("SignTx of a tx for chain %v err = %v; model: ErrInvalidChainId", txc, signErr)
								}
								oc["sign_chain_mismatch"]++
								return nil
							}
							want := f.refSigHash(hashChain)
							h0 := sg.s.Hash(unsigned)
							if !bytes.Equal(h0[:], want) {
								return fmt.Errorf("Hash(unsigned) = %x; reference %x", h0, want)
							}
							tx, err := signed, signErr
							if err != nil || tx == nil {
								return fmt.Errorf("SignTx: %v", err)
							}
							if h1 := sg.s.Hash(tx); h1 != h0 {
								return fmt.Errorf("Hash(signed) = %x differs from Hash(unsigned) = %x", h1, h0)
							}
							v, rr, ss := tx.RawSignatureValues()
							// the hash must not depend on the signature fields
							for _, alt := range [][3]*big.Int{{big.NewInt(1), big.NewInt(1), big.NewInt(1)}, {big.NewInt(28), rr, new(big.Int).Sub(c03N, ss)},
								{new(big.Int).Sub(c03Two56, big.NewInt(1)), new(big.Int).Sub(c03Two56, big.NewInt(1)), new(big.Int).Sub(c03Two56, big.NewInt(1))}} {
								if mtx, ok := c03WithSig(tx, alt[0], alt[1], alt[2], nil); ok {
									if h2 := sg.s.Hash(mtx); h2 != h0 {
										return fmt.Errorf("Hash with V,R,S = %v,%v,%v is %x, with the real signature %x", alt[0], alt[1], alt[2], h2, h0)
									}
								}
							}
							// inverse
							wantAddr := crypto.PubkeyToAddress(key.PublicKey)
							got, err := Sender(sg.s, tx)
							if err != nil || got != wantAddr {
								return fmt.Errorf("Sender(SignTx(tx)) = (%x, %v); signing key address %x (v=%v)", got, err, wantAddr, v)
							}
							if got2, err := sg.s.Sender(tx); err != nil || got2 != wantAddr {
								return fmt.Errorf("signer.Sender(SignTx(tx)) = (%x, %v); signing key address %x", got2, err, wantAddr)
							}
							// form of the result
							if f.typ != LegacyTxType {
								if tx.ChainId().Cmp(c) != 0 || !(v.IsUint64() && v.Uint64() <= 1) {
									return fmt.Errorf("signed typed tx has chain id %v, v %v; model: chain id %v, v in {0,1}", tx.ChainId(), v, c)
								}
							} else if hashChain == nil {
								if !(v.IsUint64() && (v.Uint64() == 27 || v.Uint64() == 28)) || tx.Protected() {
									return fmt.Errorf("unprotected legacy signature has v = %v", v)
								}
							} else {
								lo := new(big.Int).Add(new(big.Int).Lsh(c, 1), big.NewInt(35))
								if !(v.Cmp(lo) == 0 || v.Cmp(new(big.Int).Add(lo, big.NewInt(1))) == 0) || !tx.Protected() || tx.ChainId().Cmp(c) != 0 {
									return fmt.Errorf("EIP-155 signature has v = %v, ChainId() = %v; model: v in {%v, %v+1}", v, tx.ChainId(), lo, lo)
								}
							}
							// and the model must agree that this is a valid signature of the key under this signer
							if e := c03Check(c03Model(sg.kind, c, f, tx.ChainId(), v, rr, ss), rr, ss, got, nil); e != nil {
								return fmt.Errorf("model self-check: %v", e)
							}
							oc["signed_and_recovered"]++
							return nil
						})
						r.DistinctHash(mc.Hash64(fmt.Sprint(cs)))
						if signed == nil || signErr != nil {
							continue
						}
						v, rr, ss := signed.RawSignatureValues()
						// ---- the same transaction object under every signer (sender cache stays live between calls)
						if ki < 2 {
							for _, ev := range append(append([]c03Signer{}, signers...), other...) {
								evc := ev.chain
								if evc == nil {
									evc = new(big.Int)
								}
								cc := cs
								cc.Kind, cc.Under = "cross-signer", ev.name+"@"+evc.String()
								exp := c03Model(ev.kind, evc, f, signed.ChainId(), v, rr, ss)
								r.Case(cc, func() error {
									// fresh object, sender cache filled under the signing signer, then asked under the other one
									obj, _ := c03WithSig(signed, v, rr, ss, nil)
									if first, err := Sender(sg.s, obj); err != nil || first != crypto.PubkeyToAddress(key.PublicKey) {
										return fmt.Errorf("Sender under the signing signer = (%x, %v)", first, err)
									}
									got, err := Sender(ev.s, obj)
									if e := c03Check(exp, rr, ss, got, err); e != nil {
										return fmt.Errorf("signed under %s@%v (sender cached), then evaluated under %s@%v on the same tx object: %v", sg.name, c, ev.name, evc, e)
									}
									// and once more in the other order on a second object
									obj2, _ := c03WithSig(signed, v, rr, ss, nil)
									got2, err2 := Sender(ev.s, obj2)
									if e := c03Check(exp, rr, ss, got2, err2); e != nil {
										return fmt.Errorf("signed under %s@%v, evaluated under %s@%v (no cache): %v", sg.name, c, ev.name, evc, e)
									}
									if back, err := Sender(sg.s, obj2); err != nil || back != crypto.PubkeyToAddress(key.PublicKey) {
										return fmt.Errorf("Sender under the signing signer after a call under %s@%v = (%x, %v)", ev.name, evc, back, err)
									}
									return nil
								})
								oc["cross_"+exp.class]++
								r.DistinctHash(mc.Hash64(fmt.Sprint(cc)))
							}
						}
						// ---- substitutions, evaluated under the signing signer and under Frontier/Homestead/Prague of the same chain
						if ki >= mutKeys || jobs[ji].si >= 7 || txc.Cmp(c) != 0 {
							continue
						}
						type mut struct {
							name       string
							v, r, s, c *big.Int
						}
						var muts []mut
						bi := func(k int64) *big.Int { return big.NewInt(k) }
						for _, x := range []*big.Int{bi(0), c03N, new(big.Int).Add(c03N, bi(1)), new(big.Int).Sub(c03Two56, bi(1)), bi(-1), c03Two56, new(big.Int).Neg(rr)} {
							muts = append(muts, mut{"r=" + x.Text(16), v, x, ss, nil})
						}
						for _, x := range []*big.Int{bi(0), c03N, new(big.Int).Add(c03N, bi(1)), new(big.Int).Sub(c03Two56, bi(1)), bi(-1), c03Two56, c03HalfN, new(big.Int).Add(c03HalfN, bi(1)), new(big.Int).Neg(ss)} {
							muts = append(muts, mut{"s=" + x.Text(16), v, rr, x, nil})
						}
						flipped := new(big.Int).Xor(v, bi(1))
						if f.typ == LegacyTxType { // 27<->28, 35+2c<->36+2c
							if v.Bit(0) == 1 {
								flipped = new(big.Int).Add(v, bi(1))
							} else {
								flipped = new(big.Int).Sub(v, bi(1))
							}
						}
						muts = append(muts, mut{"s=n-s", v, rr, new(big.Int).Sub(c03N, ss), nil}, mut{"s=n-s,v-flipped", flipped, rr, new(big.Int).Sub(c03N, ss), nil},
							mut{"v-flipped", flipped, rr, ss, nil})
						for k := int64(0); k <= 300; k++ {
							muts = append(muts, mut{fmt.Sprintf("v=%d", k), bi(k), rr, ss, nil})
						}
						base := new(big.Int).Add(new(big.Int).Lsh(c, 1), bi(35))
						two64 := new(big.Int).Lsh(bi(1), 64)
						for _, x := range []*big.Int{new(big.Int).Sub(base, bi(2)), new(big.Int).Sub(base, bi(1)), base, new(big.Int).Add(base, bi(1)), new(big.Int).Add(base, bi(2)),
							new(big.Int).Add(base, bi(3)), two64, new(big.Int).Add(two64, bi(1)), new(big.Int).Add(two64, bi(27)), new(big.Int).Add(two64, base),
							new(big.Int).Add(new(big.Int).Lsh(two64, 1), base), new(big.Int).Sub(c03Two56, bi(1))} {
							muts = append(muts, mut{"v=" + x.Text(16), x, rr, ss, nil})
						}
						if f.typ != LegacyTxType {
							for _, x := range []*big.Int{bi(0), new(big.Int).Sub(c, bi(1)), new(big.Int).Add(c, bi(1)), new(big.Int).Add(c, two64)} {
								muts = append(muts, mut{"chain=" + x.String(), v, rr, ss, x})
							}
						}
						evals := []c03Signer{sg}
						if sg.kind != "frontier" {
							evals = append(evals, signers[0])
						}
						if sg.kind != "homestead" {
							evals = append(evals, signers[1])
						}
						if sg.kind != "prague" {
							evals = append(evals, signers[6])
						}
						for _, m := range muts {
							mtx, ok := c03WithSig(signed, m.v, m.r, m.s, m.c)
							if !ok {
								oc["substitution_not_representable"]++
								continue
							}
							for _, ev := range evals {
								evc := ev.chain
								if evc == nil {
									evc = new(big.Int)
								}
								cc := cs
								cc.Kind, cc.Mut, cc.Under = "substitution", m.name, ev.name
								exp := c03Model(ev.kind, evc, f, mtx.ChainId(), m.v, m.r, m.s)
								r.Case(cc, func() error {
									fresh, _ := c03WithSig(signed, m.v, m.r, m.s, m.c)
									got, err := Sender(ev.s, fresh)
									if e := c03Check(exp, m.r, m.s, got, err); e != nil {
										return fmt.Errorf("%s of a %s tx signed under %s@%v, evaluated under %s: %v", m.name, bname, sg.name, c, ev.name, e)
									}
									got2, err2 := ev.s.Sender(fresh)
									if (err == nil) != (err2 == nil) || got != got2 {
										return fmt.Errorf("types.Sender = (%x,%v) but signer.Sender = (%x,%v)", got, err, got2, err2)
									}
									// malleated twin: where it is accepted it must still name the signing key
									if m.name == "s=n-s,v-flipped" && err == nil && got != crypto.PubkeyToAddress(key.PublicKey) {
										return fmt.Errorf("high-s twin recovered %x, signing key %x", got, crypto.PubkeyToAddress(key.PublicKey))
									}
									return nil
								})
								oc["subst_"+exp.class]++
								r.DistinctHash(mc.Hash64(fmt.Sprint(cc)))
							}
						}
					}
				}
			}
			for k, v := range oc {
				r.OutcomeN(k, v)
			}
			if ji%13 == 0 {
				r.Sample(map[string]any{"signer": sg.name, "chain": c.String(), "kind": sg.kind})
			}
		})
		if c03Stop(r) {
			return
		}

		// ---- EIP155Signer with chain id zero / nil (quantifier: "chain ids including 0")
		for _, zc := range []struct {
			name string
			s    Signer
		}{{"NewEIP155Signer(0)", NewEIP155Signer(new(big.Int))}, {"NewEIP155Signer(nil)", NewEIP155Signer(nil)}} {
			for bi, f := range bodies[:1] {
				for ki, key := range keys[:2] {
					r.Case(c03Case{Kind: "sign-chain-zero", Signer: zc.name, Chain: "0", Tx: fmt.Sprintf("legacy/%d", bi), Key: ki}, func() error {
						tx, err := SignTx(NewTx(f.txdata(nil)), zc.s, key)
						if err != nil {
							return fmt.Errorf("SignTx: %v", err)
						}
						want := crypto.PubkeyToAddress(key.PublicKey)
						got, err := Sender(zc.s, tx)
						v, _, _ := tx.RawSignatureValues()
						if err != nil || got != want {
							return fmt.Errorf("Sender(SignTx(tx)) under %s = (%x, %v); signing key address %x; the signature (v=%v) was made over Hash(tx)=%x (EIP-155 form with chain id 0) "+
								"but v marks it unprotected, so recovery uses the pre-EIP-155 hash %x", zc.name, got, err, want, v, zc.s.Hash(tx), f.refSigHash(nil))
						}
						return nil
					})
					r.Outcome("chain_zero_sign_recover")
				}
			}
		}

		// ---- negative v (only constructible in memory; RLP and JSON cannot carry it). One small group with its own kind.
		{
			c := chains[0]
			signers := c03Signers(c)
			f := bodies[0]
			key := keys[0]
			for _, si := range []int{0, 1, 2, 6} {
				sg := signers[si]
				tx, err := SignTx(NewTx(f.txdata(c)), sg.s, key)
				if err != nil {
					r.Violation("negative-v-setup", err.Error(), nil)
					continue
				}
				v, rr, ss := tx.RawSignatureValues()
				nvs := []*big.Int{big.NewInt(-27), big.NewInt(-28), big.NewInt(-37), big.NewInt(-38), big.NewInt(-1)}
				if v.Cmp(big.NewInt(28)) > 0 && v.Cmp(big.NewInt(38)) != 0 && v.Cmp(big.NewInt(37)) != 0 {
					nvs = append(nvs, new(big.Int).Neg(v))
				}
				for _, nv := range nvs {
					exp := c03Model(sg.kind, c, f, nil, nv, rr, ss)
					r.Case(c03Case{Kind: "negative-v", Signer: sg.name, Chain: c.String(), Tx: "legacy/0", Key: 0, Mut: "v=" + nv.String()}, func() error {
						fresh, _ := c03WithSig(tx, nv, rr, ss, nil)
						got, err := Sender(sg.s, fresh)
						if e := c03Check(exp, rr, ss, got, err); e != nil {
							return fmt.Errorf("legacy tx with V=%v under %s: %v", nv, sg.name, e)
						}
						return nil
					})
					r.Outcome("negative_v_" + exp.class)
				}
			}
		}

		// ---- EIP-7702 authorizations: SignSetCode / Authority
		for ki, key := range keys {
			for ai, a := range []SetCodeAuthorization{{Address: common.HexToAddress("0xcc"), Nonce: 0}, {ChainID: *uint256.NewInt(1337), Address: common.HexToAddress("0xdd"), Nonce: 1<<64 - 1},
				{ChainID: *uint256.MustFromBig(chains[5]), Nonce: 5}} {
				r.Case(c03Case{Kind: "authorization", Tx: fmt.Sprint(ai), Key: ki}, func() error {
					want := crypto.PubkeyToAddress(key.PublicKey)
					signedA, err := SignSetCode(key, a)
					if err != nil {
						return err
					}
					refHash := c03Keccak([]byte{5}, c03RlpList(c03RlpBig(a.ChainID.ToBig()), c03RlpBytes(a.Address[:]), c03RlpUint(a.Nonce)))
					if h := signedA.SigHash(); !bytes.Equal(h[:], refHash) || h != a.SigHash() {
						return fmt.Errorf("authorization SigHash = %x (unsigned %x); reference %x", h, a.SigHash(), refHash)
					}
					if got, err := signedA.Authority(); err != nil || got != want {
						return fmt.Errorf("Authority(SignSetCode(a)) = (%x, %v); signing key %x", got, err, want)
					}
					for v := 0; v < 256; v++ {
						m := signedA
						m.V = uint8(v)
						got, err := m.Authority()
						switch {
						case uint8(v) == signedA.V:
						case v <= 1:
							if err == nil && got == want {
								return fmt.Errorf("authorization with flipped yParity still recovers the signing key")
							}
						default:
							if !errors.Is(err, ErrInvalidSig) {
								return fmt.Errorf("authorization with yParity=%d: (%x, %v); model: ErrInvalidSig", v, got, err)
							}
						}
					}
					hi := signedA
					hi.S = *uint256.MustFromBig(new(big.Int).Sub(c03N, signedA.S.ToBig()))
					hi.V ^= 1
					if got, err := hi.Authority(); !errors.Is(err, ErrInvalidSig) {
						return fmt.Errorf("high-s authorization: (%x, %v); model: ErrInvalidSig", got, err)
					}
					for _, z := range []*big.Int{new(big.Int), c03N, new(big.Int).Sub(c03Two56, big.NewInt(1))} {
						m := signedA
						m.R = *uint256.MustFromBig(z)
						if got, err := m.Authority(); !errors.Is(err, ErrInvalidSig) {
							return fmt.Errorf("authorization with r=%x: (%x, %v); model: ErrInvalidSig", z, got, err)
						}
						m = signedA
						m.S = *uint256.MustFromBig(z)
						if got, err := m.Authority(); !errors.Is(err, ErrInvalidSig) {
							return fmt.Errorf("authorization with s=%x: (%x, %v); model: ErrInvalidSig", z, got, err)
						}
					}
					return nil
				})
				r.Outcome("authorization_roundtrip")
			}
		}
	})
}
