//go:build verif

package types

import (
	"bytes"
	"encoding/hex"
	"encoding/json"
	"errors"
	"fmt"
	"math/big"
	"sort"
	"strings"
	"testing"

	"github.com/ethereum/go-ethereum/common"
	"github.com/ethereum/go-ethereum/crypto/kzg4844"
	"github.com/ethereum/go-ethereum/internal/verif/mc"
	"github.com/ethereum/go-ethereum/rlp"
	"github.com/holiman/uint256"
	"golang.org/x/crypto/sha3"
)

// ---------------------------------------------------------------------------------------------
// Reference pieces, independent of core/types and of package rlp's encoder/decoder:
// a specification RLP encoder for (uint64 | *big.Int | []byte | []any), a header parser, Keccak-256 from x/crypto.

func c02Keccak(parts ...[]byte) (h common.Hash) {
	k := sha3.NewLegacyKeccak256()
	for _, p := range parts {
		k.Write(p)
	}
	k.Sum(h[:0])
	return h
}

func c02EncHead(base byte, n int) []byte {
	if n < 56 {
		return []byte{base + byte(n)}
	}
	be := new(big.Int).SetInt64(int64(n)).Bytes()
	return append([]byte{base + 55 + byte(len(be))}, be...)
}

func c02Enc(x any) []byte {
	str := func(p []byte) []byte {
		if len(p) == 1 && p[0] < 0x80 {
			return []byte{p[0]}
		}
		return append(c02EncHead(0x80, len(p)), p...)
	}
	switch v := x.(type) {
	case uint64:
		return str(new(big.Int).SetUint64(v).Bytes())
	case *big.Int:
		return str(v.Bytes())
	case []byte:
		return str(v)
	case c02Raw:
		return v
	case []any:
		var payload []byte
		for _, e := range v {
			payload = append(payload, c02Enc(e)...)
		}
		return append(c02EncHead(0xc0, len(payload)), payload...)
	}
	panic(fmt.Sprintf("c02Enc: %T", x))
}

type c02Raw []byte // already encoded item

// c02Head parses one RLP header (spec rules); ok=false when truncated or non-canonical.
func c02Head(b []byte) (list bool, hdr, n int, ok bool) {
	if len(b) == 0 {
		return false, 0, 0, false
	}
	t, ll := b[0], 0
	switch {
	case t < 0x80:
		return false, 0, 1, true
	case t <= 0xb7:
		hdr, n = 1, int(t-0x80)
	case t <= 0xbf:
		ll = int(t - 0xb7)
	case t <= 0xf7:
		list, hdr, n = true, 1, int(t-0xc0)
	default:
		list, ll = true, int(t-0xf7)
	}
	if ll > 0 {
		if len(b) < 1+ll || b[1] == 0 {
			return list, 0, 0, false
		}
		var size uint64
		for _, x := range b[1 : 1+ll] {
			size = size<<8 | uint64(x)
		}
		if size < 56 || size > uint64(len(b)) {
			return list, 0, 0, false
		}
		hdr, n = 1+ll, int(size)
	}
	if n > len(b)-hdr {
		return list, 0, 0, false
	}
	return list, hdr, n, true
}

// c02SansSidecar returns the canonical (consensus) form of an accepted envelope: for a type-3 envelope whose
// payload is [[tx fields...], sidecar...] it is 0x03 || first item; otherwise the envelope itself.
func c02SansSidecar(env []byte) ([]byte, bool) {
	sans, has, _ := c02SplitSidecar(env)
	return sans, has
}

// c02SplitSidecar additionally reports whether the wrapper is "degenerate": the RLP list header of
// [tx, sidecar items...] has a different length than the header of a list holding only the sidecar items would have.
// (With real blobs, 128 kB each, both headers are 4 bytes; with an empty sidecar they are 1 vs 2 bytes.)
func c02SplitSidecar(env []byte) (sans []byte, has, degenerate bool) {
	if len(env) < 2 || env[0] != BlobTxType {
		return env, false, false
	}
	list, hdr, n, ok := c02Head(env[1:])
	if !ok || !list || n == 0 {
		return env, false, false
	}
	inner := env[1+hdr : 1+hdr+n]
	l2, h2, n2, ok2 := c02Head(inner)
	if !ok2 || !l2 {
		return env, false, false
	}
	return append([]byte{BlobTxType}, inner[:h2+n2]...), true, len(c02EncHead(0xc0, n)) != len(c02EncHead(0xc0, n-h2-n2))
}

// ---------------------------------------------------------------------------------------------
// Field grid.

type c02Fields struct {
	Typ        byte
	ChainID    *big.Int
	Nonce, Gas uint64
	GasPrice   *big.Int // legacy, access list
	Tip, Cap   *big.Int // 1559-style
	Value      *big.Int
	BlobCap    *big.Int
	To         *common.Address
	Data       []byte
	AL         AccessList
	BlobHashes []common.Hash
	Auths      []SetCodeAuthorization
	V, R, S    *big.Int
	Sidecar    int // 0 none, 1 v0 empty, 2 v1 empty, 3 v0 one blob, 4 v1 one blob
}

func (f c02Fields) String() string {
	to := "nil"
	if f.To != nil {
		to = f.To.Hex()
	}
	return fmt.Sprintf("type=%d chain=%v nonce=%d gas=%d price=%v tip=%v cap=%v value=%v blobcap=%v to=%s data=%x al=%d/%d blobhashes=%d auths=%d v=%v r=%v s=%v sidecar=%d",
		f.Typ, f.ChainID, f.Nonce, f.Gas, f.GasPrice, f.Tip, f.Cap, f.Value, f.BlobCap, to, f.Data, len(f.AL), f.AL.StorageKeys(), len(f.BlobHashes), len(f.Auths), f.V, f.R, f.S, f.Sidecar)
}

var (
	c02Addr   = common.HexToAddress("0x00112233445566778899aabbccddeeff00112233")
	c02Addr2  = common.HexToAddress("0x8000000000000000000000000000000000000001")
	c02N, _   = new(big.Int).SetString("fffffffffffffffffffffffffffffffebaaedce6af48a03bbfd25e8cd0364141", 16)
	c02Max256 = new(big.Int).Sub(new(big.Int).Lsh(big.NewInt(1), 256), big.NewInt(1))
	c02P64    = new(big.Int).Lsh(big.NewInt(1), 64)
)

func c02Sidecar(kind int) *BlobTxSidecar {
	mk := func(version byte, nblobs, nproofs int) *BlobTxSidecar {
		sc := &BlobTxSidecar{Version: version, Blobs: []kzg4844.Blob{}, Commitments: []kzg4844.Commitment{}, Proofs: []kzg4844.Proof{}}
		for i := 0; i < nblobs; i++ {
			var b kzg4844.Blob
			for j := range b {
				b[j] = 0x42
			}
			var c kzg4844.Commitment
			c[0], c[47] = 0xc0, byte(i)
			sc.Blobs = append(sc.Blobs, b)
			sc.Commitments = append(sc.Commitments, c)
		}
		for i := 0; i < nproofs; i++ {
			var p kzg4844.Proof
			p[0], p[47] = 0x80, byte(i)
			sc.Proofs = append(sc.Proofs, p)
		}
		return sc
	}
	switch kind {
	case 1:
		return mk(0, 0, 0)
	case 2:
		return mk(1, 0, 0)
	case 3:
		return mk(0, 1, 1)
	case 4:
		return mk(1, 1, 2)
	}
	return nil
}

func c02ALItems(al AccessList) []any {
	out := []any{}
	for _, t := range al {
		keys := []any{}
		for _, k := range t.StorageKeys {
			keys = append(keys, k.Bytes())
		}
		out = append(out, []any{t.Address.Bytes(), keys})
	}
	return out
}

// c02RefEnvelope builds the canonical binary envelope of f from the EIP definitions
// (EIP-155 legacy list, EIP-2930, EIP-1559, EIP-4844 incl. the network wrapper, EIP-7702).
func c02RefEnvelope(f c02Fields) []byte {
	to := []byte{}
	if f.To != nil {
		to = f.To.Bytes()
	}
	sig := []any{f.V, f.R, f.S}
	var items []any
	switch f.Typ {
	case LegacyTxType:
		return c02Enc(append([]any{f.Nonce, f.GasPrice, f.Gas, to, f.Value, f.Data}, sig...))
	case AccessListTxType:
		items = []any{f.ChainID, f.Nonce, f.GasPrice, f.Gas, to, f.Value, f.Data, c02ALItems(f.AL)}
	case DynamicFeeTxType:
		items = []any{f.ChainID, f.Nonce, f.Tip, f.Cap, f.Gas, to, f.Value, f.Data, c02ALItems(f.AL)}
	case BlobTxType:
		hashes := []any{}
		for _, h := range f.BlobHashes {
			hashes = append(hashes, h.Bytes())
		}
		items = []any{f.ChainID, f.Nonce, f.Tip, f.Cap, f.Gas, to, f.Value, f.Data, c02ALItems(f.AL), f.BlobCap, hashes}
	case SetCodeTxType:
		auths := []any{}
		for _, a := range f.Auths {
			auths = append(auths, []any{a.ChainID.ToBig(), a.Address.Bytes(), a.Nonce, uint64(a.V), a.R.ToBig(), a.S.ToBig()})
		}
		items = []any{f.ChainID, f.Nonce, f.Tip, f.Cap, f.Gas, to, f.Value, f.Data, c02ALItems(f.AL), auths}
	}
	payload := c02Enc(append(items, sig...))
	if sc := c02Sidecar(f.Sidecar); sc != nil {
		var blobs, comms, proofs []any
		for i := range sc.Blobs {
			blobs = append(blobs, sc.Blobs[i][:])
		}
		for i := range sc.Commitments {
			comms = append(comms, sc.Commitments[i][:])
		}
		for i := range sc.Proofs {
			proofs = append(proofs, sc.Proofs[i][:])
		}
		outer := []any{c02Raw(payload)}
		if sc.Version != 0 {
			outer = append(outer, uint64(sc.Version))
		}
		outer = append(outer, blobs, comms, proofs)
		payload = c02Enc(outer)
	}
	return append([]byte{f.Typ}, payload...)
}

// c02Build constructs the TxData through the public structs (the way clients create transactions).
func c02Build(f c02Fields) TxData {
	u := func(x *big.Int) *uint256.Int { return uint256.MustFromBig(x) }
	switch f.Typ {
	case LegacyTxType:
		return &LegacyTx{Nonce: f.Nonce, GasPrice: f.GasPrice, Gas: f.Gas, To: f.To, Value: f.Value, Data: f.Data, V: f.V, R: f.R, S: f.S}
	case AccessListTxType:
		return &AccessListTx{ChainID: f.ChainID, Nonce: f.Nonce, GasPrice: f.GasPrice, Gas: f.Gas, To: f.To, Value: f.Value, Data: f.Data, AccessList: f.AL, V: f.V, R: f.R, S: f.S}
	case DynamicFeeTxType:
		return &DynamicFeeTx{ChainID: f.ChainID, Nonce: f.Nonce, GasTipCap: f.Tip, GasFeeCap: f.Cap, Gas: f.Gas, To: f.To, Value: f.Value, Data: f.Data, AccessList: f.AL, V: f.V, R: f.R, S: f.S}
	case BlobTxType:
		return &BlobTx{ChainID: u(f.ChainID), Nonce: f.Nonce, GasTipCap: u(f.Tip), GasFeeCap: u(f.Cap), Gas: f.Gas, To: *f.To, Value: u(f.Value), Data: f.Data, AccessList: f.AL,
			BlobFeeCap: u(f.BlobCap), BlobHashes: f.BlobHashes, Sidecar: c02Sidecar(f.Sidecar), V: u(f.V), R: u(f.R), S: u(f.S)}
	case SetCodeTxType:
		return &SetCodeTx{ChainID: u(f.ChainID), Nonce: f.Nonce, GasTipCap: u(f.Tip), GasFeeCap: u(f.Cap), Gas: f.Gas, To: *f.To, Value: u(f.Value), Data: f.Data, AccessList: f.AL,
			AuthList: f.Auths, V: u(f.V), R: u(f.R), S: u(f.S)}
	}
	panic("type")
}

type c02Axis struct {
	name string
	n    int
	set  func(f *c02Fields, i int)
}

func c02Axes(typ byte) []c02Axis {
	bigs := []*big.Int{big.NewInt(1), big.NewInt(0), c02P64, c02Max256}
	u64s := []uint64{1, 0, 1<<64 - 1}
	datas := [][]byte{{}, {0x00}, {0x80}, bytes.Repeat([]byte{'x'}, 56)}
	als := []AccessList{nil, {{Address: c02Addr, StorageKeys: []common.Hash{}}}, {{Address: c02Addr2, StorageKeys: []common.Hash{{0x01}, {0x00, 0xff}}}}}
	typed := typ != LegacyTxType
	type sig struct{ v, r, s *big.Int }
	half := new(big.Int).Rsh(c02N, 1)
	sigs := []sig{{big.NewInt(27), big.NewInt(1), half}, {big.NewInt(38), new(big.Int).Sub(c02N, big.NewInt(1)), big.NewInt(1)},
		{big.NewInt(0), big.NewInt(0), big.NewInt(0)}, {c02P64, c02Max256, c02Max256}}
	if typed {
		sigs = []sig{{big.NewInt(1), big.NewInt(1), half}, {big.NewInt(0), new(big.Int).Sub(c02N, big.NewInt(1)), big.NewInt(1)},
			{big.NewInt(0), big.NewInt(0), big.NewInt(0)}, {c02P64, c02Max256, c02Max256}}
	}
	ax := []c02Axis{
		{"nonce", 3, func(f *c02Fields, i int) { f.Nonce = u64s[i] }},
		{"gas", 3, func(f *c02Fields, i int) { f.Gas = []uint64{21000, 0, 1<<64 - 1}[i] }},
		{"value", 4, func(f *c02Fields, i int) { f.Value = bigs[i] }},
		{"data", 4, func(f *c02Fields, i int) { f.Data = datas[i] }},
		{"sig", 4, func(f *c02Fields, i int) { f.V, f.R, f.S = sigs[i].v, sigs[i].r, sigs[i].s }},
	}
	if typ == LegacyTxType || typ == AccessListTxType {
		ax = append(ax, c02Axis{"gasPrice", 4, func(f *c02Fields, i int) { f.GasPrice = bigs[i] }})
	} else {
		ax = append(ax, c02Axis{"tip", 4, func(f *c02Fields, i int) { f.Tip = bigs[i] }}, c02Axis{"cap", 4, func(f *c02Fields, i int) { f.Cap = bigs[i] }})
	}
	if typ == BlobTxType || typ == SetCodeTxType {
		ax = append(ax, c02Axis{"to", 2, func(f *c02Fields, i int) { f.To = []*common.Address{&c02Addr, {}}[i] }})
	} else {
		ax = append(ax, c02Axis{"to", 2, func(f *c02Fields, i int) { f.To = []*common.Address{&c02Addr, nil}[i] }})
	}
	if typed {
		ax = append(ax,
			c02Axis{"chainID", 3, func(f *c02Fields, i int) { f.ChainID = []*big.Int{big.NewInt(1), big.NewInt(0), c02P64}[i] }},
			c02Axis{"accessList", 3, func(f *c02Fields, i int) { f.AL = als[i] }})
	}
	if typ == BlobTxType {
		ax = append(ax,
			c02Axis{"blobFeeCap", 4, func(f *c02Fields, i int) { f.BlobCap = bigs[i] }},
			c02Axis{"blobHashes", 3, func(f *c02Fields, i int) {
				f.BlobHashes = [][]common.Hash{{{0x01, 0xaa}}, {{0x01}, {0x00, 0x01}}, {}}[i]
			}},
			c02Axis{"sidecar", 3, func(f *c02Fields, i int) { f.Sidecar = i }})
	}
	if typ == SetCodeTxType {
		a1 := SetCodeAuthorization{ChainID: *uint256.NewInt(1), Address: c02Addr, Nonce: 7, V: 1, R: *uint256.NewInt(5), S: *uint256.MustFromBig(half)}
		a2 := SetCodeAuthorization{ChainID: *uint256.NewInt(0), Address: c02Addr2, Nonce: 1<<64 - 1, V: 255, R: *uint256.MustFromBig(c02Max256), S: *uint256.NewInt(0)}
		ax = append(ax, c02Axis{"authList", 3, func(f *c02Fields, i int) {
			f.Auths = [][]SetCodeAuthorization{{a1}, {a1, a2}, {}}[i]
		}})
	}
	return ax
}

// c02Points returns the index vectors of the grid of one type: the FULL Cartesian product of the axes when it has
// at most maxFull points, otherwise a pairwise-complete set: for two base points (all axes at value 0 / at value 1)
// every pair of axes takes every pair of values while the other axes stay at the base.
func c02Points(ax []c02Axis, maxFull int) (vecs [][]int, full bool) {
	n := 1
	for _, a := range ax {
		n *= a.n
	}
	if n <= maxFull {
		for idx := 0; idx < n; idx++ {
			v, x := make([]int, len(ax)), idx
			for i, a := range ax {
				v[i] = x % a.n
				x /= a.n
			}
			vecs = append(vecs, v)
		}
		return vecs, true
	}
	seen := map[string]bool{}
	for base := 0; base <= 1; base++ {
		for a := range ax {
			for b := a + 1; b < len(ax); b++ {
				for i := 0; i < ax[a].n; i++ {
					for j := 0; j < ax[b].n; j++ {
						v := make([]int, len(ax))
						for k := range v {
							v[k] = base
						}
						v[a], v[b] = i, j
						if k := fmt.Sprint(v); !seen[k] {
							seen[k] = true
							vecs = append(vecs, v)
						}
					}
				}
			}
		}
	}
	return vecs, false
}

func c02FromVec(typ byte, ax []c02Axis, vec []int) c02Fields {
	f := c02Fields{Typ: typ}
	for i, a := range ax {
		a.set(&f, vec[i])
	}
	return f
}

func c02GridAt(typ byte, ax []c02Axis, idx int) c02Fields { // only used with idx 0 = base point
	return c02FromVec(typ, ax, make([]int, len(ax)))
}

// c02OFAT: one-factor-at-a-time subset (base point = all axes at index 0, then each axis varied alone): every
// field value occurs; these envelopes get the full single-edit mutation treatment.
func c02OFAT(typ byte, ax []c02Axis, baseIdx int) []c02Fields {
	base := func() c02Fields {
		v := make([]int, len(ax))
		for k := range v {
			v[k] = baseIdx
		}
		return c02FromVec(typ, ax, v)
	}
	out := []c02Fields{base()}
	for _, a := range ax {
		for i := 0; i < a.n; i++ {
			if i != baseIdx {
				f := base()
				a.set(&f, i)
				out = append(out, f)
			}
		}
	}
	return out
}

// ---------------------------------------------------------------------------------------------
// Oracles.

type c02Stats struct {
	out map[string]int64
	r   *mc.R
}

func (s *c02Stats) add(k string) { s.out[k]++ }
func (s *c02Stats) flush(r *mc.R) {
	keys := make([]string, 0, len(s.out))
	for k := range s.out {
		keys = append(keys, k)
	}
	sort.Strings(keys)
	for _, k := range keys {
		r.OutcomeN(k, s.out[k])
	}
}

// c02SizeErr marks a failure of the size bookkeeping around a *degenerate* sidecar wrapper (see c02SplitSidecar): recomputed
// Size() of a transaction that carries such a sidecar, Size() after WithoutBlobTxSidecar. Any size mismatch on a
// non-degenerate envelope is an ordinary violation. It is reported under its own violation key (marker
// "blob-size-accounting", part "sidecar-size") so that it can be told apart from canonicity / hash failures.
type c02SizeErr struct{ msg string }

func (e *c02SizeErr) Error() string { return e.msg }

// c02Run runs one case. A pure size-accounting failure on a degenerate sidecar wrapper is a known deviation that would
// otherwise be reported once per accepted envelope with an empty sidecar (thousands of times, crowding out anything
// else): here it is only counted (outcome "finding:blob-size-accounting..."); it is filed as a violation by the
// dedicated cases of part "sidecar-size" in TestVerif_C02.
func c02Run(r *mc.R, c any, fn func() error) {
	r.Case(c, func() error {
		err := fn()
		var se *c02SizeErr
		if errors.As(err, &se) {
			r.Outcome("finding:blob-size-accounting(degenerate-sidecar-wrapper)")
			return nil
		}
		return err
	})
}

// c02CheckAccepted: the implication of the property for one accepted transaction `tx` decoded from envelope env.
// Size-accounting failures are collected and returned only if everything else holds.
func c02CheckAccepted(tx *Transaction, env []byte) error {
	var sizeErr error
	noteSize := func(format string, a ...any) {
		if sizeErr == nil {
			sizeErr = &c02SizeErr{fmt.Sprintf(format, a...)}
		}
	}
	out, err := tx.MarshalBinary()
	if err != nil || !bytes.Equal(out, env) {
		return fmt.Errorf("accepted envelope %s re-marshals to %s (err=%v)", c02Short(env), c02Short(out), err)
	}
	sans, hasSidecar, degenerate := c02SplitSidecar(env)
	want := c02Keccak(sans)
	if h := tx.Hash(); h != want {
		return fmt.Errorf("Hash()=%x, keccak of the (sidecar-free) envelope %s = %x", h, c02Short(sans), want)
	}
	if sz := tx.Size(); sz != uint64(len(env)) {
		if !degenerate {
			return fmt.Errorf("Size()=%d, envelope length %d (%s)", sz, len(env), c02Short(env))
		}
		noteSize("Size()=%d, envelope length %d (degenerate sidecar wrapper) %s", sz, len(env), c02Short(env))
	}
	if (tx.BlobTxSidecar() != nil) != hasSidecar {
		return fmt.Errorf("sidecar presence: decoded %v, envelope shape %v (%s)", tx.BlobTxSidecar() != nil, hasSidecar, c02Short(env))
	}
	// an uncached recomputation (fresh object built from the decoded fields) must agree as well
	fresh := NewTx(tx.inner)
	if h := fresh.Hash(); h != want {
		return fmt.Errorf("NewTx(decoded).Hash()=%x, want %x (%s)", h, want, c02Short(env))
	}
	if sz := fresh.Size(); sz != uint64(len(env)) {
		if !degenerate {
			return fmt.Errorf("NewTx(decoded).Size()=%d (recomputed), envelope length %d (%s)", sz, len(env), c02Short(env))
		}
		noteSize("NewTx(decoded).Size()=%d (recomputed, degenerate sidecar wrapper), envelope length %d (%s)", sz, len(env), c02Short(env))
	}
	if tx.Type() == BlobTxType {
		// hash and size of the sidecar-free view == those of the transaction decoded from the sidecar-free bytes
		for k, w := range []*Transaction{tx.WithoutBlobTxSidecar(), fresh.WithoutBlobTxSidecar()} {
			name := []string{"decoded", "fresh"}[k]
			if w.BlobTxSidecar() != nil {
				return fmt.Errorf("WithoutBlobTxSidecar (%s) still has a sidecar", name)
			}
			if h := w.Hash(); h != want {
				return fmt.Errorf("WithoutBlobTxSidecar(%s).Hash()=%x, want %x", name, h, want)
			}
			if sz := w.Size(); sz != uint64(len(sans)) {
				if !degenerate {
					return fmt.Errorf("WithoutBlobTxSidecar(%s).Size()=%d, sidecar-free envelope length %d (with sidecar %d) %s", name, sz, len(sans), len(env), c02Short(env))
				}
				noteSize("WithoutBlobTxSidecar(%s).Size()=%d, sidecar-free envelope length %d (with degenerate sidecar wrapper %d) %s", name, sz, len(sans), len(env), c02Short(env))
			}
			if b, err := w.MarshalBinary(); err != nil || !bytes.Equal(b, sans) {
				return fmt.Errorf("WithoutBlobTxSidecar(%s).MarshalBinary()=%s, want %s", name, c02Short(b), c02Short(sans))
			}
		}
		var plain Transaction
		if err := plain.UnmarshalBinary(sans); err != nil {
			return fmt.Errorf("sidecar-free form %s of an accepted envelope is rejected: %v", c02Short(sans), err)
		}
		if plain.Hash() != want || plain.Size() != uint64(len(sans)) {
			return fmt.Errorf("sidecar-free form: hash %x size %d, want %x %d", plain.Hash(), plain.Size(), want, len(sans))
		}
	}
	return sizeErr
}

func c02Short(b []byte) string {
	if len(b) > 600 {
		return fmt.Sprintf("%x…(%d bytes)…%x", b[:300], len(b), b[len(b)-120:])
	}
	return hex.EncodeToString(b)
}

// c02Binary: UnmarshalBinary path.
func c02Binary(st *c02Stats, env []byte, tag string) error {
	var tx Transaction
	if err := tx.UnmarshalBinary(env); err != nil {
		st.add(tag + ":binary:reject")
		return nil
	}
	st.add(tag + ":binary:accept")
	st.r.DistinctHash(mc.Hash64(string(env)))
	return c02CheckAccepted(&tx, env)
}

// c02List: rlp list path. `enc` is taken as the encoding of a list of transactions.
func c02List(st *c02Stats, enc []byte, tag string) error {
	var txs []*Transaction
	if err := rlp.DecodeBytes(enc, &txs); err != nil {
		st.add(tag + ":list:reject")
		return nil
	}
	st.add(tag + ":list:accept")
	re, err := rlp.EncodeToBytes(txs)
	if err != nil || !bytes.Equal(re, enc) {
		return fmt.Errorf("accepted tx list %s re-encodes to %s (err=%v)", c02Short(enc), c02Short(re), err)
	}
	// Each element: locate its bytes in the input with the reference header parser.
	_, hdr, n, ok := c02Head(enc)
	if !ok {
		return fmt.Errorf("accepted tx list %s has a non-canonical list header", c02Short(enc))
	}
	body := enc[hdr : hdr+n]
	var sizeErr error
	for i, tx := range txs {
		l, h, m, ok := c02Head(body)
		if !ok {
			return fmt.Errorf("accepted tx list %s: element %d has non-canonical size information", c02Short(enc), i)
		}
		env := body[:h+m] // legacy: the list itself
		if !l {
			env = body[h : h+m] // typed: content of the string
		}
		st.r.DistinctHash(mc.Hash64(string(env)))
		if err := c02CheckAccepted(tx, env); err != nil {
			var se *c02SizeErr
			if !errors.As(err, &se) {
				return fmt.Errorf("list element %d: %w", i, err)
			}
			if sizeErr == nil {
				sizeErr = fmt.Errorf("list element %d: %w", i, err)
			}
		}
		body = body[h+m:]
	}
	if len(body) != 0 {
		return fmt.Errorf("accepted tx list %s: %d elements decoded but bytes left over", c02Short(enc), len(txs))
	}
	return sizeErr
}

func c02AsListElem(env []byte) []byte {
	if len(env) > 0 && env[0] >= 0xc0 {
		return c02Enc([]any{c02Raw(env)})
	}
	return c02Enc([]any{env})
}

// c02Valid: checks on a grid envelope (must be accepted; fields must come back; constructed tx must encode to it).
func c02Valid(st *c02Stats, f c02Fields, withJSON bool) error {
	env := c02RefEnvelope(f)
	var tx Transaction
	if err := tx.UnmarshalBinary(env); err != nil {
		return fmt.Errorf("reference envelope of {%v} = %s rejected: %v", f, c02Short(env), err)
	}
	st.add(fmt.Sprintf("type%d:grid:accept", f.Typ))
	var sizeErr error
	keep := func(err error) error { // remembers a size-accounting failure, returns anything else
		var se *c02SizeErr
		if errors.As(err, &se) {
			if sizeErr == nil {
				sizeErr = err
			}
			return nil
		}
		return err
	}
	if err := keep(c02CheckAccepted(&tx, env)); err != nil {
		return err
	}
	// decoded fields
	v, r, s := tx.RawSignatureValues()
	bad := func(what string, got, want any) error {
		return fmt.Errorf("decoded %s = %v, want %v ({%v}, %s)", what, got, want, f, c02Short(env))
	}
	eqBig := func(a, b *big.Int) bool { return a != nil && b != nil && a.Cmp(b) == 0 }
	switch {
	case tx.Type() != f.Typ:
		return bad("type", tx.Type(), f.Typ)
	case tx.Nonce() != f.Nonce:
		return bad("nonce", tx.Nonce(), f.Nonce)
	case tx.Gas() != f.Gas:
		return bad("gas", tx.Gas(), f.Gas)
	case !eqBig(tx.Value(), f.Value):
		return bad("value", tx.Value(), f.Value)
	case !bytes.Equal(tx.Data(), f.Data):
		return bad("data", tx.Data(), f.Data)
	case (tx.To() == nil) != (f.To == nil) || (f.To != nil && *tx.To() != *f.To):
		return bad("to", tx.To(), f.To)
	case !eqBig(v, f.V) || !eqBig(r, f.R) || !eqBig(s, f.S):
		return bad("v,r,s", []*big.Int{v, r, s}, []*big.Int{f.V, f.R, f.S})
	}
	if f.Typ == LegacyTxType || f.Typ == AccessListTxType {
		if !eqBig(tx.GasPrice(), f.GasPrice) {
			return bad("gasPrice", tx.GasPrice(), f.GasPrice)
		}
	} else if !eqBig(tx.GasTipCap(), f.Tip) || !eqBig(tx.GasFeeCap(), f.Cap) {
		return bad("tip/cap", []*big.Int{tx.GasTipCap(), tx.GasFeeCap()}, []*big.Int{f.Tip, f.Cap})
	}
	if f.Typ != LegacyTxType {
		if !eqBig(tx.ChainId(), f.ChainID) {
			return bad("chainId", tx.ChainId(), f.ChainID)
		}
		if fmt.Sprint(c02ALItems(tx.AccessList())) != fmt.Sprint(c02ALItems(f.AL)) {
			return bad("accessList", tx.AccessList(), f.AL)
		}
	}
	if f.Typ == BlobTxType {
		if !eqBig(tx.BlobGasFeeCap(), f.BlobCap) || fmt.Sprint(tx.BlobHashes()) != fmt.Sprint(f.BlobHashes) {
			return bad("blobFeeCap/blobHashes", tx.BlobGasFeeCap(), f.BlobCap)
		}
		sc, want := tx.BlobTxSidecar(), c02Sidecar(f.Sidecar)
		if (sc == nil) != (want == nil) || (sc != nil && (sc.Version != want.Version || len(sc.Blobs) != len(want.Blobs) ||
			len(sc.Commitments) != len(want.Commitments) || len(sc.Proofs) != len(want.Proofs) ||
			fmt.Sprint(sc.Commitments, sc.Proofs) != fmt.Sprint(want.Commitments, want.Proofs) ||
			(len(sc.Blobs) > 0 && sc.Blobs[0] != want.Blobs[0]))) {
			return bad("sidecar", "(mismatch)", f.Sidecar)
		}
	}
	if f.Typ == SetCodeTxType && fmt.Sprint(tx.SetCodeAuthorizations()) != fmt.Sprint(f.Auths) {
		return bad("authList", tx.SetCodeAuthorizations(), f.Auths)
	}
	// constructed transaction (NewTx from the public struct) encodes to the reference envelope
	built := NewTx(c02Build(f))
	if b, err := built.MarshalBinary(); err != nil || !bytes.Equal(b, env) {
		return fmt.Errorf("NewTx({%v}).MarshalBinary()=%s, reference envelope %s (err=%v)", f, c02Short(b), c02Short(env), err)
	}
	if err := keep(c02CheckAccepted(built, env)); err != nil {
		return fmt.Errorf("NewTx({%v}): %w", f, err)
	}
	// as an element of an RLP list
	if err := keep(c02List(st, c02AsListElem(env), fmt.Sprintf("type%d:grid", f.Typ))); err != nil {
		return err
	}
	if withJSON {
		if err := c02JSON(st, &tx, f, env); err != nil {
			return err
		}
	}
	return sizeErr
}

// c02JSONValidSig mirrors the documented JSON restriction: signature values must be zero or plausible.
func c02JSONValidSig(f c02Fields) bool {
	if (f.Typ == BlobTxType && len(f.BlobHashes) == 0) || (f.Typ == SetCodeTxType && len(f.Auths) == 0) {
		return false // UnmarshalJSON requires at least one blob hash / a non-empty authorization list
	}
	if f.V.Sign() == 0 && f.R.Sign() == 0 && f.S.Sign() == 0 {
		return true
	}
	inRange := func(x *big.Int) bool { return x.Sign() > 0 && x.Cmp(c02N) < 0 }
	if !inRange(f.R) || !inRange(f.S) || !f.V.IsUint64() {
		return false
	}
	v := f.V.Uint64()
	if f.Typ == LegacyTxType {
		return v == 27 || v == 28 || v >= 35
	}
	return v <= 1
}

func c02JSON(st *c02Stats, tx *Transaction, f c02Fields, env []byte) error {
	if !c02JSONValidSig(f) {
		st.add(fmt.Sprintf("type%d:json:not-admissible", f.Typ))
		return nil
	}
	js, err := json.Marshal(tx)
	if err != nil {
		return fmt.Errorf("MarshalJSON({%v}): %v", f, err)
	}
	var back Transaction
	if err := json.Unmarshal(js, &back); err != nil {
		return fmt.Errorf("UnmarshalJSON(MarshalJSON({%v})) failed: %v; json=%s", f, err, c02Short(js))
	}
	sans, _ := c02SansSidecar(env)
	want := c02Keccak(sans)
	if back.Hash() != want {
		return fmt.Errorf("JSON round trip of {%v} changes the hash: %x, want %x; json=%s", f, back.Hash(), want, c02Short(js))
	}
	if b, err := back.MarshalBinary(); err != nil || !bytes.Equal(b, sans) {
		return fmt.Errorf("JSON round trip of {%v} gives envelope %s, want %s", f, c02Short(b), c02Short(sans))
	}
	if sz := back.Size(); sz != uint64(len(sans)) {
		return fmt.Errorf("JSON round trip of {%v}: Size()=%d, want %d", f, sz, len(sans))
	}
	// schema: the keys defined for the type by the JSON-RPC transaction object must be present
	var obj map[string]json.RawMessage
	if err := json.Unmarshal(js, &obj); err != nil {
		return err
	}
	need := []string{"type", "nonce", "to", "gas", "value", "input", "v", "r", "s", "hash"}
	switch f.Typ {
	case LegacyTxType:
		need = append(need, "gasPrice")
	case AccessListTxType:
		need = append(need, "gasPrice", "chainId", "accessList", "yParity")
	default:
		need = append(need, "maxFeePerGas", "maxPriorityFeePerGas", "chainId", "accessList", "yParity")
	}
	if f.Typ == BlobTxType {
		need = append(need, "maxFeePerBlobGas")
		if len(f.BlobHashes) > 0 {
			need = append(need, "blobVersionedHashes")
		}
	}
	if f.Typ == SetCodeTxType && len(f.Auths) > 0 {
		need = append(need, "authorizationList")
	}
	for _, k := range need {
		if _, ok := obj[k]; !ok {
			return fmt.Errorf("MarshalJSON({%v}) lacks key %q: %s", f, k, c02Short(js))
		}
	}
	if got := strings.Trim(string(obj["hash"]), `"`); got != want.Hex() {
		return fmt.Errorf("MarshalJSON({%v}) hash field %s, want %s", f, got, want.Hex())
	}
	if yp, ok := obj["yParity"]; ok && strings.Trim(string(yp), `"`) != "0x"+f.V.Text(16) {
		return fmt.Errorf("MarshalJSON({%v}) yParity %s, v=%v", f, yp, f.V)
	}
	st.add(fmt.Sprintf("type%d:json:roundtrip", f.Typ))
	return nil
}

// ---------------------------------------------------------------------------------------------
// Mutations.

var c02Alphabet = []byte{0x00, 0x01, 0x7f, 0x80, 0x81, 0xb7, 0xb8, 0xb9, 0xbf, 0xc0, 0xc1, 0xf7, 0xf8, 0xf9, 0xff}
var c02SmallAlphabet = []byte{0x00, 0x80, 0xc0, 0xff}

// c02Mutations: every single-edit mutation of enc at the given positions (nil = all): delete, truncate, +-1 (every
// length header +-1, type byte +-1), overwrite and insert with each alphabet byte, plus one appended byte.
func c02Mutations(enc []byte, positions []int, alpha []byte, appends bool, f func(kind string, pos int, m []byte)) {
	for _, i := range positions {
		f("delete", i, append(append([]byte{}, enc[:i]...), enc[i+1:]...))
		f("truncate", i, append([]byte{}, enc[:i]...))
		for _, d := range []byte{1, 0xff} {
			m := append([]byte{}, enc...)
			m[i] += d
			f("plusminus", i, m)
		}
		for _, a := range alpha {
			if a != enc[i] {
				m := append([]byte{}, enc...)
				m[i] = a
				f("overwrite", i, m)
			}
			f("insert", i, append(append(append([]byte{}, enc[:i]...), a), enc[i:]...))
		}
	}
	if appends {
		for _, a := range alpha {
			f("append", len(enc), append(append([]byte{}, enc...), a))
		}
	}
}

type c02Case struct {
	Part string `json:"part"`
	Typ  int    `json:"type"`
	Idx  int    `json:"idx"`            // grid index / OFAT index
	Path string `json:"path,omitempty"` // binary | list
	Kind string `json:"kind,omitempty"` // mutation kind
	Pos  int    `json:"pos,omitempty"`
	Byte int    `json:"byte,omitempty"` // mutation serial within (kind,pos)
}

func TestVerif_C02(t *testing.T) {
	mc.Run(t, "C02", func(r *mc.R) {
		r.Rule("per tx type (legacy, 2930, 1559, 4844, 7702): (grid) the FULL Cartesian product of the field-value axes where it has <=60000 (thorough: 200000) points (legacy, 2930; thorough also 1559), " +
			"otherwise (4844, 7702, quick: 1559) a pairwise-complete set (every pair of axes x every pair of values around two base points); each envelope built by a " +
			"reference encoder from the EIP definitions, decoded by UnmarshalBinary and as an RLP list element, compared field by field, re-marshalled, " +
			"hashed (x/crypto keccak over the sidecar-free bytes), sized, rebuilt with NewTx, JSON round-tripped when the signature values are admissible; " +
			"(mut) every single-edit mutation (delete / truncate / +-1 / overwrite+insert with 15 RLP tag bytes / append) of every byte of each " +
			"[list path: 15-byte alphabet on the first 8 bytes = all headers, 4-byte alphabet 00 80 c0 ff on the element body] " +
			"one-factor-at-a-time envelope (around the base point; thorough: around two base points), both as binary envelope and as encoding of a one-element transaction list; one-blob sidecar envelopes " +
			"(131 kB) are mutated at all bytes outside the blob body with a 4-byte alphabet; (fixed) hand-made non-canonical wrappers. " +
			"distinct = distinct accepted envelopes (by hash of bytes)")
		r.Assume("oracle for accepted inputs is the property's implication: MarshalBinary()==input, Hash()==keccak(input without sidecar), Size()==len(input); keccak from golang.org/x/crypto, RLP header parser and envelope builder written from the EIPs")
		r.Assume("JSON round trip only for transactions that UnmarshalJSON admits by design: signature values all-zero or v in {0,1} / {27,28,>=35} and 0<r,s<n; blob txs with >=1 blob hash; set-code txs with >=1 authorization")
		types := []byte{LegacyTxType, AccessListTxType, DynamicFeeTxType, BlobTxType, SetCodeTxType}

		// ---- grid
		type gshard struct {
			typ  byte
			ax   []c02Axis
			vecs [][]int
			lo   int
		}
		var gshards []gshard
		gridSizes := map[string]any{}
		for _, typ := range types {
			ax := c02Axes(typ)
			vecs, full := c02Points(ax, mc.Pick(r, 60000, 200000))
			gridSizes[fmt.Sprintf("type%d", typ)] = map[string]any{"points": len(vecs), "full_product": full}
			const chunk = 256
			for lo := 0; lo < len(vecs); lo += chunk {
				gshards = append(gshards, gshard{typ, ax, vecs[lo:min(len(vecs), lo+chunk)], lo})
			}
		}
		r.Bound("grid", gridSizes)
		sort.SliceStable(gshards, func(a, b int) bool { return gshards[a].lo < gshards[b].lo }) // interleave the types
		jsonEvery := mc.Pick(r, 5, 1) // JSON round trip on every k-th grid point (and on all one-factor envelopes)
		r.Bound("json_every_kth_grid_point", jsonEvery)
		r.Parallel(len(gshards), func(si int) {
			sh := gshards[si]
			st := &c02Stats{out: map[string]int64{}, r: r}
			defer st.flush(r)
			for k, vec := range sh.vecs {
				if k&63 == 0 && r.Expired() {
					return
				}
				idx := sh.lo + k
				f := c02FromVec(sh.typ, sh.ax, vec)
				c02Run(r, c02Case{Part: "grid", Typ: int(sh.typ), Idx: idx}, func() error {
					return c02Valid(st, f, idx%jsonEvery == 0)
				})
				if idx%4099 == 0 {
					r.Sample(map[string]any{"part": "grid", "type": sh.typ, "idx": idx, "fields": f.String(), "envelope": c02Short(c02RefEnvelope(f))})
				}
			}
		})

		// ---- mutations of the one-factor-at-a-time envelopes (+ one-blob sidecars)
		type mjob struct {
			typ  byte
			idx  int
			f    c02Fields
			path string
		}
		var jobs []mjob
		ofatCount := map[string]int{}
		for _, typ := range types {
			ax := c02Axes(typ)
			fs := c02OFAT(typ, ax, 0)
			if r.Thorough() {
				fs = append(fs, c02OFAT(typ, ax, 1)...) // second base point: every axis at its value #1
			}
			if typ == BlobTxType {
				for _, sc := range []int{3, 4} {
					f := c02GridAt(typ, ax, 0)
					f.Sidecar = sc
					fs = append(fs, f)
				}
			}
			ofatCount[fmt.Sprintf("type%d", typ)] = len(fs)
			for i, f := range fs {
				jobs = append(jobs, mjob{typ, i, f, "binary"}, mjob{typ, i, f, "list"})
			}
		}
		r.Bound("mutated_envelopes_per_type", ofatCount)
		r.Bound("mutation_alphabet", hex.EncodeToString(c02Alphabet))
		r.Parallel(len(jobs), func(ji int) {
			j := jobs[ji]
			st := &c02Stats{out: map[string]int64{}, r: r}
			defer st.flush(r)
			env := c02RefEnvelope(j.f)
			tag := fmt.Sprintf("type%d:mut", j.typ)
			if j.path == "binary" {
				c02Run(r, c02Case{Part: "ofat", Typ: int(j.typ), Idx: j.idx}, func() error { return c02Valid(st, j.f, true) })
			}
			enc := env
			if j.path == "list" {
				enc = c02AsListElem(env)
			}
			// Position classes: "head" = the first 8 bytes (list / string headers, type byte, payload header) and, for
			// one-blob sidecars, "body" = everything outside the 131 kB blob (plus its first/last two bytes).
			// binary path: every byte with the full alphabet (one-blob sidecars: small alphabet).
			// list path: head with the full alphabet, the remaining bytes with the small alphabet (the element body goes
			// through the same typed decoder as in the binary path).
			var head, rest []int
			blobStart, blobEnd := -1, -1
			if j.f.Sidecar >= 3 {
				blobStart = bytes.Index(enc, bytes.Repeat([]byte{0x42}, 64))
				blobEnd = blobStart + len(kzg4844.Blob{})
			}
			for i := 0; i < len(enc); i++ {
				switch {
				case i < 8:
					head = append(head, i)
				case blobStart < 0 || i < blobStart+2 || i >= blobEnd-2:
					rest = append(rest, i)
				}
			}
			restAlpha := c02Alphabet
			if j.path == "list" || j.f.Sidecar >= 3 {
				restAlpha = c02SmallAlphabet
			}
			serial, lastKey := 0, ""
			emit := func(kind string, pos int, m []byte) {
				if key := fmt.Sprint(kind, pos); key != lastKey {
					serial, lastKey = 0, key
				} else {
					serial++
				}
				if r.Expired() {
					return
				}
				c02Run(r, c02Case{Part: "mut", Typ: int(j.typ), Idx: j.idx, Path: j.path, Kind: kind, Pos: pos, Byte: serial}, func() error {
					if j.path == "binary" {
						return c02Binary(st, m, tag)
					}
					return c02List(st, m, tag)
				})
			}
			c02Mutations(enc, head, c02Alphabet, true, emit)
			c02Mutations(enc, rest, restAlpha, false, emit)
			if ji%23 == 0 {
				r.Sample(map[string]any{"part": "mut", "type": j.typ, "idx": j.idx, "path": j.path, "fields": j.f.String(), "base": c02Short(enc)})
			}
		})

		// ---- the size bookkeeping around degenerate sidecar wrappers (empty sidecar v0 / v1), filed under its own key
		for _, sc := range []int{1, 2} {
			r.Case(map[string]any{"part": "sidecar-size", "finding": "blob-size-accounting", "sidecar": sc}, func() error {
				ax := c02Axes(BlobTxType)
				f := c02FromVec(BlobTxType, ax, make([]int, len(ax)))
				f.Sidecar = sc
				env := c02RefEnvelope(f)
				var tx Transaction
				if err := tx.UnmarshalBinary(env); err != nil {
					return fmt.Errorf("reference envelope %s rejected: %v", c02Short(env), err)
				}
				return c02CheckAccepted(&tx, env)
			})
		}

		// ---- fixed non-canonical wrappers around a valid envelope of each type
		st := &c02Stats{out: map[string]int64{}, r: r}
		for _, typ := range types {
			f := c02GridAt(typ, c02Axes(typ), 0)
			env := c02RefEnvelope(f)
			wrappers := map[string][]byte{}
			if typ == LegacyTxType {
				wrappers["binary:legacy-list-wrapped-as-string"] = c02Enc(env)
				wrappers["list:legacy-list-wrapped-as-string"] = c02Enc([]any{env})
				wrappers["binary:legacy-with-type-byte-0"] = append([]byte{0}, env...)
			} else {
				wrappers["binary:typed-wrapped-as-string"] = c02Enc(env)
				wrappers["list:typed-as-bare-bytes"] = append(c02EncHead(0xc0, len(env)), env...)
				long := append([]byte{0xb9, byte(len(env) >> 8), byte(len(env))}, env...) // 2-byte length, non-minimal for <256
				wrappers["list:typed-string-nonminimal-length"] = append(c02EncHead(0xc0, len(long)), long...)
				wrappers["list:typed-double-wrapped"] = c02Enc([]any{c02Enc(env)})
				wrappers["binary:typed-payload-as-string"] = append([]byte{typ}, c02Enc(env[1:])...)
			}
			names := make([]string, 0, len(wrappers))
			for k := range wrappers {
				names = append(names, k)
			}
			sort.Strings(names)
			for _, name := range names {
				w := wrappers[name]
				r.Case(map[string]any{"part": "fixed", "type": typ, "wrapper": name}, func() error {
					var tx Transaction
					var err error
					if strings.HasPrefix(name, "binary:") {
						err = tx.UnmarshalBinary(w)
					} else {
						var txs []*Transaction
						err = rlp.DecodeBytes(w, &txs)
					}
					if err == nil {
						return fmt.Errorf("non-canonical wrapper %q accepted: %s", name, c02Short(w))
					}
					st.add("fixed:rejected")
					return nil
				})
			}
		}
		st.flush(r)
	})
}
