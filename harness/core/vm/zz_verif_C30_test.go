//go:build verif

package vm

import (
	"bytes"
	"fmt"
	"testing"

	"github.com/ethereum/go-ethereum/common"
	"github.com/ethereum/go-ethereum/crypto"
	"github.com/ethereum/go-ethereum/internal/verif/mc"
	"github.com/holiman/uint256"
)

// c30Ref is the definition of a valid jump destination written from the Yellow
// Paper (function D_J / N): scan from 0; over PUSHn (0x60..0x7f) advance by
// 1+n, otherwise by 1; a scanned position holding 0x5b is a valid destination.
func c30Ref(code []byte) []bool {
	valid := make([]bool, len(code))
	for i := 0; i < len(code); {
		b := code[i]
		if b == 0x5b {
			valid[i] = true
		}
		if b >= 0x60 && b <= 0x7f {
			i += int(b) - 0x5f
		}
		i++
	}
	return valid
}

// c30Cache is a JumpDestCache like the one an EVM hands to all its contracts,
// with counters to prove that the Load path (cached analysis) was really taken.
type c30Cache struct {
	m             mapJumpDests
	hits, misses  int
	stores        int
	lastStoreHash common.Hash
}

func (c *c30Cache) Load(h common.Hash) (BitVec, bool) {
	v, ok := c.m.Load(h)
	if ok {
		c.hits++
	} else {
		c.misses++
	}
	return v, ok
}

func (c *c30Cache) Store(h common.Hash, v BitVec) {
	c.stores++
	c.lastStoreHash = h
	c.m.Store(h, v)
}

type c30Checker struct {
	cache *c30Cache
	pos   uint256.Int
	// ring of previously analysed codes (still in the cache) that are re-queried
	// after other codes were stored: key separation / stale entries
	ring    [8][]byte
	ringN   int
	nValid  int64
	nQuery  int64
	nCached int64
}

func newC30Checker() *c30Checker {
	return &c30Checker{cache: &c30Cache{m: mapJumpDests{}}}
}

var c30Addr = common.BytesToAddress([]byte("c30"))

// queryAll asks validJumpdest for every position 0..len+1 and a set of huge
// positions and compares with the reference.
func (k *c30Checker) queryAll(c *Contract, code []byte, ref []bool, mode string) error {
	n := len(code)
	first, last := -1, -1
	for p := 0; p <= n+1; p++ {
		want := p < n && ref[p]
		if want {
			if first < 0 {
				first = p
			}
			last = p
		}
		k.pos.SetUint64(uint64(p))
		got := c.validJumpdest(&k.pos)
		k.nQuery++
		if got != want {
			return fmt.Errorf("%s: validJumpdest(%d)=%v, definition says %v (code %x)", mode, p, got, want, code)
		}
	}
	// positions that must be rejected whatever the code: >= len, >= 2^63, > uint64 (also when the low 64 bits are a valid destination)
	lows := []uint64{0, uint64(n), uint64(n + 7), uint64(n + 8), uint64(n + 64)}
	if first >= 0 {
		lows = append(lows, uint64(first), uint64(last))
	}
	for _, lo := range lows {
		for _, hi := range [][4]uint64{{0, 1, 0, 0}, {0, 0, 1, 0}, {0, 0, 0, 1}, {0, 0, 0, 1 << 63}, {0, ^uint64(0), ^uint64(0), ^uint64(0)}} {
			k.pos = uint256.Int{lo, hi[1], hi[2], hi[3]}
			k.nQuery++
			if c.validJumpdest(&k.pos) {
				return fmt.Errorf("%s: validJumpdest(%s) accepted a destination beyond 64 bits (code %x)", mode, k.pos.Hex(), code)
			}
		}
	}
	for _, big := range []uint64{1 << 32, 1 << 62, 1 << 63, 1<<63 + 1, ^uint64(0), ^uint64(0) - 1} {
		for _, lo := range lows {
			v := big + lo // may wrap, still a uint64 position
			if v < uint64(n) {
				continue
			}
			k.pos.SetUint64(v)
			k.nQuery++
			if c.validJumpdest(&k.pos) {
				return fmt.Errorf("%s: validJumpdest(%d) accepted a destination outside the code (len %d, code %x)", mode, v, n, code)
			}
		}
	}
	return nil
}

// check runs the complete oracle on one bytecode.
func (k *c30Checker) check(code []byte) error {
	ref := c30Ref(code)
	hasJD := false
	for _, v := range code {
		if v == 0x5b {
			hasJD = true
		}
	}
	for _, v := range ref {
		if v {
			k.nValid++
		}
	}
	// (1) temporary code (initcode): no hash, analysis kept in the contract only,
	// although the contract shares the EVM-wide cache.
	s0, l0 := k.cache.stores, k.cache.hits+k.cache.misses
	c1 := NewContract(c30Addr, c30Addr, nil, GasBudget{}, k.cache)
	c1.SetCallCode(common.Hash{}, code)
	if err := k.queryAll(c1, code, ref, "nohash"); err != nil {
		return err
	}
	if k.cache.stores != s0 || k.cache.hits+k.cache.misses != l0 {
		return fmt.Errorf("analysis of hash-less code touched the shared cache (stores %d loads %d)", k.cache.stores-s0, k.cache.hits+k.cache.misses-l0)
	}
	// the raw bit vector: set bit <=> immediate data of a PUSH, for positions
	// holding a JUMPDEST byte (the positions the statement speaks about)
	fresh := codeBitmap(code)
	for p := range code {
		if code[p] == 0x5b && fresh.codeSegment(uint64(p)) != ref[p] {
			return fmt.Errorf("codeBitmap: position %d code-segment=%v, definition says %v (code %x)", p, fresh.codeSegment(uint64(p)), ref[p], code)
		}
	}
	// (2) deployed code: analysis stored under the code hash
	h := crypto.Keccak256Hash(code)
	c2 := NewContract(c30Addr, c30Addr, nil, GasBudget{}, k.cache)
	c2.SetCallCode(h, code)
	if err := k.queryAll(c2, code, ref, "hash/fresh"); err != nil {
		return err
	}
	if hasJD {
		if k.cache.stores != s0+1 || k.cache.lastStoreHash != h {
			return fmt.Errorf("expected exactly one Store under the code hash, got %d (hash %x)", k.cache.stores-s0, k.cache.lastStoreHash)
		}
	}
	// (3) a second contract with the same hash must be served from the cache and
	// give the same answers as the fresh analysis
	if hasJD {
		h0 := k.cache.hits
		c3 := NewContract(c30Addr, c30Addr, nil, GasBudget{}, k.cache)
		c3.SetCallCode(h, code)
		if err := k.queryAll(c3, code, ref, "hash/cached"); err != nil {
			return err
		}
		if k.cache.hits != h0+1 || k.cache.stores != s0+1 {
			return fmt.Errorf("second contract was not served from the cache (hits +%d stores +%d)", k.cache.hits-h0, k.cache.stores-s0-1)
		}
		got, ok := k.cache.m.Load(h)
		if !ok || !bytes.Equal(got, fresh) {
			return fmt.Errorf("cached analysis %x differs from fresh analysis %x (code %x)", []byte(got), []byte(fresh), code)
		}
		k.nCached++
		// (4) an older code, analysed before other codes were stored, re-queried now
		if old := k.ring[k.ringN%len(k.ring)]; old != nil {
			oh := crypto.Keccak256Hash(old)
			h1 := k.cache.hits
			c4 := NewContract(c30Addr, c30Addr, nil, GasBudget{}, k.cache)
			c4.SetCallCode(oh, old)
			if err := k.queryAll(c4, old, c30Ref(old), "hash/cached-after-others"); err != nil {
				return err
			}
			if k.cache.hits != h1+1 {
				return fmt.Errorf("older code %x no longer served from the cache", old)
			}
		}
		k.ring[k.ringN%len(k.ring)] = append([]byte{}, code...)
		k.ringN++
		if len(k.cache.m) > 1<<14 { // bound memory: keep the ring entries only
			k.cache.m = mapJumpDests{}
			k.ring = [8][]byte{}
		}
	}
	return nil
}

type c30Case struct {
	Family string `json:"family"`
	Code   string `json:"code"`
}

// c30Run evaluates one code on the shard's checker (whose cache carries the codes
// analysed before it, like an EVM's cache); failures are reported through r.Case
// so that they carry the code as key. In replay mode the whole shard is
// re-executed (the cache state matters) and only the matching case is reported.
func c30Run(r *mc.R, k *c30Checker, fam string, code []byte, evals *int64) {
	err := mc.Safely(func() error { return k.check(code) })
	if err == nil && !r.Replaying() {
		*evals++
		return
	}
	r.Case(c30Case{fam, fmt.Sprintf("%x", code)}, func() error { return err })
}

// c30Items returns the item alphabet: JUMPDEST, STOP and PUSHn with n data bytes 0x5b.
func c30Items(pushes []int) [][]byte {
	items := [][]byte{{0x5b}, {0x00}}
	for _, n := range pushes {
		it := []byte{byte(0x5f + n)}
		for i := 0; i < n; i++ {
			it = append(it, 0x5b)
		}
		items = append(items, it)
	}
	return items
}

// c30EnumItems calls fn for every code made of prefix followed by exactly `more`
// further items, truncated at every length that cuts into the last item (so each
// distinct byte string is produced once).
func c30EnumItems(items [][]byte, buf []byte, lastLen int, more int, fn func(code []byte)) {
	if more == 0 {
		if lastLen == 0 {
			fn(buf)
			return
		}
		for cut := len(buf) - lastLen + 1; cut <= len(buf); cut++ {
			fn(buf[:cut])
		}
		return
	}
	for _, it := range items {
		c30EnumItems(items, append(buf, it...), len(it), more-1, fn)
	}
}

func TestVerif_C30(t *testing.T) {
	mc.Run(t, "C30", func(r *mc.R) {
		kA := mc.Pick(r, 4, 5)   // items, 15-item alphabet
		kB := mc.Pick(r, 3, 4)   // items, 34-item alphabet (every PUSH1..PUSH32)
		lenC := mc.Pick(r, 5, 6) // bytes over the 12 boundary byte values
		lenD := mc.Pick(r, 2, 3) // bytes over all 256 values
		maxOff := mc.Pick(r, 40, 72)
		r.Rule("families of bytecodes, each code evaluated at EVERY position 0..len+1 plus huge positions (>=2^32, >=2^63, >uint64 with valid low bits): " +
			"A: all sequences of <=kA items from {JUMPDEST,STOP,PUSHn n in 1,2,7,8,9,15,16,17,23,24,25,31,32 with data 0x5b..} truncated at every length; " +
			"B: same with every PUSH1..PUSH32, <=kB items; C: all byte strings <=lenC over {00,5b,5f,60,61,62,67,68,6f,70,7f,80}; " +
			"D: all byte strings <=lenD over all 256 byte values; E: k JUMPDESTs (k=0..maxOff) + PUSHn (every n) + m data bytes (every truncation, up to n+9 bytes of 0x5b); " +
			"F: k JUMPDESTs (k=0..16) + PUSHn1 + g JUMPDEST (g=0..2) + PUSHn2 + every truncation. " +
			"Each code is analysed hash-less (initcode path), under its hash (Store), by a second contract (Load) and re-queried after other codes were stored. distinct = distinct byte strings")
		r.Bound("A.max_items", kA)
		r.Bound("B.max_items", kB)
		r.Bound("C.max_len", lenC)
		r.Bound("D.max_len", lenD)
		r.Bound("E.max_offset", maxOff)
		r.Assume("reference = 10-line Yellow Paper scan (c30Ref); immediate bytes are 0x5b so every data position is a would-be JUMPDEST")

		type task func(k *c30Checker, evals *int64)
		var tasks []task
		emit := func(fam string) func(k *c30Checker, evals *int64) func(code []byte) {
			return func(k *c30Checker, evals *int64) func(code []byte) {
				n := 0
				return func(code []byte) {
					c30Run(r, k, fam, code, evals)
					r.DistinctHash(mc.Hash64(string(code)))
					n++
					if n%50021 == 1 {
						r.Sample(c30Case{fam, fmt.Sprintf("%x", code)})
					}
				}
			}
		}
		// A and B: shard by the first item
		for _, fam := range []struct {
			name   string
			pushes []int
			k      int
		}{
			{"A", []int{1, 2, 7, 8, 9, 15, 16, 17, 23, 24, 25, 31, 32}, kA},
			{"B", func() []int {
				var a []int
				for n := 1; n <= 32; n++ {
					a = append(a, n)
				}
				return a
			}(), kB},
		} {
			items := c30Items(fam.pushes)
			fam := fam
			tasks = append(tasks, func(k *c30Checker, evals *int64) { emit(fam.name)(k, evals)([]byte{}) })
			for _, first := range items {
				first := first
				for second := -1; second < len(items); second++ {
					second := second
					tasks = append(tasks, func(k *c30Checker, evals *int64) {
						fn := emit(fam.name)(k, evals)
						buf := make([]byte, 0, 256)
						buf = append(buf, first...)
						if second < 0 {
							c30EnumItems(items, buf, len(first), 0, fn)
							return
						}
						buf = append(buf, items[second]...)
						for more := 0; more <= fam.k-2; more++ {
							if r.Expired() {
								return
							}
							c30EnumItems(items, buf, len(items[second]), more, fn)
						}
					})
				}
			}
		}
		// C: strings over the boundary alphabet, sharded by first byte; D: all bytes, sharded by first byte
		alphaC := []byte{0x00, 0x5b, 0x5f, 0x60, 0x61, 0x62, 0x67, 0x68, 0x6f, 0x70, 0x7f, 0x80}
		var all256 []byte
		for b := 0; b < 256; b++ {
			all256 = append(all256, byte(b))
		}
		var enumStr func(alpha []byte, buf []byte, more int, fn func([]byte))
		enumStr = func(alpha []byte, buf []byte, more int, fn func([]byte)) {
			fn(buf)
			if more == 0 {
				return
			}
			for _, b := range alpha {
				enumStr(alpha, append(buf, b), more-1, fn)
			}
		}
		for _, fam := range []struct {
			name  string
			alpha []byte
			l     int
		}{{"C", alphaC, lenC}, {"D", all256, lenD}} {
			fam := fam
			for _, b := range fam.alpha {
				b := b
				tasks = append(tasks, func(k *c30Checker, evals *int64) {
					buf := make([]byte, 0, 16)
					enumStr(fam.alpha, append(buf, b), fam.l-1, emit(fam.name)(k, evals))
				})
			}
		}
		// E: one push at every offset, every truncation
		for off := 0; off <= maxOff; off++ {
			off := off
			tasks = append(tasks, func(k *c30Checker, evals *int64) {
				fn := emit("E")(k, evals)
				for n := 1; n <= 32; n++ {
					buf := bytes.Repeat([]byte{0x5b}, off)
					buf = append(buf, byte(0x5f+n))
					for m := 0; m <= n+9; m++ {
						fn(buf)
						buf = append(buf, 0x5b)
					}
				}
			})
		}
		// F: two pushes with small gaps
		for off := 0; off <= 16; off++ {
			off := off
			tasks = append(tasks, func(k *c30Checker, evals *int64) {
				fn := emit("F")(k, evals)
				for n1 := 1; n1 <= 32; n1++ {
					for g := 0; g <= 2; g++ {
						for n2 := 1; n2 <= 32; n2++ {
							buf := bytes.Repeat([]byte{0x5b}, off)
							buf = append(buf, byte(0x5f+n1))
							buf = append(buf, bytes.Repeat([]byte{0x5b}, n1+g)...)
							buf = append(buf, byte(0x5f+n2))
							for m := 0; m <= n2+2; m++ {
								fn(buf)
								buf = append(buf, 0x5b)
							}
						}
					}
				}
			})
		}
		var tot struct{ valid, query, cached int64 }
		totMu := make(chan struct{}, 1)
		totMu <- struct{}{}
		done := r.Parallel(len(tasks), func(i int) {
			k := newC30Checker()
			var evals int64
			tasks[i](k, &evals)
			r.Eval(evals)
			<-totMu
			tot.valid += k.nValid
			tot.query += k.nQuery
			tot.cached += k.nCached
			totMu <- struct{}{}
		})
		r.Bound("tasks_done", fmt.Sprintf("%d/%d", done, len(tasks)))
		r.OutcomeN("positions_queried", tot.query)
		r.OutcomeN("valid_destinations", tot.valid)
		r.OutcomeN("codes_served_from_cache", tot.cached)
	})
}
