//go:build verif

package runtime

import (
	"encoding/json"
	"errors"
	"fmt"
	"math/big"
	"os"
	"sort"
	"strings"
	"testing"

	"github.com/ethereum/go-ethereum/common"
	"github.com/ethereum/go-ethereum/core"
	"github.com/ethereum/go-ethereum/core/state"
	"github.com/ethereum/go-ethereum/core/tracing"
	"github.com/ethereum/go-ethereum/core/types"
	"github.com/ethereum/go-ethereum/core/vm"
	"github.com/ethereum/go-ethereum/crypto"
	"github.com/ethereum/go-ethereum/internal/verif/mc"
	"github.com/ethereum/go-ethereum/internal/verif/progx"
	"github.com/ethereum/go-ethereum/params"
	"github.com/holiman/uint256"
)

// ---------------------------------------------------------------------------
// Program space: callee = sequence of effectful units + terminator; caller =
// own effects + wrapper instruction + epilogue.

var (
	c29AddrD  = common.HexToAddress("0x000000000000000000000000000000000000dead") // does not exist
	c29AddrE  = common.HexToAddress("0x0000000000000000000000000000000000000e0e") // does not exist, only read
	c29AddrP4 = common.BytesToAddress([]byte{4})                                  // identity precompile
	// C: SSTORE(1,1); LOG0(0,0); STOP
	c29CodeC = progx.New().Sstore(1, 1).Push(0).Push(0).Op(progx.LOG0, progx.STOP).Bytes()
	// initcode used by the CREATE units: deploys the 1-byte code 0x00
	c29Init = progx.New().Push(1).Push(0).Op(progx.RETURN).Bytes()
)

type c29Unit struct {
	name string
	code []byte
}

func c29Units() []c29Unit {
	all := func(op byte, a common.Address, v uint64) []byte {
		return progx.New().CallKind(op, a, nil, v).Op(progx.POP).Bytes()
	}
	return []c29Unit{
		{"SSTORE(0,0)", progx.New().Sstore(0, 0).Bytes()},
		{"SSTORE(0,9)", progx.New().Sstore(0, 9).Bytes()},
		{"SSTORE(1,1)", progx.New().Sstore(1, 1).Bytes()},
		{"SLOAD(2)", progx.New().Push(2).Op(progx.SLOAD, progx.POP).Bytes()},
		{"TSTORE(0,3)", progx.New().Tstore(0, 3).Bytes()},
		{"LOG1", progx.New().Push(0xaa).Push(0).Push(0).Op(progx.LOG1).Bytes()},
		{"CALL(C,v=1)", all(progx.CALL, progx.AddrC, 1)},
		{"CALL(C,v=0)", all(progx.CALL, progx.AddrC, 0)},
		{"CALL(D,v=1)", all(progx.CALL, c29AddrD, 1)},
		{"CALL(0x04,v=1)", all(progx.CALL, c29AddrP4, 1)},
		{"STATICCALL(C)", all(progx.STATICCALL, progx.AddrC, 0)},
		{"DELEGATECALL(C)", all(progx.DELEGATECALL, progx.AddrC, 0)},
		{"CALLCODE(C,v=1)", all(progx.CALLCODE, progx.AddrC, 1)},
		{"CREATE", progx.New().Create(progx.CREATE, c29Init, 0, 0).Op(progx.POP).Bytes()},
		{"CREATE2", progx.New().Create(progx.CREATE2, c29Init, 1, 5).Op(progx.POP).Bytes()},
		{"BALANCE(E)", progx.New().PushAddr(c29AddrE).Op(progx.BALANCE, progx.POP).Bytes()},
		{"SELFDESTRUCT(C)", progx.New().PushAddr(progx.AddrC).Op(progx.SELFDESTRUCT).Bytes()},
	}
}

// terminators
var c29Terms = []string{"STOP", "REVERT", "INVALID", "UNDERFLOW", "BADJUMP", "OOG", "RETURN1"}

func c29Callee(units []c29Unit, seq []int, term string) []byte {
	p := progx.New()
	for _, i := range seq {
		p.Raw(units[i].code)
	}
	switch term {
	case "STOP":
		p.Op(progx.STOP)
	case "REVERT":
		p.Revert(0, 0)
	case "INVALID":
		p.Op(progx.INVALID)
	case "UNDERFLOW":
		p.Op(progx.POP)
	case "BADJUMP":
		p.Push(1).Op(progx.JUMP)
	case "OOG":
		// a memory expansion no gas limit used here can pay for: out of gas at once, without looping
		p.Push(1).PushBytes([]byte{1, 0, 0, 0, 0}).Op(progx.MSTORE)
	case "RETURN1":
		p.Return(0, 1)
	}
	return p.Bytes()
}

var c29Wrappers = []string{"STATICCALL", "CALL", "DELEGATECALL", "CALLCODE", "CREATE", "CREATE2", "DIRECT"}

// c29Caller builds A's code: own effects, the wrapper (inner gas: 0 = all), epilogue.
func c29Caller(rs progx.RuleSet, wrapper string, callee []byte, innerGas uint64) []byte {
	p := progx.New()
	p.Sstore(0, 0)                       // A.slot0 1 -> 0: refund counter is non-zero before the inner frame
	p.Push(0).Push(0).Op(progx.LOG0)     // one log before the inner frame
	p.Push(3).Op(progx.SLOAD, progx.POP) // a warm slot
	if rs.At("Cancun") {
		p.Tstore(1, 7)
	}
	var g *uint64
	if innerGas != 0 {
		g = &innerGas
	}
	switch wrapper {
	case "STATICCALL":
		p.CallKind(progx.STATICCALL, progx.AddrB, g, 0)
	case "CALL":
		p.CallKind(progx.CALL, progx.AddrB, g, 1)
	case "DELEGATECALL":
		p.CallKind(progx.DELEGATECALL, progx.AddrB, g, 0)
	case "CALLCODE":
		p.CallKind(progx.CALLCODE, progx.AddrB, g, 1)
	case "CREATE":
		p.Create(progx.CREATE, callee, 1, 0)
	case "CREATE2":
		p.Create(progx.CREATE2, callee, 1, 1)
	}
	p.Op(progx.POP)
	p.Sstore(3, 4) // epilogue: A goes on (modifies an existing slot: affordable from the 1/64 retained after a halting inner frame) and succeeds
	return p.Op(progx.STOP).Bytes()
}

// ---------------------------------------------------------------------------
// Observation of everything a frame could have changed.

type c29Frame struct {
	typ     byte
	from    common.Address
	to      common.Address
	before  *state.StateDB
	static  bool
	effects int // effectful instructions executed without error in this frame
}

type c29Tracer struct {
	st     *state.StateDB
	frames []c29Frame
	seen   map[common.Address]bool
	viol   string
	// statistics
	nFailed, nFailedWithEffects, nStatic, nStaticWriteAttempt, nCreateFailed int64
	outcome                                                                  map[string]int64
}

func (t *c29Tracer) fail(format string, a ...any) {
	if t.viol == "" {
		t.viol = fmt.Sprintf(format, a...)
	}
}

var c29Slots = []common.Hash{{31: 0}, {31: 1}, {31: 2}, {31: 3}, {31: 9}}

func (t *c29Tracer) universe() []common.Address {
	u := []common.Address{progx.AddrOrigin, progx.AddrA, progx.AddrB, progx.AddrC, c29AddrD, c29AddrE, c29AddrP4, common.BytesToAddress([]byte{3}), common.HexToAddress("0xc01bba5e")}
	var extra []common.Address
	for a := range t.seen {
		dup := false
		for _, x := range u {
			if x == a {
				dup = true
			}
		}
		if !dup {
			extra = append(extra, a)
		}
	}
	sort.Slice(extra, func(i, j int) bool { return extra[i].Cmp(extra[j]) < 0 })
	return append(u, extra...)
}

func c29LogsString(st *state.StateDB) string {
	var sb strings.Builder
	for _, l := range st.Logs() {
		fmt.Fprintf(&sb, "%x:%x:%x;", l.Address, l.Topics, l.Data)
	}
	return sb.String()
}

// diff lists the observable differences between the state before the frame
// and now. full=false restricts to what a static frame must not change
// (balances, nonces, code, storage, transient storage, logs).
func (t *c29Tracer) diff(f *c29Frame, full bool) []string {
	var out []string
	b, a := f.before, t.st
	for _, addr := range t.universe() {
		if x, y := b.GetBalance(addr), a.GetBalance(addr); !x.Eq(y) {
			out = append(out, fmt.Sprintf("balance(%x) %v -> %v", addr, x, y))
		}
		if x, y := b.GetNonce(addr), a.GetNonce(addr); x != y {
			out = append(out, fmt.Sprintf("nonce(%x) %d -> %d", addr, x, y))
		}
		if x, y := b.GetCodeHash(addr), a.GetCodeHash(addr); x != y {
			out = append(out, fmt.Sprintf("codehash(%x) %x -> %x", addr, x, y))
		}
		for _, k := range c29Slots {
			if x, y := b.GetState(addr, k), a.GetState(addr, k); x != y {
				out = append(out, fmt.Sprintf("storage(%x,%d) %x -> %x", addr, k[31], x, y))
			}
			if x, y := b.GetTransientState(addr, k), a.GetTransientState(addr, k); x != y {
				out = append(out, fmt.Sprintf("transient(%x,%d) %x -> %x", addr, k[31], x, y))
			}
		}
		if !full {
			continue
		}
		if x, y := b.Exist(addr), a.Exist(addr); x != y {
			out = append(out, fmt.Sprintf("exist(%x) %v -> %v", addr, x, y))
		}
		if x, y := b.HasSelfDestructed(addr), a.HasSelfDestructed(addr); x != y {
			out = append(out, fmt.Sprintf("selfdestructed(%x) %v -> %v", addr, x, y))
		}
		if x, y := b.AddressInAccessList(addr), a.AddressInAccessList(addr); x != y {
			out = append(out, fmt.Sprintf("warm(%x) %v -> %v", addr, x, y))
		}
		for _, k := range c29Slots {
			_, x := b.SlotInAccessList(addr, k)
			_, y := a.SlotInAccessList(addr, k)
			if x != y {
				out = append(out, fmt.Sprintf("warmslot(%x,%d) %v -> %v", addr, k[31], x, y))
			}
		}
	}
	if x, y := c29LogsString(b), c29LogsString(a); x != y {
		out = append(out, fmt.Sprintf("logs %q -> %q", x, y))
	}
	if full {
		if x, y := b.GetRefund(), a.GetRefund(); x != y {
			out = append(out, fmt.Sprintf("refund %d -> %d", x, y))
		}
	}
	return out
}

func (t *c29Tracer) onEnter(depth int, typ byte, from, to common.Address, input []byte, gas uint64, value *big.Int) {
	static := typ == progx.STATICCALL || (len(t.frames) > 0 && t.frames[len(t.frames)-1].static)
	t.seen[from], t.seen[to] = true, true
	t.frames = append(t.frames, c29Frame{typ: typ, from: from, to: to, before: t.st.Copy(), static: static})
}

func (t *c29Tracer) onExit(depth int, output []byte, gasUsed uint64, err error, reverted bool) {
	if len(t.frames) == 0 {
		t.fail("OnExit without frame")
		return
	}
	f := t.frames[len(t.frames)-1]
	t.frames = t.frames[:len(t.frames)-1]
	kind := vm.OpCode(f.typ).String()
	switch {
	case err != nil:
		t.nFailed++
		if f.effects > 0 {
			t.nFailedWithEffects++
		}
		d := t.diff(&f, true)
		if f.typ == progx.CREATE || f.typ == progx.CREATE2 {
			// the creator's nonce increment and the warming of the new address belong to the
			// creating instruction, not to the frame (Yellow Paper eq. 7 / EIP-2929), unless the
			// creation was refused before it started
			t.nCreateFailed++
			pre := errors.Is(err, vm.ErrDepth) || errors.Is(err, vm.ErrInsufficientBalance) || errors.Is(err, vm.ErrNonceUintOverflow)
			var rest []string
			nonceBumped := false
			for _, x := range d {
				if !pre && x == fmt.Sprintf("nonce(%x) %d -> %d", f.from, f.before.GetNonce(f.from), f.before.GetNonce(f.from)+1) {
					nonceBumped = true
					continue
				}
				if !pre && x == fmt.Sprintf("warm(%x) false -> true", f.to) {
					continue
				}
				rest = append(rest, x)
			}
			if !pre && !nonceBumped {
				rest = append(rest, fmt.Sprintf("creator nonce of %x was not incremented by the failed creation", f.from))
			}
			d = rest
		}
		t.outcome[kind+":failed:"+c29Class(err)]++
		if len(d) > 0 {
			t.fail("frame %s %x->%x failed (%v) but left effects: %s", kind, f.from, f.to, err, strings.Join(d, "; "))
		}
	case f.static:
		t.nStatic++
		t.outcome[kind+":static-success"]++
		if d := t.diff(&f, false); len(d) > 0 {
			t.fail("static frame %s %x->%x succeeded and changed state: %s", kind, f.from, f.to, strings.Join(d, "; "))
		}
	default:
		t.outcome[kind+":success"]++
	}
}

// c29Class names the failure kind of a frame.
func c29Class(err error) string {
	var su *vm.ErrStackUnderflow
	var io *vm.ErrInvalidOpCode
	switch {
	case errors.Is(err, vm.ErrExecutionReverted):
		return "revert"
	case errors.Is(err, vm.ErrWriteProtection):
		return "write-protection"
	case errors.Is(err, vm.ErrOutOfGas), errors.Is(err, vm.ErrCodeStoreOutOfGas):
		return "oog"
	case errors.As(err, &su):
		return "stack-underflow"
	case errors.As(err, &io):
		return "invalid-opcode"
	case errors.Is(err, vm.ErrInvalidJump):
		return "invalid-jump"
	case errors.Is(err, vm.ErrInsufficientBalance):
		return "insufficient-balance"
	case errors.Is(err, vm.ErrContractAddressCollision):
		return "collision"
	case errors.Is(err, vm.ErrDepth):
		return "depth"
	}
	return "other"
}

func (t *c29Tracer) onOpcode(pc uint64, op byte, gas, cost uint64, scope tracing.OpContext, rData []byte, depth int, err error) {
	if len(t.frames) == 0 || err != nil {
		return
	}
	f := &t.frames[len(t.frames)-1]
	switch op {
	case progx.SSTORE, progx.TSTORE, progx.LOG0, progx.LOG1, progx.LOG2, progx.LOG3, progx.LOG4, progx.CREATE, progx.CREATE2, progx.CALL, progx.CALLCODE, progx.SELFDESTRUCT:
		if f.static {
			t.nStaticWriteAttempt++
		} else {
			f.effects++
		}
	case progx.SLOAD, progx.BALANCE:
		if !f.static {
			f.effects++ // warms an entry
		}
	}
}

// ---------------------------------------------------------------------------

type c29Env struct {
	rs    progx.RuleSet
	st    *state.StateDB
	evm   *vm.EVM
	tr    *c29Tracer
	rules params.Rules
	al    types.AccessList // addresses warmed by the transaction's access list
}

func newC29Env(rs progx.RuleSet) (*c29Env, error) {
	e := &c29Env{rs: rs}
	e.rules = rs.Config.Rules(rs.Number, rs.Merge, rs.Time)
	st, _ := state.New(types.EmptyRootHash, state.NewDatabaseForTesting())
	st.CreateAccount(progx.AddrOrigin)
	st.AddBalance(progx.AddrOrigin, uint256.NewInt(1_000_000), tracing.BalanceChangeUnspecified)
	st.SetNonce(progx.AddrOrigin, 1, tracing.NonceChangeUnspecified)
	for _, a := range []struct {
		addr common.Address
		bal  uint64
		code []byte
	}{{progx.AddrA, 100, []byte{0}}, {progx.AddrB, 10, []byte{0}}, {progx.AddrC, 1, c29CodeC}} {
		st.CreateAccount(a.addr)
		st.AddBalance(a.addr, uint256.NewInt(a.bal), tracing.BalanceChangeUnspecified)
		st.SetNonce(a.addr, 1, tracing.NonceChangeUnspecified)
		st.SetCode(a.addr, a.code, tracing.CodeChangeUnspecified)
	}
	st.SetState(progx.AddrA, common.Hash{31: 0}, common.Hash{31: 1})
	st.SetState(progx.AddrA, common.Hash{31: 3}, common.Hash{31: 3})
	st.SetState(progx.AddrB, common.Hash{31: 0}, common.Hash{31: 5})
	st.SetState(progx.AddrB, common.Hash{31: 3}, common.Hash{31: 3})
	root, err := st.Commit(e.rules, 0)
	if err != nil {
		return nil, err
	}
	e.st, err = state.New(root, st.Database())
	if err != nil {
		return nil, err
	}
	e.tr = &c29Tracer{st: e.st, seen: map[common.Address]bool{}, outcome: map[string]int64{}}
	var random *common.Hash
	if rs.Merge {
		random = &common.Hash{31: 5}
	}
	bc := vm.BlockContext{
		CanTransfer: core.CanTransfer, Transfer: core.Transfer,
		GetHash:  func(uint64) common.Hash { return common.Hash{} },
		Coinbase: common.HexToAddress("0xc01bba5e"), BlockNumber: new(big.Int).Set(rs.Number), Time: rs.Time,
		Difficulty: big.NewInt(2), GasLimit: 8_000_000, BaseFee: big.NewInt(7), BlobBaseFee: big.NewInt(1),
		Random: random, CostPerStateByte: params.CostPerStateByte,
	}
	e.evm = vm.NewEVM(bc, e.st, rs.Config, vm.Config{Tracer: &tracing.Hooks{OnEnter: e.tr.onEnter, OnExit: e.tr.onExit, OnOpcode: e.tr.onOpcode}})
	e.evm.SetTxContext(vm.TxContext{Origin: progx.AddrOrigin, GasPrice: uint256.NewInt(1)})
	return e, nil
}

const c29TxGas = 2_000_000

// run executes one transaction-like call origin -> A (or, for DIRECT, the callee
// program itself as the outermost frame) and returns the first violation.
func (e *c29Env) run(wrapper string, caller, callee []byte) error {
	snap := e.st.Snapshot()
	defer e.st.RevertToSnapshot(snap)
	e.tr.frames = e.tr.frames[:0]
	e.tr.viol = ""
	for k := range e.tr.seen {
		delete(e.tr.seen, k)
	}
	e.st.Prepare(e.rules, progx.AddrOrigin, e.evm.Context.Coinbase, &progx.AddrA, vm.ActivePrecompiles(e.rules), e.al)
	e.st.SetCode(progx.AddrB, callee, tracing.CodeChangeUnspecified)
	value := uint256.NewInt(0)
	if wrapper == "DIRECT" {
		e.st.SetCode(progx.AddrA, callee, tracing.CodeChangeUnspecified)
		value = uint256.NewInt(1)
	} else {
		e.st.SetCode(progx.AddrA, caller, tracing.CodeChangeUnspecified)
	}
	_, _, err := e.evm.Call(progx.AddrOrigin, progx.AddrA, nil, vm.NewGasBudget(c29TxGas, 0), value)
	if e.tr.viol != "" {
		return errors.New(e.tr.viol)
	}
	if len(e.tr.frames) != 0 {
		return fmt.Errorf("%d frames left open", len(e.tr.frames))
	}
	if wrapper != "DIRECT" && err != nil {
		// A's own code never fails with 3M gas: the inner frame's failure must not propagate
		return fmt.Errorf("caller frame failed although only the inner frame may fail: %v", err)
	}
	return nil
}

type c29Case struct {
	Fork    string   `json:"fork"`
	Wrapper string   `json:"wrapper"`
	Gas     uint64   `json:"inner_gas"`
	Units   []string `json:"units"`
	Term    string   `json:"term"`
}

func c29ReplayTarget() *c29Case {
	p := os.Getenv("VERIF_REPLAY")
	if p == "" {
		return nil
	}
	raw, err := os.ReadFile(p)
	if err != nil {
		return nil
	}
	var f struct {
		Replay c29Case `json:"replay"`
	}
	if json.Unmarshal(raw, &f) != nil || f.Replay.Fork == "" {
		return nil
	}
	return &f.Replay
}

func TestVerif_C29(t *testing.T) {
	mc.Run(t, "C29", func(r *mc.R) {
		forks := mc.Pick(r, []string{"Byzantium", "Berlin", "Cancun", "Amsterdam"}, progx.ForkNames[4:])
		maxUnits := mc.Pick(r, 2, 3)
		gases := []uint64{0, 30000}
		units := c29Units()
		r.Rule("callee = every sequence of <=K units from the effectful alphabet (SSTORE clear/modify/set, SLOAD, TSTORE, LOG1, CALL with/without value to a contract / a new account / a precompile, STATICCALL, DELEGATECALL, CALLCODE, CREATE, CREATE2, BALANCE of a cold account, SELFDESTRUCT) " +
			"+ terminator {STOP, REVERT, INVALID, stack underflow, bad jump, out of gas (MSTORE at 2^32), RETURN 1 byte}; caller A (own SSTORE with refund, LOG, warm slot, TSTORE) wraps it with {STATICCALL, CALL+value, DELEGATECALL, CALLCODE+value, CREATE+value (callee = initcode), CREATE2+value, or the callee is the outermost frame} " +
			"with inner gas {all, 30000 (30000 only for callees of <=K-1 units)}; per rule set (CREATE2 wrapper from Constantinople). Every frame at every depth is checked at its exit against a deep copy of the state taken at its entry. distinct = distinct (rule set, wrapper, gas, callee code)")
		r.Bound("forks", forks)
		r.Bound("max_units", maxUnits)
		r.Bound("unit_alphabet", len(units))
		r.Bound("terminators", c29Terms)
		r.Bound("wrappers", c29Wrappers)
		r.Bound("inner_gas", gases)
		r.Assume("observed per address of the closed universe (all addresses any frame touched + origin, A, B, C, D, E, 0x03, 0x04, coinbase): balance, nonce, code hash, storage slots {0,1,2,3,9}, transient slots, existence, self-destructed flag, address/slot warmth; globally: logs, refund counter")
		r.Assume("failed frame => everything equal (CREATE/CREATE2: creator nonce +1 and new address warm are effects of the creating instruction, not of the frame); frame in a static context that succeeds => balances, nonces, code, storage, transient storage, logs equal; the caller's own frame must not fail")

		var seqs [][]int
		for k := 0; k <= maxUnits; k++ {
			progx.Sequences(len(units), k, func(idx []int) { seqs = append(seqs, append([]int{}, idx...)) })
		}
		type shard struct {
			fork    string
			wrapper string
			lo, hi  int
		}
		var shards []shard
		const chunk = 64
		for _, f := range forks {
			for _, w := range c29Wrappers {
				if w == "CREATE2" && !progx.Fork(f).At("Constantinople") {
					continue // the caller itself must be a valid program of the rule set
				}
				for lo := 0; lo < len(seqs); lo += chunk {
					shards = append(shards, shard{f, w, lo, min(lo+chunk, len(seqs))})
				}
			}
		}
		target := c29ReplayTarget()
		c29Adjacent(r, forks, target) // small; first, so that it completes on a loaded machine
		total := map[string]int64{}
		var tot struct{ failed, failedEff, static, staticWrite, createFailed int64 }
		mu := make(chan struct{}, 1)
		mu <- struct{}{}
		r.Parallel(len(shards), func(si int) {
			sh := shards[si]
			if target != nil && (target.Fork != sh.fork || target.Wrapper != sh.wrapper) {
				return
			}
			env, err := newC29Env(progx.Fork(sh.fork))
			if err != nil {
				r.Violation("harness-setup", err.Error(), nil)
				return
			}
			var evals int64
			for _, seq := range seqs[sh.lo:sh.hi] {
				if r.Expired() {
					break
				}
				names := make([]string, len(seq))
				for i, u := range seq {
					names[i] = units[u].name
				}
				for _, term := range c29Terms {
					callee := c29Callee(units, seq, term)
					for _, g := range gases {
						if sh.wrapper == "DIRECT" && g != 0 {
							continue
						}
						if g != 0 && len(seq) > maxUnits-1 {
							continue // the limited-gas variant only for callees of <= K-1 units
						}
						if target != nil && (target.Term != term || target.Gas != g || strings.Join(target.Units, ",") != strings.Join(names, ",")) {
							continue
						}
						caller := c29Caller(env.rs, sh.wrapper, callee, g)
						verr := mc.Safely(func() error { return env.run(sh.wrapper, caller, callee) })
						if verr != nil && strings.HasPrefix(verr.Error(), "panic:") {
							env, _ = newC29Env(progx.Fork(sh.fork))
						}
						if verr != nil || r.Replaying() {
							r.Case(c29Case{sh.fork, sh.wrapper, g, names, term}, func() error { return verr })
						} else {
							evals++
						}
						r.DistinctHash(mc.Hash64(fmt.Sprintf("%s|%s|%d|%x", sh.fork, sh.wrapper, g, crypto.Keccak256(callee))))
					}
				}
			}
			r.Eval(evals)
			<-mu
			for k, v := range env.tr.outcome {
				total[k] += v
			}
			tot.failed += env.tr.nFailed
			tot.failedEff += env.tr.nFailedWithEffects
			tot.static += env.tr.nStatic
			tot.staticWrite += env.tr.nStaticWriteAttempt
			tot.createFailed += env.tr.nCreateFailed
			mu <- struct{}{}
			if si%53 == 0 && sh.hi > sh.lo {
				seq := seqs[sh.hi-1]
				names := make([]string, len(seq))
				for i, u := range seq {
					names[i] = units[u].name
				}
				r.Sample(c29Case{sh.fork, sh.wrapper, 0, names, "REVERT"})
			}
		})
		for k, v := range total {
			r.OutcomeN(k, v)
		}
		r.OutcomeN("frames:failed", tot.failed)
		r.OutcomeN("frames:failed-after-executing-effectful-instructions", tot.failedEff)
		r.OutcomeN("frames:static-success", tot.static)
		r.OutcomeN("static:write-attempts", tot.staticWrite)
		r.OutcomeN("frames:create-failed", tot.createFailed)
	})
}

// ---------------------------------------------------------------------------
// Adjacent-write family: the outer frame's LAST state-changing instruction X is
// immediately followed by a call into the SAME storage context (re-entrant CALL
// to itself, CALLCODE, DELEGATECALL; callee pre-warmed by the access list, zero
// value: nothing is journalled between X and the callee's first instruction)
// whose FIRST instruction is Y, for every pair (X,Y) of the unit alphabet, and
// which then fails. Any merging / eliding of journal entries across the frame's
// snapshot shows as a difference at the frame's exit.

func c29AdjCaller(wrapper string, x []byte, calleeBody []byte) (caller, callee []byte) {
	call := func(op byte, a common.Address) []byte {
		return progx.New().CallKind(op, a, nil, 0).Op(progx.POP, progx.STOP).Bytes()
	}
	switch wrapper {
	case "ADJ-CALLCODE":
		return progx.Concat(x, call(progx.CALLCODE, progx.AddrB)), calleeBody
	case "ADJ-DELEGATECALL":
		return progx.Concat(x, call(progx.DELEGATECALL, progx.AddrB)), calleeBody
	}
	// ADJ-CALLSELF: A calls itself; on re-entry (CALLER == ADDRESS) it runs the callee body
	outer := progx.Concat(x, call(progx.CALL, progx.AddrA))
	const hdr = 1 + 1 + 1 + 3 + 1 // CALLER ADDRESS EQ PUSH2 JUMPI
	off := hdr + len(outer)
	p := progx.New().Op(progx.CALLER, progx.ADDRESS, progx.EQ).Op(progx.PUSH2, byte(off>>8), byte(off)).Op(progx.JUMPI)
	p.Raw(outer).Op(progx.JUMPDEST).Raw(calleeBody)
	return p.Bytes(), []byte{0}
}

func c29Adjacent(r *mc.R, forks []string, target *c29Case) {
	units := append(c29Units(),
		c29Unit{"TSTORE(0,4)", progx.New().Tstore(0, 4).Bytes()},
		c29Unit{"SSTORE(0,8)", progx.New().Sstore(0, 8).Bytes()},
		c29Unit{"NONE", nil})
	since := map[string]string{"TSTORE(0,3)": "Cancun", "TSTORE(0,4)": "Cancun", "CREATE2": "Constantinople"}
	wrappers := []string{"ADJ-CALLSELF", "ADJ-CALLCODE", "ADJ-DELEGATECALL"}
	terms := []string{"REVERT", "INVALID", "OOG", "STOP"}
	r.Bound("adjacent.units", len(units))
	r.Bound("adjacent.wrappers", wrappers)
	r.Bound("adjacent.terminators", terms)
	r.Assume("adjacent-write family: caller = X ++ call into the same storage context {CALL to itself, CALLCODE, DELEGATECALL; zero value, callee warm through the access list} for every X of the alphabet valid in the rule set (incl. none); callee = Y ++ {REVERT, INVALID, out of gas, STOP} for every Y; same frame-exit oracle")
	type shard struct {
		fork    string
		wrapper string
		x       int
	}
	var shards []shard
	for _, f := range forks {
		for _, w := range wrappers {
			for x := range units {
				shards = append(shards, shard{f, w, x})
			}
		}
	}
	total := map[string]int64{}
	var failed, failedEff int64
	mu := make(chan struct{}, 1)
	mu <- struct{}{}
	r.Parallel(len(shards), func(si int) {
		sh := shards[si]
		X := units[sh.x]
		if target != nil && (target.Fork != sh.fork || target.Wrapper != sh.wrapper || len(target.Units) != 2 || target.Units[0] != X.name) {
			return
		}
		rs := progx.Fork(sh.fork)
		if f, ok := since[X.name]; (ok && !rs.At(f)) || X.name == "SELFDESTRUCT(C)" {
			return // the outer frame must be a valid, continuing program
		}
		env, err := newC29Env(rs)
		if err != nil {
			r.Violation("harness-setup", err.Error(), nil)
			return
		}
		env.al = types.AccessList{{Address: progx.AddrB}}
		var evals int64
		for _, Y := range units {
			for _, term := range terms {
				if target != nil && (target.Units[1] != Y.name || target.Term != term) {
					continue
				}
				body := c29Callee([]c29Unit{Y}, []int{0}, term)
				caller, callee := c29AdjCaller(sh.wrapper, X.code, body)
				verr := mc.Safely(func() error { return env.run(sh.wrapper, caller, callee) })
				if verr != nil && strings.HasPrefix(verr.Error(), "panic:") {
					env, _ = newC29Env(rs)
					env.al = types.AccessList{{Address: progx.AddrB}}
				}
				if verr != nil || r.Replaying() {
					r.Case(c29Case{sh.fork, sh.wrapper, 0, []string{X.name, Y.name}, term}, func() error { return verr })
				} else {
					evals++
				}
				r.DistinctHash(mc.Hash64(fmt.Sprintf("adj|%s|%s|%s|%s|%s", sh.fork, sh.wrapper, X.name, Y.name, term)))
			}
		}
		r.Eval(evals)
		<-mu
		for k, v := range env.tr.outcome {
			total["adjacent:"+k] += v
		}
		failed += env.tr.nFailed
		failedEff += env.tr.nFailedWithEffects
		mu <- struct{}{}
	})
	for k, v := range total {
		r.OutcomeN(k, v)
	}
	r.OutcomeN("adjacent:frames-failed", failed)
	r.OutcomeN("adjacent:frames-failed-after-executing-effectful-instructions", failedEff)
}
