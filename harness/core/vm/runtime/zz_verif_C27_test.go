//go:build verif

package runtime

import (
	"bytes"
	"encoding/json"
	"errors"
	"fmt"
	"math/big"
	"os"
	"strings"
	"testing"

	"github.com/ethereum/go-ethereum/common"
	"github.com/ethereum/go-ethereum/core"
	"github.com/ethereum/go-ethereum/core/state"
	"github.com/ethereum/go-ethereum/core/tracing"
	"github.com/ethereum/go-ethereum/core/types"
	"github.com/ethereum/go-ethereum/core/vm"
	"github.com/ethereum/go-ethereum/internal/verif/mc"
	"github.com/ethereum/go-ethereum/internal/verif/progx"
	"github.com/ethereum/go-ethereum/params"
	"github.com/holiman/uint256"
)

// ---------------------------------------------------------------------------
// Reference formulas (Yellow Paper appendix H), independent of core/vm.

// c27MemFee is C_mem(a) = G_memory*a + floor(a^2/512).
func c27MemFee(words uint64) uint64 { return 3*words + words*words/512 }

// c27Demand is the number of bytes the memory must have for an access of
// length l at offset off (0 when l == 0); inf when it does not fit in 2^64.
func c27Demand(off, l *uint256.Int) (uint64, bool) {
	if l.IsZero() {
		return 0, false
	}
	if !off.IsUint64() || !l.IsUint64() {
		return 0, true
	}
	s := off.Uint64() + l.Uint64()
	if s < off.Uint64() {
		return 0, true
	}
	return s, false
}

// c27MemDemand returns the memory size (bytes) instruction `op` needs given the
// stack (bottom..top), per the Yellow Paper's mu_i' definitions. known=false if
// the opcode is undefined in the rule set / has no memory operand / the stack is too short.
func c27MemDemand(rs progx.RuleSet, op byte, st []uint256.Int) (size uint64, inf bool, known bool) {
	s := func(i int) *uint256.Int { return &st[len(st)-1-i] }
	need := func(n int) bool { return len(st) >= n }
	w := func(n uint64) *uint256.Int { return uint256.NewInt(n) }
	max2 := func(a uint64, ai bool, b uint64, bi bool) (uint64, bool, bool) {
		if ai || bi {
			return 0, true, true
		}
		if a > b {
			return a, false, true
		}
		return b, false, true
	}
	switch op {
	case progx.KECCAK256, progx.RETURN, progx.LOG0, progx.LOG1, progx.LOG2, progx.LOG3, progx.LOG4:
		if !need(2) {
			return 0, false, false
		}
		d, i := c27Demand(s(0), s(1))
		return d, i, true
	case progx.REVERT:
		if !rs.At("Byzantium") || !need(2) {
			return 0, false, false
		}
		d, i := c27Demand(s(0), s(1))
		return d, i, true
	case progx.CALLDATACOPY, progx.CODECOPY:
		if !need(3) {
			return 0, false, false
		}
		d, i := c27Demand(s(0), s(2))
		return d, i, true
	case progx.RETURNDATACOPY:
		if !rs.At("Byzantium") || !need(3) {
			return 0, false, false
		}
		d, i := c27Demand(s(0), s(2))
		return d, i, true
	case progx.EXTCODECOPY:
		if !need(4) {
			return 0, false, false
		}
		d, i := c27Demand(s(1), s(3))
		return d, i, true
	case progx.MLOAD, progx.MSTORE:
		if !need(1) || (op == progx.MSTORE && !need(2)) {
			return 0, false, false
		}
		d, i := c27Demand(s(0), w(32))
		return d, i, true
	case progx.MSTORE8:
		if !need(2) {
			return 0, false, false
		}
		d, i := c27Demand(s(0), w(1))
		return d, i, true
	case progx.MCOPY:
		if !rs.At("Cancun") || !need(3) {
			return 0, false, false
		}
		a, ai := c27Demand(s(0), s(2))
		b, bi := c27Demand(s(1), s(2))
		return max2(a, ai, b, bi)
	case progx.CREATE:
		if !need(3) {
			return 0, false, false
		}
		d, i := c27Demand(s(1), s(2))
		return d, i, true
	case progx.CREATE2:
		if !rs.At("Constantinople") || !need(4) {
			return 0, false, false
		}
		d, i := c27Demand(s(1), s(2))
		return d, i, true
	case progx.CALL, progx.CALLCODE:
		if !need(7) {
			return 0, false, false
		}
		a, ai := c27Demand(s(3), s(4))
		b, bi := c27Demand(s(5), s(6))
		return max2(a, ai, b, bi)
	case progx.DELEGATECALL, progx.STATICCALL:
		if (op == progx.DELEGATECALL && !rs.At("Homestead")) || (op == progx.STATICCALL && !rs.At("Byzantium")) || !need(6) {
			return 0, false, false
		}
		a, ai := c27Demand(s(2), s(3))
		b, bi := c27Demand(s(4), s(5))
		return max2(a, ai, b, bi)
	}
	return 0, false, false
}

// c27CallPops: operands popped by the frame-creating instructions (delta of the Yellow Paper).
func c27CallPops(op byte) int {
	switch op {
	case progx.CALL, progx.CALLCODE:
		return 7
	case progx.DELEGATECALL, progx.STATICCALL:
		return 6
	case progx.CREATE:
		return 3
	case progx.CREATE2:
		return 4
	}
	return 0
}

// ---------------------------------------------------------------------------
// The invariant tracer.

type c27Frame struct {
	gasEnter   uint64
	have       bool // a previous step exists
	lastGas    uint64
	lastCost   uint64
	lastOp     byte
	lastPc     uint64
	child      bool   // a child frame ran since the last step
	childEnter uint64 // gas it was given (for CALLs this includes the stipend; the forwarded part is in the CALL's cost)
	childUsed  uint64 // gas it used
	expectMem  int    // memory length expected at the next step (-1 unknown)
	savedStack []uint256.Int
	savedAt    bool
	faulted    bool
}

type c27Step struct{ gas, cost uint64 }

type c27Tracer struct {
	rs        progx.RuleSet
	amsterdam bool
	frames    []c27Frame
	steps     uint64
	stepLimit uint64
	viol      string
	// observations of the run
	top        []c27Step // steps of the outermost frame
	topErrAt   int       // index of the faulting step in top (-1)
	nested     bool
	gasObs     bool // the program executed an instruction whose behaviour depends on the remaining gas
	maxStack   int
	maxMem     int
	ops        []byte // executed opcodes (all frames), capped
	exitUsed   uint64 // gas used reported for the outermost frame
	exitSeen   bool
	memGrowths int
	// optional capture (stack-depth family): the operand stack seen at the last step of the frames at capDepth,
	// and the outcome class of every non-outermost frame
	capDepth   int
	capStack   []uint256.Int
	childClass []string
}

type c27Abort struct{ why string }

func (t *c27Tracer) reset(gas uint64) {
	t.frames = t.frames[:0]
	t.steps, t.viol = 0, ""
	t.top = t.top[:0]
	t.topErrAt = -1
	t.nested, t.gasObs = false, false
	t.maxStack, t.maxMem = 0, 0
	t.ops = t.ops[:0]
	t.exitSeen, t.exitUsed = false, 0
	t.stepLimit = gas + 1
	t.capStack = t.capStack[:0]
	t.childClass = t.childClass[:0]
}

func (t *c27Tracer) fail(format string, a ...any) {
	if t.viol == "" {
		t.viol = fmt.Sprintf(format, a...)
	}
}

func (t *c27Tracer) onEnter(depth int, typ byte, from, to common.Address, input []byte, gas uint64, value *big.Int) {
	if depth != len(t.frames) {
		t.fail("OnEnter depth %d but %d frames are open", depth, len(t.frames))
	}
	if depth > 0 {
		t.nested = true
	}
	t.frames = append(t.frames, c27Frame{gasEnter: gas, expectMem: 0})
	// every frame may run at most gas+1 instructions of its own gas; a value call adds a 2300 stipend
	t.stepLimit += 2301
}

func (t *c27Tracer) onExit(depth int, output []byte, gasUsed uint64, err error, reverted bool) {
	if len(t.frames) == 0 || depth != len(t.frames)-1 {
		t.fail("OnExit depth %d but %d frames are open", depth, len(t.frames))
		return
	}
	f := t.frames[len(t.frames)-1]
	t.frames = t.frames[:len(t.frames)-1]
	if gasUsed > f.gasEnter {
		t.fail("frame at depth %d used %d gas but was given %d", depth, gasUsed, f.gasEnter)
		gasUsed = f.gasEnter
	}
	if len(t.frames) > 0 {
		t.childClass = append(t.childClass, c27Class(err))
		p := &t.frames[len(t.frames)-1]
		p.child = true
		p.childEnter, p.childUsed = f.gasEnter, gasUsed
	} else {
		t.exitSeen, t.exitUsed = true, gasUsed
	}
}

// stateGasOp: instructions that may charge/refund state gas (EIP-8037): their
// execution-gas delta is not `cost` alone on Amsterdam.
func c27StateGasOp(op byte) bool {
	switch op {
	case progx.SSTORE, progx.CREATE, progx.CREATE2, progx.CALL, progx.CALLCODE, progx.DELEGATECALL, progx.STATICCALL, progx.SELFDESTRUCT:
		return true
	}
	return false
}

func (t *c27Tracer) onOpcode(pc uint64, op byte, gas, cost uint64, scope tracing.OpContext, rData []byte, depth int, err error) {
	if len(t.frames) == 0 {
		t.fail("OnOpcode outside of any frame")
		return
	}
	if depth != len(t.frames) {
		t.fail("OnOpcode depth %d with %d open frames", depth, len(t.frames))
	}
	f := &t.frames[len(t.frames)-1]
	t.steps++
	if t.steps > t.stepLimit {
		t.fail("more than gas+1 instructions executed (%d steps): execution does not consume gas", t.steps)
		panic(c27Abort{"step limit"})
	}
	if len(t.ops) < 64 {
		t.ops = append(t.ops, op)
	}
	st := scope.StackData()
	mem := scope.MemoryData()
	if t.capDepth > 0 && depth == t.capDepth {
		t.capStack = append(t.capStack[:0], st...)
	}
	if len(st) > t.maxStack {
		t.maxStack = len(st)
	}
	if len(mem) > t.maxMem {
		t.maxMem = len(mem)
	}
	// operand stack within its limit
	if len(st) > 1024 {
		t.fail("operand stack has %d items before op %#x at pc %d depth %d", len(st), op, pc, depth)
	}
	// memory: word granular, and exactly what the previous instruction was charged for
	if len(mem)%32 != 0 {
		t.fail("memory length %d is not a multiple of 32 (pc %d)", len(mem), pc)
	}
	if f.expectMem >= 0 && len(mem) != f.expectMem {
		t.fail("memory length is %d after op %#x at pc %d, the charged size is %d", len(mem), f.lastOp, f.lastPc, f.expectMem)
	}
	// gas chaining inside the frame: gas' = gas - cost (+ what the child frame returned)
	if f.have {
		exp := f.lastGas - f.lastCost
		if f.child {
			if f.lastOp == progx.CREATE || f.lastOp == progx.CREATE2 {
				exp -= f.childUsed // the gas forwarded to a creation is not part of the instruction's cost
			} else {
				exp += f.childEnter - f.childUsed // forwarded gas is part of the CALL's cost; the unused part (and stipend) comes back
			}
		}
		exact := !t.amsterdam || !c27StateGasOp(f.lastOp)
		if exact && gas != exp {
			t.fail("gas before pc %d is %d, expected %d = %d - %d (child given %d used %d) after op %#x", pc, gas, exp, f.lastGas, f.lastCost, f.childEnter, f.childUsed, f.lastOp)
		}
		if f.lastCost > f.lastGas {
			t.fail("op %#x at pc %d was charged %d with only %d gas left and execution continued", f.lastOp, f.lastPc, f.lastCost, f.lastGas)
		}
	} else if gas != f.gasEnter && !(t.amsterdam) {
		t.fail("first instruction of the frame sees %d gas, frame was given %d", gas, f.gasEnter)
	}
	// the part of the operand stack below the operands of a CALL/CREATE must survive the child frame
	if f.savedAt {
		k := c27CallPops(f.lastOp)
		n := len(f.savedStack)
		if len(st) != n-k+1 {
			t.fail("stack has %d items after op %#x (had %d, pops %d, pushes 1)", len(st), f.lastOp, n, k)
		} else {
			for i := 0; i < n-k; i++ {
				if st[i] != f.savedStack[i] {
					t.fail("stack item %d changed across the child frame of op %#x at pc %d: %s -> %s", i, f.lastOp, f.lastPc, f.savedStack[i].Hex(), st[i].Hex())
					break
				}
			}
		}
		f.savedAt = false
	}
	if len(t.frames) == 1 {
		t.top = append(t.top, c27Step{gas, cost})
		if err != nil {
			t.topErrAt = len(t.top) - 1
		}
	}
	f.have, f.lastGas, f.lastCost, f.lastOp, f.lastPc, f.child, f.childEnter, f.childUsed = true, gas, cost, op, pc, false, 0, 0
	if err != nil {
		// faulting instruction (stack validation / out of gas): the frame ends here
		f.faulted = true
		f.have = false
		f.expectMem = -1
		return
	}
	switch op {
	case progx.GAS, progx.SSTORE, progx.CALL, progx.CALLCODE, progx.DELEGATECALL, progx.STATICCALL, progx.CREATE, progx.CREATE2, progx.SELFDESTRUCT:
		t.gasObs = true
	}
	// memory expansion must have been charged (the hook runs after charging, before resizing)
	wOld := uint64(len(mem) / 32)
	wNew := wOld
	if size, inf, known := c27MemDemand(t.rs, op, st); known {
		if inf {
			t.fail("op %#x at pc %d needs more than 2^64 bytes of memory but was not rejected (cost %d)", op, pc, cost)
			panic(c27Abort{"unbounded memory"})
		}
		if w := (size + 31) / 32; w > wNew {
			wNew = w
		}
		if wNew > wOld {
			t.memGrowths++
			if wNew > 1<<22 { // 128 MiB: cannot be paid for by any gas limit used here
				t.fail("op %#x at pc %d expands memory to %d words with %d gas", op, pc, wNew, gas)
				panic(c27Abort{"huge memory"})
			}
			if need := c27MemFee(wNew) - c27MemFee(wOld); cost < need {
				t.fail("op %#x at pc %d expands memory %d -> %d words (fee %d) but was charged only %d", op, pc, wOld, wNew, need, cost)
			}
		}
	}
	f.expectMem = int(wNew * 32)
	if k := c27CallPops(op); k > 0 && len(st) >= k {
		f.savedStack = append(f.savedStack[:0], st...)
		f.savedAt = true
	}
}

func (t *c27Tracer) hooks() *tracing.Hooks {
	return &tracing.Hooks{OnEnter: t.onEnter, OnExit: t.onExit, OnOpcode: t.onOpcode}
}

// ---------------------------------------------------------------------------
// Environment.

type c27Env struct {
	calleeCode []byte // if set, deployed at B for the run
	rs         progx.RuleSet
	st         *state.StateDB
	evm        *vm.EVM
	tr         *c27Tracer
}

var (
	c27CalleeB = progx.New().Sstore(1, 1).Mstore(0, []byte{0xbb}).Return(0, 32).Bytes() // B: write storage, return a word
	c27Input   = append(bytes.Repeat([]byte{0x11}, 32), 0x22, 0x33, 0x44, 0x55)
)

func c27BlockCtx(rs progx.RuleSet) vm.BlockContext {
	var random *common.Hash
	if rs.Merge {
		random = &common.Hash{31: 5}
	}
	return vm.BlockContext{
		CanTransfer: core.CanTransfer,
		Transfer:    core.Transfer,
		GetHash:     func(uint64) common.Hash { return common.Hash{} },
		Coinbase:    progx.AddrC,
		BlockNumber: new(big.Int).Set(rs.Number),
		Time:        rs.Time,
		Difficulty:  big.NewInt(2),
		GasLimit:    8_000_000,
		// small environment values: programs use them as memory offsets
		BaseFee:          big.NewInt(7),
		BlobBaseFee:      big.NewInt(1),
		Random:           random,
		CostPerStateByte: params.CostPerStateByte,
	}
}

func newC27Env(rs progx.RuleSet) *c27Env {
	e := &c27Env{rs: rs, tr: &c27Tracer{rs: rs, amsterdam: rs.At("Amsterdam")}}
	e.st, _ = state.New(types.EmptyRootHash, state.NewDatabaseForTesting())
	e.st.CreateAccount(progx.AddrOrigin)
	e.st.AddBalance(progx.AddrOrigin, uint256.NewInt(1_000_000), tracing.BalanceChangeUnspecified)
	e.st.CreateAccount(progx.AddrA)
	e.st.AddBalance(progx.AddrA, uint256.NewInt(1000), tracing.BalanceChangeUnspecified)
	e.st.CreateAccount(progx.AddrB)
	e.st.SetCode(progx.AddrB, c27CalleeB, tracing.CodeChangeUnspecified)
	e.evm = vm.NewEVM(c27BlockCtx(rs), e.st, rs.Config, vm.Config{Tracer: e.tr.hooks()})
	e.evm.SetTxContext(vm.TxContext{Origin: progx.AddrOrigin, GasPrice: uint256.NewInt(1)})
	return e
}

type c27Result struct {
	ret    []byte
	left   vm.GasBudget
	err    error
	class  string
	steps  uint64
	nTop   int
	gasObs bool
	nested bool
}

func c27Class(err error) string {
	var su *vm.ErrStackUnderflow
	var so *vm.ErrStackOverflow
	var io *vm.ErrInvalidOpCode
	switch {
	case err == nil:
		return "success"
	case errors.Is(err, vm.ErrExecutionReverted):
		return "revert"
	case errors.Is(err, vm.ErrCodeStoreOutOfGas):
		return "code-store-oog"
	case errors.Is(err, vm.ErrGasUintOverflow):
		return "gas-overflow"
	case errors.Is(err, vm.ErrOutOfGas):
		return "oog"
	case errors.As(err, &su):
		return "stack-underflow"
	case errors.As(err, &so):
		return "stack-overflow"
	case errors.As(err, &io):
		return "invalid-opcode"
	case errors.Is(err, vm.ErrInvalidJump):
		return "invalid-jump"
	case errors.Is(err, vm.ErrWriteProtection):
		return "write-protection"
	case errors.Is(err, vm.ErrReturnDataOutOfBounds):
		return "returndata-oob"
	case errors.Is(err, vm.ErrInsufficientBalance):
		return "insufficient-balance"
	case errors.Is(err, vm.ErrDepth):
		return "depth"
	case errors.Is(err, vm.ErrMaxCodeSizeExceeded), errors.Is(err, vm.ErrMaxInitCodeSizeExceeded), errors.Is(err, vm.ErrInvalidCode):
		return "bad-code"
	case errors.Is(err, vm.ErrContractAddressCollision):
		return "collision"
	}
	return "other:" + err.Error()
}

// run executes code once (mode "call": deployed at A and called; "create": used
// as initcode) with `gas` and `value`, checks every invariant, and leaves the
// state as it was.
func (e *c27Env) run(mode string, code []byte, gas, value uint64) (res c27Result, verr error) {
	rules := e.rs.Config.Rules(e.rs.Number, e.rs.Merge, e.rs.Time)
	snap := e.st.Snapshot()
	defer e.st.RevertToSnapshot(snap)
	e.tr.reset(gas)
	budget := vm.NewGasBudget(gas, 0)
	var (
		ret  []byte
		left vm.GasBudget
		err  error
	)
	func() {
		defer func() {
			if p := recover(); p != nil {
				if a, ok := p.(c27Abort); ok {
					verr = fmt.Errorf("aborted (%s): %s", a.why, e.tr.viol)
					return
				}
				panic(p)
			}
		}()
		if mode == "call" {
			e.st.Prepare(rules, progx.AddrOrigin, progx.AddrC, &progx.AddrA, vm.ActivePrecompiles(rules), nil)
			e.st.SetCode(progx.AddrA, code, tracing.CodeChangeUnspecified)
			if e.calleeCode != nil {
				e.st.SetCode(progx.AddrB, e.calleeCode, tracing.CodeChangeUnspecified)
			}
			ret, left, err = e.evm.Call(progx.AddrOrigin, progx.AddrA, c27Input, budget, uint256.NewInt(value))
		} else {
			e.st.Prepare(rules, progx.AddrOrigin, progx.AddrC, nil, vm.ActivePrecompiles(rules), nil)
			ret, _, left, err = e.evm.Create(progx.AddrOrigin, code, budget, uint256.NewInt(value))
		}
	}()
	if verr != nil {
		return res, verr
	}
	t := e.tr
	res = c27Result{ret: ret, left: left, err: err, class: c27Class(err), steps: t.steps, nTop: len(t.top), gasObs: t.gasObs, nested: t.nested}
	if t.viol != "" {
		return res, errors.New(t.viol)
	}
	if len(t.frames) != 0 {
		return res, fmt.Errorf("%d frames still open after the call returned", len(t.frames))
	}
	if strings.HasPrefix(res.class, "other:") {
		return res, fmt.Errorf("unexpected error kind: %v", err)
	}
	// never more gas back than was given
	if left.ExecutionGas+left.StateGas > gas || left.ExecutionGas > gas {
		return res, fmt.Errorf("leftover %v exceeds the %d gas given", left, gas)
	}
	if !t.amsterdam && left.StateGas != 0 {
		return res, fmt.Errorf("state-gas reservoir %d returned before Amsterdam", left.StateGas)
	}
	if !t.exitSeen {
		return res, fmt.Errorf("outermost frame was never closed for the tracer")
	}
	if t.exitUsed != gas-left.ExecutionGas {
		return res, fmt.Errorf("tracer was told %d gas used, result says %d", t.exitUsed, gas-left.ExecutionGas)
	}
	exceptional := err != nil && res.class != "revert" && !(res.class == "code-store-oog" && !rules.IsHomestead)
	if exceptional && left.ExecutionGas != 0 {
		return res, fmt.Errorf("exceptional halt (%v) returned %d gas", err, left.ExecutionGas)
	}
	// unused gas is returned exactly: leftover == gas before the last instruction - its cost (+ child's leftover)
	if !exceptional && len(t.top) > 0 && t.topErrAt < 0 && (!t.amsterdam || !t.gasObs) {
		// reconstruct from the tracer's view of the outermost frame
		last := t.top[len(t.top)-1]
		exp := last.gas - last.cost
		if mode == "create" && err == nil && !t.amsterdam {
			exp -= 200 * uint64(len(ret)) // G_codedeposit
		}
		// a frame-creating last instruction cannot be last (it pushes a result), so no child term
		if mode == "create" && err == nil && t.amsterdam {
			// EIP-8037 code deposit (hash cost + state gas that may spill into execution gas): upper bound only, see C31
			if left.ExecutionGas > exp {
				return res, fmt.Errorf("leftover %d exceeds the %d gas left before the code deposit", left.ExecutionGas, exp)
			}
		} else if left.ExecutionGas != exp {
			return res, fmt.Errorf("leftover %d, expected %d (gas %d before the last instruction, cost %d, deposit of %d bytes)", left.ExecutionGas, exp, last.gas, last.cost, len(ret))
		}
	}
	return res, nil
}

type c27Case struct {
	Fork     string `json:"fork"`
	Mode     string `json:"mode"`
	Prologue string `json:"prologue"`
	Prog     string `json:"prog"`
	Gas      uint64 `json:"gas"`
	Value    uint64 `json:"value"`
	Kind     string `json:"kind"` // baseline | grid
}

const c27BaseGas = 10_000_000

// c27Program checks one program: a baseline run with ample gas and then the
// exact-cost grid derived from the baseline's own steps.
func c27Program(r *mc.R, e **c27Env, mode string, pro progx.Prologue, proSteps int, prog []byte, value uint64, grid bool, evals *int64, outcomes, gridOut map[string]int64, baseGas uint64) {
	code := append(append(make([]byte, 0, len(pro.Code)+len(prog)), pro.Code...), prog...)
	exec := func(kind string, gas uint64) (c27Result, bool) {
		var res c27Result
		err := mc.Safely(func() error {
			var e2 error
			res, e2 = (*e).run(mode, code, gas, value)
			return e2
		})
		if err != nil && strings.HasPrefix(err.Error(), "panic:") || err != nil && strings.HasPrefix(err.Error(), "aborted") {
			*e = newC27Env((*e).rs) // the EVM was unwound by a panic: start from a clean one
		}
		if err != nil || r.Replaying() {
			r.Case(c27Case{(*e).rs.Name, mode, pro.Name, fmt.Sprintf("%x", prog), gas, value, kind}, func() error { return err })
		} else {
			*evals++
		}
		return res, err == nil
	}
	base, ok := exec("baseline", baseGas)
	if !ok {
		return
	}
	outcomes[base.class]++
	t := (*e).tr
	key := make([]byte, 0, 96)
	key = append(append(append(append(key, (*e).rs.Name...), mode...), pro.Name...), base.class...)
	key = append(key, t.ops[min(proSteps, len(t.ops)):]...)
	r.DistinctHash(mc.Hash64(string(key)))
	if !grid {
		return
	}
	if len(prog) >= 2 && len(t.top) <= proSteps+1 && !bytes.Equal(prog[1:], make([]byte, len(prog)-1)) {
		// the run ended at the first instruction after the prologue: the remaining bytes were never
		// reached; the gas grid of this behaviour is explored by the instance whose tail is all zero
		outcomes["(grid skipped: tail bytes not reached)"]++
		return
	}
	// copy the outermost frame's steps: the tracer is reused by the grid runs
	top := append([]c27Step{}, t.top...)
	topErrAt := t.topErrAt
	predictable := !base.gasObs && !base.nested
	for i := proSteps; i < len(top); i++ {
		if i == topErrAt {
			continue // the faulting instruction of the baseline was not charged
		}
		before := baseGas - top[i].gas
		// (a) one gas unit short for instruction i
		if g := before + top[i].cost; g > 0 {
			res, ok := exec("grid", g-1)
			if !ok {
				return
			}
			gridOut[res.class]++
			if predictable && top[i].cost > 0 {
				if res.class != "oog" && res.class != "gas-overflow" {
					r.Case(c27Case{(*e).rs.Name, mode, pro.Name, fmt.Sprintf("%x", prog), g - 1, value, "grid"}, func() error {
						return fmt.Errorf("with %d gas (one short of instruction #%d costing %d) the run ended with %q instead of out-of-gas", g-1, i, top[i].cost, res.class)
					})
					return
				}
				if res.nTop != i+1 {
					r.Case(c27Case{(*e).rs.Name, mode, pro.Name, fmt.Sprintf("%x", prog), g - 1, value, "grid"}, func() error {
						return fmt.Errorf("with %d gas the run stopped after %d instructions, expected to fail at instruction #%d", g-1, res.nTop, i)
					})
					return
				}
			}
		}
		// (b) exactly enough for instruction i
		g := before + top[i].cost
		res, ok := exec("grid", g)
		if !ok {
			return
		}
		gridOut[res.class]++
		if predictable && res.nTop < i+1 {
			r.Case(c27Case{(*e).rs.Name, mode, pro.Name, fmt.Sprintf("%x", prog), g, value, "grid"}, func() error {
				return fmt.Errorf("with %d gas (exactly enough for instruction #%d) only %d instructions ran (%s)", g, i, res.nTop, res.class)
			})
			return
		}
		if predictable && i == len(top)-1 && topErrAt < 0 && mode == "call" {
			// the whole program is paid for exactly: same result, nothing left; one more unit: one left
			if res.class != base.class || !bytes.Equal(res.ret, base.ret) || res.left.ExecutionGas != 0 {
				r.Case(c27Case{(*e).rs.Name, mode, pro.Name, fmt.Sprintf("%x", prog), g, value, "grid"}, func() error {
					return fmt.Errorf("with exactly the %d gas the baseline used: %s ret=%x left=%d; baseline %s ret=%x", g, res.class, res.ret, res.left.ExecutionGas, base.class, base.ret)
				})
				return
			}
			res1, ok := exec("grid", g+1)
			if !ok {
				return
			}
			wantLeft := uint64(1)
			if base.err != nil && base.class != "revert" {
				wantLeft = 0 // exceptional halts consume everything
			}
			if res1.class != base.class || res1.left.ExecutionGas != wantLeft {
				r.Case(c27Case{(*e).rs.Name, mode, pro.Name, fmt.Sprintf("%x", prog), g + 1, value, "grid"}, func() error {
					return fmt.Errorf("with one gas unit more than needed: %s left=%d", res1.class, res1.left.ExecutionGas)
				})
				return
			}
		}
	}
}

// c27ReplayTarget returns the case to replay (VERIF_REPLAY), so that the
// enumeration can skip everything else instead of re-running the whole space.
func c27ReplayTarget() *c27Case {
	p := os.Getenv("VERIF_REPLAY")
	if p == "" {
		return nil
	}
	raw, err := os.ReadFile(p)
	if err != nil {
		return nil
	}
	var f struct {
		Replay c27Case `json:"replay"`
	}
	if json.Unmarshal(raw, &f) != nil || f.Replay.Fork == "" {
		return nil
	}
	return &f.Replay
}

func c27ProSteps(p progx.Prologue) int { return p.Depth } // one instruction per item (PUSH / DUP)

func TestVerif_C27(t *testing.T) {
	mc.Run(t, "C27", func(r *mc.R) {
		forks := mc.Pick(r, []string{"Frontier", "Byzantium", "London", "Cancun", "Amsterdam"}, progx.ForkNames)
		allPro := progx.Prologues()
		proByName := map[string]progx.Prologue{}
		for _, p := range allPro {
			proByName[p.Name] = p
		}
		mainPro := mc.Pick(r, []string{"small", "huge", "mixed"}, []string{"small", "huge", "mixed", "zeros", "ones", "bigoff", "bigsize", "callA", "create", "signed", "precomp", "empty"})
		maxLen := 2
		r.Rule("program = stack prologue ++ every byte string of length <=L over all 256 byte values, run as (call, value 0) and (create, value 1; quick tier: only the 'mixed' prologue at L=2; thorough: small, huge, mixed, zeros, bigoff, create) under each rule set: " +
			"a baseline run with 10^7 gas, then the exact-cost grid derived from the baseline's own trace (for every instruction after the prologue: one gas unit short of it, exactly enough for it; exactly the total and total+1). " +
			"Every other prologue (incl. 1023-item 'full' and 'empty') with all strings of length <=1. A tracer checks every step of every frame. " +
			"distinct = distinct (rule set, mode, prologue, outcome class, executed opcode sequence)")
		r.Bound("forks", forks)
		r.Bound("prologues_L2", mainPro)
		r.Bound("max_len", maxLen)
		r.Bound("baseline_gas", c27BaseGas)
		r.Assume("invariants: no panic; stack <= 1024 at every step; memory length == the size the previous instruction was charged for (Yellow Paper mu_i') and its fee was included in the step's cost; " +
			"gas'[i+1] == gas[i]-cost[i] (+ child leftover); child frames never use more than given; leftover <= gas, == 0 on exceptional halt, == gas before last instruction - cost (- code deposit); steps <= gas + 2301*frames + 1; stack below call operands unchanged by child frames")
		r.Assume("Amsterdam/Bogota: the execution-gas chaining is only asserted across instructions that cannot touch state gas (the two-dimensional accounting is property C31)")

		type shard struct {
			fork, mode, pro string
			length          int
			first           int
			value           uint64
			grid            bool
		}
		var shards []shard
		for _, f := range forks {
			for _, m := range []struct {
				mode  string
				value uint64
			}{{"call", 0}, {"create", 1}} {
				for _, p := range allPro {
					main := false
					for _, n := range mainPro {
						if n == p.Name {
							main = true
						}
					}
					shards = append(shards, shard{f, m.mode, p.Name, 0, -1, m.value, true})
					shards = append(shards, shard{f, m.mode, p.Name, 1, -1, m.value, true})
					if m.mode == "create" && r.Quick() && p.Name != "mixed" {
						main = false
					}
					if m.mode == "create" && r.Thorough() && !map[string]bool{"small": true, "huge": true, "mixed": true, "zeros": true, "bigoff": true, "create": true}[p.Name] {
						main = false
					}
					if main && maxLen >= 2 {
						for b := 0; b < 256; b += 8 {
							shards = append(shards, shard{f, m.mode, p.Name, 2, b, m.value, true})
						}
					}
				}
			}
		}
		// interleave cheap and expensive shards deterministically
		total := map[string]int64{}
		var tmu = make(chan struct{}, 1)
		tmu <- struct{}{}
		var maxStack, maxMem int
		target := c27ReplayTarget()
		// the small structured families first: they must complete even when the machine is so loaded
		// that the byte-string enumeration below runs into the deadline
		c27Depth(r, forks, target)
		c27StackBound(r, forks, target)
		c27Args(r, forks, target)
		c27Struct(r, forks, target)
		r.Parallel(len(shards), func(si int) {
			sh := shards[si]
			if target != nil && (target.Fork != sh.fork || target.Mode != sh.mode || target.Prologue != sh.pro || len(target.Prog) != 2*sh.length) {
				return
			}
			env := newC27Env(progx.Fork(sh.fork))
			pro := proByName[sh.pro]
			out, gout := map[string]int64{}, map[string]int64{}
			var evals int64
			ms, mm := 0, 0
			do := func(prog []byte) {
				if target != nil && target.Prog != fmt.Sprintf("%x", prog) {
					return
				}
				c27Program(r, &env, sh.mode, pro, c27ProSteps(pro), prog, sh.value, sh.grid, &evals, out, gout, c27BaseGas)
				if env.tr.maxStack > ms {
					ms = env.tr.maxStack
				}
				if env.tr.maxMem > mm {
					mm = env.tr.maxMem
				}
			}
			switch sh.length {
			case 0:
				do(nil)
			case 1:
				for b := 0; b < 256; b++ {
					do([]byte{byte(b)})
				}
			default:
				for b := sh.first; b < sh.first+8; b++ {
					if r.Expired() {
						break
					}
					progx.AllBytes(sh.length, b, func(s []byte) { do(s) })
				}
			}
			r.Eval(evals)
			<-tmu
			for k, v := range out {
				total[k] += v
			}
			for k, v := range gout {
				total["grid:"+k] += v
			}
			if ms > maxStack {
				maxStack = ms
			}
			if mm > maxMem {
				maxMem = mm
			}
			tmu <- struct{}{}
			if si%97 == 0 {
				r.Sample(map[string]any{"fork": sh.fork, "mode": sh.mode, "prologue": sh.pro, "len": sh.length, "first_byte": sh.first})
			}
		})
		for k, v := range total {
			r.OutcomeN(k, v)
		}
		r.Bound("max_stack_seen", maxStack)
		r.Bound("max_memory_seen", maxMem)
	})
}

// c27CountInstr counts the instructions of a straight-line code fragment.
func c27CountInstr(code []byte) int {
	n := 0
	for i := 0; i < len(code); i++ {
		if code[i] >= 0x60 && code[i] <= 0x7f {
			i += int(code[i]) - 0x5f
		}
		n++
	}
	return n
}

// c27Args: per-opcode argument grids for every instruction with memory
// operands: offsets and lengths range over boundary values around the word
// size, 2^32, the 0x1FFFFFFFE0 limit of the fee computation, 2^63, 2^64 and 2^256.
func c27Args(r *mc.R, forks []string, target *c27Case) {
	big1 := func(s string) *big.Int { v, _ := new(big.Int).SetString(s, 0); return v }
	W := []*big.Int{big.NewInt(0), big.NewInt(1), big.NewInt(31), big.NewInt(32), big.NewInt(33), big.NewInt(1 << 16),
		big1("0xffffffff"), big1("0x100000000"), big1("0x1fffffffc1"), big1("0x1fffffffe0"), big1("0x1fffffffe1"),
		big1("0x8000000000000000"), big1("0xffffffffffffffdf"), big1("0xffffffffffffffe0"), big1("0xffffffffffffffff"),
		big1("0x10000000000000000"), big1("0xffffffffffffffffffffffffffffffffffffffffffffffffffffffffffffffff")}
	W4 := []*big.Int{W[0], W[1], W[3], W[7], W[9], W[13], W[14], W[15], W[16]}
	if r.Quick() {
		W4 = []*big.Int{W[0], W[3], W[7], W[9], W[14], W[16]}
	}
	SRC := []*big.Int{W[0], W[1], W[3], W[4], W[14], W[16]}
	type spec struct {
		op    byte
		since string
		// operands top-first; each is either a fixed value or a set index: 0 = fixed, 1 = W, 2 = W4, 3 = SRC
		sets  []int
		fixed []*big.Int
		pre   []byte // code executed before the operands are pushed
	}
	addrB := new(big.Int).SetBytes(progx.AddrB[:])
	gasv := big.NewInt(50000)
	callB := progx.New().CallKind(progx.CALL, progx.AddrB, nil, 0).Op(progx.POP).Bytes()
	specs := []spec{
		{progx.KECCAK256, "Frontier", []int{1, 1}, nil, nil},
		{progx.MLOAD, "Frontier", []int{1}, nil, nil},
		{progx.MSTORE, "Frontier", []int{1, 0}, []*big.Int{nil, W[16]}, nil},
		{progx.MSTORE8, "Frontier", []int{1, 0}, []*big.Int{nil, W[16]}, nil},
		{progx.CALLDATACOPY, "Frontier", []int{1, 3, 1}, nil, nil},
		{progx.CODECOPY, "Frontier", []int{1, 3, 1}, nil, nil},
		{progx.RETURNDATACOPY, "Byzantium", []int{1, 3, 1}, nil, callB},
		{progx.EXTCODECOPY, "Frontier", []int{0, 1, 3, 1}, []*big.Int{addrB, nil, nil, nil}, nil},
		{progx.MCOPY, "Cancun", []int{1, 1, 1}, nil, nil},
		{progx.LOG0, "Frontier", []int{1, 1}, nil, nil},
		{progx.LOG2, "Frontier", []int{1, 1, 0, 0}, []*big.Int{nil, nil, W[1], W[16]}, nil},
		{progx.RETURN, "Frontier", []int{1, 1}, nil, nil},
		{progx.REVERT, "Byzantium", []int{1, 1}, nil, nil},
		{progx.CREATE, "Frontier", []int{0, 1, 1}, []*big.Int{W[0], nil, nil}, nil},
		{progx.CREATE2, "Constantinople", []int{0, 1, 1, 0}, []*big.Int{W[0], nil, nil, W[1]}, nil},
		{progx.CALL, "Frontier", []int{0, 0, 0, 2, 2, 2, 2}, []*big.Int{gasv, addrB, W[0], nil, nil, nil, nil}, nil},
		{progx.CALLCODE, "Frontier", []int{0, 0, 0, 2, 2, 2, 2}, []*big.Int{gasv, addrB, W[0], nil, nil, nil, nil}, nil},
		{progx.DELEGATECALL, "Homestead", []int{0, 0, 2, 2, 2, 2}, []*big.Int{gasv, addrB, nil, nil, nil, nil}, nil},
		{progx.STATICCALL, "Byzantium", []int{0, 0, 2, 2, 2, 2}, []*big.Int{gasv, addrB, nil, nil, nil, nil}, nil},
	}
	sets := [][]*big.Int{nil, W, W4, SRC}
	operand := func(kinds []int, fixed []*big.Int, j int, sets [][]*big.Int, idx []int) *big.Int {
		if kinds[j] == 0 {
			return fixed[j]
		}
		return sets[kinds[j]][idx[j]]
	}
	type shard struct {
		fork string
		sp   int
	}
	var shards []shard
	for _, f := range forks {
		for i, sp := range specs {
			if progx.Fork(f).At(sp.since) {
				shards = append(shards, shard{f, i})
			}
		}
	}
	r.Bound("args.memory_opcodes", len(specs))
	r.Bound("args.boundary_values", len(W))
	total := map[string]int64{}
	mu := make(chan struct{}, 1)
	mu <- struct{}{}
	r.Parallel(len(shards), func(si int) {
		sh := shards[si]
		sp := specs[sh.sp]
		if target != nil && (target.Fork != sh.fork || target.Mode != "call" || !strings.HasPrefix(target.Prologue, fmt.Sprintf("args:%02x:", sp.op))) {
			return
		}
		env := newC27Env(progx.Fork(sh.fork))
		out, gout := map[string]int64{}, map[string]int64{}
		var evals int64
		idx := make([]int, len(sp.sets))
		var rec func(k int)
		rec = func(k int) {
			if r.Expired() {
				return
			}
			if k == len(sp.sets) {
				p := progx.New().Raw(sp.pre)
				name := fmt.Sprintf("args:%02x:", sp.op)
				for j := len(sp.sets) - 1; j >= 0; j-- { // push the deepest operand first
					p.PushBig(operand(sp.sets, sp.fixed, j, sets, idx))
				}
				for j := range sp.sets {
					name += fmt.Sprintf("%x,", operand(sp.sets, sp.fixed, j, sets, idx))
				}
				pro := progx.Prologue{Name: name, Code: p.Bytes(), Depth: len(sp.sets)}
				if target != nil && target.Prologue != name {
					return
				}
				c27Program(r, &env, "call", pro, c27CountInstr(pro.Code), []byte{sp.op}, 0, true, &evals, out, gout, c27BaseGas)
				return
			}
			n := 1
			if sp.sets[k] > 0 {
				n = len(sets[sp.sets[k]])
			}
			for i := 0; i < n; i++ {
				idx[k] = i
				rec(k + 1)
			}
		}
		rec(0)
		r.Eval(evals)
		<-mu
		for k, v := range out {
			total["args:"+k] += v
		}
		for k, v := range gout {
			total["args:grid:"+k] += v
		}
		mu <- struct{}{}
	})
	for k, v := range total {
		r.OutcomeN(k, v)
	}
}

// c27Struct: structured programs - loops until out of gas, stack growth to the
// limit, recursion through every frame-creating instruction down to the depth
// limit, instructions with immediates on a full stack, calls of every precompile.
func c27Struct(r *mc.R, forks []string, target *c27Case) {
	type prog struct {
		name string
		pro  string // prologue name ("" = none)
		code []byte
	}
	var progs []prog
	add := func(name, pro string, code []byte) { progs = append(progs, prog{name, pro, code}) }
	J, JD := progx.JUMP, progx.JUMPDEST
	add("loop", "", progx.New().Op(JD).Push(0).Op(J).Bytes())
	add("loop-mem", "", progx.New().Op(JD, progx.MSIZE, progx.MLOAD, progx.POP).Push(0).Op(J).Bytes())
	add("loop-mstore8", "", progx.New().Op(JD, progx.MSIZE, progx.MSIZE, progx.MSTORE8).Push(0).Op(J).Bytes())
	add("loop-push", "", progx.New().Op(JD).Push(1).Push(0).Op(J).Bytes())
	add("loop-dup", "", progx.New().Push(1).Op(JD, progx.DUP1).Push(2).Op(J).Bytes())
	add("loop-keccak", "", progx.New().Op(JD, progx.MSIZE).Push(0).Op(progx.KECCAK256, progx.MSIZE, progx.MSTORE).Push(0).Op(J).Bytes())
	add("loop-log", "", progx.New().Op(JD, progx.MSIZE).Push(0).Op(progx.LOG0).Push(0).Op(J).Bytes())
	add("loop-sstore", "", progx.New().Op(JD, progx.GAS, progx.DUP1, progx.SSTORE).Push(0).Op(J).Bytes())
	for _, op := range []byte{progx.CALL, progx.CALLCODE, progx.DELEGATECALL, progx.STATICCALL} {
		add(fmt.Sprintf("recurse-%02x", op), "", progx.New().CallKind(op, progx.AddrA, nil, 0).Op(progx.POP).Bytes())
		add(fmt.Sprintf("recurse-twice-%02x", op), "", progx.New().
			CallKind(op, progx.AddrA, nil, 0).Op(progx.POP).CallKind(op, progx.AddrA, nil, 0).Op(progx.POP).Bytes())
	}
	for _, op := range []byte{progx.CREATE, progx.CREATE2} {
		// copy own code to memory and create with it as initcode
		p := progx.New().Op(progx.CODESIZE).Push(0).Push(0).Op(progx.CODECOPY)
		if op == progx.CREATE2 {
			p.Op(progx.GAS) // salt
		}
		p.Op(progx.CODESIZE).Push(0).Push(0).Op(op, progx.POP)
		add(fmt.Sprintf("recurse-%02x", op), "", p.Bytes())
	}
	add("selfdestruct-self", "", progx.New().Op(progx.ADDRESS, progx.SELFDESTRUCT).Bytes())
	add("selfdestruct-other", "", progx.New().PushAddr(progx.AddrC).Op(progx.SELFDESTRUCT).Bytes())
	add("call-value-new-account", "", progx.New().CallKind(progx.CALL, common.HexToAddress("0xdead"), nil, 1).Bytes())
	for _, tail := range [][]byte{{0xe6, 0x80}, {0xe6, 0x80, 0xe6, 0x80}, {0xe7, 0x80}, {0xe8, 0x01}, {0xe6, 0x5b}, {0xe6}, {0x5f, 0x5f}, {0x80, 0x80}, {0x58, 0x58}, {0x60}, {0x7f}} {
		add(fmt.Sprintf("full-stack-%x", tail), "full", tail)
		add(fmt.Sprintf("small-stack-%x", tail), "small", tail)
	}
	for a := 1; a <= 0x14; a++ {
		for _, n := range []uint64{0, 1, 32, 64, 96, 128, 192, 213, 384, 1024} {
			p := progx.New().Push(1).Push(0).Op(progx.MSTORE8) // memory[0] = 1
			p.Push(64).Push(0).Push(n).Push(0).Push(0).Push(uint64(a)).Op(progx.GAS, progx.CALL)
			add(fmt.Sprintf("precompile-%02x-in%d", a, n), "", p.Bytes())
		}
	}
	allPro := progx.Prologues()
	proOf := func(name string) progx.Prologue {
		for _, p := range allPro {
			if p.Name == name {
				return p
			}
		}
		return progx.Prologue{Name: "struct"}
	}
	gases := mc.Pick(r, []uint64{100_000, 1_000_000}, []uint64{100_000, 1_000_000, 10_000_000})
	r.Bound("struct.programs", len(progs))
	r.Bound("struct.gas", gases)
	type shard struct {
		fork string
		p    int
	}
	var shards []shard
	for _, f := range forks {
		for i := range progs {
			shards = append(shards, shard{f, i})
		}
	}
	total := map[string]int64{}
	mu := make(chan struct{}, 1)
	mu <- struct{}{}
	var deepest uint64
	r.Parallel(len(shards), func(si int) {
		sh := shards[si]
		pg := progs[sh.p]
		pro := proOf(pg.pro)
		pro.Name = "struct:" + pg.name
		if target != nil && (target.Fork != sh.fork || target.Prologue != pro.Name) {
			return
		}
		env := newC27Env(progx.Fork(sh.fork))
		out, gout := map[string]int64{}, map[string]int64{}
		var evals int64
		for _, g := range gases {
			for _, mode := range []string{"call", "create"} {
				if target != nil && target.Mode != mode {
					continue
				}
				// exact-cost grid only for the short programs (a loop has millions of steps)
				grid := strings.HasPrefix(pg.name, "full-stack") || strings.HasPrefix(pg.name, "small-stack") || strings.HasPrefix(pg.name, "selfdestruct")
				c27Program(r, &env, mode, pro, c27CountInstr(pro.Code), pg.code, 0, grid && g == gases[0], &evals, out, gout, g)
				<-mu
				if env.tr.steps > deepest {
					deepest = env.tr.steps
				}
				mu <- struct{}{}
			}
		}
		r.Eval(evals)
		<-mu
		for k, v := range out {
			total["struct:"+k] += v
		}
		for k, v := range gout {
			total["struct:grid:"+k] += v
		}
		mu <- struct{}{}
	})
	for k, v := range total {
		r.OutcomeN(k, v)
	}
	r.Bound("struct.max_steps_in_one_run", deepest)
}

// ---------------------------------------------------------------------------
// Stack-depth boundary family: every instruction whose operand depth is fixed by
// the opcode (DUP1-16, SWAP1-16) or decoded from an immediate (EIP-8024 DUPN,
// SWAPN, EXCHANGE) is executed on stacks of height R-2..R+2 around the height R
// it requires, as the outermost frame and inside a child frame whose parent
// holds sentinel operands.

// c27DecodeSingle / c27DecodePair transcribe decode_single / decode_pair of EIP-8024
// (immediates 91..127 resp. 82..127 are invalid so that no immediate is a JUMPDEST or PUSH).
func c27DecodeSingle(x int) (n int, ok bool) {
	if x >= 91 && x <= 127 {
		return 0, false
	}
	return (x + 145) % 256, true
}

func c27DecodePair(x int) (n, m int, ok bool) {
	if x >= 82 && x <= 127 {
		return 0, 0, false
	}
	k := x ^ 143
	q, r := k/16, k%16
	if q < r {
		return q + 1, r + 1, true
	}
	return r + 1, 29 - q, true
}

type c27DepthOp struct {
	name     string
	code     []byte // opcode (+ immediate)
	since    string
	valid    bool                       // false: invalid immediate => invalid opcode whatever the height (>= 2)
	required int                        // R: stack items needed
	apply    func(st []uint64) []uint64 // reference effect on a stack (bottom..top) of height >= R
}

func c27DepthOps() []c27DepthOp {
	var ops []c27DepthOp
	swap := func(a, b int) func([]uint64) []uint64 { // a, b: 1-based positions from the top
		return func(st []uint64) []uint64 {
			out := append([]uint64{}, st...)
			n := len(out)
			out[n-a], out[n-b] = out[n-b], out[n-a]
			return out
		}
	}
	dup := func(a int) func([]uint64) []uint64 {
		return func(st []uint64) []uint64 { return append(append([]uint64{}, st...), st[len(st)-a]) }
	}
	for k := 1; k <= 16; k++ {
		ops = append(ops, c27DepthOp{fmt.Sprintf("DUP%d", k), []byte{byte(0x7f + k)}, "Frontier", true, k, dup(k)})
		ops = append(ops, c27DepthOp{fmt.Sprintf("SWAP%d", k), []byte{byte(0x8f + k)}, "Frontier", true, k + 1, swap(1, k+1)})
	}
	for x := 0; x < 256; x++ {
		if n, ok := c27DecodeSingle(x); ok {
			ops = append(ops, c27DepthOp{fmt.Sprintf("DUPN[%#02x]=%d", x, n), []byte{progx.DUPN, byte(x)}, "Amsterdam", true, n, dup(n)})
			ops = append(ops, c27DepthOp{fmt.Sprintf("SWAPN[%#02x]=%d", x, n), []byte{progx.SWAPN, byte(x)}, "Amsterdam", true, n + 1, swap(1, n+1)})
		} else {
			ops = append(ops, c27DepthOp{fmt.Sprintf("DUPN[%#02x]=invalid", x), []byte{progx.DUPN, byte(x)}, "Amsterdam", false, 0, nil})
			ops = append(ops, c27DepthOp{fmt.Sprintf("SWAPN[%#02x]=invalid", x), []byte{progx.SWAPN, byte(x)}, "Amsterdam", false, 0, nil})
		}
		if n, m, ok := c27DecodePair(x); ok {
			ops = append(ops, c27DepthOp{fmt.Sprintf("EXCHANGE[%#02x]=%d,%d", x, n, m), []byte{progx.EXCHANGE, byte(x)}, "Amsterdam", true, max(n, m) + 1, swap(n+1, m+1)})
		} else {
			ops = append(ops, c27DepthOp{fmt.Sprintf("EXCHANGE[%#02x]=invalid", x), []byte{progx.EXCHANGE, byte(x)}, "Amsterdam", false, 0, nil})
		}
	}
	// a missing immediate (code ends after the opcode) reads as 0x00
	n0, _ := c27DecodeSingle(0)
	ops = append(ops, c27DepthOp{"DUPN[missing]", []byte{progx.DUPN}, "Amsterdam", true, n0, dup(n0)})
	ops = append(ops, c27DepthOp{"SWAPN[missing]", []byte{progx.SWAPN}, "Amsterdam", true, n0 + 1, swap(1, n0+1)})
	a0, b0, _ := c27DecodePair(0)
	ops = append(ops, c27DepthOp{"EXCHANGE[missing]", []byte{progx.EXCHANGE}, "Amsterdam", true, max(a0, b0) + 1, swap(a0+1, b0+1)})
	return ops
}

func c27Depth(r *mc.R, forks []string, target *c27Case) {
	ops := c27DepthOps()
	contexts := []struct {
		name  string
		op    byte
		since string
	}{{"outer", 0, "Frontier"}, {"CALL", progx.CALL, "Frontier"}, {"DELEGATECALL", progx.DELEGATECALL, "Homestead"}, {"STATICCALL", progx.STATICCALL, "Byzantium"}}
	sentinels := []uint64{0xdead01, 0xdead02, 0xdead03}
	r.Bound("depth.instructions", len(ops))
	r.Bound("depth.heights", "R-2..R+2 around the required height R (invalid immediates: heights 2 and 20)")
	r.Assume("EIP-8024: decode_single(x) = (x+145) mod 256 for x outside 91..127; decode_pair(x): k = x xor 143, (q,r) = divmod(k,16), (q+1,r+1) if q<r else (r+1,29-q), x outside 82..127; " +
		"DUPN n needs n items, SWAPN n needs n+1, EXCHANGE (n,m) needs max(n,m)+1; a missing immediate reads as 0")
	type shard struct {
		fork string
		lo   int
	}
	const chunk = 32
	var shards []shard
	for _, f := range forks {
		for lo := 0; lo < len(ops); lo += chunk {
			shards = append(shards, shard{f, lo})
		}
	}
	total := map[string]int64{}
	mu := make(chan struct{}, 1)
	mu <- struct{}{}
	r.Parallel(len(shards), func(si int) {
		sh := shards[si]
		if target != nil && (target.Fork != sh.fork || !strings.HasPrefix(target.Prologue, "depth:")) {
			return
		}
		rs := progx.Fork(sh.fork)
		env := newC27Env(rs)
		out := map[string]int64{}
		var evals int64
		for _, op := range ops[sh.lo:min(sh.lo+chunk, len(ops))] {
			if !rs.At(op.since) || r.Expired() {
				continue
			}
			heights := []int{2, 20}
			if op.valid {
				heights = heights[:0]
				for h := op.required - 2; h <= op.required+2; h++ {
					if h >= 0 {
						heights = append(heights, h)
					}
				}
			}
			for _, h := range heights {
				// the code under test: h distinct items, then the instruction, then (implicit) STOP
				body := progx.New()
				ref := make([]uint64, h)
				for i := 0; i < h; i++ {
					ref[i] = uint64(0x100 + i)
					body.Op(progx.PUSH2, byte(ref[i]>>8), byte(ref[i]))
				}
				body.Raw(op.code)
				want := "success"
				switch {
				case !op.valid:
					want = "invalid-opcode"
				case h < op.required:
					want = "stack-underflow"
				}
				for _, cx := range contexts {
					if !rs.At(cx.since) {
						continue
					}
					name := fmt.Sprintf("depth:%s:%s:h%d", cx.name, op.name, h)
					if target != nil && target.Prologue != name {
						continue
					}
					var code []byte
					env.calleeCode = nil
					env.tr.capDepth = 1
					if cx.op != 0 {
						p := progx.New()
						for _, s := range sentinels {
							p.Push(s)
						}
						childGas := uint64(1_000_000) // explicit: before EIP-150 a request for all remaining gas cannot be paid
						code = p.CallKind(cx.op, progx.AddrB, &childGas, 0).Op(progx.POP, progx.STOP).Bytes()
						env.calleeCode = body.Bytes()
						env.tr.capDepth = 2
					} else {
						code = body.Bytes()
					}
					var res c27Result
					verr := mc.Safely(func() error {
						var e2 error
						res, e2 = env.run("call", code, c27BaseGas, 0)
						if e2 != nil {
							return e2
						}
						got := res.class
						if cx.op != 0 {
							if res.class != "success" {
								return fmt.Errorf("the parent frame ended with %s", res.class)
							}
							if len(env.tr.childClass) != 1 {
								return fmt.Errorf("expected exactly one child frame, saw %v", env.tr.childClass)
							}
							got = env.tr.childClass[0]
						}
						if got != want {
							return fmt.Errorf("%s on a stack of %d items (needs %d): outcome %s, expected %s", op.name, h, op.required, got, want)
						}
						if want == "success" {
							exp := op.apply(ref)
							st := env.tr.capStack
							if len(st) != len(exp) {
								return fmt.Errorf("%s: stack has %d items afterwards, expected %d", op.name, len(st), len(exp))
							}
							for i := range exp {
								if !st[i].IsUint64() || st[i].Uint64() != exp[i] {
									return fmt.Errorf("%s on %d items: item %d (from the bottom) is %s afterwards, expected %#x", op.name, h, i, st[i].Hex(), exp[i])
								}
							}
						}
						return nil
					})
					if verr != nil && (strings.HasPrefix(verr.Error(), "panic:") || strings.HasPrefix(verr.Error(), "aborted")) {
						env = newC27Env(rs)
					}
					if verr != nil || r.Replaying() {
						r.Case(c27Case{sh.fork, "call", name, fmt.Sprintf("%x", op.code), c27BaseGas, 0, "baseline"}, func() error { return verr })
					} else {
						evals++
					}
					out[cx.name+":"+want]++
					r.DistinctHash(mc.Hash64(sh.fork + name))
				}
			}
		}
		env.calleeCode = nil
		env.tr.capDepth = 0
		r.Eval(evals)
		<-mu
		for k, v := range out {
			total["depth:"+k] += v
		}
		mu <- struct{}{}
	})
	for k, v := range total {
		r.OutcomeN(k, v)
	}
}

// ---------------------------------------------------------------------------
// Stack-bound family: EVERY opcode byte of EVERY rule set at the stack heights
// around its own bounds, expected outcome from the Yellow Paper / EIP values of
// delta (items removed) and alpha (items added), NOT from the jump table.

type c27StackSpec struct {
	pops, pushes int
	since        string
	imm          []byte // immediate bytes appended (EIP-8024 instructions)
}

// c27StackTable: delta/alpha of every defined instruction and the rule set that
// introduced it (Yellow Paper appendix H; EIPs 7, 140, 145, 211, 214, 1014, 1052,
// 1344, 1884, 3198, 3855, 1153, 5656, 4844, 7516, 7939, 7843, 8024).
func c27StackTable() map[byte]c27StackSpec {
	t := map[byte]c27StackSpec{}
	set := func(since string, pops, pushes int, ops ...byte) {
		for _, o := range ops {
			t[o] = c27StackSpec{pops: pops, pushes: pushes, since: since}
		}
	}
	F := "Frontier"
	set(F, 0, 0, 0x00, 0x5b)                                           // STOP JUMPDEST
	set(F, 2, 1, 0x01, 0x02, 0x03, 0x04, 0x05, 0x06, 0x07, 0x0a, 0x0b) // arithmetic
	set(F, 3, 1, 0x08, 0x09)                                           // ADDMOD MULMOD
	set(F, 2, 1, 0x10, 0x11, 0x12, 0x13, 0x14, 0x16, 0x17, 0x18, 0x1a) // comparisons, bitwise, BYTE
	set(F, 1, 1, 0x15, 0x19)                                           // ISZERO NOT
	set("Constantinople", 2, 1, 0x1b, 0x1c, 0x1d)                      // SHL SHR SAR
	set("Osaka", 1, 1, 0x1e)                                           // CLZ
	set(F, 2, 1, 0x20)                                                 // KECCAK256
	set(F, 0, 1, 0x30, 0x32, 0x33, 0x34, 0x36, 0x38, 0x3a)             // ADDRESS ORIGIN CALLER CALLVALUE CALLDATASIZE CODESIZE GASPRICE
	set(F, 1, 1, 0x31, 0x35, 0x3b)                                     // BALANCE CALLDATALOAD EXTCODESIZE
	set(F, 3, 0, 0x37, 0x39)                                           // CALLDATACOPY CODECOPY
	set(F, 4, 0, 0x3c)                                                 // EXTCODECOPY
	set("Byzantium", 0, 1, 0x3d)                                       // RETURNDATASIZE
	set("Byzantium", 3, 0, 0x3e)                                       // RETURNDATACOPY
	set("Constantinople", 1, 1, 0x3f)                                  // EXTCODEHASH
	set(F, 1, 1, 0x40)                                                 // BLOCKHASH
	set(F, 0, 1, 0x41, 0x42, 0x43, 0x44, 0x45)                         // COINBASE TIMESTAMP NUMBER DIFFICULTY GASLIMIT
	set("Istanbul", 0, 1, 0x46, 0x47)                                  // CHAINID SELFBALANCE
	set("London", 0, 1, 0x48)                                          // BASEFEE
	set("Cancun", 1, 1, 0x49)                                          // BLOBHASH
	set("Cancun", 0, 1, 0x4a)                                          // BLOBBASEFEE
	set("Amsterdam", 0, 1, 0x4b)                                       // SLOTNUM
	set(F, 1, 0, 0x50, 0x56)                                           // POP JUMP
	set(F, 1, 1, 0x51, 0x54)                                           // MLOAD SLOAD
	set(F, 2, 0, 0x52, 0x53, 0x55, 0x57)                               // MSTORE MSTORE8 SSTORE JUMPI
	set(F, 0, 1, 0x58, 0x59, 0x5a)                                     // PC MSIZE GAS
	set("Cancun", 1, 1, 0x5c)                                          // TLOAD
	set("Cancun", 2, 0, 0x5d)                                          // TSTORE
	set("Cancun", 3, 0, 0x5e)                                          // MCOPY
	set("Shanghai", 0, 1, 0x5f)                                        // PUSH0
	for i := 0; i < 32; i++ {
		set(F, 0, 1, byte(0x60+i)) // PUSHn
	}
	for k := 1; k <= 16; k++ {
		set(F, k, k+1, byte(0x7f+k))   // DUPk
		set(F, k+1, k+1, byte(0x8f+k)) // SWAPk
	}
	for n := 0; n <= 4; n++ {
		set(F, n+2, 0, byte(0xa0+n)) // LOGn
	}
	set(F, 3, 1, 0xf0)                // CREATE
	set(F, 7, 1, 0xf1, 0xf2)          // CALL CALLCODE
	set(F, 2, 0, 0xf3)                // RETURN
	set("Homestead", 6, 1, 0xf4)      // DELEGATECALL
	set("Constantinople", 4, 1, 0xf5) // CREATE2
	set("Byzantium", 6, 1, 0xfa)      // STATICCALL
	set("Byzantium", 2, 0, 0xfd)      // REVERT
	set(F, 1, 0, 0xff)                // SELFDESTRUCT
	// EIP-8024 with one fixed valid immediate each (every immediate is covered by the depth family)
	n, _ := c27DecodeSingle(0x80)
	t[progx.DUPN] = c27StackSpec{n, n + 1, "Amsterdam", []byte{0x80}}
	t[progx.SWAPN] = c27StackSpec{n + 1, n + 1, "Amsterdam", []byte{0x80}}
	a, b, _ := c27DecodePair(0x01)
	t[progx.EXCHANGE] = c27StackSpec{max(a, b) + 1, max(a, b) + 1, "Amsterdam", []byte{0x01}}
	return t
}

func c27StackBound(r *mc.R, forks []string, target *c27Case) {
	table := c27StackTable()
	r.Bound("stackbound.opcode_bytes", 256)
	r.Bound("stackbound.defined_in_newest", len(table))
	r.Assume("stack-bound family: every opcode byte 0x00..0xff under each rule set, on a stack of h zero items for h in {delta-1, delta, 1024-(alpha-delta), 1024-(alpha-delta)+1, 1023, 1024} (undefined bytes: h in {0, 1024}), " +
		"as the outermost frame and inside a child frame: expected stack underflow if h < delta, stack overflow if h-delta+alpha > 1024, invalid opcode if the byte is not defined in the rule set, anything else otherwise; delta/alpha/introducing fork from the table transcribed in the harness")
	type shard struct {
		fork string
		lo   int
	}
	var shards []shard
	for _, f := range forks {
		for lo := 0; lo < 256; lo += 8 {
			shards = append(shards, shard{f, lo})
		}
	}
	total := map[string]int64{}
	mu := make(chan struct{}, 1)
	mu <- struct{}{}
	r.Parallel(len(shards), func(si int) {
		sh := shards[si]
		if target != nil && (target.Fork != sh.fork || !strings.HasPrefix(target.Prologue, "stackbound:")) {
			return
		}
		rs := progx.Fork(sh.fork)
		env := newC27Env(rs)
		out := map[string]int64{}
		var evals int64
		for b := sh.lo; b < sh.lo+8; b++ {
			if r.Expired() {
				break
			}
			spec, ok := table[byte(b)]
			defined := ok && rs.At(spec.since)
			heights := []int{0, 1024}
			if defined {
				net := spec.pushes - spec.pops
				heights = heights[:0]
				for _, h := range []int{spec.pops - 1, spec.pops, 1024 - net, 1024 - net + 1, 1023, 1024} {
					dup := false
					for _, x := range heights {
						dup = dup || x == h
					}
					if h >= 0 && h <= 1024 && !dup {
						heights = append(heights, h)
					}
				}
			}
			for _, h := range heights {
				body := progx.New()
				if h > 0 {
					body.Push(0)
					for i := 1; i < h; i++ {
						body.Op(progx.DUP1)
					}
				}
				body.Op(byte(b))
				if defined {
					body.Raw(spec.imm)
				}
				want := "other"
				switch {
				case !defined:
					want = "invalid-opcode"
				case h < spec.pops:
					want = "stack-underflow"
				case h-spec.pops+spec.pushes > 1024:
					want = "stack-overflow"
				}
				for _, ctx := range []string{"outer", "child"} {
					name := fmt.Sprintf("stackbound:%s:%02x:h%d", ctx, b, h)
					if target != nil && target.Prologue != name {
						continue
					}
					var code []byte
					env.calleeCode = nil
					if ctx == "child" {
						childGas := uint64(2_000_000)
						code = progx.New().Push(0xdead01).CallKind(progx.CALL, progx.AddrB, &childGas, 0).Op(progx.POP, progx.STOP).Bytes()
						env.calleeCode = body.Bytes()
					} else {
						code = body.Bytes()
					}
					verr := mc.Safely(func() error {
						res, e2 := env.run("call", code, c27BaseGas, 0)
						if e2 != nil {
							return e2
						}
						got := res.class
						if ctx == "child" {
							if res.class != "success" {
								return fmt.Errorf("the parent frame ended with %s", res.class)
							}
							if len(env.tr.childClass) == 0 {
								return fmt.Errorf("no child frame ran")
							}
							got = env.tr.childClass[len(env.tr.childClass)-1] // the direct child exits last
						}
						switch got {
						case "stack-underflow", "stack-overflow", "invalid-opcode":
						default:
							got = "other"
						}
						if got != want {
							return fmt.Errorf("opcode %#02x (delta %d, alpha %d, defined=%v) on a stack of %d items: outcome %s, expected %s", b, spec.pops, spec.pushes, defined, h, got, want)
						}
						return nil
					})
					if verr != nil && (strings.HasPrefix(verr.Error(), "panic:") || strings.HasPrefix(verr.Error(), "aborted")) {
						env = newC27Env(rs)
					}
					if verr != nil || r.Replaying() {
						r.Case(c27Case{sh.fork, "call", name, fmt.Sprintf("%x", body.Bytes()[max(0, body.Len()-2):]), c27BaseGas, 0, "baseline"}, func() error { return verr })
					} else {
						evals++
					}
					out[ctx+":"+want]++
					r.DistinctHash(mc.Hash64(sh.fork + name))
				}
			}
		}
		env.calleeCode = nil
		r.Eval(evals)
		<-mu
		for k, v := range out {
			total["stackbound:"+k] += v
		}
		mu <- struct{}{}
	})
	for k, v := range total {
		r.OutcomeN(k, v)
	}
}
