//go:build verif

package runtime

import (
	"errors"
	"fmt"
	"math/big"
	"testing"

	"github.com/ethereum/go-ethereum/common"
	"github.com/ethereum/go-ethereum/core"
	"github.com/ethereum/go-ethereum/core/state"
	"github.com/ethereum/go-ethereum/core/tracing"
	"github.com/ethereum/go-ethereum/core/types"
	"github.com/ethereum/go-ethereum/core/vm"
	"github.com/ethereum/go-ethereum/internal/verif/mc"
	"github.com/ethereum/go-ethereum/internal/verif/progx"
	"github.com/ethereum/go-ethereum/params"
	"github.com/holiman/uint256"
)

// c30xRef: Yellow Paper definition of the valid jump destinations (same scan as
// in the white-box step; written again here because this is another package).
func c30xRef(code []byte) []bool {
	valid := make([]bool, len(code))
	for i := 0; i < len(code); {
		b := code[i]
		if b == 0x5b {
			valid[i] = true
		}
		if b >= 0x60 && b <= 0x7f {
			i += int(b) - 0x5f
		}
		i++
	}
	return valid
}

// c30xEnv builds an EVM like runtime.NewEnv but for an explicit rule set
// (runtime.setDefaults always sets Random, which makes pre-merge London+ inexpressible).
func c30xEnv(rs progx.RuleSet, st *state.StateDB, tr *tracing.Hooks) *vm.EVM {
	var random *common.Hash
	if rs.Merge {
		random = new(common.Hash)
	}
	bc := vm.BlockContext{
		CanTransfer:      core.CanTransfer,
		Transfer:         core.Transfer,
		GetHash:          func(uint64) common.Hash { return common.Hash{} },
		BlockNumber:      new(big.Int).Set(rs.Number),
		Time:             rs.Time,
		Difficulty:       new(big.Int),
		GasLimit:         30_000_000,
		BaseFee:          big.NewInt(params.InitialBaseFee),
		BlobBaseFee:      big.NewInt(1),
		Random:           random,
		CostPerStateByte: params.CostPerStateByte,
	}
	evm := vm.NewEVM(bc, st, rs.Config, vm.Config{Tracer: tr})
	evm.SetTxContext(vm.TxContext{Origin: progx.AddrOrigin, GasPrice: new(uint256.Int)})
	return evm
}

// c30xLongPush[n]: PUSHn sizes next to the 8/16-bit fast paths of the analysis.
var c30xLongPush = map[int]bool{1: true, 2: true, 7: true, 8: true, 9: true, 15: true, 16: true, 17: true, 23: true, 24: true, 25: true, 31: true, 32: true}

type c30xCase struct {
	Fork   string `json:"fork"`
	Cache  string `json:"cache"`
	Kind   string `json:"kind"` // JUMP | JUMPI
	Code   string `json:"code"` // deployed code (prefix + family code)
	Dest   string `json:"dest"`
	Cond   uint64 `json:"cond"`
	Family string `json:"family"`
}

// TestVerif_C30_exec checks the outcome of the JUMP / JUMPI opcodes executed by
// the real interpreter (both validJumpdest call sites, the per-EVM cache and the
// sharded LRU cache used by BlockChain) against the definition.
func TestVerif_C30_exec(t *testing.T) {
	mc.Run(t, "C30", func(r *mc.R) {
		// frame-entry / shared-cache part first (zz_verif_C30_frames_test.go)
		c30fFrames(r)
		forks := mc.Pick(r, []string{"Frontier", "Amsterdam"}, progx.ForkNames)
		maxItems := 2
		secondAll := mc.Pick(r, false, true) // second item: every PUSHn, or only the sizes around the 8/16-bit fast paths
		maxOff := mc.Pick(r, 16, 40)
		r.Rule("deployed code = dispatcher prefix (JUMP: PUSH1 0 CALLDATALOAD JUMP; JUMPI: PUSH1 32 CALLDATALOAD PUSH1 0 CALLDATALOAD JUMPI) ++ family code; " +
			"families: all sequences of <=maxItems items from {JUMPDEST,STOP,PUSH1..PUSH32 with 0x5b data} truncated at every length (quick: second item restricted to n in 1,2,7,8,9,15,16,17,23,24,25,31,32); k JUMPDESTs + PUSHn + every truncation (k<=maxOff). " +
			"Each deployed code is called with EVERY destination 0..len+1 (calldata) and huge destinations, JUMPI with cond 1 on every destination and cond in {0,2^255} on destinations {0, first valid, first 0x5b-in-data, >=len, huge}; " +
			"per fork x {per-EVM map cache, core.NewJumpDestCache sharded LRU shared by all codes of the shard}. " +
			"Expected: valid => no error and the next executed pc is the destination; invalid => ErrInvalidJump; cond=0 => no error. distinct = (deployed code, kind)")
		r.Bound("forks", forks)
		r.Bound("max_items", maxItems)
		r.Bound("second_item_every_push", secondAll)
		r.Bound("max_offset", maxOff)
		r.Assume("the dispatcher prefix contains no 0x5b and ends on an instruction boundary, so destinations inside the family code are shifted by the prefix length only")

		var items [][]byte
		items = append(items, []byte{0x5b}, []byte{0x00})
		for n := 1; n <= 32; n++ {
			it := []byte{byte(0x5f + n)}
			for i := 0; i < n; i++ {
				it = append(it, 0x5b)
			}
			items = append(items, it)
		}
		// the family codes, grouped into shards
		type fam struct {
			name  string
			codes [][]byte
		}
		var groups []fam
		{
			g := fam{name: "items"}
			g.codes = append(g.codes, []byte{})
			for _, a := range items {
				for cut := 1; cut <= len(a); cut++ {
					g.codes = append(g.codes, append([]byte{}, a[:cut]...))
				}
			}
			groups = append(groups, g)
			if maxItems >= 2 {
				for _, a := range items {
					g := fam{name: "items"}
					for bi, b := range items {
						if !secondAll && bi >= 2 && !c30xLongPush[len(b)-1] {
							continue
						}
						ab := append(append([]byte{}, a...), b...)
						for cut := len(a) + 1; cut <= len(ab); cut++ {
							g.codes = append(g.codes, append([]byte{}, ab[:cut]...))
						}
					}
					groups = append(groups, g)
				}
			}
			for off := 0; off <= maxOff; off++ {
				g := fam{name: "offset"}
				for n := 1; n <= 32; n++ {
					buf := make([]byte, off, off+n+4)
					for i := range buf {
						buf[i] = 0x5b
					}
					buf = append(buf, byte(0x5f+n))
					for m := 0; m <= n+2; m++ {
						g.codes = append(g.codes, append([]byte{}, buf...))
						buf = append(buf, 0x5b)
					}
				}
				groups = append(groups, g)
			}
		}
		prefixJ := progx.New().Push(0).Op(progx.CALLDATALOAD, progx.JUMP).Bytes()
		prefixI := progx.New().Push(32).Op(progx.CALLDATALOAD).Push(0).Op(progx.CALLDATALOAD, progx.JUMPI).Bytes()

		type shard struct {
			fork  string
			cache string
			g     int
		}
		var shards []shard
		for _, f := range forks {
			for gi := range groups {
				cache := "evm-map"
				if gi%2 == 1 {
					cache = "sharded-lru"
				}
				shards = append(shards, shard{f, cache, gi})
				if gi < 2 { // the two smallest groups run with both caches
					other := "sharded-lru"
					if cache == other {
						other = "evm-map"
					}
					shards = append(shards, shard{f, other, gi})
				}
			}
		}
		r.Parallel(len(shards), func(si int) {
			sh := shards[si]
			rs := progx.Fork(sh.fork)
			st, _ := state.New(types.EmptyRootHash, state.NewDatabaseForTesting())
			// tracer: remember the pcs of the outermost frame
			var pcs []uint64
			var ops []byte
			tr := &tracing.Hooks{OnOpcode: func(pc uint64, op byte, gas, cost uint64, scope tracing.OpContext, rData []byte, depth int, err error) {
				pcs = append(pcs, pc)
				ops = append(ops, op)
			}}
			evm := c30xEnv(rs, st, tr)
			if sh.cache == "sharded-lru" {
				evm.SetJumpDestCache(core.NewJumpDestCache())
			}
			var nValid, nInvalid, nFall int64
			addrN := uint64(0x1000)
			input := make([]byte, 64)
			for _, fc := range groups[sh.g].codes {
				if r.Expired() {
					return
				}
				for _, kind := range []string{"JUMP", "JUMPI"} {
					prefix := prefixJ
					if kind == "JUMPI" {
						prefix = prefixI
					}
					code := append(append([]byte{}, prefix...), fc...)
					ref := c30xRef(code)
					codeHex := fmt.Sprintf("%x", code)
					addrN++
					addr := common.BigToAddress(new(big.Int).SetUint64(addrN))
					st.CreateAccount(addr)
					st.SetCode(addr, code, tracing.CodeChangeUnspecified)
					r.DistinctHash(mc.Hash64(kind + string(code)))
					jumpPc := uint64(len(prefix) - 1)
					// destinations
					var dests []uint256.Int
					firstValid, firstData := -1, -1
					for p := 0; p <= len(code)+1; p++ {
						dests = append(dests, *uint256.NewInt(uint64(p)))
						if p < len(code) && ref[p] && firstValid < 0 {
							firstValid = p
						}
						if p < len(code) && code[p] == 0x5b && !ref[p] && firstData < 0 {
							firstData = p
						}
					}
					lo := uint64(0)
					if firstValid >= 0 {
						lo = uint64(firstValid)
					}
					dests = append(dests,
						uint256.Int{lo, 1, 0, 0}, uint256.Int{lo, 0, 0, 1}, uint256.Int{lo, 0, 0, 1 << 63},
						*uint256.NewInt(1<<32 + lo), *uint256.NewInt(1<<63 + lo), *uint256.NewInt(^uint64(0)))
					conds := []uint64{1}
					if kind == "JUMPI" {
						conds = []uint64{1, 0, 2}
					}
					for di := range dests {
						d := dests[di]
						for _, cond := range conds {
							// not-taken and high-bit-only conditions: a representative subset of destinations
							if cond != 1 && !(di == 0 || di == firstValid || di == firstData || di >= len(code)) {
								continue
							}
							want := d.IsUint64() && d.Uint64() < uint64(len(code)) && ref[d.Uint64()]
							db := d.Bytes32()
							copy(input[:32], db[:])
							cw := uint256.NewInt(cond)
							if cond == 2 {
								cw = new(uint256.Int).Lsh(uint256.NewInt(1), 255)
							}
							cb := cw.Bytes32()
							copy(input[32:], cb[:])
							c := c30xCase{sh.fork, sh.cache, kind, codeHex, d.Hex(), cond, groups[sh.g].name}
							r.Case(c, func() error {
								pcs, ops = pcs[:0], ops[:0]
								_, _, err := evm.Call(progx.AddrOrigin, addr, input, vm.NewGasBudget(100000, 0), new(uint256.Int))
								if kind == "JUMPI" && cond == 0 {
									nFall++
									if err != nil {
										return fmt.Errorf("JUMPI with zero condition failed: %v", err)
									}
									return nil
								}
								if !want {
									nInvalid++
									if !errors.Is(err, vm.ErrInvalidJump) {
										return fmt.Errorf("destination %s is not a valid JUMPDEST but %s returned err=%v", d.Hex(), kind, err)
									}
									return nil
								}
								nValid++
								if err != nil {
									return fmt.Errorf("destination %s is a valid JUMPDEST but %s failed: %v", d.Hex(), kind, err)
								}
								// the instruction executed after the jump is the JUMPDEST at the destination
								for i := range pcs {
									if pcs[i] == jumpPc {
										if i+1 >= len(pcs) || pcs[i+1] != d.Uint64() || ops[i+1] != 0x5b {
											return fmt.Errorf("after %s to %d the next executed pc/op is %v/%x", kind, d.Uint64(), pcs[i+1:], ops[i+1:])
										}
										return nil
									}
								}
								return fmt.Errorf("jump instruction at pc %d never executed (pcs %v)", jumpPc, pcs)
							})
						}
					}
				}
			}
			r.OutcomeN("exec:valid-jump", nValid)
			r.OutcomeN("exec:invalid-jump", nInvalid)
			r.OutcomeN("exec:jumpi-not-taken", nFall)
			if len(groups[sh.g].codes) > 0 {
				last := groups[sh.g].codes[len(groups[sh.g].codes)-1]
				r.Sample(map[string]any{"fork": sh.fork, "cache": sh.cache, "family": groups[sh.g].name, "last_code": fmt.Sprintf("%x", last)})
			}
		})
	})
}
