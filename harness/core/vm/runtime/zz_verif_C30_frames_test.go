//go:build verif

package runtime

import (
	"encoding/json"
	"errors"
	"fmt"
	"math/big"
	"os"

	"github.com/ethereum/go-ethereum/common"
	"github.com/ethereum/go-ethereum/core"
	"github.com/ethereum/go-ethereum/core/state"
	"github.com/ethereum/go-ethereum/core/tracing"
	"github.com/ethereum/go-ethereum/core/types"
	"github.com/ethereum/go-ethereum/core/vm"
	"github.com/ethereum/go-ethereum/crypto"
	"github.com/ethereum/go-ethereum/internal/verif/mc"
	"github.com/ethereum/go-ethereum/internal/verif/progx"
	"github.com/holiman/uint256"
)

// This part of C30 covers "cached analyses keyed by code hash give the same
// answer as a fresh analysis" for every way code reaches the interpreter and
// for a cache that is shared by several states in which the same address (and
// the same EIP-7702 delegating account) resolves to different byte codes.

// c30fRefData marks the immediate-data positions of a code (Yellow Paper scan).
func c30fRefData(code []byte) []bool {
	data := make([]bool, len(code))
	for i := 0; i < len(code); {
		b := code[i]
		i++
		if b >= 0x60 && b <= 0x7f {
			for n := int(b) - 0x5f; n > 0 && i < len(code); n-- {
				data[i] = true
				i++
			}
		}
	}
	return data
}

// c30fRec is the JumpDestCache handed to the EVMs. Every Load and Store is
// checked against the code of the frame that is executing at that moment (told
// by the tracer): the key must be keccak256 of that code and the bit vector
// must be the reference analysis of that code.
type c30fRec struct {
	inner               vm.JumpDestCache
	cur                 []byte // code of the frame executing right now
	viol                string
	loads, hits, stores int64
}

func (c *c30fRec) fail(format string, a ...any) {
	if c.viol == "" {
		c.viol = fmt.Sprintf(format, a...)
	}
}

func (c *c30fRec) check(what string, h common.Hash, vec vm.BitVec) {
	if c.cur == nil {
		c.fail("%s on the jumpdest cache while no frame is executing", what)
		return
	}
	if h == (common.Hash{}) {
		c.fail("%s with the zero hash: analysis of hash-less code (initcode) reached the shared cache (code %x)", what, c.cur)
		return
	}
	if want := crypto.Keccak256Hash(c.cur); want != h {
		c.fail("%s uses key %x but the executing code %x has hash %x", what, h, c.cur, want)
		return
	}
	if vec == nil {
		return
	}
	if len(vec) < len(c.cur)/8+1 {
		c.fail("%s: bit vector of %d bytes for code of %d bytes", what, len(vec), len(c.cur))
		return
	}
	ref := c30fRefData(c.cur)
	for p := range c.cur {
		if got := (vec[p/8]>>(p%8))&1 == 1; got != ref[p] {
			c.fail("%s: bit vector under key %x says data=%v at position %d of code %x, the definition says %v", what, h, got, p, c.cur, ref[p])
			return
		}
	}
}

func (c *c30fRec) Load(h common.Hash) (vm.BitVec, bool) {
	v, ok := c.inner.Load(h)
	c.loads++
	if ok {
		c.hits++
		c.check("Load(hit)", h, v)
	} else {
		c.check("Load(miss)", h, nil)
	}
	return v, ok
}

func (c *c30fRec) Store(h common.Hash, v vm.BitVec) {
	c.stores++
	c.check("Store", h, v)
	c.inner.Store(h, v)
}

// c30fTracer records the inner frame's execution.
type c30fTracer struct {
	rec      *c30fRec
	depth    int // open frames
	inner    int // index of the frame under observation (0 = outermost)
	pcs      []uint64
	ops      []byte
	innerErr error
	innerRan bool
	frames   int
}

func (t *c30fTracer) hooks() *tracing.Hooks {
	return &tracing.Hooks{
		OnEnter: func(depth int, typ byte, from, to common.Address, input []byte, gas uint64, value *big.Int) {
			t.depth++
			t.frames++
		},
		OnExit: func(depth int, output []byte, gasUsed uint64, err error, reverted bool) {
			t.depth--
			if depth == t.inner {
				t.innerErr, t.innerRan = err, true
			}
			t.rec.cur = nil
		},
		OnOpcode: func(pc uint64, op byte, gas, cost uint64, scope tracing.OpContext, rData []byte, depth int, err error) {
			t.rec.cur = scope.ContractCode()
			if depth-1 == t.inner {
				t.pcs = append(t.pcs, pc)
				t.ops = append(t.ops, op)
			}
		},
	}
}

var (
	c30fT  = common.HexToAddress("0x00000000000000000000000000000000000c3071") // the contract whose code differs between the states
	c30fX  = common.HexToAddress("0x00000000000000000000000000000000000c3072") // EOA delegating to T
	c30fY  = common.HexToAddress("0x00000000000000000000000000000000000c3073") // EOA delegating to an empty account
	c30fZ  = common.HexToAddress("0x00000000000000000000000000000000000c3074") // EOA delegating to a precompile
	c30fE  = common.HexToAddress("0x00000000000000000000000000000000000c3075") // empty
	c30fW0 = uint64(0xc30f00)                                                  // wrappers live at W0+i
)

type c30fWay struct {
	name  string
	op    byte // 0 = top level
	since string
}

var c30fWays = []c30fWay{
	{"top-call", 0, "Frontier"},
	{"CALL", progx.CALL, "Frontier"},
	{"CALLCODE", progx.CALLCODE, "Frontier"},
	{"DELEGATECALL", progx.DELEGATECALL, "Homestead"},
	{"STATICCALL", progx.STATICCALL, "Byzantium"},
	{"top-create", 1, "Frontier"},
	{"CREATE", progx.CREATE, "Frontier"},
	{"CREATE2", progx.CREATE2, "Constantinople"},
}

func (w c30fWay) isCreate() bool { return w.op == 1 || w.op == progx.CREATE || w.op == progx.CREATE2 }

// c30fWrapper: code that forwards its calldata to `target` with the given
// instruction (CALL family), or uses its calldata as init code (CREATE family).
func c30fWrapper(op byte, target common.Address) []byte {
	p := progx.New().Op(progx.CALLDATASIZE).Push(0).Push(0).Op(progx.CALLDATACOPY)
	switch op {
	case progx.CREATE:
		return p.Op(progx.CALLDATASIZE).Push(0).Push(0).Op(progx.CREATE, progx.STOP).Bytes()
	case progx.CREATE2:
		return p.Push(7).Op(progx.CALLDATASIZE).Push(0).Push(0).Op(progx.CREATE2, progx.STOP).Bytes()
	}
	p.Push(0).Push(0).Op(progx.CALLDATASIZE).Push(0)
	if op == progx.CALL || op == progx.CALLCODE {
		p.Push(0)
	}
	return p.PushAddr(target).Push(150000).Op(op, progx.STOP).Bytes()
}

type c30fKind struct {
	name   string
	addr   common.Address
	prague bool
	runs   bool // code is executed
}

var c30fKinds = []c30fKind{
	{"plain", c30fT, false, true},
	{"delegated", c30fX, true, true},
	{"delegated-to-empty", c30fY, true, false},
	{"delegated-to-precompile", c30fZ, true, false},
}

// c30fWorld is one state with its own EVM; all worlds of a sequence share one cache.
type c30fWorld struct {
	st   *state.StateDB
	evm  *vm.EVM
	tr   *c30fTracer
	code []byte // T's code in this state
}

func c30fWrapperAddr(wi, ki int) common.Address {
	return common.BigToAddress(new(big.Int).SetUint64(c30fW0 + uint64(wi*8+ki)))
}

func newC30fWorld(rs progx.RuleSet, rec *c30fRec, tcode []byte) *c30fWorld {
	w := &c30fWorld{code: tcode, tr: &c30fTracer{rec: rec}}
	w.st, _ = state.New(types.EmptyRootHash, state.NewDatabaseForTesting())
	set := func(a common.Address, code []byte) {
		w.st.CreateAccount(a)
		w.st.SetNonce(a, 1, tracing.NonceChangeUnspecified)
		w.st.SetCode(a, code, tracing.CodeChangeUnspecified)
	}
	w.st.CreateAccount(progx.AddrOrigin)
	w.st.AddBalance(progx.AddrOrigin, uint256.NewInt(1_000_000), tracing.BalanceChangeUnspecified)
	set(c30fT, tcode)
	if rs.At("Prague") {
		set(c30fX, types.AddressToDelegation(c30fT))
		set(c30fY, types.AddressToDelegation(c30fE))
		set(c30fZ, types.AddressToDelegation(common.BytesToAddress([]byte{4})))
	}
	for wi, way := range c30fWays {
		if way.op <= 1 || !rs.At(way.since) {
			continue
		}
		if way.isCreate() {
			set(c30fWrapperAddr(wi, 0), c30fWrapper(way.op, common.Address{}))
			continue
		}
		for ki, k := range c30fKinds {
			set(c30fWrapperAddr(wi, ki), c30fWrapper(way.op, k.addr))
		}
	}
	w.evm = c30xEnv(rs, w.st, w.tr.hooks())
	w.evm.SetJumpDestCache(rec)
	return w
}

type c30fCase struct {
	Fork  string `json:"fork"`
	Cache string `json:"cache"`
	A     string `json:"code_first"`
	B     string `json:"code_second"`
	State string `json:"state"` // first | second
	Way   string `json:"way"`
	Kind  string `json:"callee"`
	Disp  string `json:"dispatch"` // JUMP | JUMPI
	Dest  int    `json:"dest"`
}

func c30fReplayTarget() *c30fCase {
	p := os.Getenv("VERIF_REPLAY")
	if p == "" {
		return nil
	}
	raw, err := os.ReadFile(p)
	if err != nil {
		return nil
	}
	var f struct {
		Replay c30fCase `json:"replay"`
	}
	if json.Unmarshal(raw, &f) != nil || f.Replay.Way == "" {
		return nil
	}
	return &f.Replay
}

// c30fCode builds the executed code: dispatcher ++ family code. For the CALL
// ways the destination comes from calldata; init code has no calldata, so the
// destination is an immediate (fixed-width PUSH2, positions stay comparable).
func c30fCode(disp string, create bool, dest int, fam []byte) (code []byte, jumpPc int) {
	p := progx.New()
	if create {
		if disp == "JUMPI" {
			p.Push(1)
		}
		p.Op(progx.PUSH2, byte(dest>>8), byte(dest))
	} else {
		if disp == "JUMPI" {
			p.Push(1)
		}
		p.Push(0).Op(progx.CALLDATALOAD)
	}
	if disp == "JUMPI" {
		p.Op(progx.JUMPI)
	} else {
		p.Op(progx.JUMP)
	}
	jumpPc = p.Len() - 1
	return append(p.Bytes(), fam...), jumpPc
}

// c30fFrames runs the frame-entry / shared-cache part. It is called first by
// TestVerif_C30_exec (it is small and must complete on a loaded machine).
func c30fFrames(r *mc.R) {
	forks := mc.Pick(r, []string{"Prague", "Amsterdam"}, progx.ForkNames[4:])
	pushes := mc.Pick(r, []int{1, 9, 32}, []int{1, 2, 7, 8, 9, 16, 17, 32})
	items := [][]byte{{0x5b}, {0x00}}
	for _, n := range pushes {
		it := []byte{byte(0x5f + n)}
		for i := 0; i < n; i++ {
			it = append(it, 0x5b)
		}
		items = append(items, it)
	}
	var fams [][]byte
	for _, a := range items {
		fams = append(fams, a)
	}
	for _, a := range items {
		for _, b := range items {
			fams = append(fams, append(append([]byte{}, a...), b...))
		}
	}
	r.Bound("frames.forks", forks)
	r.Bound("frames.family_codes", len(fams))
	r.Bound("frames.ways", len(c30fWays))
	r.Assume("frames: ONE jumpdest cache (per ordered pair; alternately a plain map and core.NewJumpDestCache) is shared by two states/EVMs in which address T holds dispatcher++A resp. dispatcher++B for every ordered pair (A,B) of family codes " +
		"(all sequences of 1..2 items from {JUMPDEST, STOP, PUSHn with 0x5b data}); in each state the code is entered by a top-level call, CALL, CALLCODE, DELEGATECALL, STATICCALL (callee: the contract, an EIP-7702 EOA delegating to it, EOAs delegating to an empty account / a precompile; Prague+), " +
		"and as init code by a top-level create, CREATE and CREATE2, with JUMP and JUMPI dispatch, for every destination where A and B differ plus {0, first valid, len, len+1}; first state, then second state. " +
		"Every cache Load/Store must use keccak256 of the code executing at that moment and carry exactly the reference bit vector of that code; init code must not touch the cache; every jump outcome must equal the cache-free definition")

	type shard struct {
		fork string
		a    int
	}
	var shards []shard
	for _, f := range forks {
		for a := range fams {
			shards = append(shards, shard{f, a})
		}
	}
	target := c30fReplayTarget()
	var tot struct{ calls, valid, invalid, loads, hits, stores, stale int64 }
	mu := make(chan struct{}, 1)
	mu <- struct{}{}
	r.Parallel(len(shards), func(si int) {
		sh := shards[si]
		rs := progx.Fork(sh.fork)
		A := fams[sh.a]
		if target != nil && (target.Fork != sh.fork || target.A != fmt.Sprintf("%x", A)) {
			return
		}
		var evals, calls, nValid, nInvalid, loads, hits, stores, stale int64
		for bi, B := range fams {
			if r.Expired() {
				break
			}
			if target != nil && target.B != fmt.Sprintf("%x", B) {
				continue
			}
			cacheName := "map"
			rec := &c30fRec{}
			if (sh.a+bi)%2 == 1 {
				cacheName = "sharded-lru"
				rec.inner = core.NewJumpDestCache()
			} else {
				rec.inner = c30fMap{}
			}
			for _, disp := range []string{"JUMP", "JUMPI"} {
				// T's code in the two states (calldata dispatcher)
				codeA, jumpPc := c30fCode(disp, false, 0, A)
				codeB, _ := c30fCode(disp, false, 0, B)
				refA, refB := c30xRef(codeA), c30xRef(codeB)
				// destinations: where the two codes differ, plus a few
				dests := map[int]bool{0: true, len(codeA): true, len(codeA) + 1: true, len(codeB): true}
				for p := 0; p < max(len(codeA), len(codeB)); p++ {
					va := p < len(codeA) && refA[p]
					vb := p < len(codeB) && refB[p]
					if va != vb {
						dests[p] = true
						stale++
					}
				}
				for p := range refA {
					if refA[p] {
						dests[p] = true
						break
					}
				}
				var dl []int
				for p := 0; p <= max(len(codeA), len(codeB))+1; p++ {
					if dests[p] {
						dl = append(dl, p)
					}
				}
				worlds := []*c30fWorld{newC30fWorld(rs, rec, codeA), newC30fWorld(rs, rec, codeB)}
				for wi2, w := range worlds {
					stateName := []string{"first", "second"}[wi2]
					fam := [][]byte{A, B}[wi2]
					for wi, way := range c30fWays {
						if !rs.At(way.since) {
							continue
						}
						kinds := c30fKinds
						if way.isCreate() {
							kinds = c30fKinds[:1]
						}
						for ki, k := range kinds {
							if k.prague && !rs.At("Prague") {
								continue
							}
							for _, dest := range dl {
								if !k.runs && dest != dl[0] {
									continue // nothing executes: one call per way is enough
								}
								// the code that will run and its reference
								var code []byte
								jp := jumpPc
								if way.isCreate() {
									code, jp = c30fCode(disp, true, dest, fam)
								} else {
									code = w.code
								}
								ref := c30xRef(code)
								want := dest < len(code) && ref[dest]
								c := c30fCase{sh.fork, cacheName, fmt.Sprintf("%x", A), fmt.Sprintf("%x", B), stateName, way.name, k.name, disp, dest}
								verr := mc.Safely(func() error {
									snap := w.st.Snapshot()
									defer w.st.RevertToSnapshot(snap)
									tr := w.tr
									tr.pcs, tr.ops, tr.innerErr, tr.innerRan, tr.frames, tr.depth = tr.pcs[:0], tr.ops[:0], nil, false, 0, 0
									tr.inner = 1
									rec.viol, rec.cur = "", nil
									input := make([]byte, 32)
									input[30], input[31] = byte(dest>>8), byte(dest)
									gas := vm.NewGasBudget(2_000_000, 0)
									var err error
									switch {
									case way.op == 0:
										tr.inner = 0
										_, _, err = w.evm.Call(progx.AddrOrigin, k.addr, input, gas, new(uint256.Int))
									case way.op == 1:
										tr.inner = 0
										_, _, _, err = w.evm.Create(progx.AddrOrigin, code, gas, new(uint256.Int))
									case way.isCreate():
										_, _, err = w.evm.Call(progx.AddrOrigin, c30fWrapperAddr(wi, 0), code, gas, new(uint256.Int))
									default:
										_, _, err = w.evm.Call(progx.AddrOrigin, c30fWrapperAddr(wi, ki), input, gas, new(uint256.Int))
									}
									if rec.viol != "" {
										return errors.New(rec.viol)
									}
									if tr.inner == 1 && err != nil {
										return fmt.Errorf("the wrapper frame failed: %v", err)
									}
									if !tr.innerRan {
										return fmt.Errorf("the frame under observation never ran")
									}
									if !k.runs {
										if tr.innerErr != nil || len(tr.pcs) != 0 {
											return fmt.Errorf("a callee without code executed %d instructions, err=%v", len(tr.pcs), tr.innerErr)
										}
										return nil
									}
									if !want {
										nInvalid++
										if !errors.Is(tr.innerErr, vm.ErrInvalidJump) {
											return fmt.Errorf("destination %d of code %x is not a valid JUMPDEST but the frame ended with err=%v", dest, code, tr.innerErr)
										}
										return nil
									}
									nValid++
									if tr.innerErr != nil {
										return fmt.Errorf("destination %d of code %x is a valid JUMPDEST but the frame failed: %v", dest, code, tr.innerErr)
									}
									for i := range tr.pcs {
										if tr.pcs[i] == uint64(jp) {
											if i+1 >= len(tr.pcs) || tr.pcs[i+1] != uint64(dest) || tr.ops[i+1] != 0x5b {
												return fmt.Errorf("after the jump to %d the next executed pc/op is %v/%x", dest, tr.pcs[i+1:], tr.ops[i+1:])
											}
											return nil
										}
									}
									return fmt.Errorf("the jump at pc %d was never executed (pcs %v)", jp, tr.pcs)
								})
								calls++
								if verr != nil || r.Replaying() {
									r.Case(c, func() error { return verr })
								} else {
									evals++
								}
							}
						}
					}
				}
			}
			loads += rec.loads
			hits += rec.hits
			stores += rec.stores
			r.DistinctHash(mc.Hash64(fmt.Sprintf("frames|%s|%x|%x", sh.fork, A, B)))
		}
		r.Eval(evals)
		<-mu
		tot.calls += calls
		tot.valid += nValid
		tot.invalid += nInvalid
		tot.loads += loads
		tot.hits += hits
		tot.stores += stores
		tot.stale += stale
		mu <- struct{}{}
		if si%29 == 0 {
			r.Sample(map[string]any{"part": "frames", "fork": sh.fork, "code_first": fmt.Sprintf("%x", A)})
		}
	})
	r.OutcomeN("frames:calls", tot.calls)
	r.OutcomeN("frames:valid-jump", tot.valid)
	r.OutcomeN("frames:invalid-jump", tot.invalid)
	r.OutcomeN("frames:cache-loads", tot.loads)
	r.OutcomeN("frames:cache-hits", tot.hits)
	r.OutcomeN("frames:cache-stores", tot.stores)
	r.OutcomeN("frames:positions-whose-validity-differs-between-the-two-states", tot.stale)
}

// c30fMap is a plain map cache (what an EVM uses by default).
type c30fMap map[common.Hash]vm.BitVec

func (m c30fMap) Load(h common.Hash) (vm.BitVec, bool) { v, ok := m[h]; return v, ok }
func (m c30fMap) Store(h common.Hash, v vm.BitVec)     { m[h] = v }
