//go:build verif

package vm

// C31 (part 1): explicit-state model checking of vm.GasBudget.
//
// The state of the exploration is a call stack of up to D frames, each frame a
// *real* GasBudget value together with a token-ledger reference model that is
// evaluated side by side in int64 arithmetic (all model values are bounded by the
// initial total <= 12, so the model can neither overflow nor underflow; a
// wrapped uint64 in the implementation shows up as a value > total).
//
// Transitions act on the top frame only (the frames below are suspended in a
// call): Charge(e,s), RefundState(r), DrainExecution, Forward(x) (push) and
// Exit{success,revert,halt}+Absorb (pop). All states reachable from every initial
// budget (E,S) in [0..N]^2 are enumerated by breadth-first search with
// de-duplication on (implementation fields, frame entry values) of all frames.

import (
	"encoding/json"
	"errors"
	"fmt"
	"math/big"
	"os"
	"sort"
	"sync"
	"testing"

	"github.com/ethereum/go-ethereum/common"
	"github.com/ethereum/go-ethereum/core/state"
	"github.com/ethereum/go-ethereum/core/tracing"
	"github.com/ethereum/go-ethereum/core/types"
	"github.com/ethereum/go-ethereum/crypto"
	"github.com/ethereum/go-ethereum/internal/verif/mc"
	"github.com/ethereum/go-ethereum/params"
	"github.com/holiman/uint256"
)

const c31MaxDepth = 4

// c31Model is the ledger model of one frame. Every unit of gas the frame was
// entered with is in exactly one of the buckets below.
type c31Model struct {
	entE, entS int64 // gas the frame was entered with (execution, reservoir)
	e, s       int64 // spendable execution gas / state reservoir
	burnt      int64 // execution gas consumed by this frame and its completed children
	fwd, fwdS  int64 // execution gas / reservoir handed to the child that is currently running
	stRes      int64 // net state gas paid out of the reservoir (negative: refunds of charges made by other frames)
	stExec     int64 // net state gas paid out of execution gas and not yet repaid (the outstanding spill)
}

func (m c31Model) total() int64 {
	return m.e + m.s + m.burnt + m.fwd + m.fwdS + m.stRes + m.stExec
}

// c31Left is the model of a leftover budget handed from a finished frame to its caller.
type c31Left struct {
	e, s, burnt, stRes, stExec int64
}

type c31Live struct {
	g GasBudget
	m c31Model
}

// c31Frame is the compact, comparable form of c31Live (all values are in
// [-128,127] for every state that passed the range check).
type c31Frame struct {
	E, S, UE, US, Sp                       int8
	entE, entS, burnt, fwd, fwdS, stR, stX int8
}

type c31State struct {
	n int8
	f [c31MaxDepth]c31Frame
}

func c31Pack(l c31Live) c31Frame {
	return c31Frame{
		E: int8(l.g.ExecutionGas), S: int8(l.g.StateGas), UE: int8(l.g.UsedExecutionGas), US: int8(l.g.UsedStateGas), Sp: int8(l.g.Spilled),
		entE: int8(l.m.entE), entS: int8(l.m.entS), burnt: int8(l.m.burnt), fwd: int8(l.m.fwd), fwdS: int8(l.m.fwdS), stR: int8(l.m.stRes), stX: int8(l.m.stExec),
	}
}

func c31Unpack(f c31Frame) c31Live {
	return c31Live{
		g: GasBudget{ExecutionGas: uint64(f.E), StateGas: uint64(f.S), UsedExecutionGas: uint64(f.UE), UsedStateGas: int64(f.US), Spilled: uint64(f.Sp)},
		// the model's running balances equal the implementation's in every stored state (checked before storing)
		m: c31Model{entE: int64(f.entE), entS: int64(f.entS), e: int64(f.E), s: int64(f.S), burnt: int64(f.burnt), fwd: int64(f.fwd), fwdS: int64(f.fwdS), stRes: int64(f.stR), stExec: int64(f.stX)},
	}
}

const (
	c31Charge = iota
	c31Refund
	c31Drain
	c31Forward
	c31ExitOK
	c31ExitRevert
	c31ExitHalt
)

type c31Op struct {
	kind uint8
	a, b uint8
}

func (o c31Op) String() string {
	switch o.kind {
	case c31Charge:
		return fmt.Sprintf("C(%d,%d)", o.a, o.b)
	case c31Refund:
		return fmt.Sprintf("R(%d)", o.a)
	case c31Drain:
		return "D"
	case c31Forward:
		return fmt.Sprintf("F(%d)", o.a)
	case c31ExitOK:
		return "XS"
	case c31ExitRevert:
		return "XR"
	case c31ExitHalt:
		return "XH"
	}
	return "?"
}

func c31ParseOp(s string) (c31Op, error) {
	var a, b int
	switch {
	case s == "D":
		return c31Op{kind: c31Drain}, nil
	case s == "XS":
		return c31Op{kind: c31ExitOK}, nil
	case s == "XR":
		return c31Op{kind: c31ExitRevert}, nil
	case s == "XH":
		return c31Op{kind: c31ExitHalt}, nil
	}
	if n, _ := fmt.Sscanf(s, "C(%d,%d)", &a, &b); n == 2 {
		return c31Op{c31Charge, uint8(a), uint8(b)}, nil
	}
	if n, _ := fmt.Sscanf(s, "R(%d)", &a); n == 1 {
		return c31Op{c31Refund, uint8(a), 0}, nil
	}
	if n, _ := fmt.Sscanf(s, "F(%d)", &a); n == 1 {
		return c31Op{c31Forward, uint8(a), 0}, nil
	}
	return c31Op{}, fmt.Errorf("unknown op %q", s)
}

// c31Ops lists the operations enabled in st, in a fixed order.
func c31Ops(st *c31State, maxCost, maxDepth int, ops []c31Op) []c31Op {
	top := st.f[st.n-1]
	ops = ops[:0]
	for e := 0; e <= maxCost; e++ {
		for s := 0; s <= maxCost; s++ {
			if e+s > 0 {
				ops = append(ops, c31Op{c31Charge, uint8(e), uint8(s)})
			}
		}
	}
	// The EVM only refunds state gas that was charged earlier in the same transaction by a frame whose effects are
	// still live (SSTORE 0->x->0, refill of an account-creation charge): r <= sum of the net state gas of all frames.
	live := 0
	for i := 0; i < int(st.n); i++ {
		live += int(st.f[i].US)
	}
	for r := 1; r <= maxCost && r <= live; r++ {
		ops = append(ops, c31Op{c31Refund, uint8(r), 0})
	}
	ops = append(ops, c31Op{kind: c31Drain})
	if int(st.n) < maxDepth {
		for x := 0; x <= int(top.E); x++ {
			ops = append(ops, c31Op{c31Forward, uint8(x), 0})
		}
	}
	ops = append(ops, c31Op{kind: c31ExitOK}, c31Op{kind: c31ExitRevert}, c31Op{kind: c31ExitHalt})
	return ops
}

// c31Check validates one frame after a transition: range (no wrapped field),
// side-by-side model equality, and the conservation identities of the property
// statement evaluated on the implementation's own fields.
func c31Check(l c31Live, T int64, whatf func() string) error {
	if err := c31Check0(l, T); err != nil {
		return fmt.Errorf("%s: %v", whatf(), err)
	}
	return nil
}

func c31Check0(l c31Live, T int64) error {
	const what = "frame"
	g, m := l.g, l.m
	ut := uint64(T)
	if g.ExecutionGas > ut || g.StateGas > ut || g.UsedExecutionGas > ut || g.Spilled > ut || g.UsedStateGas > T || g.UsedStateGas < -T {
		return fmt.Errorf("%s: field outside [0,total=%d] (underflow/overflow): %v", what, T, g)
	}
	if mt := m.total(); mt != m.entE+m.entS {
		return fmt.Errorf("%s: harness bug: ledger model does not conserve: %+v", what, m)
	}
	if m.e < 0 || m.s < 0 || m.burnt < 0 || m.stExec < 0 {
		return fmt.Errorf("%s: harness bug: negative ledger bucket: %+v", what, m)
	}
	E, S, UE, US, Sp := int64(g.ExecutionGas), int64(g.StateGas), int64(g.UsedExecutionGas), g.UsedStateGas, int64(g.Spilled)
	// conservation on the implementation fields alone
	if E+S+UE+US+m.fwdS != m.entE+m.entS {
		return fmt.Errorf("%s: gas not conserved: remaining <%d,%d> + used <%d,%d> + reservoir lent to child %d != frame entry <%d,%d>; budget %v",
			what, E, S, UE, US, m.fwdS, m.entE, m.entS, g)
	}
	if S+US-Sp+m.fwdS != m.entS {
		return fmt.Errorf("%s: reservoir identity broken: StateGas %d + UsedStateGas %d - Spilled %d + lent %d != entry reservoir %d; budget %v",
			what, S, US, Sp, m.fwdS, m.entS, g)
	}
	if E+UE+Sp != m.entE {
		return fmt.Errorf("%s: execution identity broken: ExecutionGas %d + UsedExecutionGas %d + Spilled %d != entry execution gas %d; budget %v",
			what, E, UE, Sp, m.entE, g)
	}
	// side-by-side model
	if E != m.e || S != m.s || UE != m.burnt+m.fwd || US != m.stRes+m.stExec || Sp != m.stExec {
		return fmt.Errorf("%s: budget %v differs from ledger model <e=%d s=%d usedE=%d usedS=%d spilled=%d>",
			what, g, m.e, m.s, m.burnt+m.fwd, m.stRes+m.stExec, m.stExec)
	}
	if g.IsZero() != (E == 0 && S == 0) {
		return fmt.Errorf("%s: IsZero()=%v for %v", what, g.IsZero(), g)
	}
	return nil
}

func c31CheckLeft(L GasBudget, ml c31Left, T int64, whatf func() string) error {
	if err := c31CheckLeft0(L, ml, T); err != nil {
		return fmt.Errorf("%s: %v", whatf(), err)
	}
	return nil
}

func c31CheckLeft0(L GasBudget, ml c31Left, T int64) error {
	const what = "leftover"
	ut := uint64(T)
	if L.ExecutionGas > ut || L.StateGas > ut || L.UsedExecutionGas > ut || L.Spilled > ut || L.UsedStateGas > T || L.UsedStateGas < -T {
		return fmt.Errorf("%s: leftover field outside [0,total=%d]: %v", what, T, L)
	}
	if int64(L.ExecutionGas) != ml.e || int64(L.StateGas) != ml.s || int64(L.UsedExecutionGas) != ml.burnt ||
		L.UsedStateGas != ml.stRes+ml.stExec || int64(L.Spilled) != ml.stExec {
		return fmt.Errorf("%s: leftover %v differs from ledger model <e=%d s=%d usedE=%d usedS=%d spilled=%d>",
			what, L, ml.e, ml.s, ml.burnt, ml.stRes+ml.stExec, ml.stExec)
	}
	return nil
}

var (
	c31TxOutcome     = [3]string{"tx_ExitSuccess", "tx_ExitRevert", "tx_ExitHalt"}
	c31AbsorbOutcome = [12]string{
		"absorb_ExitSuccess", "absorb_ExitSuccess_negative_used_state", "absorb_ExitSuccess_with_spill", "absorb_ExitSuccess_with_spill_negative_used_state",
		"absorb_ExitRevert", "absorb_ExitRevert_negative_used_state", "absorb_ExitRevert_with_spill", "absorb_ExitRevert_with_spill_negative_used_state",
		"absorb_ExitHalt", "absorb_ExitHalt_negative_used_state", "absorb_ExitHalt_with_spill", "absorb_ExitHalt_with_spill_negative_used_state",
	}
)

// c31SafeStep is c31Step with panics converted into errors.
func c31SafeStep(st c31State, op c31Op) (res c31Result, err error) {
	defer func() {
		if p := recover(); p != nil {
			err = fmt.Errorf("panic: %v", p)
		}
	}()
	return c31Step(st, op)
}

type c31Result struct {
	next     c31State
	terminal bool
	outcome  string
}

// c31Step applies op to the top frame of st on the real GasBudget and on the model.
func c31Step(st c31State, op c31Op) (res c31Result, err error) {
	n := int(st.n)
	top := c31Unpack(st.f[n-1])
	root := st.f[0]
	T := int64(root.entE) + int64(root.entS)
	res.next = st
	switch op.kind {
	case c31Charge:
		cost := GasCosts{ExecutionGas: uint64(op.a), StateGas: uint64(op.b)}
		ce, cs := int64(op.a), int64(op.b)
		before := top.g
		can := before.CanAfford(cost)
		g := before
		prior, ok := g.Charge(cost)
		afford := ce <= top.m.e && cs <= top.m.s+(top.m.e-ce)
		if ok != can {
			return res, fmt.Errorf("Charge(%v) ok=%v but CanAfford=%v on %v", cost, ok, can, before)
		}
		if ok != afford {
			return res, fmt.Errorf("Charge(%v) ok=%v on %v, model says affordable=%v", cost, ok, before, afford)
		}
		if prior != before {
			return res, fmt.Errorf("Charge(%v) returned prior %v, budget was %v", cost, prior, before)
		}
		if !ok && g != before {
			return res, fmt.Errorf("failed Charge(%v) modified the budget: %v -> %v", cost, before, g)
		}
		// the other entry points must behave identically
		g2 := before
		if ok2 := g2.charge(cost); ok2 != ok || g2 != g {
			return res, fmt.Errorf("charge(%v) on %v: (%v,%v) differs from Charge (%v,%v)", cost, before, g2, ok2, g, ok)
		}
		if cs == 0 {
			g3 := before
			if ok3 := g3.ChargeExecutionOnly(cost.ExecutionGas); ok3 != ok || g3 != g {
				return res, fmt.Errorf("ChargeExecutionOnly(%d) on %v: (%v,%v) differs from Charge (%v,%v)", ce, before, g3, ok3, g, ok)
			}
			g4 := before
			if p4, ok4 := g4.ChargeExecution(cost.ExecutionGas); ok4 != ok || g4 != g || p4 != before {
				return res, fmt.Errorf("ChargeExecution(%d) on %v: (%v,%v) differs from Charge (%v,%v)", ce, before, g4, ok4, g, ok)
			}
		}
		if ce == 0 {
			g5 := before
			if p5, ok5 := g5.ChargeState(cost.StateGas); ok5 != ok || g5 != g || p5 != before {
				return res, fmt.Errorf("ChargeState(%d) on %v: (%v,%v) differs from Charge (%v,%v)", cs, before, g5, ok5, g, ok)
			}
		}
		top.g = g
		res.outcome = "charge_oog"
		if afford {
			fromRes := min(cs, top.m.s)
			fromExec := cs - fromRes
			top.m.e -= ce + fromExec
			top.m.s -= fromRes
			top.m.burnt += ce
			top.m.stRes += fromRes
			top.m.stExec += fromExec
			switch {
			case cs == 0:
				res.outcome = "charge_exec_only"
			case fromExec == 0:
				res.outcome = "charge_from_reservoir"
			case fromRes == 0:
				res.outcome = "charge_spill_all"
			default:
				res.outcome = "charge_spill_part"
			}
		}
	case c31Refund:
		r := int64(op.a)
		top.g.RefundState(uint64(op.a))
		toExec := min(r, top.m.stExec)
		top.m.e += toExec
		top.m.stExec -= toExec
		top.m.s += r - toExec
		top.m.stRes -= r - toExec
		switch {
		case toExec == r:
			res.outcome = "refund_repays_spill"
		case toExec == 0:
			res.outcome = "refund_to_reservoir"
		default:
			res.outcome = "refund_split"
		}
		if top.m.stRes+top.m.stExec < 0 { // refunds a charge made by another frame: UsedStateGas < 0
			switch res.outcome {
			case "refund_repays_spill":
				res.outcome = "refund_repays_spill_foreign"
			case "refund_to_reservoir":
				res.outcome = "refund_to_reservoir_foreign"
			default:
				res.outcome = "refund_split_foreign"
			}
		}
	case c31Drain:
		top.g.DrainExecution()
		top.m.burnt += top.m.e
		top.m.e = 0
		res.outcome = "drain"
	case c31Forward:
		x := int64(op.a)
		before := top.g
		child := top.g.Forward(uint64(op.a))
		if want := NewGasBudget(uint64(op.a), before.StateGas); child != want {
			return res, fmt.Errorf("Forward(%d) on %v returned child %v, want %v", x, before, child, want)
		}
		// the CALL family does not use Forward: the gas table charges the forwarded gas as execution gas and the
		// opcode hands NewGasBudget(gas, StateGas) to the callee, leaving the stale reservoir in the caller.
		cs := before
		if !cs.ChargeExecutionOnly(uint64(op.a)) {
			return res, fmt.Errorf("ChargeExecutionOnly(%d) failed on %v although x <= ExecutionGas", x, before)
		}
		if c2 := NewGasBudget(uint64(op.a), cs.StateGas); c2 != child {
			return res, fmt.Errorf("call-style child %v differs from Forward child %v", c2, child)
		}
		cs.StateGas = 0
		if cs != top.g {
			return res, fmt.Errorf("Forward(%d) leaves caller %v, charge-style forwarding leaves %v", x, top.g, cs)
		}
		if uint64(op.a) == before.ExecutionGas {
			fa := before
			if c3 := fa.ForwardAll(); c3 != child || fa != top.g {
				return res, fmt.Errorf("ForwardAll on %v: (%v,%v) differs from Forward(%d): (%v,%v)", before, fa, c3, x, top.g, child)
			}
		}
		top.m.e -= x
		top.m.fwd = x
		top.m.fwdS = top.m.s
		top.m.s = 0
		if err := c31Check(top, T, func() string { return "caller after " + op.String() }); err != nil {
			return res, err
		}
		res.next.f[n-1] = c31Pack(top)
		cl := c31Live{g: child, m: c31Model{entE: x, entS: top.m.fwdS, e: x, s: top.m.fwdS}}
		if err := c31Check(cl, T, func() string { return "child after " + op.String() }); err != nil {
			return res, err
		}
		res.next.f[n] = c31Pack(cl)
		res.next.n = int8(n + 1)
		res.outcome = "forward"
		if top.m.fwdS > 0 {
			res.outcome = "forward_with_reservoir"
		}
		return res, nil
	case c31ExitOK, c31ExitRevert, c31ExitHalt:
		var (
			L    GasBudget
			ml   c31Left
			verr error
			name string
		)
		g, m := top.g, top.m
		E, S, UE := int64(0), int64(0), int64(0)
		switch op.kind {
		case c31ExitOK:
			L, name = g.ExitSuccess(), "ExitSuccess"
			ml = c31Left{e: m.e, s: m.s, burnt: m.burnt, stRes: m.stRes, stExec: m.stExec}
			if L != g {
				return res, fmt.Errorf("ExitSuccess changed the budget: %v -> %v", g, L)
			}
		case c31ExitRevert:
			L, name, verr = g.ExitRevert(), "ExitRevert", ErrExecutionReverted
			// all state charges of the frame are undone: borrowed execution gas goes back to execution gas,
			// the reservoir is what the frame was entered with
			ml = c31Left{e: m.e + m.stExec, s: m.entS, burnt: m.burnt}
		case c31ExitHalt:
			L, name, verr = g.ExitHalt(), "ExitHalt", ErrOutOfGas
			// all execution gas the frame was entered with is burnt, the entry reservoir survives
			ml = c31Left{e: 0, s: m.entS, burnt: m.entE}
		}
		if d := g.Exit(verr); d != L {
			return res, fmt.Errorf("Exit(%v) = %v, %s = %v", verr, d, name, L)
		}
		if op.kind == c31ExitHalt {
			if d := g.Exit(errors.New("some other vm error")); d != L {
				return res, fmt.Errorf("Exit(other error) = %v, ExitHalt = %v", d, L)
			}
		}
		if err := c31CheckLeft(L, ml, T, func() string { return name + " of " + g.String() }); err != nil {
			return res, err
		}
		E, S, UE = int64(L.ExecutionGas), int64(L.StateGas), int64(L.UsedExecutionGas)
		if op.kind != c31ExitOK {
			// statement: a reverted or halted frame hands back the reservoir it started with
			if S != m.entS || L.Spilled != 0 || L.UsedStateGas != 0 {
				return res, fmt.Errorf("%s of %v (entered with <%d,%d>) = %v: must return the entry reservoir, no spill, no state usage", name, g, m.entE, m.entS, L)
			}
			if E+UE != m.entE {
				return res, fmt.Errorf("%s of %v (entered with <%d,%d>) = %v: execution gas not conserved", name, g, m.entE, m.entS, L)
			}
			if op.kind == c31ExitHalt && E != 0 {
				return res, fmt.Errorf("ExitHalt of %v returns execution gas: %v", g, L)
			}
		}
		if n == 1 {
			// transaction level: remaining + used == initial
			if E+S+UE+L.UsedStateGas != T {
				return res, fmt.Errorf("%s at transaction level: remaining <%d,%d> + used <%d,%d> != initial %d", name, E, S, UE, L.UsedStateGas, T)
			}
			if used := L.Used(NewGasBudget(uint64(m.entE), uint64(m.entS))); int64(used) != UE+L.UsedStateGas {
				return res, fmt.Errorf("%s at transaction level: Used(initial)=%d, accumulators <%d,%d>", name, used, UE, L.UsedStateGas)
			}
			res.terminal = true
			res.outcome = c31TxOutcome[op.kind-c31ExitOK]
			return res, nil
		}
		par := c31Unpack(st.f[n-2])
		// call-style caller still holds its stale reservoir: Absorb must overwrite it
		stale := par.g
		stale.StateGas = uint64(par.m.fwdS)
		stale.Absorb(L)
		par.g.Absorb(L)
		if stale != par.g {
			return res, fmt.Errorf("Absorb(%v) depends on the caller's stale reservoir: %v vs %v", L, par.g, stale)
		}
		par.m.e += ml.e
		par.m.s = ml.s
		par.m.burnt += ml.burnt
		par.m.fwd, par.m.fwdS = 0, 0
		par.m.stRes += ml.stRes
		par.m.stExec += ml.stExec
		if err := c31Check(par, T, func() string { return "caller after " + name + "+Absorb(" + L.String() + ")" }); err != nil {
			return res, err
		}
		res.next.f[n-1] = c31Frame{}
		res.next.f[n-2] = c31Pack(par)
		res.next.n = int8(n - 1)
		oi := int(op.kind-c31ExitOK) * 4
		if ml.stExec > 0 {
			oi += 2
		}
		if ml.stRes+ml.stExec < 0 {
			oi++
		}
		res.outcome = c31AbsorbOutcome[oi]
		return res, nil
	}
	if err := c31Check(top, T, func() string { return "after " + op.String() }); err != nil {
		return res, err
	}
	if n == 1 {
		if used := top.g.Used(NewGasBudget(uint64(top.m.entE), uint64(top.m.entS))); int64(used) != int64(top.g.UsedExecutionGas)+top.g.UsedStateGas {
			return res, fmt.Errorf("after %s: Used(initial)=%d but accumulators are <%d,%d>", op, used, top.g.UsedExecutionGas, top.g.UsedStateGas)
		}
	}
	res.next.f[n-1] = c31Pack(top)
	return res, nil
}

func c31Init(e, s int) c31State {
	var st c31State
	st.n = 1
	st.f[0] = c31Pack(c31Live{g: NewGasBudget(uint64(e), uint64(s)), m: c31Model{entE: int64(e), entS: int64(s), e: int64(e), s: int64(s)}})
	return st
}

// c31Replay re-executes one trace from its descriptor with all checks.
func c31Replay(d map[string]any) error {
	ini, _ := d["init"].([]any)
	if len(ini) != 2 {
		return fmt.Errorf("bad descriptor: %v", d)
	}
	e, _ := ini[0].(float64)
	s, _ := ini[1].(float64)
	st := c31Init(int(e), int(s))
	ops, _ := d["ops"].([]any)
	for i, o := range ops {
		name, _ := o.(string)
		op, err := c31ParseOp(name)
		if err != nil {
			return err
		}
		res, err := c31Step(st, op)
		if err != nil {
			return fmt.Errorf("step %d %s: %v", i, name, err)
		}
		if res.terminal {
			break
		}
		st = res.next
	}
	return nil
}

func c31Desc(e, s int, ops []string) map[string]any {
	o := make([]any, len(ops))
	for i, x := range ops {
		o[i] = x
	}
	return map[string]any{"part": "budget-bfs", "init": []any{float64(e), float64(s)}, "ops": o}
}

// c31Bounds checks Charge/CanAfford/RefundState/exits on budgets and costs at the edges of the value range
// against a math/big oracle (gas quantities are bounded by the block gas limit <= 2^63-1).
func c31Bounds(r *mc.R) {
	vals := []uint64{0, 1, 2, 3, 1 << 31, 1 << 62, 1<<63 - 2, 1<<63 - 1}
	maxGas := new(big.Int).SetUint64(1<<63 - 1)
	bi := func(x uint64) *big.Int { return new(big.Int).SetUint64(x) }
	for _, E := range vals {
		for _, S := range vals {
			if new(big.Int).Add(bi(E), bi(S)).Cmp(maxGas) > 0 {
				continue
			}
			for _, ce := range vals {
				for _, cs := range vals {
					c := map[string]any{"part": "bounds", "E": fmt.Sprint(E), "S": fmt.Sprint(S), "ce": fmt.Sprint(ce), "cs": fmt.Sprint(cs)}
					r.Case(c, func() error {
						g0 := NewGasBudget(E, S)
						cost := GasCosts{ExecutionGas: ce, StateGas: cs}
						// affordable <=> ce <= E and max(0, cs-S) <= E-ce
						spill := new(big.Int).Sub(bi(cs), bi(S))
						if spill.Sign() < 0 {
							spill.SetInt64(0)
						}
						need := new(big.Int).Add(bi(ce), spill)
						afford := need.Cmp(bi(E)) <= 0
						g := g0
						_, ok := g.Charge(cost)
						if ok != afford || g0.CanAfford(cost) != afford {
							return fmt.Errorf("Charge(%v) on %v: ok=%v CanAfford=%v, exact arithmetic says %v", cost, g0, ok, g0.CanAfford(cost), afford)
						}
						if !ok {
							r.Outcome("bounds_oog")
							if g != g0 {
								return fmt.Errorf("failed Charge(%v) modified %v -> %v", cost, g0, g)
							}
							return nil
						}
						r.Outcome("bounds_ok")
						wantE := new(big.Int).Sub(bi(E), need)
						wantS := new(big.Int).Sub(bi(S), new(big.Int).Sub(bi(cs), spill))
						if bi(g.ExecutionGas).Cmp(wantE) != 0 || bi(g.StateGas).Cmp(wantS) != 0 || g.UsedExecutionGas != ce ||
							big.NewInt(g.UsedStateGas).Cmp(bi(cs)) != 0 || bi(g.Spilled).Cmp(spill) != 0 {
							return fmt.Errorf("Charge(%v) on %v = %v, exact: <%v,%v,used=<%d,%d>,borrowed=%v>", cost, g0, g, wantE, wantS, ce, cs, spill)
						}
						if rv := g.ExitRevert(); rv.StateGas != S || rv.ExecutionGas != E-ce || rv.UsedExecutionGas != ce || rv.UsedStateGas != 0 || rv.Spilled != 0 {
							return fmt.Errorf("ExitRevert after Charge(%v) on %v = %v", cost, g0, rv)
						}
						if h := g.ExitHalt(); h.StateGas != S || h.ExecutionGas != 0 || h.UsedExecutionGas != E || h.UsedStateGas != 0 || h.Spilled != 0 {
							return fmt.Errorf("ExitHalt after Charge(%v) on %v = %v", cost, g0, h)
						}
						// refunding the whole state charge restores both balances
						g.RefundState(cs)
						if g.ExecutionGas != E-ce || g.StateGas != S || g.UsedStateGas != 0 || g.Spilled != 0 || g.UsedExecutionGas != ce {
							return fmt.Errorf("Charge(%v)+RefundState(%d) on %v = %v", cost, cs, g0, g)
						}
						return nil
					})
					r.DistinctHash(mc.Hash64(fmt.Sprint("bounds", E, S, ce, cs)))
				}
			}
		}
	}
}

func TestVerif_C31(t *testing.T) {
	mc.Run(t, "C31", func(r *mc.R) {
		type bfsCfg struct{ N, K, D int }
		cfgs := mc.Pick(r, []bfsCfg{{4, 3, 3}}, []bfsCfg{{5, 3, 3}, {4, 3, 4}})
		r.Rule("explicit-state BFS: state = call stack of <=D frames of real vm.GasBudget values (+ledger model, frame entry values); " +
			"initial budgets (E,S) in [0..N]^2 (configs N/K/D in bounds); transitions on the top frame: Charge(e,s) e,s in 0..K (through Charge, charge, " +
			"ChargeExecutionOnly/ChargeExecution/ChargeState, CanAfford), RefundState(r) r in 1..K with r <= live state gas of the tx, DrainExecution, " +
			"Forward(x) for every x <= ExecutionGas (+ForwardAll, +CALL-style forwarding), Exit{Success,Revert,Halt}(+Exit(err)) followed by Absorb " +
			"into the caller (at depth 1: terminal transaction-level check); all reachable states are expanded once (de-duplicated on all " +
			"implementation fields and entry values of all frames); distinct = distinct states; plus a boundary grid of Charge/CanAfford/" +
			"RefundState/exits on values up to 2^63-1 against exact (math/big) arithmetic; plus real interpreter frames under Amsterdam rules: " +
			"programs = sequences of <=2 units (thorough <=3; quick additionally every 2-unit history followed by each failing creation) over 17 units " +
			"(SSTORE set/clear on 2 slots directly and via DELEGATECALL, CREATE/CREATE2 succeeding, init reverting, init halting, colliding, " +
			"insufficient balance, value CALL to a new account, CALL to a callee that charges state gas and reverts/halts) x ending {STOP, REVERT, INVALID} " +
			"x initial budget E{ample, 600k(, 300k)} x reservoir {0, half an account charge(, one charge), 500k}: leftover of EVM.Call vs the conservation, " +
			"reservoir and exit identities and (ample gas) a reference for the net state gas")
		r.Bound("configs_N_initial_K_cost_D_frames", fmt.Sprint(cfgs))
		r.Assume("gas quantities are at most 2^63-1 (block gas limit bound params.MaxGasLimit), so int64(UsedStateGas) conversions are exact")
		r.Assume("RefundState(r) is only issued for state gas charged earlier in the same transaction by a frame whose effects are still live " +
			"(r <= sum of UsedStateGas over the call stack), as the EVM does (SSTORE 0->x->0, account-creation refill)")
		r.Assume("reference = token-ledger model in int64 (values <= 2N, cannot wrap) evaluated side by side, plus the conservation identities on the implementation fields")

		if r.Replaying() {
			raw, err := os.ReadFile(os.Getenv("VERIF_REPLAY"))
			if err != nil {
				r.Violation("replay-read", err.Error(), nil)
				return
			}
			var f struct {
				Replay map[string]any `json:"replay"`
			}
			if err := json.Unmarshal(raw, &f); err != nil {
				r.Violation("replay-parse", err.Error(), nil)
				return
			}
			if f.Replay["part"] == "budget-bfs" {
				r.Case(f.Replay, func() error { return c31Replay(f.Replay) })
				return
			}
			c31Bounds(r)
			c31Frames(r)
			return
		}

		c31Bounds(r)

		for _, cfg := range cfgs {
			c31BFS(r, fmt.Sprintf("N%dK%dD%d", cfg.N, cfg.K, cfg.D), cfg.N, cfg.K, cfg.D)
		}
		if !r.Expired() {
			c31Frames(r)
		}
	})
}

// c31BFS explores all states reachable from the initial budgets [0..maxInit]^2 breadth first.
func c31BFS(r *mc.R, tag string, maxInit, maxCost, maxDepth int) {
	{
		type meta struct {
			parent int32
			op     c31Op
		}
		var (
			states []c31State
			metas  []meta
			seen   = map[c31State]int32{}
		)
		add := func(st c31State, parent int32, op c31Op) int32 {
			if idx, ok := seen[st]; ok {
				return idx
			}
			idx := int32(len(states))
			seen[st] = idx
			states = append(states, st)
			metas = append(metas, meta{parent, op})
			return idx
		}
		for e := 0; e <= maxInit; e++ {
			for s := 0; s <= maxInit; s++ {
				add(c31Init(e, s), -1, c31Op{})
			}
		}
		r.State(int64(len(states)))
		trace := func(idx int32, last c31Op) map[string]any {
			var ops []string
			ops = append(ops, last.String())
			for metas[idx].parent >= 0 {
				ops = append(ops, metas[idx].op.String())
				idx = metas[idx].parent
			}
			for i, j := 0, len(ops)-1; i < j; i, j = i+1, j-1 {
				ops[i], ops[j] = ops[j], ops[i]
			}
			root := states[idx].f[0]
			return c31Desc(int(root.entE), int(root.entS), ops)
		}

		type succ struct {
			st     c31State
			parent int32
			op     c31Op
		}
		type fail struct {
			parent int32
			op     c31Op
		}
		const chunk = 2048
		lo, level := 0, 0
		nviol := 0
		maxStackSeen := 1
		for lo < len(states) && !r.Expired() && nviol < 40 {
			hi := len(states)
			nchunks := (hi - lo + chunk - 1) / chunk
			outs := make([][]succ, nchunks)
			fails := make([][]fail, nchunks)
			ocounts := make([]map[string]int64, nchunks)
			var trans int64
			var tmu sync.Mutex
			done := r.Parallel(nchunks, func(ci int) {
				a, b := lo+ci*chunk, min(lo+(ci+1)*chunk, hi)
				local := map[c31State]struct{}{}
				oc := map[string]int64{}
				var nt int64
				opbuf := make([]c31Op, 0, 40)
				for i := a; i < b; i++ {
					st := states[i]
					opbuf = c31Ops(&st, maxCost, maxDepth, opbuf)
					for _, op := range opbuf {
						nt++
						res, err := c31SafeStep(st, op)
						if err != nil {
							fails[ci] = append(fails[ci], fail{int32(i), op})
							continue
						}
						oc[res.outcome]++
						if res.terminal || res.next == st {
							continue
						}
						if _, dup := seen[res.next]; dup { // read-only during the parallel phase
							continue
						}
						if _, dup := local[res.next]; dup {
							continue
						}
						local[res.next] = struct{}{}
						outs[ci] = append(outs[ci], succ{res.next, int32(i), op})
					}
				}
				ocounts[ci] = oc
				tmu.Lock()
				trans += nt
				tmu.Unlock()
			})
			r.Eval(trans)
			r.Transition(trans)
			r.Trace(trans)
			if done < nchunks {
				break
			}
			keys := map[string]int64{}
			for _, oc := range ocounts {
				for k, v := range oc {
					keys[k] += v
				}
			}
			names := make([]string, 0, len(keys))
			for k := range keys {
				names = append(names, k)
			}
			sort.Strings(names)
			for _, k := range names {
				r.OutcomeN(k, keys[k])
			}
			for ci := 0; ci < nchunks; ci++ {
				for _, f := range fails[ci] {
					if nviol >= 40 {
						break
					}
					nviol++
					d := trace(f.parent, f.op)
					r.Case(d, func() error { return c31Replay(d) })
				}
				for _, s := range outs[ci] {
					before := len(states)
					idx := add(s.st, s.parent, s.op)
					if int(idx) == before {
						r.State(1)
						r.DistinctHash(mc.Hash64(tag + fmt.Sprint(s.st)))
						if int(s.st.n) > maxStackSeen {
							maxStackSeen = int(s.st.n)
						}
						if idx%50021 == 7 {
							r.Sample(trace(s.parent, s.op))
						}
					}
				}
			}
			lo = hi
			level++
		}
		if nviol >= 40 {
			r.Bound(tag+".stopped_after_violations", nviol)
		}
		r.Bound(tag+".bfs_levels_completed", level)
		r.Bound(tag+".frontier_empty", lo >= len(states))
		r.Bound(tag+".max_stack_reached", maxStackSeen)
		r.Bound(tag+".states", len(states))
		if lo < len(states) && !r.Expired() && nviol < 40 {
			r.NotExhaustive("bfs stopped early")
		}
	}
}

// ---------------------------------------------------------------------------
// Real interpreter frames under Amsterdam (EIP-8037) rules: programs composed of state-gas relevant units are run
// through EVM.Call with a two-dimensional budget; the leftover budget of the frame must satisfy the statement.

var (
	c31Self     = common.HexToAddress("0x5e1f000000000000000000000000000000000031")
	c31ChildRev = common.HexToAddress("0xc411d00000000000000000000000000000000001")
	c31ChildInv = common.HexToAddress("0xc411d00000000000000000000000000000000002")
	c31ChildClr = common.HexToAddress("0xc411d00000000000000000000000000000000003")
	c31ChildSet = common.HexToAddress("0xc411d00000000000000000000000000000000004")
	c31Fresh    = common.HexToAddress("0xf4e5000000000000000000000000000000000031")

	c31InitOK     = []byte{0x60, 0x03, 0x60, 0x00, 0xf3} // deploys 3 zero bytes
	c31InitRevert = []byte{0x60, 0x00, 0x60, 0x00, 0xfd}
	c31InitHalt   = []byte{0xfe}

	c31StateAccount = uint64(params.AccountCreationSize * params.CostPerStateByte)
	c31StateSlot    = uint64(params.StorageCreationSize * params.CostPerStateByte)
)

const c31CollisionSalt = 7

type c31Unit struct {
	name string
	code []byte
	kind string // model class
	arg  int
}

func c31CreateCode(init []byte, create2 bool, salt, value byte) []byte {
	word := make([]byte, 32)
	copy(word[32-len(init):], init)
	off, sz := byte(32-len(init)), byte(len(init))
	b := append([]byte{0x7f}, word...)
	b = append(b, 0x60, 0x00, 0x52)
	if create2 {
		b = append(b, 0x60, salt, 0x60, sz, 0x60, off, 0x60, value, 0xf5)
	} else {
		b = append(b, 0x60, sz, 0x60, off, 0x60, value, 0xf0)
	}
	return append(b, 0x50) // POP
}

func c31CallCode(op byte, to common.Address, value byte, gas uint32) []byte {
	b := []byte{0x60, 0, 0x60, 0, 0x60, 0, 0x60, 0}
	if op == 0xf1 {
		b = append(b, 0x60, value)
	}
	b = append(b, 0x73)
	b = append(b, to.Bytes()...)
	if gas == 0 {
		b = append(b, 0x5a)
	} else {
		b = append(b, 0x62, byte(gas>>16), byte(gas>>8), byte(gas))
	}
	return append(b, op, 0x50)
}

func c31Units() []c31Unit {
	sstore := func(k, v byte) []byte { return []byte{0x60, v, 0x60, k, 0x55} }
	return []c31Unit{
		{"sstore-set-1", sstore(1, 1), "set", 1},
		{"sstore-clear-1", sstore(1, 0), "clr", 1},
		{"sstore-set-2", sstore(2, 1), "set", 2},
		{"create-ok", c31CreateCode(c31InitOK, false, 0, 0), "create-ok", 0},
		{"create-init-reverts", c31CreateCode(c31InitRevert, false, 0, 0), "create-fail", 0},
		{"create-init-halts", c31CreateCode(c31InitHalt, false, 0, 0), "create-fail", 0},
		{"create-insufficient-balance", c31CreateCode(c31InitOK, false, 0, 9), "create-nobalance", 0},
		{"create2-ok", c31CreateCode(c31InitOK, true, 1, 0), "create2-ok", 0},
		{"create2-init-reverts", c31CreateCode(c31InitRevert, true, 2, 0), "create-fail", 0},
		{"create2-init-halts", c31CreateCode(c31InitHalt, true, 3, 0), "create-fail", 0},
		{"create2-collision", c31CreateCode(c31InitOK, true, c31CollisionSalt, 0), "create-fail", 0},
		{"create2-insufficient-balance", c31CreateCode(c31InitOK, true, 4, 9), "create-nobalance", 0},
		{"call-value-new-account", c31CallCode(0xf1, c31Fresh, 1, 0), "call-new", 0},
		{"call-child-sstore-reverts", c31CallCode(0xf1, c31ChildRev, 0, 300_000), "nop", 0},
		{"call-child-sstore-halts", c31CallCode(0xf1, c31ChildInv, 0, 300_000), "nop", 0},
		{"delegatecall-clear-1", c31CallCode(0xf4, c31ChildClr, 0, 0), "clr", 1},
		{"delegatecall-set-2", c31CallCode(0xf4, c31ChildSet, 0, 0), "set", 2},
	}
}

// c31Expect is the reference for the net state gas of a program that runs to completion: storage creation is charged when a
// slot that was empty at transaction start becomes non-zero and refilled when it is cleared again; a new account is charged
// when a CREATE/CREATE2/value-CALL brings an EIP-161-empty account to life, plus the deployed code bytes; failed creations
// (init reverts/halts, collision, insufficient balance) and reverted or halted callees leave nothing.
func c31Expect(seq []c31Unit) int64 {
	var (
		total   int64
		slots   = map[int]bool{}
		nonce   = 1 // the CREATE address for nonce 1 is occupied (collision)
		made2   = false
		madeNew = false
	)
	for _, u := range seq {
		switch u.kind {
		case "set":
			if !slots[u.arg] {
				slots[u.arg] = true
				total += int64(c31StateSlot)
			}
		case "clr":
			if slots[u.arg] {
				slots[u.arg] = false
				total -= int64(c31StateSlot)
			}
		case "create-ok":
			if nonce != 1 {
				total += int64(c31StateAccount + 3*params.CostPerStateByte)
			}
			nonce++
		case "create2-ok":
			if !made2 {
				made2 = true
				total += int64(c31StateAccount + 3*params.CostPerStateByte)
			}
			nonce++
		case "create-fail":
			nonce++
		case "create-nobalance":
		case "call-new":
			if !madeNew {
				madeNew = true
				total += int64(c31StateAccount)
			}
		}
	}
	return total
}

func c31FrameEVM(sdb *state.StateDB) *EVM {
	cfg := *params.MergedTestChainConfig
	cfg.AmsterdamTime = new(uint64)
	ctx := BlockContext{
		CanTransfer: func(db StateDB, addr common.Address, amount *uint256.Int) bool {
			return db.GetBalance(addr).Cmp(amount) >= 0
		},
		Transfer: func(db StateDB, sender, recipient common.Address, amount *uint256.Int, _ *params.Rules) {
			db.SubBalance(sender, amount, tracing.BalanceChangeTransfer)
			db.AddBalance(recipient, amount, tracing.BalanceChangeTransfer)
		},
		GetHash:          func(uint64) common.Hash { return common.Hash{} },
		BlockNumber:      big.NewInt(1),
		Time:             1,
		Difficulty:       big.NewInt(0),
		Random:           &common.Hash{1},
		BaseFee:          big.NewInt(7),
		BlobBaseFee:      big.NewInt(1),
		GasLimit:         60_000_000,
		CostPerStateByte: params.CostPerStateByte,
	}
	return NewEVM(ctx, sdb, &cfg, Config{})
}

// c31RunFrame executes code at c31Self with the given budget and checks the leftover.
func c31RunFrame(seq []c31Unit, ending string, E0, S0 uint64, outcome func(string)) error {
	var code []byte
	for _, u := range seq {
		code = append(code, u.code...)
	}
	switch ending {
	case "stop":
		code = append(code, 0x00)
	case "revert":
		code = append(code, 0x60, 0x00, 0x60, 0x00, 0xfd)
	case "invalid":
		code = append(code, 0xfe)
	}
	sdb, _ := state.New(types.EmptyRootHash, state.NewDatabaseForTesting())
	put := func(a common.Address, c []byte) {
		sdb.CreateAccount(a)
		sdb.SetNonce(a, 1, tracing.NonceChangeGenesis)
		sdb.SetCode(a, c, tracing.CodeChangeUnspecified)
	}
	put(c31Self, code)
	sdb.AddBalance(c31Self, uint256.NewInt(5), tracing.BalanceChangeUnspecified)
	put(c31ChildRev, []byte{0x60, 1, 0x60, 1, 0x55, 0x60, 0, 0x60, 0, 0xfd})
	put(c31ChildInv, []byte{0x60, 1, 0x60, 1, 0x55, 0xfe})
	put(c31ChildClr, []byte{0x60, 0, 0x60, 1, 0x55, 0x00})
	put(c31ChildSet, []byte{0x60, 1, 0x60, 2, 0x55, 0x00})
	// occupied destinations: first CREATE address of self, and the CREATE2 address of the collision unit
	for _, a := range []common.Address{crypto.CreateAddress(c31Self, 1), crypto.CreateAddress2(c31Self, common.Hash{31: c31CollisionSalt}, crypto.Keccak256(c31InitOK))} {
		sdb.CreateAccount(a)
		sdb.SetNonce(a, 1, tracing.NonceChangeGenesis)
	}
	sdb.Finalise(params.Rules{IsEIP158: true})
	evm := c31FrameEVM(sdb)
	defer evm.Release()
	initial := NewGasBudget(E0, S0)
	_, g, err := evm.Call(common.Address{0xca}, c31Self, nil, initial, new(uint256.Int))

	// no field may exceed the initial total (wrap-around), then the identities of the statement
	T := E0 + S0
	if g.ExecutionGas > T || g.StateGas > T || g.UsedExecutionGas > T || g.Spilled > T || g.UsedStateGas > int64(T) || g.UsedStateGas < -int64(T) {
		return fmt.Errorf("leftover %v has a field outside [0, initial total %d] (err=%v)", g, T, err)
	}
	if g.ExecutionGas+g.UsedExecutionGas+g.Spilled != E0 {
		return fmt.Errorf("execution gas not conserved: left %d + used %d + spilled %d != initial %d; leftover %v (err=%v)", g.ExecutionGas, g.UsedExecutionGas, g.Spilled, E0, g, err)
	}
	if int64(g.StateGas)+g.UsedStateGas-int64(g.Spilled) != int64(S0) {
		return fmt.Errorf("reservoir identity broken: StateGas %d + UsedStateGas %d - Spilled %d != initial reservoir %d; leftover %v (err=%v)", g.StateGas, g.UsedStateGas, g.Spilled, S0, g, err)
	}
	if int64(g.Used(initial)) != int64(g.UsedExecutionGas)+g.UsedStateGas {
		return fmt.Errorf("Used(initial)=%d but accumulators are <%d,%d>", g.Used(initial), g.UsedExecutionGas, g.UsedStateGas)
	}
	switch {
	case err == nil:
		if ending != "stop" {
			return fmt.Errorf("frame ending in %s succeeded", ending)
		}
		if E0 >= 1<<40 {
			// ample gas: every unit ran to completion, the net state gas is known
			if want := c31Expect(seq); g.UsedStateGas != want {
				return fmt.Errorf("net state gas of the frame = %d, reference = %d; leftover %v", g.UsedStateGas, want, g)
			}
			switch {
			case g.Spilled > 0:
				outcome("frame_ok_spilled")
			case g.UsedStateGas > 0:
				outcome("frame_ok_state_from_reservoir")
			default:
				outcome("frame_ok_no_state_gas")
			}
		} else {
			outcome("frame_ok_tight_gas")
		}
	case err == ErrExecutionReverted:
		if g.StateGas != S0 || g.UsedStateGas != 0 || g.Spilled != 0 {
			return fmt.Errorf("reverted frame must hand back the reservoir %d it started with, no spill, no state usage: %v", S0, g)
		}
		outcome("frame_reverted")
	default:
		if g.StateGas != S0 || g.UsedStateGas != 0 || g.Spilled != 0 || g.ExecutionGas != 0 || g.UsedExecutionGas != E0 {
			return fmt.Errorf("halted frame (%v) must burn all execution gas and hand back the reservoir %d: %v", err, S0, g)
		}
		if E0 >= 1<<40 && ending == "stop" {
			return fmt.Errorf("frame halted with ample gas: %v", err)
		}
		outcome("frame_halted")
	}
	return nil
}

func c31Frames(r *mc.R) {
	units := c31Units()
	failing := []int{}
	for i, u := range units {
		if u.kind == "create-fail" || u.kind == "create-nobalance" {
			failing = append(failing, i)
		}
	}
	var Es, Ss []uint64
	if r.Quick() {
		Es, Ss = []uint64{1 << 40, 600_000}, []uint64{0, c31StateAccount / 2, 500_000}
	} else {
		Es, Ss = []uint64{1 << 40, 600_000, 300_000}, []uint64{0, c31StateAccount / 2, c31StateAccount, 500_000}
	}
	type prog struct {
		seq     []int
		endings []string
	}
	var progs []prog
	all3 := []string{"stop", "revert", "invalid"}
	for a := range units {
		progs = append(progs, prog{[]int{a}, all3})
		for b := range units {
			progs = append(progs, prog{[]int{a, b}, all3})
			if r.Quick() {
				for _, c := range failing { // a failed creation after every two-unit history
					progs = append(progs, prog{[]int{a, b, c}, []string{"stop"}})
				}
			} else {
				for c := range units {
					progs = append(progs, prog{[]int{a, b, c}, all3})
				}
			}
		}
	}
	r.Bound("frames.units", len(units))
	r.Bound("frames.programs", len(progs))
	r.Bound("frames.budgets_E", fmt.Sprint(Es))
	r.Bound("frames.budgets_S", fmt.Sprint(Ss))
	r.Parallel(len(progs), func(pi int) {
		p := progs[pi]
		seq := make([]c31Unit, len(p.seq))
		names := make([]string, len(p.seq))
		for i, x := range p.seq {
			seq[i], names[i] = units[x], units[x].name
		}
		oc := map[string]int64{}
		for _, ending := range p.endings {
			for _, E0 := range Es {
				for _, S0 := range Ss {
					c := map[string]any{"part": "evm-frame", "units": names, "ending": ending, "E": E0, "S": S0}
					r.Case(c, func() error { return c31RunFrame(seq, ending, E0, S0, func(k string) { oc[k]++ }) })
					r.DistinctHash(mc.Hash64(fmt.Sprint("frame", p.seq, ending, E0, S0)))
				}
			}
		}
		if pi%997 == 5 {
			r.Sample(map[string]any{"part": "evm-frame", "units": names})
		}
		for k, v := range oc {
			r.OutcomeN(k, v)
		}
	})
}
