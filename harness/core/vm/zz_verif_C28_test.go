//go:build verif

package vm

// C28: EVM results are independent of pooling, caching and call depth.
//
// A fixed set P of programs built to leave dirty stacks / dirty memory behind, to read never-written
// memory, to recurse, to exercise jump tables (cached JUMPDEST analysis) and cacheable precompiles is
// deployed in one base state. Every program is first executed in isolation (brand-new arena, emptied
// memory pool, fresh jumpdest cache, no precompile cache): the baseline table. Then
//   (a) every ordered triple (p,q,r) in P^3 is executed back to back on ONE EVM (shared stack arena,
//       shared jumpdest cache), the process-wide memory pool and one process-wide precompile cache, each
//       run on its own copy of the base state: every run must reproduce its baseline exactly;
//   (b) every program is run nested under 1..3 wrapper frames that dirty their own stack and memory,
//       after every other program has run on the same EVM: inner success flag, return data, gas used,
//       post-state root, logs and refund counter must equal the depth-0 baseline;
//   (c) programs whose result is known by construction (reads of fresh memory = zero, hashes computed
//       with the Go standard library, ...) are additionally compared with that constant in every context.

import (
	"bytes"
	"crypto/ecdsa"
	"crypto/sha256"
	"encoding/hex"
	"fmt"
	"math/big"
	"os"
	"sort"
	"sync"
	"testing"
	"time"

	"github.com/ethereum/go-ethereum/common"
	"github.com/ethereum/go-ethereum/core/state"
	"github.com/ethereum/go-ethereum/core/tracing"
	"github.com/ethereum/go-ethereum/core/types"
	"github.com/ethereum/go-ethereum/crypto"
	"github.com/ethereum/go-ethereum/internal/verif/mc"
	"github.com/ethereum/go-ethereum/params"
	"github.com/holiman/uint256"
	"golang.org/x/crypto/ripemd160"
)

// ---------------------------------------------------------------------------
// tiny assembler

type c28Asm struct {
	code   []byte
	labels map[string]int
	fixups []c28Fix
}

type c28Fix struct {
	pos  int
	name string
}

func c28New() *c28Asm { return &c28Asm{labels: map[string]int{}} }

func (a *c28Asm) op(ops ...OpCode) *c28Asm {
	for _, o := range ops {
		a.code = append(a.code, byte(o))
	}
	return a
}

// push emits the shortest PUSHn (n>=1) for v.
func (a *c28Asm) push(v uint64) *c28Asm {
	b := new(big.Int).SetUint64(v).Bytes()
	if len(b) == 0 {
		b = []byte{0}
	}
	return a.pushBytes(b)
}

func (a *c28Asm) pushBytes(b []byte) *c28Asm {
	if len(b) == 0 || len(b) > 32 {
		panic("bad push")
	}
	a.code = append(a.code, byte(PUSH1)+byte(len(b)-1))
	a.code = append(a.code, b...)
	return a
}

func (a *c28Asm) pushLabel(name string) *c28Asm {
	a.code = append(a.code, byte(PUSH2), 0, 0)
	a.fixups = append(a.fixups, c28Fix{len(a.code) - 2, name})
	return a
}

func (a *c28Asm) label(name string) *c28Asm { // jump target
	a.labels[name] = len(a.code)
	return a.op(JUMPDEST)
}

func (a *c28Asm) mark(name string) *c28Asm { // position without JUMPDEST (data section)
	a.labels[name] = len(a.code)
	return a
}

func (a *c28Asm) raw(b []byte) *c28Asm { a.code = append(a.code, b...); return a }

func (a *c28Asm) mstore(off uint64, val []byte) *c28Asm {
	return a.pushBytes(val).push(off).op(MSTORE)
}

func (a *c28Asm) ret(off, size uint64) *c28Asm { return a.push(size).push(off).op(RETURN) }

func (a *c28Asm) bytes() []byte {
	for _, f := range a.fixups {
		p, ok := a.labels[f.name]
		if !ok {
			panic("undefined label " + f.name)
		}
		a.code[f.pos], a.code[f.pos+1] = byte(p>>8), byte(p)
	}
	return a.code
}

// ---------------------------------------------------------------------------
// programs

type c28Want struct {
	ret []byte
	err string // "" = success, otherwise a substring of the error
}

type c28Prog struct {
	name string
	addr common.Address
	code []byte
	want *c28Want
}

var (
	c28Junk   = bytes.Repeat([]byte{0xee}, 32)
	c28Ones   = bytes.Repeat([]byte{0xff}, 32)
	c28Origin = common.HexToAddress("0xca11e40000000000000000000000000000000028")
	c28Key, _ = crypto.HexToECDSA("b71c71a67e1177ad4e901695e1b4b9ee17ae16c6668d313eac2f96dbcda3f291")
)

const (
	c28Gas      = 400_000 // gas of every program run (depth 0 and inner frame of the nested runs)
	c28OuterGas = 30_000_000
)

func c28Addr(i int) common.Address {
	return common.BigToAddress(new(big.Int).Add(new(big.Int).Lsh(big.NewInt(0x28c0de), 64), big.NewInt(int64(i))))
}

func c28Word(x uint64) []byte { return common.BigToHash(new(big.Int).SetUint64(x)).Bytes() }

func c28Zeros(n int) []byte { return make([]byte, n) }

// c28FillMem emits a loop storing junk into words [0, n) of memory.
func c28FillMem(a *c28Asm, n uint64, tag string) *c28Asm {
	a.push(n * 32)
	a.label("fill" + tag)
	a.push(32).op(SWAP1, SUB)
	a.pushBytes(c28Junk).op(DUP2, MSTORE)
	a.op(DUP1).pushLabel("fill" + tag).op(JUMPI)
	return a.op(POP)
}

// c28PreProg calls precompile `pre` with input (kept in a data section) through STATICCALL and returns success ‖ output.
func c28PreProg(pre byte, input []byte) []byte {
	a := c28New()
	n := uint64(len(input))
	a.push(n).pushLabel("data").push(0).op(CODECOPY)
	a.push(0).push(0).push(n).push(0).push(uint64(pre)).op(GAS, STATICCALL)
	a.push(0x400).op(MSTORE)
	a.op(RETURNDATASIZE).push(0).push(0x420).op(RETURNDATACOPY)
	a.op(RETURNDATASIZE).push(0x20).op(ADD).push(0x400).op(RETURN)
	a.mark("data").raw(input)
	return a.bytes()
}

// c28CallerProg first takes a jump of its own (so that its own analysis is cached) and then calls target with the
// given call opcode; returns callee output word ‖ success ‖ SLOAD(2).
func c28CallerProg(kind OpCode, target common.Address) []byte {
	a := c28New()
	a.pushLabel("go").op(JUMP, INVALID)
	// push data over offsets 6..37: the jump destinations of the callees (6 resp. 10) are *data* positions in this code, so an
	// analysis looked up under the wrong code hash gives a different verdict
	a.pushBytes(bytes.Repeat([]byte{0x5b}, 32)).op(POP)
	a.label("go")
	a.push(32).push(0).push(0).push(0)
	if kind == CALL || kind == CALLCODE {
		a.push(0)
	}
	a.pushBytes(target.Bytes()).op(GAS, kind)
	a.push(32).op(MSTORE)
	a.push(2).op(SLOAD).push(64).op(MSTORE)
	return a.ret(0, 96).bytes()
}

func c28Programs() []c28Prog {
	var ps []c28Prog
	add := func(name string, code []byte, want *c28Want) common.Address {
		addr := c28Addr(len(ps) + 1)
		ps = append(ps, c28Prog{name: name, addr: addr, code: code, want: want})
		return addr
	}
	ok := func(ret []byte) *c28Want { return &c28Want{ret: ret} }
	fail := func(sub string) *c28Want { return &c28Want{err: sub} }

	// ---- stacks
	add("stop", []byte{byte(STOP)}, ok(nil))
	{
		a := c28New()
		for i := 0; i < 48; i++ {
			a.pushBytes(c28Ones)
		}
		add("stack-dirty-48", a.op(STOP).bytes(), ok(nil))
	}
	stackLoop := func(n uint64) []byte {
		a := c28New().push(n)
		a.label("loop").pushBytes(c28Junk).op(SWAP1).push(1).op(SWAP1, SUB)
		a.op(DUP1).pushLabel("loop").op(JUMPI, STOP)
		return a.bytes()
	}
	add("stack-dirty-1000", stackLoop(1000), ok(nil))
	add("stack-overflow", stackLoop(1100), fail("stack limit reached"))
	add("stack-underflow", []byte{byte(POP)}, fail("stack underflow"))
	{
		// every opcode that materialises a stack slot, each landing on a slot this program has not written before (the values
		// stay on the stack until all are produced): a stale limb in a recycled arena slot would show in the result
		a := c28New()
		i := uint64(0)
		for _, o := range []OpCode{ADDRESS, ORIGIN, CALLVALUE, CALLDATASIZE, CODESIZE, GASPRICE, RETURNDATASIZE, COINBASE, TIMESTAMP, NUMBER,
			DIFFICULTY, GASLIMIT, CHAINID, SELFBALANCE, BASEFEE, BLOBBASEFEE, PC, MSIZE, PUSH0, GAS} {
			a.op(o)
			i++
		}
		for _, x := range []struct {
			o   OpCode
			arg uint64
		}{{BLOBHASH, 0}, {TLOAD, 5}, {SLOAD, 1}, {CALLDATALOAD, 100}, {CALLDATALOAD, 16}, {BLOCKHASH, 0}, {MLOAD, 2000}, {ISZERO, 0}, {NOT, 0}} {
			a.push(x.arg).op(x.o)
			i++
		}
		for _, o := range []OpCode{BALANCE, EXTCODESIZE, EXTCODEHASH} {
			a.op(ADDRESS, o)
			i++
		}
		for k := uint64(0); k < i; k++ {
			a.push(0x1000 + 32*k).op(MSTORE)
		}
		a.push(32 * i).push(0x1000).op(RETURN)
		add("stack-pushers", a.bytes(), nil)
	}
	{
		a := c28New()
		for i := 1; i <= 17; i++ {
			a.push(uint64(i) * 0x0101)
		}
		a.op(DUP16, SWAP16, DUP1, SWAP5, DUP9, SWAP1)
		for i := uint64(0); i < 6; i++ {
			a.push(32 * i).op(MSTORE)
		}
		add("stack-dup-swap", a.ret(0, 192).bytes(), nil)
	}
	// ---- memory
	{
		a := c28New()
		for i := uint64(0); i < 4; i++ {
			a.mstore(32*i, c28Junk)
		}
		add("mem-dirty-128", a.ret(0, 128).bytes(), ok(bytes.Repeat([]byte{0xee}, 128)))
	}
	for _, n := range []uint64{128, 511, 640} { // 4 KiB, just under the 16 KiB pooling threshold, above it
		a := c28FillMem(c28New(), n, "")
		a.push(n * 32).push(0).op(KECCAK256).push(0).op(MSTORE)
		add(fmt.Sprintf("mem-dirty-%dw", n), a.ret(0, 32).bytes(), ok(crypto.Keccak256(bytes.Repeat([]byte{0xee}, int(n)*32))))
	}
	{
		a := c28New()
		a.push(0).op(MLOAD).push(32).op(MLOAD, OR).push(64).op(MLOAD, OR).push(96).op(MLOAD, OR).push(5000).op(MLOAD, OR)
		a.push(0x2000).op(MSTORE)
		add("mem-fresh-mload", a.ret(0x2000, 32).bytes(), ok(c28Zeros(32)))
	}
	add("mem-fresh-return-128", c28New().ret(0, 128).bytes(), ok(c28Zeros(128)))
	add("mem-fresh-return-4k", c28New().ret(0, 4096).bytes(), ok(c28Zeros(4096)))
	add("mem-fresh-return-high", c28New().ret(16000, 384).bytes(), ok(c28Zeros(384)))
	{
		a := c28New().push(16384).push(0).op(KECCAK256).push(0).op(MSTORE)
		add("mem-fresh-keccak-16k", a.ret(0, 32).bytes(), ok(crypto.Keccak256(c28Zeros(16384))))
	}
	{
		a := c28New().push(0x11).push(100).op(MSTORE8)
		w := c28Zeros(256)
		w[100] = 0x11
		add("mem-partial-write", a.ret(0, 256).bytes(), ok(w))
	}
	{
		a := c28New().push(64).push(16).push(0).op(CALLDATACOPY)
		add("mem-calldatacopy-pad", a.ret(0, 96).bytes(), nil) // expectation depends on the address: filled in below
	}
	{
		a := c28New().push(64).push(4).op(CODESIZE, SUB).push(0).op(CODECOPY)
		a.ret(0, 64)
		code := a.bytes()
		add("mem-codecopy-pad", code, ok(append(append([]byte{}, code[len(code)-4:]...), c28Zeros(60)...)))
	}
	{
		a := c28New().push(1000).op(MLOAD, POP, MSIZE).push(0).op(MSTORE)
		add("mem-msize", a.ret(0, 32).bytes(), ok(c28Word(1056)))
	}
	{
		a := c28New().mstore(0, c28Junk).push(32).push(0).push(64).op(MCOPY)
		add("mem-mcopy", a.ret(0, 128).bytes(), ok(bytes.Join([][]byte{c28Junk, c28Zeros(32), c28Junk, c28Zeros(32)}, nil)))
	}
	{
		a := c28New().mstore(0, c28Junk).mstore(64, c28Ones).push(1).push(10_000_000).op(MSTORE, STOP)
		add("mem-oog-after-dirty", a.bytes(), fail("out of gas"))
	}
	{
		a := c28New().mstore(0, c28Junk).push(64).push(0).op(REVERT)
		add("mem-revert-data", a.bytes(), &c28Want{ret: append(append([]byte{}, c28Junk...), c28Zeros(32)...), err: "execution reverted"})
	}
	{
		a := c28New().mstore(0, c28Junk).push(0xbeef).push(40).push(0).op(LOG1).mstore(0, c28Ones).op(STOP)
		add("mem-log", a.bytes(), ok(nil))
	}
	{
		a := c28New().op(RETURNDATASIZE).push(0).op(MSTORE)
		add("returndata-fresh", a.ret(0, 32).bytes(), ok(c28Zeros(32)))
	}
	// ---- memory above the 16 KiB pooling threshold: dirtiers leave non-zero words just below / just above 16 KiB, at 0x5000 and
	// at 64 KiB; observers expand memory to those regions by READING first (unwritten memory must read as zero)
	highOffs := []uint64{16352, 16384, 0x5000, 0x10000}
	{
		a := c28New()
		for _, o := range highOffs {
			a.mstore(o, c28Junk)
		}
		hiMstore := add("mem-dirty-high-mstore", a.op(STOP).bytes(), ok(nil))
		a = c28New()
		for _, o := range highOffs {
			a.push(32).push(0).push(o).op(CODECOPY)
		}
		add("mem-dirty-high-codecopy", a.op(STOP).pushBytes(c28Ones).bytes(), ok(nil))
		a = c28New()
		for _, o := range highOffs {
			a.push(32).push(0).push(o).op(CALLDATACOPY)
		}
		add("mem-dirty-high-calldatacopy", a.op(STOP).bytes(), ok(nil))
		a = c28New().push(0).push(0).push(0).push(0).push(0).pushBytes(hiMstore.Bytes()).op(GAS, CALL, POP, STOP)
		add("mem-dirty-high-in-callee", a.bytes(), ok(nil))

		a = c28New()
		for i, o := range highOffs {
			a.push(o).op(MLOAD)
			if i > 0 {
				a.op(OR)
			}
		}
		a.push(0).op(MSTORE)
		add("mem-high-fresh-mload", a.ret(0, 32).bytes(), ok(c28Zeros(32)))
		a = c28New()
		for i, o := range highOffs {
			a.push(32).push(o).push(32 * uint64(i)).op(MCOPY)
		}
		add("mem-high-fresh-mcopy", a.ret(0, 128).bytes(), ok(c28Zeros(128)))
		span := uint64(0x10000 + 32 - 16352)
		a = c28New().push(span).push(16352).op(KECCAK256).push(0).op(MSTORE)
		add("mem-high-fresh-keccak", a.ret(0, 32).bytes(), ok(crypto.Keccak256(c28Zeros(int(span)))))
		add("mem-high-fresh-return-16k", c28New().ret(16352, 128).bytes(), ok(c28Zeros(128)))
		add("mem-high-fresh-return-64k", c28New().ret(0x10000, 64).bytes(), ok(c28Zeros(64)))
		add("mem-high-fresh-log", c28New().push(64).push(0x5000).op(LOG0, STOP).bytes(), ok(nil))
		// CALL arguments taken from an unwritten region: identity precompile echoes them
		a = c28New().push(64).push(0).push(64).push(0x5000).push(0).push(4).op(GAS, CALL, POP)
		add("mem-high-fresh-callargs", a.ret(0, 64).bytes(), ok(c28Zeros(64)))
	}
	add("invalid-after-dirty", c28New().mstore(0, c28Junk).pushBytes(c28Ones).pushBytes(c28Ones).op(INVALID).bytes(), fail("invalid opcode"))
	{
		a := c28New().push(7).push(3).op(SSTORE).push(9).push(5).op(TSTORE).push(3).op(SLOAD).push(0).op(MSTORE)
		add("sstore-tstore", a.ret(0, 32).bytes(), ok(c28Word(7)))
	}
	// ---- recursion
	{
		a := c28New().push(32).op(CALLDATALOAD)
		for i := 0; i < 8; i++ {
			a.pushBytes(c28Junk)
		}
		a.push(3).op(DUP10, LT).pushLabel("rec").op(JUMPI)
		a.op(DUP9).push(0).op(MSTORE).ret(0, 32)
		a.label("rec")
		a.op(ADDRESS).push(0).op(MSTORE)
		a.op(DUP9).push(1).op(ADD).push(32).op(MSTORE)
		a.push(32).push(64).push(64).push(0).push(0).op(ADDRESS, GAS, CALL, POP)
		a.push(64).op(MLOAD, DUP10, ADD).push(1).op(ADD).push(0).op(MSTORE)
		add("recursion-3", a.ret(0, 32).bytes(), ok(c28Word(9)))
	}
	// ---- jump tables
	retA1 := func(a *c28Asm) *c28Asm { return a.push(0xa1).push(0).op(MSTORE).ret(0, 32) }
	jumpA := add("jump-valid", retA1(c28New().push(6).op(JUMP, STOP).push(0).op(JUMPDEST)).bytes(), ok(c28Word(0xa1)))
	jumpB := add("jump-into-push2-data", retA1(c28New().push(6).op(JUMP, STOP).raw([]byte{byte(PUSH2), 0x00, 0x5b})).bytes(), fail("invalid jump destination"))
	add("jump-into-push32-data", c28New().push(10).op(JUMP).pushBytes(bytes.Repeat([]byte{0x5b}, 32)).op(STOP).bytes(), fail("invalid jump destination"))
	bigJump := func(valid bool) []byte {
		a := c28New()
		if valid {
			a.pushLabel("end")
		} else {
			a.push(3 + 34*35 + 10) // a 0x5b byte inside the 36th PUSH32
		}
		a.op(JUMP)
		for i := 0; i < 40; i++ {
			a.pushBytes(bytes.Repeat([]byte{0x5b}, 32)).op(POP)
		}
		a.label("end")
		return retA1(a).bytes()
	}
	add("jump-far-valid", bigJump(true), ok(c28Word(0xa1)))
	add("jump-far-into-data", bigJump(false), fail("invalid jump destination"))
	{
		a := c28New().push(50)
		a.label("loop").push(1).op(SWAP1, SUB, DUP1).pushLabel("loop").op(JUMPI)
		a.push(0x77).push(0).op(MSTORE)
		add("jumpi-loop", a.ret(0, 32).bytes(), ok(c28Word(0x77)))
	}
	lib := add("lib-sstore-jump", retA1(c28New().push(0x77).push(2).op(SSTORE).pushLabel("x").op(JUMP, INVALID).label("x")).bytes(), ok(c28Word(0xa1)))
	cat := func(p ...[]byte) []byte { return bytes.Join(p, nil) }
	add("delegatecall-lib", c28CallerProg(DELEGATECALL, lib), ok(cat(c28Word(0xa1), c28Word(1), c28Word(0x77))))
	add("callcode-jump-valid", c28CallerProg(CALLCODE, jumpA), ok(cat(c28Word(0xa1), c28Word(1), c28Word(0))))
	add("delegatecall-jump-invalid", c28CallerProg(DELEGATECALL, jumpB), ok(cat(c28Word(0), c28Word(0), c28Word(0))))
	add("staticcall-jump-valid", c28CallerProg(STATICCALL, jumpA), ok(cat(c28Word(0xa1), c28Word(1), c28Word(0))))
	add("call-lib", c28CallerProg(CALL, lib), ok(cat(c28Word(0xa1), c28Word(1), c28Word(0))))
	{
		// CREATE a child whose init code takes a jump (analysis of init code is never cached), then call the child
		runtime := retA1(c28New().pushLabel("r").op(JUMP, INVALID).label("r")).bytes()
		ini := c28New().pushLabel("i").op(JUMP, INVALID).label("i")
		ini.push(uint64(len(runtime))).pushLabel("rt").push(0).op(CODECOPY).ret(0, uint64(len(runtime)))
		ini.mark("rt").raw(runtime)
		initCode := ini.bytes()
		a := c28New().push(uint64(len(initCode))).pushLabel("init").push(0).op(CODECOPY)
		a.push(uint64(len(initCode))).push(0).push(0).op(CREATE)
		a.push(32).push(0x800).push(0).push(0).push(0).op(DUP6, GAS, CALL)
		a.push(0x820).op(MSTORE)
		a.ret(0x800, 64)
		a.mark("init").raw(initCode)
		add("create-and-call", a.bytes(), ok(cat(c28Word(0xa1), c28Word(1))))
	}
	// CREATE2 onto a pre-funded, code-less account (it exists, so its code hash is the empty-code hash, not zero) with init
	// codes of the jump family: the analysis of init code must never be shared between deployments
	c28PreFunded = nil
	for _, ic := range c28InitFamily() {
		switch ic.name {
		case "A1", "B1", "A3", "B3":
			a := c28New().push(uint64(len(ic.code))).pushLabel("init").push(0).op(CODECOPY)
			a.push(0x5a17).push(uint64(len(ic.code))).push(0).push(0).op(CREATE2)
			a.op(DUP1).push(0x800).op(MSTORE).op(EXTCODESIZE).push(0x820).op(MSTORE)
			a.ret(0x800, 64)
			a.mark("init").raw(ic.code)
			self := c28Addr(len(ps) + 1)
			target := crypto.CreateAddress2(self, common.Hash{30: 0x5a, 31: 0x17}, crypto.Keccak256(ic.code))
			c28PreFunded = append(c28PreFunded, target)
			want := cat(c28Word(0), c28Word(0))
			if ic.valid {
				want = cat(common.LeftPadBytes(target.Bytes(), 32), c28Word(uint64(len(c28InitRuntime))))
			}
			add("create2-funded-target-"+ic.name, a.bytes(), ok(want))
		}
	}
	// ---- precompiles (sha256/ripemd160/ecrecover/modexp results are cacheable, identity is not)
	pre := func(name string, p byte, in []byte, out []byte) {
		add(name, c28PreProg(p, in), ok(cat(c28Word(1), out)))
	}
	preDiff := func(name string, p byte, in []byte) { add(name, c28PreProg(p, in), nil) } // differential only
	sha := func(in []byte) []byte { h := sha256.Sum256(in); return h[:] }
	rip := func(in []byte) []byte { h := ripemd160.New(); h.Write(in); return common.LeftPadBytes(h.Sum(nil), 32) }
	pre("sha256-empty", 2, nil, sha(nil))
	pre("sha256-00", 2, []byte{0}, sha([]byte{0}))
	pre("sha256-0000", 2, []byte{0, 0}, sha([]byte{0, 0}))
	pre("sha256-ab", 2, []byte("ab"), sha([]byte("ab")))
	pre("sha256-ab00", 2, []byte("ab\x00"), sha([]byte("ab\x00")))
	pre("ripemd-ab", 3, []byte("ab"), rip([]byte("ab")))
	pre("ripemd-ab00", 3, []byte("ab\x00"), rip([]byte("ab\x00")))
	pre("identity-ab00", 4, []byte("ab\x00"), []byte("ab\x00"))
	{
		h := crypto.Keccak256([]byte("c28"))
		sig, err := crypto.Sign(h, c28Key)
		if err != nil {
			panic(err)
		}
		in := cat(h, c28Word(uint64(sig[64])+27), sig[:32], sig[32:64])
		who := common.LeftPadBytes(crypto.PubkeyToAddress(c28Key.PublicKey).Bytes(), 32)
		pre("ecrecover-valid", 1, in, who)
		pre("ecrecover-valid-trailing", 1, append(append([]byte{}, in...), 0xaa, 0), who)
		bad := append([]byte{}, in...)
		bad[63] = 29
		pre("ecrecover-bad-v", 1, bad, nil)
		preDiff("ecrecover-truncated", 1, in[:127]) // the last byte of s dropped: zero padded => a different signature
	}
	{
		hdr := cat(c28Word(1), c28Word(1), c28Word(1))
		pre("modexp-3-5-7", 5, cat(hdr, []byte{3, 5, 7}), []byte{5})
		pre("modexp-3-5-7-trailing", 5, cat(hdr, []byte{3, 5, 7, 9, 9}), []byte{5})
		pre("modexp-3-5-11", 5, cat(hdr, []byte{3, 5, 11}), []byte{1})
		preDiff("modexp-3-5-short", 5, cat(hdr, []byte{3, 5})) // modulus byte missing = 0
	}
	{
		// zero-length operands: the header alone does not decide the result
		mx := func(bl, el, ml uint64, tail ...byte) []byte { return cat(c28Word(bl), c28Word(el), c28Word(ml), tail) }
		for i, in := range [][]byte{mx(0, 1, 1, 0, 5), mx(0, 1, 1, 2, 5), mx(0, 1, 1, 0, 1), mx(1, 0, 1, 3, 5), mx(1, 0, 1, 3, 1), mx(0, 0, 1, 5), mx(0, 0, 1, 1), mx(1, 1, 0, 3, 2)} {
			pre(fmt.Sprintf("modexp-zero-len-%d", i), 5, in, c28ModexpRef(in))
		}
		g := cat(c28Word(1), c28Word(2))
		preDiff("bnadd-empty", 6, nil)
		preDiff("bnadd-g-plus-0-short", 6, g)
		preDiff("bnadd-g-plus-g", 6, cat(g, g))
		preDiff("bnmul-g-times-0-short", 7, g)
		preDiff("bnmul-g-times-2", 7, cat(g, c28Word(2)))
	}
	// fix up expectations that depend on the program's own address (input = word(address))
	for i := range ps {
		if ps[i].name == "mem-calldatacopy-pad" {
			in := common.LeftPadBytes(ps[i].addr.Bytes(), 32)
			ps[i].want = ok(cat(in[16:], c28Zeros(80)))
		}
	}
	return ps
}

// wrappers for the depth part: W[k] calls W[k-1] ... W[0] calls the address in calldata word 0 with exactly c28Gas.
func c28WrapperAddr(k int) common.Address { return c28Addr(1000 + k) }

func c28Wrapper(k int) []byte {
	a := c28New()
	for i := 0; i < 12; i++ {
		a.pushBytes(c28Ones)
	}
	a.mstore(0x3e0, c28Junk).mstore(0x100, c28Junk)
	a.push(32).push(0).push(0).op(CALLDATACOPY)
	a.op(GAS)
	a.push(0).push(0).push(32).push(0).push(0)
	if k == 0 {
		a.push(0).op(CALLDATALOAD).push(c28Gas)
	} else {
		a.pushBytes(c28WrapperAddr(k - 1).Bytes()).op(GAS)
	}
	a.op(CALL)
	a.push(0x300).op(MSTORE)
	a.op(GAS, SWAP1, SUB).push(0x320).op(MSTORE)
	a.op(RETURNDATASIZE).push(0).push(0x340).op(RETURNDATACOPY)
	a.op(RETURNDATASIZE).push(0x40).op(ADD).push(0x300).op(RETURN)
	return a.bytes()
}

// ---------------------------------------------------------------------------
// execution

type c28Env struct {
	progs []c28Prog
	db    state.Database
	root  common.Hash
	cfg   *params.ChainConfig
	rules params.Rules
	al    types.AccessList // wrappers + the programs other programs call
	alFor map[common.Address]types.AccessList
	pre   []common.Address
}

func c28NewEnv() *c28Env {
	e := &c28Env{progs: c28Programs(), cfg: params.MergedTestChainConfig}
	e.db = state.NewDatabaseForTesting()
	sdb, _ := state.New(types.EmptyRootHash, e.db)
	sdb.CreateAccount(c28Origin)
	sdb.AddBalance(c28Origin, uint256.NewInt(1_000_000_000), tracing.BalanceChangeUnspecified)
	deploy := func(addr common.Address, code []byte) {
		sdb.CreateAccount(addr)
		sdb.SetNonce(addr, 1, tracing.NonceChangeGenesis)
		sdb.SetCode(addr, code, tracing.CodeChangeUnspecified)
		sdb.AddBalance(addr, uint256.NewInt(1000), tracing.BalanceChangeUnspecified)
		sdb.SetState(addr, common.Hash{31: 1}, common.Hash{31: 0x42})
	}
	tuple := func(addr common.Address) types.AccessTuple {
		return types.AccessTuple{Address: addr, StorageKeys: []common.Hash{{31: 1}, {31: 2}, {31: 3}}}
	}
	for _, p := range e.progs {
		deploy(p.addr, p.code)
		switch p.name {
		case "jump-valid", "jump-into-push2-data", "lib-sstore-jump":
			e.al = append(e.al, tuple(p.addr))
		}
	}
	for k := 0; k < 3; k++ {
		deploy(c28WrapperAddr(k), c28Wrapper(k))
		e.al = append(e.al, tuple(c28WrapperAddr(k)))
	}
	for _, c := range c28InheritContracts() {
		deploy(c.addr, c.code)
	}
	for _, c := range c28CreationContracts() {
		deploy(c.addr, c.code)
	}
	deploy(c28SiblingAddr, c28SiblingCaller())
	e.al = append(e.al, tuple(c28SiblingAddr))
	for _, a := range c28PreFunded {
		sdb.CreateAccount(a)
		sdb.AddBalance(a, uint256.NewInt(1), tracing.BalanceChangeUnspecified)
	}
	deploy(c28ForwarderAddr, c28Forwarder())
	e.al = append(e.al, tuple(c28ForwarderAddr))
	e.alFor = map[common.Address]types.AccessList{}
	for _, p := range e.progs {
		e.alFor[p.addr] = append(append(types.AccessList{}, e.al...), tuple(p.addr))
	}
	e.rules = e.cfg.Rules(big.NewInt(1), true, 1)
	e.pre = ActivePrecompiles(e.rules)
	root, err := sdb.Commit(e.rules, 0)
	if err != nil {
		panic(err)
	}
	e.root = root
	return e
}

func (e *c28Env) newEVM() *EVM {
	ctx := BlockContext{
		CanTransfer: func(db StateDB, addr common.Address, amount *uint256.Int) bool {
			return db.GetBalance(addr).Cmp(amount) >= 0
		},
		Transfer: func(db StateDB, sender, recipient common.Address, amount *uint256.Int, _ *params.Rules) {
			db.SubBalance(sender, amount, tracing.BalanceChangeTransfer)
			db.AddBalance(recipient, amount, tracing.BalanceChangeTransfer)
		},
		GetHash:     func(n uint64) common.Hash { return common.Hash{byte(n), 0x28} },
		Coinbase:    common.HexToAddress("0xc01bba5e00000000000000000000000000000028"),
		BlockNumber: big.NewInt(1),
		Time:        1,
		Difficulty:  big.NewInt(0),
		Random:      &common.Hash{0x28},
		BaseFee:     big.NewInt(7),
		BlobBaseFee: big.NewInt(1),
		GasLimit:    60_000_000,
	}
	return NewEVM(ctx, nil, e.cfg, Config{})
}

type c28Result struct {
	ret    []byte
	err    string
	left   GasBudget
	root   common.Hash
	logs   string
	refund uint64
}

func (a c28Result) diff(b c28Result) string {
	switch {
	case !bytes.Equal(a.ret, b.ret):
		return fmt.Sprintf("return data %s vs %s", c28Hex(a.ret), c28Hex(b.ret))
	case a.err != b.err:
		return fmt.Sprintf("error %q vs %q", a.err, b.err)
	case a.left != b.left:
		return fmt.Sprintf("leftover gas %v vs %v", a.left, b.left)
	case a.root != b.root:
		return fmt.Sprintf("post-state root %x vs %x", a.root, b.root)
	case a.logs != b.logs:
		return fmt.Sprintf("logs %s vs %s", a.logs, b.logs)
	case a.refund != b.refund:
		return fmt.Sprintf("refund counter %d vs %d", a.refund, b.refund)
	}
	return ""
}

// c28FirstDiff names the first 32-byte word in which a and b differ.
func c28FirstDiff(a, b []byte) string {
	for i := 0; i < len(a) || i < len(b); i += 32 {
		wa, wb := a[min(i, len(a)):min(i+32, len(a))], b[min(i, len(b)):min(i+32, len(b))]
		if !bytes.Equal(wa, wb) {
			return fmt.Sprintf("first difference in word %d (offset 0x%x): %x vs %x; lengths %d vs %d", i/32, i, wa, wb, len(a), len(b))
		}
	}
	return "equal"
}

func c28Hex(b []byte) string {
	if len(b) > 80 {
		return hex.EncodeToString(b[:80]) + fmt.Sprintf("…(%d bytes)", len(b))
	}
	return hex.EncodeToString(b)
}

// run executes one message (origin -> to, input = word(target)) on a fresh copy of the base state with evm.
func (e *c28Env) run(evm *EVM, to, target common.Address, gas uint64) c28Result {
	return e.runInput(evm, to, target, common.LeftPadBytes(target.Bytes(), 32), gas)
}

// runInput is run with an explicit call data (target only selects the access list).
func (e *c28Env) runInput(evm *EVM, to, target common.Address, input []byte, gas uint64) c28Result {
	sdb, err := state.New(e.root, e.db)
	if err != nil {
		panic(err)
	}
	al, okAl := e.alFor[target]
	if !okAl {
		al = e.al
	}
	sdb.Prepare(e.rules, c28Origin, evm.Context.Coinbase, &to, e.pre, al)
	evm.StateDB = sdb
	evm.SetTxContext(TxContext{Origin: c28Origin, GasPrice: uint256.NewInt(9), BlobHashes: []common.Hash{{1, 2, 3}}})
	return e.finish(sdb, func() ([]byte, GasBudget, error) {
		return evm.Call(c28Origin, to, input, NewGasBudget(gas, 0), new(uint256.Int))
	})
}

// runTop prepares a fresh copy of the base state on evm and executes f (any EVM entry point) as the top-level frame.
func (e *c28Env) runTop(evm *EVM, f func() ([]byte, GasBudget, error)) c28Result {
	return e.runTopPrep(evm, nil, f)
}

// runTopPrep is runTop with a modification of the fresh state copy before the transaction starts.
func (e *c28Env) runTopPrep(evm *EVM, prep func(*state.StateDB), f func() ([]byte, GasBudget, error)) c28Result {
	sdb, err := state.New(e.root, e.db)
	if err != nil {
		panic(err)
	}
	if prep != nil {
		prep(sdb)
	}
	sdb.Prepare(e.rules, c28Origin, evm.Context.Coinbase, nil, e.pre, e.al)
	evm.StateDB = sdb
	evm.SetTxContext(TxContext{Origin: c28Origin, GasPrice: uint256.NewInt(9), BlobHashes: []common.Hash{{1, 2, 3}}})
	return e.finish(sdb, f)
}

func (e *c28Env) finish(sdb *state.StateDB, f func() ([]byte, GasBudget, error)) c28Result {
	ret, left, cerr := f()
	res := c28Result{ret: common.CopyBytes(ret), left: left, refund: sdb.GetRefund()}
	if cerr != nil {
		res.err = cerr.Error()
	}
	for _, l := range sdb.Logs() {
		res.logs += fmt.Sprintf("%x:%x:%x;", l.Address, l.Topics, l.Data)
	}
	res.root = sdb.IntermediateRoot(e.rules)
	return res
}

func (w *c28Want) check(res c28Result) error {
	if w == nil {
		return nil
	}
	if w.err == "" && res.err != "" || w.err != "" && !bytes.Contains([]byte(res.err), []byte(w.err)) {
		return fmt.Errorf("error %q, expected by construction %q", res.err, w.err)
	}
	if !bytes.Equal(res.ret, w.ret) {
		return fmt.Errorf("return data %s, expected by construction %s", c28Hex(res.ret), c28Hex(w.ret))
	}
	return nil
}

// c28Pristine makes the next run see process state as a new process would: a newly allocated zeroed arena, an
// empty memory pool. Must only be called while no other goroutine executes EVM code.
func c28Pristine(evm *EVM) {
	memoryPool = sync.Pool{New: func() any { return &Memory{} }}
	evm.arena = &stackArena{data: make([]uint256.Int, initialStackSize)}
	evm.jumpDests = newMapJumpDests()
	evm.precompileCache = nil
}

type c28Inner struct {
	success bool
	gasUsed uint64
	ret     []byte
}

// c28Unwrap peels the k+1 wrapper layers off a nested run.
func c28Unwrap(ret []byte, levels int) (c28Inner, error) {
	var in c28Inner
	for l := 0; l < levels; l++ {
		if len(ret) < 64 {
			return in, fmt.Errorf("wrapper level %d returned %d bytes", l, len(ret))
		}
		succ := new(big.Int).SetBytes(ret[:32])
		delta := new(big.Int).SetBytes(ret[32:64])
		if l < levels-1 && succ.Uint64() != 1 {
			return in, fmt.Errorf("wrapper level %d: inner wrapper failed", l)
		}
		in.success = succ.Uint64() == 1
		in.gasUsed = delta.Uint64()
		ret = ret[64:]
	}
	in.ret = ret
	return in, nil
}

func TestVerif_C28(t *testing.T) {
	mc.Run(t, "C28", func(r *mc.R) {
		tStart := time.Now()
		env := c28NewEnv()
		P := env.progs
		n := len(P)
		seqLen := mc.Pick(r, 3, 4)
		space := mc.Pick(r, "all ordered pairs in P^2 and all triples (p,q,r) with p,q in D (the programs that leave residue in a pool or cache) and r in P", "all ordered triples in P^3 and all quadruples (p,q,s,r) with p,q,s in D, r in P")
		r.Rule(fmt.Sprintf("program set P (%d programs: dirty stacks, dirty / never-written memory, recursion, jump tables incl. DELEGATECALL/CALLCODE/"+
			"CREATE, cacheable precompiles with equal, zero-extended and truncated inputs); (a) every ordered sequence in P^%d run back to back on one EVM "+
			"(shared stack arena + jumpdest cache), the process-wide memory pool and one process-wide precompile cache, each run on a fresh copy of the "+
			"base state: every run == isolated baseline (return data, error, full leftover GasBudget, post-state root, logs, refund counter); "+
			"(b) for every ordered pair (d,r) in P^2 and depth k in 1..3: d, then r nested under k wrapper frames: inner success, return data, gas used, "+
			"post-state root, logs, refund == depth-0 baseline; (c) results known by construction (fresh memory reads zero, stdlib hashes) are compared "+
			"in every context; (d) for every cacheable precompile of the rule set (enumerated from the code): an input grid (MODEXP: length fields in "+
			"{0,1,2,32}^3 x operands {absent, ..00, ..01, ..02, ..ff, ff..ff} + truncated/trailing variants + partial headers; fixed-prefix precompiles: "+
			"operand sets cut at every word boundary +-1 and extended by trailing bytes; all: byte strings over a length grid x fills), each input run cold "+
			"(no cache) as baseline (MODEXP also vs EIP-198 in math/big), then every ordered pair (x,y) through RunPrecompiledContract on a result cache "+
			"warmed by x (quick: for MODEXP the pairs range over the {0,1,2}^3 x {absent,00,01,02,ff} sub-grid), a forward and a backward pass over the whole "+
			"grid on one cache with every input run twice, and the reduced grid through a STATICCALL forwarder inside the EVM (quick: forward+backward "+
			"pass, thorough: every ordered pair); distinct = distinct (sequence) / (d,r,k) / (precompile, x)", n, space))
		r.Bound("programs", n)
		known := 0
		for _, p := range P {
			if p.want != nil {
				known++
			}
		}
		r.Bound("programs_with_result_known_by_construction", known)
		r.Bound("sequence_length", seqLen)
		r.Bound("max_wrapper_depth", 3)
		r.Assume("rule set: params.MergedTestChainConfig (Osaka) at block 1; every run of a program uses the same pre-warmed access list (the program, the programs it calls, the wrappers) so that warm/cold pricing does not depend on the call path")
		r.Assume("baseline = same message on a newly allocated arena, emptied memory pool, fresh jumpdest cache, no precompile cache")
		r.Assume("programs do not use CALLER (the caller differs between depth 0 and a nested call by definition of the message)")

		// ---- baselines (sequential: the pools are reset before every run)
		base := make([]c28Result, n)
		bevm := env.newEVM()
		for i, p := range P {
			c28Pristine(bevm)
			base[i] = env.run(bevm, p.addr, p.addr, c28Gas)
			c := map[string]any{"part": "baseline", "prog": p.name}
			r.Case(c, func() error {
				c28Pristine(bevm)
				again := env.run(bevm, p.addr, p.addr, c28Gas)
				if d := again.diff(base[i]); d != "" {
					return fmt.Errorf("two isolated runs differ: %s", d)
				}
				return p.want.check(again)
			})
			if base[i].err == "" {
				r.Outcome("baseline_success")
			} else {
				r.Outcome("baseline_" + base[i].err)
			}
		}
		// wrapper overhead: nested run of the STOP program uses no inner gas
		overhead := make([]uint64, 3)
		stopIdx := 0
		for k := 0; k < 3; k++ {
			c28Pristine(bevm)
			res := env.run(bevm, c28WrapperAddr(k), P[stopIdx].addr, c28OuterGas)
			in, err := c28Unwrap(res.ret, k+1)
			if err != nil || res.err != "" || !in.success {
				r.Violation("wrapper-calibration", fmt.Sprintf("wrapper depth %d cannot run the STOP program: %v %v %+v", k+1, err, res.err, in), nil)
				return
			}
			overhead[k] = in.gasUsed
		}
		pc := NewPrecompileCache()
		var dirtyArena, recycledMem, cleanArena int64
		var cmu sync.Mutex

		// ---- (a) sequences
		all := make([]int, n)
		for i := range all {
			all[i] = i
		}
		var dirt []int // programs that leave something behind in a pool or a cache
		for i, p := range P {
			switch p.name {
			case "stack-dirty-48", "stack-dirty-1000", "stack-overflow", "stack-dup-swap", "mem-dirty-128", "mem-dirty-128w", "mem-dirty-511w",
				"mem-dirty-640w", "mem-dirty-high-mstore", "mem-dirty-high-codecopy", "mem-dirty-high-calldatacopy", "mem-dirty-high-in-callee", "mem-oog-after-dirty", "mem-revert-data", "invalid-after-dirty", "recursion-3", "jump-valid",
				"jump-into-push2-data", "jump-far-valid", "delegatecall-lib", "callcode-jump-valid", "delegatecall-jump-invalid",
				"create-and-call", "sha256-ab", "sha256-ab00", "ripemd-ab", "ecrecover-valid", "ecrecover-valid-trailing", "modexp-3-5-7",
				"modexp-3-5-7-trailing":
				dirt = append(dirt, i)
			}
		}
		r.Bound("dirtier_programs", len(dirt))
		runSeqs := func(doms [][]int) {
			first := doms[0]
			r.Parallel(len(first), func(fi int) {
				evm := env.newEVM()
				evm.SetPrecompileCache(pc)
				defer evm.Release()
				var da, rm, ca int64
				seq := make([]int, len(doms))
				runSeq := func() {
					names := make([]string, len(seq))
					for i, x := range seq {
						names[i] = P[x].name
					}
					c := map[string]any{"part": "sequence", "progs": names}
					r.Case(c, func() error {
						for pos, x := range seq {
							if evm.arena.top != 0 {
								return fmt.Errorf("arena top %d between top-level calls", evm.arena.top)
							}
							if !evm.arena.data[0].IsZero() || !evm.arena.data[7].IsZero() {
								da++
							} else {
								ca++
							}
							m := NewMemory()
							if cap(m.store) > 0 {
								rm++
							}
							if len(m.store) != 0 || m.lastGasCost != 0 {
								return fmt.Errorf("memory pool handed out a non-reset Memory (len %d, lastGasCost %d)", len(m.store), m.lastGasCost)
							}
							m.Free()
							res := env.run(evm, P[x].addr, P[x].addr, c28Gas)
							if d := res.diff(base[x]); d != "" {
								return fmt.Errorf("run %d (%s) after %v differs from its isolated run: %s", pos, P[x].name, names[:pos], d)
							}
							if err := P[x].want.check(res); err != nil {
								return fmt.Errorf("run %d (%s) after %v: %v", pos, P[x].name, names[:pos], err)
							}
						}
						return nil
					})
					r.DistinctHash(mc.Hash64(fmt.Sprint("seq", seq)))
					if len(seq) == 3 && seq[1] == dirt[1] && seq[2] == 9 {
						r.Sample(c)
					}
				}
				var rec func(pos int)
				rec = func(pos int) {
					if r.Expired() {
						return
					}
					if pos == len(doms) {
						runSeq()
						return
					}
					for _, x := range doms[pos] {
						seq[pos] = x
						rec(pos + 1)
					}
				}
				seq[0] = first[fi]
				rec(1)
				cmu.Lock()
				dirtyArena += da
				recycledMem += rm
				cleanArena += ca
				cmu.Unlock()
			})
		}
		onlyGrid := os.Getenv("VERIF_C28_PART") == "grid" // diagnostic switch: skip (a) and (b); the run is then reported as not exhaustive
		if onlyGrid {
			// skipped
		} else if r.Quick() {
			runSeqs([][]int{all, all})
			runSeqs([][]int{dirt, dirt, all})
		} else {
			runSeqs([][]int{all, all, all})
			runSeqs([][]int{dirt, dirt, dirt, all})
		}
		r.OutcomeN("run_started_on_dirty_arena", dirtyArena)
		r.OutcomeN("run_started_on_clean_arena", cleanArena)
		r.OutcomeN("run_started_with_recycled_memory_buffer", recycledMem)
		if r.Expired() {
			return
		}
		// ---- (b) depth
		nDepth := n
		if onlyGrid {
			nDepth = 0
		}
		r.Parallel(nDepth, func(di int) {
			evm := env.newEVM()
			evm.SetPrecompileCache(pc)
			defer evm.Release()
			for ri := 0; ri < n; ri++ {
				for k := 0; k < 3; k++ {
					if r.Expired() {
						return
					}
					c := map[string]any{"part": "depth", "dirtier": P[di].name, "prog": P[ri].name, "wrappers": k + 1}
					r.Case(c, func() error {
						pre := env.run(evm, P[di].addr, P[di].addr, c28Gas)
						if d := pre.diff(base[di]); d != "" {
							return fmt.Errorf("dirtier %s differs from its isolated run: %s", P[di].name, d)
						}
						res := env.run(evm, c28WrapperAddr(k), P[ri].addr, c28OuterGas)
						if res.err != "" {
							return fmt.Errorf("outer wrapper failed: %s", res.err)
						}
						in, err := c28Unwrap(res.ret, k+1)
						if err != nil {
							return err
						}
						b := base[ri]
						wantRet := b.ret
						if b.err != "" && b.err != ErrExecutionReverted.Error() {
							wantRet = nil
						}
						if in.success != (b.err == "") {
							return fmt.Errorf("nested under %d wrappers: success=%v, depth 0: error %q", k+1, in.success, b.err)
						}
						if !bytes.Equal(in.ret, wantRet) {
							return fmt.Errorf("nested under %d wrappers: return data %s, depth 0: %s", k+1, c28Hex(in.ret), c28Hex(wantRet))
						}
						if used0 := c28Gas - b.left.ExecutionGas; in.gasUsed-overhead[k] != used0 {
							return fmt.Errorf("nested under %d wrappers: inner frame used %d gas, depth 0: %d", k+1, in.gasUsed-overhead[k], used0)
						}
						if res.root != b.root {
							return fmt.Errorf("nested under %d wrappers: post-state root %x, depth 0: %x", k+1, res.root, b.root)
						}
						if res.logs != b.logs || res.refund != b.refund {
							return fmt.Errorf("nested under %d wrappers: logs/refund %s/%d, depth 0: %s/%d", k+1, res.logs, res.refund, b.logs, b.refund)
						}
						if w := P[ri].want; w != nil && w.err == "" && !bytes.Equal(in.ret, w.ret) {
							return fmt.Errorf("nested under %d wrappers: return data %s, expected by construction %s", k+1, c28Hex(in.ret), c28Hex(w.ret))
						}
						return nil
					})
					r.DistinctHash(mc.Hash64(fmt.Sprint("depth", di, ri, k)))
				}
			}
		})
		if r.Expired() {
			return
		}
		r.Bound("seconds_sequences_and_depth", fmt.Sprintf("%.1f", time.Since(tStart).Seconds()))
		// ---- (d) precompile result cache grids
		c28PrecompileGrid(r, env, base)
		if r.Expired() {
			return
		}
		// ---- (e) inputs inherited by child frames
		var dirtProgs []c28Prog
		for _, i := range dirt {
			dirtProgs = append(dirtProgs, P[i])
		}
		if r.Thorough() {
			dirtProgs = P
		}
		c28Inherited(r, env, dirtProgs)
		if r.Expired() {
			return
		}
		// ---- (f) creations x target account kinds x jump family init codes
		c28Creations(r, env)
		if r.Expired() {
			return
		}
		// ---- (g) memory residue between sibling frames of one parent
		c28Siblings(r, env, base)
		if onlyGrid {
			r.NotExhaustive("VERIF_C28_PART=grid: sequence and depth parts skipped")
		}
	})
}

// ---------------------------------------------------------------------------
// (d) precompile result cache: input grids per cacheable precompile

var c28ForwarderAddr = c28Addr(2000)

// c28Forwarder STATICCALLs the precompile whose address is calldata word 0 with calldata[32:] and returns
// success ‖ return data.
func c28Forwarder() []byte {
	a := c28New()
	a.op(CALLDATASIZE).push(32).op(SWAP1, SUB)
	a.op(DUP1).push(32).push(0).op(CALLDATACOPY)
	a.push(0).push(0).op(DUP3).push(0).push(0).op(CALLDATALOAD).push(c28PreGas).op(STATICCALL)
	a.push(0x1000).op(MSTORE)
	a.op(RETURNDATASIZE).push(0).push(0x1020).op(RETURNDATACOPY)
	a.op(RETURNDATASIZE).push(0x20).op(ADD).push(0x1000).op(RETURN)
	return a.bytes()
}

// c28ModexpRef is EIP-198 evaluated with math/big: operands are read from the zero-extended input.
func c28ModexpRef(in []byte) []byte {
	get := func(off, n uint64) []byte {
		out := make([]byte, n)
		if off < uint64(len(in)) {
			copy(out, in[off:])
		}
		return out
	}
	bl := new(big.Int).SetBytes(get(0, 32)).Uint64()
	el := new(big.Int).SetBytes(get(32, 32)).Uint64()
	ml := new(big.Int).SetBytes(get(64, 32)).Uint64()
	b := new(big.Int).SetBytes(get(96, bl))
	e := new(big.Int).SetBytes(get(96+bl, el))
	m := new(big.Int).SetBytes(get(96+bl+el, ml))
	if ml == 0 {
		return nil
	}
	if m.Sign() == 0 {
		return make([]byte, ml)
	}
	return common.LeftPadBytes(new(big.Int).Exp(b, e, m).Bytes(), int(ml))
}

type c28Grid struct {
	addr   common.Address
	pre    PrecompiledContract
	inputs [][]byte
	small  int // inputs[:small] is the reduced grid used for the in-EVM (forwarder) pairs
}

func c28Dedup(in [][]byte) [][]byte {
	seen := map[string]bool{}
	var out [][]byte
	for _, x := range in {
		if !seen[string(x)] {
			seen[string(x)] = true
			out = append(out, x)
		}
	}
	return out
}

// c28GenericInputs: byte strings over a length grid x fill patterns (all v / only first byte v / only last byte v).
func c28GenericInputs(lens []int) [][]byte {
	var out [][]byte
	for _, l := range lens {
		for _, v := range []byte{0x00, 0x01, 0x02, 0xff} {
			all := bytes.Repeat([]byte{v}, l)
			out = append(out, all)
			if l > 1 && v != 0 {
				first := make([]byte, l)
				first[0] = v
				last := make([]byte, l)
				last[l-1] = v
				out = append(out, first, last)
			}
		}
	}
	return out
}

// c28ModexpInputs: header length fields in lens^3 x every operand in {absent, 00.., ..01, ..02, ..ff (last byte), ff..ff},
// plus truncated / trailing-byte variants of every input.
func c28ModexpInputs(lens []uint64, variants, fills bool) [][]byte {
	operand := func(l uint64) [][]byte {
		if l == 0 {
			return [][]byte{nil}
		}
		var out [][]byte
		for _, v := range []byte{0, 1, 2, 0xff} {
			o := make([]byte, l)
			o[l-1] = v
			out = append(out, o)
		}
		if l > 1 && fills {
			out = append(out, bytes.Repeat([]byte{0xff}, int(l)))
		}
		return out
	}
	var out [][]byte
	for _, bl := range lens {
		for _, el := range lens {
			for _, ml := range lens {
				for _, b := range operand(bl) {
					for _, e := range operand(el) {
						for _, m := range operand(ml) {
							in := bytes.Join([][]byte{c28Word(bl), c28Word(el), c28Word(ml), b, e, m}, nil)
							out = append(out, in)
							if variants {
								out = append(out, in[:len(in)-1], append(append([]byte{}, in...), 0x00), append(append([]byte{}, in...), 0xff))
							}
						}
					}
				}
			}
		}
	}
	// headers only / partial headers
	for _, n := range []int{0, 1, 32, 64, 95, 96} {
		h := bytes.Join([][]byte{c28Word(1), c28Word(1), c28Word(1)}, nil)
		out = append(out, h[:n])
	}
	return out
}

// c28PaddedInputs: for precompiles that read a fixed prefix of L bytes and zero-extend: every base truncated at the word
// boundaries +-1 and extended by trailing bytes.
func c28PaddedInputs(L int, bases [][]byte) [][]byte {
	var out [][]byte
	for _, b := range bases {
		full := common.RightPadBytes(b, L)
		for cut := 0; cut <= L; cut += 32 {
			for _, d := range []int{-1, 0, 1} {
				if n := cut + d; n >= 0 && n <= L {
					out = append(out, full[:n])
				}
			}
		}
		out = append(out, append(append([]byte{}, full...), 0x00), append(append([]byte{}, full...), 0xff),
			append(append([]byte{}, full...), make([]byte, 32)...), append(append([]byte{}, full...), bytes.Repeat([]byte{0xff}, 32)...))
	}
	return out
}

// c28Grids enumerates the cacheable precompiles of the active rule set from the code and builds their input grids.
func c28Grids(evm *EVM, thorough bool) []c28Grid {
	var addrs []common.Address
	for a, p := range evm.precompiles {
		if c, ok := p.(CacheablePrecompile); ok && c.Cacheable() {
			addrs = append(addrs, a)
		}
	}
	sort.Slice(addrs, func(i, j int) bool { return bytes.Compare(addrs[i][:], addrs[j][:]) < 0 })
	cat := func(p ...[]byte) []byte { return bytes.Join(p, nil) }
	h := crypto.Keccak256([]byte("c28"))
	sig, _ := crypto.Sign(h, c28Key)
	ecr := cat(h, c28Word(uint64(sig[64])+27), sig[:32], sig[32:64])
	ecrOtherV := append([]byte{}, ecr...)
	ecrOtherV[63] ^= 7 // 27 <-> 28
	g := cat(c28Word(1), c28Word(2))
	genericLens := []int{0, 1, 2, 32, 33, 64, 96, 128, 129, 160, 192, 213, 256, 288, 384, 512}
	var grids []c28Grid
	for _, a := range addrs {
		p := evm.precompiles[a]
		var special, small [][]byte
		_, normalises := p.(NormalizingPrecompile)
		switch p.(type) {
		case *bigModExp:
			small = c28ModexpInputs([]uint64{0, 1, 2}, false, false)
			special = append(append([][]byte{}, small...), c28ModexpInputs([]uint64{0, 1, 2, 32}, false, true)...)
			if thorough {
				special = append(special, c28ModexpInputs([]uint64{0, 1, 2}, true, true)...)
			} else {
				special = append(special, c28ModexpInputs([]uint64{0, 1}, true, true)...)
			}
		case *ecrecover:
			special = c28PaddedInputs(ecRecoverInputLength, [][]byte{ecr, ecrOtherV, ecr[:64], make([]byte, 128)})
		case *bn256AddIstanbul, *bn256AddByzantium:
			special = c28PaddedInputs(bn256AddInputLength, [][]byte{cat(g, g), g, cat(make([]byte, 64), g), nil, cat(c28Word(1), c28Word(1))})
		case *bn256ScalarMulIstanbul, *bn256ScalarMulByzantium:
			special = c28PaddedInputs(bn256ScalarMulInputLength, [][]byte{cat(g, c28Word(2)), cat(g, c28Word(0)), cat(g, c28Ones), nil})
		case *blake2F:
			for _, rounds := range []byte{0, 1, 2} {
				for _, fin := range []byte{0, 1, 2} {
					for _, fill := range []byte{0, 0xff} {
						in := bytes.Repeat([]byte{fill}, blake2FInputLength)
						copy(in[:4], []byte{0, 0, 0, rounds})
						in[212] = fin
						special = append(special, in, in[:212], append(append([]byte{}, in...), 0))
					}
				}
			}
		}
		if small == nil {
			small = special
		}
		generic := c28GenericInputs(genericLens)
		if !normalises && !thorough {
			generic = c28GenericInputs([]int{0, 1, 2, 32, 33, 64})
		}
		all := c28Dedup(append(append([][]byte{}, small...), append(special, generic...)...))
		nsmall := len(c28Dedup(small))
		if nsmall == 0 {
			nsmall = len(all)
		}
		grids = append(grids, c28Grid{addr: a, pre: p, inputs: all, small: nsmall})
	}
	return grids
}

type c28PreRes struct {
	out  []byte
	err  string
	left GasBudget
}

func (a c28PreRes) diff(b c28PreRes) string {
	switch {
	case !bytes.Equal(a.out, b.out):
		return fmt.Sprintf("output %s vs %s", c28Hex(a.out), c28Hex(b.out))
	case a.err != b.err:
		return fmt.Sprintf("error %q vs %q", a.err, b.err)
	case a.left != b.left:
		return fmt.Sprintf("leftover gas %v vs %v", a.left, b.left)
	}
	return ""
}

const c28PreGas = 1_000_000 // gas of every precompile run of the grid (direct and through the forwarder)

const c28FwdGas = 3_000_000

// c28RunPre is the seam below EVM.Call/StaticCall...: RunPrecompiledContract with the given result cache (nil = none).
func c28RunPre(sdb StateDB, g *c28Grid, rules params.Rules, in []byte, cache *PrecompileCache) c28PreRes {
	inCopy := common.CopyBytes(in)
	out, left, err := RunPrecompiledContract(sdb, g.pre, g.addr, inCopy, NewGasBudget(c28PreGas, 0), nil, rules, cache)
	res := c28PreRes{out: common.CopyBytes(out), left: left}
	if err != nil {
		res.err = err.Error()
	}
	if !bytes.Equal(inCopy, in) {
		res.err += " [precompile modified its input]"
	}
	return res
}

// c28PrecompileGrid runs, for every cacheable precompile, every ordered pair (x,y) of its input grid through a result cache
// warmed by x (and by the grid elements checked before y), y twice; then the reduced grid through the in-EVM path.
func c28PrecompileGrid(r *mc.R, env *c28Env, cold []c28Result) {
	bevm := env.newEVM()
	grids := c28Grids(bevm, r.Thorough())
	sdb0, _ := state.New(env.root, env.db)
	total, normalising := 0, 0
	for gi := range grids {
		g := &grids[gi]
		name := fmt.Sprintf("%s@%x", g.pre.Name(), g.addr.Big())
		t0 := time.Now()
		if _, ok := g.pre.(NormalizingPrecompile); ok {
			normalising++
		}
		total += len(g.inputs)
		// cold baselines (+ EIP-198 reference for MODEXP)
		base := make([]c28PreRes, len(g.inputs))
		for i, in := range g.inputs {
			base[i] = c28RunPre(sdb0, g, env.rules, in, nil)
			if _, isModexp := g.pre.(*bigModExp); isModexp && base[i].err == "" {
				if want := c28ModexpRef(in); !bytes.Equal(base[i].out, want) {
					r.Violation(fmt.Sprintf("modexp-ref:%x", in), fmt.Sprintf("MODEXP(%x) = %x, EIP-198 with math/big gives %x", in, base[i].out, want), nil)
				}
			}
			if base[i].err == "" {
				r.Outcome("precompile_cold_ok")
			} else {
				r.Outcome("precompile_cold_error")
			}
		}
		// (d1) RunPrecompiledContract with a shared cache. Explicit ordered pairs (x warms, y checked) over the whole grid
		// (quick: over the reduced grid when the whole grid has more than 800 inputs), plus one forward and one backward pass over
		// the whole grid on one cache with every input run twice (y after y; a key collision between two inputs with different
		// results is hit whichever of the two comes first).
		keys := make([][]byte, len(g.inputs))
		cacheable := make([]bool, len(g.inputs))
		var footprint int
		for i, in := range g.inputs {
			keys[i], cacheable[i] = precompileCacheKey(g.pre, in)
			if cacheable[i] {
				footprint += len(keys[i]) + len(base[i].out)
			}
		}
		if footprint > maxCacheablePrecompileBytes*9/10 {
			r.NotExhaustive(fmt.Sprintf("grid of %s does not fit the cache budget without eviction (%d bytes)", name, footprint))
		}
		npairs := len(g.inputs)
		if r.Quick() && npairs > 800 {
			npairs = g.small
		}
		var hits, classes int64
		var hmu sync.Mutex
		r.Parallel(npairs, func(xi int) {
			c := map[string]any{"part": "precompile-pairs", "precompile": name, "warm": hex.EncodeToString(g.inputs[xi])}
			r.Case(c, func() error {
				sdb, _ := state.New(env.root, env.db)
				var cache *PrecompileCache
				var h, cl int64
				for yi := 0; yi < npairs; yi++ {
					if yi%256 == 0 {
						// keep the cache far below its eviction budget: (re)start with a cache warmed by x only
						cache = NewPrecompileCache()
						if d := c28RunPre(sdb, g, env.rules, g.inputs[xi], cache).diff(base[xi]); d != "" {
							return fmt.Errorf("%s(%x) on an empty cache differs from the run without cache: %s", name, g.inputs[xi], d)
						}
					}
					if cacheable[xi] && cacheable[yi] && yi != xi && bytes.Equal(keys[xi], keys[yi]) {
						cl++ // x and y share a cache entry: y is answered from x's result
					}
					if d := c28RunPre(sdb, g, env.rules, g.inputs[yi], cache).diff(base[yi]); d != "" {
						// name the input whose cache entry answered y: x, or a grid input checked earlier on this cache
						culprit := "?"
						if cacheable[yi] {
							if cacheable[xi] && bytes.Equal(keys[xi], keys[yi]) {
								culprit = fmt.Sprintf("%x (the warming input)", g.inputs[xi])
							} else {
								for j := yi - yi%256; j < yi; j++ {
									if cacheable[j] && bytes.Equal(keys[j], keys[yi]) {
										culprit = fmt.Sprintf("%x (checked earlier on this cache)", g.inputs[j])
										break
									}
								}
							}
						}
						return fmt.Errorf("%s(%x) on a result cache warmed by %x differs from the run without cache: %s; it shares the cache key %x with input %s",
							name, g.inputs[yi], g.inputs[xi], d, keys[yi], culprit)
					}
					h++
				}
				r.Eval(int64(npairs) - 1)
				hmu.Lock()
				hits += h
				classes += cl
				hmu.Unlock()
				return nil
			})
			r.DistinctHash(mc.Hash64(name + string(g.inputs[xi])))
		})
		r.OutcomeN("precompile_pairs_checked", hits)
		r.OutcomeN("precompile_pairs_sharing_a_cache_entry", classes)
		for _, dir := range []string{"forward", "backward"} {
			c := map[string]any{"part": "precompile-pass", "precompile": name, "order": dir}
			r.Case(c, func() error {
				sdb, _ := state.New(env.root, env.db)
				cache := NewPrecompileCache()
				for k := range g.inputs {
					i := k
					if dir == "backward" {
						i = len(g.inputs) - 1 - k
					}
					for rep := 0; rep < 2; rep++ {
						if d := c28RunPre(sdb, g, env.rules, g.inputs[i], cache).diff(base[i]); d != "" {
							return fmt.Errorf("%s(%x) (run %d) in the %s pass over the grid on one shared result cache differs from the run without cache: %s",
								name, g.inputs[i], rep+1, dir, d)
						}
					}
				}
				r.Eval(int64(2*len(g.inputs)) - 1)
				return nil
			})
			r.DistinctHash(mc.Hash64("d1pass" + name + dir))
		}
		if r.Expired() {
			return
		}
		// (d2) in-EVM path: forwarder contract STATICCALLs the precompile; reduced grid, every ordered pair in thorough,
		// one forward and one backward pass over the grid on a shared cache in quick (a key collision between two inputs with
		// different results is hit in one of the two passes whichever of the two comes first)
		small := g.inputs[:g.small]
		msg := func(in []byte) []byte { return append(common.LeftPadBytes(g.addr.Bytes(), 32), in...) }
		fbase := make([]c28Result, len(small))
		for i, in := range small {
			c28Pristine(bevm)
			fbase[i] = env.runInput(bevm, c28ForwarderAddr, c28ForwarderAddr, msg(in), c28FwdGas)
			want := append(c28Word(1), base[i].out...)
			if base[i].err != "" {
				want = c28Word(0)
			}
			if fbase[i].err != "" || !bytes.Equal(fbase[i].ret, want) {
				r.Violation(fmt.Sprintf("forwarder:%s:%x", name, in), fmt.Sprintf("%s(%x) through STATICCALL returns %s / %q, direct run: %s / %q",
					name, in, c28Hex(fbase[i].ret), fbase[i].err, c28Hex(base[i].out), base[i].err), nil)
			}
		}
		check := func(evm *EVM, i int, after string) error {
			res := env.runInput(evm, c28ForwarderAddr, c28ForwarderAddr, msg(small[i]), c28FwdGas)
			if d := res.diff(fbase[i]); d != "" {
				return fmt.Errorf("forwarder STATICCALL %s(%x) %s differs from its isolated run: %s", name, small[i], after, d)
			}
			return nil
		}
		if r.Thorough() {
			r.Parallel(len(small), func(xi int) {
				c := map[string]any{"part": "precompile-pairs-evm", "precompile": name, "warm": hex.EncodeToString(small[xi])}
				r.Case(c, func() error {
					evm := env.newEVM()
					defer evm.Release()
					evm.SetPrecompileCache(NewPrecompileCache())
					if err := check(evm, xi, "on an empty cache"); err != nil {
						return err
					}
					for yi := range small {
						if err := check(evm, yi, fmt.Sprintf("after %x", small[xi])); err != nil {
							return err
						}
					}
					r.Eval(int64(len(small)) - 1)
					return nil
				})
				r.DistinctHash(mc.Hash64("evm" + name + string(small[xi])))
			})
		} else {
			for _, dir := range []string{"forward", "backward"} {
				c := map[string]any{"part": "precompile-pass-evm", "precompile": name, "order": dir}
				r.Case(c, func() error {
					evm := env.newEVM()
					defer evm.Release()
					evm.SetPrecompileCache(NewPrecompileCache())
					for k := range small {
						i := k
						if dir == "backward" {
							i = len(small) - 1 - k
						}
						for rep := 0; rep < 2; rep++ {
							if err := check(evm, i, "in the "+dir+" pass over the grid on a shared cache"); err != nil {
								return err
							}
						}
					}
					r.Eval(int64(2*len(small)) - 1)
					return nil
				})
				r.DistinctHash(mc.Hash64("pass" + name + dir))
			}
		}
		r.Bound("grid."+name, fmt.Sprintf("%d inputs, explicit pairs over %d, in-EVM grid %d, %.1fs", len(g.inputs), npairs, len(small), time.Since(t0).Seconds()))
		if r.Expired() {
			return
		}
	}
	r.Bound("cacheable_precompiles", len(grids))
	r.Bound("normalising_precompiles", normalising)
	r.Bound("precompile_grid_inputs_total", total)
}

// ---------------------------------------------------------------------------
// (e) inputs a child frame inherits from the frame-creating opcode must not alias pooled / arena memory

var (
	c28ObsLibAddr = c28Addr(3200)
	c28InhValue   = uint64(0x234) // value / endowment given to the child (differs from everything the child pushes)
	c28InhTopVal  = uint64(0x77)  // value of the top-level call to the parent (what DELEGATECALL forwards)
	c28InhSalt    = uint64(0x5a17c0de)
	c28InhData    = []byte("inherited-calldata:0123456789abcdefghijkl") // 40 bytes
	c28InhKinds   = []OpCode{CALL, CALLCODE, DELEGATECALL, STATICCALL, CREATE, CREATE2}
)

const (
	c28InhMaxK   = 10
	c28ObsLen    = 0x1e0
	c28ParentFix = 0x180
)

func c28InhParentAddr(kind, k int) common.Address { return c28Addr(3000 + 16*kind + k) }
func c28InhChildAddr(k int) common.Address        { return c28Addr(3300 + k) }

// c28ObsProgram: push k distinctive stack items and touch memory, drop them, THEN observe every inherited input and return
// the observations (for init code: deploy them as the contract code).
func c28ObsProgram(k int) []byte {
	a := c28New()
	for i := 1; i <= k; i++ {
		a.pushBytes(bytes.Repeat([]byte{0xd0 + byte(i)}, 32))
	}
	a.mstore(0x80, c28Junk)
	for i := 0; i < k; i++ {
		a.op(POP)
	}
	st := func(off uint64) { a.push(off).op(MSTORE) }
	a.op(CALLVALUE)
	st(0x400)
	a.op(CALLER)
	st(0x420)
	a.op(ADDRESS)
	st(0x440)
	a.op(ORIGIN)
	st(0x460)
	a.op(CALLDATASIZE)
	st(0x480)
	a.push(0).op(CALLDATALOAD)
	st(0x4a0)
	a.push(32).op(CALLDATALOAD)
	st(0x4c0)
	a.op(CODESIZE)
	st(0x4e0)
	a.push(64).push(0).push(0x500).op(CALLDATACOPY)
	a.op(CODESIZE).push(0).push(0x700).op(CODECOPY)
	a.op(CODESIZE).push(0x700).op(KECCAK256)
	st(0x540)
	// what a DELEGATECALLed library sees (value, caller, address are forwarded)
	a.push(96).push(0x560).push(0).push(0).pushBytes(c28ObsLibAddr.Bytes()).op(GAS, DELEGATECALL)
	st(0x5c0)
	return a.ret(0x400, c28ObsLen).bytes()
}

func c28ObsLib() []byte {
	a := c28New()
	a.op(CALLVALUE).push(0).op(MSTORE)
	a.op(CALLER).push(0x20).op(MSTORE)
	a.op(ADDRESS).push(0x40).op(MSTORE)
	return a.ret(0, 96).bytes()
}

var c28Sentinels = func() [][]byte {
	var out [][]byte
	for i := 0; i < 5; i++ {
		out = append(out, bytes.Repeat([]byte{0xa1 + byte(i)}, 32))
	}
	return out
}()

// c28InhParent: sentinels on the stack and in memory, the frame-creating opcode, then a dump of everything the parent can see.
func c28InhParent(kind OpCode, k int) []byte {
	a := c28New()
	for _, sv := range c28Sentinels {
		a.pushBytes(sv)
	}
	a.mstore(0x00, bytes.Repeat([]byte{0x51}, 32)).mstore(0x20, bytes.Repeat([]byte{0x52}, 32))
	payload := c28InhData
	if kind == CREATE || kind == CREATE2 {
		payload = c28ObsProgram(k)
	}
	L := uint64(len(payload))
	a.push(L).pushLabel("data").push(0x100).op(CODECOPY)
	child := c28InhChildAddr(k)
	switch kind {
	case CALL, CALLCODE:
		a.push(64).push(0x200).push(L).push(0x100).push(c28InhValue).pushBytes(child.Bytes()).op(GAS, kind)
	case DELEGATECALL, STATICCALL:
		a.push(64).push(0x200).push(L).push(0x100).pushBytes(child.Bytes()).op(GAS, kind)
	case CREATE:
		a.push(L).push(0x100).push(c28InhValue).op(CREATE)
	case CREATE2:
		a.push(c28InhSalt).push(L).push(0x100).push(c28InhValue).op(CREATE2)
	}
	a.op(DUP1).push(0x1000).op(MSTORE)
	a.op(RETURNDATASIZE).push(0x1020).op(MSTORE)
	a.op(DUP1, EXTCODESIZE).push(0x1160).op(MSTORE)
	lenWord := uint64(0x1020)
	if kind == CREATE || kind == CREATE2 {
		a.op(DUP1, EXTCODESIZE).push(0).push(0x1180).op(DUP4, EXTCODECOPY)
		lenWord = 0x1160
	} else {
		a.op(RETURNDATASIZE).push(0).push(0x1180).op(RETURNDATACOPY)
	}
	a.op(POP)
	for i := range c28Sentinels {
		a.push(0x1040 + 32*uint64(i)).op(MSTORE)
	}
	a.push(0).op(MLOAD).push(0x10e0).op(MSTORE)
	a.push(0x20).op(MLOAD).push(0x1100).op(MSTORE)
	a.push(0x200).op(MLOAD).push(0x1120).op(MSTORE)
	a.push(0x220).op(MLOAD).push(0x1140).op(MSTORE)
	a.push(lenWord).op(MLOAD).push(c28ParentFix).op(ADD).push(0x1000).op(RETURN)
	a.mark("data").raw(payload)
	return a.bytes()
}

type c28Deployed struct {
	addr common.Address
	code []byte
}

func c28InheritContracts() []c28Deployed {
	out := []c28Deployed{{c28ObsLibAddr, c28ObsLib()}}
	for k := 0; k <= c28InhMaxK; k++ {
		out = append(out, c28Deployed{c28InhChildAddr(k), c28ObsProgram(k)})
		for ki, kind := range c28InhKinds {
			out = append(out, c28Deployed{c28InhParentAddr(ki, k), c28InhParent(kind, k)})
		}
	}
	return out
}

// c28InhExpected builds what the parent must return if the child frame behaves like a pure function of its inputs.
func c28InhExpected(kind OpCode, k int, parent common.Address, obs []byte) []byte {
	var w [][]byte
	isCreate := kind == CREATE || kind == CREATE2
	switch kind {
	case CREATE:
		w = append(w, common.LeftPadBytes(crypto.CreateAddress(parent, 1).Bytes(), 32), c28Word(0))
	case CREATE2:
		w = append(w, common.LeftPadBytes(crypto.CreateAddress2(parent, common.BigToHash(new(big.Int).SetUint64(c28InhSalt)), crypto.Keccak256(c28ObsProgram(k))).Bytes(), 32), c28Word(0))
	default:
		w = append(w, c28Word(1), c28Word(uint64(len(obs))))
	}
	for i := len(c28Sentinels) - 1; i >= 0; i-- {
		w = append(w, c28Sentinels[i])
	}
	w = append(w, bytes.Repeat([]byte{0x51}, 32), bytes.Repeat([]byte{0x52}, 32))
	if isCreate {
		// the init code sits at memory 0x100.. and may reach into the words dumped from 0x200
		over := c28Zeros(64)
		if init := c28ObsProgram(k); len(init) > 0x100 {
			copy(over, init[0x100:])
		}
		w = append(w, over, c28Word(uint64(len(obs))))
	} else {
		w = append(w, obs[:64], c28Word(0))
	}
	w = append(w, obs)
	return bytes.Join(w, nil)
}

func c28Inherited(r *mc.R, env *c28Env, dirtiers []c28Prog) {
	maxK := mc.Pick(r, 6, c28InhMaxK)
	r.Bound("inherited.max_items_pushed_by_child", maxK)
	r.Bound("inherited.frame_creating_opcodes", len(c28InhKinds))
	type job struct{ ki, k int }
	var jobs []job
	for ki := range c28InhKinds {
		for k := 0; k <= maxK; k++ {
			jobs = append(jobs, job{ki, k})
		}
	}
	// depth-0 baselines on a pristine EVM (sequential: the pools are reset)
	bevm := env.newEVM()
	top := func(evm *EVM, kind OpCode, k int, parent common.Address) c28Result {
		gas := NewGasBudget(5_000_000, 0)
		val := uint256.NewInt(c28InhValue)
		child := c28InhChildAddr(k)
		return env.runTop(evm, func() ([]byte, GasBudget, error) {
			switch kind {
			case CALL:
				return evm.Call(parent, child, c28InhData, gas, val)
			case CALLCODE:
				return evm.CallCode(parent, child, c28InhData, gas, val)
			case DELEGATECALL:
				return evm.DelegateCall(c28Origin, parent, child, c28InhData, gas, uint256.NewInt(c28InhTopVal))
			case STATICCALL:
				return evm.StaticCall(parent, child, c28InhData, gas)
			case CREATE:
				ret, _, left, err := evm.Create(parent, c28ObsProgram(k), gas, val)
				return ret, left, err
			default:
				ret, _, left, err := evm.Create2(parent, c28ObsProgram(k), gas, val, uint256.NewInt(c28InhSalt))
				return ret, left, err
			}
		})
	}
	nested := func(evm *EVM, parent common.Address) c28Result {
		return env.finishCall(evm, parent)
	}
	obs := make([][]byte, len(jobs))
	for ji, j := range jobs {
		kind, parent := c28InhKinds[j.ki], c28InhParentAddr(j.ki, j.k)
		c28Pristine(bevm)
		b := top(bevm, kind, j.k, parent)
		obs[ji] = b.ret
		c := map[string]any{"part": "inherited-baseline", "op": kind.String(), "k": j.k}
		r.Case(c, func() error {
			if b.err != "" || len(b.ret) != c28ObsLen {
				return fmt.Errorf("depth-0 %s of the observer failed: %q, %d bytes", kind, b.err, len(b.ret))
			}
			// values known by construction
			wantVal := c28InhValue
			switch kind {
			case DELEGATECALL:
				wantVal = c28InhTopVal
			case STATICCALL:
				wantVal = 0
			}
			if !bytes.Equal(b.ret[:32], c28Word(wantVal)) || !bytes.Equal(b.ret[0x160:0x180], c28Word(wantVal)) {
				return fmt.Errorf("depth-0 %s: CALLVALUE seen by the child %x / through DELEGATECALL %x, want %x", kind, b.ret[:32], b.ret[0x160:0x180], wantVal)
			}
			if kind != CREATE && kind != CREATE2 {
				if !bytes.Equal(b.ret[0x80:0xa0], c28Word(uint64(len(c28InhData)))) || !bytes.Equal(b.ret[0x100:0x100+len(c28InhData)], c28InhData) {
					return fmt.Errorf("depth-0 %s: call data seen by the child differs from the call data passed", kind)
				}
			}
			c28Pristine(bevm)
			n := nested(bevm, parent)
			if n.err != "" {
				return fmt.Errorf("parent frame failed: %s", n.err)
			}
			if want := c28InhExpected(kind, j.k, parent, b.ret); !bytes.Equal(n.ret, want) {
				return fmt.Errorf("%s child (pushes %d items first) run from a parent frame on a pristine EVM: the parent's view differs from that of a child behaving as at depth 0: %s", kind, j.k, c28FirstDiff(n.ret, want))
			}
			return nil
		})
		r.DistinctHash(mc.Hash64(fmt.Sprint("inh-base", j)))
	}
	// after every dirtier on a shared EVM: depth-0 observation unchanged, nested run as expected
	r.Parallel(len(dirtiers), func(di int) {
		evm := env.newEVM()
		defer evm.Release()
		d := dirtiers[di]
		for ji, j := range jobs {
			if r.Expired() {
				return
			}
			kind, parent := c28InhKinds[j.ki], c28InhParentAddr(j.ki, j.k)
			c := map[string]any{"part": "inherited", "dirtier": d.name, "op": kind.String(), "k": j.k}
			r.Case(c, func() error {
				env.run(evm, d.addr, d.addr, c28Gas)
				if b := top(evm, kind, j.k, parent); b.err != "" || !bytes.Equal(b.ret, obs[ji]) {
					return fmt.Errorf("depth-0 %s observer after %s: %s / %q, isolated run: %s", kind, d.name, c28Hex(b.ret), b.err, c28Hex(obs[ji]))
				}
				env.run(evm, d.addr, d.addr, c28Gas)
				n := nested(evm, parent)
				if n.err != "" {
					return fmt.Errorf("parent frame failed: %s", n.err)
				}
				if want := c28InhExpected(kind, j.k, parent, obs[ji]); !bytes.Equal(n.ret, want) {
					return fmt.Errorf("%s child (pushes %d items first) run from a parent frame after %s: the parent's view differs from that of a child behaving as at depth 0: %s", kind, j.k, d.name, c28FirstDiff(n.ret, want))
				}
				return nil
			})
			r.DistinctHash(mc.Hash64(fmt.Sprint("inh", di, j)))
		}
	})
}

// finishCall runs the top-level call origin -> parent with value c28InhTopVal.
func (e *c28Env) finishCall(evm *EVM, parent common.Address) c28Result {
	return e.runTop(evm, func() ([]byte, GasBudget, error) {
		return evm.Call(c28Origin, parent, nil, NewGasBudget(c28OuterGas, 0), uint256.NewInt(c28InhTopVal))
	})
}

// ---------------------------------------------------------------------------
// (f) contract creations: creation transaction / CREATE / CREATE2 x target account kind x init codes of a jump family

var (
	c28PreFunded   []common.Address
	c28InitRuntime = []byte{0x00}
	c28FactoryAddr = [2]common.Address{c28Addr(3500), c28Addr(3501)} // CREATE, CREATE2 with init code = call data
	c28CreatorEOA  = common.HexToAddress("0xc4ea7e0000000000000000000000000000000028")
)

type c28Init struct {
	name  string
	code  []byte
	valid bool // the jump it takes is valid: the deployment succeeds
}

// c28InitFamily: init codes that jump to an offset p; p is a JUMPDEST in the A codes and PUSH data in the B codes (and the
// other way round for pair 3); pair 1 and 3 have equal lengths, pair 2 different lengths; N takes no jump.
func c28InitFamily() []c28Init {
	tail := func(a *c28Asm) []byte { // deploy a one-byte runtime code
		return a.push(uint64(len(c28InitRuntime))).push(0).op(RETURN).bytes()
	}
	var out []c28Init
	out = append(out, c28Init{"A1", tail(c28New().push(6).op(JUMP, STOP).push(0).op(JUMPDEST)), true})
	out = append(out, c28Init{"B1", tail(c28New().push(6).op(JUMP, STOP).raw([]byte{byte(PUSH2), 0x00, 0x5b})), false})
	farCode := func(blocks int, valid bool) []byte {
		a := c28New()
		if valid {
			a.pushLabel("end")
		} else {
			a.pushBytes([]byte{0, byte(4 + 34*(blocks-1) + 10)}) // PUSH2: an 0x5b inside the last PUSH32
		}
		a.op(JUMP)
		for i := 0; i < blocks; i++ {
			a.pushBytes(bytes.Repeat([]byte{0x5b}, 32)).op(POP)
		}
		a.label("end")
		return tail(a)
	}
	out = append(out, c28Init{"A2", farCode(3, true), true})
	out = append(out, c28Init{"B2", farCode(5, false), false})
	// pair 3: offset 8 is a JUMPDEST in A3 and offset 5 is push data there; B3 jumps to 5 (a JUMPDEST in B3)
	out = append(out, c28Init{"A3", tail(c28New().push(8).op(JUMP).pushBytes([]byte{0x5b, 0x5b, 0x5b, 0x5b}).op(JUMPDEST)), true})
	out = append(out, c28Init{"B3", tail(c28New().push(5).op(JUMP, STOP, STOP, JUMPDEST, JUMPDEST, JUMPDEST, JUMPDEST)), true})
	out = append(out, c28Init{"N", tail(c28New().push(1).op(POP)), true})
	return out
}

func c28CreationContracts() []c28Deployed {
	mk := func(create2 bool) []byte {
		a := c28New()
		a.op(CALLDATASIZE).push(0).push(0).op(CALLDATACOPY)
		if create2 {
			a.push(0x5a17)
		}
		a.op(CALLDATASIZE).push(0).push(0)
		if create2 {
			a.op(CREATE2)
		} else {
			a.op(CREATE)
		}
		a.op(DUP1).push(0x800).op(MSTORE).op(EXTCODESIZE).push(0x820).op(MSTORE)
		return a.ret(0x800, 64).bytes()
	}
	return []c28Deployed{{c28FactoryAddr[0], mk(false)}, {c28FactoryAddr[1], mk(true)}}
}

type c28Deployment struct {
	method string // "tx", "CREATE", "CREATE2"
	target string // "absent", "funded", "occupied"
	init   c28Init
}

func (d c28Deployment) String() string { return d.method + "/" + d.target + "/" + d.init.name }

func (d c28Deployment) targetAddr() common.Address {
	switch d.method {
	case "tx":
		return crypto.CreateAddress(c28CreatorEOA, 0)
	case "CREATE":
		return crypto.CreateAddress(c28FactoryAddr[0], 1)
	default:
		return crypto.CreateAddress2(c28FactoryAddr[1], common.Hash{30: 0x5a, 31: 0x17}, crypto.Keccak256(d.init.code))
	}
}

func (e *c28Env) runDeployment(evm *EVM, d c28Deployment) c28Result {
	prep := func(sdb *state.StateDB) {
		sdb.CreateAccount(c28CreatorEOA)
		sdb.AddBalance(c28CreatorEOA, uint256.NewInt(1_000_000), tracing.BalanceChangeUnspecified)
		switch d.target {
		case "funded":
			sdb.AddBalance(d.targetAddr(), uint256.NewInt(7), tracing.BalanceChangeUnspecified)
		case "occupied":
			sdb.SetNonce(d.targetAddr(), 1, tracing.NonceChangeGenesis)
		}
	}
	return e.runTopPrep(evm, prep, func() ([]byte, GasBudget, error) {
		gas := NewGasBudget(5_000_000, 0)
		switch d.method {
		case "tx":
			ret, _, left, err := evm.Create(c28CreatorEOA, d.init.code, gas, new(uint256.Int))
			return ret, left, err
		case "CREATE":
			return evm.Call(c28CreatorEOA, c28FactoryAddr[0], d.init.code, gas, new(uint256.Int))
		default:
			return evm.Call(c28CreatorEOA, c28FactoryAddr[1], d.init.code, gas, new(uint256.Int))
		}
	})
}

func c28Creations(r *mc.R, env *c28Env) {
	var deps []c28Deployment
	for _, m := range []string{"tx", "CREATE", "CREATE2"} {
		for _, t := range []string{"absent", "funded", "occupied"} {
			for _, ic := range c28InitFamily() {
				deps = append(deps, c28Deployment{m, t, ic})
			}
		}
	}
	r.Bound("creations.deployments", len(deps))
	// each deployment alone on a cold EVM
	bevm := env.newEVM()
	cold := make([]c28Result, len(deps))
	for i, d := range deps {
		c28Pristine(bevm)
		cold[i] = env.runDeployment(bevm, d)
		c := map[string]any{"part": "creation-cold", "deployment": d.String()}
		r.Case(c, func() error {
			// result known by construction
			res := cold[i]
			okWanted := d.target != "occupied" && d.init.valid
			if d.method == "tx" {
				if okWanted != (res.err == "") {
					return fmt.Errorf("creation transaction %s: error %q, deployment expected to succeed: %v", d, res.err, okWanted)
				}
				if okWanted && !bytes.Equal(res.ret, c28InitRuntime) {
					return fmt.Errorf("creation transaction %s deployed %x", d, res.ret)
				}
			} else {
				want := bytes.Join([][]byte{c28Word(0), c28Word(0)}, nil)
				if okWanted {
					want = bytes.Join([][]byte{common.LeftPadBytes(d.targetAddr().Bytes(), 32), c28Word(uint64(len(c28InitRuntime)))}, nil)
				}
				if res.err != "" || !bytes.Equal(res.ret, want) {
					return fmt.Errorf("%s: factory returned %s / %q, expected by construction %s", d, c28Hex(res.ret), res.err, c28Hex(want))
				}
			}
			return nil
		})
		switch {
		case d.target == "occupied":
			r.Outcome("creation_collision")
		case d.init.valid:
			r.Outcome("creation_ok")
		default:
			r.Outcome("creation_invalid_jump")
		}
		r.DistinctHash(mc.Hash64("creation-cold" + d.String()))
	}
	// every ordered pair (x, y) on one EVM (shared jumpdest cache and arena): y must reproduce its cold run
	r.Parallel(len(deps), func(xi int) {
		evm := env.newEVM()
		defer evm.Release()
		for yi := range deps {
			if r.Expired() {
				return
			}
			c := map[string]any{"part": "creation-pair", "first": deps[xi].String(), "second": deps[yi].String()}
			r.Case(c, func() error {
				evm.jumpDests = newMapJumpDests() // the pair starts on a cold cache; the arena stays shared
				if d := env.runDeployment(evm, deps[xi]).diff(cold[xi]); d != "" {
					return fmt.Errorf("%s on a cold cache differs from its isolated run: %s", deps[xi], d)
				}
				if d := env.runDeployment(evm, deps[yi]).diff(cold[yi]); d != "" {
					return fmt.Errorf("%s after %s on the same EVM (shared jump destination cache) differs from its isolated run: %s", deps[yi], deps[xi], d)
				}
				return nil
			})
			r.DistinctHash(mc.Hash64("creation-pair" + deps[xi].String() + deps[yi].String()))
		}
	})
}

// ---------------------------------------------------------------------------
// (g) sibling frames: one parent CALLs a memory dirtier and then a fresh-memory observer

var c28SiblingAddr = c28Addr(3600)

// c28SiblingCaller: CALL(calldata word 0) then CALL(calldata word 1), both with the first call data word as input; returns
// success of the second call ‖ its return data.
func c28SiblingCaller() []byte {
	a := c28New().push(64).push(0).push(0).op(CALLDATACOPY)
	a.push(0).push(0).push(32).push(0).push(0).push(0).op(CALLDATALOAD, GAS, CALL, POP)
	a.push(0).push(0).push(32).push(0).push(0).push(32).op(CALLDATALOAD, GAS, CALL)
	a.push(0x100).op(MSTORE)
	a.op(RETURNDATASIZE).push(0).push(0x120).op(RETURNDATACOPY)
	a.op(RETURNDATASIZE).push(0x20).op(ADD).push(0x100).op(RETURN)
	return a.bytes()
}

func c28Siblings(r *mc.R, env *c28Env, base []c28Result) {
	var dirtiers, observers []int
	for i, p := range env.progs {
		switch {
		case len(p.name) > 10 && p.name[:10] == "mem-dirty-":
			dirtiers = append(dirtiers, i)
		case len(p.name) > 10 && p.name[:10] == "mem-fresh-", len(p.name) > 15 && p.name[:15] == "mem-high-fresh-":
			observers = append(observers, i)
		}
	}
	r.Bound("siblings.dirtiers", len(dirtiers))
	r.Bound("siblings.observers", len(observers))
	r.Parallel(len(dirtiers), func(di int) {
		evm := env.newEVM()
		defer evm.Release()
		d := env.progs[dirtiers[di]]
		for _, oi := range observers {
			o := env.progs[oi]
			c := map[string]any{"part": "siblings", "dirtier": d.name, "observer": o.name}
			r.Case(c, func() error {
				in := append(common.LeftPadBytes(d.addr.Bytes(), 32), common.LeftPadBytes(o.addr.Bytes(), 32)...)
				res := env.runInput(evm, c28SiblingAddr, c28SiblingAddr, in, c28OuterGas)
				want := append(c28Word(1), base[oi].ret...)
				if res.err != "" || !bytes.Equal(res.ret, want) {
					return fmt.Errorf("observer %s called after sibling %s under one parent: %s / %q, isolated run: %s (%s)", o.name, d.name, c28Hex(res.ret), res.err, c28Hex(want), c28FirstDiff(res.ret, want))
				}
				if res.logs != base[oi].logs {
					return fmt.Errorf("observer %s called after sibling %s: logs %s, isolated run %s", o.name, d.name, res.logs, base[oi].logs)
				}
				if w := o.want; w != nil && !bytes.Equal(res.ret[32:], w.ret) {
					return fmt.Errorf("observer %s called after sibling %s: %s, expected by construction %s", o.name, d.name, c28Hex(res.ret[32:]), c28Hex(w.ret))
				}
				return nil
			})
			r.DistinctHash(mc.Hash64("sib" + d.name + o.name))
		}
	})
}

var _ = ecdsa.PrivateKey{}
