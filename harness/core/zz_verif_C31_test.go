//go:build verif

package core

// C31 (part 2): transaction-level gas settlement and the block gas pool.
//
//   (A) settleGas / calcRefund / GasPool.Charge* driven white-box over a complete grid of
//       (fork, gas limit, pre-refund usage, reservoir split, state-gas usage, refund counter,
//       calldata floor, pool pre-state, gas price) against a transcription of EIP-3529 / EIP-7623 /
//       EIP-8037 settlement arithmetic.
//   (B) every ordered sequence of <= L transactions from a fixed set of templates (plain transfers,
//       storage creation / clearing / create-then-clear, reverting and halting callees, value calls to
//       new accounts, contract creation, calldata-heavy transactions, out-of-gas, reservoir transactions)
//       is applied through ApplyMessage + MakeReceipt into one GasPool, for several forks and block gas
//       limits; the transaction-level and block-level statements are checked after every transaction.

import (
	"crypto/ecdsa"
	"errors"
	"fmt"
	"math/big"
	"sync"
	"testing"

	"github.com/ethereum/go-ethereum/common"
	"github.com/ethereum/go-ethereum/core/state"
	"github.com/ethereum/go-ethereum/core/tracing"
	"github.com/ethereum/go-ethereum/core/types"
	"github.com/ethereum/go-ethereum/core/vm"
	"github.com/ethereum/go-ethereum/crypto"
	"github.com/ethereum/go-ethereum/internal/verif/mc"
	"github.com/ethereum/go-ethereum/params"
	"github.com/holiman/uint256"
)

type c31Fork struct {
	name                      string
	cfg                       *params.ChainConfig
	london, prague, amsterdam bool
	merge                     bool
	quot                      uint64 // refund quotient: 2 before EIP-3529, 5 after
}

func c31Forks() []c31Fork {
	mk := func(mod func(c *params.ChainConfig)) *params.ChainConfig {
		c := *params.MergedTestChainConfig
		mod(&c)
		return &c
	}
	preMerge := func(c *params.ChainConfig) {
		c.ArrowGlacierBlock, c.GrayGlacierBlock, c.MergeNetsplitBlock = nil, nil, nil
		c.ShanghaiTime, c.CancunTime, c.PragueTime, c.OsakaTime = nil, nil, nil, nil
		c.TerminalTotalDifficulty = nil
	}
	return []c31Fork{
		{name: "berlin", cfg: mk(func(c *params.ChainConfig) { preMerge(c); c.LondonBlock = nil }), quot: 2},
		{name: "london", cfg: mk(preMerge), london: true, quot: 5},
		{name: "prague", cfg: mk(func(c *params.ChainConfig) { c.OsakaTime = nil }), london: true, prague: true, merge: true, quot: 5},
		{name: "osaka", cfg: mk(func(c *params.ChainConfig) {}), london: true, prague: true, merge: true, quot: 5},
		{name: "amsterdam", cfg: mk(func(c *params.ChainConfig) { c.AmsterdamTime = new(uint64) }), london: true, prague: true, amsterdam: true, merge: true, quot: 5},
	}
}

func (f c31Fork) blockCtx(gasLimit uint64) vm.BlockContext {
	ctx := vm.BlockContext{
		CanTransfer:      CanTransfer,
		Transfer:         Transfer,
		GetHash:          func(uint64) common.Hash { return common.Hash{} },
		Coinbase:         c31Coinbase,
		BlockNumber:      big.NewInt(1),
		Time:             1,
		Difficulty:       big.NewInt(1),
		GasLimit:         gasLimit,
		CostPerStateByte: params.CostPerStateByte,
	}
	if f.london {
		ctx.BaseFee = big.NewInt(c31BaseFee)
	}
	if f.merge {
		ctx.Random = &common.Hash{1}
		ctx.Difficulty = big.NewInt(0)
		ctx.BlobBaseFee = big.NewInt(1)
	}
	return ctx
}

func (f c31Fork) rules() params.Rules {
	return f.cfg.Rules(big.NewInt(1), f.merge, 1)
}

const c31BaseFee = 7

var (
	c31Coinbase = common.HexToAddress("0xc01bba5e00000000000000000000000000000001")
	c31Sender   = common.HexToAddress("0x5e4de70000000000000000000000000000000001")
)

func c31u(x uint64) *uint256.Int { return uint256.NewInt(x) }

func c31uniq(xs ...int64) []int64 {
	var out []int64
	for _, x := range xs {
		dup := false
		for _, y := range out {
			dup = dup || x == y
		}
		if !dup {
			out = append(out, x)
		}
	}
	return out
}

type c31PoolPre struct {
	init, used, cumE, cumS uint64
}

// ---------------------------------------------------------------------------
// (A) settlement grid

type c31SettleCase struct {
	fork       c31Fork
	limit      uint64
	usedBefore uint64
	S          uint64 // part of the leftover that sits in the reservoir
	usedState  int64
	counter    uint64
	floor      uint64
	pool       c31PoolPre
	price      uint64
}

func (c c31SettleCase) desc() map[string]any {
	return map[string]any{"part": "settle", "fork": c.fork.name, "limit": c.limit, "usedBefore": c.usedBefore, "reservoirLeft": c.S,
		"usedState": c.usedState, "refundCounter": c.counter, "floor": c.floor,
		"pool": []uint64{c.pool.init, c.pool.used, c.pool.cumE, c.pool.cumS}, "price": c.price}
}

func (c c31SettleCase) hash() uint64 {
	h := uint64(14695981039346656037)
	mix := func(x uint64) {
		for i := 0; i < 8; i++ {
			h ^= x & 0xff
			h *= 1099511628211
			x >>= 8
		}
	}
	mix(uint64(len(c.fork.name)) + uint64(c.fork.name[0])<<8)
	for _, x := range []uint64{c.limit, c.usedBefore, c.S, uint64(c.usedState), c.counter, c.floor, c.pool.init, c.pool.used, c.pool.cumE, c.pool.cumS, c.price} {
		mix(x)
	}
	return h
}

// c31RunSettle executes settleGas for one grid point on the real code and compares with the specification.
func c31RunSettle(c c31SettleCase, sdb *state.StateDB, evm *vm.EVM, rules params.Rules) (string, error) {
	// arrange the refund counter
	if cur := sdb.GetRefund(); cur > 0 {
		sdb.SubRefund(cur)
	}
	if c.counter > 0 {
		sdb.AddRefund(c.counter)
	}
	gasLeft := c.limit - c.usedBefore
	gp := &GasPool{initial: c.pool.init, remaining: c.pool.init - c.pool.used, cumulativeUsed: c.pool.used, cumulativeExecution: c.pool.cumE, cumulativeState: c.pool.cumS}
	if c.fork.amsterdam {
		gp.remaining = c.pool.init - c.pool.cumE
	} else if err := gp.CheckGasLegacy(c.limit); err != nil { // the reservation made by preCheck
		return "", fmt.Errorf("harness: legacy reservation failed: %v", err)
	}
	poolBefore := *gp
	st := &stateTransition{
		gp:    gp,
		msg:   &Message{From: c31Sender, GasLimit: c.limit, GasPrice: c31u(c.price)},
		state: sdb,
		evm:   evm,
		gasRemaining: vm.GasBudget{
			ExecutionGas: gasLeft - c.S, StateGas: c.S,
			UsedStateGas: c.usedState,
		},
	}
	if c.usedState >= 0 && uint64(c.usedState) <= c.usedBefore {
		st.gasRemaining.UsedExecutionGas = c.usedBefore - uint64(c.usedState)
	}
	balBefore := sdb.GetBalance(c31Sender).Clone()
	gasUsed, peak, err := st.settleGas(rules, c.floor)
	balAfter := sdb.GetBalance(c31Sender)

	// ---- specification
	q := c.usedBefore / c.fork.quot
	refund := min(c.counter, q)
	expUsed := c.usedBefore - refund
	expPeak := c.usedBefore
	floorBinds := false
	if c.fork.prague && expUsed < c.floor {
		expUsed, floorBinds = c.floor, true
		expPeak = max(expPeak, c.floor)
	}
	var (
		txState, txExec uint64
		expErr          string
	)
	switch {
	case c.usedState < 0:
		expErr = "negative state usage"
	case uint64(c.usedState) > c.usedBefore:
		expErr = "state usage above total usage"
	default:
		txState = uint64(c.usedState)
		txExec = max(c.usedBefore-txState, c.floor)
		if c.fork.amsterdam && max(c.pool.cumE+txExec, c.pool.cumS+txState) > c.pool.init {
			expErr = "block gas limit"
		}
	}
	if expErr != "" {
		if err == nil {
			return "", fmt.Errorf("settleGas accepted an inconsistent settlement (%s): gasUsed=%d", expErr, gasUsed)
		}
		if expErr == "block gas limit" && !errors.Is(err, ErrGasLimitReached) {
			return "", fmt.Errorf("block gas overflow reported as %v, want ErrGasLimitReached", err)
		}
		if *gp != poolBefore {
			return "", fmt.Errorf("failed settlement (%v) modified the pool: %+v -> %+v", err, poolBefore, *gp)
		}
		if !balAfter.Eq(balBefore) {
			return "", fmt.Errorf("failed settlement (%v) paid the sender: %v -> %v", err, balBefore, balAfter)
		}
		return "error_" + expErr, nil
	}
	if err != nil {
		return "", fmt.Errorf("settleGas failed: %v", err)
	}
	// statement
	if gasUsed > c.limit {
		return "", fmt.Errorf("gas used %d exceeds the gas limit %d", gasUsed, c.limit)
	}
	if gasUsed < c.usedBefore && c.usedBefore-gasUsed > c.usedBefore/c.fork.quot {
		return "", fmt.Errorf("refund %d exceeds 1/%d of the pre-refund usage %d", c.usedBefore-gasUsed, c.fork.quot, c.usedBefore)
	}
	if c.fork.prague && gasUsed < c.floor {
		return "", fmt.Errorf("gas used %d below the calldata floor %d", gasUsed, c.floor)
	}
	// exact settlement
	if gasUsed != expUsed || peak != expPeak {
		return "", fmt.Errorf("settleGas = (used %d, peak %d), specification (used %d, peak %d) [refund min(%d, %d/%d)]", gasUsed, peak, expUsed, expPeak, c.counter, c.usedBefore, c.fork.quot)
	}
	wantPay := new(uint256.Int).Mul(c31u(c.limit-gasUsed), c31u(c.price))
	if got := new(uint256.Int).Sub(balAfter, balBefore); !got.Eq(wantPay) {
		return "", fmt.Errorf("sender got %v wei back, want (limit %d - used %d) * price %d = %v", got, c.limit, gasUsed, c.price, wantPay)
	}
	// pool
	if c.fork.amsterdam {
		want := GasPool{initial: c.pool.init, cumulativeExecution: c.pool.cumE + txExec, cumulativeState: c.pool.cumS + txState, cumulativeUsed: c.pool.used + gasUsed}
		want.remaining = want.initial - want.cumulativeExecution
		if *gp != want {
			return "", fmt.Errorf("pool after settlement %+v, want %+v", *gp, want)
		}
		if u := gp.Used(); u > c.pool.init || u != max(want.cumulativeExecution, want.cumulativeState) {
			return "", fmt.Errorf("pool.Used()=%d, dimensions <%d,%d>, limit %d", u, want.cumulativeExecution, want.cumulativeState, c.pool.init)
		}
	} else {
		want := GasPool{initial: c.pool.init, remaining: c.pool.init - c.pool.used - gasUsed, cumulativeUsed: c.pool.used + gasUsed}
		if *gp != want {
			return "", fmt.Errorf("pool after settlement %+v, want %+v", *gp, want)
		}
		if gp.Used() != c.pool.used+gasUsed || gp.Gas() != want.remaining || gp.CumulativeUsed() != want.cumulativeUsed {
			return "", fmt.Errorf("pool accessors Used=%d Gas=%d Cumulative=%d inconsistent with %+v", gp.Used(), gp.Gas(), gp.CumulativeUsed(), want)
		}
	}
	out := "settled"
	switch {
	case floorBinds:
		out += "_floor_binds"
	case refund == 0:
		out += "_no_refund"
	case refund == q:
		out += "_refund_capped"
	default:
		out += "_refund_full"
	}
	return out, nil
}

func c31SettleGrid(r *mc.R) {
	type shard struct {
		fork              c31Fork
		limit, usedBefore uint64
	}
	var shards []shard
	for _, f := range c31Forks() {
		if f.name == "osaka" {
			continue // same settlement rules as prague
		}
		for _, limit := range []uint64{21000, 21001, 100000} {
			for _, ub := range c31uniq(0, 1, 4, 5, 6, 9, 10, 20999, 21000, int64(limit)-1, int64(limit)) {
				if uint64(ub) <= limit {
					shards = append(shards, shard{f, limit, uint64(ub)})
				}
			}
		}
	}
	r.Parallel(len(shards), func(si int) {
		sh := shards[si]
		f := sh.fork
		sdb, _ := state.New(types.EmptyRootHash, state.NewDatabaseForTesting())
		sdb.CreateAccount(c31Sender)
		evm := vm.NewEVM(f.blockCtx(30_000_000), sdb, f.cfg, vm.Config{})
		rules := f.rules()
		gasLeft := sh.limit - sh.usedBefore
		splits := []int64{0}
		states := []int64{0}
		if f.amsterdam {
			splits = c31uniq(0, 1, int64(gasLeft))
			states = c31uniq(-1, 0, 1, int64(sh.usedBefore)-1, int64(sh.usedBefore), int64(sh.usedBefore)+1)
		}
		q := int64(sh.usedBefore / f.quot)
		n := 0
		oc := map[string]int64{}
		for _, S := range splits {
			if uint64(S) > gasLeft {
				continue
			}
			for _, us := range states {
				if us < -1 {
					continue
				}
				for _, counter := range c31uniq(0, 1, q-1, q, q+1, 1_000_000_000) {
					if counter < 0 {
						continue
					}
					base := int64(sh.usedBefore) - min(counter, q)
					floors := []int64{0}
					if f.prague {
						floors = c31uniq(0, base-1, base, base+1, int64(sh.limit))
					}
					for _, floor := range floors {
						if floor < 0 || uint64(floor) > sh.limit {
							continue
						}
						var pools []c31PoolPre
						for _, init := range c31uniq(int64(sh.limit), int64(sh.limit)+12345, 30_000_000) {
							if f.amsterdam {
								txS := uint64(max(us, 0))
								txE := uint64(floor)
								if txS <= sh.usedBefore {
									txE = max(sh.usedBefore-txS, uint64(floor))
								}
								in := uint64(init)
								pools = append(pools, c31PoolPre{in, 0, 0, 0}, c31PoolPre{in, 77, 5, 9}, c31PoolPre{in, 0, in - txE, 0}, c31PoolPre{in, 0, 0, in - min(txS, in)})
								if txE > 0 {
									pools = append(pools, c31PoolPre{in, 0, in - txE + 1, 0})
								}
								if txS > 0 && txS <= in {
									pools = append(pools, c31PoolPre{in, 0, 0, in - txS + 1})
								}
							} else {
								pools = append(pools, c31PoolPre{uint64(init), 0, 0, 0})
								if uint64(init) > sh.limit {
									pools = append(pools, c31PoolPre{uint64(init), uint64(init) - sh.limit, 0, 0})
								}
							}
						}
						for _, pool := range pools {
							for _, price := range []uint64{0, 1, 7} {
								if r.Expired() {
									return
								}
								c := c31SettleCase{f, sh.limit, sh.usedBefore, uint64(S), us, uint64(counter), uint64(floor), pool, price}
								var out string
								r.Case(c.desc(), func() (err error) {
									out, err = c31RunSettle(c, sdb, evm, rules)
									return err
								})
								r.DistinctHash(c.hash())
								if out != "" {
									oc[out]++
								}
								n++
								if n%4096 == 0 { // bound the journal of the shared state
									sdb, _ = state.New(types.EmptyRootHash, state.NewDatabaseForTesting())
									sdb.CreateAccount(c31Sender)
									evm = vm.NewEVM(f.blockCtx(30_000_000), sdb, f.cfg, vm.Config{})
								}
								if n%20011 == 1 {
									r.Sample(c.desc())
								}
							}
						}
					}
				}
			}
		}
		for k, v := range oc {
			r.OutcomeN(k, v)
		}
	})
}

// ---------------------------------------------------------------------------
// (B) transaction sequences into one gas pool

var (
	c31Keys  []*ecdsa.PrivateKey
	c31Froms []common.Address

	c31EOA      = common.HexToAddress("0xe0a0000000000000000000000000000000000001")
	c31AStore   = common.HexToAddress("0xa100000000000000000000000000000000000001")
	c31AClear5  = common.HexToAddress("0xa200000000000000000000000000000000000001")
	c31AClear1  = common.HexToAddress("0xa300000000000000000000000000000000000001")
	c31ASetClr  = common.HexToAddress("0xa400000000000000000000000000000000000001")
	c31ARevert  = common.HexToAddress("0xa500000000000000000000000000000000000001")
	c31AInvalid = common.HexToAddress("0xa600000000000000000000000000000000000001")
	c31ACallNew = common.HexToAddress("0xa700000000000000000000000000000000000001")
	c31ACallRev = common.HexToAddress("0xa800000000000000000000000000000000000001")
	c31AC2Ok    = common.HexToAddress("0xa900000000000000000000000000000000000001")
	c31AC2Rev   = common.HexToAddress("0xaa00000000000000000000000000000000000001")
	c31AC2Halt  = common.HexToAddress("0xab00000000000000000000000000000000000001")
	c31AC1Rev   = common.HexToAddress("0xac00000000000000000000000000000000000001")
)

// c31Factory: MSTORE the init code, CREATE (or CREATE2 with salt = calldata word 0) with zero value, STOP.
func c31Factory(init []byte, create2 bool) []byte {
	word := make([]byte, 32)
	copy(word[32-len(init):], init)
	off, sz := byte(32-len(init)), byte(len(init))
	b := append([]byte{0x7f}, word...)
	b = append(b, 0x60, 0x00, 0x52)
	if create2 {
		b = append(b, 0x60, 0x00, 0x35, 0x60, sz, 0x60, off, 0x60, 0x00, 0xf5)
	} else {
		b = append(b, 0x60, sz, 0x60, off, 0x60, 0x00, 0xf0)
	}
	return append(b, 0x50, 0x00)
}

func init() {
	for _, h := range []string{
		"b71c71a67e1177ad4e901695e1b4b9ee17ae16c6668d313eac2f96dbcda3f291",
		"8a1f9a8f95be41cd7ccb6168179afb4504aefe388d1e14474d32c45c72ce7b7a",
		"49a7b37aa6f6645917e7b807e9d1c00d4fa71f18343b0d4122a4d2df64dd6fee",
	} {
		k, _ := crypto.HexToECDSA(h)
		c31Keys = append(c31Keys, k)
		c31Froms = append(c31Froms, crypto.PubkeyToAddress(k.PublicKey))
	}
}

func c31Code() map[common.Address][]byte {
	sstoreK := func(val byte) []byte { return []byte{0x60, val, 0x60, 0x00, 0x35, 0x55} } // SSTORE(calldata[0], val)
	cat := func(p ...[]byte) []byte {
		var b []byte
		for _, x := range p {
			b = append(b, x...)
		}
		return b
	}
	var clear5 []byte
	for i := byte(0); i < 5; i++ {
		clear5 = append(clear5, 0x60, 0x00, 0x60, i, 0x60, 0x00, 0x35, 0x01, 0x55) // SSTORE(calldata[0]+i, 0)
	}
	// CALL(gas, calldata[0], 1 wei, 0,0,0,0); POP
	callNew := []byte{0x60, 0x00, 0x60, 0x00, 0x60, 0x00, 0x60, 0x00, 0x60, 0x01, 0x60, 0x00, 0x35, 0x5a, 0xf1, 0x50}
	revert := []byte{0x60, 0x00, 0x60, 0x00, 0xfd}
	return map[common.Address][]byte{
		c31AStore:   cat(sstoreK(1), []byte{0x00}),
		c31AClear5:  cat(clear5, []byte{0x00}),
		c31AClear1:  cat(sstoreK(0), []byte{0x00}),
		c31ASetClr:  cat(sstoreK(1), sstoreK(0), []byte{0x00}),
		c31ARevert:  cat(sstoreK(1), revert),
		c31AInvalid: cat(sstoreK(1), []byte{0xfe}),
		c31ACallNew: cat(callNew, []byte{0x00}),
		c31ACallRev: cat(callNew, revert),
		c31AC2Ok:    c31Factory([]byte{0x60, 0x03, 0x60, 0x00, 0xf3}, true),
		c31AC2Rev:   c31Factory(revert, true),
		c31AC2Halt:  c31Factory([]byte{0xfe}, true),
		c31AC1Rev:   c31Factory(revert, false),
	}
}

var (
	c31BaseOnce sync.Once
	c31BaseDB   state.Database
	c31BaseRoot common.Hash
)

// c31NewState opens a fresh StateDB on the committed base state (built once).
func c31NewState() *state.StateDB {
	c31BaseOnce.Do(func() {
		sdb := c31BuildState()
		c31BaseDB = sdb.Database()
		c31BaseRoot = sdb.IntermediateRoot(params.Rules{IsEIP158: true})
	})
	sdb, err := state.New(c31BaseRoot, c31BaseDB)
	if err != nil {
		panic(err)
	}
	return sdb
}

func c31BuildState() *state.StateDB {
	sdb, _ := state.New(types.EmptyRootHash, state.NewDatabaseForTesting())
	for _, a := range c31Froms {
		sdb.CreateAccount(a)
		sdb.AddBalance(a, uint256.MustFromDecimal("100000000000000000000"), tracing.BalanceChangeUnspecified)
	}
	for _, a := range []common.Address{c31EOA, c31Coinbase} {
		sdb.CreateAccount(a)
		sdb.AddBalance(a, c31u(1), tracing.BalanceChangeUnspecified)
	}
	for a, code := range c31Code() {
		sdb.CreateAccount(a)
		sdb.SetNonce(a, 1, tracing.NonceChangeGenesis)
		sdb.SetCode(a, code, tracing.CodeChangeUnspecified)
		sdb.AddBalance(a, c31u(1000), tracing.BalanceChangeUnspecified)
	}
	for i := 1; i <= 40; i++ {
		sdb.SetState(c31AClear5, common.BigToHash(big.NewInt(int64(i))), common.Hash{31: 1})
		sdb.SetState(c31AClear1, common.BigToHash(big.NewInt(int64(i))), common.Hash{31: 1})
	}
	sdb.Finalise(params.Rules{IsEIP158: true})
	// committing makes the preset slots "original" values
	root, err := sdb.Commit(params.Rules{IsEIP158: true}, 0)
	if err != nil {
		panic(err)
	}
	sdb2, err := state.New(root, sdb.Database())
	if err != nil {
		panic(err)
	}
	return sdb2
}

type c31Tmpl struct {
	name  string
	to    *common.Address
	value uint64
	data  func(pos int) []byte
	gas   func(intrinsic, floor uint64) uint64
	only  string // restrict to one fork
}

func c31Templates() []c31Tmpl {
	word := func(x uint64) []byte { return common.BigToHash(new(big.Int).SetUint64(x)).Bytes() }
	ample := func(_, _ uint64) uint64 { return 1_000_000 }
	exact := func(i, f uint64) uint64 { return max(i, f) }
	p := func(a common.Address) *common.Address { return &a }
	fresh := func(pos int) common.Address { return common.BigToAddress(big.NewInt(0xf4e5000 + int64(pos))) }
	heavy := make([]byte, 200)
	for i := range heavy {
		heavy[i] = 0xff
	}
	return []c31Tmpl{
		{name: "transfer", to: p(c31EOA), value: 1, data: func(int) []byte { return nil }, gas: exact},
		{name: "transfer-new-account", value: 1, data: func(int) []byte { return nil }, gas: func(i, f uint64) uint64 { return max(i, f) + 300_000 }},
		{name: "sstore-new", to: p(c31AStore), data: func(pos int) []byte { return word(uint64(pos) + 1) }, gas: ample},
		{name: "clear5", to: p(c31AClear5), data: func(pos int) []byte { return word(uint64(5*pos) + 1) }, gas: ample},
		{name: "clear1", to: p(c31AClear1), data: func(pos int) []byte { return word(uint64(pos) + 1) }, gas: ample},
		{name: "set-then-clear", to: p(c31ASetClr), data: func(pos int) []byte { return word(uint64(pos) + 1) }, gas: ample},
		{name: "sstore-revert", to: p(c31ARevert), data: func(pos int) []byte { return word(uint64(pos) + 1) }, gas: ample},
		{name: "sstore-invalid", to: p(c31AInvalid), data: func(pos int) []byte { return word(uint64(pos) + 1) }, gas: ample},
		{name: "call-new-account", to: p(c31ACallNew), data: func(pos int) []byte { return common.LeftPadBytes(fresh(pos+8).Bytes(), 32) }, gas: ample},
		{name: "call-new-account-revert", to: p(c31ACallRev), data: func(pos int) []byte { return common.LeftPadBytes(fresh(pos+16).Bytes(), 32) }, gas: ample},
		{name: "create", data: func(int) []byte { return []byte{0x60, 0x03, 0x60, 0x00, 0xf3} }, gas: ample},
		{name: "create-revert", data: func(int) []byte { return []byte{0x60, 0x00, 0x60, 0x00, 0xfd} }, gas: ample},
		{name: "calldata-heavy", to: p(c31EOA), data: func(int) []byte { return heavy }, gas: exact},
		{name: "sstore-new-oog", to: p(c31AStore), data: func(pos int) []byte { return word(uint64(pos) + 1) }, gas: func(i, f uint64) uint64 { return max(i, f) + 3000 }},
		{name: "create2-ok", to: p(c31AC2Ok), data: func(pos int) []byte { return word(uint64(pos) + 1) }, gas: ample},
		{name: "create2-init-reverts", to: p(c31AC2Rev), data: func(pos int) []byte { return word(uint64(pos) + 1) }, gas: ample},
		{name: "create2-init-halts", to: p(c31AC2Halt), data: func(pos int) []byte { return word(uint64(pos) + 1) }, gas: ample},
		{name: "create2-init-reverts-reservoir", to: p(c31AC2Rev), data: func(pos int) []byte { return word(uint64(pos) + 1) }, gas: func(_, _ uint64) uint64 { return params.MaxTxGas + 500_000 }, only: "amsterdam"},
		{name: "create2-init-halts-reservoir", to: p(c31AC2Halt), data: func(pos int) []byte { return word(uint64(pos) + 1) }, gas: func(_, _ uint64) uint64 { return params.MaxTxGas + 500_000 }, only: "amsterdam"},
		{name: "create-init-reverts-reservoir", to: p(c31AC1Rev), data: func(pos int) []byte { return word(uint64(pos) + 1) }, gas: func(_, _ uint64) uint64 { return params.MaxTxGas + 500_000 }, only: "amsterdam"},
		{name: "create-tx-reverts-reservoir", data: func(int) []byte { return []byte{0x60, 0x00, 0x60, 0x00, 0xfd} }, gas: func(_, _ uint64) uint64 { return params.MaxTxGas + 500_000 }, only: "amsterdam"},
		{name: "sstore-new-reservoir", to: p(c31AStore), data: func(pos int) []byte { return word(uint64(pos) + 1) }, gas: func(_, _ uint64) uint64 { return params.MaxTxGas + 500_000 }, only: "amsterdam"},
	}
}

type c31Tx struct {
	tx        *types.Transaction
	msg       *Message
	floor     uint64
	intrinsic uint64
	value     uint64
	isCreate  bool
}

// c31BuildTxs signs every (template, position) transaction of a fork; position i is sent by sender i with nonce 0.
func c31BuildTxs(f c31Fork, tmpls []c31Tmpl, positions int) ([][]*c31Tx, error) {
	signer := types.MakeSigner(f.cfg, big.NewInt(1), 1)
	rules := f.rules()
	out := make([][]*c31Tx, len(tmpls))
	for ti, tm := range tmpls {
		out[ti] = make([]*c31Tx, positions)
		if tm.only != "" && tm.only != f.name {
			continue
		}
		for pos := 0; pos < positions; pos++ {
			to := tm.to
			if tm.name == "transfer-new-account" {
				a := common.BigToAddress(big.NewInt(0xf4e5000 + int64(pos)))
				to = &a
			}
			data := tm.data(pos)
			isCreate := to == nil && tm.name != "transfer-new-account"
			value := c31u(tm.value)
			intrinsic, err := IntrinsicGas(data, nil, nil, c31Froms[pos], to, value, rules)
			if err != nil {
				return nil, err
			}
			var floor uint64
			if f.prague {
				if floor, err = FloorDataGas(rules, c31Froms[pos], to, value, data, nil); err != nil {
					return nil, err
				}
			}
			gas := tm.gas(intrinsic, floor)
			var inner types.TxData
			if f.london {
				inner = &types.DynamicFeeTx{ChainID: f.cfg.ChainID, Nonce: 0, To: to, Value: value.ToBig(), Gas: gas, GasFeeCap: big.NewInt(20), GasTipCap: big.NewInt(2), Data: data}
			} else {
				inner = &types.LegacyTx{Nonce: 0, To: to, Value: value.ToBig(), Gas: gas, GasPrice: big.NewInt(9), Data: data}
			}
			tx, err := types.SignNewTx(c31Keys[pos], signer, inner)
			if err != nil {
				return nil, err
			}
			var baseFee *big.Int
			if f.london {
				baseFee = big.NewInt(c31BaseFee)
			}
			msg, err := TransactionToMessage(tx, signer, baseFee)
			if err != nil {
				return nil, err
			}
			out[ti][pos] = &c31Tx{tx: tx, msg: msg, floor: floor, intrinsic: intrinsic, value: tm.value, isCreate: isCreate}
		}
	}
	return out, nil
}

// c31RunBlock applies the sequence seq (template indices) into one pool of size blockLimit and checks every statement.
func c31RunBlock(f c31Fork, tmpls []c31Tmpl, txs [][]*c31Tx, blockLimit uint64, seq []int, outcome func(string)) error {
	sdb := c31NewState()
	evm := vm.NewEVM(f.blockCtx(blockLimit), sdb, f.cfg, vm.Config{})
	defer evm.Release()
	gp := NewGasPool(blockLimit)
	var (
		sumUsed  uint64
		receipts []*types.Receipt
		blockNum = big.NewInt(1)
	)
	for pos, ti := range seq {
		t := txs[ti][pos]
		name := fmt.Sprintf("tx %d (%s, gas %d)", pos, tmpls[ti].name, t.msg.GasLimit)
		from := t.msg.From
		poolBefore := *gp
		balBefore := sdb.GetBalance(from).Clone()
		coinBefore := sdb.GetBalance(c31Coinbase).Clone()
		nonceBefore := sdb.GetNonce(from)
		// admission as specified: legacy pools reserve the whole gas limit; EIP-8037 reserves min(limit, MaxTxGas)
		// in the execution dimension and the whole limit in the state dimension
		var admit bool
		if f.amsterdam {
			admit = blockLimit-gp.CumulativeExecution() >= min(t.msg.GasLimit, params.MaxTxGas) && blockLimit-gp.CumulativeState() >= t.msg.GasLimit
		} else {
			admit = blockLimit-sumUsed >= t.msg.GasLimit
		}
		sdb.SetTxContext(t.tx.Hash(), pos, uint32(pos+1))
		// ApplyMessage, spelled out to keep the final transaction budget observable
		evm.SetTxContext(NewEVMTxContext(t.msg))
		st := newStateTransition(evm, t.msg, gp)
		res, err := st.execute()
		if err != nil {
			if admit {
				return fmt.Errorf("%s: rejected with %v although the pool has room (%+v)", name, err, poolBefore)
			}
			if !errors.Is(err, ErrGasLimitReached) {
				return fmt.Errorf("%s: rejected with %v, want ErrGasLimitReached", name, err)
			}
			if *gp != poolBefore {
				return fmt.Errorf("%s: rejected transaction changed the pool %+v -> %+v", name, poolBefore, *gp)
			}
			if !sdb.GetBalance(from).Eq(balBefore) || sdb.GetNonce(from) != nonceBefore {
				return fmt.Errorf("%s: rejected transaction changed the sender", name)
			}
			outcome("tx_rejected_pool_full")
			continue
		}
		if !admit {
			return fmt.Errorf("%s: admitted although the pool %+v (limit %d) cannot reserve it", name, poolBefore, blockLimit)
		}
		counter := sdb.GetRefund()
		sdb.Finalise(evm.GetRules())
		receipt := MakeReceipt(evm, res, sdb, blockNum, common.Hash{}, 1, t.tx, gp.CumulativeUsed(), nil)
		receipts = append(receipts, receipt)
		sumUsed += res.UsedGas

		// ---- transaction level
		{
			// the budget the top frame was entered with (EIP-8037: execution gas capped at MaxTxGas, the rest is the reservoir)
			evmGas := t.msg.GasLimit - t.intrinsic
			e0 := evmGas
			if f.amsterdam {
				e0 = min(params.MaxTxGas-t.intrinsic, evmGas)
			}
			s0 := evmGas - e0
			g := st.gasRemaining
			if g.ExecutionGas+g.UsedExecutionGas+g.Spilled != e0 {
				return fmt.Errorf("%s: execution gas not conserved: left %d + used %d + spilled %d != %d after intrinsic gas; budget %v", name, g.ExecutionGas, g.UsedExecutionGas, g.Spilled, e0, g)
			}
			if int64(g.StateGas)+g.UsedStateGas-int64(g.Spilled) != int64(s0) {
				return fmt.Errorf("%s: reservoir identity broken: StateGas %d + UsedStateGas %d - Spilled %d != initial reservoir %d; budget %v", name, g.StateGas, g.UsedStateGas, g.Spilled, s0, g)
			}
			if res.Failed() && res.Err != vm.ErrExecutionReverted && f.amsterdam && g.ExecutionGas != 0 {
				return fmt.Errorf("%s: halted top frame (%v) left execution gas %d", name, res.Err, g.ExecutionGas)
			}
			if res.Failed() && (g.UsedStateGas != 0 || g.Spilled != 0 || g.StateGas != s0) {
				return fmt.Errorf("%s: failed top frame (%v) must hand back the reservoir %d with no state usage: %v", name, res.Err, s0, g)
			}
			if s0 > 0 {
				outcome("tx_with_reservoir")
			}
		}
		if res.UsedGas > t.msg.GasLimit {
			return fmt.Errorf("%s: gas used %d exceeds the gas limit", name, res.UsedGas)
		}
		if res.MaxUsedGas > t.msg.GasLimit || res.UsedGas > res.MaxUsedGas {
			return fmt.Errorf("%s: used %d, peak %d, limit %d out of order", name, res.UsedGas, res.MaxUsedGas, t.msg.GasLimit)
		}
		if res.MaxUsedGas-res.UsedGas > res.MaxUsedGas/f.quot {
			return fmt.Errorf("%s: refund %d exceeds 1/%d of the pre-refund usage %d", name, res.MaxUsedGas-res.UsedGas, f.quot, res.MaxUsedGas)
		}
		if f.prague && res.UsedGas < t.floor {
			return fmt.Errorf("%s: gas used %d below the calldata floor %d", name, res.UsedGas, t.floor)
		}
		usedBefore, known := res.MaxUsedGas, true
		if f.prague && res.MaxUsedGas <= t.floor {
			known = false // the pre-refund usage is hidden behind the floor
			if res.MaxUsedGas < t.floor || res.UsedGas != t.floor {
				return fmt.Errorf("%s: used %d / peak %d inconsistent with the calldata floor %d", name, res.UsedGas, res.MaxUsedGas, t.floor)
			}
			outcome("tx_floor_binds")
		}
		if known {
			refund := min(counter, usedBefore/f.quot)
			want := usedBefore - refund
			if f.prague {
				want = max(want, t.floor)
			}
			if res.UsedGas != want {
				return fmt.Errorf("%s: gas used %d, want %d = max(pre-refund %d - min(counter %d, %d/%d), floor %d)", name, res.UsedGas, want, usedBefore, counter, usedBefore, f.quot, t.floor)
			}
			switch {
			case refund == 0:
				outcome("tx_no_refund")
			case refund == counter:
				outcome("tx_refund_full")
			default:
				outcome("tx_refund_capped")
			}
		}
		// the sender pays exactly for the gas used (plus the value of a successful transaction)
		price := t.msg.GasPrice
		paid := new(uint256.Int).Sub(balBefore, sdb.GetBalance(from))
		wantPaid := new(uint256.Int).Mul(c31u(res.UsedGas), price)
		if !res.Failed() {
			wantPaid.Add(wantPaid, c31u(t.value))
		}
		if !paid.Eq(wantPaid) {
			return fmt.Errorf("%s: sender paid %v wei, want used %d * price %v (+value) = %v", name, paid, res.UsedGas, price, wantPaid)
		}
		tip := new(uint256.Int).Set(price)
		if f.london {
			tip.Sub(tip, c31u(c31BaseFee))
		}
		if got, want := new(uint256.Int).Sub(sdb.GetBalance(c31Coinbase), coinBefore), new(uint256.Int).Mul(c31u(res.UsedGas), tip); !got.Eq(want) {
			return fmt.Errorf("%s: coinbase received %v wei, want used %d * tip %v = %v", name, got, res.UsedGas, tip, want)
		}
		if res.Failed() {
			outcome("tx_failed")
		} else {
			outcome("tx_ok")
		}
		// ---- receipt / pool level
		if receipt.GasUsed != res.UsedGas || receipt.CumulativeGasUsed != sumUsed {
			return fmt.Errorf("%s: receipt gasUsed %d cumulative %d, want %d / %d", name, receipt.GasUsed, receipt.CumulativeGasUsed, res.UsedGas, sumUsed)
		}
		if gp.CumulativeUsed() != sumUsed {
			return fmt.Errorf("%s: pool cumulative %d, sum of receipts %d", name, gp.CumulativeUsed(), sumUsed)
		}
		if gp.Used() > blockLimit {
			return fmt.Errorf("%s: block gas used %d exceeds the block gas limit %d", name, gp.Used(), blockLimit)
		}
		if f.amsterdam {
			dE, dS := gp.CumulativeExecution()-poolBefore.cumulativeExecution, gp.CumulativeState()-poolBefore.cumulativeState
			if gp.CumulativeExecution() < poolBefore.cumulativeExecution || gp.CumulativeState() < poolBefore.cumulativeState {
				return fmt.Errorf("%s: pool dimension decreased: %+v -> %+v", name, poolBefore, *gp)
			}
			if gp.Used() != max(gp.CumulativeExecution(), gp.CumulativeState()) {
				return fmt.Errorf("%s: pool.Used()=%d, dimensions <%d,%d>", name, gp.Used(), gp.CumulativeExecution(), gp.CumulativeState())
			}
			if dS > res.MaxUsedGas || dE < t.floor || dE > max(res.MaxUsedGas, t.floor) {
				return fmt.Errorf("%s: block dimensions +<%d,%d> outside pre-refund usage %d / floor %d", name, dE, dS, res.MaxUsedGas, t.floor)
			}
			if known && dE != max(usedBefore-dS, t.floor) {
				return fmt.Errorf("%s: execution dimension +%d, want max(pre-refund %d - state %d, floor %d)", name, dE, usedBefore, dS, t.floor)
			}
			if dS > 0 {
				outcome("tx_state_gas_charged")
			}
		} else {
			if gp.Gas() != blockLimit-sumUsed || gp.Used() != sumUsed {
				return fmt.Errorf("%s: pool remaining %d used %d, want %d / %d", name, gp.Gas(), gp.Used(), blockLimit-sumUsed, sumUsed)
			}
		}
	}
	// header.GasUsed (= pool.Used()) against the receipts
	var sum uint64
	for _, rc := range receipts {
		sum += rc.GasUsed
	}
	if len(receipts) > 0 && receipts[len(receipts)-1].CumulativeGasUsed != sum {
		return fmt.Errorf("last receipt cumulative %d != sum of receipt gas %d", receipts[len(receipts)-1].CumulativeGasUsed, sum)
	}
	if !f.amsterdam && gp.Used() != sum {
		return fmt.Errorf("block gas used %d != sum of receipt gas %d", gp.Used(), sum)
	}
	return nil
}

func c31Sequences(r *mc.R, maxLen int) {
	tmpls := c31Templates()
	limits := []uint64{30_000_000, 2_050_000, 1_030_000}
	type shard struct {
		fork  c31Fork
		txs   [][]*c31Tx
		limit uint64
		first int
	}
	var shards []shard
	for _, f := range c31Forks() {
		txs, err := c31BuildTxs(f, tmpls, maxLen)
		if err != nil {
			r.Violation("build-txs-"+f.name, err.Error(), nil)
			return
		}
		for _, l := range limits {
			for first := range tmpls {
				if txs[first][0] != nil {
					shards = append(shards, shard{f, txs, l, first})
				}
			}
		}
	}
	r.Parallel(len(shards), func(si int) {
		sh := shards[si]
		oc := map[string]int64{}
		var rec func(seq []int)
		rec = func(seq []int) {
			if r.Expired() {
				return
			}
			names := make([]string, len(seq))
			for i, ti := range seq {
				names[i] = tmpls[ti].name
			}
			c := map[string]any{"part": "sequence", "fork": sh.fork.name, "blockGasLimit": sh.limit, "txs": names}
			r.Case(c, func() error {
				return c31RunBlock(sh.fork, tmpls, sh.txs, sh.limit, seq, func(k string) { oc[k]++ })
			})
			r.DistinctHash(mc.Hash64(fmt.Sprint(sh.fork.name, sh.limit, seq)))
			if len(seq) == maxLen && seq[1] == 3 && seq[maxLen-1] == 5 {
				r.Sample(c)
			}
			if len(seq) < maxLen {
				for ti := range tmpls {
					if sh.txs[ti][0] != nil {
						rec(append(append([]int{}, seq...), ti))
					}
				}
			}
		}
		rec([]int{sh.first})
		for k, v := range oc {
			r.OutcomeN(k, v)
		}
	})
}

func TestVerif_C31(t *testing.T) {
	mc.Run(t, "C31", func(r *mc.R) {
		maxLen := mc.Pick(r, 2, 3)
		r.Rule("(A) complete grid over fork{berlin,london,prague,amsterdam} x gasLimit{21000,21001,100000} x pre-refund usage " +
			"{0,1,4,5,6,9,10,20999,21000,limit-1,limit} x reservoir share of the leftover x UsedStateGas{-1,0,1,used-1,used,used+1} (amsterdam) x " +
			"refund counter{0,1,cap-1,cap,cap+1,1e9} x calldata floor{0,net-1,net,net+1,limit} (prague+) x pool pre-state (empty, exact fit, one over " +
			"in either dimension) x gas price{0,1,7}: stateTransition.settleGas on the real code vs. the EIP-3529/7623/8037 settlement arithmetic; " +
			"(B) every ordered sequence of 1..L transactions over 18-22 templates x fork{berlin,london,prague,osaka,amsterdam} x block gas limit " +
			"{30M, 2.05M, 1.03M} applied with ApplyMessage+MakeReceipt into one GasPool; distinct = distinct grid points / (fork, limit, sequence)")
		r.Bound("L_max_txs_per_block", maxLen)
		r.Assume("IntrinsicGas and FloorDataGas are taken from the implementation (checked by C35)")
		r.Assume("the refund counter is read from the StateDB after ApplyMessage (nothing modifies it after calcRefund)")
		c31SettleGrid(r)
		if r.Expired() {
			return
		}
		c31Sequences(r, maxLen)
	})
}
