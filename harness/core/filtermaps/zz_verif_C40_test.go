//go:build verif

package filtermaps

// C40 — log queries served through the log index return exactly the matching
// canonical logs at any indexing progress.
//
// The harness drives the real FilterMaps indexer (indexer.go, map_renderer.go,
// filtermaps.go), the real matcher backend and the real GetPotentialMatches on
// tiny Params, over a deterministic block tree with colliding addresses/topics.
// Operation histories (extend / reorg / roll back / restart with another history
// limit / move the history cutoff) are explored breadth first (mc.Explore). The
// complete query set is executed at every quiescent state and, through the
// package's testProcessEventsHook (called on the indexer goroutine at every
// event-loop turn), at every intermediate indexing progress.
//
// What is checked is the contract eth/filters relies on (searchSession):
//   sync1 (SyncLogIndex)  ->  GetPotentialMatches + false positive removal  ->  sync2
// and the matches inside  ValidBlocks(sync2)  (trimmed exactly like
// eth/filters.trimMatches) must equal a direct scan of the receipts of the
// indexed view's chain, in chain order and without duplicates. Everything
// outside ValidBlocks is "reported as not indexed" and carries no claim.
// All schedules are deterministic: queries execute atomically at a hook point
// (indexer goroutine) or at quiescence (indexer parked in its blocking select).

import (
	"context"
	"crypto/sha256"
	"encoding/binary"
	"errors"
	"fmt"
	"math/big"
	"os"
	"runtime/debug"
	"sort"
	"strings"
	"sync"
	"testing"
	"time"

	"github.com/ethereum/go-ethereum/common"
	"github.com/ethereum/go-ethereum/core/rawdb"
	"github.com/ethereum/go-ethereum/core/types"
	"github.com/ethereum/go-ethereum/internal/verif/mc"
	"github.com/ethereum/go-ethereum/log"
)

// ---------------------------------------------------------------------------
// deterministic block universe: a block is identified by its variant path
// ("abba" = heights 1..4 with variants a,b,b,a); content depends on (height,
// variant), the hash on the whole path.

type c40L struct {
	a int   // address index
	t []int // topic indices
}

var c40Addr = [2]common.Address{
	common.HexToAddress("0xa0a0a0a0a0a0a0a0a0a0a0a0a0a0a0a0a0a0a0a0"),
	common.HexToAddress("0xa1a1a1a1a1a1a1a1a1a1a1a1a1a1a1a1a1a1a1a1"),
}

var c40Topic = [2]common.Hash{
	common.HexToHash("0x7070707070707070707070707070707070707070707070707070707070707070"),
	common.HexToHash("0x7171717171717171717171717171717171717171717171717171717171717171"),
}

// transaction/log layout patterns (tx -> logs). They contain: empty blocks, txs
// without logs, logs with 0/1/2 topics, the same topic at both positions,
// identical consecutive logs, both addresses with shared topics.
var c40Pat = [6][][]c40L{
	{{{0, []int{0}}, {1, []int{0, 1}}}, {{0, []int{0, 1}}}},
	{},
	{{}, {{1, nil}, {1, []int{1, 0}}}},
	{{{0, []int{0, 0}}, {0, []int{0, 0}}}},
	{{{1, []int{1}}}, {{0, nil}, {0, []int{1, 1}}}},
	{{{0, []int{0, 1}}, {1, []int{0, 1}}}, {{1, []int{0}}, {0, []int{1, 0}}}},
}

type c40Blk struct {
	path     string
	block    *types.Block
	hash     common.Hash
	receipts types.Receipts
	logs     []*types.Log
}

var (
	c40Uni    sync.Map // path -> *c40Blk
	c40ByHash sync.Map // hash -> *c40Blk
)

func c40Block(path string) *c40Blk {
	if v, ok := c40Uni.Load(path); ok {
		return v.(*c40Blk)
	}
	h := &types.Header{
		Number:     big.NewInt(int64(len(path))),
		Difficulty: big.NewInt(1),
		GasLimit:   30_000_000,
		Time:       uint64(len(path)),
		Extra:      []byte("c40:" + path),
	}
	b := &c40Blk{path: path}
	if len(path) > 0 {
		h.ParentHash = c40Block(path[:len(path)-1]).hash
		height := len(path)
		pat := c40Pat[(height-1)%6]
		swap := 0
		if path[len(path)-1] == 'b' {
			pat = c40Pat[(height+1)%6]
			swap = 1
		}
		hash := h.Hash()
		var idx uint
		for ti, tx := range pat {
			rc := &types.Receipt{Status: 1, TransactionIndex: uint(ti), BlockNumber: big.NewInt(int64(height)), BlockHash: hash}
			binary.BigEndian.PutUint64(rc.TxHash[:8], uint64(height)<<8|uint64(ti))
			for _, l := range tx {
				lg := &types.Log{Address: c40Addr[l.a^swap], BlockNumber: uint64(height), BlockHash: hash, TxIndex: uint(ti), TxHash: rc.TxHash, Index: idx}
				for _, t := range l.t {
					lg.Topics = append(lg.Topics, c40Topic[t])
				}
				if lg.Topics == nil {
					lg.Topics = []common.Hash{}
				}
				idx++
				rc.Logs = append(rc.Logs, lg)
				b.logs = append(b.logs, lg)
			}
			b.receipts = append(b.receipts, rc)
		}
	}
	if b.receipts == nil {
		b.receipts = types.Receipts{}
	}
	b.block = types.NewBlockWithHeader(h)
	b.hash = b.block.Hash()
	v, _ := c40Uni.LoadOrStore(path, b)
	b = v.(*c40Blk)
	c40ByHash.LoadOrStore(b.hash, b)
	return b
}

// ---------------------------------------------------------------------------
// query set and reference scan

type c40Filter struct {
	addrs  []common.Address
	topics [][]common.Hash
	wild   bool
	desc   string
}

var c40Filters = func() []c40Filter {
	asets := [][]int{{}, {0}, {1}, {0, 1}}
	tsets := [][]int{{}, {0}, {1}, {0, 1}} // {} = wildcard position
	var tlists [][][]int
	tlists = append(tlists, nil)
	for _, p0 := range tsets {
		tlists = append(tlists, [][]int{p0})
	}
	for _, p0 := range tsets {
		for _, p1 := range tsets {
			tlists = append(tlists, [][]int{p0, p1})
		}
	}
	var out []c40Filter
	for _, as := range asets {
		for _, tl := range tlists {
			f := c40Filter{wild: len(as) == 0}
			for _, a := range as {
				f.addrs = append(f.addrs, c40Addr[a])
			}
			f.topics = [][]common.Hash{}
			for _, p := range tl {
				var pos []common.Hash
				for _, t := range p {
					pos = append(pos, c40Topic[t])
				}
				if len(p) > 0 {
					f.wild = false
				}
				f.topics = append(f.topics, pos)
			}
			f.desc = fmt.Sprintf("addr%v topics%v", as, tl)
			out = append(out, f)
		}
	}
	return out
}()

// c40Match is the reference filter predicate (JSON-RPC eth_getLogs semantics):
// address in the set (or set empty); the log has at least as many topics as
// the pattern has positions; every non-empty position contains the log's topic.
func c40Match(l *types.Log, f *c40Filter) bool {
	if len(f.addrs) > 0 {
		ok := false
		for _, a := range f.addrs {
			if a == l.Address {
				ok = true
			}
		}
		if !ok {
			return false
		}
	}
	if len(f.topics) > len(l.Topics) {
		return false
	}
	for i, pos := range f.topics {
		if len(pos) == 0 {
			continue
		}
		ok := false
		for _, t := range pos {
			if t == l.Topics[i] {
				ok = true
			}
		}
		if !ok {
			return false
		}
	}
	return true
}

// c40ChainInfo: direct scan of the canonical receipts of a chain (by path):
// match[filter][block] = matching logs of that block in order.
type c40ChainInfo struct {
	match [][][]*types.Log
}

var c40Infos sync.Map // path -> *c40ChainInfo

func c40Info(path string) *c40ChainInfo {
	if v, ok := c40Infos.Load(path); ok {
		return v.(*c40ChainInfo)
	}
	ci := &c40ChainInfo{match: make([][][]*types.Log, len(c40Filters))}
	for fi := range c40Filters {
		ci.match[fi] = make([][]*types.Log, len(path)+1)
		for b := 1; b <= len(path); b++ {
			for _, rc := range c40Block(path[:b]).receipts { // scan receipts in chain order
				for _, l := range rc.Logs {
					if c40Match(l, &c40Filters[fi]) {
						ci.match[fi][b] = append(ci.match[fi][b], l)
					}
				}
			}
		}
	}
	v, _ := c40Infos.LoadOrStore(path, ci)
	return v.(*c40ChainInfo)
}

func (ci *c40ChainInfo) scan(fi int, first, last uint64) []*types.Log {
	var out []*types.Log
	for b := first; b <= last && b < uint64(len(ci.match[fi])); b++ {
		out = append(out, ci.match[fi][b]...)
	}
	return out
}

// c40Trim mirrors eth/filters.(*searchSession).trimMatches.
func c40Trim(newRange, matchRange common.Range[uint64], matches []*types.Log) []*types.Log {
	if newRange == matchRange {
		return matches
	}
	if newRange.IsEmpty() {
		return nil
	}
	for len(matches) > 0 && matches[0].BlockNumber < newRange.First() {
		matches = matches[1:]
	}
	for len(matches) > 0 && matches[len(matches)-1].BlockNumber > newRange.Last() {
		matches = matches[:len(matches)-1]
	}
	return matches
}

func c40LogsStr(ls []*types.Log) string {
	var sb strings.Builder
	sb.WriteByte('[')
	for i, l := range ls {
		if i > 0 {
			sb.WriteByte(' ')
		}
		p := "?"
		if v, ok := c40ByHash.Load(l.BlockHash); ok {
			p = v.(*c40Blk).path
		}
		fmt.Fprintf(&sb, "%d(%s).%d", l.BlockNumber, p, l.Index)
	}
	sb.WriteByte(']')
	return sb.String()
}

// ---------------------------------------------------------------------------
// configuration and shared memo tables

type c40Cfg struct {
	name       string
	params     Params
	hashScheme bool
	maxLen     int
	initLen    int
	depth      int
	full       bool // full filter x range product (thorough tier)
	ops        []c40Op
	r          *mc.R

	evals    sync.Map // fingerprint -> *c40EvalSlot
	verdicts sync.Map // fingerprint|VB|IV -> *c40Verdict
}

type c40EvalSlot struct {
	once sync.Once
	e    *c40Eval
}

type c40Verdict struct {
	once sync.Once
	err  error
}

const (
	c40OutOfRange = uint16(1) << 15 // a returned log lies outside the requested range
	c40BlockMask  = uint16(0x3fff)
)

// c40Eval is the outcome of the complete query set on one index state,
// stored as a per-query difference against the scan of the state's indexed view.
type c40Eval struct {
	opath   string // path of the indexed view at observation time
	hasView bool
	head    uint64
	state   string
	queries []c40Q
	bad     []uint16 // per query: blocks (bit b) on which result != scan, bit 15: log outside range
	none    []uint16 // per query: blocks (bit b) of the range for which no log at all was returned
	// indexed range at query time
	headIndexed                         bool
	blocksCount                         uint64
	blocksLast                          uint64
	blocksFirst                         uint64
	firstBroken                         bool    // the first block of the indexed range starts before the first rendered map (c40KnownFirst)
	errc                                []uint8 // 0 ok, 1 ErrMatchAll, 2 other error
	raw                                 map[int][]*types.Log
	detail                              map[int]string
	nonEmpty, empty, matchAll, otherErr int64
}

type c40Q struct {
	fi          int
	first, last uint64
}

// c40Core: filters that are combined with every block range in the quick tier: each single value at each
// position (any rendering defect of a value shows), the two-address alternative and two sequence patterns.
var c40Core = func() []int {
	want := map[string]bool{
		"addr[0] topics[]": true, "addr[1] topics[]": true, "addr[0 1] topics[]": true,
		"addr[] topics[[0]]": true, "addr[] topics[[1]]": true, "addr[] topics[[] [0]]": true, "addr[] topics[[] [1]]": true,
		"addr[1] topics[[0 1] [1]]": true, "addr[0] topics[[0] [0 1]]": true,
	}
	var out []int
	for i, f := range c40Filters {
		if want[f.desc] {
			out = append(out, i)
		}
	}
	if len(out) != len(want) {
		panic("c40Core: filter descriptions changed")
	}
	return out
}()

// c40Queries is the query set for a view with the given head. full: every filter x every block range
// 0<=first<=last<=head+1. Otherwise: core filters x every range, plus every filter x {[0,head], [1,head+1], [2,head-1]}.
func c40Queries(head uint64, full bool) []c40Q {
	var out []c40Q
	core := map[int]bool{}
	for _, fi := range c40Core {
		core[fi] = true
	}
	for fi := range c40Filters {
		for first := uint64(0); first <= head+1; first++ {
			for last := first; last <= head+1; last++ {
				if full || core[fi] || (first == 0 && last == head) || (first == 1 && last == head+1) || (first == 2 && last+1 == head) {
					out = append(out, c40Q{fi, first, last})
				}
			}
		}
	}
	return out
}

type c40Kind int

const (
	c40Ext c40Kind = iota
	c40Reorg
	c40Back
	c40Hist
	c40Cut
)

type c40Op struct {
	name string
	kind c40Kind
	d, n int
}

func c40Ops(cuts []int, hists []int, few bool) []c40Op {
	ops := []c40Op{
		{"ext1", c40Ext, 0, 1}, {"ext2", c40Ext, 0, 2}, {"ext3", c40Ext, 0, 3},
		{"reorg1+1", c40Reorg, 1, 1}, {"reorg1+2", c40Reorg, 1, 2}, {"reorg2+2", c40Reorg, 2, 2}, {"reorg3+3", c40Reorg, 3, 3},
		{"back1", c40Back, 1, 0}, {"back2", c40Back, 2, 0},
	}
	if few {
		ops = []c40Op{{"ext1", c40Ext, 0, 1}, {"ext2", c40Ext, 0, 2}, {"reorg1+1", c40Reorg, 1, 1}, {"reorg2+2", c40Reorg, 2, 2}, {"back1", c40Back, 1, 0}}
	}
	for _, h := range hists {
		ops = append(ops, c40Op{fmt.Sprintf("hist%d", h), c40Hist, 0, h})
	}
	for _, c := range cuts {
		ops = append(ops, c40Op{fmt.Sprintf("cut%d", c), c40Cut, 0, c})
	}
	return ops
}

// ---------------------------------------------------------------------------
// the system under exploration

type c40Point struct {
	fp    [32]byte
	e     *c40Eval
	label string
}

type c40Sys struct {
	cfg     *c40Cfg
	ts      *testSetup
	fm      *FilterMaps
	path    string
	history uint64
	cutoff  uint64

	mbA, mbB         *FilterMapsMatcherBackend
	aSynced, bSynced bool
	// the sync that opened the running session reported its own cut-off block as indexed (see sync)
	aOpenCut, bOpenCut bool
	pendA, pendB       []c40Point

	opsDone []string
	// injection of a second target update at an intermediate indexing progress (hook point)
	caseDesc  any // replay descriptor of the enclosing r.Case (injection sweep), nil inside mc.Explore
	hookCount int
	injectOp  *c40Op
	injectAt  int
	injected  bool
	err       error
	npoints   int
	nlocked   int
	disabled  bool
	opLabel   string
}

func c40New(cfg *c40Cfg) *c40Sys {
	p := cfg.params
	p.deriveFields()
	s := &c40Sys{cfg: cfg}
	s.ts = &testSetup{db: rawdb.NewMemoryDatabase(), params: p, dbHashes: make(map[string]common.Hash)}
	s.ts.chain = s.ts.newTestChain()
	s.opLabel = "init"
	s.opsDone = []string{}
	s.setCanonical(strings.Repeat("a", cfg.initLen))
	s.start()
	s.quiesce()
	return s
}

// setCanonical installs the chain with the given path as canonical chain of the package's testChain.
func (s *c40Sys) setCanonical(path string) {
	tc := s.ts.chain
	tc.lock.Lock()
	tc.canonical = tc.canonical[:0]
	for i := 0; i <= len(path); i++ {
		b := c40Block(path[:i])
		tc.canonical = append(tc.canonical, b.hash)
		tc.blocks[b.hash] = b.block
		tc.receipts[b.hash] = b.receipts
	}
	tc.lock.Unlock()
	s.path = path
}

func (s *c40Sys) view() *ChainView {
	b := c40Block(s.path)
	return NewChainView(s.ts.chain, uint64(len(s.path)), b.hash)
}

func (s *c40Sys) start() {
	fm, err := NewFilterMaps(s.ts.db, s.view(), s.cutoff, 0, s.ts.params, Config{History: s.history, HashScheme: s.cfg.hashScheme})
	if err != nil {
		panic(err)
	}
	fm.testProcessEventsHook = s.hook
	s.fm = fm
	s.ts.fm = fm
	s.mbA, s.mbB = fm.NewMatcherBackend(), fm.NewMatcherBackend()
	s.aSynced, s.bSynced = false, false
	s.pendA, s.pendB = nil, nil
	s.disabled = false
	fm.Start()
}

func (s *c40Sys) stop() {
	if s.fm != nil {
		s.mbA.Close()
		s.mbB.Close()
		s.fm.Stop()
		s.fm = nil
	}
}

func (s *c40Sys) close() {
	s.stop()
	s.ts.db.Close()
}

// quiesce waits (by synchronisation) until the indexer is parked with the target head indexed
// and all tail work done, or has disabled itself; then observes the quiescent state.
func (s *c40Sys) quiesce() {
	s.fm.WaitIdle()
	select {
	case <-s.fm.disabledCh:
		s.disabled = true
	default:
	}
	s.observe(true)
}

// hook runs on the indexer goroutine inside processEvents.
func (s *c40Sys) hook() {
	if !s.fm.indexLock.TryRLock() {
		// the indexer itself holds the write lock (deleteTailEpoch's stop callback): a concurrent
		// query could not run here either.
		s.nlocked++
		return
	}
	s.fm.indexLock.RUnlock()
	s.hookCount++
	if s.injectOp != nil && !s.injected && s.hookCount == s.injectAt {
		// delivered after the observation of this point; the indexer picks it up in the processSingleEvent
		// call that follows the hook
		if s.enabledOp(*s.injectOp) {
			defer func() {
				s.injected = true
				s.opLabel += "~" + s.injectOp.name
				s.retarget(*s.injectOp)
			}()
		}
	}
	if s.err != nil {
		return
	}
	defer func() {
		// a panic of the query path must not take the indexer goroutine (and the test binary) down
		if p := recover(); p != nil {
			s.fail(fmt.Errorf("panic in the query path at hook point %s#%d on state {%s}: %v\n%s", s.opLabel, s.npoints, s.stateStr(), p, debug.Stack()))
		}
	}()
	s.observe(false)
}

func (s *c40Sys) replayDesc() any {
	if s.caseDesc != nil {
		return s.caseDesc
	}
	return map[string]any{"explore": "C40/" + s.cfg.name, "ops": append([]string{}, s.opsDone...)}
}

func (s *c40Sys) fail(err error) {
	if s.err == nil {
		s.err = err
	}
}

func c40PathOf(cv *ChainView) (string, bool) {
	if cv == nil {
		return "", false
	}
	v, ok := c40ByHash.Load(cv.BlockId(cv.HeadNumber()))
	if !ok {
		return "", false
	}
	return v.(*c40Blk).path, true
}

// warm touches, through the public matcher backend API, every pointer a query could touch, so that
// the (cached) state the queries see does not depend on which queries ran before (memoisation of
// query results per state stays deterministic) and stale cache entries have maximal exposure.
// It returns a non-empty description when a backend call panics (the state is then not queried any
// further: GetPotentialMatches would hit the same panic on one of its worker goroutines, which cannot
// be recovered and would take the process down).
func (s *c40Sys) warm(mb *FilterMapsMatcherBackend) (panicked string) {
	ctx := context.Background()
	for b := 0; b <= s.cfg.maxLen+2; b++ {
		mb.GetBlockLvPointer(ctx, uint64(b))
	}
	rng := s.fm.indexedRange
	if rng.initialized {
		for m := range rng.maps.Iter() {
			lv := uint64(m) << s.fm.logValuesPerMap
			func() {
				defer func() {
					if p := recover(); p != nil && panicked == "" {
						panicked = fmt.Sprintf("GetLogByLvIndex(%d) (first log value index of rendered map %d) panics: %v", lv, m, p)
					}
				}()
				mb.GetLogByLvIndex(ctx, lv)
			}()
		}
	}
	return panicked
}

func (s *c40Sys) fingerprint(full bool) [32]byte {
	f := s.fm
	h := sha256.New()
	var buf [8]byte
	w64 := func(v uint64) { binary.BigEndian.PutUint64(buf[:], v); h.Write(buf[:]) }
	wb := func(b bool) {
		if b {
			h.Write([]byte{1})
		} else {
			h.Write([]byte{0})
		}
	}
	rng := f.indexedRange
	wb(rng.initialized)
	wb(rng.headIndexed)
	w64(rng.headDelimiter)
	w64(uint64(rng.maps.First()))
	w64(uint64(rng.maps.Count()))
	w64(uint64(rng.tailPartialEpoch))
	w64(rng.blocks.First())
	w64(rng.blocks.Count())
	wb(f.hasTempRange)
	p, ok := c40PathOf(f.indexedView)
	wb(ok)
	h.Write([]byte(p))
	h.Write([]byte{0xff})
	it := s.ts.db.NewIterator(nil, nil)
	for it.Next() {
		w64(uint64(len(it.Key())))
		h.Write(it.Key())
		w64(uint64(len(it.Value())))
		h.Write(it.Value())
	}
	it.Release()
	// caches read by queries (sorted: order is irrelevant for reads)
	lk := f.lvPointerCache.Keys()
	sort.Slice(lk, func(i, j int) bool { return lk[i] < lk[j] })
	w64(uint64(len(lk)))
	for _, k := range lk {
		v, _ := f.lvPointerCache.Peek(k)
		w64(k)
		w64(v)
	}
	mk := f.lastBlockCache.Keys()
	sort.Slice(mk, func(i, j int) bool { return mk[i] < mk[j] })
	w64(uint64(len(mk)))
	for _, k := range mk {
		v, _ := f.lastBlockCache.Peek(k)
		w64(uint64(k))
		w64(v.number)
		h.Write(v.id[:])
	}
	if full {
		// everything else that steers the indexer's future behaviour
		w64(s.history)
		w64(s.cutoff)
		h.Write([]byte(s.path))
		w64(uint64(f.cleanedEpochsBefore))
		wb(f.tailRenderer != nil)
		wb(s.disabled)
		for _, k := range f.filterMapCache.Keys() { // LRU order matters (capacity 3)
			v, _ := f.filterMapCache.Peek(k)
			w64(uint64(k))
			for _, row := range v {
				w64(uint64(len(row)))
				for _, c := range row {
					w64(uint64(c))
				}
			}
		}
		h.Write([]byte{0xfe})
		for _, k := range f.renderSnapshots.Keys() {
			v, _ := f.renderSnapshots.Peek(k)
			w64(k)
			if v != nil {
				w64(uint64(v.mapIndex))
				w64(v.headDelimiter)
				h.Write(v.lastBlockId[:])
				for _, row := range v.filterMap {
					w64(uint64(len(row)))
					for _, c := range row {
						w64(uint64(c))
					}
				}
			}
		}
	}
	var out [32]byte
	h.Sum(out[:0])
	return out
}

func (s *c40Sys) stateStr() string {
	f := s.fm
	rng := f.indexedRange
	p, _ := c40PathOf(f.indexedView)
	return fmt.Sprintf("init=%v blocks=[%d,%d) maps=[%d,%d) tailPartial=%d headIndexed=%v delim=%d temp=%v view=%q hist=%d cutoff=%d target=%q",
		rng.initialized, rng.blocks.First(), rng.blocks.AfterLast(), rng.maps.First(), rng.maps.AfterLast(), rng.tailPartialEpoch,
		rng.headIndexed, rng.headDelimiter, f.hasTempRange, p, s.history, s.cutoff, s.path)
}

// firstBlockBroken: invariant of filterMapsRange - the first block of the fully indexed block range must begin at
// or after the first rendered map (otherwise its first log values are not in the index).
func (s *c40Sys) firstBlockBroken() bool {
	rng := s.fm.indexedRange
	if !rng.initialized || rng.blocks.IsEmpty() || rng.maps.IsEmpty() {
		return false
	}
	ptr, err := s.fm.getBlockLvPointer(rng.blocks.First())
	return err == nil && ptr < uint64(rng.maps.First())<<s.fm.logValuesPerMap
}

// runQueries executes the complete query set on the current index state through the real matcher.
func (s *c40Sys) runQueries() *c40Eval {
	f := s.fm
	e := &c40Eval{state: s.stateStr(), raw: map[int][]*types.Log{}, detail: map[int]string{}}
	e.opath, e.hasView = c40PathOf(f.indexedView)
	if !e.hasView {
		return e
	}
	e.head = uint64(len(e.opath))
	e.queries = c40Queries(e.head, s.cfg.full)
	nq := len(e.queries)
	e.bad = make([]uint16, nq)
	e.none = make([]uint16, nq)
	e.headIndexed = f.indexedRange.headIndexed
	e.blocksCount = f.indexedRange.blocks.Count()
	if e.blocksCount > 0 {
		e.blocksLast = f.indexedRange.blocks.Last()
		e.blocksFirst = f.indexedRange.blocks.First()
		e.firstBroken = s.firstBlockBroken()
	}
	e.errc = make([]uint8, nq)
	ci := c40Info(e.opath)
	mb := f.NewMatcherBackend()
	defer mb.Close()
	ctx := context.Background()
	{
		for q, qq := range e.queries {
			fi, rg := qq.fi, [2]uint64{qq.first, qq.last}
			flt := &c40Filters[fi]
			pot, err := GetPotentialMatches(ctx, mb, rg[0], rg[1], flt.addrs, flt.topics)
			if err != nil {
				if errors.Is(err, ErrMatchAll) {
					e.errc[q] = 1
					e.matchAll++
				} else {
					e.errc[q] = 2
					e.otherErr++
					if len(e.detail) < 4 {
						e.detail[q] = "error: " + err.Error()
					}
				}
				continue
			}
			// false positive removal (what eth/filters.filterLogs does) with the reference predicate
			var res []*types.Log
			for _, l := range pot {
				if l != nil && c40Match(l, flt) {
					res = append(res, l)
				}
			}
			if len(res) > 0 {
				e.nonEmpty++
			} else {
				e.empty++
			}
			sorted := true
			var bad, none uint16
			for i, l := range res {
				if i > 0 && l.BlockNumber < res[i-1].BlockNumber {
					sorted = false
				}
				if l.BlockNumber < rg[0] || l.BlockNumber > rg[1] {
					bad |= c40OutOfRange
				}
			}
			if !sorted {
				e.raw[q] = res
				continue
			}
			pos := 0
			for b := rg[0]; b <= rg[1] && b < 14; b++ {
				var exp []*types.Log
				if b < uint64(len(ci.match[fi])) {
					exp = ci.match[fi][b]
				}
				for pos < len(res) && res[pos].BlockNumber < b {
					pos++
				}
				st := pos
				for pos < len(res) && res[pos].BlockNumber == b {
					pos++
				}
				got := res[st:pos]
				if len(got) == 0 {
					none |= 1 << b
				}
				same := len(got) == len(exp)
				for i := 0; same && i < len(got); i++ {
					same = got[i] == exp[i]
				}
				if !same {
					bad |= 1 << b
				}
			}
			e.bad[q] = bad
			e.none[q] = none
			if bad != 0 && len(e.detail) < 64 {
				e.detail[q] = fmt.Sprintf("got %s, scan of view %q gives %s", c40LogsStr(res), e.opath, c40LogsStr(ci.scan(fi, rg[0], rg[1])))
			}
		}
	}
	s.cfg.r.Eval(int64(nq))
	return e
}

// observe records the query results on the current state and opens/closes matcher sessions.
func (s *c40Sys) observe(quiescent bool) {
	f := s.fm
	s.npoints++
	if f.indexedView == nil || s.disabled {
		// reset()/disabled index: nothing is served from the index (SyncLogIndex reports empty ranges).
		if quiescent {
			s.cfg.r.Outcome("quiescent:index-disabled-or-reset")
		}
		return
	}
	wmb := f.NewMatcherBackend()
	pmsg := s.warm(wmb)
	wmb.Close()
	if pmsg != "" {
		rng := f.indexedRange
		desc := fmt.Sprintf("%s; state {%s} reached by %v at %s#%d. Any GetPotentialMatches call that finds a potential match in that map "+
			"runs into the same panic on a matcher worker goroutine (process crash).", pmsg, s.stateStr(), s.opsDone, s.opLabel, s.npoints)
		replay := s.replayDesc()
		if rng.blocks.IsEmpty() && !rng.maps.IsEmpty() {
			// one stable key: rendered maps but an empty fully-indexed block range (the head block starts before the first rendered map)
			s.cfg.r.Violation("C40:query-path-panic:empty-indexed-block-range-with-rendered-maps", desc, replay)
			s.cfg.r.Outcome("state-not-queried:query-path-panics(empty block range)")
		} else {
			s.cfg.r.Violation(fmt.Sprintf("C40:query-path-panic:%s:%v", s.cfg.name, s.opsDone), desc, replay)
		}
		return
	}
	if s.firstBlockBroken() {
		s.cfg.r.Violation(c40KnownFirst, fmt.Sprintf("ops %v at %s#%d: indexed block range starts with a block whose first log values lie before the first rendered map: {%s}",
			s.opsDone, s.opLabel, s.npoints, s.stateStr()), s.replayDesc())
		s.cfg.r.Outcome("state:KNOWN first indexed block starts before the first rendered map")
	}
	fp := s.fingerprint(false)
	v, _ := s.cfg.evals.LoadOrStore(fp, &c40EvalSlot{})
	slot := v.(*c40EvalSlot)
	slot.once.Do(func() {
		n1, n2 := f.lvPointerCache.Len(), f.lastBlockCache.Len()
		slot.e = s.runQueries()
		if f.lvPointerCache.Len() != n1 || f.lastBlockCache.Len() != n2 {
			s.cfg.r.HarnessError("queries populated a cache beyond the warmed set: " + slot.e.state)
		}
		s.cfg.r.DistinctHash(binary.BigEndian.Uint64(fp[:8]))
		if quiescent {
			s.cfg.r.Outcome("distinct-index-states:quiescent")
		} else if f.hasTempRange {
			s.cfg.r.Outcome("distinct-index-states:intermediate-temp-range")
		} else {
			s.cfg.r.Outcome("distinct-index-states:intermediate")
		}
	})
	kind := "hook"
	if quiescent {
		kind = "quiescent"
	}
	if os.Getenv("C40_DEBUG") != "" {
		fmt.Printf("C40DBG %s#%d q=%v {%s}\n", s.opLabel, s.npoints, quiescent, s.stateStr())
		if os.Getenv("C40_DEBUG") == "2" {
			var sb strings.Builder
			for m := uint32(0); m < 20; m++ {
				if n, _, err := f.getLastBlockOfMap(m); err == nil {
					fmt.Fprintf(&sb, " m%d:%d", m, n)
				}
			}
			sb.WriteString(" |")
			for b := uint64(0); b < 12; b++ {
				if p, err := f.getBlockLvPointer(b); err == nil {
					fmt.Fprintf(&sb, " b%d:%d", b, p)
				}
			}
			fmt.Printf("C40DBG   lastBlockOfMap%s\n", sb.String())
		}
	}
	pt := c40Point{fp: fp, e: slot.e, label: fmt.Sprintf("%s#%d(%s)", s.opLabel, s.npoints, kind)}
	if s.aSynced {
		s.pendA = append(s.pendA, pt)
	}
	if s.bSynced {
		s.pendB = append(s.pendB, pt)
	}
	if !f.hasTempRange {
		// a pending SyncLogIndex request is served exactly here by the indexer (processSingleEvent)
		// (also while the head is not indexed: sessions START and END at every such point)
		if !f.indexedRange.headIndexed {
			s.cfg.r.Outcome("sync:served-while-head-not-indexed")
		}
		sr, cut1 := s.sync(s.mbA, quiescent)
		if s.aSynced {
			s.validate(s.pendA, sr, "A", s.aOpenCut || cut1)
		}
		sr2, cut2 := s.sync(s.mbA, quiescent) // session opened and closed on this very state: maximal claim
		s.validate([]c40Point{pt}, sr2, "A0", cut1 || cut2)
		s.aSynced, s.aOpenCut = true, cut2
		s.pendA = append(s.pendA[:0], pt)
	}
	if quiescent {
		sr, cut := s.sync(s.mbB, true)
		if s.bSynced {
			s.validate(s.pendB, sr, "B", s.bOpenCut || cut)
		}
		s.bSynced, s.bOpenCut = true, cut
		s.pendB = append(s.pendB[:0], pt)
	}
}

// sync performs SyncLogIndex: for real when the indexer is parked (main goroutine), and by serving the
// request the way processSingleEvent does when running on the indexer goroutine inside the hook.
//
// selfCut reports the reporting site of a later cut-off mismatch: the SyncRange was produced while the head
// was not indexed and its IndexedBlocks contains indexedRange.blocks.Last() of that very state, i.e. the block
// at whose start GetBlockLvPointer ends every search made on that state. (On the unchanged tree synced() trims
// that block, so selfCut is never true there.)
func (s *c40Sys) sync(mb *FilterMapsMatcherBackend, quiescent bool) (sr SyncRange, selfCut bool) {
	if quiescent {
		var err error
		if sr, err = mb.SyncLogIndex(context.Background()); err != nil {
			panic(err)
		}
	} else {
		ch := make(chan SyncRange, 1)
		s.fm.matchersLock.Lock()
		mb.syncCh = ch
		s.fm.matchersLock.Unlock()
		mb.synced()
		sr = <-ch
	}
	rng := s.fm.indexedRange // unchanged since the request was served: the indexer is parked / we are the indexer
	selfCut = rng.initialized && !rng.headIndexed && !rng.blocks.IsEmpty() && sr.IndexedBlocks.Includes(rng.blocks.Last())
	return sr, selfCut
}

func (s *c40Sys) validate(pts []c40Point, sr SyncRange, sess string, selfCut bool) {
	vb := sr.ValidBlocks
	ivp, ivok := c40PathOf(sr.IndexedView)
	for _, pt := range pts {
		key := fmt.Sprintf("%x|%d|%d|%v|%s|%v", pt.fp, vb.First(), vb.Count(), ivok, ivp, selfCut)
		v, _ := s.cfg.verdicts.LoadOrStore(key, &c40Verdict{})
		vd := v.(*c40Verdict)
		vd.once.Do(func() { vd.err = s.cfg.check(pt.e, vb, ivp, ivok, selfCut) })
		if vd.err != nil {
			err := fmt.Errorf("session %s closed at %s [sync: valid=[%d,%d) indexed=[%d,%d) view=%q], query executed at %s on state {%s}: %v",
				sess, s.stateStr(), vb.First(), vb.AfterLast(), sr.IndexedBlocks.First(), sr.IndexedBlocks.AfterLast(), ivp, pt.label, pt.e.state, vd.err)
			var kn *c40Known
			if errors.As(vd.err, &kn) {
				for i, k := range kn.keys {
					s.cfg.r.Violation(k, fmt.Sprintf("ops %v: session %s closed at %s [sync: valid=[%d,%d) indexed=[%d,%d) view=%q], query executed at %s on state {%s}: %s",
						s.opsDone, sess, s.stateStr(), vb.First(), vb.AfterLast(), sr.IndexedBlocks.First(), sr.IndexedBlocks.AfterLast(), ivp, pt.label, pt.e.state, kn.msgs[i]), s.replayDesc())
				}
				continue
			}
			s.fail(err)
			return
		}
	}
}

// Cut-off mismatches: while the head is not indexed, FilterMapsMatcherBackend.GetBlockLvPointer maps every block
// number >= indexedRange.blocks.AfterLast() to the pointer of blocks.Last() (the last FULLY indexed block), so every
// search made on such a state stops before that block. The key names the site that nevertheless reported the block:
//
// c40KnownCutOff (defect of the unchanged tree, registered in known_findings.json): no sync of the session reported
// the block from a state on which it was the cut-off block; it was reported indexed by an EARLIER sync (head indexed,
// or a longer range) and updateMatchersValidRange kept it in ValidBlocks across the temporary / shortened range
// (it intersects with the whole indexedRange.blocks, synced() trims blocks.Last()).
//
// c40CutOffSynced (not registered): a SyncRange produced by synced() while the head was not indexed contains the
// cut-off block of its own state, so any session started or finished there claims a block no search can reach.
const (
	c40CutOffBase   = "C40:last-fully-indexed-block-cut-off-but-reported-valid"
	c40KnownCutOff  = c40CutOffBase + ":valid-range-kept-by-updateMatchersValidRange"
	c40CutOffSynced = c40CutOffBase + ":range-reported-by-synced"
)

// c40KnownFirst: mapRenderer.getUpdatedRange/getTempRange call blocks.SetFirst(lastBlockOfMap(first-1)+1) and then
// blocks.SetAfterLast(lastBlock of the last written map); when a head render that restarted at a tail map boundary writes
// a first batch that still lies inside that boundary block, SetAfterLast(v<first) pulls `first` down to the boundary
// block, whose beginning lies in the unrendered map before maps.First(); later batches keep it.
const c40KnownFirst = "C40:first-indexed-block-starts-before-first-rendered-map"

type c40Known struct{ keys, msgs []string }

func (k *c40Known) Error() string { return strings.Join(k.msgs, " ;; ") }

// check compares, for every query, what the user would be given for the claimed-valid part of the range
// with the direct scan of the indexed view's receipts.
func (cfg *c40Cfg) check(e *c40Eval, vb common.Range[uint64], ivp string, ivok bool, selfCut bool) error {
	r := cfg.r
	if vb.IsEmpty() {
		r.Outcome("session:claims-nothing")
		return nil
	}
	if !e.hasView || !ivok {
		return fmt.Errorf("non-empty valid range without an identifiable indexed view")
	}
	last := vb.Last()
	if uint64(len(ivp)) < last || uint64(len(e.opath)) < last || ivp[:last] != e.opath[:last] {
		return fmt.Errorf("valid range [%d,%d] is not on the common prefix of the view at query time %q and the view at sync %q", vb.First(), last, e.opath, ivp)
	}
	if vb.First() == 0 && last == uint64(len(ivp)) {
		r.Outcome("session:claims-whole-chain")
	} else {
		r.Outcome("session:claims-part")
	}
	var mask uint16
	for b := vb.First(); b <= last && b < 14; b++ {
		mask |= 1 << b
	}
	ci := c40Info(ivp)
	var claimed, unclaimed, reported, cutoff, nFirst int64
	var cutoffExample, exFirst string
	for q := range e.bad {
		fi, rg := e.queries[q].fi, [2]uint64{e.queries[q].first, e.queries[q].last}
		qr := common.NewRange(rg[0], rg[1]+1-rg[0])
		nr := qr.Intersection(vb)
		if nr.IsEmpty() {
			unclaimed++
			continue
		}
		if e.errc[q] != 0 {
			reported++
			continue
		}
		claimed++
		desc := func() string {
			return fmt.Sprintf("filter {%s} blocks [%d,%d]", c40Filters[fi].desc, rg[0], rg[1])
		}
		if raw, ok := e.raw[q]; ok {
			got := c40Trim(nr, qr, raw)
			exp := ci.scan(fi, nr.First(), nr.Last())
			same := len(got) == len(exp)
			for i := 0; same && i < len(got); i++ {
				same = got[i] == exp[i]
			}
			if !same {
				return fmt.Errorf("%s: result not in chain order: %s; after trimming to the valid part [%d,%d]: %s, direct scan: %s",
					desc(), c40LogsStr(raw), nr.First(), nr.Last(), c40LogsStr(got), c40LogsStr(exp))
			}
			continue
		}
		if b := e.bad[q] & mask & c40BlockMask; b != 0 {
			// known root causes: counted here, reported once under stable keys
			var known uint16
			if !e.headIndexed && e.blocksCount > 0 && e.none[q]&(1<<e.blocksLast) != 0 {
				known |= 1 << e.blocksLast
			}
			if e.firstBroken {
				known |= 1 << e.blocksFirst
			}
			if b&^known == 0 {
				ex := fmt.Sprintf("%s: within the valid part [%d,%d] the result differs from the direct scan on blocks (bitmask) %#b; %s", desc(), nr.First(), nr.Last(), b, e.detail[q])
				if e.firstBroken && b&(1<<e.blocksFirst) != 0 {
					nFirst++
					if exFirst == "" {
						exFirst = ex
					}
				} else {
					cutoff++
					if cutoffExample == "" {
						cutoffExample = ex
					}
				}
				continue
			}
			return fmt.Errorf("%s: within the valid part [%d,%d] the result differs from the direct scan on blocks (bitmask) %#b; %s",
				desc(), nr.First(), nr.Last(), b, e.detail[q])
		}
		if e.bad[q]&c40OutOfRange != 0 && nr == qr {
			return fmt.Errorf("%s: result contains logs outside the requested range; %s", desc(), e.detail[q])
		}
	}
	if cutoff > 0 || nFirst > 0 {
		kn := &c40Known{}
		if cutoff > 0 && selfCut {
			r.OutcomeN("queries:last-indexed-block cut off although reported by synced() itself", cutoff)
			kn.keys, kn.msgs = append(kn.keys, c40CutOffSynced), append(kn.msgs, cutoffExample)
		} else if cutoff > 0 {
			r.OutcomeN("queries:KNOWN last-indexed-block cut off while kept valid by updateMatchersValidRange", cutoff)
			kn.keys, kn.msgs = append(kn.keys, c40KnownCutOff), append(kn.msgs, cutoffExample)
		}
		if nFirst > 0 {
			r.OutcomeN("queries:KNOWN first indexed block incomplete (starts before the first rendered map)", nFirst)
			kn.keys, kn.msgs = append(kn.keys, c40KnownFirst), append(kn.msgs, exFirst)
		}
		return kn
	}
	r.OutcomeN("queries:claimed-and-equal-to-scan", claimed)
	r.OutcomeN("queries:outside-valid-range(no claim)", unclaimed)
	r.OutcomeN("queries:error-reported", reported)
	return nil
}

// ---- mc.Sys

func (s *c40Sys) Enabled(op int) bool { return s.enabledOp(s.cfg.ops[op]) }

func (s *c40Sys) Apply(op int) error {
	if s.err != nil {
		return s.err
	}
	o := s.cfg.ops[op]
	s.opLabel = o.name
	s.opsDone = append(s.opsDone, o.name)
	s.hookCount = 0
	if o.kind == c40Hist {
		s.stop()
		s.history = uint64(o.n)
		s.start()
	} else {
		s.retarget(o)
	}
	s.quiesce()
	if s.err == nil && !s.disabled {
		// the quiescent index must describe the canonical chain
		if p, ok := c40PathOf(s.fm.indexedView); !ok || p != s.path {
			s.fail(fmt.Errorf("idle indexer's view %q is not the canonical chain %q", p, s.path))
		}
	}
	if s.disabled {
		s.cfg.r.Outcome("op-left-indexer-disabled")
		if os.Getenv("C40_DEBUG") != "" {
			fmt.Printf("C40DBG disabled after %v path=%q hist=%d cut=%d\n", s.opsDone, s.path, s.history, s.cutoff)
		}
	}
	return s.err
}

// retarget changes the canonical chain / history cutoff and hands the new target to the indexer. It is
// called from the main goroutine while the indexer is parked, or from the hook on the indexer goroutine
// (SetTarget never blocks).
func (s *c40Sys) retarget(o c40Op) {
	n := len(s.path)
	switch o.kind {
	case c40Ext:
		s.setCanonical(s.path + strings.Repeat("a", o.n))
	case c40Reorg:
		flip := byte('a')
		if s.path[n-o.d] == 'a' {
			flip = 'b'
		}
		s.setCanonical(s.path[:n-o.d] + string(flip) + strings.Repeat("a", o.n-1))
	case c40Back:
		s.setCanonical(s.path[:n-o.d])
	case c40Cut:
		s.cutoff = uint64(o.n)
	}
	s.fm.SetTarget(s.view(), s.cutoff, 0)
}

func (s *c40Sys) enabledOp(o c40Op) bool {
	n := len(s.path)
	switch o.kind {
	case c40Ext:
		return n+o.n <= s.cfg.maxLen
	case c40Reorg:
		return n-o.d >= 0 && n-o.d+o.n <= s.cfg.maxLen
	case c40Back:
		return n-o.d >= 1
	case c40Hist:
		return !s.disabled
	case c40Cut:
		return uint64(o.n) != s.cutoff && o.n <= n && !s.disabled
	}
	return false
}

func (s *c40Sys) Key() string {
	if s.fm == nil {
		return ""
	}
	if s.fm.indexedView == nil || s.disabled {
		return fmt.Sprintf("disabled|%s|%d|%d", s.path, s.history, s.cutoff)
	}
	fp := s.fingerprint(true)
	return string(fp[:])
}

// ---------------------------------------------------------------------------

// operations that can be delivered while the indexer is working. A target that is an ANCESTOR of the chain being
// rendered (plain roll back) is not delivered mid-rendering: on the unchanged tree the log iterator then walks past
// the new head (logIterator.next -> ChainView.RawReceipts panics "invalid block number" on the indexer goroutine,
// which cannot be recovered); reported separately, see the check's level_note.
var c40InjOps = map[string]c40Op{
	"reorg1+1": {"reorg1+1", c40Reorg, 1, 1},
	"reorg2+1": {"reorg2+1", c40Reorg, 2, 1},
	"reorg2+2": {"reorg2+2", c40Reorg, 2, 2},
	"ext1":     {"ext1", c40Ext, 0, 1},
	"cut2":     {"cut2", c40Cut, 0, 2},
	"cut4":     {"cut4", c40Cut, 0, 4},
}

// c40InjectSweep: for base histories x first operation X x second operation Y, Y's target update is delivered
// at EVERY intermediate indexing progress k (hook point) of X's transition instead of after it.
func c40InjectSweep(r *mc.R, cfg *c40Cfg, bases [][]string, xs, ys []string) {
	opIdx := func(name string) int {
		for i, o := range cfg.ops {
			if o.name == name {
				return i
			}
		}
		return -1
	}
	type icase struct {
		Inject string   `json:"inject"`
		Base   []string `json:"base"`
		X      string   `json:"x"`
		Y      string   `json:"y"`
		K      int      `json:"k"`
	}
	prep := func(base []string, x string) (*c40Sys, error) {
		s := c40New(cfg)
		for _, b := range base {
			i := opIdx(b)
			if i < 0 || !s.Enabled(i) {
				s.close()
				return nil, nil
			}
			if err := s.Apply(i); err != nil {
				s.close()
				return nil, err
			}
		}
		if i := opIdx(x); i < 0 || !s.Enabled(i) {
			s.close()
			return nil, nil
		}
		return s, nil
	}
	// pass 1: number of hook points of X alone after each base
	type bx struct {
		base []string
		x    string
		n    int
	}
	var bxs []bx
	for _, b := range bases {
		for _, x := range xs {
			bxs = append(bxs, bx{b, x, 0})
		}
	}
	r.Parallel(len(bxs), func(i int) {
		s, err := prep(bxs[i].base, bxs[i].x)
		if s == nil {
			_ = err // a failing base history is reported by the exploration itself
			return
		}
		defer s.close()
		if s.Apply(opIdx(bxs[i].x)) == nil {
			bxs[i].n = s.hookCount
		}
	})
	var cases []icase
	for _, e := range bxs {
		for _, y := range ys {
			if _, ok := c40InjOps[y]; !ok {
				panic("unknown injected op " + y)
			}
			for k := 1; k <= e.n; k++ {
				cases = append(cases, icase{"C40/" + cfg.name, e.base, e.x, y, k})
			}
		}
	}
	r.Bound(cfg.name+".inject_cases", len(cases))
	var fired, skipped atomicCounter
	r.Parallel(len(cases), func(i int) {
		c := cases[i]
		r.Case(c, func() error {
			if os.Getenv("C40_DEBUG_BACK") != "" {
				fmt.Printf("C40DBG inject case %+v\n", c)
			}
			s, err := prep(c.Base, c.X)
			if s == nil {
				return err
			}
			defer s.close()
			y := c40InjOps[c.Y]
			s.injectOp, s.injectAt = &y, c.K
			s.caseDesc = c
			// Y must be applicable to the chain X produces; checked when it fires
			err = s.Apply(opIdx(c.X))
			if s.injected {
				fired.add(1)
			} else {
				skipped.add(1)
			}
			return err
		})
	})
	r.OutcomeN("inject:second-target-delivered-mid-indexing", fired.get())
	r.OutcomeN("inject:not-delivered(second op not applicable)", skipped.get())
}

type atomicCounter struct {
	mu sync.Mutex
	n  int64
}

func (a *atomicCounter) add(d int64) { a.mu.Lock(); a.n += d; a.mu.Unlock() }
func (a *atomicCounter) get() int64  { a.mu.Lock(); defer a.mu.Unlock(); return a.n }

var c40Tiny = Params{
	logMapHeight:       1, // 2 rows
	logMapWidth:        8, // 6 hash bits per column: frequent false positives
	logMapsPerEpoch:    1, // 2 maps per epoch
	logValuesPerMap:    2, // 4 log values per map: an epoch is about one block
	baseRowGroupSize:   2,
	baseRowLengthRatio: 1, // base row length 2, layer 1: 4
	logLayerDiff:       1,
}

var c40Mid = Params{
	logMapHeight:       1,  // 2 rows
	logMapWidth:        16, // 13 hash bits
	logMapsPerEpoch:    2,  // 4 maps per epoch, 2 base row groups per epoch
	logValuesPerMap:    3,  // 8 log values per map: an epoch is 3-4 blocks
	baseRowGroupSize:   2,
	baseRowLengthRatio: 1, // base row length 4, layer 1: 8, layer 2: 16
	logLayerDiff:       1,
}

func c40Run(t *testing.T, scaled bool) {
	mc.Run(t, "C40", func(r *mc.R) {
		if os.Getenv("C40_DEBUG") != "" {
			log.SetDefault(log.NewLogger(log.NewTerminalHandlerWithLevel(os.Stdout, log.LevelWarn, false)))
		}
		if scaled != (valuesPerCallback < 1024) {
			r.HarnessError(fmt.Sprintf("build does not match the step: valuesPerCallback=%d rowsPerBatch=%d maxMapsPerBatch=%d", valuesPerCallback, rowsPerBatch, maxMapsPerBatch))
			return
		}
		r.Rule("breadth-first exploration of operation histories {extend 1-3, reorg depth 1-3, roll back 1-2, restart with history limit h, move history cutoff c} " +
			"on the real indexer over a deterministic block tree (2 addresses x 2 topics, 0-2 topics per log, empty blocks, duplicate logs) with tiny Params; " +
			"at every quiescent state and at every testProcessEventsHook call (intermediate indexing progress) the complete query set " +
			"runs through the real matcher (thorough: 4 address sets x 21 topic patterns x all block ranges 0<=first<=last<=head+1; quick: 9 core filters x all block ranges + all 84 filters x 3 ranges); " +
			"a state is de-duplicated on database content + indexed range + view + caches; distinct = distinct index states on which the query set was executed")
		r.Assume("reference = direct scan of the receipts of the indexed view's chain with a predicate transcribed from the eth_getLogs filter semantics")
		r.Assume("a query executes atomically at a hook point or at quiescence; SyncLogIndex requests are served at hook points exactly where processSingleEvent would serve them (no temporary range); " +
			"lock-free readers racing with a half-written batch are not explored")
		r.Assume("what is compared is what eth/filters hands out: matches trimmed (trimMatches semantics) to ValidBlocks of the closing sync; blocks outside ValidBlocks carry no claim; returned errors count as 'reported'")
		r.Assume("Params keep baseRowGroupSize <= mapsPerEpoch (as DefaultParams and the package's testParams do)")
		r.Bound("valuesPerCallback", valuesPerCallback)
		r.Bound("rowsPerBatch", rowsPerBatch)
		r.Bound("maxMapsPerBatch", maxMapsPerBatch)
		r.Bound("filters", len(c40Filters))

		type plan struct {
			name       string
			p          Params
			hashScheme bool
			maxLen     int
			initLen    int
			depth      int
			hists      []int
			cuts       []int
			fewOps     bool // quick tier of the scaled build: 5 chain operations + restarts/cutoffs
			injBases   [][]string
			injX, injY []string
		}
		var plans []plan
		q := r.Quick()
		if scaled {
			plans = []plan{
				{"scaled-tiny", c40Tiny, false, mc.Pick(r, 6, 10), 3, mc.Pick(r, 2, 3), mc.Pick(r, []int{0, 1}, []int{0, 1, 3}), mc.Pick(r, []int{2}, []int{0, 2, 5}), q,
					mc.Pick(r, [][]string{{}}, [][]string{{}, {"hist1"}}), mc.Pick(r, []string{"ext2"}, []string{"ext2", "reorg2+2"}), mc.Pick(r, []string{"reorg1+1", "reorg2+1"}, []string{"reorg1+1", "reorg2+1", "ext1"})},
				{"scaled-mid", c40Mid, true, mc.Pick(r, 7, 10), 3, mc.Pick(r, 2, 3), mc.Pick(r, []int{0, 2}, []int{0, 2, 5}), mc.Pick(r, []int{4}, []int{0, 4}), q,
					mc.Pick(r, [][]string{{}}, [][]string{{}, {"hist2"}}), mc.Pick(r, []string{"ext2"}, []string{"ext2", "reorg2+2"}), mc.Pick(r, []string{"reorg1+1"}, []string{"reorg1+1", "reorg2+1", "ext1"})},
			}
		} else {
			plans = []plan{
				{"tiny", c40Tiny, false, mc.Pick(r, 8, 12), 3, mc.Pick(r, 3, 4), []int{0, 1, 3}, []int{0, 2, 5}, false,
					[][]string{{}, {"hist1"}, {"hist3"}, {"cut2"}, {"ext3", "hist1"}}, []string{"ext2", "ext3", "reorg2+2"}, []string{"reorg1+1", "reorg2+1", "ext1", "cut2"}},
				{"mid", c40Mid, true, mc.Pick(r, 8, 12), 4, mc.Pick(r, 3, 4), []int{0, 2, 5}, []int{0, 4}, false,
					[][]string{{}, {"hist2"}, {"cut4"}, {"ext3", "hist2"}}, []string{"ext2", "ext3", "reorg2+2"}, []string{"reorg1+1", "reorg2+1", "ext1", "cut4"}},
				{"pkg-testParams", testParams, false, mc.Pick(r, 8, 12), 3, mc.Pick(r, 2, 3), []int{0, 3}, []int{0, 2}, false, nil, nil, nil},
			}
		}
		for _, pl := range plans {
			if r.Expired() {
				break
			}
			if only := os.Getenv("C40_ONLY"); only != "" && only != pl.name { // debugging aid
				continue
			}
			if dd := os.Getenv("C40_DEPTH"); dd != "" { // debugging aid
				fmt.Sscan(dd, &pl.depth)
			}
			if os.Getenv("C40_DEBUG_BACK") != "" { // debugging aid: deliver plain roll backs mid-rendering (crashes the unchanged indexer)
				c40InjOps["back1"] = c40Op{"back1", c40Back, 1, 0}
				pl.injY = []string{"back1"}
			}
			cfg := &c40Cfg{full: r.Thorough(), name: pl.name, params: pl.p, hashScheme: pl.hashScheme, maxLen: pl.maxLen, initLen: pl.initLen, depth: pl.depth, ops: c40Ops(pl.cuts, pl.hists, pl.fewOps), r: r}
			r.Bound(pl.name+".max_chain_length", pl.maxLen)
			var names []string
			for _, o := range cfg.ops {
				names = append(names, o.name)
			}
			t0 := time.Now()
			r.Explore(mc.Config{
				Name:  "C40/" + pl.name,
				Ops:   names,
				Depth: pl.depth,
				New:   func() mc.Sys { return c40New(cfg) },
				Close: func(s mc.Sys) { s.(*c40Sys).close() },
			})
			if len(pl.injBases) > 0 && !r.Expired() {
				c40InjectSweep(r, cfg, pl.injBases, pl.injX, pl.injY)
			}
			r.Bound(pl.name+".wall_s", fmt.Sprintf("%.1f", time.Since(t0).Seconds()))
		}
	})
}

func TestVerif_C40(t *testing.T)        { c40Run(t, false) }
func TestVerif_C40_Scaled(t *testing.T) { c40Run(t, true) }
