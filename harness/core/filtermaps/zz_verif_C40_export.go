//go:build verif

package filtermaps

import "fmt"

// Exported handles for the eth/filters part of check C40 (overlaid by /verif/run.py only; build tag verif).
// Params has unexported fields only, so a harness outside this package cannot build small parameter sets itself.

// VerifC40Tiny: 2 rows, 6 hash bits per column, 2 maps per epoch, 4 log values per map.
var VerifC40Tiny = Params{
	logMapHeight:       1,
	logMapWidth:        8,
	logMapsPerEpoch:    1,
	logValuesPerMap:    2,
	baseRowGroupSize:   2,
	baseRowLengthRatio: 1,
	logLayerDiff:       1,
}

// VerifC40Mid: 2 rows, 13 hash bits, 4 maps per epoch, 8 log values per map.
var VerifC40Mid = Params{
	logMapHeight:       1,
	logMapWidth:        16,
	logMapsPerEpoch:    2,
	logValuesPerMap:    3,
	baseRowGroupSize:   2,
	baseRowLengthRatio: 1,
	logLayerDiff:       1,
}

// VerifC40State describes the indexed range; only to be called while the indexer is parked (after WaitIdle).
func (f *FilterMaps) VerifC40State() string {
	rng := f.indexedRange
	dis := false
	select {
	case <-f.disabledCh:
		dis = true
	default:
	}
	return fmt.Sprintf("init=%v blocks=[%d,%d) maps=[%d,%d) tailPartial=%d headIndexed=%v delim=%d disabled=%v",
		rng.initialized, rng.blocks.First(), rng.blocks.AfterLast(), rng.maps.First(), rng.maps.AfterLast(), rng.tailPartialEpoch, rng.headIndexed, rng.headDelimiter, dis)
}
