//go:build verif

package rlp

import (
	"bytes"
	"encoding/hex"
	"errors"
	"fmt"
	"io"
	"math/big"
	"reflect"
	"sort"
	"strconv"
	"strings"
	"testing"

	"github.com/ethereum/go-ethereum/internal/verif/mc"
	"github.com/holiman/uint256"
)

// ---------------------------------------------------------------------------------------------
// Reference: canonical RLP, transcribed from the specification (Yellow Paper appendix B):
//   byte < 0x80                      -> the byte is its own encoding
//   string of 0..55 bytes            -> 0x80+len, bytes          (a single byte < 0x80 must NOT use this form)
//   string of >55 bytes              -> 0xb7+len(BE(len)), BE(len), bytes   (BE minimal: no leading zero)
//   list with payload 0..55 bytes    -> 0xc0+len, items
//   list with payload >55 bytes      -> 0xf7+len(BE(len)), BE(len), items
//   integers                         -> big-endian byte string without leading zero bytes (0 = empty string)
// Nothing below calls into the decoder/encoder under test.

const (
	c01OK    = iota
	c01Trunc // input ends before the item does
	c01Canon // size information is not canonical
)

// c01Head parses the header of the first item in b: list or string, header length, payload length.
func c01Head(b []byte) (list bool, hdr, n, st int) {
	if len(b) == 0 {
		return false, 0, 0, c01Trunc
	}
	t := b[0]
	ll := 0
	switch {
	case t < 0x80:
		return false, 0, 1, c01OK
	case t <= 0xb7:
		hdr, n = 1, int(t-0x80)
	case t <= 0xbf:
		ll = int(t - 0xb7)
	case t <= 0xf7:
		list, hdr, n = true, 1, int(t-0xc0)
	default:
		list, ll = true, int(t-0xf7)
	}
	if ll > 0 {
		if len(b) < 1+ll {
			return list, 0, 0, c01Trunc
		}
		if b[1] == 0 {
			return list, 0, 0, c01Canon // leading zero in the length
		}
		var size uint64
		for _, x := range b[1 : 1+ll] {
			size = size<<8 | uint64(x)
		}
		if size < 56 {
			return list, 0, 0, c01Canon // short form was required
		}
		hdr = 1 + ll
		if size > uint64(len(b)) {
			return list, 0, 0, c01Trunc
		}
		n = int(size)
	}
	if n > len(b)-hdr {
		return list, 0, 0, c01Trunc
	}
	return list, hdr, n, c01OK
}

// c01Wrapped reports the "single byte < 0x80 wrapped as a one-byte string" violation.
func c01Wrapped(b []byte, list bool, hdr, n int) bool {
	return !list && hdr == 1 && n == 1 && b[1] < 0x80
}

type c01S1 struct {
	A uint64
	B []byte
}
type c01S2 struct {
	A []uint64
	B struct{ C bool }
}
type c01S3 struct {
	P *uint64
	Q big.Int
	R uint256.Int
	S [2]uint16
}

var (
	c01tRaw     = reflect.TypeOf(RawValue{})
	c01tBigPtr  = reflect.TypeOf((*big.Int)(nil))
	c01tBig     = reflect.TypeOf(big.Int{})
	c01tU256Ptr = reflect.TypeOf((*uint256.Int)(nil))
	c01tU256    = reflect.TypeOf(uint256.Int{})
	c01tRawList = reflect.TypeOf(RawList[uint64]{})
	c01tAny     = reflect.TypeOf((*any)(nil)).Elem()

	c01Types = []reflect.Type{
		reflect.TypeOf(uint8(0)), reflect.TypeOf(uint16(0)), reflect.TypeOf(uint32(0)), reflect.TypeOf(uint64(0)),
		reflect.TypeOf(false), c01tBigPtr, c01tU256Ptr,
		reflect.TypeOf([]byte{}), reflect.TypeOf([1]byte{}), reflect.TypeOf([2]byte{}), reflect.TypeOf(""),
		reflect.TypeOf([]uint64{}), reflect.TypeOf([][]byte{}),
		reflect.TypeOf(c01S1{}), reflect.TypeOf(c01S2{}), reflect.TypeOf(c01S3{}),
		c01tRaw, reflect.TypeOf([][]RawValue{}), c01tAny, c01tRawList,
	}
)

var c01AccKey, c01RejKey = map[reflect.Type]string{}, map[reflect.Type]string{}

func init() {
	for _, t := range c01Types {
		c01AccKey[t] = t.String() + ":accept"
		c01RejKey[t] = t.String() + ":reject"
	}
}

func c01IsUint(k reflect.Kind) bool { return k >= reflect.Uint && k <= reflect.Uintptr }

// c01Ref is the reference typed decoder: it decides from the specification whether the first item of b
// is an acceptable canonical encoding of a value of Go type t (per the mapping documented in rlp/doc.go) and
// returns a normal form of the value and the number of bytes used.
func c01Ref(t reflect.Type, b []byte) (nf string, used int, ok bool) {
	list, hdr, n, st := c01Head(b)
	if st != c01OK {
		return "", 0, false
	}
	used = hdr + n
	p := b[hdr:used]
	if t == c01tRaw { // RawValue: only the outer size information is validated (documented)
		return "r" + hex.EncodeToString(b[:used]), used, true
	}
	if c01Wrapped(b, list, hdr, n) {
		return "", 0, false
	}
	integer := func(maxBytes int) (string, int, bool) {
		if list || (maxBytes > 0 && n > maxBytes) || (n > 0 && p[0] == 0) {
			return "", 0, false
		}
		return new(big.Int).SetBytes(p).String(), used, true
	}
	items := func(elem func(i int) reflect.Type, exact int, open, close string) (string, int, bool) {
		if !list {
			return "", 0, false
		}
		var parts []string
		for off := 0; off < len(p); {
			et := elem(len(parts))
			if et == nil {
				return "", 0, false // more items than the type has room for
			}
			s, u, ok := c01Ref(et, p[off:])
			if !ok {
				return "", 0, false
			}
			parts = append(parts, s)
			off += u
		}
		if exact >= 0 && len(parts) != exact {
			return "", 0, false
		}
		return open + strings.Join(parts, ",") + close, used, true
	}
	switch t {
	case c01tBigPtr, c01tBig:
		return integer(0)
	case c01tU256Ptr, c01tU256:
		return integer(32)
	case c01tRawList: // list whose items are only checked for canonical size information, not recursively
		if !list {
			return "", 0, false
		}
		cnt := 0
		for off := 0; off < len(p); cnt++ {
			l2, h2, n2, st2 := c01Head(p[off:])
			if st2 != c01OK || c01Wrapped(p[off:], l2, h2, n2) {
				return "", 0, false
			}
			off += h2 + n2
		}
		return fmt.Sprintf("R%d:%x", cnt, p), used, true
	}
	switch k := t.Kind(); {
	case c01IsUint(k):
		return integer(t.Bits() / 8)
	case k == reflect.Bool:
		s, _, ok := integer(1)
		if !ok || (s != "0" && s != "1") {
			return "", 0, false
		}
		return strconv.FormatBool(s == "1"), used, true
	case k == reflect.String:
		return "x" + hex.EncodeToString(p), used, !list
	case k == reflect.Pointer:
		return c01Ref(t.Elem(), b)
	case k == reflect.Interface:
		if !list {
			return "x" + hex.EncodeToString(p), used, true
		}
		return items(func(int) reflect.Type { return t }, -1, "[", "]")
	case (k == reflect.Slice || k == reflect.Array) && t.Elem().Kind() == reflect.Uint8:
		if list || (k == reflect.Array && n != t.Len()) {
			return "", 0, false
		}
		return "x" + hex.EncodeToString(p), used, true
	case k == reflect.Slice:
		return items(func(int) reflect.Type { return t.Elem() }, -1, "[", "]")
	case k == reflect.Array:
		return items(func(i int) reflect.Type {
			if i >= t.Len() {
				return nil
			}
			return t.Elem()
		}, t.Len(), "[", "]")
	case k == reflect.Struct:
		return items(func(i int) reflect.Type {
			if i >= t.NumField() {
				return nil
			}
			return t.Field(i).Type
		}, t.NumField(), "{", "}")
	}
	panic("c01Ref: unsupported type " + t.String())
}

// c01NF is the normal form of a Go value (same format as c01Ref produces).
func c01NF(v reflect.Value) string {
	t := v.Type()
	switch t {
	case c01tRaw:
		return "r" + hex.EncodeToString(v.Bytes())
	case c01tBigPtr:
		return v.Interface().(*big.Int).String()
	case c01tBig:
		x := v.Interface().(big.Int)
		return x.String()
	case c01tU256Ptr:
		return v.Interface().(*uint256.Int).Dec()
	case c01tU256:
		x := v.Interface().(uint256.Int)
		return x.Dec()
	case c01tRawList:
		x := v.Interface().(RawList[uint64])
		return fmt.Sprintf("R%d:%x", x.Len(), x.Content())
	}
	seq := func(n int, at func(i int) reflect.Value, open, close string) string {
		parts := make([]string, n)
		for i := range parts {
			parts[i] = c01NF(at(i))
		}
		return open + strings.Join(parts, ",") + close
	}
	switch k := t.Kind(); {
	case c01IsUint(k):
		return strconv.FormatUint(v.Uint(), 10)
	case k == reflect.Bool:
		return strconv.FormatBool(v.Bool())
	case k == reflect.String:
		return "x" + hex.EncodeToString([]byte(v.String()))
	case k == reflect.Pointer, k == reflect.Interface:
		return c01NF(v.Elem())
	case (k == reflect.Slice || k == reflect.Array) && t.Elem().Kind() == reflect.Uint8:
		bs := make([]byte, v.Len())
		for i := range bs {
			bs[i] = byte(v.Index(i).Uint())
		}
		return "x" + hex.EncodeToString(bs)
	case k == reflect.Slice, k == reflect.Array:
		return seq(v.Len(), v.Index, "[", "]")
	case k == reflect.Struct:
		return seq(v.NumField(), v.Field, "{", "}")
	}
	panic("c01NF: unsupported type " + t.String())
}

func c01MinBE(x uint64) []byte {
	var out []byte
	for ; x > 0; x >>= 8 {
		out = append([]byte{byte(x)}, out...)
	}
	return out
}

func c01EncHead(base byte, n int) []byte {
	if n < 56 {
		return []byte{base + byte(n)}
	}
	be := c01MinBE(uint64(n))
	return append([]byte{base + 55 + byte(len(be))}, be...)
}

func c01EncStr(p []byte) []byte {
	if len(p) == 1 && p[0] < 0x80 {
		return []byte{p[0]}
	}
	return append(c01EncHead(0x80, len(p)), p...)
}

// c01RefEnc is the reference encoder (specification transcription), driven by the Go value.
func c01RefEnc(v reflect.Value) []byte {
	t := v.Type()
	switch t {
	case c01tRaw:
		return append([]byte{}, v.Bytes()...)
	case c01tBigPtr:
		return c01EncStr(v.Interface().(*big.Int).Bytes())
	case c01tBig:
		x := v.Interface().(big.Int)
		return c01EncStr(x.Bytes())
	case c01tU256Ptr:
		return c01EncStr(v.Interface().(*uint256.Int).ToBig().Bytes())
	case c01tU256:
		x := v.Interface().(uint256.Int)
		return c01EncStr(x.ToBig().Bytes())
	case c01tRawList:
		x := v.Interface().(RawList[uint64])
		return append(c01EncHead(0xc0, len(x.Content())), x.Content()...)
	}
	seq := func(n int, at func(i int) reflect.Value) []byte {
		var payload []byte
		for i := 0; i < n; i++ {
			payload = append(payload, c01RefEnc(at(i))...)
		}
		return append(c01EncHead(0xc0, len(payload)), payload...)
	}
	switch k := t.Kind(); {
	case c01IsUint(k):
		return c01EncStr(c01MinBE(v.Uint()))
	case k == reflect.Bool:
		if v.Bool() {
			return []byte{0x01}
		}
		return []byte{0x80}
	case k == reflect.String:
		return c01EncStr([]byte(v.String()))
	case k == reflect.Pointer, k == reflect.Interface:
		return c01RefEnc(v.Elem())
	case (k == reflect.Slice || k == reflect.Array) && t.Elem().Kind() == reflect.Uint8:
		bs := make([]byte, v.Len())
		for i := range bs {
			bs[i] = byte(v.Index(i).Uint())
		}
		return c01EncStr(bs)
	case k == reflect.Slice, k == reflect.Array:
		return seq(v.Len(), v.Index)
	case k == reflect.Struct:
		return seq(v.NumField(), v.Field)
	}
	panic("c01RefEnc: unsupported type " + t.String())
}

// ---------------------------------------------------------------------------------------------
// Oracles on the real code.

type c01Stats struct {
	out    map[string]int64
	decode int64
}

func (s *c01Stats) add(k string) { s.out[k]++ }

func (s *c01Stats) flush(r *mc.R) {
	keys := make([]string, 0, len(s.out))
	for k := range s.out {
		keys = append(keys, k)
	}
	sort.Strings(keys)
	for _, k := range keys {
		r.OutcomeN(k, s.out[k])
	}
	r.OutcomeN("typed_decodes", s.decode)
}

// c01CheckTyped: DecodeBytes(in, *T) accepts exactly when the reference says `in` is one canonical item of type
// T; on accept the value equals the reference value, EncodeToBytes gives back `in` bit-for-bit, and so does the
// reference encoder applied to the decoded value.
func c01CheckTyped(r *mc.R, st *c01Stats, in []byte, t reflect.Type) error {
	nf, used, ok := c01Ref(t, in)
	want := ok && used == len(in)
	p := reflect.New(t)
	err := DecodeBytes(in, p.Interface())
	st.decode++
	if (err == nil) != want {
		return fmt.Errorf("DecodeBytes(%x, *%v): err=%v, but the reference says canonical=%v", in, t, err, want)
	}
	if err != nil {
		st.add(c01RejKey[t])
		return nil
	}
	st.add(c01AccKey[t])
	if got := c01NF(p.Elem()); got != nf {
		return fmt.Errorf("DecodeBytes(%x, *%v) = %s, reference value %s", in, t, got, nf)
	}
	re, err := EncodeToBytes(p.Elem().Interface())
	if err != nil || !bytes.Equal(re, in) {
		return fmt.Errorf("accepted %x as %v (=%s) but it re-encodes to %x (err=%v)", in, t, nf, re, err)
	}
	if ref := c01RefEnc(p.Elem()); !bytes.Equal(ref, in) {
		return fmt.Errorf("accepted %x as %v (=%s) but the canonical encoding of that value is %x", in, t, nf, ref)
	}
	r.DistinctHash(mc.Hash64(t.String() + "|" + nf))
	return nil
}

func c01Class(err error) string {
	switch {
	case err == nil:
		return "ok"
	case errors.Is(err, ErrCanonSize), errors.Is(err, ErrCanonInt):
		return "noncanonical"
	case errors.Is(err, io.EOF), errors.Is(err, io.ErrUnexpectedEOF), errors.Is(err, ErrValueTooLarge), errors.Is(err, ErrElemTooLarge):
		return "truncated"
	case errors.Is(err, ErrExpectedString), errors.Is(err, ErrExpectedList):
		return "kind"
	case errors.Is(err, errUintOverflow):
		return "overflow"
	}
	return "other:" + err.Error()
}

// c01CheckRaw compares Split/SplitString/SplitList/SplitUint64/CountValues/SplitListValues on b with the
// reference header parser and with the streaming decoder (Stream.Kind/Bytes/Raw/List/Uint64).
func c01CheckRaw(st *c01Stats, b []byte) error {
	list, hdr, n, hs := c01Head(b)
	wrapped := hs == c01OK && c01Wrapped(b, list, hdr, n)
	refOK := hs == c01OK && !wrapped
	wantClass := "ok"
	if hs == c01Canon || wrapped {
		wantClass = "noncanonical"
	} else if hs == c01Trunc {
		wantClass = "truncated"
	}
	// --- Split vs reference
	k, content, rest, err := Split(b)
	if c01Class(err) != wantClass {
		return fmt.Errorf("Split(%x): err=%v, reference class %s", b, err, wantClass)
	}
	st.add("Split:" + wantClass)
	if refOK {
		wk := String
		if list {
			wk = List
		} else if hdr == 0 {
			wk = Byte
		}
		if k != wk || !bytes.Equal(content, b[hdr:hdr+n]) || !bytes.Equal(rest, b[hdr+n:]) {
			return fmt.Errorf("Split(%x) = (%v, %x, %x), reference (%v, %x, %x)", b, k, content, rest, wk, b[hdr:hdr+n], b[hdr+n:])
		}
	} else if !bytes.Equal(rest, b) || content != nil {
		return fmt.Errorf("Split(%x) failed but returned content=%x rest=%x", b, content, rest)
	}
	// --- Split vs Stream (Kind, then Bytes for strings / Raw for lists)
	rd := bytes.NewReader(b)
	s := NewStream(rd, 0)
	sk, ssize, serr := s.Kind()
	var scontent []byte
	if serr == nil {
		if sk == List {
			var raw []byte
			if raw, serr = s.Raw(); serr == nil {
				if !bytes.Equal(raw, b[:len(raw)]) {
					return fmt.Errorf("Stream.Raw on %x returned %x (not the input bytes)", b, raw)
				}
				scontent = raw[uint64(len(raw))-ssize:]
			}
		} else {
			scontent, serr = s.Bytes()
		}
	}
	if c01Class(serr) != c01Class(err) {
		return fmt.Errorf("Split(%x): %v, but Stream: %v", b, err, serr)
	}
	if err == nil && (sk != k || !bytes.Equal(scontent, content) || rd.Len() != len(rest)) {
		return fmt.Errorf("Split(%x) = (%v,%x,rest %d) but Stream = (%v,%x,rest %d)", b, k, content, len(rest), sk, scontent, rd.Len())
	}
	// --- SplitString / SplitList vs Stream.Bytes / Stream.List
	c2, r2, e2 := SplitString(b)
	_, se2 := NewStream(bytes.NewReader(b), 0).Bytes()
	if c01Class(e2) != c01Class(se2) || (e2 == nil) != (refOK && !list) {
		return fmt.Errorf("SplitString(%x): %v, Stream.Bytes: %v, reference ok=%v", b, e2, se2, refOK && !list)
	}
	if e2 == nil && (!bytes.Equal(c2, content) || !bytes.Equal(r2, rest)) || e2 != nil && !bytes.Equal(r2, b) {
		return fmt.Errorf("SplitString(%x) = (%x,%x,%v) inconsistent with Split", b, c2, r2, e2)
	}
	c3, r3, e3 := SplitList(b)
	_, se3 := NewStream(bytes.NewReader(b), 0).List()
	wantS3 := c01Class(e3)
	if wrapped {
		// A one-byte string <0x80 is refused by the raw helpers when they parse the header (non-canonical); the
		// Stream parses the header first and refuses the same bytes as "not a list" before looking at the content.
		wantS3 = "kind"
	}
	if wantS3 != c01Class(se3) || (e3 == nil) != (refOK && list) {
		return fmt.Errorf("SplitList(%x): %v, Stream.List: %v, reference ok=%v", b, e3, se3, refOK && list)
	}
	if e3 == nil && (!bytes.Equal(c3, content) || !bytes.Equal(r3, rest)) || e3 != nil && !bytes.Equal(r3, b) {
		return fmt.Errorf("SplitList(%x) = (%x,%x,%v) inconsistent with Split", b, c3, r3, e3)
	}
	// --- SplitUint64 vs Stream.Uint64 vs reference
	x, r4, e4 := SplitUint64(b)
	sx, se4 := NewStream(bytes.NewReader(b), 0).Uint64()
	nf, used, ok := c01Ref(reflect.TypeOf(uint64(0)), b)
	if c01Class(e4) != c01Class(se4) || (e4 == nil) != ok {
		return fmt.Errorf("SplitUint64(%x): %v, Stream.Uint64: %v, reference ok=%v", b, e4, se4, ok)
	}
	st.add("SplitUint64:" + c01Class(e4))
	if e4 == nil && (x != sx || strconv.FormatUint(x, 10) != nf || !bytes.Equal(r4, b[used:])) {
		return fmt.Errorf("SplitUint64(%x) = (%d, %x), Stream %d, reference (%s, %x)", b, x, r4, sx, nf, b[used:])
	}
	if e4 != nil && (x != 0 || !bytes.Equal(r4, b)) {
		return fmt.Errorf("SplitUint64(%x) failed but returned (%d, %x)", b, x, r4)
	}
	// --- CountValues(b) (b taken as a list payload) vs a Stream walking the same payload vs reference
	refCnt, refErr := 0, false
	for off := 0; off < len(b); {
		l2, h2, n2, st2 := c01Head(b[off:])
		if st2 != c01OK || c01Wrapped(b[off:], l2, h2, n2) {
			refErr = true
			break
		}
		off += h2 + n2
		refCnt++
	}
	cnt, cerr := CountValues(b)
	ls := NewListStream(bytes.NewReader(b), uint64(len(b)))
	scnt := 0
	_, lerr := ls.List()
	for lerr == nil {
		var kk Kind
		if kk, _, lerr = ls.Kind(); lerr != nil {
			break
		}
		if kk == List {
			_, lerr = ls.Raw()
		} else {
			_, lerr = ls.Bytes()
		}
		if lerr == nil {
			scnt++
		}
	}
	if lerr == EOL {
		lerr = ls.ListEnd()
	}
	if (cerr != nil) != refErr || (lerr != nil) != refErr || c01Class(cerr) != c01Class(lerr) {
		return fmt.Errorf("CountValues(%x): (%d,%v), Stream walk: (%d,%v), reference (%d, err=%v)", b, cnt, cerr, scnt, lerr, refCnt, refErr)
	}
	wantCnt := refCnt
	if refErr {
		wantCnt = refCnt + 1 // documented: index+1 of the offending value
	}
	if cnt != wantCnt || scnt != refCnt {
		return fmt.Errorf("CountValues(%x) = %d, Stream walk read %d values, reference %d (err=%v)", b, cnt, scnt, refCnt, refErr)
	}
	st.add("CountValues:" + c01Class(cerr))
	// --- SplitListValues / MergeListValues
	elems, e5 := SplitListValues(b)
	if refOK && list {
		inner, ierr := CountValues(content)
		if (e5 == nil) != (ierr == nil) {
			return fmt.Errorf("SplitListValues(%x): %v but CountValues(content): %v", b, e5, ierr)
		}
		if e5 == nil {
			if len(elems) != inner {
				return fmt.Errorf("SplitListValues(%x): %d elements, CountValues %d", b, len(elems), inner)
			}
			if m, _ := MergeListValues(elems); !bytes.Equal(m, b[:hdr+n]) {
				return fmt.Errorf("MergeListValues(SplitListValues(%x)) = %x", b, m)
			}
		}
	} else if e5 == nil {
		return fmt.Errorf("SplitListValues(%x) succeeded on a non-list / malformed input", b)
	}
	return nil
}

type c01Case struct {
	In   string `json:"in"`             // hex input
	Part string `json:"part"`           // generator
	T    string `json:"type,omitempty"` // restrict to one target type (mutation part)
}

// c01Input runs all oracles on one input. only == nil: every target type.
func c01Input(r *mc.R, st *c01Stats, part string, in []byte, only []reflect.Type) {
	types := c01Types
	c := c01Case{In: hex.EncodeToString(in), Part: part}
	if only != nil {
		types = only
		c.T = only[0].String()
	}
	r.Case(c, func() error {
		for _, t := range types {
			if err := c01CheckTyped(r, st, in, t); err != nil {
				return err
			}
		}
		return c01CheckRaw(st, in)
	})
}

// ---------------------------------------------------------------------------------------------
// Generators.

var c01Alphabet = []byte{0x00, 0x01, 0x7f, 0x80, 0x81, 0x82, 0xb7, 0xb8, 0xb9, 0xbf, 0xc0, 0xc1, 0xc2, 0xc3, 0xf7, 0xf8, 0xf9, 0xff}

// c01TagAlphabet (part a) drops b7/f7 (55-byte items) and b9/bf/f9 (multi-byte lengths): such items can never be
// completed inside a 6-byte string; the header sweep (b) and the mutations (d, full alphabet) exercise them instead.
var c01TagAlphabet = []byte{0x00, 0x01, 0x7f, 0x80, 0x81, 0x82, 0xb8, 0xc0, 0xc1, 0xc2, 0xc3, 0xf8, 0xff}

var c01UintAlphabet = []uint64{0, 1, 127, 128, 255, 256, 65535, 65536, 1<<32 - 1, 1 << 32, 1<<64 - 1}

func c01ByteStrings() [][]byte {
	return [][]byte{{}, {0x00}, {0x7f}, {0x80}, {0x00, 0x01}, bytes.Repeat([]byte{'x'}, 55), bytes.Repeat([]byte{'x'}, 56)}
}

func c01BigAlphabet() []*big.Int {
	var out []*big.Int
	for _, u := range c01UintAlphabet {
		out = append(out, new(big.Int).SetUint64(u))
	}
	out = append(out, new(big.Int).Lsh(big.NewInt(1), 64))
	out = append(out, new(big.Int).Sub(new(big.Int).Lsh(big.NewInt(1), 256), big.NewInt(1)))
	return out
}

// c01Thin keeps at most n values, spread evenly (always including first and last).
func c01Thin(vs []reflect.Value, n int) []reflect.Value {
	if len(vs) <= n {
		return vs
	}
	out := make([]reflect.Value, 0, n)
	for i := 0; i < n; i++ {
		out = append(out, vs[i*(len(vs)-1)/(n-1)])
	}
	return out
}

// c01Values enumerates the bounded value set of type t: scalar alphabets, and for containers every
// combination of element values with width <= 2 (slices) / exact width (arrays, structs).
func c01Values(t reflect.Type, depth int) []reflect.Value {
	mk := func(x any) reflect.Value {
		v := reflect.New(t).Elem()
		v.Set(reflect.ValueOf(x).Convert(t))
		return v
	}
	var out []reflect.Value
	switch t {
	case c01tRaw:
		for _, s := range []string{"80", "01", "c0", "c101", "8180", "c3c20102"} {
			b, _ := hex.DecodeString(s)
			out = append(out, mk(RawValue(b)))
		}
		return out
	case c01tBigPtr:
		for _, x := range c01BigAlphabet() {
			out = append(out, reflect.ValueOf(x))
		}
		return out
	case c01tBig:
		for _, x := range c01BigAlphabet() {
			out = append(out, reflect.ValueOf(*x))
		}
		return out
	case c01tU256Ptr, c01tU256:
		for _, x := range c01BigAlphabet() {
			u, _ := uint256.FromBig(x)
			if t == c01tU256 {
				out = append(out, reflect.ValueOf(*u))
			} else {
				out = append(out, reflect.ValueOf(u))
			}
		}
		return out
	case c01tRawList:
		for _, xs := range [][]uint64{nil, {0}, {1, 128}, {1<<64 - 1, 0, 127}} {
			rl, err := EncodeToRawList(xs)
			if err != nil {
				panic(err)
			}
			out = append(out, reflect.ValueOf(rl))
		}
		return out
	case c01tAny:
		for _, x := range []any{[]byte{}, []byte{1}, []byte{0x80}, bytes.Repeat([]byte{'x'}, 56), []any{}, []any{[]byte{1}, []any{}},
			[]any{[]any{[]any{}}, []byte{0xff, 0}}} {
			v := reflect.New(t).Elem()
			v.Set(reflect.ValueOf(x))
			out = append(out, v)
		}
		return out
	}
	switch k := t.Kind(); {
	case c01IsUint(k):
		for _, u := range c01UintAlphabet {
			if t.Bits() == 64 || u < 1<<uint(t.Bits()) {
				out = append(out, mk(u))
			}
		}
	case k == reflect.Bool:
		out = append(out, mk(false), mk(true))
	case k == reflect.String:
		for _, b := range c01ByteStrings() {
			out = append(out, mk(string(b)))
		}
	case k == reflect.Pointer:
		for _, e := range c01Values(t.Elem(), depth) {
			p := reflect.New(t.Elem())
			p.Elem().Set(e)
			out = append(out, p)
		}
	case k == reflect.Slice && t.Elem().Kind() == reflect.Uint8:
		for _, b := range c01ByteStrings() {
			out = append(out, mk(b))
		}
	case k == reflect.Array && t.Elem().Kind() == reflect.Uint8:
		for _, fill := range [][2]byte{{0, 0}, {0, 1}, {0x7f, 0}, {0x80, 0}, {0xff, 0xff}} {
			v := reflect.New(t).Elem()
			for i := 0; i < t.Len(); i++ {
				v.Index(i).SetUint(uint64(fill[i%2]))
			}
			out = append(out, v)
		}
	case k == reflect.Slice:
		ev := c01Values(t.Elem(), depth+1)
		if e := t.Elem(); depth > 0 || (e.Kind() == reflect.Slice && e.Elem().Kind() != reflect.Uint8) || e.Kind() == reflect.Struct {
			ev = c01Thin(ev, 6)
		}
		out = append(out, reflect.MakeSlice(t, 0, 0))
		for _, a := range ev {
			out = append(out, reflect.Append(reflect.MakeSlice(t, 0, 1), a))
		}
		for _, a := range ev {
			for _, b := range ev {
				out = append(out, reflect.Append(reflect.MakeSlice(t, 0, 2), a, b))
			}
		}
	case k == reflect.Array, k == reflect.Struct:
		n := t.NumField
		et := func(i int) reflect.Type { return t.Field(i).Type }
		at := func(v reflect.Value, i int) reflect.Value { return v.Field(i) }
		if k == reflect.Array {
			n = t.Len
			et = func(int) reflect.Type { return t.Elem() }
			at = func(v reflect.Value, i int) reflect.Value { return v.Index(i) }
		}
		out = []reflect.Value{reflect.New(t).Elem()}
		for i := 0; i < n(); i++ {
			ev := c01Values(et(i), depth+1)
			if n() > 2 || depth > 0 {
				ev = c01Thin(ev, 4)
			}
			var next []reflect.Value
			for _, base := range out {
				for _, e := range ev {
					v := reflect.New(t).Elem()
					v.Set(base)
					at(v, i).Set(e)
					next = append(next, v)
				}
			}
			out = next
		}
	default:
		panic("c01Values: unsupported type " + t.String())
	}
	return out
}

// c01Mutations calls f with every single-edit mutation of enc: delete a byte, insert / overwrite with every
// alphabet byte, +-1 on every byte (covers every length header +-1), truncation at every length, one appended byte.
func c01Mutations(enc []byte, f func([]byte)) {
	for i := range enc {
		f(append(append([]byte{}, enc[:i]...), enc[i+1:]...))
		f(append([]byte{}, enc[:i]...)) // truncation
		for _, d := range []byte{1, 0xff} {
			m := append([]byte{}, enc...)
			m[i] += d
			f(m)
		}
		for _, a := range c01Alphabet {
			if a != enc[i] {
				m := append([]byte{}, enc...)
				m[i] = a
				f(m)
			}
			m := append(append(append([]byte{}, enc[:i]...), a), enc[i:]...)
			f(m)
		}
	}
	for _, a := range c01Alphabet {
		f(append(append([]byte{}, enc...), a))
	}
}

// c01HeaderSweep builds, for payload length n, the canonical and every non-canonical header variant.
func c01HeaderSweep(n int) [][]byte {
	var out [][]byte
	payloads := []struct {
		base byte
		p    []byte
	}{
		{0x80, bytes.Repeat([]byte{'x'}, n)},
		{0x80, bytes.Repeat([]byte{0x80}, n)},
		{0x80, append(make([]byte, min(n, 1)), bytes.Repeat([]byte{'x'}, max(n-1, 0))...)}, // leading zero byte: never an integer
		{0xc0, bytes.Repeat([]byte{0x01}, n)},
		{0xc0, bytes.Repeat([]byte{0x80}, n)},
	}
	for _, pl := range payloads {
		for _, decl := range []int{n - 1, n, n + 1} { // declared length vs n bytes of data
			if decl < 0 {
				continue
			}
			if decl < 56 {
				out = append(out, append([]byte{pl.base + byte(decl)}, pl.p...))
			}
			for ll := 1; ll <= 8; ll++ { // long form with every length-of-length that can hold decl
				if ll < 8 && uint64(decl) >= 1<<(8*uint(ll)) {
					continue
				}
				h := []byte{pl.base + 55 + byte(ll)}
				for i := ll - 1; i >= 0; i-- {
					h = append(h, byte(uint64(decl)>>(8*uint(i))))
				}
				out = append(out, append(h, pl.p...))
			}
		}
		canon := append(c01EncHead(pl.base, n), pl.p...)
		out = append(out, append(append([]byte{}, canon...), 0x00))
		if n == 1 && pl.base == 0x80 {
			out = append(out, pl.p) // the bare byte
		}
	}
	return out
}

func TestVerif_C01(t *testing.T) {
	mc.Run(t, "C01", func(r *mc.R) {
		fullLen := mc.Pick(r, 2, 3)
		alphaLen := mc.Pick(r, 5, 6)
		alphabet := c01TagAlphabet
		r.Rule("case = one input byte string, checked against every target type (typed decode accept/reject + value + bit-for-bit " +
			"re-encoding vs the spec reference) and through Split/SplitString/SplitList/SplitUint64/CountValues/SplitListValues vs " +
			"Stream vs reference. Inputs: (a) ALL byte strings of length<=full_len over 256 values and all strings of length<=alpha_len " +
			"over a 13-byte RLP tag alphabet; (b) header sweep: canonical and every non-canonical header for payload lengths at the " +
			"55/56, 255/256, 65535/65536 boundaries; (c) every value of the bounded value sets of each type (encode vs reference " +
			"encoder, decode back); (d) every single-edit mutation of every encoding from (c), decoded as the value's own type, " +
			"interface{} and RawValue; (e) AppendUint64/IntSize for all x<2^17 and all 2^k-1,2^k,2^k+1. " +
			"distinct = distinct accepted (type, value) pairs")
		r.Bound("full_len", fullLen)
		r.Bound("alpha_len", alphaLen)
		r.Bound("alphabet", hex.EncodeToString(alphabet))
		r.Bound("mutation_alphabet", hex.EncodeToString(c01Alphabet))
		names := []string{}
		for _, t := range c01Types {
			names = append(names, t.String())
		}
		r.Bound("target_types", names)
		r.Assume("reference = c01Head/c01Ref/c01RefEnc, a transcription of the RLP specification and of the Go-type mapping documented in rlp/doc.go (no optional/tail/nil tags)")
		r.Assume("RawValue and RawList validate only the size information of the items they hold (documented); a one-byte string <0x80 inside a RawValue is therefore accepted and reproduced verbatim")

		// ---- (a) exhaustive short strings
		type shard struct {
			alpha  []byte // nil = all 256 values
			length int
			prefix []int
		}
		var shards []shard
		for l := 0; l <= fullLen; l++ {
			if l == 0 {
				shards = append(shards, shard{nil, 0, nil})
				continue
			}
			for f := 0; f < 256; f++ {
				shards = append(shards, shard{nil, l, []int{f}})
			}
		}
		for l := fullLen + 1; l <= alphaLen; l++ {
			for f := range alphabet {
				for g := range alphabet {
					shards = append(shards, shard{alphabet, l, []int{f, g}})
				}
			}
		}
		r.Parallel(len(shards), func(si int) {
			sh := shards[si]
			st := &c01Stats{out: map[string]int64{}}
			defer st.flush(r)
			base := 256
			sym := func(i int) byte { return byte(i) }
			if sh.alpha != nil {
				base = len(sh.alpha)
				sym = func(i int) byte { return sh.alpha[i] }
			}
			free := sh.length - len(sh.prefix)
			total := 1
			for i := 0; i < free; i++ {
				total *= base
			}
			in := make([]byte, sh.length)
			for i, p := range sh.prefix {
				in[i] = sym(p)
			}
			for x := 0; x < total; x++ {
				if x&1023 == 0 && r.Expired() {
					return
				}
				v := x
				for i := sh.length - 1; i >= len(sh.prefix); i-- {
					in[i] = sym(v % base)
					v /= base
				}
				c01Input(r, st, "a", append([]byte{}, in...), nil)
			}
			if si%97 == 0 {
				r.Sample(c01Case{In: hex.EncodeToString(in), Part: "a"})
			}
			st.add("inputs_a")
			st.out["inputs_a"] += int64(total) - 1
		})

		// ---- (b) header boundary sweep
		var sweep [][]byte
		for _, n := range []int{0, 1, 2, 54, 55, 56, 57, 255, 256, 257, 65535, 65536} {
			sweep = append(sweep, c01HeaderSweep(n)...)
		}
		r.Bound("header_sweep_inputs", len(sweep))
		r.Parallel(len(sweep), func(i int) {
			st := &c01Stats{out: map[string]int64{}}
			defer st.flush(r)
			c01Input(r, st, "b", sweep[i], nil)
			st.add("inputs_b")
		})

		// ---- (c) value sets, (d) their single-edit mutations
		type job struct {
			t reflect.Type
			v reflect.Value
		}
		var jobs []job
		perType := map[string]int{}
		for _, t := range c01Types {
			vs := c01Values(t, 0)
			perType[t.String()] = len(vs)
			for _, v := range vs {
				jobs = append(jobs, job{t, v})
			}
		}
		r.Bound("values_per_type", perType)
		r.Parallel(len(jobs), func(i int) {
			j := jobs[i]
			st := &c01Stats{out: map[string]int64{}}
			defer st.flush(r)
			var enc []byte
			r.Case(c01Case{In: c01NF(j.v), Part: "c", T: j.t.String()}, func() error {
				var err error
				enc, err = EncodeToBytes(j.v.Interface())
				if err != nil {
					return fmt.Errorf("EncodeToBytes(%v %s): %v", j.t, c01NF(j.v), err)
				}
				if ref := c01RefEnc(j.v); !bytes.Equal(enc, ref) {
					return fmt.Errorf("EncodeToBytes(%v %s) = %x, reference encoding %x", j.t, c01NF(j.v), enc, ref)
				}
				// decode(encode(v)) == v
				p := reflect.New(j.t)
				if err := DecodeBytes(enc, p.Interface()); err != nil {
					return fmt.Errorf("DecodeBytes(EncodeToBytes(%v %s)=%x): %v", j.t, c01NF(j.v), enc, err)
				}
				if got, want := c01NF(p.Elem()), c01NF(j.v); got != want {
					return fmt.Errorf("round trip of %v %s through %x gives %s", j.t, want, enc, got)
				}
				// the size helpers agree with the real length
				switch x := j.v.Interface().(type) {
				case uint64:
					if IntSize(x) != len(enc) || !bytes.Equal(AppendUint64(nil, x), enc) {
						return fmt.Errorf("IntSize/AppendUint64(%d) disagree with encoding %x", x, enc)
					}
				case []byte:
					if BytesSize(x) != uint64(len(enc)) || StringSize(string(x)) != uint64(len(enc)) {
						return fmt.Errorf("BytesSize/StringSize(%x) disagree with encoding %x", x, enc)
					}
				}
				if k, content, _, err := Split(enc); err == nil && k == List && ListSize(uint64(len(content))) != uint64(len(enc)) {
					return fmt.Errorf("ListSize(%d) != %d", len(content), len(enc))
				}
				return nil
			})
			if enc == nil {
				return
			}
			st.add("inputs_c")
			if i%61 == 0 {
				r.Sample(map[string]any{"part": "c", "type": j.t.String(), "value": c01NF(j.v), "encoding": hex.EncodeToString(enc)})
			}
			c01Input(r, st, "c", enc, nil)
			only := []reflect.Type{j.t, c01tAny, c01tRaw}
			c01Mutations(enc, func(m []byte) {
				st.add("inputs_d")
				c01Input(r, st, "d", m, only)
			})
		})

		// ---- (e) integer helpers over a dense range and all power-of-two boundaries
		var xs []uint64
		for x := uint64(0); x < 1<<17; x++ {
			xs = append(xs, x)
		}
		for k := uint(17); k <= 64; k++ {
			if k == 64 {
				xs = append(xs, ^uint64(0)-1, ^uint64(0))
				break
			}
			p := uint64(1) << k
			xs = append(xs, p-1, p, p+1)
		}
		const chunk = 4096
		r.Parallel((len(xs)+chunk-1)/chunk, func(ci int) {
			st := &c01Stats{out: map[string]int64{}}
			defer st.flush(r)
			for _, x := range xs[ci*chunk : min(len(xs), (ci+1)*chunk)] {
				r.Case(c01Case{In: strconv.FormatUint(x, 10), Part: "e"}, func() error {
					ref := c01EncStr(c01MinBE(x))
					if got := AppendUint64([]byte{0xaa}, x); !bytes.Equal(got[1:], ref) || got[0] != 0xaa {
						return fmt.Errorf("AppendUint64(%d) = %x, reference %x", x, got, ref)
					}
					if IntSize(x) != len(ref) {
						return fmt.Errorf("IntSize(%d) = %d, reference %d", x, IntSize(x), len(ref))
					}
					if enc, err := EncodeToBytes(x); err != nil || !bytes.Equal(enc, ref) {
						return fmt.Errorf("EncodeToBytes(%d) = %x, reference %x", x, enc, ref)
					}
					eb := NewEncoderBuffer(nil)
					eb.WriteUint64(x)
					eb.WriteBigInt(new(big.Int).SetUint64(x))
					eb.WriteUint256(uint256.NewInt(x))
					if got := eb.ToBytes(); !bytes.Equal(got, bytes.Repeat(ref, 3)) {
						return fmt.Errorf("EncoderBuffer uint64/big/uint256(%d) = %x, reference 3x %x", x, got, ref)
					}
					y, rest, err := SplitUint64(append(append([]byte{}, ref...), 0xc0))
					if err != nil || y != x || !bytes.Equal(rest, []byte{0xc0}) {
						return fmt.Errorf("SplitUint64(%x c0) = (%d,%x,%v)", ref, y, rest, err)
					}
					return nil
				})
				st.add("inputs_e")
			}
		})
	})
}
