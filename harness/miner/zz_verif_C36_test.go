//go:build verif

package miner

// C36 (step "builder") — blocks built locally are valid blocks.
//
// Seam: Miner.BuildPayload over a real core.BlockChain and a txpool.TxPool whose
// only sub-pool is a stub that hands the builder exactly the enumerated pool
// content (so the content may also contain what a racing / misbehaving pool could
// hand over: nonce gaps, a gas limit above the block's, a fee cap below the base
// fee, a gas limit below the intrinsic gas, a transaction type that is not valid
// yet). Both the empty and the full payload are resolved to engine-API executable
// data, converted back to a block the way the consensus client's newPayload
// arrives (versioned hashes recomputed from the blobs bundle's commitments), and
// imported on a second, independent chain instance that has never seen the
// builder's state.
//
// Space: rule sets {cancun, prague, osaka, amsterdam} x payload-attribute
// combinations x every subset of <= 3 transactions of a 20-entry alphabet
// (incl. transactions that are valid at the head state but get rejected while the
// block is built because an earlier transaction of the block drained the sender,
// used its nonce or spent its funds, followed by further includable ones).
//
// Oracle: import (header verification, body validation, execution, state
// validation: state root, receipt root, bloom, gas used, requests hash, access
// list hash) accepts; receipts stored by the importer equal the builder's;
// header fields equal the payload attributes; gas / blob limits respected;
// every included transaction came from the pool exactly once in nonce order.

import (
	"context"
	"crypto/ecdsa"
	"crypto/sha256"
	"encoding/json"
	"fmt"
	"math/big"
	"sort"
	"strings"
	"sync"
	"testing"
	"time"

	"github.com/ethereum/go-ethereum/beacon/engine"
	"github.com/ethereum/go-ethereum/common"
	"github.com/ethereum/go-ethereum/consensus"
	"github.com/ethereum/go-ethereum/consensus/beacon"
	"github.com/ethereum/go-ethereum/consensus/ethash"
	"github.com/ethereum/go-ethereum/consensus/misc/eip4844"
	"github.com/ethereum/go-ethereum/core"
	"github.com/ethereum/go-ethereum/core/rawdb"
	"github.com/ethereum/go-ethereum/core/txpool"
	"github.com/ethereum/go-ethereum/core/types"
	"github.com/ethereum/go-ethereum/core/vm"
	"github.com/ethereum/go-ethereum/core/vm/program"
	"github.com/ethereum/go-ethereum/crypto"
	"github.com/ethereum/go-ethereum/crypto/kzg4844"
	"github.com/ethereum/go-ethereum/event"
	"github.com/ethereum/go-ethereum/internal/verif/mc"
	"github.com/ethereum/go-ethereum/params"
	"github.com/holiman/uint256"
)

// ---------------------------------------------------------------------------
// rule sets

type c36Fork struct {
	name                     string
	cfg                      *params.ChainConfig
	prague, osaka, amsterdam bool
	scheduled                bool // a later fork with other builder-relevant parameters is scheduled but not active
}

func c36U64(v uint64) *uint64 { return &v }

func c36Forks() []c36Fork {
	mk := func(name string, level int) c36Fork {
		cfg := *params.MergedTestChainConfig
		cfg.PragueTime, cfg.OsakaTime, cfg.AmsterdamTime = nil, nil, nil
		cfg.BPO1Time, cfg.BPO2Time, cfg.BPO3Time, cfg.BPO4Time, cfg.BPO5Time = nil, nil, nil, nil, nil
		f := c36Fork{name: name, cfg: &cfg}
		if level >= 1 {
			cfg.PragueTime, f.prague = c36U64(0), true
		}
		if level >= 2 {
			cfg.OsakaTime, f.osaka = c36U64(0), true
		}
		if level >= 3 {
			cfg.AmsterdamTime, f.amsterdam = c36U64(0), true
		}
		return f
	}
	// Cancun active, Prague (blob maximum 9 instead of 6, another blob target and base-fee update fraction)
	// scheduled far in the future: the builder must use the parameters in force at the block's time
	sched := mk("cancun+prague-scheduled", 0)
	sched.cfg.PragueTime = c36U64(1 << 40)
	sched.scheduled = true
	return []c36Fork{mk("cancun", 0), mk("prague", 1), mk("osaka", 2), mk("amsterdam", 3), sched}
}

// ---------------------------------------------------------------------------
// stub sub-pool

type c36Pool struct {
	mu      sync.Mutex
	content map[common.Address][]*types.Transaction // nonce-sorted per sender
}

func (p *c36Pool) set(txs []*types.Transaction, signer types.Signer) {
	m := map[common.Address][]*types.Transaction{}
	for _, tx := range txs {
		from, err := types.Sender(signer, tx)
		if err != nil {
			panic(err)
		}
		m[from] = append(m[from], tx)
	}
	for _, l := range m {
		sort.SliceStable(l, func(i, j int) bool {
			if l[i].Nonce() != l[j].Nonce() {
				return l[i].Nonce() < l[j].Nonce()
			}
			return l[i].GasTipCap().Cmp(l[j].GasTipCap()) > 0 // competing transactions: the better paying one first
		})
	}
	p.mu.Lock()
	p.content = m
	p.mu.Unlock()
}

func (p *c36Pool) Filter(tx *types.Transaction) bool { return true }
func (p *c36Pool) FilterType(kind byte) bool         { return true }
func (p *c36Pool) Init(gasTip uint64, head *types.Header, reserver txpool.Reserver) error {
	return nil
}
func (p *c36Pool) Close() error                         { return nil }
func (p *c36Pool) Reset(oldHead, newHead *types.Header) {}
func (p *c36Pool) SetGasTip(tip *big.Int)               {}
func (p *c36Pool) Has(hash common.Hash) bool            { return p.Get(hash) != nil }
func (p *c36Pool) Get(hash common.Hash) *types.Transaction {
	p.mu.Lock()
	defer p.mu.Unlock()
	for _, l := range p.content {
		for _, tx := range l {
			if tx.Hash() == hash {
				return tx
			}
		}
	}
	return nil
}
func (p *c36Pool) GetRLP(hash common.Hash, version uint) []byte      { return nil }
func (p *c36Pool) GetMetadata(hash common.Hash) *txpool.TxMetadata   { return nil }
func (p *c36Pool) ValidateTxBasics(tx *types.Transaction) error      { return nil }
func (p *c36Pool) Add(txs []*types.Transaction, sync bool) []error   { return make([]error, len(txs)) }
func (p *c36Pool) Nonce(addr common.Address) uint64                  { return 0 }
func (p *c36Pool) Stats() (int, int)                                 { return 0, 0 }
func (p *c36Pool) Status(hash common.Hash) txpool.TxStatus           { return txpool.TxStatusUnknown }
func (p *c36Pool) Clear()                                            {}
func (p *c36Pool) ContentFrom(addr common.Address) ([]*types.Transaction, []*types.Transaction) {
	return nil, nil
}
func (p *c36Pool) Content() (map[common.Address][]*types.Transaction, map[common.Address][]*types.Transaction) {
	return nil, nil
}
func (p *c36Pool) SubscribeTransactions(ch chan<- core.NewTxsEvent, reorgs bool) event.Subscription {
	return event.NewSubscription(func(quit <-chan struct{}) error { <-quit; return nil })
}

// Pending hands over everything of the requested kind, ignoring the price
// filters: a superset of what the real pools would return.
func (p *c36Pool) Pending(filter txpool.PendingFilter) (map[common.Address][]*txpool.LazyTransaction, int) {
	p.mu.Lock()
	defer p.mu.Unlock()
	out := map[common.Address][]*txpool.LazyTransaction{}
	n := 0
	for from, l := range p.content {
		for _, tx := range l {
			if (tx.Type() == types.BlobTxType) != filter.BlobTxs {
				continue
			}
			out[from] = append(out[from], &txpool.LazyTransaction{
				Pool: p, Hash: tx.Hash(), Tx: tx, Time: time.Unix(0, 0),
				GasFeeCap: uint256.MustFromBig(tx.GasFeeCap()), GasTipCap: uint256.MustFromBig(tx.GasTipCap()),
				Gas: tx.Gas(), BlobGas: tx.BlobGas(),
			})
			n++
		}
	}
	return out, n
}

type c36Backend struct {
	chain *core.BlockChain
	pool  *txpool.TxPool
}

func (b *c36Backend) BlockChain() *core.BlockChain { return b.chain }
func (b *c36Backend) TxPool() *txpool.TxPool       { return b.pool }

// ---------------------------------------------------------------------------
// world

var (
	c36Reverter = common.HexToAddress("0x7e00000000000000000000000000000000003601")
	c36Looper   = common.HexToAddress("0x1000000000000000000000000000000000003602")
	c36Suicide  = common.HexToAddress("0x5d00000000000000000000000000000000003603")
	c36Adder    = common.HexToAddress("0xad00000000000000000000000000000000003604")
	c36Fresh    = common.HexToAddress("0xf000000000000000000000000000000000003605")
	c36Benef    = common.HexToAddress("0xbe00000000000000000000000000000000003606")
	c36WdAddr   = common.HexToAddress("0x3d00000000000000000000000000000000003607")
	c36FeeRcpt  = common.HexToAddress("0xfe00000000000000000000000000000000003608")
	c36Forwarder = common.HexToAddress("0xf300000000000000000000000000000000003609")
	c36Sink     = common.HexToAddress("0x5100000000000000000000000000000000003610")
	c36EnvRec   = common.HexToAddress("0xe400000000000000000000000000000000003611") // stores every block-context field it can observe
	c36SlotRec  = common.HexToAddress("0xe500000000000000000000000000000000003612") // stores SLOTNUM (Amsterdam)
	c36PrecRec  = common.HexToAddress("0xe600000000000000000000000000000000003613") // STATICCALLs a list of precompiles and stores success flag, return size and gas spent
)

// c36EnvOps are the block-context opcodes the environment recorder stores, slot k = value of op k;
// slot len(c36EnvOps) = BLOCKHASH(NUMBER-1).
var c36EnvOps = []vm.OpCode{vm.NUMBER, vm.TIMESTAMP, vm.PREVRANDAO, vm.COINBASE, vm.GASLIMIT, vm.BASEFEE, vm.BLOBBASEFEE, vm.CHAINID}

type c36Entry struct {
	name string
	tx   *types.Transaction
	// expectation of the naive inclusion model: "always", "never", "prague" (Prague and later), "after:<name>"
	includable string
}

type c36World struct {
	fork    c36Fork
	gspec   *core.Genesis
	engine  consensus.Engine
	signer  types.Signer
	keys    []*ecdsa.PrivateKey
	addrs   []common.Address
	entries []c36Entry
}

func c36Key(i int) *ecdsa.PrivateKey {
	k, err := crypto.ToECDSA(crypto.Keccak256([]byte(fmt.Sprintf("c36-sender-%d", i))))
	if err != nil {
		panic(err)
	}
	return k
}

func c36Sidecar(version byte, nblobs int, tag byte) *types.BlobTxSidecar {
	blobs := make([]kzg4844.Blob, nblobs)
	commits := make([]kzg4844.Commitment, nblobs)
	for i := range commits {
		commits[i][0], commits[i][1], commits[i][2] = 0xc0, tag, byte(i)
	}
	nproofs := nblobs
	if version == types.BlobSidecarVersion1 {
		nproofs = nblobs * kzg4844.CellProofsPerBlob
	}
	return types.NewBlobTxSidecar(version, blobs, commits, make([]kzg4844.Proof, nproofs))
}

func c36NewWorld(f c36Fork) *c36World {
	w := &c36World{fork: f, engine: beacon.New(ethash.NewFaker()), signer: types.NewPragueSigner(f.cfg.ChainID)}
	alloc := types.GenesisAlloc{}
	for addr, acc := range core.SystemContractAllocs() {
		alloc[addr] = acc
	}
	rich := new(big.Int).Mul(big.NewInt(1000), big.NewInt(params.Ether))
	for i := 0; i < 20; i++ {
		k := c36Key(i)
		w.keys = append(w.keys, k)
		w.addrs = append(w.addrs, crypto.PubkeyToAddress(k.PublicKey))
		alloc[w.addrs[i]] = types.Account{Balance: rich}
	}
	authKey := c36Key(100)
	authority := crypto.PubkeyToAddress(authKey.PublicKey)

	// V: an externally owned account that is EIP-7702-delegated in genesis to a
	// forwarder (CALL(sink, SELFBALANCE)): from Prague on, anybody's call of V
	// drains V, so a transaction of V that is affordable at the head state becomes
	// unaffordable behind such a call in the same block.
	vKey := c36Key(101)
	vAddr := crypto.PubkeyToAddress(vKey.PublicKey)
	forwarder := program.New().Push(0).Push(0).Push(0).Push(0).Op(vm.SELFBALANCE).Push(c36Sink).Op(vm.GAS, vm.CALL, vm.POP, vm.STOP).Bytes()
	alloc[c36Forwarder] = types.Account{Code: forwarder, Nonce: 1, Balance: common.Big0}
	alloc[c36Sink] = types.Account{Balance: big.NewInt(1)}
	alloc[vAddr] = types.Account{Code: types.AddressToDelegation(c36Forwarder), Balance: big.NewInt(10_000_000_000_000_000)}
	// the sender of POOR1/POOR2 can pay for the first of its two transactions only
	const poor = 14
	alloc[crypto.PubkeyToAddress(c36Key(poor).PublicKey)] = types.Account{Balance: big.NewInt(2_100_000_000_000_000)}

	revert := program.New().Sstore(0, 1).Push(0).Push(0).Op(vm.REVERT).Bytes()
	_, loopAt := program.New().Jumpdest()
	loop := program.New().Op(vm.JUMPDEST).Sstore(0, 1).Jump(loopAt).Bytes()
	adder := program.New().Push(0).Op(vm.SLOAD).Push(1).Op(vm.ADD).Push(0).Op(vm.SSTORE).Push(0).Push(0).Op(vm.LOG0, vm.STOP).Bytes()
	alloc[c36Reverter] = types.Account{Code: revert, Nonce: 1, Balance: common.Big0}
	alloc[c36Looper] = types.Account{Code: loop, Nonce: 1, Balance: common.Big0}
	alloc[c36Suicide] = types.Account{Code: program.New().Selfdestruct(c36Benef).Bytes(), Nonce: 1, Balance: big.NewInt(4242)}
	alloc[c36Adder] = types.Account{Code: adder, Nonce: 1, Balance: common.Big0}
	envrec := program.New()
	for k, op := range c36EnvOps {
		envrec.Op(op).Push(k).Op(vm.SSTORE)
	}
	envrec.Push(1).Op(vm.NUMBER, vm.SUB, vm.BLOCKHASH).Push(len(c36EnvOps)).Op(vm.SSTORE, vm.STOP)
	alloc[c36EnvRec] = types.Account{Code: envrec.Bytes(), Nonce: 1, Balance: common.Big0}
	alloc[c36PrecRec] = types.Account{Code: c36PrecRecorderCode(), Nonce: 1, Balance: common.Big0}
	alloc[c36SlotRec] = types.Account{Code: program.New().Op(vm.SLOTNUM).Push(0).Op(vm.SSTORE, vm.STOP).Bytes(), Nonce: 1, Balance: common.Big0}
	w.gspec = &core.Genesis{Config: f.cfg, Alloc: alloc, GasLimit: 30_000_000, BaseFee: big.NewInt(params.InitialBaseFee), Timestamp: 1_700_000_000}

	chainID := f.cfg.ChainID
	dyn := func(sender int, nonce uint64, to *common.Address, value int64, gas uint64, feeCap, tip *big.Int, data []byte) *types.Transaction {
		return types.MustSignNewTx(w.keys[sender], w.signer, &types.DynamicFeeTx{ChainID: chainID, Nonce: nonce, To: to, Value: big.NewInt(value), Gas: gas, GasFeeCap: feeCap, GasTipCap: tip, Data: data})
	}
	gwei := func(n int64) *big.Int { return new(big.Int).Mul(big.NewInt(n), big.NewInt(params.GWei)) }
	cg := func(n int64) *big.Int { return new(big.Int).Mul(big.NewInt(n), big.NewInt(params.GWei/100)) } // 0.01 gwei: every entry has its own effective tip, so the order of the block does not depend on tie breaking
	blob := func(sender int, n int, tag byte, tip int64) *types.Transaction {
		version := byte(types.BlobSidecarVersion0)
		if f.osaka {
			version = types.BlobSidecarVersion1
		}
		sc := c36Sidecar(version, n, tag)
		return types.MustSignNewTx(w.keys[sender], w.signer, &types.BlobTx{
			ChainID: uint256.MustFromBig(chainID), Nonce: 0, GasTipCap: uint256.MustFromBig(cg(tip)), GasFeeCap: uint256.MustFromBig(gwei(10)), Gas: 1_000_000,
			To: c36Adder, Value: new(uint256.Int), BlobFeeCap: uint256.NewInt(1_000_000), BlobHashes: sc.BlobHashes(), Sidecar: sc,
		})
	}
	auth, err := types.SignSetCode(authKey, types.SetCodeAuthorization{ChainID: *uint256.MustFromBig(chainID), Address: c36Adder, Nonce: 0})
	if err != nil {
		panic(err)
	}
	setcode := types.MustSignNewTx(w.keys[8], w.signer, &types.SetCodeTx{
		ChainID: uint256.MustFromBig(chainID), Nonce: 0, To: authority, Value: new(uint256.Int), Gas: 1_000_000,
		GasFeeCap: uint256.MustFromBig(gwei(10)), GasTipCap: uint256.MustFromBig(gwei(3)), AuthList: []types.SetCodeAuthorization{auth},
	})
	wreq := make([]byte, 56)
	for i := range wreq[:48] {
		wreq[i] = byte(0xb0 + i%5)
	}
	wreq[55] = 9
	initcode := program.New().Sstore(1, 0x36).ReturnViaCodeCopy(adder).Bytes()
	w.entries = []c36Entry{
		{"XFER", dyn(0, 0, &c36Fresh, 1000, 1_000_000, gwei(10), gwei(5), nil), "always"},
		{"XFER2", dyn(0, 1, &c36Fresh, 7, 1_000_000, gwei(10), cg(890), nil), "after:XFER"},
		{"GAP", dyn(1, 1, &c36Fresh, 1, 1_000_000, gwei(10), gwei(8), nil), "never"},
		{"REVERT", dyn(2, 0, &c36Reverter, 0, 1_000_000, gwei(10), gwei(4), nil), "always"},
		{"OOG", dyn(3, 0, &c36Looper, 0, 1_000_000, gwei(10), cg(650), nil), "always"},
		{"BIGGAS", dyn(4, 0, &c36Fresh, 1, 40_000_000, gwei(10), cg(750), nil), "never"},
		{"CHEAP", dyn(5, 0, &c36Fresh, 1, 1_000_000, big.NewInt(1000), big.NewInt(1000), nil), "never"},
		{"BLOB1", blob(6, 1, 1, 220), "always"},
		{"BLOB2", blob(7, 2, 2, 320), "always"},
		{"SETCODE", setcode, "prague"},
		{"CREATE", dyn(9, 0, nil, 0, 3_000_000, gwei(10), gwei(2), initcode), "always"},
		{"SELFDESTRUCT", dyn(10, 0, &c36Suicide, 0, 1_000_000, gwei(10), gwei(1), nil), "always"},
		{"WREQ", dyn(11, 0, &params.WithdrawalQueueAddress, 1, 1_000_000, gwei(10), cg(910), wreq), "always"},
		{"LOWGAS", dyn(12, 0, &c36Fresh, 1, 20_000, gwei(12), gwei(11), nil), "never"},
		// transactions whose executability depends on an earlier transaction of the same block
		{"NONCE_DUP", dyn(0, 0, &c36Fresh, 5, 1_000_000, gwei(10), cg(905), nil), "always"},
		{"POOR1", dyn(poor, 0, &w.addrs[1], 1_000_000_000_000_000, 100_000, gwei(10), gwei(7), nil), "always"},
		{"POOR2", dyn(poor, 1, &w.addrs[1], 0, 100_000, gwei(10), gwei(7), nil), "never"},
		{"DRAIN_V", dyn(15, 0, &vAddr, 0, 1_000_000, gwei(10), gwei(9), nil), "always"},
		{"V_TX", types.MustSignNewTx(vKey, w.signer, &types.DynamicFeeTx{ChainID: chainID, Nonce: 0, To: &c36Fresh, Value: big.NewInt(3), Gas: 100_000, GasFeeCap: gwei(10), GasTipCap: gwei(6)}), "unless-prague:DRAIN_V"},
		{"TAIL", dyn(16, 0, &w.addrs[1], 2, 1_000_000, gwei(10), big.NewInt(500_000_000), nil), "always"},
		// environment recorders: one storage slot per block-context field, so that a block context that
		// differs between building and import (or from the sealed header) changes the state root
		{"ENVREC", dyn(17, 0, &c36EnvRec, 0, 3_000_000, gwei(10), cg(450), nil), "always"},
		{"SLOTREC", dyn(18, 0, &c36SlotRec, 0, 1_000_000, gwei(10), cg(350), nil), "always"},
		// precompile recorder: every cacheable precompile family with an accepted and a well-sized rejected input
		{"PRECREC", dyn(19, 0, &c36PrecRec, 0, 10_000_000, gwei(10), cg(250), c36PrecCalldata()), "always"},
	}
	if f.scheduled {
		// together with BLOB1 and BLOB2 more blobs than the active maximum (6) but not more than the scheduled one (9)
		w.entries = append(w.entries, c36Entry{"BLOB4", blob(13, 4, 4, 330), "always"})
	}
	w.entries[0].includable = "unless:NONCE_DUP"           // XFER has the same sender and nonce as NONCE_DUP, which pays more
	w.entries[1].includable = "after-any:XFER,NONCE_DUP" // XFER2 needs nonce 0 of its sender to be used
	return w
}

// ---------------------------------------------------------------------------
// precompile recorder

// c36PrecCall is one STATICCALL of the precompile recorder.
type c36PrecCall struct {
	name  string
	addr  byte
	input []byte
	fails bool // the precompile's Run returns an error for this (well-sized) input
	level int  // rule-set level from which the address is a precompile: 0 cancun, 1 prague, 2 osaka
}

func c36Pad32(v uint64) []byte { return common.LeftPadBytes(new(big.Int).SetUint64(v).Bytes(), 32) }

// c36PrecCalls lists, for every cacheable precompile family, an input that is
// accepted and an input of the right size that the precompile rejects.
func c36PrecCalls() []c36PrecCall {
	cat := func(parts ...[]byte) []byte {
		var out []byte
		for _, p := range parts {
			out = append(out, p...)
		}
		return out
	}
	zeros := func(n int) []byte { return make([]byte, n) }
	blake := func(final byte) []byte {
		in := zeros(213)
		in[3] = 1 // one round
		in[212] = final
		return in
	}
	bls := func(v uint64) []byte { return common.LeftPadBytes(new(big.Int).SetUint64(v).Bytes(), 64) }
	return []c36PrecCall{
		{"ecrecover(zeros)", 0x01, zeros(128), false, 0},
		{"bn254add(inf,inf)", 0x06, zeros(128), false, 0},
		{"bn254add(point-not-on-curve)", 0x06, cat(c36Pad32(1), c36Pad32(1), zeros(64)), true, 0},
		{"bn254mul(inf,2)", 0x07, cat(zeros(64), c36Pad32(2)), false, 0},
		{"bn254mul(point-not-on-curve)", 0x07, cat(c36Pad32(1), c36Pad32(1), c36Pad32(2)), true, 0},
		{"bn254pairing(empty)", 0x08, nil, false, 0},
		{"bn254pairing(point-not-on-curve)", 0x08, cat(c36Pad32(1), c36Pad32(1), zeros(128)), true, 0},
		{"blake2f(final=1)", 0x09, blake(1), false, 0},
		{"blake2f(final=2)", 0x09, blake(2), true, 0},
		{"kzg-point-evaluation(zeros)", 0x0a, zeros(192), true, 0},
		{"bls12-g1add(inf,inf)", 0x0b, zeros(256), false, 1},
		{"bls12-g1add(point-not-on-curve)", 0x0b, cat(bls(1), bls(1), zeros(128)), true, 1},
	}
}

// c36PrecCalldata encodes the calls as records [address word][length word][input].
func c36PrecCalldata() []byte {
	var out []byte
	for _, c := range c36PrecCalls() {
		out = append(out, c36Pad32(uint64(c.addr))...)
		out = append(out, c36Pad32(uint64(len(c.input)))...)
		out = append(out, c.input...)
	}
	return out
}

// c36PrecRecorderCode: for every record at calldata offset `off`:
// ok = STATICCALL(200000 gas, address, input); SSTORE(off+1, ok + 1 + 256*(RETURNDATASIZE+1)); SSTORE(off+2, gas spent around the call).
func c36PrecRecorderCode() []byte {
	p := program.New().Push(0) // off
	loop := p.Size()
	p.Op(vm.JUMPDEST)
	p.Op(vm.DUP1, vm.CALLDATASIZE, vm.GT, vm.ISZERO).Op(vm.PUSH2)
	patch := p.Size()
	p.Append([]byte{0, 0}).Op(vm.JUMPI)
	p.Op(vm.DUP1).Push(32).Op(vm.ADD, vm.CALLDATALOAD)                  // [off, len]
	p.Op(vm.DUP1, vm.DUP3).Push(64).Op(vm.ADD).Push(0).Op(vm.CALLDATACOPY) // mem[0:len] = input
	p.Op(vm.GAS)                                                         // [off, len, g0]
	p.Push(0).Push(0).Op(vm.DUP4).Push(0)                               // outSize, outOff, inSize, inOff
	p.Op(vm.DUP7, vm.CALLDATALOAD)                                       // address
	p.Push(200_000).Op(vm.STATICCALL)                                    // [off, len, g0, ok]
	p.Op(vm.SWAP1, vm.GAS, vm.SWAP1, vm.SUB)                             // [off, len, ok, g0-gas]
	p.Op(vm.DUP4).Push(2).Op(vm.ADD, vm.SSTORE)                          // SSTORE(off+2, spent)  [off, len, ok]
	p.Push(1).Op(vm.ADD, vm.RETURNDATASIZE).Push(1).Op(vm.ADD).Push(256).Op(vm.MUL, vm.ADD) // ok+1+256*(rds+1)
	p.Op(vm.DUP3).Push(1).Op(vm.ADD, vm.SSTORE)                          // SSTORE(off+1, ...)    [off, len]
	p.Op(vm.ADD).Push(64).Op(vm.ADD)                                     // off += len + 64
	p.Op(vm.PUSH2).Append([]byte{byte(loop >> 8), byte(loop)}).Op(vm.JUMP)
	exit := p.Size()
	p.Op(vm.JUMPDEST, vm.STOP)
	b := p.Bytes()
	b[patch], b[patch+1] = byte(exit>>8), byte(exit)
	return b
}

// ---------------------------------------------------------------------------
// payload attributes

type c36Attrs struct {
	name        string
	withdrawals types.Withdrawals
	beaconRoot  common.Hash
	random      common.Hash
	recipient   common.Address
	maxBlobs    int // miner configuration: 0 = protocol default
	slot        uint64  // slot number (Amsterdam), never zero
	targetGas   *uint64 // target gas limit (Amsterdam)
}

func (w *c36World) attrs() []c36Attrs {
	return []c36Attrs{
		{"plain", types.Withdrawals{}, common.Hash{}, common.Hash{}, c36FeeRcpt, 0, 7, nil},
		{"withdrawal+root+random", types.Withdrawals{{Index: 0, Validator: 3, Address: c36WdAddr, Amount: 7}}, common.Hash{0xbe, 0xac}, common.Hash{0x4a, 0x4d}, c36FeeRcpt, 0, 1_000_003, c36U64(36_000_000)},
		{"recipient-is-sender+maxblobs2", types.Withdrawals{{Index: 5, Validator: 1, Address: w.addrs[0], Amount: 1}, {Index: 6, Validator: 2, Address: c36Fresh, Amount: 0}}, common.Hash{1}, common.Hash{2}, w.addrs[2], 2, 2, c36U64(20_000_000)},
	}
}

// ---------------------------------------------------------------------------
// driver

type c36Rig struct {
	w        *c36World
	attrs    c36Attrs
	stub     *c36Pool
	builder  *core.BlockChain
	pool     *txpool.TxPool
	miner    *Miner
	importer *core.BlockChain
}

func c36NewRig(w *c36World, a c36Attrs) *c36Rig {
	// The long-lived chains run without the snapshot tree and without a clean-node cache: every
	// imported sibling would otherwise allocate a multi-megabyte diff-layer bloom filter, which
	// dominated the run time. The default configuration (snapshots on) is used by the per-block
	// fresh chains below.
	lean := *core.DefaultConfig()
	lean.SnapshotLimit = 0
	lean.TrieCleanLimit = 0
	builder, err := core.NewBlockChain(rawdb.NewMemoryDatabase(), w.gspec, w.engine, &lean)
	if err != nil {
		panic(err)
	}
	importer, err := core.NewBlockChain(rawdb.NewMemoryDatabase(), w.gspec, w.engine, &lean)
	if err != nil {
		panic(err)
	}
	stub := &c36Pool{}
	pool, err := txpool.New(1, builder, []txpool.SubPool{stub})
	if err != nil {
		panic(err)
	}
	cfg := Config{GasCeil: 30_000_000, GasPrice: big.NewInt(1), Recommit: time.Hour, MaxBlobsPerBlock: a.maxBlobs}
	return &c36Rig{w: w, attrs: a, stub: stub, builder: builder, pool: pool, importer: importer, miner: New(&c36Backend{builder, pool}, cfg, w.engine)}
}

func (g *c36Rig) close() {
	g.pool.Close()
	g.builder.Stop()
	g.importer.Stop()
}

func c36Subsets(n, maxSize int) [][]int {
	out := [][]int{{}}
	var rec func(start int, cur []int)
	rec = func(start int, cur []int) {
		for i := start; i < n; i++ {
			next := append(append([]int{}, cur...), i)
			out = append(out, next)
			if len(next) < maxSize {
				rec(i+1, next)
			}
		}
	}
	rec(0, nil)
	sort.SliceStable(out, func(i, j int) bool { return len(out[i]) < len(out[j]) })
	return out
}

func TestVerif_C36(t *testing.T) {
	mc.Run(t, "C36", func(r *mc.R) {
		maxSize := mc.Pick(r, 3, 4)
		r.Rule("rule sets {cancun, prague, osaka, amsterdam, cancun with prague scheduled but inactive (pools containing a blob transaction, incl. a 4-blob one)} x 3 payload-attribute combinations (withdrawals none / one / two incl. a zero amount and a sender, beacon root zero / set, random zero / set, fee recipient fresh / a sender, miner blob cap default / 2) " +
			"x every subset of <= max_pool_size transactions of the 23-entry alphabet as pool content (quick: subsets of 2 and 3 transactions take one attribute combination each, round robin); per case the empty and the full payload are round-tripped through engine executable data and imported on an independent chain; " +
			"distinct = distinct imported block hashes")
		r.Bound("max_pool_size", maxSize)
		r.Assume("the pool is a stub txpool.SubPool that hands the builder the enumerated content unfiltered (superset of what the real legacy/blob pools would return); blob sidecars carry dummy commitments/proofs (nothing on the build/import path verifies KZG proofs)")
		r.Assume("parent is genesis; payload timestamp = genesis time + 12; Miner.Recommit is one hour so the rebuild timer never fires")

		var replay struct {
			Fork  string   `json:"fork"`
			Attrs string   `json:"attrs"`
			Pool  []string `json:"pool"`
		}
		if r.Replaying() {
			_ = json.Unmarshal(r.ReplayDescriptor(), &replay)
		}
		type job struct {
			w      *c36World
			a      c36Attrs
			subset []int
		}
		var jobs []job
		var worlds []*c36World
		for _, f := range c36Forks() {
			w := c36NewWorld(f)
			worlds = append(worlds, w)
			subsets := c36Subsets(len(w.entries), maxSize)
			r.Bound("pools."+f.name, len(subsets))
			for ai, a := range w.attrs() {
				for si, s := range subsets {
					if f.scheduled {
						// the scheduled-fork configuration differs in blob parameters only: pools with a blob transaction
						hasBlob := false
						for _, i := range s {
							hasBlob = hasBlob || w.entries[i].tx.Type() == types.BlobTxType
						}
						if !hasBlob {
							continue
						}
					}
					// quick tier: pools of two and more transactions get one of the attribute combinations (round robin)
					if r.Quick() && len(s) >= 2 && si%len(w.attrs()) != ai {
						continue
					}
					jobs = append(jobs, job{w, a, s})
				}
			}
		}
		r.Bound("alphabet", len(worlds[0].entries))
		// one rig (builder chain + pool + miner + importer chain) per worker and (rule set, attributes)
		var rigMu sync.Mutex
		rigs := map[string][]*c36Rig{}
		var allRigs []*c36Rig
		getRig := func(w *c36World, a c36Attrs) *c36Rig {
			k := w.fork.name + "/" + a.name
			rigMu.Lock()
			if l := rigs[k]; len(l) > 0 {
				g := l[len(l)-1]
				rigs[k] = l[:len(l)-1]
				rigMu.Unlock()
				return g
			}
			rigMu.Unlock()
			g := c36NewRig(w, a)
			rigMu.Lock()
			allRigs = append(allRigs, g)
			rigMu.Unlock()
			return g
		}
		putRig := func(g *c36Rig) {
			k := g.w.fork.name + "/" + g.attrs.name
			rigMu.Lock()
			rigs[k] = append(rigs[k], g)
			rigMu.Unlock()
		}
		defer func() {
			for _, g := range allRigs {
				g.close()
			}
		}()
		r.Parallel(len(jobs), func(i int) {
			j := jobs[i]
			var names []string
			for _, s := range j.subset {
				names = append(names, j.w.entries[s].name)
			}
			if names == nil {
				names = []string{}
			}
			if r.Replaying() && (replay.Fork != j.w.fork.name || replay.Attrs != j.a.name || fmt.Sprint(replay.Pool) != fmt.Sprint(names)) {
				return
			}
			desc := map[string]any{"fork": j.w.fork.name, "attrs": j.a.name, "pool": names}
			g := getRig(j.w, j.a)
			defer putRig(g)
			r.Case(desc, func() error { return g.check(r, j.subset, i%4 == 0 || len(j.subset) <= 1, i%32 == 0 || len(j.subset) <= 1) })
			if i%211 == 0 {
				r.Sample(desc)
			}
		})
	})
}

func (g *c36Rig) check(r *mc.R, subset []int, independent, freshChain bool) error {
	w, a := g.w, g.attrs
	var content []*types.Transaction
	byHash := map[common.Hash]string{}
	inPool := map[string]bool{}
	for _, s := range subset {
		content = append(content, w.entries[s].tx)
		byHash[w.entries[s].tx.Hash()] = w.entries[s].name
		inPool[w.entries[s].name] = true
	}
	g.stub.set(content, w.signer)

	genesis := g.builder.Genesis()
	root := a.beaconRoot
	args := &BuildPayloadArgs{
		Parent: genesis.Hash(), Timestamp: genesis.Time() + 12, FeeRecipient: a.recipient, Random: a.random,
		Withdrawals: a.withdrawals, BeaconRoot: &root, Version: engine.PayloadV3,
	}
	if w.fork.amsterdam {
		args.SlotNum = c36U64(a.slot)
		args.TargetGasLimit = a.targetGas
		args.Version = engine.PayloadV4
	}
	payload, err := g.miner.BuildPayload(context.Background(), args, false)
	if err != nil {
		return fmt.Errorf("BuildPayload: %v", err)
	}
	empty := payload.ResolveEmpty()
	fullCh := make(chan *engine.ExecutionPayloadEnvelope, 1)
	go func() { fullCh <- payload.ResolveFull() }()
	var full *engine.ExecutionPayloadEnvelope
	select {
	case full = <-fullCh:
	case <-time.After(120 * time.Second):
		r.HarnessError("c36: ResolveFull did not return within 120s (full payload never built)")
		return nil
	}
	if full == nil {
		return fmt.Errorf("ResolveFull returned nil")
	}
	fullBlock, fullReceipts, _, _ := payload.FullBlockAndReceipts()

	if n := len(empty.ExecutionPayload.Transactions); n != 0 {
		return fmt.Errorf("empty payload carries %d transactions", n)
	}
	if err := g.importPayload(r, "empty", args, empty, nil, nil, independent, false); err != nil {
		return err
	}
	if err := g.importPayload(r, "full", args, full, fullBlock, fullReceipts, independent, freshChain); err != nil {
		return err
	}

	// inclusion: every included transaction comes from the pool, once, nonces in order
	seen := map[string]bool{}
	var included []string
	lastNonce := map[common.Address]uint64{}
	for _, tx := range fullBlock.Transactions() {
		name, ok := byHash[tx.Hash()]
		if !ok {
			return fmt.Errorf("block contains transaction %x that was not in the pool", tx.Hash())
		}
		if seen[name] {
			return fmt.Errorf("block contains %s twice", name)
		}
		seen[name] = true
		included = append(included, name)
		from, _ := types.Sender(w.signer, tx)
		if n, ok := lastNonce[from]; ok && tx.Nonce() <= n {
			return fmt.Errorf("nonces of %x out of order in the block", from)
		}
		lastNonce[from] = tx.Nonce()
	}
	// the naive model of what can be included (evidence that full payloads are not trivially empty)
	expected := 0
	blobsWanted := 0
	blobLimit := eip4844.MaxBlobsPerBlock(w.fork.cfg, fullBlock.Time())
	if a.maxBlobs != 0 && a.maxBlobs < blobLimit {
		blobLimit = a.maxBlobs
	}
	ordered := append([]int{}, subset...)
	sort.SliceStable(ordered, func(i, j int) bool { // better paying blob transactions are tried first
		return w.entries[ordered[i]].tx.GasTipCap().Cmp(w.entries[ordered[j]].tx.GasTipCap()) > 0
	})
	for _, s := range ordered {
		e := w.entries[s]
		ok := c36Includable(e.includable, inPool, w.fork.prague)
		if ok && e.tx.Type() == types.BlobTxType {
			blobsWanted += len(e.tx.BlobHashes())
			if blobsWanted > blobLimit {
				ok = false
				blobsWanted -= len(e.tx.BlobHashes())
			}
		}
		if ok {
			expected++
		} else if seen[e.name] && e.includable == "never" {
			return fmt.Errorf("block includes %s, which can never be executed on genesis", e.name)
		}
	}
	switch {
	case len(included) == expected:
		r.Outcome(fmt.Sprintf("full:%d-of-%d-pool-txs-included(as-modelled)", len(included), len(subset)))
	default:
		r.Outcome(fmt.Sprintf("full:included-%d-model-%d", len(included), expected))
	}
	return nil
}

// importPayload converts the envelope back into a block the way a consensus
// client's newPayload call arrives and imports it on the independent chain.
func (g *c36Rig) importPayload(r *mc.R, kind string, args *BuildPayloadArgs, env *engine.ExecutionPayloadEnvelope, built *types.Block, builtReceipts []*types.Receipt, independent, freshChain bool) error {
	w := g.w
	data := env.ExecutionPayload
	// versioned hashes as the consensus client derives them: from the bundle's commitments
	var vhashes []common.Hash
	hasher := sha256.New()
	if env.BlobsBundle != nil {
		for _, c := range env.BlobsBundle.Commitments {
			var commit kzg4844.Commitment
			copy(commit[:], c)
			vhashes = append(vhashes, kzg4844.CalcBlobHashV1(hasher, &commit))
		}
	}
	if vhashes == nil {
		vhashes = []common.Hash{}
	}
	requests := env.Requests
	if w.fork.prague && requests == nil {
		return fmt.Errorf("%s payload: no execution requests list although Prague is active", kind)
	}
	block, err := engine.ExecutableDataToBlock(*data, vhashes, args.BeaconRoot, requests)
	if err != nil {
		return fmt.Errorf("%s payload does not convert back into a block: %v", kind, err)
	}
	if built != nil && block.Hash() != built.Hash() {
		return fmt.Errorf("%s payload converts into block %x, built block is %x", kind, block.Hash(), built.Hash())
	}
	// header vs attributes
	h := block.Header()
	switch {
	case h.ParentHash != args.Parent:
		return fmt.Errorf("%s: parent hash %x", kind, h.ParentHash)
	case h.Time != args.Timestamp:
		return fmt.Errorf("%s: timestamp %d, want %d", kind, h.Time, args.Timestamp)
	case h.Coinbase != args.FeeRecipient:
		return fmt.Errorf("%s: fee recipient %x", kind, h.Coinbase)
	case h.MixDigest != args.Random:
		return fmt.Errorf("%s: prevrandao %x", kind, h.MixDigest)
	case h.ParentBeaconRoot == nil || *h.ParentBeaconRoot != *args.BeaconRoot:
		return fmt.Errorf("%s: beacon root %v", kind, h.ParentBeaconRoot)
	case len(block.Withdrawals()) != len(args.Withdrawals):
		return fmt.Errorf("%s: %d withdrawals, want %d", kind, len(block.Withdrawals()), len(args.Withdrawals))
	case h.GasUsed > h.GasLimit:
		return fmt.Errorf("%s: gas used %d above limit %d", kind, h.GasUsed, h.GasLimit)
	case w.fork.amsterdam && (h.SlotNumber == nil || *h.SlotNumber != *args.SlotNum):
		return fmt.Errorf("%s: slot number %v", kind, h.SlotNumber)
	case w.fork.amsterdam != (block.AccessList() != nil):
		return fmt.Errorf("%s: access list attached = %v", kind, block.AccessList() != nil)
	}
	for i, wd := range block.Withdrawals() {
		if *wd != *args.Withdrawals[i] {
			return fmt.Errorf("%s: withdrawal %d differs", kind, i)
		}
	}
	blobs := 0
	for _, tx := range block.Transactions() {
		blobs += len(tx.BlobHashes())
	}
	limit := eip4844.MaxBlobsPerBlock(w.fork.cfg, h.Time)
	if g.attrs.maxBlobs != 0 && g.attrs.maxBlobs < limit {
		limit = g.attrs.maxBlobs
	}
	if blobs > limit {
		return fmt.Errorf("%s: %d blobs in the block, limit %d", kind, blobs, limit)
	}
	if h.BlobGasUsed == nil {
		return fmt.Errorf("%s: no blob gas used in the header", kind)
	}
	if *h.BlobGasUsed != uint64(blobs)*params.BlobTxBlobGasPerBlob {
		return fmt.Errorf("%s: blob gas used %d for %d blobs", kind, *h.BlobGasUsed, blobs)
	}
	if env.BlobsBundle != nil && len(env.BlobsBundle.Blobs) != blobs {
		return fmt.Errorf("%s: bundle has %d blobs, block references %d", kind, len(env.BlobsBundle.Blobs), blobs)
	}
	// Import. Always on the chain instance the block was built on (what a node does with its own
	// payload: builder and importer share the chain's precompile-result, jump-destination and code
	// caches); in addition on the independent long-lived chain for every 4th case and all pools of
	// size <= 1, and on a fresh chain (below).
	importOn := func(chain *core.BlockChain, where string) error {
		if chain.HasBlock(block.Hash(), block.NumberU64()) {
			r.Outcome(kind + ":" + where + ":identical-block-already-imported")
			return nil
		}
		if _, err := chain.InsertBlockWithoutSetHead(context.Background(), block, false); err != nil {
			return fmt.Errorf("%s payload rejected by block import on %s: %v", kind, where, err)
		}
		r.Outcome(fmt.Sprintf("%s:%s:imported:txs=%d", kind, where, len(block.Transactions())))
		if len(requests) > 0 {
			r.Outcome(kind + ":" + where + ":imported:with-requests")
		}
		if builtReceipts != nil {
			got := chain.GetReceiptsByHash(block.Hash())
			if len(got) != len(builtReceipts) {
				return fmt.Errorf("%s: import on %s stored %d receipts, builder produced %d", kind, where, len(got), len(builtReceipts))
			}
			for i := range got {
				a, b := got[i], builtReceipts[i]
				if a.Status != b.Status || a.GasUsed != b.GasUsed || a.CumulativeGasUsed != b.CumulativeGasUsed || a.TxHash != b.TxHash || len(a.Logs) != len(b.Logs) || a.Bloom != b.Bloom {
					return fmt.Errorf("%s: receipt %d differs between import on %s (status %d gas %d cum %d logs %d) and builder (status %d gas %d cum %d logs %d)", kind, i, where,
						a.Status, a.GasUsed, a.CumulativeGasUsed, len(a.Logs), b.Status, b.GasUsed, b.CumulativeGasUsed, len(b.Logs))
				}
			}
		}
		return g.checkRecorders(r, kind+":"+where, chain, block)
	}
	if err := importOn(g.builder, "same-chain-instance"); err != nil {
		return err
	}
	r.DistinctHash(mc.Hash64(string(block.Hash().Bytes())))
	if independent {
		if err := importOn(g.importer, "independent-chain"); err != nil {
			return err
		}
	}
	if freshChain {
		// full import with head update on a chain created for this block only
		fresh, err := core.NewBlockChain(rawdb.NewMemoryDatabase(), w.gspec, w.engine, nil)
		if err != nil {
			return fmt.Errorf("internal: %v", err)
		}
		defer fresh.Stop()
		if n, err := fresh.InsertChain(types.Blocks{block}); err != nil {
			return fmt.Errorf("%s payload rejected by InsertChain (index %d): %v", kind, n, err)
		}
		if _, err := fresh.SetCanonical(block); err != nil {
			return fmt.Errorf("%s payload: SetCanonical: %v", kind, err)
		}
		if fresh.CurrentBlock().Hash() != block.Hash() {
			return fmt.Errorf("%s payload: head is %x after import, want %x", kind, fresh.CurrentBlock().Hash(), block.Hash())
		}
		if !fresh.HasState(h.Root) {
			return fmt.Errorf("%s payload: state %x of the imported head is not available", kind, h.Root)
		}
		r.Outcome(kind + ":InsertChain-on-fresh-chain")
	}
	return nil
}

// c36Includable evaluates the naive inclusion model of an alphabet entry.
func c36Includable(rule string, inPool map[string]bool, prague bool) bool {
	switch {
	case rule == "always":
		return true
	case rule == "never":
		return false
	case rule == "prague":
		return prague
	case strings.HasPrefix(rule, "after:"):
		return inPool[rule[6:]]
	case strings.HasPrefix(rule, "after-any:"):
		for _, n := range strings.Split(rule[10:], ",") {
			if inPool[n] {
				return true
			}
		}
		return false
	case strings.HasPrefix(rule, "unless:"):
		return !inPool[rule[7:]]
	case strings.HasPrefix(rule, "unless-prague:"):
		return !(prague && inPool[rule[14:]])
	}
	panic("c36: unknown inclusion rule " + rule)
}

// checkRecorders reads what the environment recorder transactions stored in the
// imported state and compares it with the sealed header: the block context the
// transactions ran in must be the one the header describes.
func (g *c36Rig) checkRecorders(r *mc.R, kind string, chain *core.BlockChain, block *types.Block) error {
	w := g.w
	h := block.Header()
	var envPos, slotPos = -1, -1
	for i, tx := range block.Transactions() {
		if tx.To() != nil && *tx.To() == c36EnvRec {
			envPos = i
		}
		if tx.To() != nil && *tx.To() == c36SlotRec {
			slotPos = i
		}
	}
	precPos := -1
	for i, tx := range block.Transactions() {
		if tx.To() != nil && *tx.To() == c36PrecRec {
			precPos = i
		}
	}
	if envPos < 0 && slotPos < 0 && precPos < 0 {
		return nil
	}
	st, err := chain.StateAt(h)
	if err != nil {
		return fmt.Errorf("%s: state of the imported block unavailable: %v", kind, err)
	}
	receipts := chain.GetReceiptsByHash(block.Hash())
	word := func(addr common.Address, k int) common.Hash { return st.GetState(addr, common.BigToHash(big.NewInt(int64(k)))) }
	if envPos >= 0 {
		if receipts[envPos].Status != types.ReceiptStatusSuccessful {
			return fmt.Errorf("%s: environment recorder failed", kind)
		}
		want := []common.Hash{
			common.BigToHash(h.Number), common.BigToHash(new(big.Int).SetUint64(h.Time)), h.MixDigest, common.BytesToHash(h.Coinbase[:]),
			common.BigToHash(new(big.Int).SetUint64(h.GasLimit)), common.BigToHash(h.BaseFee), common.BigToHash(eip4844.CalcBlobFee(w.fork.cfg, h)),
			common.BigToHash(w.fork.cfg.ChainID), h.ParentHash,
		}
		names := []string{"NUMBER", "TIMESTAMP", "PREVRANDAO", "COINBASE", "GASLIMIT", "BASEFEE", "BLOBBASEFEE", "CHAINID", "BLOCKHASH(N-1)"}
		for k := range want {
			if got := word(c36EnvRec, k); got != want[k] {
				return fmt.Errorf("%s: the recorder transaction observed %s = %x, the sealed header implies %x", kind, names[k], got, want[k])
			}
		}
		r.Outcome(kind + ":environment-recorded=header")
	}
	if precPos >= 0 {
		if receipts[precPos].Status != types.ReceiptStatusSuccessful {
			return fmt.Errorf("%s: precompile recorder failed (status %d, gas %d)", kind, receipts[precPos].Status, receipts[precPos].GasUsed)
		}
		level := 0
		if w.fork.prague {
			level = 1
		}
		if w.fork.osaka {
			level = 2
		}
		off := 0
		for _, c := range c36PrecCalls() {
			v := new(big.Int).SetBytes(word(c36PrecRec, off+1).Bytes())
			flag := int(v.Uint64()&0xff) - 1
			want := 1
			if c.fails && level >= c.level {
				want = 0
			}
			if flag != want {
				return fmt.Errorf("%s: precompile call %s: success flag %d in the imported state, the precompile's specification gives %d", kind, c.name, flag, want)
			}
			off += 64 + len(c.input)
		}
		r.Outcome(kind + ":precompile-results-as-specified")
	}
	if slotPos >= 0 {
		ok := receipts[slotPos].Status == types.ReceiptStatusSuccessful
		if ok != w.fork.amsterdam {
			return fmt.Errorf("%s: SLOTNUM recorder status %d on %s", kind, receipts[slotPos].Status, w.fork.name)
		}
		if w.fork.amsterdam {
			if got, want := word(c36SlotRec, 0), common.BigToHash(new(big.Int).SetUint64(*h.SlotNumber)); got != want {
				return fmt.Errorf("%s: the recorder transaction observed SLOTNUM = %x, the sealed header has %x", kind, got, want)
			}
			r.Outcome(kind + ":slotnum-recorded=header")
		}
	}
	return nil
}
