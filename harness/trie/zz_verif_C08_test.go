//go:build verif

package trie

// C08 — Merkle proofs are sound and complete.
//
// Bounded-exhaustive exploration: every trie that assigns each key of a small key
// alphabet one of {absent, v1, v2, v3} x every query key (alphabet keys + absent
// prefix/extension/sibling keys) x every proof-database variation listed in the
// Rule below. The oracle is independent of the code under test: a map for the
// values and a Yellow-Paper transcription of the Merkle-Patricia trie (own RLP,
// own hex-prefix, own "inline if < 32 bytes" rule) for root hashes, for the set of
// genuine nodes and for the exact node set a proof must consist of.

import (
	"bytes"
	"encoding/json"
	"errors"
	"fmt"
	"sort"
	"testing"

	"github.com/ethereum/go-ethereum/common"
	"github.com/ethereum/go-ethereum/crypto"
	"github.com/ethereum/go-ethereum/internal/verif/mc"
	"github.com/ethereum/go-ethereum/triedb/database"
)

// ---------------------------------------------------------------------------
// proof databases (plain maps; VerifyProof only needs Get)

type c08DB map[string][]byte

func (d c08DB) Put(k, v []byte) error      { d[string(k)] = append([]byte{}, v...); return nil }
func (d c08DB) Delete(k []byte) error      { delete(d, string(k)); return nil }
func (d c08DB) Has(k []byte) (bool, error) { _, ok := d[string(k)]; return ok, nil }
func (d c08DB) Get(k []byte) ([]byte, error) {
	v, ok := d[string(k)]
	if !ok {
		return nil, errors.New("not found")
	}
	return v, nil
}

// c08View is base minus the hashes in skip, with blob override for one hash.
type c08View struct {
	base    c08DB
	skip    map[string]bool
	ovKey   string
	ovVal   []byte
	hasOver bool
}

func (d *c08View) Has(k []byte) (bool, error) { v, _ := d.Get(k); return v != nil, nil }
func (d *c08View) Get(k []byte) ([]byte, error) {
	if d.hasOver && string(k) == d.ovKey {
		return d.ovVal, nil
	}
	if d.skip[string(k)] {
		return nil, errors.New("not found")
	}
	return d.base.Get(k)
}

// c08NodeDB serves genuine node blobs by hash to a real Trie (used to open a trie
// whose nodes are all unresolved, so that Prove takes its hashNode branch).
type c08NodeDB struct{ nodes c08DB }

func (d c08NodeDB) NodeReader(common.Hash) (database.NodeReader, error) { return d, nil }
func (d c08NodeDB) Node(_ common.Hash, _ []byte, hash common.Hash) ([]byte, error) {
	return d.nodes[string(hash[:])], nil
}

// ---------------------------------------------------------------------------
// reference Merkle-Patricia trie (Yellow Paper appendix D), fixed-length keys

func c08RlpLen(base byte, n int) []byte {
	if n < 56 {
		return []byte{base + byte(n)}
	}
	var l []byte
	for x := n; x > 0; x >>= 8 {
		l = append([]byte{byte(x)}, l...)
	}
	return append([]byte{base + 55 + byte(len(l))}, l...)
}

func c08RlpStr(b []byte) []byte {
	if len(b) == 1 && b[0] < 0x80 {
		return []byte{b[0]}
	}
	return append(c08RlpLen(0x80, len(b)), b...)
}

func c08RlpList(items ...[]byte) []byte {
	var payload []byte
	for _, it := range items {
		payload = append(payload, it...)
	}
	return append(c08RlpLen(0xc0, len(payload)), payload...)
}

func c08HP(nibbles []byte, term bool) []byte {
	f := byte(0)
	if term {
		f = 2
	}
	var all []byte
	if len(nibbles)%2 == 1 {
		all = append([]byte{f + 1}, nibbles...)
	} else {
		all = append([]byte{f, 0}, nibbles...)
	}
	out := make([]byte, len(all)/2)
	for i := range out {
		out[i] = all[2*i]<<4 | all[2*i+1]
	}
	return out
}

func c08Nibbles(k []byte) []byte {
	out := make([]byte, 0, 2*len(k))
	for _, b := range k {
		out = append(out, b>>4, b&15)
	}
	return out
}

type c08Ent struct {
	nib []byte // key nibbles (no terminator)
	val []byte
}

// c08RefNodeRec describes a node of the reference trie that is referenced by
// hash (encoding >= 32 bytes, or the root).
type c08RefNodeRec struct {
	path []byte // nibble path from the root to this node
	hash string
	enc  []byte
}

type c08Ref struct {
	root  common.Hash
	nodes []c08RefNodeRec
}

// c08BuildRef builds the reference trie over ents (sorted by key, all keys of the
// same length, no duplicates).
func c08BuildRef(ents []c08Ent) *c08Ref {
	ref := &c08Ref{}
	if len(ents) == 0 {
		ref.root = crypto.Keccak256Hash([]byte{0x80})
		return ref
	}
	enc := ref.node(ents, 0)
	ref.root = crypto.Keccak256Hash(enc)
	if len(enc) < 32 { // the root is always referenced by hash
		ref.nodes = append(ref.nodes, c08RefNodeRec{path: []byte{}, hash: string(ref.root[:]), enc: enc})
	}
	return ref
}

func (ref *c08Ref) node(ents []c08Ent, depth int) []byte {
	if len(ents) == 1 {
		enc := c08RlpList(c08RlpStr(c08HP(ents[0].nib[depth:], true)), c08RlpStr(ents[0].val))
		ref.record(ents[0].nib[:depth], enc)
		return enc
	}
	// longest common prefix below depth
	cp := 0
	for {
		if depth+cp >= len(ents[0].nib) {
			panic("c08 reference trie: duplicate or prefix keys")
		}
		c := ents[0].nib[depth+cp]
		same := true
		for _, e := range ents[1:] {
			if e.nib[depth+cp] != c {
				same = false
				break
			}
		}
		if !same {
			break
		}
		cp++
	}
	if cp > 0 {
		child := ref.node(ents, depth+cp)
		enc := c08RlpList(c08RlpStr(c08HP(ents[0].nib[depth:depth+cp], false)), c08Link(child))
		ref.record(ents[0].nib[:depth], enc)
		return enc
	}
	items := make([][]byte, 17)
	for i := range items {
		items[i] = []byte{0x80}
	}
	for i := 0; i < len(ents); {
		c := ents[i].nib[depth]
		j := i
		for j < len(ents) && ents[j].nib[depth] == c {
			j++
		}
		items[c] = c08Link(ref.node(ents[i:j], depth+1))
		i = j
	}
	enc := c08RlpList(items...)
	ref.record(ents[0].nib[:depth], enc)
	return enc
}

func (ref *c08Ref) record(path, enc []byte) {
	if len(enc) >= 32 {
		ref.nodes = append(ref.nodes, c08RefNodeRec{path: append([]byte{}, path...), hash: string(crypto.Keccak256(enc)), enc: enc})
	}
}

// c08Link is the Yellow Paper n(J,i): the node itself when shorter than 32 bytes,
// its Keccak hash otherwise.
func c08Link(enc []byte) []byte {
	if len(enc) < 32 {
		return enc
	}
	return c08RlpStr(crypto.Keccak256(enc))
}

// proofFor returns the hash-referenced nodes on the path of key: a node sitting at
// nibble path p is visited by a lookup of key iff p is a prefix of key's nibbles
// (terminator included, so nothing sits "below" a complete key).
func (ref *c08Ref) proofFor(key []byte) c08DB {
	kn := append(c08Nibbles(key), 16)
	out := c08DB{}
	for _, n := range ref.nodes {
		if bytes.HasPrefix(kn, n.path) {
			out[n.hash] = n.enc
		}
	}
	return out
}

// ---------------------------------------------------------------------------
// families

type c08Family struct {
	name   string
	keys   [][]byte // alphabet, ascending
	absent [][]byte // additional query keys never stored
}

var (
	c08V1 = []byte{0x05}                                             // tiny: leaf embeds into its parent
	c08V2 = bytes.Repeat([]byte{0xb2}, 29)                           // 2-byte-key leaves become exactly 32 bytes at depth 3 (hash/inline boundary)
	c08V3 = append(bytes.Repeat([]byte{0xc3}, 27), 0x01)             // 28 bytes: one below the boundary at the same positions
	c08Vs = [][]byte{nil, c08V1, c08V2, c08V3}
	c08Vn = []string{"-", "v1", "v2", "v3"}
)

func c08Pad32(prefix []byte, last byte) []byte {
	k := make([]byte, 32)
	copy(k, prefix)
	k[31] |= last
	return k
}

func c08Families(nkeys int) []c08Family {
	h := common.FromHex
	a := c08Family{name: "A2", keys: [][]byte{h("0x0000"), h("0x0001"), h("0x0010"), h("0x0100"), h("0x1000"), h("0x1001"), h("0x1100")}}
	a.absent = [][]byte{{}, h("0x00"), h("0x10"), h("0x000000"), h("0x100100"), h("0x0002"), h("0x0011"), h("0x00ff"), h("0x1002"), h("0x2000"), h("0xffff")}
	b := c08Family{name: "B32", keys: [][]byte{
		c08Pad32(h("0x0000"), 0), c08Pad32(h("0x0001"), 0), c08Pad32(h("0x0010"), 0), c08Pad32(h("0x0100"), 0),
		c08Pad32(h("0x1000"), 0), c08Pad32(h("0x1000"), 1), c08Pad32(h("0x1100"), 0)}}
	b.absent = [][]byte{{}, h("0x00"), c08Pad32(h("0x1000"), 0)[:31], append(c08Pad32(h("0x0000"), 0), 0), append(c08Pad32(h("0x1000"), 1), 7),
		c08Pad32(h("0x0000"), 1), c08Pad32(h("0x1000"), 2), c08Pad32(h("0x0002"), 0), c08Pad32(h("0x2000"), 0), bytes.Repeat([]byte{0xff}, 32)}
	a.keys, b.keys = a.keys[:nkeys], b.keys[:nkeys]
	for _, f := range []*c08Family{&a, &b} {
		sort.Slice(f.keys, func(i, j int) bool { return bytes.Compare(f.keys[i], f.keys[j]) < 0 })
	}
	return []c08Family{a, b}
}

// c08Digits decodes a trie index into its per-key assignment (base 4).
func c08Digits(idx, n int) []int {
	d := make([]int, n)
	for i := 0; i < n; i++ {
		d[i] = idx & 3
		idx >>= 2
	}
	return d
}

func c08DigStr(d []int) string {
	b := make([]byte, len(d))
	for i, x := range d {
		b[i] = byte('0' + x)
	}
	return string(b)
}

func c08Ents(f *c08Family, dig []int) []c08Ent {
	var ents []c08Ent
	for i, d := range dig {
		if d != 0 {
			ents = append(ents, c08Ent{nib: c08Nibbles(f.keys[i]), val: c08Vs[d]})
		}
	}
	return ents
}

func c08Model(f *c08Family, dig []int, key []byte) []byte {
	for i, k := range f.keys {
		if bytes.Equal(k, key) {
			return c08Vs[dig[i]]
		}
	}
	return nil
}

type c08Case struct {
	Fam  string `json:"fam"`
	Trie string `json:"trie"` // per alphabet key (ascending): 0 absent, 1 v1, 2 v2, 3 v3
	Key  string `json:"key"`
	Part string `json:"part"`
}

// c08Check: "verification either fails or returns the true value".
func c08Sound(val []byte, err error, want []byte) error {
	if err != nil {
		return nil
	}
	if !bytes.Equal(val, want) || (val == nil) != (want == nil) {
		return fmt.Errorf("accepted value %x, true value %x", val, want)
	}
	return nil
}

func c08Exact(val []byte, err error, want []byte) error {
	if err != nil {
		return fmt.Errorf("verification failed (%v), true value %x", err, want)
	}
	if !bytes.Equal(val, want) || (val == nil) != (want == nil) {
		return fmt.Errorf("returned %x, true value %x", val, want)
	}
	return nil
}

func c08SameDB(a, b c08DB) error {
	for k, v := range a {
		if w, ok := b[k]; !ok || !bytes.Equal(v, w) {
			return fmt.Errorf("node %x (%x) not expected on the key's path", []byte(k), v)
		}
	}
	for k, v := range b {
		if _, ok := a[k]; !ok {
			return fmt.Errorf("path node %x (%x) missing from the proof", []byte(k), v)
		}
	}
	return nil
}

func TestVerif_C08(t *testing.T) {
	mc.Run(t, "C08", func(r *mc.R) {
		nkeys := mc.Pick(r, 6, 7)
		r.Rule("per key family (A2: 2-byte keys with shared nibble prefixes; B32: 32-byte keys incl. two differing in the last nibble): ALL tries assigning each " +
			"alphabet key one of {absent,v1(1 byte, embedded leaf),v2(29 bytes: 32-byte leaf = hash/inline boundary),v3(28 bytes)} x every alphabet key and ~11 never-stored keys " +
			"(empty, strict prefix, extension, siblings, 0xff..) x proof database in {Prove output (fresh trie, and trie re-opened from unresolved hash nodes), " +
			"Prove output minus EVERY non-empty subset of its nodes, all genuine nodes of ALL tries of the family, that set minus each single proof node, " +
			"Prove output verified against the root of each single-assignment-edit neighbour trie, each proof node replaced by each of its truncations}; " +
			"plus family S: StateTrie (keys stored under their Keccak-256) over every non-empty assignment of the 6 A2 keys x 9 query keys, honest proofs only; " +
			"distinct = (root,key) pairs; evaluations = VerifyProof/Prove executions")
		r.Bound("keys_per_family", nkeys)
		r.Bound("values", 3)
		r.Assume("reference = map for values + Yellow-Paper MPT transcription (own RLP/hex-prefix/inline rule) for roots, genuine node sets and the exact node set of a proof")
		r.Assume("proof databases are keyed by the Keccak-256 of the stored blob (as every caller builds them); collision resistance of Keccak-256")
		r.Assume("truncated-blob variants are outside the statement's 'genuine nodes' premise: only absence of panics (and no accepted wrong value) is demanded there")

		// replay: only the trie named by the descriptor is rebuilt and checked
		var only c08Case
		if d := r.ReplayDescriptor(); d != nil {
			json.Unmarshal(d, &only)
		}
		for _, fam := range c08Families(nkeys) {
			fam := fam
			ntries := 1 << (2 * nkeys)
			if only.Fam != "" && only.Fam != fam.name {
				continue
			}
			// pass 1: reference tries, roots and the family-wide genuine node set
			refs := make([]*c08Ref, ntries)
			r.Parallel(ntries, func(i int) {
				refs[i] = c08BuildRef(c08Ents(&fam, c08Digits(i, nkeys)))
			})
			if r.Expired() {
				return
			}
			family := c08DB{}
			for _, ref := range refs {
				for _, n := range ref.nodes {
					family[n.hash] = n.enc
				}
			}
			r.Bound(fam.name+".tries", ntries)
			r.Bound(fam.name+".genuine_nodes_in_family", len(family))
			queries := append(append([][]byte{}, fam.keys...), fam.absent...)
			r.Bound(fam.name+".query_keys", len(queries))

			owner := map[string]int{} // node hash -> first trie index containing it
			for ti, ref := range refs {
				for _, n := range ref.nodes {
					if _, ok := owner[n.hash]; !ok {
						owner[n.hash] = ti
					}
				}
			}
			r.Parallel(ntries, func(ti int) {
				local := map[string]int64{}
				truncDone := map[string]bool{}
				dig := c08Digits(ti, nkeys)
				ds := c08DigStr(dig)
				if only.Trie != "" && only.Trie != ds {
					return
				}
				ref := refs[ti]
				// real trie, insertion order alternates
				tr := NewEmpty(nil)
				order := make([]int, 0, nkeys)
				for i := range dig {
					if ti&1 == 0 {
						order = append(order, i)
					} else {
						order = append(order, nkeys-1-i)
					}
				}
				for _, i := range order {
					if dig[i] != 0 {
						tr.MustUpdate(fam.keys[i], c08Vs[dig[i]])
					}
				}
				root := tr.Hash()
				r.Case(c08Case{fam.name, ds, "", "root"}, func() error {
					if root != ref.root {
						return fmt.Errorf("Trie.Hash %x != reference MPT root %x", root, ref.root)
					}
					return nil
				})
				// the same trie with every node unresolved (opened from the reference node set)
				var cold *Trie
				if len(ref.nodes) > 0 {
					var err error
					cold, err = New(TrieID(ref.root), c08NodeDB{family})
					if err != nil {
						r.Violation(fmt.Sprintf("open:%s:%s", fam.name, ds), "cannot open trie from reference nodes: "+err.Error(), nil)
						cold = nil
					}
				}
				if len(ref.nodes) == 0 {
					// The empty trie has no node at all: Prove emits nothing. The statement still demands that verifying
					// what the trie produced yields "nothing" for every key (kept strict; one case per family).
					r.Case(c08Case{fam.name, ds, "*", "empty-trie"}, func() error {
						for _, key := range queries {
							proof := c08DB{}
							if err := tr.Prove(key, proof); err != nil {
								return fmt.Errorf("Prove(%x): %v", key, err)
							}
							if len(proof) != 0 {
								return fmt.Errorf("empty trie produced proof nodes for key %x", key)
							}
							val, err := VerifyProof(root, key, proof)
							if err == nil {
								local["empty-trie:absent"]++
							} else {
								local["empty-trie:error"]++
							}
							if e := c08Exact(val, err, nil); e != nil {
								return fmt.Errorf("empty trie (root %x), key %x, proof produced by Prove = no nodes: %v", root, key, e)
							}
						}
						return nil
					})
				}
				for _, key := range queries {
					ks := fmt.Sprintf("%x", key)
					want := c08Model(&fam, dig, key)
					wantProof := ref.proofFor(key)
					proof := c08DB{}
					// (1) completeness, Prove exactness
					r.Case(c08Case{fam.name, ds, ks, "honest"}, func() error {
						if err := tr.Prove(key, proof); err != nil {
							return fmt.Errorf("Prove: %v", err)
						}
						if len(ref.nodes) == 0 {
							// empty trie: there is no node at all; handled by the "empty" case below
							return nil
						}
						if err := c08SameDB(proof, wantProof); err != nil {
							return fmt.Errorf("Prove output differs from the reference path nodes: %v", err)
						}
						val, err := VerifyProof(root, key, proof)
						return c08Exact(val, err, want)
					})
					if len(ref.nodes) == 0 {
						continue // the empty trie is checked once per family below
					}
					local["honest:"+map[bool]string{true: "present", false: "absent"}[want != nil]]++
					r.DistinctHash(mc.Hash64(string(root[:]) + "|" + ks + "|honest"))
					if cold != nil {
						r.Case(c08Case{fam.name, ds, ks, "unresolved"}, func() error {
							p2 := c08DB{}
							if err := cold.Prove(key, p2); err != nil {
								return fmt.Errorf("Prove on unresolved trie: %v", err)
							}
							if err := c08SameDB(p2, wantProof); err != nil {
								return fmt.Errorf("Prove (unresolved trie) differs from the reference path nodes: %v", err)
							}
							val, err := VerifyProof(root, key, p2)
							return c08Exact(val, err, want)
						})
					}
					// (2) every non-empty subset of the proof removed
					hashes := make([]string, 0, len(proof))
					for h := range proof {
						hashes = append(hashes, h)
					}
					sort.Strings(hashes)
					r.Case(c08Case{fam.name, ds, ks, "subsets"}, func() error {
						for m := 1; m < 1<<len(hashes); m++ {
							skip := map[string]bool{}
							for i, h := range hashes {
								if m>>i&1 == 1 {
									skip[h] = true
								}
							}
							val, err := VerifyProof(root, key, &c08View{base: proof, skip: skip})
							if err != nil {
								local["subset:error"]++
							} else {
								local["subset:accepted"]++
							}
							if e := c08Sound(val, err, want); e != nil {
								return fmt.Errorf("proof minus nodes mask %b: %v", m, e)
							}
						}
						if len(hashes) > 1 {
							r.Eval(int64(1<<len(hashes)) - 2)
						}
						return nil
					})
					// (3) all genuine nodes of the whole family; minus each proof node
					r.Case(c08Case{fam.name, ds, ks, "family"}, func() error {
						val, err := VerifyProof(root, key, family)
						if e := c08Exact(val, err, want); e != nil {
							return fmt.Errorf("family-wide node set: %v", e)
						}
						for _, h := range hashes {
							val, err := VerifyProof(root, key, &c08View{base: family, skip: map[string]bool{h: true}})
							if err != nil {
								local["family-minus-1:error"]++
							} else {
								local["family-minus-1:accepted"]++
							}
							if e := c08Sound(val, err, want); e != nil {
								return fmt.Errorf("family-wide node set minus %x: %v", []byte(h), e)
							}
						}
						r.Eval(int64(len(hashes)))
						return nil
					})
					// (4) mismatched root: the proof of this trie against each neighbour's root
					r.Case(c08Case{fam.name, ds, ks, "wrong-root"}, func() error {
						n := 0
						for pos := 0; pos < nkeys; pos++ {
							for alt := 0; alt < 4; alt++ {
								if alt == dig[pos] {
									continue
								}
								ni := ti&^(3<<(2*pos)) | alt<<(2*pos)
								nd := c08Digits(ni, nkeys)
								nroot := refs[ni].root
								if nroot == root {
									continue
								}
								n++
								val, err := VerifyProof(nroot, key, proof)
								if err != nil {
									local["wrong-root:error"]++
								} else {
									local["wrong-root:accepted-true-value-of-other-trie"]++
								}
								if e := c08Sound(val, err, c08Model(&fam, nd, key)); e != nil {
									return fmt.Errorf("proof of trie %s verified against root of trie %s: %v", ds, c08DigStr(nd), e)
								}
							}
						}
						if n > 1 {
							r.Eval(int64(n) - 1)
						}
						return nil
					})
					// (5) truncated blobs under the expected hash: no panic, no wrong value
					r.Case(c08Case{fam.name, ds, ks, "truncated"}, func() error {
						n := 0
						for _, h := range hashes {
							blob := proof[h]
							if !r.Replaying() {
								// every distinct genuine node is truncated once: in the first trie (by index) that contains
								// it, under the first query key whose path visits it
								if owner[h] != ti || truncDone[h] {
									continue
								}
								truncDone[h] = true
							}
							for l := 0; l < len(blob); l++ {
								n++
								val, err := VerifyProof(root, key, &c08View{base: proof, hasOver: true, ovKey: h, ovVal: blob[:l:l]})
								if err != nil {
									local["truncated:error"]++
								} else {
									local["truncated:accepted"]++
								}
								if e := c08Sound(val, err, want); e != nil {
									return fmt.Errorf("node %x truncated to %d bytes: %v", []byte(h), l, e)
								}
							}
						}
						r.Eval(int64(n))
						return nil
					})
				}
				if ti%509 == 0 {
					r.Sample(map[string]any{"fam": fam.name, "trie": ds, "root": fmt.Sprintf("%x", root), "path_nodes_of_first_key": len(ref.proofFor(fam.keys[0]))})
				}
				for k, v := range local {
					r.OutcomeN(fam.name+"/"+k, v)
				}
			})
			if r.Expired() {
				return
			}
		}
		// StateTrie (secure trie): keys are stored under their Keccak-256; Prove takes the hashed key.
		if only.Fam == "" || only.Fam == "S" {
			famA := c08Families(6)[0]
			queries := append(append([][]byte{}, famA.keys...), common.FromHex("0x0002"), common.FromHex("0xffff"), []byte{})
			local := map[string]int64{}
			for ti := 1; ti < 1<<12; ti++ {
				dig := c08Digits(ti, 6)
				ds := c08DigStr(dig)
				if only.Trie != "" && only.Trie != ds {
					continue
				}
				var ents []c08Ent
				st, err := NewStateTrie(TrieID(crypto.Keccak256Hash([]byte{0x80})), c08NodeDB{c08DB{}})
				if err != nil {
					r.Violation("S:open", err.Error(), nil)
					break
				}
				for i, d := range dig {
					if d != 0 {
						st.MustUpdate(famA.keys[i], c08Vs[d])
						ents = append(ents, c08Ent{nib: c08Nibbles(crypto.Keccak256(famA.keys[i])), val: c08Vs[d]})
					}
				}
				sort.Slice(ents, func(i, j int) bool { return bytes.Compare(ents[i].nib, ents[j].nib) < 0 })
				ref := c08BuildRef(ents)
				root := st.Hash()
				for _, key := range queries {
					hk := crypto.Keccak256(key)
					want := c08Model(&famA, dig, key)
					r.Case(c08Case{"S", ds, fmt.Sprintf("%x", key), "secure"}, func() error {
						if root != ref.root {
							return fmt.Errorf("StateTrie.Hash %x != reference root %x", root, ref.root)
						}
						proof := c08DB{}
						if err := st.Prove(hk, proof); err != nil {
							return fmt.Errorf("Prove: %v", err)
						}
						if err := c08SameDB(proof, ref.proofFor(hk)); err != nil {
							return fmt.Errorf("StateTrie.Prove output differs from the reference path nodes: %v", err)
						}
						val, err := VerifyProof(root, hk, proof)
						if want != nil {
							local["secure:present"]++
						} else {
							local["secure:absent"]++
						}
						return c08Exact(val, err, want)
					})
					r.DistinctHash(mc.Hash64("S" + string(root[:]) + "|" + string(key)))
				}
			}
			for k, v := range local {
				r.OutcomeN("S/"+k, v)
			}
			r.Bound("S.tries", 1<<12-1)
		}
	})
}
