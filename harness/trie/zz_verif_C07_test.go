//go:build verif

package trie

import (
	"bytes"
	"fmt"
	"os"
	"runtime/debug"
	"sort"
	"strings"
	"testing"

	"github.com/ethereum/go-ethereum/common"
	"github.com/ethereum/go-ethereum/crypto"
	"github.com/ethereum/go-ethereum/internal/verif/mc"
)

type c07Case struct {
	Alpha string `json:"alpha"`
	Base  string `json:"base"`  // committed set (value index per key) the trie is opened on
	Mode  string `json:"mode"`  // update = one Update call per entry; batch = one UpdateBatch call
	Batch string `json:"batch"` // per key: s = untouched, 1 = v1, 2 = v2, d = empty value
	Order string `json:"order"`
	// Hot: the modification is preceded by >100 net-zero Update calls (values toggled and restored), so that
	// Trie.uncommitted/unhashed exceed their thresholds and the PARALLEL hasher and committer paths are taken
	// (per-child node sets merged with MergeDisjoint) for the very same expected result.
	Hot bool `json:"hot,omitempty"`
}

// c07Rule describes the enumeration shared by the two commit steps.
const c07Rule = "alphabets K1 (2-byte keys, deep shared prefixes), KB (2-byte, 4 root children), KB32 (32-byte) x committed base set (quick: 64 subsets x " +
	"alternating short/long values, KB32 modifications over {untouched,v2,empty} only; thorough: all 729 assignments, KB32 the 176 patterned bases) x every modification in {untouched,v1,v2,empty}^6 (4096) " +
	"applied by Update calls (step commits-update: K1; thorough also KB) or by one UpdateBatch call (step commits-batch: KB, KB32), then Commit; " +
	"distinct = distinct (alphabet, mode, base set, new set); " +
	"plus (commits-update), for each of the 3^6 sets of K1,K2,KB,KB32: StackTrie OnTrieNode emissions vs the nodes committed by a fresh trie vs the reference nodes"

// TestVerif_C07_commits_update enumerates (committed base set x modification): the trie is
// opened on the canonical node image of the base, modified with Update calls, committed; the
// returned NodeSet is applied to a path-scheme and to a hash-scheme copy of the base image.
// It also checks the streaming builder's node emissions for every set.
func TestVerif_C07_commits_update(t *testing.T) {
	mc.Run(t, "C07", func(r *mc.R) {
		c07Commits(r, "update")
		if !r.Expired() && os.Getenv("VERIF_C07_HALF") != "1" {
			c07Emissions(r)
		}
	})
}

// TestVerif_C07_commits_batch is the same enumeration with the modification applied by one
// real UpdateBatch call (alphabets with four root children, so that the concurrent path runs).
func TestVerif_C07_commits_batch(t *testing.T) {
	mc.Run(t, "C07", func(r *mc.R) {
		c07Commits(r, "batch")
	})
}

func c07Commits(r *mc.R, mode string) {
	{
		defer debug.SetGCPercent(debug.SetGCPercent(300))
		allBases := mc.Pick(r, false, true)
		r.Rule(c07Rule)
		r.Assume("reference = independent Yellow-Paper MPT (own RLP, hex-prefix, embedding rule): root and the exact set of stored nodes path->blob (root plus every node >= 32 bytes)")
		r.Assume("the base store is the reference image of the base set; every commit is checked to reproduce the reference image exactly (path scheme), so by induction no other image is reachable through commits")
		r.Assume("store semantics: path scheme = write blob at path / delete at path; hash scheme = write blob under its hash, never delete")
		bases := c06BaseModels(allBases)
		r.Bound("modification_space_per_base", 4096)
		type shard struct {
			a    *c06Alpha
			base c06Model
			mode string
		}
		var shards []shard
		for _, cfg := range []struct {
			a    *c06Alpha
			mode string
		}{{c06AlphaK1(), "update"}, {c06AlphaKB(), "update"}, {c06AlphaKB(), "batch"}, {c06AlphaKB32(), "batch"}} {
			if cfg.mode != mode || (!allBases && cfg.a.Name == "KB" && cfg.mode == "update") {
				continue // quick: Update calls on K1, UpdateBatch on KB/KB32
			}
			for _, b := range bases {
				if allBases && cfg.a.Name == "KB32" && !c06IsPattern(b) {
					continue // thorough, 32-byte keys: the 176 patterned bases (values do not change the node structure)
				}
				if !allBases && cfg.a.Name == "KB32" && !c06Alternating(b) {
					continue // 32-byte keys: leaves are hashed nodes whatever the value; quick keeps one value pattern per subset
				}
				if !allBases && !c06Alternating(b) {
					continue // quick: one value pattern (alternating short/long) per subset
				}
				shards = append(shards, shard{cfg.a, b, cfg.mode})
			}
		}
		// The update enumeration is split over two steps (environment VERIF_C07_HALF=0|1 keeps the
		// shards of that parity) so that each stays well inside its time budget on a loaded machine;
		// together they cover every shard.
		if h := os.Getenv("VERIF_C07_HALF"); h == "0" || h == "1" {
			var keep []shard
			for i, sh := range shards {
				if i%2 == int(h[0]-'0') {
					keep = append(keep, sh)
				}
			}
			r.Bound("shards_total", len(shards))
			r.Bound("half", h)
			shards = keep
		}
		r.Bound("shards(alphabet,mode,base)", len(shards))
		r.Parallel(len(shards), func(si int) {
			sh := shards[si]
			a := sh.a
			baseRef := a.ref(sh.base)
			outcomes := map[string]int64{}
			for bi := 0; bi < 4096; bi++ {
				var batch [c06NKeys]uint8
				x := bi
				desc := make([]byte, c06NKeys)
				final := sh.base
				for k := 0; k < c06NKeys; k++ {
					batch[k] = uint8(x & 3)
					x >>= 2
					desc[k] = "s12d"[batch[k]]
					switch batch[k] {
					case 1, 2:
						final[k] = batch[k]
					case 3:
						final[k] = 0
					}
				}
				if !allBases && a.Name == "KB32" && strings.ContainsRune(string(desc), '1') {
					continue // quick, 32-byte keys: both values give hashed leaves; only {untouched, v2, empty}^6 (729 modifications)
				}
				order := "asc"
				if bi&1 == 1 {
					order = "desc"
				}
				finalRef := a.ref(final)
				hot := bi%4 == 2
				c := c07Case{a.Name, sh.base.String(), sh.mode, string(desc), order, hot}
				var outcome string
				r.Case(c, func() error {
					pstore := c06NewMapStore(c06Path, baseRef)
					tr, err := New(TrieID(baseRef.root), pstore)
					if err != nil {
						return fmt.Errorf("open base: %v", err)
					}
					if hot {
						// churn: 102 writes toggling ONE key (rotating with the case number) between the two non-empty values, then
						// restoring it: the other root children stay clean (and, with short values, embedded in the root), which is the
						// situation the parallel committer treats specially; every 3rd hot case churns all keys instead.
						churn := []int{(bi / 4) % c06NKeys}
						if (bi/4)%3 == 2 {
							churn = []int{0, 1, 2, 3, 4, 5}
						}
						for j := 0; j < 102; j++ {
							k := churn[j%len(churn)]
							if err := tr.Update(a.Keys[k], c06Vals[1+(j/len(churn))%2]); err != nil {
								return fmt.Errorf("churn Update: %v", err)
							}
						}
						for _, k := range churn {
							if err := tr.Update(a.Keys[k], c06Vals[sh.base[k]]); err != nil {
								return fmt.Errorf("churn restore: %v", err)
							}
						}
					}
					var keys, vals [][]byte
					for i := 0; i < c06NKeys; i++ {
						k := i
						if order == "desc" {
							k = c06NKeys - 1 - i
						}
						if batch[k] == 0 {
							continue
						}
						keys = append(keys, a.Keys[k])
						vals = append(vals, c06Vals[batch[k]%3])
					}
					if sh.mode == "batch" {
						if err := tr.UpdateBatch(keys, vals); err != nil {
							return fmt.Errorf("UpdateBatch: %v", err)
						}
					} else {
						for i := range keys {
							if err := tr.Update(keys[i], vals[i]); err != nil {
								return fmt.Errorf("Update(%x): %v", keys[i], err)
							}
						}
					}
					root, set := tr.Commit(false)
					if root != finalRef.root {
						return fmt.Errorf("Commit root %x, reference root of %s is %x", root, final, finalRef.root)
					}
					hstore := c06NewMapStore(c06Hash, baseRef)
					if set == nil {
						outcome = "nodeset:nil"
					} else {
						u, d := set.Size()
						switch {
						case u > 0 && d > 0:
							outcome = "nodeset:writes+deletes"
						case u > 0:
							outcome = "nodeset:writes"
						case d > 0:
							outcome = "nodeset:deletes"
						default:
							outcome = "nodeset:empty"
						}
						if err := c06CheckNodeSet(set, baseRef.nodes, finalRef.nodes); err != nil {
							return err
						}
						pstore.apply(set)
						hstore.apply(set)
					}
					if err := c06CheckImage(c06Path, pstore.m, finalRef); err != nil {
						return fmt.Errorf("%v (nodeset nil=%v)", err, set == nil)
					}
					if err := c06CheckImage(c06Hash, hstore.m, finalRef); err != nil {
						return err
					}
					// The path image is now known to be identical to the reference image; the new root is
					// read back completely (Hash, Get, full iteration) from the hash store, whose content
					// is a superset and is only addressed through the hashes found while descending.
					t2, err := New(TrieID(root), hstore)
					if err != nil {
						return fmt.Errorf("reopen new root from the hash store: %v", err)
					}
					if err := c06CheckRead(t2, a, final); err != nil {
						return fmt.Errorf("new root read from the hash store: %v", err)
					}
					if _, err := New(TrieID(root), pstore); err != nil {
						return fmt.Errorf("reopen new root from the path store: %v", err)
					}
					return nil
				})
				if outcome != "" {
					outcomes[outcome]++
					if hot {
						outcomes["hot(parallel-commit-path):"+outcome]++
					}
				}
				r.DistinctHash(mc.Hash64(a.Name + sh.mode + sh.base.String() + final.String()))
				if bi == 1+si%4095 && si%97 == 0 {
					r.Sample(c)
				}
			}
			for k, n := range outcomes {
				r.OutcomeN(k, n)
			}
		})
	}
}

// c07Emissions: streaming builder emissions == nodes committed by the regular trie == reference nodes.
func c07Emissions(r *mc.R) {
	{
		type emitted struct {
			hash common.Hash
			blob []byte
		}
		for _, a := range []*c06Alpha{c06AlphaK1(), c06AlphaK2(), c06AlphaKB(), c06AlphaKB32()} {
			r.Parallel(c06NModels, func(mi int) {
				m := c06ModelOf(mi)
				ref := a.ref(m)
				c := map[string]any{"alpha": a.Name, "set": m.String(), "part": "stacktrie-emissions"}
				r.Case(c, func() error {
					em := map[string]emitted{}
					var dup error
					st := NewStackTrie(func(path []byte, hash common.Hash, blob []byte) {
						if _, ok := em[string(path)]; ok && dup == nil {
							dup = fmt.Errorf("StackTrie emitted path %x twice", path)
						}
						em[string(path)] = emitted{hash, common.CopyBytes(blob)}
					})
					for _, l := range ref.leaves {
						if err := st.Update(l.key, l.val); err != nil {
							return err
						}
					}
					if h := st.Hash(); h != ref.root {
						return fmt.Errorf("StackTrie root %x, reference %x", h, ref.root)
					}
					if dup != nil {
						return dup
					}
					paths := make([]string, 0, len(em))
					for p := range em {
						paths = append(paths, p)
					}
					sort.Strings(paths)
					for _, p := range paths {
						e := em[p]
						want, ok := ref.nodes[p]
						if !ok {
							return fmt.Errorf("StackTrie emitted a node at path %x (%x); the trie of %s stores no node there", p, e.blob, m)
						}
						if !bytes.Equal(e.blob, want) {
							return fmt.Errorf("StackTrie emitted %x at path %x, reference node is %x", e.blob, p, want)
						}
						if crypto.Keccak256Hash(e.blob) != e.hash {
							return fmt.Errorf("StackTrie emitted hash %x for blob %x at path %x", e.hash, e.blob, p)
						}
					}
					for _, p := range c06SortedKeys(ref.nodes) {
						if _, ok := em[p]; !ok {
							return fmt.Errorf("StackTrie did not emit the node at path %x of the trie of %s", p, m)
						}
					}
					// the regular trie, same set, committed from scratch
					tr := NewEmpty(c06NewMapStore(c06Path, nil))
					for _, l := range ref.leaves {
						if err := tr.Update(l.key, l.val); err != nil {
							return err
						}
					}
					root, set := tr.Commit(false)
					if root != ref.root {
						return fmt.Errorf("Commit root %x, reference %x", root, ref.root)
					}
					n := 0
					if set != nil {
						for _, p := range paths {
							nd, ok := set.Nodes[p]
							if !ok || nd.IsDeleted() || nd.Hash != em[p].hash || !bytes.Equal(nd.Blob, em[p].blob) {
								return fmt.Errorf("node at path %x: StackTrie emitted %x, regular commit has %v", p, em[p].blob, nd)
							}
						}
						n = len(set.Nodes)
					}
					if n != len(em) {
						return fmt.Errorf("regular commit holds %d nodes, StackTrie emitted %d", n, len(em))
					}
					return nil
				})
				r.DistinctHash(mc.Hash64("set" + a.Name + m.String()))
				r.OutcomeN(fmt.Sprintf("emissions:stored-nodes=%d", len(ref.nodes)), 1)
			})
		}
	}
}

// TestVerif_C07_generations explores commit generations: BFS over histories of
// updates, deletions, batches and commit+reopen, where every commit is checked
// (node set content, previous values, exact store image) on the real rawdb key space,
// under the path scheme and under the hash scheme.
func TestVerif_C07_generations(t *testing.T) {
	mc.Run(t, "C07", func(r *mc.R) {
		defer debug.SetGCPercent(debug.SetGCPercent(300))
		depth := mc.Pick(r, 5, 6)
		r.Rule("BFS over operation sequences from the empty trie, any number of commit generations within the depth; alphabet = Update(k,v1|v2) x6, " +
			"Update(k,empty) x6, Delete(k) x6, hash+iterate, getall, copy, commit+reopen, UpdateBatch(all keys = v1 | v2 | empty) (31 ops); state = (model set, " +
			"committed set, complete white-box fingerprint of the live trie incl. both tracers, store image); at every commit: root, every NodeSet entry " +
			"(blob, hash, recorded previous value vs the store before the commit), store image after applying the set vs the reference nodes of the new " +
			"set (path scheme: identical; hash scheme: superset), then the reopened trie is read completely")
		r.Assume("reference = independent Yellow-Paper MPT: root and exact stored-node set")
		r.Assume("stores = real rawdb trie-node key spaces on memorydb (rawdb.WriteTrieNode / DeleteTrieNode / ReadTrieNode); hash-scheme nodes are never deleted")
		for _, cfg := range []struct {
			a      *c06Alpha
			scheme string
			depth  int
		}{{c06AlphaK1(), c06Path, depth}, {c06AlphaK1(), c06Hash, depth - 1}, {c06AlphaKB(), c06Path, depth - 1}, {c06AlphaK2(), c06Path, depth - 1}} {
			a := cfg.a
			ops := c06Ops(true)
			names := make([]string, len(ops))
			for i, o := range ops {
				names[i] = o.name
			}
			r.Explore(mc.Config{
				Name:  "gen-" + a.Name + "-" + cfg.scheme,
				Ops:   names,
				Depth: cfg.depth,
				New: func() mc.Sys {
					return c06NewSys(a, ops, c06NewRawStore(cfg.scheme), true)
				},
			})
			if r.Expired() {
				break
			}
		}
	})
}
