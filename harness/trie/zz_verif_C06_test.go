//go:build verif

package trie

import (
	"bytes"
	"fmt"
	"runtime/debug"
	"strings"
	"sync/atomic"
	"testing"

	"github.com/ethereum/go-ethereum/common"
	"github.com/ethereum/go-ethereum/crypto"
	"github.com/ethereum/go-ethereum/internal/verif/mc"
)

// TestVerif_C06_histories: explicit-state exploration of operation histories on one
// trie (Update / Update-with-empty-value / Delete / Hash+iterate / Get / Copy /
// Commit+reopen from the rawdb key space). After every transition the trie (a Copy of
// it, so the explored object keeps its unhashed/unresolved state) must hash to the
// Yellow-Paper reference root of the model set, return exactly the set through Get
// and yield exactly the set, ascending, through NodeIterator.
func TestVerif_C06_histories(t *testing.T) {
	mc.Run(t, "C06", func(r *mc.R) {
		defer debug.SetGCPercent(debug.SetGCPercent(300)) // allocation-heavy, tiny live heap
		depthK1 := mc.Pick(r, 5, 7)
		depthK2 := mc.Pick(r, 4, 6)
		r.Rule("BFS over operation sequences from the empty trie; alphabet = Update(k,v1|v2) x6 keys, Update(k,empty) x6, Delete(k) x6, " +
			"hash+iterate, getall, copy, commit+reopen, churn100(k0) and churn100(k5)+hash = 102 toggling + 1 restoring Update on one key, net-zero, " +
			"which pushes Trie.unhashed/uncommitted over the parallel hasher/committer thresholds anywhere in a history (30 ops); a state = (model set, committed set, white-box fingerprint of the live trie: " +
			"complete node graph with cached hashes and dirty flags, both tracers, threshold flags, store image); states are merged only when " +
			"this whole implementation state is identical, so every distinct in-memory shape of the same set is kept apart; every transition " +
			"is executed on the real trie and checked against the reference")
		r.Assume("reference = independent Yellow-Paper MPT (own RLP, hex-prefix, embedding rule) + crypto.Keccak256; a map from key to value is the model")
		r.Assume("the read-side oracle runs on Trie.Copy() of the explored trie (Copy is exercised on every transition); the live trie is only read by the explicit hash/get ops")
		r.Assume("node store = real rawdb path-scheme key space on memorydb; a state's future depends only on the fingerprinted fields (Trie has no other fields)")
		var nodesSeen atomic.Int64
		for _, cfg := range []struct {
			a     *c06Alpha
			depth int
		}{{c06AlphaK1(), depthK1}, {c06AlphaK2(), depthK2}} {
			a := cfg.a
			ops := c06OpsHot()
			names := make([]string, len(ops))
			for i, o := range ops {
				names[i] = o.name
			}
			r.Explore(mc.Config{
				Name:  "hist-" + a.Name,
				Ops:   names,
				Depth: cfg.depth,
				New: func() mc.Sys {
					s := c06NewSys(a, ops, c06NewRawStore(c06Path), false)
					s.onCommit = func(u, d int) { nodesSeen.Add(int64(u + d)) }
					return s
				},
			})
			if r.Expired() {
				break
			}
		}
		r.Bound("nodeset_entries_applied", nodesSeen.Load())
	})
}

type c06BatchCase struct {
	Alpha string `json:"alpha"`
	Base  string `json:"base"`  // value index per key before the batch
	Prep  string `json:"prep"`  // state of the base trie: fresh (never hashed) / hashed / committed and reopened
	Batch string `json:"batch"` // per key: s = not in batch, 1 = v1, 2 = v2, d = empty value
	Order string `json:"order"` // order of the batch entries
	Dup   string `json:"dup"`   // "" or "k<i>=<v>": a second entry for the first batch key, appended at the end (later entry wins)
	// Hot: "" | "churn(k<i>)": the batch is preceded, without hashing in between, by 102 toggling + 1 restoring Update
	// calls on that key (net-zero), so Trie.unhashed is >= 100 when the result is hashed (parallel hasher) |
	// "big-batch": the batch entries are preceded, inside the same UpdateBatch call, by rounds of toggling entries
	// for the same keys (>= 100 entries in total, later entry wins)
	Hot string `json:"hot,omitempty"`
}

// c06BatchPath predicts (for the outcome histogram only, never for the verdict) which
// path UpdateBatch takes, from the documented rule.
func c06BatchPath(a *c06Alpha, base c06Model, batch [c06NKeys]uint8, dupKey int, dupVal uint8, bigN int) string {
	n := 0
	for _, b := range batch {
		if b != 0 {
			n++
		}
	}
	if dupKey >= 0 {
		n++
	}
	if n > 0 && bigN > 0 {
		n = bigN
	}
	var child, del [16]bool
	for k, v := range base {
		if v != 0 {
			child[a.Keys[k][0]>>4] = true
		}
	}
	nchild := 0
	for _, c := range child {
		if c {
			nchild++
		}
	}
	if n == 0 {
		return "empty-batch"
	}
	if n < parallelUpdateThreshold {
		return "sequential:small-batch"
	}
	if nchild < 2 {
		return "sequential:root-not-branch"
	}
	for k, b := range batch {
		if b == 3 || (k == dupKey && dupVal == 3) {
			del[a.Keys[k][0]>>4] = true
		}
	}
	surv := 0
	for i := range child {
		if child[i] && !del[i] {
			surv++
		}
	}
	if surv < 2 {
		return "sequential:collapse-guard"
	}
	return "concurrent"
}

// TestVerif_C06_batches: the complete (base set x batch) space through the real
// UpdateBatch, plus the streaming builder and the secure trie over every set.
func TestVerif_C06_batches(t *testing.T) {
	mc.Run(t, "C06", func(r *mc.R) {
		allBases := mc.Pick(r, false, true)
		defer debug.SetGCPercent(debug.SetGCPercent(300)) // allocation-heavy, tiny live heap
		r.Rule("batches: alphabets KB (2-byte keys, 4 root children) and KB32 (32-byte keys) x base set (quick: all 64 subsets x value patterns {alternating: hashed and committed, all long: committed}, KB32 alternating, committed, batches over {skip,v2,empty} only; " +
			"thorough: KB all 729 value assignments hashed and committed plus the 176 patterned bases never hashed, KB32 the 176 patterned bases) x base preparation {fresh, hashed, committed+reopened} x every batch in {skip,v1,v2,empty}^6 (4096) " +
			"applied with one real UpdateBatch call (goroutines run free; the oracle does not depend on the schedule); plus, for KB with alternating " +
			"base values, every non-empty batch with a second, different entry for its first key appended (later entry wins); a deterministic quarter " +
			"of the plain cases is hot: either the batch is preceded (no Hash in between) by 102 toggling + 1 restoring Update calls on one key inside or " +
			"outside the batch, or the batch itself is blown up to >= 100 entries with toggling entries for its own keys, so that the result is hashed by " +
			"the parallel hasher (Trie.unhashed >= 100), incl. roots with a child encoding to < 32 bytes; distinct = distinct " +
			"(alphabet, preparation, base set, resulting set). sets: every one of the 3^6 value assignments of K1,K2,KB,KB32 built by StackTrie " +
			"(ascending), by a fresh Trie in ascending and descending insertion order and by StateTrie, each compared with the reference")
		r.Assume("reference = independent Yellow-Paper MPT (own RLP, hex-prefix, embedding rule) + crypto.Keccak256")
		r.Assume("UpdateBatch's goroutines are scheduled by the Go runtime (not enumerated here; the schedule exploration is a separate step); batch entries are distinct keys except in the dup cases")
		r.Bound("batch_space_per_base", 4096)
		r.Bound("parallelUpdateThreshold", parallelUpdateThreshold)

		bases := c06BaseModels(allBases)
		// "fresh" (no cached hash anywhere) is the least discriminating preparation: thorough only
		preps := mc.Pick(r, []string{"hashed", "committed"}, []string{"fresh", "hashed", "committed"})
		r.Bound("base_preparations", preps)
		alphas := []*c06Alpha{c06AlphaKB(), c06AlphaKB32()}
		type shard struct {
			a    *c06Alpha
			base c06Model
			prep string
			dup  bool // append a second, different entry for the first key of the batch
		}
		var shards []shard
		for _, a := range alphas {
			for _, b := range bases {
				if !allBases && a.Name == "KB32" && !c06Alternating(b) {
					continue // 32-byte keys: every leaf is a hashed node whatever the value; quick keeps one value pattern per subset
				}
				if !allBases && c06AllShort(b) {
					continue // quick: bases whose whole trie is embedded in the root node are left to thorough
				}
				if allBases && a.Name == "KB32" && !c06IsPattern(b) {
					continue // thorough, 32-byte keys: the 176 patterned bases (values do not change the node structure)
				}
				for _, p := range preps {
					if !allBases && p == "hashed" && (a.Name == "KB32" || !c06Alternating(b)) {
						continue // quick: the hashed preparation only for KB with alternating values
					}
					if allBases && p == "fresh" && !c06IsPattern(b) {
						continue // thorough: the never-hashed preparation on the 176 patterned bases
					}
					shards = append(shards, shard{a, b, p, false})
				}
				if a.Name == "KB" && c06Alternating(b) && (allBases || len(a.ref(b).leaves) >= 3) {
					shards = append(shards, shard{a, b, "hashed", true})
				}
			}
		}
		r.Bound("shards(alphabet,base,preparation,dup)", len(shards))
		r.Parallel(len(shards), func(si int) {
			sh := shards[si]
			a := sh.a
			outcomes := map[string]int64{}
			// The prepared base trie is built once per shard with the real operations; every batch
			// runs on a deep Copy of it.
			var baseTrie *Trie
			mkBase := func() error {
				store := c06NewMapStore(c06Path, nil)
				tr := NewEmpty(store)
				for k, v := range sh.base {
					if v != 0 {
						if err := tr.Update(a.Keys[k], c06Vals[v]); err != nil {
							return err
						}
					}
				}
				switch sh.prep {
				case "hashed":
					if h := tr.Hash(); h != a.ref(sh.base).root {
						return fmt.Errorf("base Hash()=%x want %x", h, a.ref(sh.base).root)
					}
				case "committed":
					root, set := tr.Commit(false)
					if root != a.ref(sh.base).root {
						return fmt.Errorf("base Commit root %x want %x", root, a.ref(sh.base).root)
					}
					if set != nil {
						store.apply(set)
					}
					var err error
					if tr, err = New(TrieID(root), store); err != nil {
						return fmt.Errorf("reopen base: %v", err)
					}
				}
				baseTrie = tr
				return nil
			}
			for bi := 0; bi < 4096; bi++ {
				var batch [c06NKeys]uint8 // 0 skip, 1 v1, 2 v2, 3 empty value
				x := bi
				desc := make([]byte, c06NKeys)
				final := sh.base
				for k := 0; k < c06NKeys; k++ {
					batch[k] = uint8(x & 3)
					x >>= 2
					desc[k] = "s12d"[batch[k]]
					switch batch[k] {
					case 1, 2:
						final[k] = batch[k]
					case 3:
						final[k] = 0
					}
				}
				if !allBases && a.Name == "KB32" && strings.ContainsRune(string(desc), '1') {
					continue // quick, 32-byte keys: both values give hashed leaves; only {skip, v2, empty}^6 (729 batches)
				}
				// entry order: ascending, or descending for odd batch numbers
				order := "asc"
				if bi&1 == 1 {
					order = "desc"
				}
				// duplicate entry: the first key of the batch (in entry order) gets a second entry with the
				// next value of the cycle v1 -> v2 -> empty -> v1, appended last; the later entry wins
				dupKey, dupVal, dupDesc := -1, uint8(0), ""
				if sh.dup {
					for i := 0; i < c06NKeys; i++ {
						k := i
						if order == "desc" {
							k = c06NKeys - 1 - i
						}
						if batch[k] != 0 {
							dupKey, dupVal = k, batch[k]%3+1
							break
						}
					}
					if dupKey < 0 {
						continue // empty batch: nothing to duplicate
					}
					final[dupKey] = dupVal % 3
					dupDesc = fmt.Sprintf("k%d=%c", dupKey, "s12d"[dupVal])
				}
				// hot variants on a pseudo-randomly (multiplicative hash of shard and batch number, so
				// deterministic and unbiased w.r.t. the batch digits) chosen quarter of the plain cases
				hot, churnKey, bigN := "", -1, 0
				if !sh.dup {
					h := uint32(si*4096+bi) * 2654435761
					switch h >> 29 {
					case 1:
						churnKey = int(h>>20) % c06NKeys
						hot = fmt.Sprintf("churn(k%d)", churnKey)
					case 5:
						if bi != 0 {
							hot = "big-batch"
						}
					}
				}
				c := c06BatchCase{a.Name, sh.base.String(), sh.prep, string(desc), order, dupDesc, hot}
				r.Case(c, func() error {
					if baseTrie == nil {
						if err := mkBase(); err != nil {
							return err
						}
					}
					tr := baseTrie.Copy() // deep copy; the store is only read from here on
					if churnKey >= 0 {
						if err := c06Churn(tr, a, churnKey, sh.base[churnKey]); err != nil {
							return err
						}
					}
					var keys, vals [][]byte
					var inBatch []int
					for i := 0; i < c06NKeys; i++ {
						k := i
						if order == "desc" {
							k = c06NKeys - 1 - i
						}
						if batch[k] != 0 {
							inBatch = append(inBatch, k)
						}
					}
					if hot == "big-batch" {
						// rounds of toggling entries (v1/v2) for the batch's keys before the real entries
						rounds := 100/len(inBatch) + 1
						for rd := 0; rd < rounds; rd++ {
							for _, k := range inBatch {
								keys = append(keys, a.Keys[k])
								vals = append(vals, c06Vals[1+(rd+k)%2])
							}
						}
					}
					for _, k := range inBatch {
						keys = append(keys, a.Keys[k])
						vals = append(vals, c06Vals[batch[k]%3])
					}
					if dupKey >= 0 {
						keys = append(keys, a.Keys[dupKey])
						vals = append(vals, c06Vals[dupVal%3])
					}
					if err := tr.UpdateBatch(keys, vals); err != nil {
						return fmt.Errorf("UpdateBatch: %v", err)
					}
					return c06CheckRead(tr, a, final)
				})
				if hot == "big-batch" {
					n := 0
					for _, b := range batch {
						if b != 0 {
							n++
						}
					}
					bigN = n * (100/n + 2)
				}
				label := c06BatchPath(a, sh.base, batch, dupKey, dupVal, bigN)
				if sh.dup {
					label = "dup-entry/" + label
				}
				if churnKey >= 0 {
					label = "hot-churn/" + label
				} else if hot != "" {
					label = "hot-big-batch/" + label
				}
				outcomes[label]++
				r.DistinctHash(mc.Hash64(a.Name + sh.prep + dupDesc + hot + sh.base.String() + final.String()))
				if bi == 1+si%4095 && si%97 == 0 {
					r.Sample(c)
				}
			}
			for k, n := range outcomes {
				r.OutcomeN(k, n)
			}
		})
		if r.Expired() {
			return
		}

		// ---- every set: streaming builder, insertion orders, secure trie
		for _, a := range []*c06Alpha{c06AlphaK1(), c06AlphaK2(), alphas[0], alphas[1]} {
			// reference for the secure trie: keys are Keccak(key)
			r.Parallel(c06NModels, func(mi int) {
				m := c06ModelOf(mi)
				ref := a.ref(m)
				c := map[string]any{"alpha": a.Name, "set": m.String(), "part": "builders"}
				r.Case(c, func() error {
					st := NewStackTrie(nil)
					for _, l := range ref.leaves {
						if err := st.Update(l.key, l.val); err != nil {
							return fmt.Errorf("StackTrie.Update(%x): %v", l.key, err)
						}
					}
					if h := st.Hash(); h != ref.root {
						return fmt.Errorf("StackTrie root %x, reference %x", h, ref.root)
					}
					for _, desc := range []bool{false, true} {
						tr := NewEmpty(c06NewMapStore(c06Path, nil))
						for i := range ref.leaves {
							l := ref.leaves[i]
							if desc {
								l = ref.leaves[len(ref.leaves)-1-i]
							}
							if err := tr.Update(l.key, l.val); err != nil {
								return err
							}
						}
						if err := c06CheckRead(tr, a, m); err != nil {
							return fmt.Errorf("fresh trie (descending=%v): %v", desc, err)
						}
					}
					// secure trie: same set under hashed keys
					var hashed []c06Leaf
					sec, err := NewStateTrie(TrieID(common.Hash{}), c06NewMapStore(c06Path, nil))
					if err != nil {
						return err
					}
					for _, l := range ref.leaves {
						hashed = append(hashed, c06Leaf{crypto.Keccak256(l.key), l.val})
						sec.MustUpdate(l.key, l.val)
					}
					wantRoot, _ := c06RefTrie(hashed)
					if h := sec.Hash(); h != wantRoot {
						return fmt.Errorf("StateTrie root %x, reference over hashed keys %x", h, wantRoot)
					}
					for _, l := range ref.leaves {
						if got := sec.MustGet(l.key); !bytes.Equal(got, l.val) {
							return fmt.Errorf("StateTrie.Get(%x)=%x want %x", l.key, got, l.val)
						}
					}
					// delete every short value again
					var rest []c06Leaf
					for i, l := range ref.leaves {
						if len(l.val) == 1 {
							sec.MustDelete(l.key)
						} else {
							rest = append(rest, hashed[i])
						}
					}
					wantRoot, _ = c06RefTrie(rest)
					if h := sec.Hash(); h != wantRoot {
						return fmt.Errorf("StateTrie root after deleting short values %x, reference %x", h, wantRoot)
					}
					return nil
				})
				r.DistinctHash(mc.Hash64("set" + a.Name + m.String()))
				r.OutcomeN(fmt.Sprintf("set-size-%d", len(ref.leaves)), 1)
			})
		}
	})
}
