//go:build verif

package trie

// Shared support for the C06 and C07 harnesses (both owned by the same engineer;
// every identifier is prefixed c06). It contains
//   - the key alphabets and the value alphabet,
//   - an independent reference Merkle-Patricia-trie written from the Yellow Paper
//     (appendix D): root hash and the set of stored nodes (path -> RLP blob) of a
//     key-value set, with its own RLP and hex-prefix encoders,
//   - two node stores implementing database.NodeDatabase: a plain Go map (cheap to
//     clone, used by the big enumerations) and the real rawdb trie-node key space on a
//     memorydb (used by the history explorations),
//   - the read-side oracle (Hash / Get / NodeIterator against the reference),
//   - the explicit-state system used by mc.Explore for operation histories.

import (
	"bytes"
	"fmt"
	"sort"
	"strings"

	"github.com/ethereum/go-ethereum/common"
	"github.com/ethereum/go-ethereum/core/rawdb"
	"github.com/ethereum/go-ethereum/crypto"
	"github.com/ethereum/go-ethereum/ethdb/memorydb"
	"github.com/ethereum/go-ethereum/internal/verif/mc"
	"github.com/ethereum/go-ethereum/trie/trienode"
	"github.com/ethereum/go-ethereum/triedb/database"
)

// ---------------------------------------------------------------------------
// alphabets

const c06NKeys = 6
const c06NModels = 729 // 3^6

// value alphabet: index 0 = absent / delete, 1 = short value (its leaf is embedded in
// the parent for 2-byte keys), 2 = 40-byte value (its leaf is always a hashed node).
var c06Vals = [3][]byte{nil, {0x11}, bytes.Repeat([]byte{0xee}, 40)}

// c06Model is the reference state: value index per key of the alphabet.
type c06Model [c06NKeys]uint8

func (m c06Model) String() string {
	var b [c06NKeys]byte
	for i, v := range m {
		b[i] = '0' + v
	}
	return string(b[:])
}

func (m c06Model) idx() int {
	x := 0
	for i := c06NKeys - 1; i >= 0; i-- {
		x = x*3 + int(m[i])
	}
	return x
}

func c06ModelOf(idx int) c06Model {
	var m c06Model
	for i := 0; i < c06NKeys; i++ {
		m[i] = uint8(idx % 3)
		idx /= 3
	}
	return m
}

type c06Leaf struct {
	key []byte
	val []byte
}

// c06Ref is the reference result for one key-value set.
type c06Ref struct {
	root   common.Hash
	nodes  map[string][]byte      // nibble path -> RLP blob of every stored (root or >=32 byte) node
	hashes map[string]common.Hash // nibble path -> Keccak256 of that blob
	leaves []c06Leaf              // ascending key order
}

type c06Alpha struct {
	Name  string
	Keys  [][]byte // ascending
	Probe [][]byte // keys that are never inserted (siblings, absent branches, a proper prefix)
	refs  []*c06Ref
}

func c06Pad(b0, b1, last byte) []byte {
	k := make([]byte, 32)
	k[0], k[1] = b0, b1
	k[31] = last
	return k
}

func c06NewAlpha(name string, keys, probe [][]byte) *c06Alpha {
	a := &c06Alpha{Name: name, Keys: keys, Probe: probe}
	for i := 1; i < len(keys); i++ {
		if bytes.Compare(keys[i-1], keys[i]) >= 0 {
			panic("alphabet keys must ascend")
		}
	}
	a.refs = make([]*c06Ref, c06NModels)
	for i := 0; i < c06NModels; i++ {
		m := c06ModelOf(i)
		var kvs []c06Leaf
		for k, v := range m {
			if v != 0 {
				kvs = append(kvs, c06Leaf{keys[k], c06Vals[v]})
			}
		}
		root, nodes := c06RefTrie(kvs)
		hashes := make(map[string]common.Hash, len(nodes))
		for p, b := range nodes {
			hashes[p] = crypto.Keccak256Hash(b)
		}
		a.refs[i] = &c06Ref{root: root, nodes: nodes, hashes: hashes, leaves: kvs}
	}
	return a
}

func (a *c06Alpha) ref(m c06Model) *c06Ref { return a.refs[m.idx()] }

// K1: deep shared prefixes (two root children, collapses on several levels), 2-byte keys.
func c06AlphaK1() *c06Alpha {
	return c06NewAlpha("K1",
		[][]byte{{0x00, 0x00}, {0x00, 0x01}, {0x00, 0x10}, {0x01, 0x00}, {0x10, 0x00}, {0x10, 0x01}},
		[][]byte{{0x00, 0x02}, {0x11, 0x00}, {0x20, 0x00}, {0x00}})
}

// K2: 32-byte keys; k0/k1 differ only in the very last nibble, k2 shares three nibbles with them.
func c06AlphaK2() *c06Alpha {
	return c06NewAlpha("K2",
		[][]byte{c06Pad(0, 0, 0), c06Pad(0, 0, 1), c06Pad(0, 0x01, 0), c06Pad(0, 0x10, 0), c06Pad(0x01, 0, 0), c06Pad(0x10, 0, 0)},
		[][]byte{c06Pad(0, 0, 2), c06Pad(0x11, 0, 0), c06Pad(0x20, 0, 0), make([]byte, 31)})
}

// KB: four root children (first nibbles 0,0,1,1,2,3): the concurrent UpdateBatch path with
// deletions needs at least three root children. 2-byte keys.
func c06AlphaKB() *c06Alpha {
	return c06NewAlpha("KB",
		[][]byte{{0x00, 0x00}, {0x00, 0x01}, {0x10, 0x00}, {0x11, 0x00}, {0x20, 0x00}, {0x30, 0x00}},
		[][]byte{{0x00, 0x02}, {0x12, 0x00}, {0x40, 0x00}, {0x00}})
}

// KB32: the same shape with 32-byte keys (every leaf is a hashed node).
func c06AlphaKB32() *c06Alpha {
	return c06NewAlpha("KB32",
		[][]byte{c06Pad(0, 0, 0), c06Pad(0, 0, 1), c06Pad(0x10, 0, 0), c06Pad(0x11, 0, 0), c06Pad(0x20, 0, 0), c06Pad(0x30, 0, 0)},
		[][]byte{c06Pad(0, 0, 2), c06Pad(0x12, 0, 0), c06Pad(0x40, 0, 0), make([]byte, 31)})
}

// c06BaseModels returns the base sets of the batch enumeration.
func c06BaseModels(all bool) []c06Model {
	var out []c06Model
	if all {
		for i := 0; i < c06NModels; i++ {
			out = append(out, c06ModelOf(i))
		}
		return out
	}
	// every subset of the keys with three value patterns: all short, all long, alternating
	seen := map[c06Model]bool{}
	for sub := 0; sub < 1<<c06NKeys; sub++ {
		for pat := 0; pat < 3; pat++ {
			var m c06Model
			for k := 0; k < c06NKeys; k++ {
				if sub>>k&1 == 1 {
					switch pat {
					case 0:
						m[k] = 1
					case 1:
						m[k] = 2
					default:
						m[k] = uint8(1 + (k+sub)%2)
					}
				}
			}
			if !seen[m] {
				seen[m] = true
				out = append(out, m)
			}
		}
	}
	return out
}

// c06IsPattern reports whether m is one of the patterned bases (a subset with all-short,
// all-long or alternating values), i.e. a member of c06BaseModels(false).
func c06IsPattern(m c06Model) bool {
	if c06Alternating(m) {
		return true
	}
	var first uint8
	for _, v := range m {
		if v != 0 {
			if first == 0 {
				first = v
			} else if v != first {
				return false
			}
		}
	}
	return true
}

// c06AllShort reports whether m is non-empty and holds only short values.
func c06AllShort(m c06Model) bool {
	n := 0
	for _, v := range m {
		if v == 2 {
			return false
		}
		n += int(v)
	}
	return n > 0
}

func c06Alternating(m c06Model) bool {
	sub := 0
	for k, v := range m {
		if v != 0 {
			sub |= 1 << k
		}
	}
	for k, v := range m {
		if v != 0 && v != uint8(1+(k+sub)%2) {
			return false
		}
	}
	return true
}

// ---------------------------------------------------------------------------
// reference MPT (Yellow Paper, appendix D), independent of package trie's encoders

func c06RlpLen(n int, short, long byte) []byte {
	if n < 56 {
		return []byte{short + byte(n)}
	}
	var be []byte
	for x := n; x > 0; x >>= 8 {
		be = append([]byte{byte(x)}, be...)
	}
	return append([]byte{long + byte(len(be))}, be...)
}

func c06RlpStr(b []byte) []byte {
	if len(b) == 1 && b[0] < 0x80 {
		return []byte{b[0]}
	}
	return append(c06RlpLen(len(b), 0x80, 0xb7), b...)
}

func c06RlpList(payload []byte) []byte {
	return append(c06RlpLen(len(payload), 0xc0, 0xf7), payload...)
}

// c06HP is the hex-prefix encoding of a nibble sequence with terminator flag t.
func c06HP(nib []byte, t bool) []byte {
	f := byte(0)
	if t {
		f = 2
	}
	var all []byte
	if len(nib)%2 == 1 {
		all = append([]byte{f + 1}, nib...)
	} else {
		all = append([]byte{f, 0}, nib...)
	}
	out := make([]byte, len(all)/2)
	for i := range out {
		out[i] = all[2*i]<<4 | all[2*i+1]
	}
	return out
}

func c06Nibbles(key []byte) []byte {
	out := make([]byte, 0, 2*len(key))
	for _, b := range key {
		out = append(out, b>>4, b&15)
	}
	return out
}

type c06NibKV struct {
	nib []byte
	val []byte
}

// c06RefNode returns c(J, depth): the RLP structure of the node spanning kvs, which
// are sorted, non-empty and agree on nib[:depth]. All keys have the same length, so
// no key ends inside a branch (the 17th branch item is always empty).
func c06RefNode(kvs []c06NibKV, depth int, nodes map[string][]byte) []byte {
	if len(kvs) == 1 {
		return c06RlpList(append(c06RlpStr(c06HP(kvs[0].nib[depth:], true)), c06RlpStr(kvs[0].val)...))
	}
	first, last := kvs[0].nib, kvs[len(kvs)-1].nib
	j := depth
	for j < len(first) && first[j] == last[j] {
		j++
	}
	if j >= len(first) {
		panic("c06RefNode: duplicate key")
	}
	if j > depth { // extension
		child := c06RefNode(kvs, j, nodes)
		return c06RlpList(append(c06RlpStr(c06HP(first[depth:j], false)), c06RefRef(child, first[:j], nodes)...))
	}
	var payload []byte
	i := 0
	for n := byte(0); n < 16; n++ {
		s := i
		for i < len(kvs) && kvs[i].nib[depth] == n {
			i++
		}
		if s == i {
			payload = append(payload, 0x80)
			continue
		}
		child := c06RefNode(kvs[s:i], depth+1, nodes)
		payload = append(payload, c06RefRef(child, kvs[s].nib[:depth+1], nodes)...)
	}
	payload = append(payload, 0x80)
	return c06RlpList(payload)
}

// c06RefRef is n(J, i): how a parent refers to a child structure: the structure itself
// when shorter than 32 bytes, else its Keccak hash (and the node is a stored node).
func c06RefRef(enc []byte, path []byte, nodes map[string][]byte) []byte {
	if len(enc) < 32 {
		return enc
	}
	nodes[string(path)] = enc
	return c06RlpStr(crypto.Keccak256(enc))
}

// c06RefTrie returns the root hash and the stored nodes (nibble path -> blob) of the set.
func c06RefTrie(set []c06Leaf) (common.Hash, map[string][]byte) {
	nodes := map[string][]byte{}
	if len(set) == 0 {
		return common.BytesToHash(crypto.Keccak256([]byte{0x80})), nodes
	}
	kvs := make([]c06NibKV, len(set))
	for i, l := range set {
		kvs[i] = c06NibKV{c06Nibbles(l.key), l.val}
	}
	sort.Slice(kvs, func(a, b int) bool { return bytes.Compare(kvs[a].nib, kvs[b].nib) < 0 })
	enc := c06RefNode(kvs, 0, nodes)
	nodes[""] = enc
	return common.BytesToHash(crypto.Keccak256(enc)), nodes
}

// ---------------------------------------------------------------------------
// node stores

const (
	c06Path = "path"
	c06Hash = "hash"
)

type c06Store interface {
	database.NodeDatabase
	apply(set *trienode.NodeSet)
	dump() map[string][]byte // path scheme: nibble path -> blob; hash scheme: hash -> blob
	scheme() string
}

// c06MapStore keeps the node image in a Go map.
type c06MapStore struct {
	sch string
	m   map[string][]byte
}

// c06NewMapStore returns a store holding the stored nodes of ref (nil: empty store).
func c06NewMapStore(scheme string, ref *c06Ref) *c06MapStore {
	s := &c06MapStore{sch: scheme}
	if ref == nil {
		s.m = make(map[string][]byte, 8)
		return s
	}
	s.m = make(map[string][]byte, len(ref.nodes)+8)
	for p, b := range ref.nodes {
		if scheme == c06Path {
			s.m[p] = b
		} else {
			h := ref.hashes[p]
			s.m[string(h[:])] = b
		}
	}
	return s
}

func (s *c06MapStore) scheme() string { return s.sch }
func (s *c06MapStore) NodeReader(common.Hash) (database.NodeReader, error) {
	return s, nil
}
func (s *c06MapStore) Node(owner common.Hash, path []byte, hash common.Hash) ([]byte, error) {
	if s.sch == c06Hash {
		return s.m[string(hash[:])], nil
	}
	blob := s.m[string(path)]
	if len(blob) == 0 {
		return nil, nil
	}
	if crypto.Keccak256Hash(blob) != hash {
		return nil, fmt.Errorf("store: node at path %x has hash %x, wanted %x", path, crypto.Keccak256Hash(blob), hash)
	}
	return blob, nil
}
func (s *c06MapStore) apply(set *trienode.NodeSet) {
	for p, n := range set.Nodes {
		if s.sch == c06Hash {
			if !n.IsDeleted() {
				s.m[string(n.Hash[:])] = n.Blob
			}
			continue
		}
		if n.IsDeleted() {
			delete(s.m, p)
		} else {
			s.m[p] = n.Blob
		}
	}
}
func (s *c06MapStore) dump() map[string][]byte { return s.m }

// c06RawStore keeps the nodes in the real rawdb trie-node key space of a memorydb,
// written and deleted with the rawdb accessors the trie databases use when flushing.
type c06RawStore struct {
	sch string
	db  *memorydb.Database
}

func c06NewRawStore(scheme string) *c06RawStore {
	return &c06RawStore{sch: scheme, db: memorydb.New()}
}
func (s *c06RawStore) scheme() string { return s.sch }
func (s *c06RawStore) NodeReader(common.Hash) (database.NodeReader, error) {
	return s, nil
}
func (s *c06RawStore) Node(owner common.Hash, path []byte, hash common.Hash) ([]byte, error) {
	return rawdb.ReadTrieNode(s.db, owner, path, hash, s.sch), nil
}
func (s *c06RawStore) apply(set *trienode.NodeSet) {
	// bottom-up order like the real flush; the order is irrelevant for the final image
	set.ForEachWithOrder(func(p string, n *trienode.Node) {
		if n.IsDeleted() {
			if s.sch == c06Path {
				rawdb.DeleteTrieNode(s.db, set.Owner, []byte(p), n.Hash, s.sch)
			}
			return
		}
		rawdb.WriteTrieNode(s.db, set.Owner, []byte(p), n.Hash, n.Blob, s.sch)
	})
}
func (s *c06RawStore) dump() map[string][]byte {
	out := map[string][]byte{}
	it := s.db.NewIterator(nil, nil)
	defer it.Release()
	for it.Next() {
		k := it.Key()
		if s.sch == c06Path {
			// Not rawdb.ResolveAccountTrieNodeKey: it rejects 64-nibble paths, which do occur here
			// (two 32-byte keys differing only in the last nibble give leaf nodes at depth 64).
			if !bytes.HasPrefix(k, rawdb.TrieNodeAccountPrefix) {
				out["?"+string(k)] = common.CopyBytes(it.Value())
				continue
			}
			out[string(k[len(rawdb.TrieNodeAccountPrefix):])] = common.CopyBytes(it.Value())
		} else {
			out[string(k)] = common.CopyBytes(it.Value())
		}
	}
	return out
}

func c06SortedKeys(m map[string][]byte) []string {
	ks := make([]string, 0, len(m))
	for k := range m {
		ks = append(ks, k)
	}
	sort.Strings(ks)
	return ks
}

// c06CheckImage compares a store image with the reference node set: under the path
// scheme they must be identical (no stale, no missing node); under the hash scheme
// every reference node must be present under its hash (old nodes are never deleted).
func c06CheckImage(scheme string, img map[string][]byte, r *c06Ref) error {
	ref := r.nodes
	if scheme == c06Hash {
		for _, p := range c06SortedKeys(ref) {
			h := r.hashes[p] // Keccak256 of ref[p], precomputed
			if !bytes.Equal(img[string(h[:])], ref[p]) {
				return fmt.Errorf("hash store misses node %x (path %x) of the new trie", h, p)
			}
		}
		return nil
	}
	for _, p := range c06SortedKeys(ref) {
		got, ok := img[p]
		if !ok {
			return fmt.Errorf("path store misses node at path %x (want %x)", p, ref[p])
		}
		if !bytes.Equal(got, ref[p]) {
			return fmt.Errorf("path store holds wrong node at path %x: %x want %x", p, got, ref[p])
		}
	}
	for _, p := range c06SortedKeys(img) {
		if _, ok := ref[p]; !ok {
			return fmt.Errorf("path store holds stale node at path %x (%x), not part of the new trie", p, img[p])
		}
	}
	return nil
}

// c06CheckNodeSet checks the per-node content of a committed NodeSet against the image
// of the trie it was derived from (prev) and the reference image of the new trie.
func c06CheckNodeSet(set *trienode.NodeSet, prev, next map[string][]byte) error {
	if len(set.Nodes) != len(set.Origins) {
		return fmt.Errorf("nodeset has %d nodes but %d origins", len(set.Nodes), len(set.Origins))
	}
	paths := make([]string, 0, len(set.Nodes))
	for p := range set.Nodes {
		paths = append(paths, p)
	}
	sort.Strings(paths)
	for _, p := range paths {
		n := set.Nodes[p]
		org, ok := set.Origins[p]
		if !ok {
			return fmt.Errorf("nodeset entry %x has no origin", p)
		}
		if !bytes.Equal(org, prev[p]) {
			return fmt.Errorf("nodeset entry %x (deleted=%v) records previous value %x, the base store holds %x", p, n.IsDeleted(), org, prev[p])
		}
		if n.IsDeleted() {
			if n.Hash != (common.Hash{}) {
				return fmt.Errorf("deleted entry %x carries hash %x", p, n.Hash)
			}
			continue
		}
		if crypto.Keccak256Hash(n.Blob) != n.Hash {
			return fmt.Errorf("nodeset entry %x: hash %x is not the hash of its blob %x", p, n.Hash, n.Blob)
		}
		if !bytes.Equal(n.Blob, next[p]) {
			return fmt.Errorf("nodeset entry %x writes %x, the new trie has %x at that path", p, n.Blob, next[p])
		}
	}
	return nil
}

// ---------------------------------------------------------------------------
// read-side oracle

// c06CheckRead checks Hash, Get (all alphabet keys and the probe keys) and a full
// NodeIterator walk of t against the reference for model m. It hashes t and may
// resolve nodes into it, so callers that continue with t pass a Copy.
func c06CheckRead(t *Trie, a *c06Alpha, m c06Model) error {
	ref := a.ref(m)
	if h := t.Hash(); h != ref.root {
		return fmt.Errorf("Hash()=%x, reference root of set %s is %x", h, m, ref.root)
	}
	for i, k := range a.Keys {
		got, err := t.Get(k)
		if err != nil {
			return fmt.Errorf("Get(%x): %v", k, err)
		}
		if !bytes.Equal(got, c06Vals[m[i]]) {
			return fmt.Errorf("Get(%x)=%x, set %s has %x", k, got, m, c06Vals[m[i]])
		}
	}
	for _, k := range a.Probe {
		got, err := t.Get(k)
		if err != nil {
			return fmt.Errorf("Get(%x): %v", k, err)
		}
		if len(got) != 0 {
			return fmt.Errorf("Get(absent %x)=%x", k, got)
		}
	}
	return c06CheckIter(t, a, m)
}

// c06CheckIter walks the whole trie with NodeIterator: leaves must be exactly the
// set in ascending order; the nodes reported with a hash must be exactly the
// reference's stored nodes (same path, same hash).
func c06CheckIter(t *Trie, a *c06Alpha, m c06Model) error {
	ref := a.ref(m)
	it, err := t.NodeIterator(nil)
	if err != nil {
		return fmt.Errorf("NodeIterator: %v", err)
	}
	li, hashed := 0, 0
	for it.Next(true) {
		if it.Leaf() {
			if li >= len(ref.leaves) {
				return fmt.Errorf("iterator yields extra leaf %x=%x (set %s)", it.LeafKey(), it.LeafBlob(), m)
			}
			w := ref.leaves[li]
			if !bytes.Equal(it.LeafKey(), w.key) || !bytes.Equal(it.LeafBlob(), w.val) {
				return fmt.Errorf("iterator leaf #%d is %x=%x, want %x=%x (set %s)", li, it.LeafKey(), it.LeafBlob(), w.key, w.val, m)
			}
			li++
			continue
		}
		if h := it.Hash(); h != (common.Hash{}) {
			want, ok := ref.hashes[string(it.Path())]
			if !ok {
				return fmt.Errorf("iterator reports hashed node %x at path %x, the reference trie of %s stores no node there", h, it.Path(), m)
			}
			if want != h {
				return fmt.Errorf("iterator node at path %x has hash %x, reference %x", it.Path(), h, want)
			}
			hashed++
		}
	}
	if err := it.Error(); err != nil {
		return fmt.Errorf("iterator error: %v", err)
	}
	if li != len(ref.leaves) {
		return fmt.Errorf("iterator yields %d leaves, set %s has %d", li, m, len(ref.leaves))
	}
	if hashed != len(ref.nodes) {
		return fmt.Errorf("iterator reports %d hashed nodes, reference trie of %s stores %d", hashed, m, len(ref.nodes))
	}
	return nil
}

// ---------------------------------------------------------------------------
// white-box fingerprint of a live trie (everything its future behaviour depends on)

func c06FPNode(w *strings.Builder, n node) {
	switch n := n.(type) {
	case nil:
		w.WriteString("_")
	case valueNode:
		fmt.Fprintf(w, "V%x.", []byte(n))
	case hashNode:
		fmt.Fprintf(w, "H%x.", []byte(n))
	case *shortNode:
		fmt.Fprintf(w, "S%x,%x,%v(", n.Key, []byte(n.flags.hash), n.flags.dirty)
		c06FPNode(w, n.Val)
		w.WriteString(")")
	case *fullNode:
		fmt.Fprintf(w, "F%x,%v(", []byte(n.flags.hash), n.flags.dirty)
		for _, c := range &n.Children {
			c06FPNode(w, c)
		}
		w.WriteString(")")
	default:
		fmt.Fprintf(w, "?%T", n)
	}
}

func c06Fingerprint(t *Trie) string {
	var w strings.Builder
	c06FPNode(&w, t.root)
	// the counters only matter through these two thresholds
	fmt.Fprintf(&w, "|c=%v,uh=%v,uc=%v|ins:", t.committed, t.unhashed >= 100, t.uncommitted > 100)
	var ks []string
	for k := range t.opTracer.inserts {
		ks = append(ks, k)
	}
	sort.Strings(ks)
	for _, k := range ks {
		fmt.Fprintf(&w, "%x,", k)
	}
	w.WriteString("|del:")
	ks = ks[:0]
	for k := range t.opTracer.deletes {
		ks = append(ks, k)
	}
	sort.Strings(ks)
	for _, k := range ks {
		fmt.Fprintf(&w, "%x,", k)
	}
	w.WriteString("|prev:")
	for _, k := range c06SortedKeys(t.prevalueTracer.data) {
		fmt.Fprintf(&w, "%x=%x,", k, t.prevalueTracer.data[k])
	}
	return w.String()
}

// ---------------------------------------------------------------------------
// explicit-state system for operation histories

const (
	c06OpUpdate   = iota // Update(k, v)
	c06OpUpdEmpty        // Update(k, nil): empty value = deletion
	c06OpDelete          // Delete(k)
	c06OpHash            // Hash() + NodeIterator walk on the live trie
	c06OpGetLive         // Get of every key on the live trie (resolves nodes into it)
	c06OpCopy            // continue with Copy()
	c06OpCommit          // Commit, apply the node set to the store, reopen from the store
	c06OpBatch           // UpdateBatch assigning value v to every key (v=0: delete everything)
	c06OpChurn           // >100 net-zero Update calls on one key (toggle v1/v2, then restore); val=1: hash+iterate the live trie right after
)

type c06Op struct {
	name string
	kind int
	key  int
	val  int
}

func c06Ops(batches bool) []c06Op {
	var ops []c06Op
	for v := 1; v <= 2; v++ {
		for k := 0; k < c06NKeys; k++ {
			ops = append(ops, c06Op{fmt.Sprintf("upd(k%d,v%d)", k, v), c06OpUpdate, k, v})
		}
	}
	for k := 0; k < c06NKeys; k++ {
		ops = append(ops, c06Op{fmt.Sprintf("upd(k%d,empty)", k), c06OpUpdEmpty, k, 0})
	}
	for k := 0; k < c06NKeys; k++ {
		ops = append(ops, c06Op{fmt.Sprintf("del(k%d)", k), c06OpDelete, k, 0})
	}
	ops = append(ops, c06Op{"hash+iterate", c06OpHash, 0, 0}, c06Op{"getall", c06OpGetLive, 0, 0},
		c06Op{"copy", c06OpCopy, 0, 0}, c06Op{"commit+reopen", c06OpCommit, 0, 0})
	if batches {
		ops = append(ops, c06Op{"batch(all=v1)", c06OpBatch, 0, 1}, c06Op{"batch(all=v2)", c06OpBatch, 0, 2},
			c06Op{"batch(delete all)", c06OpBatch, 0, 0})
	}
	return ops
}

// c06ChurnN is the number of toggling writes of a churn: together with the restoring write the
// trie's unhashed / uncommitted counters pass their thresholds (unhashed >= 100 selects the
// parallel hasher, uncommitted > 100 the parallel committer).
const c06ChurnN = 102

// c06Churn applies c06ChurnN writes toggling key k between the two non-empty values and then
// restores the value the set holds for k (an empty value when k is absent): net-zero for the set.
func c06Churn(t *Trie, a *c06Alpha, k int, restore uint8) error {
	for j := 0; j < c06ChurnN; j++ {
		if err := t.Update(a.Keys[k], c06Vals[1+j%2]); err != nil {
			return fmt.Errorf("churn Update(k%d): %v", k, err)
		}
	}
	if err := t.Update(a.Keys[k], c06Vals[restore]); err != nil {
		return fmt.Errorf("churn restore(k%d): %v", k, err)
	}
	return nil
}

// c06OpsHot is c06Ops(false) plus the churn operations, which let a history cross the
// parallel-hashing threshold at any point: churn100(k0) leaves the live trie unhashed (the
// oracle hashes a Copy, which inherits the counter, and later hash / commit ops meet the live
// counters), churn100(k5)+hash hashes and walks the live trie right away.
func c06OpsHot() []c06Op {
	return append(c06Ops(false),
		c06Op{"churn100(k0)", c06OpChurn, 0, 0},
		c06Op{"churn100(k5)+hash", c06OpChurn, 5, 1})
}

type c06Sys struct {
	a         *c06Alpha
	ops       []c06Op
	t         *Trie
	store     c06Store
	model     c06Model
	committed c06Model // model at the last commit (= content of the store)
	strict    bool     // C07: check the node set and the store image at every commit
	commits   int
	final     bool // set by Enabled: the next Apply is the transition under test, not a replayed prefix op
	onCommit  func(nodes, deleted int)
}

func c06NewSys(a *c06Alpha, ops []c06Op, store c06Store, strict bool) *c06Sys {
	return &c06Sys{a: a, ops: ops, t: NewEmpty(store), store: store, strict: strict}
}

// Enabled is called by mc.Explore exactly once per explored transition, after the
// (already validated) prefix has been replayed and before the new operation is applied;
// in replay mode it is called before every operation. The full read-side oracle runs
// on the operations applied after it; the checks built into the operations themselves
// (live Hash/Get/iterate, commit) always run.
func (s *c06Sys) Enabled(op int) bool { s.final = true; return true }

func (s *c06Sys) Apply(op int) error {
	o := s.ops[op]
	switch o.kind {
	case c06OpUpdate, c06OpUpdEmpty:
		if err := s.t.Update(s.a.Keys[o.key], c06Vals[o.val]); err != nil {
			return fmt.Errorf("%s: %v", o.name, err)
		}
		s.model[o.key] = uint8(o.val)
	case c06OpDelete:
		if err := s.t.Delete(s.a.Keys[o.key]); err != nil {
			return fmt.Errorf("%s: %v", o.name, err)
		}
		s.model[o.key] = 0
	case c06OpHash:
		if h := s.t.Hash(); h != s.a.ref(s.model).root {
			return fmt.Errorf("live Hash()=%x, reference root of %s is %x", h, s.model, s.a.ref(s.model).root)
		}
		if err := c06CheckIter(s.t, s.a, s.model); err != nil {
			return fmt.Errorf("live trie: %v", err)
		}
	case c06OpGetLive:
		for i, k := range s.a.Keys {
			got, err := s.t.Get(k)
			if err != nil || !bytes.Equal(got, c06Vals[s.model[i]]) {
				return fmt.Errorf("live Get(%x)=%x,%v; set %s", k, got, err, s.model)
			}
		}
		for _, k := range s.a.Probe {
			if got, err := s.t.Get(k); err != nil || len(got) != 0 {
				return fmt.Errorf("live Get(absent %x)=%x,%v", k, got, err)
			}
		}
	case c06OpChurn:
		if err := c06Churn(s.t, s.a, o.key, s.model[o.key]); err != nil {
			return fmt.Errorf("%s: %v", o.name, err)
		}
		if o.val == 1 {
			if h := s.t.Hash(); h != s.a.ref(s.model).root {
				return fmt.Errorf("%s: live Hash()=%x after the churn, reference root of %s is %x", o.name, h, s.model, s.a.ref(s.model).root)
			}
			if err := c06CheckIter(s.t, s.a, s.model); err != nil {
				return fmt.Errorf("%s: live trie: %v", o.name, err)
			}
		}
	case c06OpCopy:
		s.t = s.t.Copy()
	case c06OpBatch:
		keys := make([][]byte, c06NKeys)
		vals := make([][]byte, c06NKeys)
		for i := range keys {
			keys[i], vals[i] = s.a.Keys[i], c06Vals[o.val]
			s.model[i] = uint8(o.val)
		}
		if err := s.t.UpdateBatch(keys, vals); err != nil {
			return fmt.Errorf("%s: %v", o.name, err)
		}
	case c06OpCommit:
		if err := s.commit(); err != nil {
			return err
		}
	}
	// full read-side oracle on a copy, so that the explored trie keeps its unhashed /
	// unresolved state
	if !s.final {
		return nil
	}
	if err := c06CheckRead(s.t.Copy(), s.a, s.model); err != nil {
		return fmt.Errorf("after %s: %v", o.name, err)
	}
	return nil
}

func (s *c06Sys) commit() error {
	ref := s.a.ref(s.model)
	prev := s.a.ref(s.committed).nodes
	root, set := s.t.Commit(false)
	if root != ref.root {
		return fmt.Errorf("Commit root %x, reference root of %s is %x", root, s.model, ref.root)
	}
	if set != nil {
		if s.strict {
			if err := c06CheckNodeSet(set, prev, ref.nodes); err != nil {
				return fmt.Errorf("commit %s -> %s: %v", s.committed, s.model, err)
			}
		}
		if s.onCommit != nil {
			u, d := set.Size()
			s.onCommit(u, d)
		}
		s.store.apply(set)
	}
	if s.strict {
		if err := c06CheckImage(s.store.scheme(), s.store.dump(), ref); err != nil {
			return fmt.Errorf("commit %s -> %s (nodeset nil=%v): %v", s.committed, s.model, set == nil, err)
		}
	}
	s.committed = s.model
	s.commits++
	t, err := New(TrieID(root), s.store)
	if err != nil {
		return fmt.Errorf("reopen at %x after commit of %s: %v", root, s.model, err)
	}
	s.t = t
	return nil
}

func (s *c06Sys) Key() string {
	var w strings.Builder
	w.WriteString(s.model.String())
	w.WriteString("|")
	w.WriteString(s.committed.String())
	w.WriteString("|")
	w.WriteString(c06Fingerprint(s.t))
	w.WriteString("|store:")
	img := s.store.dump()
	for _, k := range c06SortedKeys(img) {
		fmt.Fprintf(&w, "%x=%x,", k, crypto.Keccak256(img[k]))
	}
	return fmt.Sprintf("%x", crypto.Keccak256([]byte(w.String())))
}

var _ mc.Sys = (*c06Sys)(nil)
