//go:build verif

package trie

// C09 — Range proofs accept exactly the true ranges.
//
// Bounded-exhaustive exploration of trie.VerifyRangeProof on the real code:
//   all   : for small key alphabets, EVERY trie x EVERY claimed run over the alphabet (each key absent/v1/v2)
//           x every start key x proof database kind  (complete space: every honest and every ascending forged run)
//   edits : for larger tries (7-key alphabets, a dense 16-sibling trie), every honest run from every start and every
//           single edit of it (drop / alter value / alter key / insert / swap / duplicate), also with proof nodes withheld
//   noproof: whole-trie verification without proofs, every claimed run
//   wild  : arbitrary keys / values / start keys of mixed lengths, empty values, unsorted: must never panic
//
// The oracle is a sorted list (the trie's true content) and the sentence of the property: a claimed run must be accepted
// iff it equals the true content of [start, last claimed key]; "more" iff a true key lies beyond the last claimed key; an
// empty run iff no true key is >= start. Proof databases come from an independent Yellow-Paper MPT transcription.

import (
	"bytes"
	"encoding/json"
	"errors"
	"fmt"
	"sort"
	"strings"
	"testing"
	"time"

	"github.com/ethereum/go-ethereum/common"
	"github.com/ethereum/go-ethereum/crypto"
	"github.com/ethereum/go-ethereum/ethdb"
	"github.com/ethereum/go-ethereum/internal/verif/mc"
)

// ---------------------------------------------------------------------------
// proof databases

type c09DB map[string][]byte

func (d c09DB) Put(k, v []byte) error      { d[string(k)] = append([]byte{}, v...); return nil }
func (d c09DB) Delete(k []byte) error      { delete(d, string(k)); return nil }
func (d c09DB) Has(k []byte) (bool, error) { _, ok := d[string(k)]; return ok, nil }
func (d c09DB) Get(k []byte) ([]byte, error) {
	v, ok := d[string(k)]
	if !ok {
		return nil, errors.New("not found")
	}
	return v, nil
}

func c09Union(a, b c09DB) c09DB {
	out := make(c09DB, len(a)+len(b))
	for k, v := range a {
		out[k] = v
	}
	for k, v := range b {
		out[k] = v
	}
	return out
}

func (d c09DB) sortedKeys() []string {
	ks := make([]string, 0, len(d))
	for k := range d {
		ks = append(ks, k)
	}
	sort.Strings(ks)
	return ks
}

// ---------------------------------------------------------------------------
// reference Merkle-Patricia trie (Yellow Paper appendix D), fixed-length keys

func c09RlpLen(base byte, n int) []byte {
	if n < 56 {
		return []byte{base + byte(n)}
	}
	var l []byte
	for x := n; x > 0; x >>= 8 {
		l = append([]byte{byte(x)}, l...)
	}
	return append([]byte{base + 55 + byte(len(l))}, l...)
}

func c09RlpStr(b []byte) []byte {
	if len(b) == 1 && b[0] < 0x80 {
		return []byte{b[0]}
	}
	return append(c09RlpLen(0x80, len(b)), b...)
}

func c09RlpList(items ...[]byte) []byte {
	var payload []byte
	for _, it := range items {
		payload = append(payload, it...)
	}
	return append(c09RlpLen(0xc0, len(payload)), payload...)
}

func c09HP(nibbles []byte, term bool) []byte {
	f := byte(0)
	if term {
		f = 2
	}
	var all []byte
	if len(nibbles)%2 == 1 {
		all = append([]byte{f + 1}, nibbles...)
	} else {
		all = append([]byte{f, 0}, nibbles...)
	}
	out := make([]byte, len(all)/2)
	for i := range out {
		out[i] = all[2*i]<<4 | all[2*i+1]
	}
	return out
}

func c09Nibbles(k []byte) []byte {
	out := make([]byte, 0, 2*len(k))
	for _, b := range k {
		out = append(out, b>>4, b&15)
	}
	return out
}

type c09KV struct{ k, v []byte }

type c09RefNode struct {
	path []byte // nibble path from the root
	hash string
	enc  []byte
}

type c09Ref struct {
	root  common.Hash
	nodes []c09RefNode // nodes referenced by hash (encoding >= 32 bytes) and the root
}

func c09BuildRef(ents []c09KV) *c09Ref {
	ref := &c09Ref{}
	if len(ents) == 0 {
		ref.root = crypto.Keccak256Hash([]byte{0x80})
		return ref
	}
	nib := make([][]byte, len(ents))
	for i, e := range ents {
		nib[i] = c09Nibbles(e.k)
	}
	enc := ref.node(ents, nib, 0)
	ref.root = crypto.Keccak256Hash(enc)
	if len(enc) < 32 {
		ref.nodes = append(ref.nodes, c09RefNode{path: []byte{}, hash: string(ref.root[:]), enc: enc})
	}
	return ref
}

func (ref *c09Ref) node(ents []c09KV, nib [][]byte, depth int) []byte {
	if len(ents) == 1 {
		enc := c09RlpList(c09RlpStr(c09HP(nib[0][depth:], true)), c09RlpStr(ents[0].v))
		ref.record(nib[0][:depth], enc)
		return enc
	}
	cp := 0
	for {
		if depth+cp >= len(nib[0]) {
			panic("c09 reference trie: duplicate or prefix keys")
		}
		c := nib[0][depth+cp]
		same := true
		for _, n := range nib[1:] {
			if n[depth+cp] != c {
				same = false
				break
			}
		}
		if !same {
			break
		}
		cp++
	}
	if cp > 0 {
		child := ref.node(ents, nib, depth+cp)
		enc := c09RlpList(c09RlpStr(c09HP(nib[0][depth:depth+cp], false)), c09Link(child))
		ref.record(nib[0][:depth], enc)
		return enc
	}
	items := make([][]byte, 17)
	for i := range items {
		items[i] = []byte{0x80}
	}
	for i := 0; i < len(ents); {
		c := nib[i][depth]
		j := i
		for j < len(ents) && nib[j][depth] == c {
			j++
		}
		items[c] = c09Link(ref.node(ents[i:j], nib[i:j], depth+1))
		i = j
	}
	enc := c09RlpList(items...)
	ref.record(nib[0][:depth], enc)
	return enc
}

func (ref *c09Ref) record(path, enc []byte) {
	if len(enc) >= 32 {
		ref.nodes = append(ref.nodes, c09RefNode{path: append([]byte{}, path...), hash: string(crypto.Keccak256(enc)), enc: enc})
	}
}

func c09Link(enc []byte) []byte {
	if len(enc) < 32 {
		return enc
	}
	return c09RlpStr(crypto.Keccak256(enc))
}

// proofFor: the hash-referenced nodes a lookup of key visits (= what an honest prover sends for key).
func (ref *c09Ref) proofFor(key []byte) c09DB {
	kn := append(c09Nibbles(key), 16)
	out := c09DB{}
	for _, n := range ref.nodes {
		if bytes.HasPrefix(kn, n.path) {
			out[n.hash] = n.enc
		}
	}
	return out
}

// ---------------------------------------------------------------------------
// the property sentence as a function of the true content

// c09Truth: T sorted ascending by key. Returns whether the claimed run is exactly the true content of
// [start, last claimed key] (empty run: no true key >= start), and whether true keys lie beyond the run.
func c09Truth(T []c09KV, start []byte, run []c09KV) (accept, more bool) {
	if len(run) == 0 {
		for _, e := range T {
			if bytes.Compare(e.k, start) >= 0 {
				return false, false
			}
		}
		return true, false
	}
	for i := 0; i+1 < len(run); i++ {
		if bytes.Compare(run[i].k, run[i+1].k) >= 0 {
			return false, false
		}
	}
	last := run[len(run)-1].k
	j := 0
	for _, e := range T {
		if bytes.Compare(e.k, start) < 0 {
			continue
		}
		if bytes.Compare(e.k, last) > 0 {
			more = true
			continue
		}
		if j >= len(run) || !bytes.Equal(run[j].k, e.k) || !bytes.Equal(run[j].v, e.v) {
			return false, false
		}
		j++
	}
	if j != len(run) {
		return false, false
	}
	return true, more
}

// c09Whole: the claimed run is exactly the whole true content (verification without proofs).
func c09Whole(T []c09KV, run []c09KV) bool {
	if len(T) != len(run) {
		return false
	}
	for i := range T {
		if !bytes.Equal(T[i].k, run[i].k) || !bytes.Equal(T[i].v, run[i].v) {
			return false
		}
	}
	return true
}

// ---------------------------------------------------------------------------
// families, tries, runs

var (
	c09V1 = []byte{0x05}                   // tiny: leaves embed into their parent, whole sub-tries are inlined
	c09V2 = bytes.Repeat([]byte{0xb2}, 29) // big: leaves are referenced by hash (2-byte keys: exactly 32 bytes at depth 3)
	c09VX = []byte{0x07, 0x07, 0x07}       // never stored in any trie
	c09Vs = [][]byte{nil, c09V1, c09V2}
)

type c09Family struct {
	name   string
	keys   [][]byte // alphabet, ascending, all of the same length
	starts [][]byte // start keys: alphabet, neighbours (k-1, k+1), midpoints of gaps, 00.., ff..
	gaps   [][]byte // never-stored keys used for injections (k+1 of each alphabet key, when not in the alphabet)
}

func c09Pad32(prefix []byte, last byte) []byte {
	k := make([]byte, 32)
	copy(k, prefix)
	k[31] |= last
	return k
}

func c09AddOne(k []byte, delta int) []byte {
	out := append([]byte{}, k...)
	for i := len(out) - 1; i >= 0; i-- {
		v := int(out[i]) + delta
		out[i] = byte(v)
		if v >= 0 && v <= 255 {
			return out
		}
	}
	return nil // wrapped around
}

func c09Mid(a, b []byte) []byte {
	// (a+b)/2 on big-endian numbers of equal length
	sum := make([]int, len(a)+1)
	carry := 0
	for i := len(a) - 1; i >= 0; i-- {
		s := int(a[i]) + int(b[i]) + carry
		sum[i+1] = s & 255
		carry = s >> 8
	}
	sum[0] = carry
	out := make([]byte, len(a))
	rem := 0
	for i := 0; i <= len(a); i++ {
		cur := rem<<8 | sum[i]
		if i > 0 {
			out[i-1] = byte(cur >> 1)
		}
		rem = cur & 1
	}
	return out
}

func c09MakeFamily(name string, keys [][]byte) *c09Family {
	f := &c09Family{name: name}
	f.keys = append(f.keys, keys...)
	sort.Slice(f.keys, func(i, j int) bool { return bytes.Compare(f.keys[i], f.keys[j]) < 0 })
	in := map[string]bool{}
	for _, k := range f.keys {
		in[string(k)] = true
	}
	seen := map[string]bool{}
	add := func(k []byte) {
		if k != nil && !seen[string(k)] {
			seen[string(k)] = true
			f.starts = append(f.starts, k)
		}
	}
	n := len(f.keys[0])
	add(make([]byte, n))
	add(bytes.Repeat([]byte{0xff}, n))
	for i, k := range f.keys {
		add(k)
		add(c09AddOne(k, -1))
		add(c09AddOne(k, +1))
		if i+1 < len(f.keys) {
			add(c09Mid(k, f.keys[i+1]))
		}
		if g := c09AddOne(k, +1); g != nil && !in[string(g)] {
			f.gaps = append(f.gaps, g)
		}
	}
	sort.Slice(f.starts, func(i, j int) bool { return bytes.Compare(f.starts[i], f.starts[j]) < 0 })
	return f
}

func c09FamA(n int) *c09Family {
	h := common.FromHex
	keys := [][]byte{h("0x0000"), h("0x0001"), h("0x00f0"), h("0x0100"), h("0x1000"), h("0x100f"), h("0x1100")}
	return c09MakeFamily(fmt.Sprintf("A2x%d", n), keys[:n])
}

func c09FamB(n int) *c09Family {
	h := common.FromHex
	keys := [][]byte{c09Pad32(h("0x0000"), 0), c09Pad32(h("0x0001"), 0), c09Pad32(h("0x0100"), 0), c09Pad32(h("0x1000"), 0),
		c09Pad32(h("0x1000"), 0x0f), c09Pad32(h("0x00f0"), 0), c09Pad32(h("0x1100"), 0)}
	return c09MakeFamily(fmt.Sprintf("B32x%d", n), keys[:n])
}

// c09FamD: a dense branch: 16 siblings 0x5X00 below one extension nibble.
func c09FamD() *c09Family {
	var keys [][]byte
	for x := 0; x < 16; x++ {
		keys = append(keys, []byte{0x50 | byte(x), 0x00})
	}
	return c09MakeFamily("D16", keys)
}

type c09Run struct {
	kv   []c09KV
	keys [][]byte
	vals [][]byte
	s    string // display form, built on demand
	sOK  bool
}

func c09NewRun(kv []c09KV) *c09Run {
	r := &c09Run{kv: kv}
	for _, e := range kv {
		r.keys = append(r.keys, e.k)
		r.vals = append(r.vals, e.v)
	}
	return r
}

// str is the display / replay form "key=value,...". Not safe for concurrent first use (runs shared between
// goroutines are rendered once up front with render()).
func (r *c09Run) str() string {
	if !r.sOK {
		var sb strings.Builder
		for i, e := range r.kv {
			if i > 0 {
				sb.WriteByte(',')
			}
			fmt.Fprintf(&sb, "%x=%s", e.k, c09ValName(e.v))
		}
		r.s, r.sOK = sb.String(), true
	}
	return r.s
}

func (r *c09Run) render() *c09Run { r.str(); return r }

// hash: FNV-1a over the claimed keys and values (for distinct counting without building strings).
func (r *c09Run) hash(h uint64) uint64 {
	mix := func(b []byte) {
		for _, c := range b {
			h = (h ^ uint64(c)) * 1099511628211
		}
		h = (h ^ 0xff) * 1099511628211
	}
	for _, e := range r.kv {
		mix(e.k)
		mix(e.v)
	}
	return h
}

func c09HashBytes(h uint64, b []byte) uint64 {
	for _, c := range b {
		h = (h ^ uint64(c)) * 1099511628211
	}
	return (h ^ 0xfe) * 1099511628211
}

func c09ValName(v []byte) string {
	switch {
	case bytes.Equal(v, c09V1):
		return "v1"
	case bytes.Equal(v, c09V2):
		return "v2"
	case bytes.Equal(v, c09VX):
		return "vx"
	case v == nil:
		return "nil"
	}
	return fmt.Sprintf("%x", v)
}

func c09ParseRun(s string) (*c09Run, error) {
	var kv []c09KV
	if s != "" {
		for _, part := range strings.Split(s, ",") {
			i := strings.IndexByte(part, '=')
			if i < 0 {
				return nil, fmt.Errorf("bad run element %q", part)
			}
			k := common.Hex2Bytes(part[:i])
			var v []byte
			switch part[i+1:] {
			case "v1":
				v = c09V1
			case "v2":
				v = c09V2
			case "vx":
				v = c09VX
			case "nil":
				v = nil
			default:
				v = common.Hex2Bytes(part[i+1:])
			}
			kv = append(kv, c09KV{k, v})
		}
	}
	return c09NewRun(kv), nil
}

// c09Assign decodes idx (base 3) into the key/value list it assigns.
func c09Assign(f *c09Family, idx int) []c09KV {
	var kv []c09KV
	for i := range f.keys {
		if d := idx % 3; d != 0 {
			kv = append(kv, c09KV{f.keys[i], c09Vs[d]})
		}
		idx /= 3
	}
	return kv
}

func c09AssignStr(f *c09Family, idx int) string {
	b := make([]byte, len(f.keys))
	for i := range b {
		b[i] = byte('0' + idx%3)
		idx /= 3
	}
	return string(b)
}

func c09Pow3(n int) int {
	p := 1
	for i := 0; i < n; i++ {
		p *= 3
	}
	return p
}

// c09Trie: one trie of a family with everything the checks need.
type c09Trie struct {
	fam    *c09Family
	id     string
	ents   []c09KV
	ref    *c09Ref
	root   common.Hash
	real   *Trie
	proofs map[string]c09DB // per key: reference path nodes
	edges  map[string]c09DB // per (start,last): union
}

func c09NewTrie(f *c09Family, id string, ents []c09KV) (*c09Trie, error) {
	t := &c09Trie{fam: f, id: id, ents: ents, ref: c09BuildRef(ents), proofs: map[string]c09DB{}, edges: map[string]c09DB{}}
	t.real = NewEmpty(nil)
	for _, e := range ents {
		t.real.MustUpdate(e.k, e.v)
	}
	t.root = t.real.Hash()
	if t.root != t.ref.root {
		return t, fmt.Errorf("Trie.Hash %x != reference MPT root %x", t.root, t.ref.root)
	}
	return t, nil
}

func (t *c09Trie) proof(key []byte) c09DB {
	p, ok := t.proofs[string(key)]
	if !ok {
		p = t.ref.proofFor(key)
		t.proofs[string(key)] = p
	}
	return p
}

// edge: what an honest prover sends for (start, claimed run): path of start plus path of the last claimed key.
func (t *c09Trie) edge(start []byte, run *c09Run) c09DB {
	if len(run.keys) == 0 {
		return t.proof(start)
	}
	last := run.keys[len(run.keys)-1]
	id := string(start) + "|" + string(last)
	e, ok := t.edges[id]
	if !ok {
		e = c09Union(t.proof(start), t.proof(last))
		t.edges[id] = e
	}
	return e
}

type c09Case struct {
	Part  string `json:"part"`
	Fam   string `json:"fam"`
	Trie  string `json:"trie"`  // per alphabet key (ascending): 0 absent, 1 v1, 2 v2
	Start string `json:"start"` // hex; "nil" = nil slice
	Run   string `json:"run"`   // key=value,... as claimed
	DB    string `json:"db"`
}

// c09Stats: outcome counters per part. Index: bit0 claim is true, bit1 empty run, bits2-3 verdict
// (0 rejected, 1 accepted more=false, 2 accepted more=true); misc holds violation kinds and the counters of the [wild] mixed-length parts.
type c09Stats struct {
	cnt map[string]*[12]int64
	misc map[string]int64
}

func c09NewStats() *c09Stats { return &c09Stats{cnt: map[string]*[12]int64{}, misc: map[string]int64{}} }

func (st *c09Stats) add(part string, isTrue, empty bool, err error, more bool) {
	a := st.cnt[part]
	if a == nil {
		a = new([12]int64)
		st.cnt[part] = a
	}
	i := 0
	if isTrue {
		i |= 1
	}
	if empty {
		i |= 2
	}
	if err == nil {
		if more {
			i |= 8
		} else {
			i |= 4
		}
	}
	a[i]++
}

func c09Flush(r *mc.R, st *c09Stats) {
	for part, a := range st.cnt {
		for i, n := range a {
			if n == 0 {
				continue
			}
			cls := "forged"
			if i&1 != 0 {
				cls = "true"
			}
			if i&2 != 0 {
				cls += "-empty"
			}
			verdict := "rejected"
			switch i >> 2 {
			case 1:
				verdict = "accepted,more=false"
			case 2:
				verdict = "accepted,more=true"
			}
			r.OutcomeN(part+":"+cls+":"+verdict, n)
		}
	}
	for k, v := range st.misc {
		r.OutcomeN(k, v)
	}
}

// c09Desc is the case descriptor; it marshals to c09Case only when needed (violation / replay).
type c09Desc struct {
	part  string
	t     *c09Trie
	start []byte
	run   *c09Run
	db    string
}

func c09StartName(s []byte) string {
	if s == nil {
		return "nil"
	}
	return fmt.Sprintf("%x", s)
}

func (d *c09Desc) MarshalJSON() ([]byte, error) {
	return json.Marshal(c09Case{d.part, d.t.fam.name, d.t.id, c09StartName(d.start), d.run.str(), d.db})
}

// c09Verify executes one verification and applies the property sentence.
//   complete: db is known to contain the honest edge proofs for (start, run): a true run must then be accepted.
func c09Verify(r *mc.R, t *c09Trie, part string, start []byte, run *c09Run, db ethdb.KeyValueReader, dbName string, complete bool, st *c09Stats) {
	r.Case(&c09Desc{part, t, start, run, dbName}, func() error {
		more, err := VerifyRangeProof(t.root, start, run.keys, run.vals, db)
		var wantAcc, wantMore, mustAcc bool
		if db == nil {
			// no proofs: the run must be the whole content; the start key is not looked at by the verifier, so a
			// true whole-trie run is only *required* to pass when it does not precede the start key.
			wantAcc = c09Whole(t.ents, run.kv)
			mustAcc = wantAcc && (len(run.keys) == 0 || bytes.Compare(start, run.keys[0]) <= 0)
		} else {
			wantAcc, wantMore = c09Truth(t.ents, start, run.kv)
			mustAcc = wantAcc && complete
		}
		switch {
		case err == nil && !wantAcc:
			st.misc[part+":FORGERY-ACCEPTED"]++
			return fmt.Errorf("accepted (more=%v) a run that is not the true content of the covered interval; true content of trie: %s", more, c09NewRun(t.ents).str())
		case err == nil && more != wantMore:
			st.misc[part+":WRONG-MORE"]++
			return fmt.Errorf("accepted the true run but reported more=%v, want %v; true content of trie: %s", more, wantMore, c09NewRun(t.ents).str())
		case err != nil && mustAcc:
			st.misc[part+":TRUE-RUN-REJECTED"]++
			return fmt.Errorf("rejected the true run with honest proofs: %v; true content of trie: %s", err, c09NewRun(t.ents).str())
		}
		st.add(part, wantAcc, len(run.keys) == 0, err, more)
		return nil
	})
}

// c09Edits: every single edit of the honest run h (h is a prefix of the true content from start).
func c09Edits(f *c09Family, h []c09KV) [][]c09KV {
	var out [][]c09KV
	cp := func() []c09KV { return append([]c09KV{}, h...) }
	other := func(v []byte) []byte {
		if bytes.Equal(v, c09V1) {
			return c09V2
		}
		return c09V1
	}
	has := map[string]bool{}
	for _, e := range h {
		has[string(e.k)] = true
	}
	for i := range h {
		// drop
		out = append(out, append(cp()[:i], h[i+1:]...))
		// alter value: to the other stored value, to a never-stored value, to a one-byte-different big value
		for _, v := range [][]byte{other(h[i].v), c09VX, append(append([]byte{}, c09V2[:28]...), 0xb3)} {
			e := cp()
			e[i].v = v
			out = append(out, e)
		}
		// alter key: to its successor key (keeps order unless the successor is the next claimed key)
		if g := c09AddOne(h[i].k, +1); g != nil {
			e := cp()
			e[i].k = g
			out = append(out, e)
		}
		// duplicate
		e := cp()
		e = append(e[:i+1], append([]c09KV{h[i]}, h[i+1:]...)...)
		out = append(out, e)
		// swap with the next
		if i+1 < len(h) {
			e := cp()
			e[i], e[i+1] = e[i+1], e[i]
			out = append(out, e)
		}
	}
	// insert: every alphabet key and gap key not in the run, with each value, at its sorted position;
	// and (first value only) at every other position
	var cand [][]byte
	cand = append(cand, f.keys...)
	cand = append(cand, f.gaps...)
	for _, k := range cand {
		if has[string(k)] {
			continue
		}
		pos := sort.Search(len(h), func(i int) bool { return bytes.Compare(h[i].k, k) > 0 })
		for vi, v := range [][]byte{c09V1, c09V2} {
			for p := 0; p <= len(h); p++ {
				if p != pos && vi != 0 {
					continue
				}
				e := append(append(append([]c09KV{}, h[:p]...), c09KV{k, v}), h[p:]...)
				out = append(out, e)
			}
		}
	}
	return out
}

// c09Only: in replay mode restrict the enumeration to the family/trie of the descriptor.
type c09Only struct{ c c09Case }

func (o *c09Only) skipFam(name string) bool  { return o.c.Fam != "" && o.c.Fam != name }
func (o *c09Only) skipTrie(id string) bool   { return o.c.Trie != "" && o.c.Trie != "*" && o.c.Trie != id }
func (o *c09Only) skipPart(part string) bool { return o.c.Part != "" && !strings.HasPrefix(o.c.Part, part) }

func c09FamilyDB(f *c09Family) (c09DB, []common.Hash) {
	n := c09Pow3(len(f.keys))
	db := c09DB{}
	roots := make([]common.Hash, n)
	for i := 0; i < n; i++ {
		ref := c09BuildRef(c09Assign(f, i))
		roots[i] = ref.root
		for _, nd := range ref.nodes {
			db[nd.hash] = nd.enc
		}
	}
	return db, roots
}

func TestVerif_C09(t *testing.T) {
	mc.Run(t, "C09", func(r *mc.R) {
		var only c09Only
		if d := r.ReplayDescriptor(); d != nil {
			json.Unmarshal(d, &only.c)
		}
		nAll := mc.Pick(r, 5, 6)
		allFamily := r.Thorough() // [all]: the family-wide node set as proofdb only in the thorough tier ([edits] uses it in both)
		r.Rule("VerifyRangeProof(root,start,keys,values,proofdb) on: [all] EVERY trie over a key alphabet (each key absent/v1 tiny-embedded/v2 hashed; 2-byte keys A2 and 32-byte keys B32) " +
			"x EVERY claimed run over the same alphabet (3^n assignments: all honest runs and all ascending forgeries) x every start key (alphabet keys, k-1, k+1, gap midpoints, 00.., ff..) " +
			"x proofdb in {honest edge proofs for the claim; thorough: also all genuine nodes of every trie of the family}; [noproof] every trie x every claimed run with proof=nil; " +
			"[edits] 7-key alphabets and a dense 16-sibling trie: every start x every honest run (all lengths incl. empty) x every single edit (drop, 3 value alterations, key alteration, duplicate, " +
			"swap, insert of every absent/later key at sorted and unsorted positions) x proofdb in {edge proofs, family nodes}; honest runs also with the output of Trie.Prove and with each edge-proof node withheld " +
			"(quick: 127 subset tries per alphabet with alternating values; thorough: all 2186 assignments, and for the 127 core tries every subset of nodes withheld for honest runs and each node withheld for edits); " +
			"[wild] runs of <=2 entries over keys of mixed lengths incl. empty key, empty values, unsorted, mismatched key/value counts, x mixed-length starts x 4 proofdbs: no panic, no false entry accepted. " +
			"distinct = distinct (trie, start, claimed run) in the quick tier, distinct (trie, claimed run) in the thorough tier; evaluations = VerifyRangeProof executions")
		r.Assume("oracle = the property sentence evaluated on the sorted true content; proof nodes and roots from an independent Yellow-Paper MPT transcription (checked equal to Trie.Hash for every trie)")
		r.Assume("proof databases are keyed by Keccak-256 of the blob; only genuine nodes (of the trie itself or of other tries of the family) are offered, per the statement")
		r.Assume("tries verified with proofs are non-empty (an empty trie has no node to prove anything against); the empty trie is covered with proof=nil")
		r.Assume("with proof=nil the verifier ignores the start key: a true whole-trie run is required to pass only when start <= first key; acceptance always requires run == whole true content")
		r.Assume("keys inside one trie, its claimed runs and start keys have one common length in [all]/[edits]/[noproof] (as in every state/storage trie); mixed lengths only in [wild]")
		r.Bound("all.alphabet_keys", nAll)

		// ------------------------------------------------------------------ all + noproof
		for fi, fam := range []*c09Family{c09FamA(nAll), c09FamB(nAll)} {
			ftag := uint64(fi+1) << 60
			if only.skipFam(fam.name) || (only.skipPart("all") && only.skipPart("noproof")) {
				continue
			}
			if r.Expired() {
				return
			}
			n := c09Pow3(len(fam.keys))
			familyDB, _ := c09FamilyDB(fam)
			runs := make([]*c09Run, n)
			for i := range runs {
				runs[i] = c09NewRun(c09Assign(fam, i)).render()
			}
			allStarts := fam.starts
			if r.Quick() && fi == 1 {
				// quick tier, 32-byte family: start keys = 00.., ff.., every alphabet key and its successor (the 2-byte
				// family keeps predecessors and gap midpoints as well)
				keep := map[string]bool{string(make([]byte, 32)): true, string(bytes.Repeat([]byte{0xff}, 32)): true}
				for _, k := range fam.keys {
					keep[string(k)] = true
					if g := c09AddOne(k, +1); g != nil {
						keep[string(g)] = true
					}
				}
				allStarts = nil
				for _, s := range fam.starts {
					if keep[string(s)] {
						allStarts = append(allStarts, s)
					}
				}
			}
			r.Bound(fam.name+".tries", n-1)
			r.Bound(fam.name+".claimed_runs", n)
			r.Bound(fam.name+".starts", len(allStarts))
			r.Bound(fam.name+".family_nodes", len(familyDB))
			t0 := time.Now()
			r.Parallel(n, func(ti int) {
				id := c09AssignStr(fam, ti)
				if only.skipTrie(id) {
					return
				}
				st := c09NewStats()
				defer c09Flush(r, st)
				tr, err := c09NewTrie(fam, id, c09Assign(fam, ti))
				if err != nil {
					r.Violation("root:"+fam.name+":"+id, err.Error(), nil)
					return
				}
				// without proofs (includes the empty trie)
				for ri, run := range runs {
					for _, s := range [][]byte{nil, fam.starts[0], fam.keys[len(fam.keys)/2]} {
						c09Verify(r, tr, "noproof", s, run, nil, "nil", false, st)
					}
					r.DistinctHash(ftag | uint64(ti)<<32 | uint64(ri)<<8 | 0xff)
				}
				if ti == 0 {
					// observation only: the empty trie with an empty (non-nil) proof set cannot be verified at all
					_, err := VerifyRangeProof(tr.root, fam.starts[0], nil, nil, c09DB{})
					st.misc[fmt.Sprintf("observation:empty-trie,empty-run,empty-proofdb:accepted=%v", err == nil)]++
					return
				}
				for si, s := range allStarts {
					if r.Expired() {
						return
					}
					for ri, run := range runs {
						c09Verify(r, tr, "all", s, run, tr.edge(s, run), "edge", true, st)
						if allFamily {
							c09Verify(r, tr, "all", s, run, familyDB, "family", true, st)
						}
						if r.Thorough() {
							r.DistinctHash(ftag | uint64(ti)<<32 | uint64(ri)<<8) // thorough: per (trie, claimed run), to stay below mc's distinct cap
						} else {
							r.DistinctHash(ftag | uint64(ti)<<32 | uint64(ri)<<8 | uint64(si))
						}
					}
				}
				if ti%61 == 0 {
					r.Sample(map[string]any{"part": "all", "fam": fam.name, "trie": id, "content": c09NewRun(tr.ents).str(), "root": fmt.Sprintf("%x", tr.root)})
				}
			})
			r.Bound(fam.name+".all_wall_s", time.Since(t0).Round(100*time.Millisecond).Seconds())
		}

		// ------------------------------------------------------------------ edits
		type editFam struct {
			fam   *c09Family
			tries []int // assignment indices
			core  map[int]bool
			fixed [][]c09KV
		}
		var efs []editFam
		{
			// 7-key alphabets. quick: every non-empty subset with alternating values v1,v2,v1..; thorough: every assignment.
			for _, fam := range []*c09Family{c09FamA(7), c09FamB(7)} {
				ef := editFam{fam: fam, core: map[int]bool{}}
				for sub := 1; sub < 128; sub++ {
					idx, p3 := 0, 1
					for i := 0; i < 7; i++ {
						if sub>>i&1 == 1 {
							idx += p3 * (1 + i%2)
						}
						p3 *= 3
					}
					ef.core[idx] = true
					if r.Quick() {
						ef.tries = append(ef.tries, idx)
					}
				}
				if !r.Quick() {
					for idx := 1; idx < c09Pow3(7); idx++ {
						ef.tries = append(ef.tries, idx)
					}
				}
				efs = append(efs, ef)
			}
			d := c09FamD()
			var full, alt []c09KV
			for i, k := range d.keys {
				full = append(full, c09KV{k, c09Vs[1+i%2]})
				alt = append(alt, c09KV{k, c09V1})
			}
			efs = append(efs, editFam{fam: d, fixed: mc.Pick(r,
				[][]c09KV{full, alt, append(append([]c09KV{}, full[1:7]...), full[9:15]...)},
				[][]c09KV{full, alt, full[:15], full[1:], append(append([]c09KV{}, full[:7]...), full[9:]...), append(append([]c09KV{}, full[1:7]...), full[9:15]...)})})
		}
		for _, ef := range efs {
			fam := ef.fam
			if only.skipFam(fam.name) || only.skipPart("edits") {
				continue
			}
			if r.Expired() {
				return
			}
			var familyDB c09DB
			type job struct {
				id   string
				ents []c09KV
				core bool // thorough: every subset of proof nodes withheld / edits with nodes withheld only for these tries
			}
			var jobs []job
			if ef.fixed != nil {
				familyDB = c09DB{}
				for i, ents := range ef.fixed {
					for _, nd := range c09BuildRef(ents).nodes {
						familyDB[nd.hash] = nd.enc
					}
					jobs = append(jobs, job{fmt.Sprintf("fixed%d", i), ents, true})
				}
			} else {
				familyDB, _ = c09FamilyDB(fam)
				for _, idx := range ef.tries {
					jobs = append(jobs, job{c09AssignStr(fam, idx), c09Assign(fam, idx), ef.core[idx]})
				}
			}
			r.Bound(fam.name+".edit_tries", len(jobs))
			r.Bound(fam.name+".starts", len(fam.starts))
			t0 := time.Now()
			nst := len(fam.starts)
			r.Parallel(len(jobs)*nst, func(jsi int) {
				ji := jsi / nst
				if only.skipTrie(jobs[ji].id) {
					return
				}
				st := c09NewStats()
				defer c09Flush(r, st)
				subsetsAll := r.Thorough() && jobs[ji].core
				tr, err := c09NewTrie(fam, jobs[ji].id, jobs[ji].ents)
				if err != nil {
					r.Violation("root:"+fam.name+":"+jobs[ji].id, err.Error(), nil)
					return
				}
				for _, s := range fam.starts[jsi%nst : jsi%nst+1] {
					if r.Expired() {
						return
					}
					ds := s // distinct key includes the start key in the quick tier only (thorough: per (trie, claimed run))
					if r.Thorough() {
						ds = nil
					}
					var rem []c09KV
					for _, e := range tr.ents {
						if bytes.Compare(e.k, s) >= 0 {
							rem = append(rem, e)
						}
					}
					for l := 0; l <= len(rem); l++ {
						honest := c09NewRun(rem[:l])
						hedge := tr.edge(s, honest)
						c09Verify(r, tr, "edits/honest", s, honest, hedge, "edge", true, st)
						c09Verify(r, tr, "edits/honest", s, honest, familyDB, "family", true, st)
						// the same with what the real prover emits (Trie.Prove for the start key and the last returned key)
						pdb := c09DB{}
						perr := tr.real.Prove(s, pdb)
						if l > 0 && perr == nil {
							perr = tr.real.Prove(rem[l-1].k, pdb)
						}
						if perr != nil {
							r.Violation("prove:"+fam.name+":"+tr.id, "Trie.Prove failed: "+perr.Error(), nil)
						} else {
							c09Verify(r, tr, "edits/honest", s, honest, pdb, "prove", true, st)
						}
						r.DistinctHash(honest.hash(c09HashBytes(c09HashBytes(mc.Hash64(fam.name), []byte(tr.id)), ds)))
						// honest run with proof nodes withheld: never a wrong verdict
						hk := hedge.sortedKeys()
						masks := []int{}
						if subsetsAll && len(hk) <= 8 {
							for m := 1; m < 1<<len(hk); m++ {
								masks = append(masks, m)
							}
						} else {
							for i := range hk {
								masks = append(masks, 1<<i)
							}
						}
						for _, m := range masks {
							sub := c09DB{}
							for i, h := range hk {
								if m>>i&1 == 0 {
									sub[h] = hedge[h]
								}
							}
							c09Verify(r, tr, "edits/honest-withheld", s, honest, sub, fmt.Sprintf("edge-minus-%b", m), false, st)
						}
						for _, e := range c09Edits(fam, rem[:l]) {
							run := c09NewRun(e)
							edge := tr.edge(s, run)
							c09Verify(r, tr, "edits/edit", s, run, edge, "edge", true, st)
							c09Verify(r, tr, "edits/edit", s, run, familyDB, "family", true, st)
							r.DistinctHash(run.hash(c09HashBytes(c09HashBytes(mc.Hash64(fam.name), []byte(tr.id)), ds)))
							if subsetsAll {
								ek := edge.sortedKeys()
								for i := range ek {
									sub := c09DB{}
									for j, h := range ek {
										if j != i {
											sub[h] = edge[h]
										}
									}
									c09Verify(r, tr, "edits/edit-withheld", s, run, sub, fmt.Sprintf("edge-minus-%b", 1<<i), false, st)
								}
							}
						}
					}
				}
				if jsi%997 == 0 {
					r.Sample(map[string]any{"part": "edits", "fam": fam.name, "trie": tr.id, "content": c09NewRun(tr.ents).str()})
				}
			})
			r.Bound(fam.name+".edits_wall_s", time.Since(t0).Round(100*time.Millisecond).Seconds())
		}

		// ------------------------------------------------------------------ wild: never panic, never accept a false entry
		if !only.skipPart("wild") && !r.Expired() {
			c09Wild(r, &only)
		}
	})
}

// c09Wild: arbitrary inputs. Oracle: no panic; if the verifier accepts, every claimed entry must be a true entry of the
// trie (and when all lengths agree with the trie's key length, the full property sentence applies).
func c09Wild(r *mc.R, only *c09Only) {
	h := common.FromHex
	fam := c09FamA(7)
	fam.name = "W"
	keyset := [][]byte{{}, h("0x00"), h("0x0000"), h("0x0001"), h("0x000000"), h("0x00f0"), h("0x10"), h("0x1000"), h("0x100f"), h("0x100f00"), h("0x11"), h("0xffff")}
	starts := append([][]byte{nil}, keyset...)
	vals := [][]byte{{}, c09V1, c09V2}
	var elems []c09KV
	for _, k := range keyset {
		for _, v := range vals {
			elems = append(elems, c09KV{k, v})
		}
	}
	var runs []*c09Run
	runs = append(runs, c09NewRun(nil).render())
	for _, a := range elems {
		runs = append(runs, c09NewRun([]c09KV{a}).render())
	}
	for _, a := range elems {
		for _, b := range elems {
			runs = append(runs, c09NewRun([]c09KV{a, b}).render())
		}
	}
	// tries: assignment indices over the 7-key A2 alphabet chosen for shape variety
	trieIdx := []int{1, 2, 4, 5, 1 + 3, 2 + 2*3, 1 + 3 + 9, 2 + 27, 1 + 81, 2 + 81 + 243, 1 + 243 + 2*729, c09Pow3(7) - 1, (c09Pow3(7) - 1) / 2,
		1 + 2*3 + 9 + 2*27 + 81 + 2*243 + 729}
	familyDB, _ := c09FamilyDB(fam)
	r.Bound("wild.tries", len(trieIdx))
	r.Bound("wild.runs", len(runs))
	r.Bound("wild.starts", len(starts))
	klen := len(fam.keys[0])
	t0 := time.Now()
	defer func() { r.Bound("wild.wall_s", time.Since(t0).Round(100*time.Millisecond).Seconds()) }()
	r.Parallel(len(trieIdx), func(i int) {
		id := c09AssignStr(fam, trieIdx[i])
		if only.skipTrie(id) {
			return
		}
		st := c09NewStats()
		defer c09Flush(r, st)
		tr, err := c09NewTrie(fam, id, c09Assign(fam, trieIdx[i]))
		if err != nil {
			r.Violation("root:W:"+id, err.Error(), nil)
			return
		}
		truth := map[string][]byte{}
		for _, e := range tr.ents {
			truth[string(e.k)] = e.v
		}
		for _, s := range starts {
			if r.Expired() {
				return
			}
			for _, run := range runs {
				uniform := s != nil && len(s) == klen
				for _, k := range run.keys {
					if len(k) != klen {
						uniform = false
					}
				}
				var edge c09DB
				if len(run.keys) > 0 {
					edge = c09Union(tr.proof(s), tr.proof(run.keys[len(run.keys)-1]))
				} else {
					edge = tr.proof(s)
				}
				for di, db := range []ethdb.KeyValueReader{nil, edge, familyDB, c09DB{}} {
					dbName := []string{"nil", "edge", "family", "empty"}[di]
					if uniform {
						c09Verify(r, tr, "wild/uniform", s, run, db, dbName, di == 1 || di == 2, st)
						continue
					}
					// mixed lengths: soundness only (the verifier documents that edge keys of different lengths are
					// unsupported, so a true run may be refused); the part label is a syntactic class of the input.
					part := "wild/mixed"
					if c09WildClass(run, s, db == nil, klen) != "" {
						continue // two input classes are evaluated as one case each after this loop (see c09WildClasses)
					}
					r.Case(&c09Desc{part, tr, s, run, dbName}, func() error {
						more, err := VerifyRangeProof(tr.root, s, run.keys, run.vals, db)
						if err != nil {
							st.misc[part+":rejected"]++
							return nil
						}
						var wantAcc, wantMore bool
						if db == nil {
							wantAcc = c09Whole(tr.ents, run.kv)
						} else {
							wantAcc, wantMore = c09Truth(tr.ents, s, run.kv)
						}
						if !wantAcc {
							st.misc[part+":FORGERY-ACCEPTED"]++
							return fmt.Errorf("accepted (more=%v) a run that is not the true content of the covered interval (byte order); true content of trie: %s", more, c09NewRun(tr.ents).str())
						}
						if more != wantMore {
							st.misc[part+":WRONG-MORE"]++
							return fmt.Errorf("accepted the true run but reported more=%v, want %v; true content of trie: %s", more, wantMore, c09NewRun(tr.ents).str())
						}
						st.misc[part+":true:accepted"]++
						return nil
					})
				}
				r.DistinctHash(run.hash(c09HashBytes(c09HashBytes(mc.Hash64("W"), []byte(id)), s)))
			}
		}
		// mismatched key/value counts
		for _, db := range []ethdb.KeyValueReader{nil, familyDB} {
			db := db
			r.Case(c09Case{"wild/count", fam.name, id, "0000", "2 keys, 1 value", fmt.Sprint(db != nil)}, func() error {
				if _, err := VerifyRangeProof(tr.root, h("0x0000"), [][]byte{h("0x0000"), h("0x0001")}, [][]byte{c09V1}, db); err == nil {
					return fmt.Errorf("accepted 2 keys with 1 value")
				}
				if _, err := VerifyRangeProof(tr.root, h("0x0000"), [][]byte{h("0x0000")}, [][]byte{c09V1, c09V2}, db); err == nil {
					return fmt.Errorf("accepted 1 key with 2 values")
				}
				return nil
			})
		}
	})
	if !r.Expired() {
		c09WildClasses(r, fam, familyDB, trieIdx, starts, vals)
	}
}

// c09WildClass names two syntactic input classes that are evaluated as ONE case each over all wild tries (so that a
// defect of the class yields one violation key per member of the class, not one per trie):
//   zero-length-key-noproof: the run is a single entry with a zero-length key and there is no proof
//   short-start-empty-run  : the run is empty, proofs are given and the start key is shorter than the trie's keys
func c09WildClass(run *c09Run, start []byte, noProof bool, klen int) string {
	switch {
	case noProof && len(run.keys) == 1 && len(run.keys[0]) == 0:
		return "wild/zero-length-key-noproof"
	case !noProof && len(run.keys) == 0 && len(start) < klen:
		return "wild/short-start-empty-run"
	}
	return ""
}

func c09WildClasses(r *mc.R, fam *c09Family, familyDB c09DB, trieIdx []int, starts [][]byte, vals [][]byte) {
	klen := len(fam.keys[0])
	var tries []*c09Trie
	for _, idx := range trieIdx {
		tr, err := c09NewTrie(fam, c09AssignStr(fam, idx), c09Assign(fam, idx))
		if err != nil {
			return // already reported by the main loop
		}
		tries = append(tries, tr)
	}
	st := c09NewStats()
	defer c09Flush(r, st)
	sound := func(part string, tr *c09Trie, s []byte, run *c09Run, db ethdb.KeyValueReader, dbName string) error {
		more, err := VerifyRangeProof(tr.root, s, run.keys, run.vals, db)
		if err != nil {
			st.misc[part+":rejected"]++
			return nil
		}
		var wantAcc, wantMore bool
		if db == nil {
			wantAcc = c09Whole(tr.ents, run.kv)
		} else {
			wantAcc, wantMore = c09Truth(tr.ents, s, run.kv)
		}
		if !wantAcc || more != wantMore {
			st.misc[part+":FORGERY-ACCEPTED"]++
			return fmt.Errorf("trie %s, proofdb %s: accepted (more=%v) although the claim is not the true content of the covered interval in byte order (want accept=%v more=%v); true content: %s",
				tr.id, dbName, more, wantAcc, wantMore, c09NewRun(tr.ents).str())
		}
		st.misc[part+":true:accepted"]++
		return nil
	}
	name := func(s []byte) string {
		if s == nil {
			return "nil"
		}
		return fmt.Sprintf("%x", s)
	}
	// class 1: one case per value of the single zero-length-key entry; all tries x all starts inside
	for _, v := range vals {
		run := c09NewRun([]c09KV{{[]byte{}, v}})
		r.Case(c09Case{"wild/zero-length-key-noproof", fam.name, "*", "*", run.str(), "nil"}, func() error {
			for _, tr := range tries {
				for _, s := range starts {
					r.Eval(1)
					if err := sound("wild/zero-length-key-noproof", tr, s, run, nil, "nil"); err != nil {
						return fmt.Errorf("start %s: %v", name(s), err)
					}
				}
			}
			return nil
		})
	}
	// class 2: one case per short start key; all tries x proof databases inside
	empty := c09NewRun(nil)
	for _, s := range starts {
		if len(s) >= klen {
			continue
		}
		s := s
		r.Case(c09Case{"wild/short-start-empty-run", fam.name, "*", name(s), "", "*"}, func() error {
			for _, tr := range tries {
				for di, db := range []ethdb.KeyValueReader{tr.proof(s), familyDB, c09DB{}} {
					r.Eval(1)
					if err := sound("wild/short-start-empty-run", tr, s, empty, db, []string{"edge", "family", "empty"}[di]); err != nil {
						return err
					}
				}
			}
			return nil
		})
	}
}
