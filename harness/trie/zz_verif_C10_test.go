//go:build verif

package trie

import (
	"bytes"
	"fmt"
	"testing"

	"github.com/ethereum/go-ethereum/internal/verif/mc"
)

// refHP is the Yellow Paper hex-prefix function (appendix C), written from the
// definition: flag nibble f = 2*t + (len odd), then the nibbles, padded with a
// zero nibble after the flag when the length is even.
func refHP(nibbles []byte, term bool) []byte {
	f := byte(0)
	if term {
		f = 2
	}
	var all []byte
	if len(nibbles)%2 == 1 {
		all = append([]byte{f + 1}, nibbles...)
	} else {
		all = append([]byte{f, 0}, nibbles...)
	}
	out := make([]byte, len(all)/2)
	for i := range out {
		out[i] = all[2*i]*16 + all[2*i+1]
	}
	return out
}

// TestVerif_C10 enumerates every nibble path up to a length bound, with and
// without terminator, and checks the bijection properties of the hex-prefix
// encoding on each one.
func TestVerif_C10(t *testing.T) {
	mc.Run(t, "C10", func(r *mc.R) {
		maxLen := mc.Pick(r, 5, 6)
		r.Rule("all nibble sequences of length 0..L over 16 nibble values x terminator{no,yes}; each is one case; " +
			"distinct = distinct compact encodings observed (injectivity is asserted through the same set); every conversion is called twice with the first result overwritten over its capacity in between (results must not share memory with later calls); plus all byte keys of length<=2")
		r.Bound("max_nibbles", maxLen)
		type shard struct {
			l     int
			first int // first nibble or -1
		}
		var shards []shard
		for l := 0; l <= maxLen; l++ {
			if l == 0 {
				shards = append(shards, shard{0, -1})
				continue
			}
			for f := 0; f < 16; f++ {
				shards = append(shards, shard{l, f})
			}
		}
		seenEnc := make([]map[string]string, len(shards))
		done := r.Parallel(len(shards), func(si int) {
			sh := shards[si]
			seen := map[string]string{}
			seenEnc[si] = seen
			path := make([]byte, sh.l)
			if sh.l > 0 {
				path[0] = byte(sh.first)
			}
			n := 1
			for i := 1; i < sh.l; i++ {
				n *= 16
			}
			for x := 0; x < n; x++ {
				v := x
				for i := sh.l - 1; i >= 1; i-- {
					path[i] = byte(v & 15)
					v >>= 4
				}
				for _, term := range []bool{false, true} {
					hex := append([]byte{}, path...)
					if term {
						hex = append(hex, 16)
					}
					c := struct {
						Hex  []int `json:"hex"`
						Term bool  `json:"term"`
					}{toInts(path), term}
					r.Case(c, func() error {
						enc := hexToCompact(append([]byte{}, hex...))
						if ref := refHP(path, term); !bytes.Equal(enc, ref) {
							return fmt.Errorf("hexToCompact(%x)=%x, Yellow Paper HP gives %x", hex, enc, ref)
						}
						back := compactToHex(append([]byte{}, enc...))
						if !bytes.Equal(back, hex) {
							return fmt.Errorf("compactToHex(hexToCompact(%x))=%x", hex, back)
						}
						// the in-place variant needs a buffer of at least one byte to hold the flag byte: the
						// empty extension path (no terminator, zero nibbles) has none and is outside its domain.
						if len(hex) > 0 {
							inpl := hexToCompactInPlace(append([]byte{}, hex...))
							if !bytes.Equal(inpl, enc) {
								return fmt.Errorf("hexToCompactInPlace(%x)=%x != hexToCompact %x", hex, inpl, enc)
							}
						}
						// results are owned by the caller: overwriting a returned slice over its whole capacity (what a
						// caller appending a terminator or re-encoding in place does) must not change what the next call
						// returns, i.e. no conversion hands out memory it shares with later calls.
						if err := c10Owned("hexToCompact", func() []byte { return hexToCompact(append([]byte{}, hex...)) }); err != nil {
							return err
						}
						if err := c10Owned("compactToHex", func() []byte { return compactToHex(append([]byte{}, enc...)) }); err != nil {
							return err
						}
						if prev, dup := seen[string(enc)]; dup {
							return fmt.Errorf("compact form %x shared by %s and %x/term=%v", enc, prev, path, term)
						}
						seen[string(enc)] = fmt.Sprintf("%x/term=%v", path, term)
						if len(path)%2 == 0 {
							kb := hexToKeybytes(append([]byte{}, hex...))
							if err := c10Owned("hexToKeybytes", func() []byte { return hexToKeybytes(append([]byte{}, hex...)) }); err != nil {
								return err
							}
							if err := c10Owned("keybytesToHex", func() []byte { return keybytesToHex(append([]byte{}, kb...)) }); err != nil {
								return err
							}
							h2 := keybytesToHex(kb)
							if !bytes.Equal(h2[:len(h2)-1], path) || h2[len(h2)-1] != 16 {
								return fmt.Errorf("keybytesToHex(hexToKeybytes(%x))=%x", hex, h2)
							}
							dst := make([]byte, 2*len(kb)+2)
							if len(kb) > 0 {
								if w := writeHexKey(dst, kb); !bytes.Equal(w, path) {
									return fmt.Errorf("writeHexKey(%x)=%x", kb, w)
								}
							}
						}
						return nil
					})
					r.DistinctHash(mc.Hash64(string(hexToCompact(append([]byte{}, hex...)))))
				}
			}
			if si%7 == 0 {
				r.Sample(map[string]any{"nibbles": toInts(path), "compact_noterm": fmt.Sprintf("%x", hexToCompact(append([]byte{}, path...)))})
			}
		})
		// cross-shard injectivity: shards differ in length or first nibble; merge and compare.
		if done == len(shards) {
			all := map[string]string{}
			for _, m := range seenEnc {
				for k, v := range m {
					if prev, dup := all[k]; dup {
						r.Violation("collision:"+fmt.Sprintf("%x", k), fmt.Sprintf("compact form %x shared by %s and %s", k, prev, v), nil)
					}
					all[k] = v
				}
			}
			r.Bound("distinct_compact_forms", len(all))
		}
		// long paths: every length 0..maxLong (covers 32-byte keys = 64 nibbles, their odd/even neighbours and longer paths that
		// word-at-a-time / fast-path implementations treat specially), both parities, with and without terminator, over a small
		// set of nibble patterns (the encoding is positional, patterns make every position distinguishable)
		maxLong := mc.Pick(r, 160, 600)
		r.Bound("max_nibbles_long_paths", maxLong)
		patterns := []func(i int) byte{
			func(i int) byte { return byte(i % 16) },
			func(i int) byte { return byte((i*7 + 3) % 16) },
			func(i int) byte { return 15 },
			func(i int) byte { return 0 },
			func(i int) byte { return byte((i / 2) % 16) },
		}
		for l := 7; l <= maxLong; l++ {
			for pi, pat := range patterns {
				path := make([]byte, l)
				for i := range path {
					path[i] = pat(i)
				}
				for _, term := range []bool{false, true} {
					hex := append([]byte{}, path...)
					if term {
						hex = append(hex, 16)
					}
					r.Case(map[string]any{"long": l, "pattern": pi, "term": term}, func() error {
						enc := hexToCompact(append([]byte{}, hex...))
						if ref := refHP(path, term); !bytes.Equal(enc, ref) {
							return fmt.Errorf("hexToCompact(len %d)=%x, Yellow Paper HP gives %x", l, enc, ref)
						}
						if back := compactToHex(append([]byte{}, enc...)); !bytes.Equal(back, hex) {
							return fmt.Errorf("compactToHex(hexToCompact(len %d)) differs: %x", l, back)
						}
						// in place, with and without spare capacity behind the input
						for _, spare := range []int{0, 8} {
							buf := make([]byte, len(hex), len(hex)+spare)
							copy(buf, hex)
							inpl := hexToCompactInPlace(buf)
							if !bytes.Equal(inpl, enc) {
								return fmt.Errorf("hexToCompactInPlace(len %d, term %v)=%x != hexToCompact %x", l, term, inpl, enc)
							}
						}
						if l%2 == 0 {
							kb := hexToKeybytes(append([]byte{}, hex...))
							h2 := keybytesToHex(kb)
							if !bytes.Equal(h2[:len(h2)-1], path) {
								return fmt.Errorf("keybytesToHex(hexToKeybytes(len %d)) differs", l)
							}
							dst := make([]byte, 2*len(kb))
							if w := writeHexKey(dst, kb); !bytes.Equal(w, path) {
								return fmt.Errorf("writeHexKey(len %d) differs", l)
							}
						}
						return nil
					})
					r.DistinctHash(mc.Hash64(fmt.Sprintf("long|%d|%d|%v", l, pi, term)))
				}
			}
		}
		// byte keys <= 2 bytes: keybytes <-> hex
		for l := 0; l <= 2; l++ {
			n := 1 << (8 * l)
			for x := 0; x < n; x++ {
				kb := make([]byte, l)
				for i := 0; i < l; i++ {
					kb[i] = byte(x >> (8 * i))
				}
				r.Case(map[string]any{"keybytes": fmt.Sprintf("%x", kb)}, func() error {
					h := keybytesToHex(kb)
					if len(h) != 2*l+1 || !hasTerm(h) {
						return fmt.Errorf("keybytesToHex(%x)=%x", kb, h)
					}
					for i, b := range kb {
						if h[2*i] != b>>4 || h[2*i+1] != b&15 {
							return fmt.Errorf("keybytesToHex(%x)=%x", kb, h)
						}
					}
					if back := hexToKeybytes(h); !bytes.Equal(back, kb) {
						return fmt.Errorf("hexToKeybytes(keybytesToHex(%x))=%x", kb, back)
					}
					return nil
				})
			}
		}
	})
}

// c10Owned calls f, overwrites the returned slice over its whole capacity, calls f again and requires the same answer; the
// overwrite is undone afterwards so that a shared buffer (if a change introduces one) is reported by the case that found it
// and not by an unrelated later case.
func c10Owned(name string, f func() []byte) error {
	a := f()
	want := append([]byte{}, a...)
	full := a[:cap(a)]
	for i := range full {
		full[i] ^= 0xa5
	}
	b := f()
	ok := bytes.Equal(b, want)
	got := append([]byte{}, b...)
	for i := range full {
		full[i] ^= 0xa5
	}
	if !ok {
		return fmt.Errorf("%s returned %x, then %x after the caller overwrote the first result (len %d cap %d): the result shares memory with later calls", name, want, got, len(want), len(full))
	}
	return nil
}

func toInts(b []byte) []int {
	out := make([]int, len(b))
	for i, x := range b {
		out[i] = int(x)
	}
	return out
}
