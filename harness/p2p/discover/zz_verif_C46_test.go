//go:build verif

package discover

// C46 — the node table maintains Kademlia and IP-diversity invariants.
//
// The real discover.Table is driven synchronously (no tab.loop, a scripted transport, a
// simulated clock and a scripted random source, so no wall clock and no free randomness)
// through every sequence of discoveries, inbound contacts, removals, revalidation results
// and findnode failures up to a depth bound. After every operation the table's exported
// view (Nodes) and its internals (replacements, IP sets, revalidation lists) are compared
// with values recomputed from scratch by a naive reference.
//
// Two steps:
//   TestVerif_C46_scaled : bucketSize/maxReplacements/IP limits/maxFindnodeFailures shrunk by
//                          run.py's `instrument.consts`, BFS with r.Explore over small alphabets.
//   TestVerif_C46_full   : the constants of the tree as they are; BFS from a pre-filled boundary
//                          state (bucket at capacity, subnet one below the table limit) plus
//                          structured fill / IP-limit / closest-query grids.

import (
	"bytes"
	"encoding/json"
	"errors"
	"fmt"
	"math/rand"
	"net/netip"
	"os"
	"runtime/debug"
	"sort"
	"strconv"
	"strings"
	"sync"
	"testing"
	"time"

	"github.com/ethereum/go-ethereum/common/mclock"
	"github.com/ethereum/go-ethereum/internal/verif/mc"
	"github.com/ethereum/go-ethereum/p2p/enode"
	"github.com/ethereum/go-ethereum/p2p/enr"
)

// ---------------------------------------------------------------------------
// reference helpers (independent of enode.LogDist / DistCmp / netutil)

var c46Self = func() enode.ID {
	var id enode.ID
	for i := range id {
		id[i] = byte(0xA5 ^ (i * 37))
	}
	return id
}()

var c46SelfRec = c46Rec(c46Self, "44.0.0.1", 1)

// c46RefDist is log2(a^b)+1 computed bit by bit (0 for equal ids).
func c46RefDist(a, b enode.ID) int {
	for i := 0; i < len(a); i++ {
		x := a[i] ^ b[i]
		for bit := 7; bit >= 0; bit-- {
			if x>>uint(bit)&1 == 1 {
				return (len(a)-1-i)*8 + bit + 1
			}
		}
	}
	return 0
}

// c46RefBucket is the index of the bucket a node at distance d belongs to: the table keeps
// nBuckets buckets for the largest distances, everything closer shares bucket 0.
func c46RefBucket(d int) int {
	i := d - (len(enode.ID{})*8 - nBuckets) - 1
	if i < 0 {
		i = 0
	}
	return i
}

func c46Xor(a, b enode.ID) []byte {
	out := make([]byte, len(a))
	for i := range a {
		out[i] = a[i] ^ b[i]
	}
	return out
}

// c46IDAt returns the id whose XOR with self is 2^(d-1) | k.
func c46IDAt(d int, k uint32) enode.ID {
	if d < 1 || d > 256 {
		panic("c46IDAt: bad distance")
	}
	if d-1 < 32 && uint64(k) >= uint64(1)<<uint(d-1) {
		panic("c46IDAt: k does not fit below the distance bit")
	}
	id := c46Self
	pos := d - 1
	id[31-pos/8] ^= 1 << uint(pos%8)
	id[31] ^= byte(k)
	id[30] ^= byte(k >> 8)
	id[29] ^= byte(k >> 16)
	id[28] ^= byte(k >> 24)
	if c46RefDist(c46Self, id) != d {
		panic("c46IDAt: internal error")
	}
	return id
}

func c46IsLAN(ip netip.Addr) bool {
	if !ip.Is4() {
		panic("c46: harness uses IPv4 only")
	}
	a := ip.As4()
	switch {
	case a[0] == 10, a[0] == 127:
		return true
	case a[0] == 172 && a[1]&0xf0 == 16:
		return true
	case a[0] == 192 && a[1] == 168:
		return true
	case a[0] == 169 && a[1] == 254:
		return true
	}
	return false
}

// c46Net is the /bits network of ip, masked by hand.
func c46Net(ip netip.Addr, bits int) netip.Prefix {
	a := ip.As4()
	for i := 0; i < 32; i++ {
		if i >= bits {
			a[i/8] &^= 0x80 >> uint(i%8)
		}
	}
	return netip.PrefixFrom(netip.AddrFrom4(a), bits)
}

func c46Rec(id enode.ID, ip string, seq uint64) *enode.Node {
	var r enr.Record
	if ip != "" {
		r.Set(enr.IPv4Addr(netip.MustParseAddr(ip)))
	}
	r.Set(enr.UDP(30303))
	r.SetSeq(seq)
	n := enode.SignNull(&r, id)
	if n.Seq() != seq || n.ID() != id {
		panic("c46Rec: record construction")
	}
	return n
}

// ---------------------------------------------------------------------------
// scenario description

type c46Node struct {
	name  string
	id    enode.ID
	recs  [2]*enode.Node // recs[0]: seq 1; recs[1]: same id, seq 2, other endpoint (may be nil)
	kinds string
}

func c46N(name string, d int, k uint32, ip, alt, kinds string) *c46Node {
	n := &c46Node{name: name, id: c46IDAt(d, k), kinds: kinds}
	n.recs[0] = c46Rec(n.id, ip, 1)
	if alt != "" {
		n.recs[1] = c46Rec(n.id, alt, 2)
	}
	return n
}

// op kinds:
//  f found(rec0)      F found(rec1)       i inbound(rec0)   I inbound(rec1)
//  d delete, the random replacement choice is index 0       D delete, choice = last replacement
//  p ping (start a revalidation request)  o pong            O pong announcing seq 2 (record rec1 is fetched)
//  t request timed out                    P ping+pong       T ping+timeout    Q ping+pong(seq 2)
//  x findnode request failed              s findnode request succeeded
type c46Op struct {
	kind byte
	node int
}

type c46Scenario struct {
	name    string
	nodes   []*c46Node
	ops     []c46Op
	names   []string
	prefill func(s *c46Sys)
	targets []enode.ID
	byID    map[enode.ID]int
	opIndex map[c46Op]int
	noInit  bool // leave tab.initDone open (initial refresh not finished)
}

var c46KindName = map[byte]string{'L': "found-live", 'f': "found", 'F': "found'", 'i': "inbound", 'I': "inbound'", 'd': "del", 'D': "del/rlast",
	'p': "ping", 'o': "pong", 'O': "pong'", 't': "timeout", 'P': "reval-ok", 'T': "reval-fail", 'Q': "reval-ok'",
	'x': "ffail", 's': "fok"}

// from returns the same scenario started in the state reached by the given operations.
func (sc *c46Scenario) from(name string, prefix ...string) *c46Scenario {
	cp := *sc
	cp.name = name
	var ops []int
	for _, p := range prefix {
		found := false
		for i, n := range sc.names {
			if n == p {
				ops = append(ops, i)
				found = true
			}
		}
		if !found {
			panic("c46: unknown prefix op " + p)
		}
	}
	cp.prefill = func(s *c46Sys) {
		for _, op := range ops {
			s.final = false
			if err := s.Apply(op); err != nil {
				panic(err)
			}
		}
		s.dirty = false
	}
	return &cp
}

func c46NewScenario(name string, nodes []*c46Node) *c46Scenario {
	sc := &c46Scenario{name: name, nodes: nodes, byID: map[enode.ID]int{}, opIndex: map[c46Op]int{}}
	for i, n := range nodes {
		if _, dup := sc.byID[n.id]; dup && n.id != c46Self {
			panic("c46: duplicate node id " + n.name)
		}
		sc.byID[n.id] = i
	}
	// simplest first: all adds, then deletes, then the rest
	for _, group := range []string{"fLFiI", "dD", "PTQ", "potO", "xs"} {
		for i, n := range nodes {
			for _, k := range []byte(n.kinds) {
				if strings.IndexByte(group, k) >= 0 {
					if (k == 'F' || k == 'I' || k == 'O' || k == 'Q') && n.recs[1] == nil {
						panic("c46: node without alternate record: " + n.name)
					}
					sc.opIndex[c46Op{k, i}] = len(sc.ops)
					sc.ops = append(sc.ops, c46Op{k, i})
					sc.names = append(sc.names, c46KindName[k]+"-"+n.name)
				}
			}
		}
	}
	var inv enode.ID
	for i := range inv {
		inv[i] = ^c46Self[i]
	}
	sc.targets = []enode.ID{c46Self, inv, nodes[0].id, c46IDAt(255, 0xdead)}
	return sc
}

// ---------------------------------------------------------------------------
// scripted environment

type c46PingRes struct {
	seq uint64
	err error
}

type c46Transport struct {
	self *enode.Node
	mu   sync.Mutex
	rel  map[enode.ID]chan c46PingRes
	enr  map[enode.ID]*enode.Node
}

func (t *c46Transport) Self() *enode.Node { return t.self }
func (t *c46Transport) RequestENR(n *enode.Node) (*enode.Node, error) {
	t.mu.Lock()
	defer t.mu.Unlock()
	if r := t.enr[n.ID()]; r != nil {
		return r, nil
	}
	return nil, errors.New("no record")
}
func (t *c46Transport) lookupRandom() []*enode.Node { return nil }
func (t *c46Transport) lookupSelf() []*enode.Node   { return nil }
func (t *c46Transport) ping(n *enode.Node) (uint64, error) {
	t.mu.Lock()
	ch := t.rel[n.ID()]
	t.mu.Unlock()
	res := <-ch
	return res.seq, res.err
}

// c46Src is a math/rand source under control of the harness: rand.Intn(n) returns pick%n.
type c46Src struct{ pick *int }

func (s c46Src) Int63() int64 { return int64(*s.pick) << 32 }
func (s c46Src) Seed(int64)   {}

type c46Pending struct {
	ptr *tableNode
	rec *enode.Node // record of the entry when the request was started
}

type c46Sys struct {
	r     *mc.R
	sc    *c46Scenario
	tab   *Table
	db    *enode.DB
	tr    *c46Transport
	pick  int
	pend  map[enode.ID]*c46Pending
	final bool
	dirty bool     // the node database was written to
	last  *c46Snap // snapshot taken after the last checked operation (reused by Key)
}

func c46NewSys(r *mc.R, sc *c46Scenario) *c46Sys {
	s := &c46Sys{r: r, sc: sc, pend: map[enode.ID]*c46Pending{}}
	s.tr = &c46Transport{self: c46SelfRec, rel: map[enode.ID]chan c46PingRes{}, enr: map[enode.ID]*enode.Node{}}
	for _, n := range sc.nodes {
		if n.recs[1] != nil {
			s.tr.enr[n.id] = n.recs[1]
		}
	}
	db := c46GetDB()
	s.db = db
	tab, err := newTable(s.tr, db, Config{Clock: new(mclock.Simulated)})
	if err != nil {
		panic(err)
	}
	if tab.len() != 0 {
		panic("c46: harness error: pooled node database was not clean")
	}
	tab.rand.mu.Lock()
	tab.rand.cur = rand.New(c46Src{&s.pick})
	tab.rand.mu.Unlock()
	if !sc.noInit {
		close(tab.initDone) // inbound contacts are refused until the initial refresh is done (checked separately)
	}
	s.tab = tab
	if sc.prefill != nil {
		sc.prefill(s)
	}
	return s
}

func (s *c46Sys) close() {
	close(s.tab.closed) // lets blocked doRevalidate goroutines exit
	s.tr.mu.Lock()
	for _, ch := range s.tr.rel {
		select {
		case ch <- c46PingRes{0, errors.New("closed")}:
		default:
		}
	}
	s.tr.mu.Unlock()
	if s.dirty {
		for _, n := range s.sc.nodes {
			s.db.DeleteNode(n.id)
		}
	}
	c46PutDB(s.db)
}

// Opening and closing an in-memory node database costs ~10 ms (leveldb goroutines), far more than a
// whole operation sequence, so databases are recycled. A system that wrote to its database (findnode
// failure counters, records of long-lived nodes) wipes those keys before handing it back, and every new
// system asserts that newTable loaded no seed node from it.
var c46DBs struct {
	mu   sync.Mutex
	free []*enode.DB
}

func c46GetDB() *enode.DB {
	c46DBs.mu.Lock()
	if n := len(c46DBs.free); n > 0 {
		db := c46DBs.free[n-1]
		c46DBs.free = c46DBs.free[:n-1]
		c46DBs.mu.Unlock()
		return db
	}
	c46DBs.mu.Unlock()
	db, err := enode.OpenDB("")
	if err != nil {
		panic(err)
	}
	return db
}

func c46PutDB(db *enode.DB) {
	c46DBs.mu.Lock()
	c46DBs.free = append(c46DBs.free, db)
	c46DBs.mu.Unlock()
}

func c46DrainDBs() {
	c46DBs.mu.Lock()
	defer c46DBs.mu.Unlock()
	for _, db := range c46DBs.free {
		db.Close()
	}
	c46DBs.free = nil
}

// ---------------------------------------------------------------------------
// white-box snapshot

type c46Ent struct {
	id     enode.ID
	rec    *enode.Node
	ip     netip.Addr
	checks uint
	live   bool
	list   byte // 'f' fast, 's' slow, '-' none, '?' unknown list
	ptr    *tableNode
}

type c46Bucket struct {
	entries, repl []c46Ent
	ips           map[netip.Prefix]uint
	index         int
}

type c46Snap struct {
	b      [nBuckets]c46Bucket
	ips    map[netip.Prefix]uint
	fast   []*tableNode
	slow   []*tableNode
	active []enode.ID
}

func (s *c46Sys) snap() *c46Snap {
	tab := s.tab
	tab.mutex.Lock()
	defer tab.mutex.Unlock()
	sn := &c46Snap{}
	conv := func(list []*tableNode) []c46Ent {
		out := make([]c46Ent, len(list))
		for i, n := range list {
			e := c46Ent{id: n.ID(), rec: n.Node, ip: n.IPAddr(), checks: n.livenessChecks, live: n.isValidatedLive, ptr: n}
			switch n.revalList {
			case nil:
				e.list = '-'
			case &tab.revalidation.fast:
				e.list = 'f'
			case &tab.revalidation.slow:
				e.list = 's'
			default:
				e.list = '?'
			}
			out[i] = e
		}
		return out
	}
	for i, b := range &tab.buckets {
		sb := &sn.b[i]
		sb.entries = conv(b.entries)
		sb.repl = conv(b.replacements)
		sb.index = b.index
		if l := b.ips.Len(); l > 0 {
			sb.ips = c46ParseSet(b.ips.String(), l)
		}
	}
	if l := tab.ips.Len(); l > 0 {
		sn.ips = c46ParseSet(tab.ips.String(), l)
	}
	sn.fast = append(sn.fast, tab.revalidation.fast.nodes...)
	sn.slow = append(sn.slow, tab.revalidation.slow.nodes...)
	for id := range tab.revalidation.activeReq {
		sn.active = append(sn.active, id)
	}
	sort.Slice(sn.active, func(i, j int) bool { return bytes.Compare(sn.active[i][:], sn.active[j][:]) < 0 })
	return sn
}

// c46ParseSet reads the counters of a netutil.DistinctNetSet (its fields are private to netutil) from
// its String form "{net×count net×count}"; Len() cross-checks the parse.
func c46ParseSet(str string, total int) map[netip.Prefix]uint {
	out := map[netip.Prefix]uint{}
	str = strings.TrimSuffix(strings.TrimPrefix(str, "{"), "}")
	sum := 0
	for _, f := range strings.Fields(str) {
		parts := strings.Split(f, "×")
		if len(parts) != 2 {
			panic("c46: cannot parse DistinctNetSet string " + str)
		}
		n, err := strconv.ParseUint(parts[1], 10, 32)
		if err != nil {
			panic("c46: cannot parse DistinctNetSet string " + str)
		}
		out[netip.MustParsePrefix(parts[0])] = uint(n)
		sum += int(n)
	}
	if sum != total {
		panic(fmt.Sprintf("c46: DistinctNetSet %s has Len %d", str, total))
	}
	return out
}

func (sn *c46Snap) all() []c46Ent {
	var out []c46Ent
	for i := range sn.b {
		out = append(out, sn.b[i].entries...)
	}
	return out
}

func c46Find(list []c46Ent, id enode.ID) int {
	for i, e := range list {
		if e.id == id {
			return i
		}
	}
	return -1
}

func c46IDs(list []c46Ent) []enode.ID {
	out := make([]enode.ID, len(list))
	for i, e := range list {
		out[i] = e.id
	}
	return out
}

func c46SameIDs(a, b []c46Ent) bool {
	if len(a) != len(b) {
		return false
	}
	for i := range a {
		if a[i].id != b[i].id {
			return false
		}
	}
	return true
}

func (s *c46Sys) nm(id enode.ID) string {
	if i, ok := s.sc.byID[id]; ok {
		return s.sc.nodes[i].name
	}
	return fmt.Sprintf("%x", id[:4])
}

func (s *c46Sys) fmtList(l []c46Ent) string {
	var sb strings.Builder
	for i, e := range l {
		if i > 0 {
			sb.WriteByte(' ')
		}
		fmt.Fprintf(&sb, "%s@%v#%d/%d%c", s.nm(e.id), e.ip, e.rec.Seq(), e.checks, e.list)
		if e.live {
			sb.WriteByte('L')
		}
	}
	return sb.String()
}

func (s *c46Sys) fmtSnap(sn *c46Snap) string {
	var sb strings.Builder
	for i := range sn.b {
		b := &sn.b[i]
		if len(b.entries)+len(b.repl)+len(b.ips) == 0 {
			continue
		}
		fmt.Fprintf(&sb, "b%d{%s | %s | %s} ", i, s.fmtList(b.entries), s.fmtList(b.repl), c46FmtIPs(b.ips))
	}
	fmt.Fprintf(&sb, "tab%s", c46FmtIPs(sn.ips))
	return sb.String()
}

func c46FmtIPs(m map[netip.Prefix]uint) string {
	var ks []string
	for k, v := range m {
		ks = append(ks, fmt.Sprintf("%v×%d", k, v))
	}
	sort.Strings(ks)
	return "[" + strings.Join(ks, " ") + "]"
}

// Key is the canonical state: bucket contents in order with record version, liveness counters and
// revalidation list of every entry, replacement lists, all IP counters, outstanding requests
// (and whether they refer to a table entry that still exists), and the findnode failure counters.
func (s *c46Sys) Key() string {
	sn := s.last
	s.last = nil
	if sn == nil {
		sn = s.snap()
	}
	var sb strings.Builder
	sb.WriteString(s.fmtSnap(sn))
	var ps []string
	for id, p := range s.pend {
		st := "stale"
		if p.ptr.revalList != nil {
			st = "cur"
		}
		ps = append(ps, fmt.Sprintf("%s:%s:seq%d", s.nm(id), st, p.rec.Seq()))
	}
	sort.Strings(ps)
	fmt.Fprintf(&sb, " pend%v ff[", ps)
	for _, n := range s.sc.nodes {
		if strings.ContainsAny(n.kinds, "xs") {
			fmt.Fprintf(&sb, "%s:%d ", n.name, s.db.FindFails(n.id, n.recs[0].IPAddr()))
		}
	}
	sb.WriteString("]")
	return sb.String()
}

// ---------------------------------------------------------------------------
// invariants of the property statement, recomputed from scratch

func (s *c46Sys) invariants(sn *c46Snap) error {
	// exported view == internal entries
	pub := s.tab.Nodes()
	if len(pub) != nBuckets {
		return fmt.Errorf("Nodes() returned %d buckets", len(pub))
	}
	tabCount := map[netip.Prefix]uint{}
	entryPtr := map[*tableNode]bool{}
	for i := range sn.b {
		b := &sn.b[i]
		if b.index != i {
			return fmt.Errorf("bucket %d has index field %d", i, b.index)
		}
		if len(pub[i]) != len(b.entries) {
			return fmt.Errorf("Nodes()[%d] has %d nodes, bucket has %d entries", i, len(pub[i]), len(b.entries))
		}
		for j, e := range b.entries {
			if pub[i][j].Node != e.rec || pub[i][j].Checks != int(e.checks) || pub[i][j].Live != e.live {
				return fmt.Errorf("Nodes()[%d][%d] differs from the bucket entry %s", i, j, s.nm(e.id))
			}
		}
		if len(b.entries) > bucketSize {
			return fmt.Errorf("bucket %d holds %d entries > bucketSize %d: %s", i, len(b.entries), bucketSize, s.fmtList(b.entries))
		}
		if len(b.repl) > maxReplacements {
			return fmt.Errorf("bucket %d holds %d replacements > maxReplacements %d: %s", i, len(b.repl), maxReplacements, s.fmtList(b.repl))
		}
		seen := map[enode.ID]string{}
		bCount := map[netip.Prefix]uint{}
		for li, list := range [][]c46Ent{b.entries, b.repl} {
			what := []string{"entry", "replacement"}[li]
			for _, e := range list {
				if e.id == c46Self {
					return fmt.Errorf("the local node is in bucket %d as %s", i, what)
				}
				if prev, dup := seen[e.id]; dup {
					return fmt.Errorf("bucket %d: node %s occurs twice (%s and %s)", i, s.nm(e.id), prev, what)
				}
				seen[e.id] = what
				if e.rec.ID() != e.id {
					return fmt.Errorf("bucket %d: tableNode id mismatch", i)
				}
				d := c46RefDist(c46Self, e.id)
				if c46RefBucket(d) != i {
					return fmt.Errorf("node %s at log-distance %d is in bucket %d, belongs to bucket %d", s.nm(e.id), d, i, c46RefBucket(d))
				}
				if !e.ip.IsValid() || e.ip.IsUnspecified() {
					return fmt.Errorf("bucket %d: %s %s has no usable IP (%v)", i, what, s.nm(e.id), e.ip)
				}
				if e.ip != e.rec.IPAddr() {
					return fmt.Errorf("bucket %d: ip mismatch", i)
				}
				if !c46IsLAN(e.ip) {
					bCount[c46Net(e.ip, bucketSubnet)]++
					tabCount[c46Net(e.ip, tableSubnet)]++
				}
				if li == 0 {
					if e.list != 'f' && e.list != 's' {
						return fmt.Errorf("bucket %d: entry %s is in no revalidation list", i, s.nm(e.id))
					}
					entryPtr[e.ptr] = true
				} else if e.list != '-' {
					return fmt.Errorf("bucket %d: replacement %s is in a revalidation list", i, s.nm(e.id))
				}
			}
		}
		for k, v := range bCount {
			if v > bucketIPLimit {
				return fmt.Errorf("bucket %d holds %d nodes (entries+replacements) of %v, bucketIPLimit is %d: %s | %s", i, v, k, bucketIPLimit, s.fmtList(b.entries), s.fmtList(b.repl))
			}
		}
		if !c46EqCounts(bCount, b.ips) {
			return fmt.Errorf("bucket %d IP set %s, recomputed from entries+replacements %s (%s | %s)", i, c46FmtIPs(b.ips), c46FmtIPs(bCount), s.fmtList(b.entries), s.fmtList(b.repl))
		}
	}
	for k, v := range tabCount {
		if v > tableIPLimit {
			return fmt.Errorf("table holds %d nodes of %v, tableIPLimit is %d", v, k, tableIPLimit)
		}
	}
	if !c46EqCounts(tabCount, sn.ips) {
		return fmt.Errorf("table IP set %s, recomputed from all buckets %s", c46FmtIPs(sn.ips), c46FmtIPs(tabCount))
	}
	// revalidation lists: exactly the table entries, each once
	seenPtr := map[*tableNode]bool{}
	for li, l := range [][]*tableNode{sn.fast, sn.slow} {
		for _, p := range l {
			if seenPtr[p] {
				return fmt.Errorf("node %s is twice in the revalidation lists", s.nm(p.ID()))
			}
			seenPtr[p] = true
			if !entryPtr[p] {
				return fmt.Errorf("revalidation list %d holds node %s which is not a table entry", li, s.nm(p.ID()))
			}
			if (li == 0) != (p.revalList == &s.tab.revalidation.fast) {
				return fmt.Errorf("node %s: revalList back-pointer does not match the list holding it", s.nm(p.ID()))
			}
		}
	}
	if len(seenPtr) != len(entryPtr) {
		return fmt.Errorf("%d table entries, %d nodes in revalidation lists", len(entryPtr), len(seenPtr))
	}
	// outstanding requests == what the harness started and not yet answered
	if len(sn.active) != len(s.pend) {
		return fmt.Errorf("activeReq has %d ids, %d requests outstanding", len(sn.active), len(s.pend))
	}
	for _, id := range sn.active {
		if s.pend[id] == nil {
			return fmt.Errorf("activeReq contains %s without outstanding request", s.nm(id))
		}
	}
	return nil
}

func c46EqCounts(want, got map[netip.Prefix]uint) bool {
	if len(want) != len(got) {
		return false
	}
	for k, v := range want {
		if got[k] != v {
			return false
		}
	}
	return true
}

// checkFind compares findnodeByID with the XOR-sorted prefix of the table content.
func (s *c46Sys) checkFind(sn *c46Snap, targets []enode.ID, counts []int) error {
	all := sn.all()
	var live []c46Ent
	for _, e := range all {
		if e.live {
			live = append(live, e)
		}
	}
	for _, target := range targets {
		for _, preferLive := range []bool{false, true} {
			src := all
			if preferLive && len(live) > 0 {
				src = live
			}
			type distEnt struct {
				d []byte
				e c46Ent
			}
			ds := make([]distEnt, len(src))
			for i, e := range src {
				ds[i] = distEnt{c46Xor(target, e.id), e}
			}
			sort.SliceStable(ds, func(i, j int) bool { return bytes.Compare(ds[i].d, ds[j].d) < 0 })
			want := make([]c46Ent, len(ds))
			for i := range ds {
				want[i] = ds[i].e
			}
			for _, n := range counts {
				got := s.tab.findnodeByID(target, n, preferLive)
				w := want
				if len(w) > n {
					w = w[:n]
				}
				ok := len(got.entries) == len(w)
				for i := 0; ok && i < len(w); i++ {
					ok = got.entries[i] == w[i].rec
				}
				if !ok {
					var g []string
					for _, e := range got.entries {
						g = append(g, s.nm(e.ID()))
					}
					var ws []string
					for _, e := range w {
						ws = append(ws, s.nm(e.id))
					}
					return fmt.Errorf("findnodeByID(target=%x.., n=%d, preferLive=%v) = %v, the XOR-closest table nodes are %v", target[:4], n, preferLive, g, ws)
				}
			}
		}
	}
	return nil
}

// ---------------------------------------------------------------------------
// operations

func (s *c46Sys) entryOf(id enode.ID) *tableNode {
	s.tab.mutex.Lock()
	defer s.tab.mutex.Unlock()
	for _, e := range s.tab.buckets[c46RefBucket(c46RefDist(c46Self, id))].entries {
		if e.ID() == id {
			return e
		}
	}
	return nil
}

func (s *c46Sys) Enabled(op int) bool {
	s.final = true
	o := s.sc.ops[op]
	n := s.sc.nodes[o.node]
	switch o.kind {
	case 'D':
		s.tab.mutex.Lock()
		nr := len(s.tab.buckets[c46RefBucket(c46RefDist(c46Self, n.id))].replacements)
		s.tab.mutex.Unlock()
		return nr >= 2 && s.entryOf(n.id) != nil
	case 'p', 'P', 'T', 'Q':
		return s.pend[n.id] == nil && s.entryOf(n.id) != nil
	case 'o', 'O', 't':
		return s.pend[n.id] != nil
	}
	return true
}

func (s *c46Sys) add(rec *enode.Node, inbound, forceLive bool) bool {
	s.tab.mutex.Lock()
	defer s.tab.mutex.Unlock()
	return s.tab.handleAddNode(addNodeOp{node: rec, isInbound: inbound, forceSetLive: forceLive})
}

func (s *c46Sys) startPing(n *c46Node) {
	ent := s.entryOf(n.id)
	ch := make(chan c46PingRes, 1)
	s.tr.mu.Lock()
	s.tr.rel[n.id] = ch
	s.tr.mu.Unlock()
	s.pend[n.id] = &c46Pending{ptr: ent, rec: ent.Node}
	s.tab.revalidation.startRequest(s.tab, ent)
}

func (s *c46Sys) deliver(n *c46Node, res c46PingRes) {
	s.tr.mu.Lock()
	ch := s.tr.rel[n.id] // stays in the map: the request goroutine may not have fetched it yet
	s.tr.mu.Unlock()
	ch <- res
	resp := <-s.tab.revalResponseCh
	delete(s.pend, n.id)
	s.tab.revalidation.handleResponse(s.tab, resp)
}

var c46ErrTimeout = errors.New("timeout")

func (s *c46Sys) Apply(op int) error {
	final := s.final
	s.final = false
	o := s.sc.ops[op]
	n := s.sc.nodes[o.node]
	var before *c46Snap
	var stale bool
	var pendRec *enode.Node
	if final {
		before = s.snap()
		if p := s.pend[n.id]; p != nil {
			stale = p.ptr.revalList == nil
			pendRec = p.rec
		}
	}
	var ret bool
	if strings.IndexByte("fLFiIdDp", o.kind) < 0 {
		s.dirty = true
	}
	switch o.kind {
	case 'f':
		ret = s.add(n.recs[0], false, false)
	case 'L':
		ret = s.add(n.recs[0], false, true)
	case 'F':
		ret = s.add(n.recs[1], false, false)
	case 'i':
		ret = s.add(n.recs[0], true, false)
	case 'I':
		ret = s.add(n.recs[1], true, false)
	case 'd':
		s.pick = 0
		s.tab.deleteNode(n.recs[0])
	case 'D':
		s.tab.mutex.Lock()
		s.pick = len(s.tab.buckets[c46RefBucket(c46RefDist(c46Self, n.id))].replacements) - 1
		s.tab.mutex.Unlock()
		s.tab.deleteNode(n.recs[0])
		s.pick = 0
	case 'p':
		s.startPing(n)
	case 'o':
		s.deliver(n, c46PingRes{0, nil})
	case 'O':
		s.deliver(n, c46PingRes{2, nil})
	case 't':
		s.deliver(n, c46PingRes{0, c46ErrTimeout})
	case 'P':
		s.startPing(n)
		s.deliver(n, c46PingRes{0, nil})
	case 'Q':
		s.startPing(n)
		s.deliver(n, c46PingRes{2, nil})
	case 'T':
		s.startPing(n)
		s.deliver(n, c46PingRes{0, c46ErrTimeout})
	case 'x':
		s.tab.handleTrackRequest(trackRequestOp{node: n.recs[0], success: false})
	case 's':
		s.tab.handleTrackRequest(trackRequestOp{node: n.recs[0], success: true})
	default:
		panic("c46: unknown op kind")
	}
	s.last = nil
	if !final {
		return nil
	}
	after := s.snap()
	s.last = after
	if err := s.invariants(after); err != nil {
		return fmt.Errorf("%v\n  before: %s\n  after:  %s", err, s.fmtSnap(before), s.fmtSnap(after))
	}
	if err := s.post(o, n, before, after, ret, stale, pendRec); err != nil {
		return fmt.Errorf("%v\n  before: %s\n  after:  %s", err, s.fmtSnap(before), s.fmtSnap(after))
	}
	counts := []int{1, bucketSize, len(after.all()) + 1}
	if err := s.checkFind(after, s.sc.targets, counts); err != nil {
		return fmt.Errorf("%v\n  table: %s", err, s.fmtSnap(after))
	}
	return nil
}

// admissible is the reference admission rule for a new IP given the contents before the operation:
// the IP is usable, and either it is a LAN address (exempt) or both the bucket and the table have
// room in its subnet.
func c46Admissible(before *c46Snap, bi int, ip netip.Addr) bool {
	if !ip.IsValid() || ip.IsUnspecified() {
		return false
	}
	if c46IsLAN(ip) {
		return true
	}
	var bc, tc uint
	for i := range before.b {
		for _, list := range [][]c46Ent{before.b[i].entries, before.b[i].repl} {
			for _, e := range list {
				if c46IsLAN(e.ip) {
					continue
				}
				if i == bi && c46Net(e.ip, bucketSubnet) == c46Net(ip, bucketSubnet) {
					bc++
				}
				if c46Net(e.ip, tableSubnet) == c46Net(ip, tableSubnet) {
					tc++
				}
			}
		}
	}
	return bc < bucketIPLimit && tc < tableIPLimit
}

// post checks the operation-specific postconditions that follow from the documented contract of
// the handlers (they make the exploration non-vacuous: an always-empty table would satisfy the
// invariants). It also classifies the outcome for the histogram.
func (s *c46Sys) post(o c46Op, n *c46Node, before, after *c46Snap, ret, stale bool, pendRec *enode.Node) error {
	bi := c46RefBucket(c46RefDist(c46Self, n.id))
	bb, ab := &before.b[bi], &after.b[bi]
	// nothing outside the node's bucket may change, whatever the operation
	for i := range before.b {
		if i == bi && n.id != c46Self {
			continue
		}
		if !c46SameIDs(before.b[i].entries, after.b[i].entries) || !c46SameIDs(before.b[i].repl, after.b[i].repl) {
			return fmt.Errorf("operation on %s (bucket %d) changed bucket %d", n.name, bi, i)
		}
	}
	unchanged := func() bool {
		return c46SameIDs(bb.entries, ab.entries) && c46SameIDs(bb.repl, ab.repl)
	}
	switch o.kind {
	case 'f', 'L', 'F', 'i', 'I':
		rec := n.recs[0]
		if o.kind == 'F' || o.kind == 'I' {
			rec = n.recs[1]
		}
		inbound := o.kind == 'i' || o.kind == 'I'
		if inbound && !s.tab.isInitDone() {
			if ret || s.fmtSnap(before) != s.fmtSnap(after) {
				return fmt.Errorf("inbound contact %s before the initial refresh finished: returned %v / table changed", n.name, ret)
			}
			s.r.Outcome("add:inbound-refused-before-init")
			return nil
		}
		if n.id == c46Self {
			if ret || !unchanged() {
				return fmt.Errorf("adding the local node: returned %v / table changed", ret)
			}
			s.r.Outcome("add:self-refused")
			return nil
		}
		ei := c46Find(bb.entries, n.id)
		if ei >= 0 {
			// already an entry: never reported as added, membership and order unchanged, the record is
			// replaced only for inbound contacts or an advancing sequence number
			if ret || !unchanged() {
				return fmt.Errorf("re-adding entry %s: returned %v / bucket membership changed", n.name, ret)
			}
			old, cur := bb.entries[ei], ab.entries[ei]
			switch {
			case cur.rec == old.rec:
				if rec != old.rec && (inbound || rec.Seq() > old.rec.Seq()) {
					if c46AdmissibleWithout(before, bi, rec.IPAddr(), n.id) {
						return fmt.Errorf("update of %s to a newer/inbound record with admissible endpoint was dropped", n.name)
					}
					s.r.Outcome("update:refused-by-ip-limit")
				} else {
					s.r.Outcome("add:already-present")
				}
			case cur.rec == rec:
				if !inbound && rec.Seq() <= old.rec.Seq() {
					return fmt.Errorf("found-node update of %s accepted although seq did not advance (%d -> %d)", n.name, old.rec.Seq(), rec.Seq())
				}
				if cur.ip != old.ip || cur.rec.UDP() != old.rec.UDP() {
					if cur.live || cur.list != 'f' {
						return fmt.Errorf("endpoint of %s changed but node is still considered live / not in the fast revalidation list", n.name)
					}
					s.r.Outcome("update:endpoint-changed")
				} else {
					s.r.Outcome("update:record")
				}
			default:
				return fmt.Errorf("entry %s carries an unrelated record", n.name)
			}
			return nil
		}
		if ret != (c46Find(ab.entries, n.id) >= 0) {
			return fmt.Errorf("handleAddNode(%s) returned %v but node is entry afterwards: %v", n.name, ret, !ret)
		}
		if len(bb.entries) < bucketSize {
			adm := c46Admissible(before, bi, rec.IPAddr())
			if adm != ret {
				return fmt.Errorf("bucket %d has room (%d/%d); IP %v admissible by recomputed subnet counts: %v; handleAddNode returned %v", bi, len(bb.entries), bucketSize, rec.IPAddr(), adm, ret)
			}
			if ret {
				if len(ab.entries) != len(bb.entries)+1 || !c46SameIDs(bb.entries, ab.entries[:len(bb.entries)]) || ab.entries[len(bb.entries)].id != n.id {
					return fmt.Errorf("new node %s was not appended to the bucket", n.name)
				}
				s.r.Outcome("add:new-entry")
			} else {
				if !unchanged() {
					return fmt.Errorf("refused node %s changed the bucket", n.name)
				}
				if !rec.IPAddr().IsValid() {
					s.r.Outcome("add:refused-no-ip")
				} else {
					s.r.Outcome("add:refused-by-ip-limit")
				}
			}
			return nil
		}
		// bucket full: entries untouched, replacement list may take the node
		if ret || !c46SameIDs(bb.entries, ab.entries) {
			return fmt.Errorf("bucket %d is full but add of %s returned %v / changed the entries", bi, n.name, ret)
		}
		for _, e := range ab.repl {
			if e.id != n.id && c46Find(bb.repl, e.id) < 0 {
				return fmt.Errorf("replacement list gained foreign node %s", s.nm(e.id))
			}
		}
		switch {
		case c46Find(bb.repl, n.id) >= 0:
			if !c46SameIDs(bb.repl, ab.repl) {
				return fmt.Errorf("re-adding replacement %s changed the replacement list", n.name)
			}
			s.r.Outcome("add:already-replacement")
		case c46Find(ab.repl, n.id) >= 0:
			if !c46Admissible(before, bi, rec.IPAddr()) {
				return fmt.Errorf("replacement %s admitted although its subnet was at the limit", n.name)
			}
			if len(ab.repl) < len(bb.repl) {
				return fmt.Errorf("replacement list shrank")
			}
			if len(bb.repl) == maxReplacements {
				s.r.Outcome("add:replacement-evicts-oldest")
			} else {
				s.r.Outcome("add:replacement")
			}
		default:
			if !c46SameIDs(bb.repl, ab.repl) {
				return fmt.Errorf("refused replacement %s changed the replacement list", n.name)
			}
			s.r.Outcome("add:replacement-refused")
		}
	case 'd', 'D':
		if c46Find(ab.entries, n.id) >= 0 {
			return fmt.Errorf("deleteNode(%s): node is still a bucket entry", n.name)
		}
		return s.postRemoval(n, bb, ab, "del")
	case 'p':
		if !unchanged() {
			return fmt.Errorf("starting a request changed the bucket")
		}
		s.r.Outcome("ping")
	case 'o', 'O', 't', 'P', 'Q', 'T':
		if stale {
			// the checked table entry is gone (possibly re-added as a new entry): the late answer is ignored
			if s.fmtSnap(before) != s.fmtSnap(after) {
				return fmt.Errorf("late revalidation answer for removed entry %s changed the table", n.name)
			}
			s.r.Outcome("reval:late-answer-ignored")
			return nil
		}
		ei := c46Find(bb.entries, n.id)
		if ei < 0 {
			return fmt.Errorf("harness: non-stale request for absent node")
		}
		old := bb.entries[ei]
		if o.kind == 't' || o.kind == 'T' {
			ai := c46Find(ab.entries, n.id)
			if ai >= 0 {
				if ab.entries[ai].checks >= old.checks {
					return fmt.Errorf("node %s failed its liveness check and stays with checks %d -> %d", n.name, old.checks, ab.entries[ai].checks)
				}
				if !unchanged() {
					return fmt.Errorf("failed check that keeps the node changed bucket membership")
				}
				if ab.entries[ai].list != 'f' {
					return fmt.Errorf("node %s failed a check but is not in the fast list", n.name)
				}
				s.r.Outcome("reval:failed-kept")
				return nil
			}
			return s.postRemoval(n, bb, ab, "reval:failed")
		}
		ai := c46Find(ab.entries, n.id)
		if ai < 0 || !unchanged() {
			return fmt.Errorf("node %s answered its liveness check but bucket membership changed", n.name)
		}
		cur := ab.entries[ai]
		if cur.checks != old.checks+1 {
			return fmt.Errorf("node %s answered: livenessChecks %d -> %d", n.name, old.checks, cur.checks)
		}
		if cur.rec != old.rec {
			if cur.rec.Seq() <= old.rec.Seq() {
				return fmt.Errorf("revalidation replaced the record of %s by an older one", n.name)
			}
			if cur.ip != old.ip && (cur.live || cur.list != 'f') {
				return fmt.Errorf("endpoint of %s changed in revalidation but node is live / not in fast list", n.name)
			}
			s.r.Outcome("reval:ok-new-record")
		} else {
			if !cur.live || cur.list != 's' {
				return fmt.Errorf("node %s answered but is not marked live in the slow list (live=%v list=%c)", n.name, cur.live, cur.list)
			}
			if pendRec == nil {
				pendRec = old.rec // combined ping+answer
			}
			// the announced seq 2 makes the table fetch record rec1 iff the record it pinged was older;
			// the fetched record replaces the entry's current one iff it is newer than that
			if (o.kind == 'O' || o.kind == 'Q') && pendRec.Seq() < 2 && old.rec.Seq() < 2 {
				if c46AdmissibleWithout(before, bi, n.recs[1].IPAddr(), n.id) {
					return fmt.Errorf("node %s announced a newer record with admissible endpoint, record not updated", n.name)
				}
				s.r.Outcome("reval:ok-new-record-refused-by-ip-limit")
			} else {
				s.r.Outcome("reval:ok")
			}
		}
	case 'x', 's':
		if c46Find(bb.entries, n.id) >= 0 && c46Find(ab.entries, n.id) < 0 {
			if o.kind == 's' {
				return fmt.Errorf("successful findnode request removed %s", n.name)
			}
			return s.postRemoval(n, bb, ab, "ffail")
		}
		if !unchanged() {
			return fmt.Errorf("findnode result for %s changed the bucket without removing the node", n.name)
		}
		s.r.Outcome("findnode-result:kept")
	}
	return nil
}

// c46AdmissibleWithout: admission of ip when the node id's own current address is not counted.
func c46AdmissibleWithout(before *c46Snap, bi int, ip netip.Addr, id enode.ID) bool {
	cp := &c46Snap{}
	for i := range before.b {
		for _, e := range before.b[i].entries {
			if e.id != id {
				cp.b[i].entries = append(cp.b[i].entries, e)
			}
		}
		cp.b[i].repl = before.b[i].repl
	}
	return c46Admissible(cp, bi, ip)
}

// postRemoval: node n was an entry before (or was absent) and is not an entry now. If the bucket
// had replacements exactly one of them takes the free slot, otherwise the bucket shrinks by one.
func (s *c46Sys) postRemoval(n *c46Node, bb, ab *c46Bucket, tag string) error {
	ei := c46Find(bb.entries, n.id)
	if ei < 0 {
		if !c46SameIDs(bb.entries, ab.entries) || !c46SameIDs(bb.repl, ab.repl) {
			return fmt.Errorf("removing absent node %s changed the bucket", n.name)
		}
		s.r.Outcome(tag + ":absent-noop")
		return nil
	}
	rest := append(append([]c46Ent{}, bb.entries[:ei]...), bb.entries[ei+1:]...)
	if len(bb.repl) == 0 {
		if !c46SameIDs(rest, ab.entries) || len(ab.repl) != 0 {
			return fmt.Errorf("removing %s: remaining entries differ from the previous ones", n.name)
		}
		s.r.Outcome(tag + ":removed")
		return nil
	}
	if len(ab.entries) != len(bb.entries) || !c46SameIDs(rest, ab.entries[:len(rest)]) {
		return fmt.Errorf("removing %s with %d replacements available: the slot was not refilled / entries reordered", n.name, len(bb.repl))
	}
	promoted := ab.entries[len(rest)]
	ri := c46Find(bb.repl, promoted.id)
	if ri < 0 {
		return fmt.Errorf("removing %s: slot refilled by %s which was not a replacement", n.name, s.nm(promoted.id))
	}
	restR := append(append([]c46Ent{}, bb.repl[:ri]...), bb.repl[ri+1:]...)
	if !c46SameIDs(restR, ab.repl) {
		return fmt.Errorf("removing %s: replacement list after promotion is wrong", n.name)
	}
	s.r.Outcome(fmt.Sprintf("%s:replaced-by-replacement-%d", tag, ri))
	return nil
}

// c46Replay re-executes one operation sequence from a replay file with every step checked. r.Explore has its
// own replay mode, but it reports the violation under a differently formatted key than the exploration did
// ("name:[a b]" instead of "name:a;b"), so run.py's confirmation would never match; this keeps the key stable.
func c46Replay(r *mc.R, sc *c46Scenario) {
	raw, err := os.ReadFile(os.Getenv("VERIF_REPLAY"))
	if err != nil {
		return
	}
	var f struct {
		Replay struct {
			Explore string   `json:"explore"`
			Ops     []string `json:"ops"`
		} `json:"replay"`
	}
	if json.Unmarshal(raw, &f) != nil || f.Replay.Explore != sc.name {
		return
	}
	desc := map[string]any{"explore": sc.name, "ops": f.Replay.Ops}
	r.Case(desc, func() error { return nil }) // registers the replay hit
	s := c46NewSys(r, sc)
	defer s.close()
	err = mc.Safely(func() error {
		for _, name := range f.Replay.Ops {
			op := -1
			for i, n := range sc.names {
				if n == name {
					op = i
				}
			}
			if op < 0 {
				return fmt.Errorf("replay: unknown op %q", name)
			}
			if !s.Enabled(op) {
				return fmt.Errorf("replay: op %q not enabled", name)
			}
			if e := s.Apply(op); e != nil {
				return fmt.Errorf("at op %s: %v", name, e)
			}
		}
		return nil
	})
	if err != nil {
		r.Violation(sc.name+":"+strings.Join(f.Replay.Ops, ";"), err.Error(), desc)
	}
}

func c46Explore(r *mc.R, sc *c46Scenario, depth int) {
	if r.Replaying() {
		c46Replay(r, sc)
		return
	}
	defer func(t0 time.Time) {
		r.T.Logf("c46: scenario %s depth %d alphabet %d: %.1fs", sc.name, depth, len(sc.names), time.Since(t0).Seconds())
	}(time.Now())
	r.Explore(mc.Config{
		Name:  sc.name,
		Ops:   sc.names,
		Depth: depth,
		New:   func() mc.Sys { return c46NewSys(r, sc) },
		Close: func(x mc.Sys) { x.(*c46Sys).close() },
	})
}

// ---------------------------------------------------------------------------
// step 1: scaled constants

func TestVerif_C46_scaled(t *testing.T) {
	if bucketSize > 3 || maxReplacements > 3 || tableIPLimit > 4 || maxFindnodeFailures > 3 {
		t.Fatalf("C46 scaled step must run with shrunk constants (instrument.consts); got bucketSize=%d maxReplacements=%d tableIPLimit=%d maxFindnodeFailures=%d",
			bucketSize, maxReplacements, tableIPLimit, maxFindnodeFailures)
	}
	defer c46DrainDBs()
	defer debug.SetGCPercent(debug.SetGCPercent(400)) // many short-lived tables; the live heap is tiny
	mc.Run(t, "C46", func(r *mc.R) {
		r.Rule("BFS (r.Explore, de-duplicated by canonical table state) over all sequences of table operations up to the depth bound, on the real " +
			"discover.Table with scaled constants; a state = bucket entries/replacements in order with record version, liveness counters, revalidation list, " +
			"IP-set counters, outstanding requests, findnode-failure counters; distinct = distinct states reached")
		r.Bound("bucketSize", bucketSize)
		r.Bound("maxReplacements", maxReplacements)
		r.Bound("bucketIPLimit", bucketIPLimit)
		r.Bound("tableIPLimit", tableIPLimit)
		r.Bound("maxFindnodeFailures", maxFindnodeFailures)
		r.Assume("table driven synchronously through its handlers (handleAddNode, deleteNode, handleTrackRequest, revalidation startRequest/handleResponse) without tab.loop; " +
			"transport, clock and math/rand source are scripted by the harness (the random replacement choice is enumerated: first / last)")
		r.Assume("reference = counts, distances, XOR order and subnet membership recomputed from scratch with hand-written helpers; operation postconditions follow the handlers' documented contract")
		r.Assume("IPv4 only; refresh/lookup/seed loading are not exercised; the order of nodes inside the revalidation lists is not part of the state")
		const (
			S1 = "23.1.1."
			S2 = "23.1.2."
		)
		// scenario "ip": many nodes of one /24 in two far buckets and the shared bucket 0, one other /24, one LAN node,
		// one node without IP, the local node itself
		ip := c46NewScenario("ip", []*c46Node{
			c46N("a1", 256, 1, S1+"1", "", "fdDT"),
			c46N("a2", 256, 2, S1+"2", "", "fdT"),
			c46N("a3", 256, 3, S1+"3", "", "f"),
			c46N("a4", 256, 4, S2+"1", "", "fdD"),
			c46N("a5", 256, 5, "10.0.0.5", "", "f"),
			c46N("a6", 256, 6, S2+"2", "", "f"),
			c46N("b1", 255, 1, S1+"4", "", "fd"),
			c46N("b2", 255, 2, S1+"5", "", "f"),
			c46N("c1", 240, 1, S1+"6", "", "fd"),
			c46N("c2", 9, 2, S2+"3", "", "f"),
			c46N("noip", 256, 7, "", "", "f"),
			{name: "self", id: c46Self, recs: [2]*enode.Node{c46Rec(c46Self, S2+"9", 1), nil}, kinds: "f"},
		})
		// scenario "reval": few nodes, every handler incl. endpoint updates (same id, new IP in the other /24),
		// late answers for removed entries, findnode failure counters
		reval := c46NewScenario("reval", []*c46Node{
			c46N("a1", 256, 1, S1+"1", S2+"1", "fFIdpoOtx"),
			c46N("a2", 256, 2, S1+"2", S1+"7", "fdTQxs"),
			c46N("a3", 256, 3, S2+"3", S1+"3", "fFdT"),
			c46N("b1", 255, 1, S1+"4", S2+"4", "fiIQ"),
		})
		c46Explore(r, ip, mc.Pick(r, 4, 6))
		c46Explore(r, reval, mc.Pick(r, 4, 5))
		// the same alphabets from deeper start states (reached by the named prefix, which is itself part of the
		// exploration above): bucket A full with a replacement and subnet S1 at the table limit; bucket A with an
		// entry of the other subnet and a replacement
		c46Explore(r, ip.from("ip+4", "found-a1", "found-a2", "found-a4", "found-b1"), mc.Pick(r, 3, 4))
		c46Explore(r, reval.from("reval+3", "found-a3", "found-a1", "found-a2"), mc.Pick(r, 3, 5))
	})
}

// ---------------------------------------------------------------------------
// step 2: the constants of the tree as they are

// step runs one checked operation (kind on node index) outside r.Explore.
func (s *c46Sys) step(kind byte, node int) error {
	idx, ok := s.sc.opIndex[c46Op{kind, node}]
	if !ok {
		panic(fmt.Sprintf("c46: scenario %s has no op %c on node %d", s.sc.name, kind, node))
	}
	if !s.Enabled(idx) {
		s.final = false
		return nil
	}
	if err := s.Apply(idx); err != nil {
		return fmt.Errorf("at %s: %v", s.sc.names[idx], err)
	}
	return nil
}

// checkNow verifies all invariants and the closest-node queries on the current state.
func (s *c46Sys) checkNow() error {
	sn := s.snap()
	if err := s.invariants(sn); err != nil {
		return fmt.Errorf("%v\n  table: %s", err, s.fmtSnap(sn))
	}
	return s.checkFind(sn, s.sc.targets, []int{1, bucketSize, len(sn.all()) + 1})
}

func (s *c46Sys) bucketCounts(d int) (entries, repl int) {
	sn := s.snap()
	b := &sn.b[c46RefBucket(d)]
	return len(b.entries), len(b.repl)
}

// c46Boundary builds the pre-filled boundary scenario for the unscaled BFS: bucket A (distance 256) holds
// bucketSize entries (bucketIPLimit-1 of them in subnet S) and maxReplacements-1 replacements, and subnet S
// has tableIPLimit-1 nodes in the table, spread over the next buckets with bucketIPLimit each.
func c46Boundary() *c46Scenario {
	const S = "23.1.1."
	var nodes []*c46Node
	var pre []int
	host := 1
	addPre := func(n *c46Node) int {
		nodes = append(nodes, n)
		pre = append(pre, len(nodes)-1)
		return len(nodes) - 1
	}
	sCount := 0
	for i := 0; i < bucketSize; i++ {
		kinds := ""
		switch i {
		case 0:
			kinds = "dD"
		case 1:
			kinds = "TP"
		}
		if i >= 2 && i < 2+bucketIPLimit-1 {
			n := c46N(fmt.Sprintf("eS%d", i), 256, uint32(100+i), fmt.Sprintf("%s%d", S, host), "", "d")
			host++
			sCount++
			addPre(n)
			continue
		}
		addPre(c46N(fmt.Sprintf("e%d", i), 256, uint32(100+i), fmt.Sprintf("31.0.%d.1", i), "", kinds))
	}
	for i := 0; i < maxReplacements-1; i++ {
		addPre(c46N(fmt.Sprintf("r%d", i), 256, uint32(200+i), fmt.Sprintf("32.0.%d.1", i), "", ""))
	}
	for d := 255; sCount < tableIPLimit-1 && d > 241; d-- {
		for j := 0; j < bucketIPLimit && sCount < tableIPLimit-1; j++ {
			kinds := ""
			if d == 255 && j == 0 {
				kinds = "d"
			}
			addPre(c46N(fmt.Sprintf("s%d.%d", d, j), d, uint32(j+1), fmt.Sprintf("%s%d", S, host), "", kinds))
			host++
			sCount++
		}
	}
	if sCount != tableIPLimit-1 {
		panic("c46: cannot place tableIPLimit-1 nodes of one subnet")
	}
	// nodes that are not in the table initially
	nodes = append(nodes,
		c46N("new1", 256, 300, "33.0.1.1", "", "f"),
		c46N("new2", 256, 301, "33.0.2.1", "", "f"),
		c46N("sA1", 256, 302, fmt.Sprintf("%s%d", S, host), "", "f"),
		c46N("sA2", 256, 303, fmt.Sprintf("%s%d", S, host+1), "", "f"),
		c46N("sF", 241, 1, fmt.Sprintf("%s%d", S, host+2), "", "f"),
		c46N("sG", 200, 1, fmt.Sprintf("%s%d", S, host+3), "", "f"),
		c46N("lan", 241, 2, "192.168.7.7", "", "f"),
	)
	sc := c46NewScenario("boundary", nodes)
	sc.prefill = func(s *c46Sys) {
		for _, i := range pre {
			s.add(nodes[i].recs[0], false, false)
		}
		e, r := s.bucketCounts(256)
		if e != bucketSize || r != maxReplacements-1 {
			panic(fmt.Sprintf("c46: boundary prefill gave %d entries, %d replacements", e, r))
		}
	}
	return sc
}

func TestVerif_C46_full(t *testing.T) {
	defer c46DrainDBs()
	defer debug.SetGCPercent(debug.SetGCPercent(400))
	mc.Run(t, "C46", func(r *mc.R) {
		r.Rule("constants of the tree unscaled. (a) BFS (r.Explore) from a pre-filled boundary state: one bucket at bucketSize entries and maxReplacements-1 replacements, " +
			"one /24 at tableIPLimit-1 nodes spread over buckets; (b) grids via r.Case: fill of one bucket with 0..bucketSize+maxReplacements+2 nodes at 6 distances then removal of " +
			"every entry; one /24 offered tableIPLimit+2 times with 1/bucketIPLimit/bucketIPLimit+1 nodes per bucket into empty or full buckets; closest-node queries on tables with " +
			"1/3/bucketSize nodes in every bucket; inbound contacts before the initial refresh. Every step of every case is checked; distinct = distinct table states")
		r.Bound("bucketSize", bucketSize)
		r.Bound("maxReplacements", maxReplacements)
		r.Bound("bucketIPLimit", bucketIPLimit)
		r.Bound("tableIPLimit", tableIPLimit)
		r.Bound("nBuckets", nBuckets)
		r.Assume("same driver, reference helpers and postconditions as the scaled step")

		// (a) boundary-state BFS
		c46Explore(r, c46Boundary(), mc.Pick(r, 2, 4))

		// the grid cases are independent of each other: collect them and run them on all cores
		var jobs []func()
		addCase := func(c any, fn func() error) { jobs = append(jobs, func() { r.Case(c, fn) }) }

		// (b1) fill / drain one bucket
		total := bucketSize + maxReplacements + 2
		for _, d := range []int{256, 255, 241, 240, 200, 6} {
			var nodes []*c46Node
			for i := 0; i < total; i++ {
				nodes = append(nodes, c46N(fmt.Sprintf("g%d", i), d, uint32(i+1), fmt.Sprintf("50.%d.%d.1", d%200, i), "", "fdD"))
			}
			sc := c46NewScenario(fmt.Sprintf("fill-d%d", d), nodes)
			for _, n := range []int{1, bucketSize - 1, bucketSize, bucketSize + 1, bucketSize + maxReplacements, total} {
				c := map[string]any{"grid": "fill", "dist": d, "nodes": n}
				if n == bucketSize+1 {
					r.Sample(c)
				}
				addCase(c, func() error {
					s := c46NewSys(r, sc)
					defer s.close()
					for i := 0; i < n; i++ {
						if err := s.step('f', i); err != nil {
							return err
						}
						e, rp := s.bucketCounts(d)
						we, wr := min(i+1, bucketSize), min(max(i+1-bucketSize, 0), maxReplacements)
						if e != we || rp != wr {
							return fmt.Errorf("after %d nodes of distinct subnets at distance %d: %d entries, %d replacements; capacity rule gives %d, %d", i+1, d, e, rp, we, wr)
						}
						r.DistinctHash(mc.Hash64(s.Key()))
					}
					// remove every node in insertion order, replacement choice alternating first/last
					for i := 0; i < n; i++ {
						kind := byte('d')
						if i%2 == 1 {
							kind = 'D'
						}
						if err := s.step(kind, i); err != nil {
							return err
						}
						if err := s.step('d', i); err != nil { // when 'D' was not enabled (fewer than 2 replacements)
							return err
						}
						r.DistinctHash(mc.Hash64(s.Key()))
					}
					if e, rp := s.bucketCounts(d); e != 0 || rp != 0 {
						return fmt.Errorf("bucket not empty after removing every node: %d entries, %d replacements", e, rp)
					}
					return nil
				})
			}
		}

		// (b2) IP limits at their real values
		const S = "23.9.9."
		for _, perBucket := range []int{1, bucketIPLimit, bucketIPLimit + 1} {
			for _, full := range []bool{false, true} {
				var nodes []*c46Node
				offers := tableIPLimit + 2
				nb := (offers + perBucket - 1) / perBucket
				if nb > nBuckets-1 {
					nb = nBuckets - 1
				}
				type fillRef struct{ first, n int }
				var fillers []fillRef
				if full {
					for b := 0; b < nb; b++ {
						fillers = append(fillers, fillRef{len(nodes), bucketSize})
						for i := 0; i < bucketSize; i++ {
							nodes = append(nodes, c46N(fmt.Sprintf("x%d.%d", b, i), 256-b, uint32(1000+i), fmt.Sprintf("60.%d.%d.1", b, i), "", "fd"))
						}
					}
				}
				firstS := len(nodes)
				var sBucket []int
				for k := 0; k < offers && k/perBucket < nb; k++ {
					b := k / perBucket
					nodes = append(nodes, c46N(fmt.Sprintf("s%d", k), 256-b, uint32(k+1), fmt.Sprintf("%s%d", S, k+1), "", "fd"))
					sBucket = append(sBucket, b)
				}
				extra := len(nodes)
				nodes = append(nodes, c46N("late", 256-(nb), 1, S+"200", "", "f"))
				sc := c46NewScenario(fmt.Sprintf("iplimit-%d-%v", perBucket, full), nodes)
				c := map[string]any{"grid": "iplimit", "per_bucket": perBucket, "buckets_full": full}
				r.Sample(c)
				addCase(c, func() error {
					s := c46NewSys(r, sc)
					defer s.close()
					for _, f := range fillers { // unchecked bulk fill, one full check afterwards
						for i := 0; i < f.n; i++ {
							s.add(nodes[f.first+i].recs[0], false, false)
						}
					}
					if err := s.checkNow(); err != nil {
						return err
					}
					// reference: the k-th offer is taken iff its bucket has < bucketIPLimit and the table < tableIPLimit of S
					inBucket := map[int]int{}
					inTable := 0
					var taken []int
					for k, b := range sBucket {
						if err := s.step('f', firstS+k); err != nil {
							return err
						}
						want := inBucket[b] < bucketIPLimit && inTable < tableIPLimit
						if want {
							inBucket[b]++
							inTable++
							taken = append(taken, firstS+k)
						}
						sn := s.snap()
						bk := &sn.b[c46RefBucket(256-b)]
						got := c46Find(bk.entries, nodes[firstS+k].id) >= 0 || c46Find(bk.repl, nodes[firstS+k].id) >= 0
						if got != want {
							return fmt.Errorf("offer %d of subnet %s0/24 into bucket %d (has %d of it, table has %d): in table = %v, the limits say %v", k, S, b, inBucket[b], inTable, got, want)
						}
						r.DistinctHash(mc.Hash64(s.Key()))
					}
					if inTable != tableIPLimit && perBucket <= bucketIPLimit {
						return fmt.Errorf("harness: grid did not reach the table limit (%d)", inTable)
					}
					// at the table limit a further node of S in a fresh bucket is refused; after one S node is removed it fits
					if inTable == tableIPLimit {
						if err := s.step('f', extra); err != nil {
							return err
						}
						if e, rp := s.bucketCounts(256 - nb); e+rp != 0 {
							return fmt.Errorf("node of %s0/24 admitted beyond tableIPLimit", S)
						}
						if !full {
							if err := s.step('d', taken[0]); err != nil {
								return err
							}
							if err := s.step('f', extra); err != nil {
								return err
							}
							if e, _ := s.bucketCounts(256 - nb); e != 1 {
								return fmt.Errorf("after removing one node of %s0/24 a new one still does not fit", S)
							}
						}
					}
					return nil
				})
			}
		}

		// (b3) closest-node queries on populated tables
		for _, per := range []int{1, 3, bucketSize} {
			for _, live := range []bool{true, false} {
				var nodes []*c46Node
				for b := 0; b < nBuckets; b++ {
					d := 256 - b
					for j := 0; j < per; j++ {
						kinds := "f"
						if live && (b+j)%3 == 0 {
							kinds = "L"
						}
						nodes = append(nodes, c46N(fmt.Sprintf("n%d.%d", d, j), d, uint32(7*j+1), fmt.Sprintf("70.%d.%d.1", b, j), "", kinds))
					}
				}
				// two more nodes deep inside bucket 0 (when it has room for them)
				if per+2 <= bucketSize {
					nodes = append(nodes, c46N("deep1", 100, 5, "71.0.0.1", "", "f"), c46N("deep2", 3, 1, "71.0.1.1", "", "f"))
				}
				sc := c46NewScenario(fmt.Sprintf("closest-%d-%v", per, live), nodes)
				c := map[string]any{"grid": "closest", "per_bucket": per, "some_live": live}
				r.Sample(c)
				addCase(c, func() error {
					s := c46NewSys(r, sc)
					defer s.close()
					for i, n := range nodes { // bulk fill; every 16th addition fully checked, then the whole table
						if i%16 == 0 {
							if err := s.step(n.kinds[0], i); err != nil {
								return err
							}
						} else if !s.add(n.recs[0], false, n.kinds[0] == 'L') {
							return fmt.Errorf("node %s of a fresh subnet not added to a bucket with room", n.name)
						}
					}
					if err := s.checkNow(); err != nil {
						return err
					}
					sn := s.snap()
					all := sn.all()
					if len(all) != len(nodes) {
						return fmt.Errorf("table has %d nodes after adding %d", len(all), len(nodes))
					}
					var inv enode.ID
					for i := range inv {
						inv[i] = ^c46Self[i]
					}
					targets := []enode.ID{c46Self, inv}
					for b := 0; b < nBuckets; b++ {
						targets = append(targets, c46IDAt(256-b, 7), c46IDAt(256-b, 0xffff01))
					}
					targets = append(targets, c46IDAt(100, 5), c46IDAt(100, 4), c46IDAt(1, 0), c46IDAt(3, 1))
					counts := []int{1, 2, bucketSize - 1, bucketSize, bucketSize + 1, 64, len(all), len(all) + 1}
					r.Eval(int64(len(targets) * len(counts) * 2))
					return s.checkFind(sn, targets, counts)
				})
			}
		}

		// (b4) inbound contacts are refused until the initial refresh has finished
		{
			nodes := []*c46Node{c46N("a1", 256, 1, "23.1.1.1", "23.1.2.1", "fiI"), c46N("a2", 250, 1, "23.1.1.2", "", "fi")}
			sc := c46NewScenario("preinit", nodes)
			sc.noInit = true
			addCase(map[string]any{"grid": "preinit"}, func() error {
				s := c46NewSys(r, sc)
				defer s.close()
				for _, st := range []c46Op{{'i', 0}, {'f', 0}, {'I', 0}, {'i', 1}} {
					if err := s.step(st.kind, st.node); err != nil {
						return err
					}
				}
				if s.tab.len() != 1 {
					return fmt.Errorf("table has %d nodes, only the found node should be there", s.tab.len())
				}
				close(s.tab.initDone)
				for _, st := range []c46Op{{'I', 0}, {'i', 1}} {
					if err := s.step(st.kind, st.node); err != nil {
						return err
					}
				}
				if s.tab.len() != 2 {
					return fmt.Errorf("table has %d nodes after the initial refresh, want 2", s.tab.len())
				}
				return nil
			})
		}
		r.Bound("grid_cases", len(jobs))
		r.Parallel(len(jobs), func(i int) { jobs[i]() })
	})
}
