//go:build verif

package v5wire

// C45 (part 2) — discv5 wire packets are authenticated.
//
// Three real Codecs (A, B and a bystander C) with scripted nonce / masking-IV / ephemeral-key generators and a
// simulated clock exchange packets under control of the harness, which plays the network (deliver, lose,
// re-deliver, deliver to the wrong node or from another address, flip bytes) and the transport layer above the
// codec (answer an undecryptable packet with WHOAREYOU, answer WHOAREYOU with a handshake if its nonce matches
// the last request sent). A small reference model tracks, as abstract ids, which session keys and which
// outstanding challenge every codec holds, and therefore whether a packet is legitimate for its receiver.
// Oracle: a legitimate packet decodes to exactly the message that was sent, with the true sender id; anything
// else (tampered, replayed into another session, addressed to someone else, answering no or another
// challenge) yields an error or "unknown packet", never a message, and never installs session keys.

import (
	"bytes"
	"crypto/ecdsa"
	"crypto/sha256"
	"encoding/binary"
	"encoding/json"
	"fmt"
	"net"
	"os"
	"strings"
	"testing"
	"time"

	"github.com/ethereum/go-ethereum/common/mclock"
	"github.com/ethereum/go-ethereum/crypto"
	"github.com/ethereum/go-ethereum/internal/verif/mc"
	"github.com/ethereum/go-ethereum/p2p/enode"
	"github.com/ethereum/go-ethereum/p2p/enr"
	"github.com/ethereum/go-ethereum/rlp"
)

const (
	c45A = iota
	c45B
	c45C
)

var c45Names = []string{"a", "b", "c"}

// identities and their (immutable) local node records are created once and shared by all systems
type c45Ident struct {
	key  *ecdsa.PrivateKey
	ln   *enode.LocalNode
	db   *enode.DB
	addr string
}

var (
	c45Idents  [3]*c45Ident
	c45EphKeys []*ecdsa.PrivateKey
)

func c45Setup() {
	if c45Idents[0] != nil {
		return
	}
	for i := range c45Idents {
		key, err := crypto.ToECDSA(crypto.Keccak256([]byte{'C', '4', '5', 'i', 'd', byte(i)}))
		if err != nil {
			panic(err)
		}
		db, _ := enode.OpenDB("")
		ln := enode.NewLocalNode(db, key)
		ln.SetStaticIP(net.IP{10, 0, 0, byte(i + 1)})
		ln.Set(enr.UDP(30303))
		ln.Node() // sign once
		c45Idents[i] = &c45Ident{key: key, ln: ln, db: db, addr: fmt.Sprintf("10.0.0.%d:30303", i+1)}
	}
	for i := 0; i < 16; i++ {
		key, err := crypto.ToECDSA(crypto.Keccak256([]byte{'C', '4', '5', 'e', 'p', 'h', byte(i)}))
		if err != nil {
			panic(err)
		}
		c45EphKeys = append(c45EphKeys, key)
	}
}

func c45Teardown() {
	for i, id := range c45Idents {
		if id != nil {
			id.db.Close()
			c45Idents[i] = nil
		}
	}
}

const c45OtherAddr = "10.9.9.9:30303"

// ---------------------------------------------------------------------------------------------------
// packets on the wire, with what the harness knows about them

type c45Pkt struct {
	raw    []byte
	from   int
	to     int
	kind   string // "random", "msg", "wru", "hs"
	kid    int    // abstract id of the session keys that encrypt it (msg, hs)
	chal   int    // abstract id of the challenge it carries (wru) or answers (hs)
	msg    Packet // plaintext message (msg, hs) or the *Whoareyou (wru)
	nonce  Nonce
	withRe bool // hs: carries the sender's record
}

type c45Chal struct {
	id   int
	sent mclock.AbsTime
	w    *Whoareyou // the challenge as sent (ChallengeData is what an observer of the wire also knows)
}

type c45PeerKey struct {
	peer int
	addr string
}

// c45Node is one codec plus the reference model of what it holds
type c45Node struct {
	idx   int
	codec *Codec
	// model
	sess map[c45PeerKey]int      // abstract key id of the session with (peer, addr)
	chal map[c45PeerKey]*c45Chal // outstanding challenge sent to (peer, addr)
	// transport-level memory kept by the harness
	pendUnknown map[int]Nonce // undecryptable packet received from peer (at its proper address): nonce to challenge
	lastNonce   map[int]*Nonce
	lastMsg     map[int]Packet
	// decoded objects the "transport" keeps until it acts on them (kept exactly as Decode returned them, no copy)
	heldChal     *Whoareyou // WHOAREYOU received from the peer, not answered yet
	heldChalID   int
	heldChalFrom int
	heldPing     *Ping  // PING received and decoded, PONG not sent yet
	heldPingWant []byte // request id the sender put into that PING
	// another datagram was decoded by this codec since the held object was decoded (part of the state key: the
	// answer built from a held object must not depend on it)
	heldChalDirty, heldPingDirty bool
}

type c45Sys struct {
	r     *mc.R
	clock *mclock.Simulated
	nodes [3]*c45Node
	ctr   uint64 // drives all scripted "randomness"
	eph   int
	kids  int
	chals int
	reqs  byte
	// wire slots
	msgAB, msgBA, hsAB *c45Pkt
	final              bool
	sweep              bool // run the byte-flip sweep on legitimately decoded message packets
	probe              bool // after every successful Decode, decode a junk datagram and require the result unchanged
	sentChal           map[int]*Whoareyou // every challenge as its sender encoded it, by abstract id
}

func c45NewSys(r *mc.R) *c45Sys {
	c45Setup()
	s := &c45Sys{r: r, clock: new(mclock.Simulated), sweep: true}
	for i := range s.nodes {
		s.nodes[i] = &c45Node{idx: i}
		s.resetNode(i)
	}
	return s
}

// resetNode gives node i a fresh codec (restart: all sessions and challenges are lost).
func (s *c45Sys) resetNode(i int) {
	n := s.nodes[i]
	id := c45Idents[i]
	n.codec = NewCodec(id.ln, id.key, s.clock, nil)
	n.codec.sc.nonceGen = func(counter uint32) (Nonce, error) {
		var nn Nonce
		binary.BigEndian.PutUint32(nn[:4], counter)
		s.ctr++
		binary.BigEndian.PutUint64(nn[4:], s.ctr)
		return nn, nil
	}
	n.codec.sc.maskingIVGen = func(buf []byte) error {
		s.ctr++
		for j := range buf {
			buf[j] = byte(s.ctr>>uint(8*(j%8))) ^ byte(j*29)
		}
		return nil
	}
	n.codec.sc.ephemeralKeyGen = func() (*ecdsa.PrivateKey, error) {
		k := c45EphKeys[s.eph%len(c45EphKeys)]
		s.eph++
		return k, nil
	}
	n.sess = map[c45PeerKey]int{}
	n.chal = map[c45PeerKey]*c45Chal{}
	n.pendUnknown = map[int]Nonce{}
	n.lastNonce = map[int]*Nonce{}
	n.lastMsg = map[int]Packet{}
	n.heldChal, n.heldPing, n.heldPingWant = nil, nil, nil
}

func c45ID(i int) enode.ID { return c45Idents[i].ln.ID() }

func c45SameMsg(a, b Packet) bool {
	if a == nil || b == nil || a.Kind() != b.Kind() {
		return false
	}
	ea, err1 := rlp.EncodeToBytes(a)
	eb, err2 := rlp.EncodeToBytes(b)
	return err1 == nil && err2 == nil && bytes.Equal(ea, eb)
}

func c45IsMessage(p Packet) bool {
	if p == nil {
		return false
	}
	switch p.Kind() {
	case UnknownPacket, WhoareyouPacket:
		return false
	}
	return true
}

// c45Junk is an unrelated datagram (>= 63 bytes) that no codec accepts.
func c45Junk() []byte {
	b := make([]byte, 160)
	for i := range b {
		b[i] = byte(0xA5 ^ (i * 13))
	}
	return b
}

// c45Snapshot serialises everything reachable from a decode result: the packet's fields (through RLP, which
// covers every exported field of every message type), the fields RLP skips, and the node record.
func c45Snapshot(p Packet, n *enode.Node) []byte {
	var b bytes.Buffer
	if p != nil {
		b.WriteByte(p.Kind())
		enc, err := rlp.EncodeToBytes(p)
		if err != nil {
			panic(err)
		}
		b.Write(enc)
		if w, ok := p.(*Whoareyou); ok {
			b.WriteString("|cdata:")
			b.Write(w.ChallengeData)
		}
	}
	if n != nil {
		enc, err := rlp.EncodeToBytes(n.Record())
		if err != nil {
			panic(err)
		}
		b.WriteString("|rec:")
		b.Write(enc)
	}
	return b.Bytes()
}

// chalLive reports whether the model's challenge of node x for (peer, addr) is outstanding and not timed out.
func (s *c45Sys) chalLive(x *c45Node, k c45PeerKey) *c45Chal {
	c := x.chal[k]
	if c == nil {
		return nil
	}
	if c.sent < s.clock.Now().Add(-handshakeTimeout) {
		return nil
	}
	return c
}

// send makes node `from` encode msg for node `to` (no challenge in hand).
func (s *c45Sys) send(from, to int, msg Packet) (*c45Pkt, error) {
	f := s.nodes[from]
	k := c45PeerKey{to, c45Idents[to].addr}
	raw, nonce, err := f.codec.Encode(c45ID(to), c45Idents[to].addr, msg, nil)
	if err != nil {
		return nil, fmt.Errorf("%s: Encode(%s) failed: %v", c45Names[from], msg.Name(), err)
	}
	p := &c45Pkt{raw: bytes.Clone(raw), from: from, to: to, msg: msg, nonce: nonce}
	if kid := f.sess[k]; kid != 0 {
		p.kind, p.kid = "msg", kid
	} else {
		p.kind = "random"
	}
	if has := f.codec.sc.session(c45ID(to), c45Idents[to].addr) != nil; has != (p.kind == "msg") {
		return nil, fmt.Errorf("%s: codec has session for %s = %v, reference model says %v", c45Names[from], c45Names[to], has, p.kind == "msg")
	}
	nn := nonce
	f.lastNonce[to] = &nn
	f.lastMsg[to] = msg
	return p, nil
}

// deliver hands packet p to node x as coming from address fromAddr and checks the decode result against the
// reference model. It returns the decoded packet (nil when the codec reported an error, which is a permitted
// outcome for illegitimate packets) and an error only when the oracle is violated.
func (s *c45Sys) deliver(xi int, p *c45Pkt, fromAddr string) (Packet, error) {
	x := s.nodes[xi]
	k := c45PeerKey{p.from, fromAddr}
	properAddr := fromAddr == c45Idents[p.from].addr
	before := s.fingerprint(x)
	src, node, pkt, err := x.codec.Decode(bytes.Clone(p.raw), fromAddr)
	desc := fmt.Sprintf("%s packet %s->%s delivered to %s from %s", p.kind, c45Names[p.from], c45Names[p.to], c45Names[xi], fromAddr)
	if x.heldChal != nil {
		x.heldChalDirty = true
	}
	if x.heldPing != nil {
		x.heldPingDirty = true
	}
	// result ownership (grid systems): whatever Decode handed out must not change when the same codec decodes the
	// next datagram. The BFS does not probe, there the interleaving events do the clobbering.
	if err == nil && s.probe {
		snap := c45Snapshot(pkt, node)
		x.codec.Decode(c45Junk(), c45OtherAddr)
		if after := c45Snapshot(pkt, node); !bytes.Equal(snap, after) {
			return pkt, fmt.Errorf("%s: the decoded %s changed when the codec decoded the next (unrelated) datagram: the result aliases a reused buffer\n before %x\n after  %x", desc, pkt.Name(), snap, after)
		}
	}

	legit := false
	switch p.kind {
	case "msg":
		legit = p.to == xi && x.sess[k] != 0 && x.sess[k] == p.kid
	case "hs":
		c := s.chalLive(x, k)
		legit = p.to == xi && c != nil && c.id == p.chal
	}
	switch {
	case legit:
		if err != nil || !c45SameMsg(pkt, p.msg) {
			return pkt, fmt.Errorf("%s: legitimate packet not decoded to the sent %s: got %v, err %v", desc, p.msg.Name(), pkt, err)
		}
		if src != c45ID(p.from) {
			return pkt, fmt.Errorf("%s: decoded with source id %x, sender is %x", desc, src[:4], c45ID(p.from).Bytes()[:4])
		}
		if p.kind == "hs" {
			if node == nil || node.ID() != c45ID(p.from) {
				return pkt, fmt.Errorf("%s: handshake did not return the sender's node record", desc)
			}
			x.sess[k] = p.kid
			delete(x.chal, k)
			s.r.Outcome("handshake:accepted")
		} else {
			s.r.Outcome("message:decoded")
		}
		if ping, ok := pkt.(*Ping); ok && xi == c45B && p.from == c45A {
			x.heldPing, x.heldPingWant, x.heldPingDirty = ping, bytes.Clone(p.msg.(*Ping).ReqID), false
		}
	case p.kind == "wru" && p.to == xi:
		w, ok := pkt.(*Whoareyou)
		sent := p.msg.(*Whoareyou)
		if err != nil || !ok || w.Nonce != sent.Nonce || w.IDNonce != sent.IDNonce || w.RecordSeq != sent.RecordSeq {
			return pkt, fmt.Errorf("%s: WHOAREYOU not decoded as sent: %v, err %v", desc, pkt, err)
		}
		s.r.Outcome("whoareyou:decoded")
	default:
		// not legitimate: must never come out as a message, and must leave keys and challenges of other peers alone
		if err == nil && c45IsMessage(pkt) {
			return pkt, fmt.Errorf("%s: decoded to %s although the receiver shares no such session / sent no such challenge", desc, pkt.Name())
		}
		if p.to == xi && properAddr && (p.kind == "random" || p.kind == "msg") {
			// an undecryptable message packet addressed to us is reported as Unknown with its nonce, so that
			// the transport can answer WHOAREYOU
			u, ok := pkt.(*Unknown)
			if err != nil || !ok || u.Nonce != p.nonce || src != c45ID(p.from) {
				return pkt, fmt.Errorf("%s: want Unknown with the packet's nonce and the sender id, got %v (src %x), err %v", desc, pkt, src[:4], err)
			}
			x.pendUnknown[p.from] = u.Nonce
			s.r.Outcome("message:unknown-keys")
		} else if err != nil {
			s.r.Outcome("rejected:" + p.kind + ":error")
		} else {
			s.r.Outcome("rejected:" + p.kind + ":unknown")
		}
		if p.kind == "hs" {
			s.r.Outcome("handshake:rejected")
		}
		// sessions must be untouched by a rejected packet
		after := s.fingerprint(x)
		if before.sessions != after.sessions {
			return pkt, fmt.Errorf("%s: rejected packet changed the receiver's session keys", desc)
		}
	}
	// white-box: codec state vs model
	if err := s.crossCheck(); err != nil {
		return pkt, fmt.Errorf("%s: %v", desc, err)
	}
	if err != nil {
		pkt = nil
	}
	return pkt, nil
}

type c45Finger struct{ sessions string }

func (s *c45Sys) fingerprint(x *c45Node) c45Finger {
	var sb strings.Builder
	for peer := 0; peer < 3; peer++ {
		for _, addr := range []string{c45Idents[peer].addr, c45OtherAddr} {
			if ss := x.codec.sc.session(c45ID(peer), addr); ss != nil {
				fmt.Fprintf(&sb, "%d@%s:%x/%x;", peer, addr, ss.writeKey, ss.readKey)
			}
		}
	}
	return c45Finger{sb.String()}
}

// crossCheck compares every codec's session table and challenges with the model, and the keys of two codecs
// that the model says share a session.
func (s *c45Sys) crossCheck() error {
	for _, x := range s.nodes {
		for peer := 0; peer < 3; peer++ {
			for _, addr := range []string{c45Idents[peer].addr, c45OtherAddr} {
				k := c45PeerKey{peer, addr}
				has := x.codec.sc.session(c45ID(peer), addr) != nil
				if has != (x.sess[k] != 0) {
					return fmt.Errorf("%s: codec holds session keys for %s@%s = %v, reference model says %v", c45Names[x.idx], c45Names[peer], addr, has, x.sess[k] != 0)
				}
				ch := x.codec.sc.getHandshake(c45ID(peer), addr)
				if ch != nil && x.chal[k] == nil {
					return fmt.Errorf("%s: codec holds a challenge for %s@%s that was never sent or already answered", c45Names[x.idx], c45Names[peer], addr)
				}
				if ch == nil && x.chal[k] != nil {
					delete(x.chal, k) // consumed by a failed attempt or timed out: allowed
				}
			}
		}
	}
	// key agreement
	for xi, x := range s.nodes {
		for yi, y := range s.nodes {
			if xi >= yi {
				continue
			}
			kx := x.sess[c45PeerKey{yi, c45Idents[yi].addr}]
			ky := y.sess[c45PeerKey{xi, c45Idents[xi].addr}]
			if kx == 0 || ky == 0 {
				continue
			}
			sx := x.codec.sc.session(c45ID(yi), c45Idents[yi].addr)
			sy := y.codec.sc.session(c45ID(xi), c45Idents[xi].addr)
			agree := bytes.Equal(sx.writeKey, sy.readKey) && bytes.Equal(sx.readKey, sy.writeKey)
			if agree != (kx == ky) {
				return fmt.Errorf("%s and %s: session keys agree = %v, reference model says same handshake = %v", c45Names[xi], c45Names[yi], agree, kx == ky)
			}
		}
	}
	return nil
}

// whoareyou makes node `from` challenge node `to` for the pending undecryptable packet.
func (s *c45Sys) whoareyou(from, to int) (*c45Pkt, error) {
	f := s.nodes[from]
	nonce := f.pendUnknown[to]
	delete(f.pendUnknown, to)
	s.chals++
	w := &Whoareyou{Nonce: nonce}
	binary.BigEndian.PutUint64(w.IDNonce[:8], uint64(s.chals))
	binary.BigEndian.PutUint64(w.IDNonce[8:], 0xC45C45C45)
	if s.chals%2 == 0 { // every second challenge comes from a node that already knows the peer's record
		w.Node = c45Idents[to].ln.Node()
		w.RecordSeq = w.Node.Seq()
	}
	raw, _, err := f.codec.Encode(c45ID(to), c45Idents[to].addr, w, nil)
	if err != nil {
		return nil, fmt.Errorf("%s: Encode(WHOAREYOU) failed: %v", c45Names[from], err)
	}
	f.chal[c45PeerKey{to, c45Idents[to].addr}] = &c45Chal{id: s.chals, sent: s.clock.Now(), w: w}
	if s.sentChal == nil {
		s.sentChal = map[int]*Whoareyou{}
	}
	s.sentChal[s.chals] = w
	return &c45Pkt{raw: bytes.Clone(raw), from: from, to: to, kind: "wru", chal: s.chals, msg: w, nonce: nonce}, nil
}

// answer: node x received WHOAREYOU w (decoded) from peer; if it matches its last request it re-sends that
// request as a handshake packet.
func (s *c45Sys) answer(xi, peer int, w *Whoareyou, chalID int) (*c45Pkt, error) {
	x := s.nodes[xi]
	if x.lastNonce[peer] == nil || *x.lastNonce[peer] != w.Nonce {
		s.r.Outcome("whoareyou:ignored-no-matching-request")
		return nil, nil
	}
	ch := *w
	ch.Node = c45Idents[peer].ln.Node()
	msg := x.lastMsg[peer]
	raw, nonce, err := x.codec.Encode(c45ID(peer), c45Idents[peer].addr, msg, &ch)
	if err != nil {
		return nil, fmt.Errorf("%s: Encode(handshake) failed: %v", c45Names[xi], err)
	}
	s.kids++
	x.sess[c45PeerKey{peer, c45Idents[peer].addr}] = s.kids
	nn := nonce
	x.lastNonce[peer] = &nn
	hs := &c45Pkt{raw: bytes.Clone(raw), from: xi, to: peer, kind: "hs", kid: s.kids, chal: chalID, msg: msg, nonce: nonce,
		withRe: w.RecordSeq < c45Idents[xi].ln.Node().Seq()}
	// The answer to challenge c must verify against c exactly as its sender encoded it, whatever the answering
	// codec decoded in between. Checked here, at the transition that produces the packet, on a scratch codec of
	// the challenger that holds nothing but that challenge (the exploration's codecs are not disturbed).
	if sent := s.sentChal[chalID]; sent != nil {
		scratch := NewCodec(c45Idents[peer].ln, c45Idents[peer].key, new(mclock.Simulated), nil)
		cp := *sent
		scratch.sc.storeSentHandshake(c45ID(xi), c45Idents[xi].addr, &cp)
		src, _, pkt, derr := scratch.Decode(bytes.Clone(hs.raw), c45Idents[xi].addr)
		if derr != nil || !c45SameMsg(pkt, msg) || src != c45ID(xi) {
			return nil, fmt.Errorf("%s answered challenge c%d, but the handshake packet does not verify against that challenge as %s sent it: %v, err %v", c45Names[xi], chalID, c45Names[peer], pkt, derr)
		}
	}
	return hs, nil
}

func (s *c45Sys) nextPing() Packet {
	s.reqs++
	return &Ping{ReqID: []byte{s.reqs}, ENRSeq: uint64(s.reqs)}
}

func (s *c45Sys) nextPong() Packet {
	s.reqs++
	return &Pong{ReqID: []byte{s.reqs}, ENRSeq: 7, ToIP: net.IP{10, 0, 0, 1}, ToPort: 30303}
}

// flipSweep delivers every single-byte corruption of a legitimately decodable message packet.
func (s *c45Sys) flipSweep(xi int, p *c45Pkt, fromAddr string) error {
	x := s.nodes[xi]
	before := s.fingerprint(x)
	for off := range p.raw {
		for _, m := range []byte{0x01, 0x80, 0xff} {
			mut := bytes.Clone(p.raw)
			mut[off] ^= m
			_, _, pkt, err := x.codec.Decode(mut, fromAddr)
			if err == nil && c45IsMessage(pkt) {
				return fmt.Errorf("message packet %s->%s with byte %d xor %#x decoded to %s", c45Names[p.from], c45Names[p.to], off, m, pkt.Name())
			}
		}
	}
	s.r.OutcomeN("tampered-message-bytes:rejected", int64(3*len(p.raw)))
	if after := s.fingerprint(x); after != before {
		return fmt.Errorf("tampered message packets changed the receiver's session keys")
	}
	// the untouched packet still decodes
	_, _, pkt, err := x.codec.Decode(bytes.Clone(p.raw), fromAddr)
	if err != nil || !c45SameMsg(pkt, p.msg) {
		return fmt.Errorf("after the tamper sweep the original packet no longer decodes: %v, err %v", pkt, err)
	}
	return nil
}

// ---------------------------------------------------------------------------------------------------
// exploration alphabet

var c45Ops = []string{
	"a>b:ping",         // A encodes a PING for B with whatever keys it has; delivered to B
	"b:whoareyou>a",    // B challenges A for the last undecryptable packet; A decodes the WHOAREYOU and keeps it
	"a:answer",         // A answers the WHOAREYOU it kept (as decoded) with a handshake packet (held back on the wire)
	"hs>b",             // the held handshake packet reaches B (a second time: replay)
	"b>a:pong",         // B encodes a PONG for A; delivered to A
	"b:reply-pong>a",   // B answers the last PING it decoded (request id taken from the decoded object); delivered to A
	"junk>a",           // an unrelated junk datagram reaches A (between its decoding and its answer)
	"c>a:packet",       // a valid packet from bystander C reaches A
	"rejected>a",       // a well-addressed handshake packet that A must reject (no challenge outstanding) reaches A
	"junk>b",           // an unrelated junk datagram reaches B
	"rekey",            // complete honest exchange: ping, WHOAREYOU, handshake
	"replay-msg>b",     // the last A->B message packet reaches B again
	"msg>c",            // ... reaches bystander C instead
	"msg>b@other",      // ... reaches B from another address
	"hs>c",             // the handshake packet reaches C
	"b:whoareyou-lost", // B challenges A, the packet is lost
	"forged-hs>b",      // C answers B's outstanding challenge for A: C's key, C's record, C's signature, but SrcID = A
	"reset-a",          // A restarts (sessions and challenges gone)
	"reset-b",
	"tick", // 2 s pass (handshake timeout is 1 s)
}

func (s *c45Sys) Enabled(op int) bool {
	s.final = true
	switch c45Ops[op] {
	case "b:whoareyou>a", "b:whoareyou-lost":
		_, ok := s.nodes[c45B].pendUnknown[c45A]
		return ok
	case "hs>b", "hs>c":
		return s.hsAB != nil
	case "a:answer":
		return s.nodes[c45A].heldChal != nil
	case "b:reply-pong>a":
		return s.nodes[c45B].heldPing != nil
	case "forged-hs>b":
		return s.nodes[c45B].chal[c45PeerKey{c45A, c45Idents[c45A].addr}] != nil
	case "replay-msg>b", "msg>c", "msg>b@other":
		return s.msgAB != nil
	}
	return true
}

func (s *c45Sys) shares(xi int, p *c45Pkt, fromAddr string) bool {
	return p.kind == "msg" && s.nodes[xi].sess[c45PeerKey{p.from, fromAddr}] == p.kid
}

func (s *c45Sys) Apply(op int) error {
	final := s.final
	s.final = false
	addrA, addrB := c45Idents[c45A].addr, c45Idents[c45B].addr
	switch c45Ops[op] {
	case "a>b:ping":
		p, err := s.send(c45A, c45B, s.nextPing())
		if err != nil {
			return err
		}
		s.msgAB = p
		if _, err := s.deliver(c45B, p, addrA); err != nil {
			return err
		}
		if final && s.sweep && s.shares(c45B, p, addrA) {
			return s.flipSweep(c45B, p, addrA)
		}
	case "b>a:pong":
		p, err := s.send(c45B, c45A, s.nextPong())
		if err != nil {
			return err
		}
		if _, err := s.deliver(c45A, p, addrB); err != nil {
			return err
		}
		if final && s.sweep && s.shares(c45A, p, addrB) {
			return s.flipSweep(c45A, p, addrB)
		}
	case "b:whoareyou>a", "b:whoareyou-lost":
		w, err := s.whoareyou(c45B, c45A)
		if err != nil {
			return err
		}
		if c45Ops[op] == "b:whoareyou-lost" {
			return s.crossCheck()
		}
		pkt, err := s.deliver(c45A, w, addrB)
		if err != nil {
			return err
		}
		a := s.nodes[c45A]
		a.heldChal, a.heldChalID, a.heldChalFrom, a.heldChalDirty = pkt.(*Whoareyou), w.chal, c45B, false // the decoded object itself
		return s.crossCheck()
	case "a:answer":
		a := s.nodes[c45A]
		hs, err := s.answer(c45A, a.heldChalFrom, a.heldChal, a.heldChalID)
		a.heldChal = nil
		if err != nil {
			return err
		}
		if hs != nil {
			s.hsAB = hs
		}
		return s.crossCheck()
	case "b:reply-pong>a":
		b := s.nodes[c45B]
		ping, want := b.heldPing, b.heldPingWant
		b.heldPing, b.heldPingWant = nil, nil
		if !bytes.Equal(ping.ReqID, want) {
			return fmt.Errorf("the PING B decoded earlier now has request id %x, it was sent with %x: decoded message changed while held", ping.ReqID, want)
		}
		s.reqs++
		p, err := s.send(c45B, c45A, &Pong{ReqID: ping.ReqID, ENRSeq: ping.ENRSeq, ToIP: net.IP{10, 0, 0, 1}, ToPort: 30303})
		if err != nil {
			return err
		}
		if _, err := s.deliver(c45A, p, addrB); err != nil {
			return err
		}
	case "junk>a", "junk>b":
		to := c45A
		if c45Ops[op] == "junk>b" {
			to = c45B
		}
		raw := c45Junk()
		raw[0] ^= byte(s.reqs) // not the same bytes as the ownership probe
		_, err := s.deliver(to, &c45Pkt{raw: raw, from: c45C, to: to, kind: "junk"}, c45Idents[c45C].addr)
		return err
	case "c>a:packet":
		p, err := s.send(c45C, c45A, s.nextPing())
		if err != nil {
			return err
		}
		_, err = s.deliver(c45A, p, c45Idents[c45C].addr)
		return err
	case "rejected>a":
		msg := s.nextPing()
		raw := c45CraftHandshake(c45A, c45ID(c45C), c45Idents[c45C].key, c45RecordBytes(c45C), bytes.Repeat([]byte{0x5c}, 63), c45EphKeys[13], msg)
		_, err := s.deliver(c45A, &c45Pkt{raw: raw, from: c45C, to: c45A, kind: "forged-hs", msg: msg}, c45Idents[c45C].addr)
		return err
	case "hs>b":
		_, err := s.deliver(c45B, s.hsAB, addrA)
		return err
	case "hs>c":
		_, err := s.deliver(c45C, s.hsAB, addrA)
		return err
	case "forged-hs>b":
		ch := s.nodes[c45B].chal[c45PeerKey{c45A, addrA}]
		msg := s.nextPing()
		raw := c45CraftHandshake(c45B, c45ID(c45A), c45Idents[c45C].key, c45RecordBytes(c45C), ch.w.ChallengeData, c45EphKeys[15], msg)
		_, err := s.deliver(c45B, &c45Pkt{raw: raw, from: c45A, to: c45B, kind: "forged-hs", msg: msg}, addrA)
		return err
	case "rekey":
		for _, sub := range []string{"a>b:ping", "b:whoareyou>a", "a:answer", "hs>b"} {
			i := c45OpIndex(sub)
			en := s.Enabled(i)
			s.final = false
			if !en {
				break // the ping was decodable: keys are already shared
			}
			if err := s.Apply(i); err != nil {
				return fmt.Errorf("rekey/%s: %v", sub, err)
			}
		}
	case "replay-msg>b":
		_, err := s.deliver(c45B, s.msgAB, addrA)
		return err
	case "msg>c":
		_, err := s.deliver(c45C, s.msgAB, addrA)
		return err
	case "msg>b@other":
		_, err := s.deliver(c45B, s.msgAB, c45OtherAddr)
		return err
	case "reset-a":
		s.resetNode(c45A) // packets already on the wire stay replayable
	case "reset-b":
		s.resetNode(c45B)
	case "tick":
		s.clock.Run(2 * time.Second)
	default:
		panic("c45: unknown op")
	}
	return nil
}

func c45OpIndex(name string) int {
	for i, n := range c45Ops {
		if n == name {
			return i
		}
	}
	panic("c45: no op " + name)
}

// Key: abstract model state with key / challenge ids renamed in order of first use.
func (s *c45Sys) Key() string {
	ren := map[int]int{}
	kid := func(k int) int {
		if k == 0 {
			return 0
		}
		if _, ok := ren[k]; !ok {
			ren[k] = len(ren) + 1
		}
		return ren[k]
	}
	cren := map[int]int{}
	cid := func(c int) int {
		if c == 0 {
			return 0
		}
		if _, ok := cren[c]; !ok {
			cren[c] = len(cren) + 1
		}
		return cren[c]
	}
	var sb strings.Builder
	addrA, addrB := c45Idents[c45A].addr, c45Idents[c45B].addr
	a, b := s.nodes[c45A], s.nodes[c45B]
	fmt.Fprintf(&sb, "A.sess[B]=%d B.sess[A]=%d ", kid(a.sess[c45PeerKey{c45B, addrB}]), kid(b.sess[c45PeerKey{c45A, addrA}]))
	if c := b.chal[c45PeerKey{c45A, addrA}]; c != nil {
		fmt.Fprintf(&sb, "B.chal=%d live=%v ", cid(c.id), s.chalLive(b, c45PeerKey{c45A, addrA}) != nil)
	}
	if n, ok := b.pendUnknown[c45A]; ok {
		fmt.Fprintf(&sb, "B.pend matchesLastReq=%v ", a.lastNonce[c45B] != nil && *a.lastNonce[c45B] == n)
	}
	fmt.Fprintf(&sb, "A.hasReq=%v nextChalParity=%d ", a.lastNonce[c45B] != nil, (s.chals+1)%2)
	if w := a.heldChal; w != nil {
		fmt.Fprintf(&sb, "A.heldChal=c%d matchesLastReq=%v dirty=%v ", cid(a.heldChalID), a.lastNonce[c45B] != nil && *a.lastNonce[c45B] == w.Nonce, a.heldChalDirty)
	}
	if b.heldPing != nil {
		fmt.Fprintf(&sb, "B.heldPing dirty=%v ", b.heldPingDirty)
	}
	if p := s.msgAB; p != nil {
		fmt.Fprintf(&sb, "msgAB=%s/%d ", p.kind, kid(p.kid))
	}
	if p := s.hsAB; p != nil {
		fmt.Fprintf(&sb, "hsAB=%d/c%d/rec=%v ", kid(p.kid), cid(p.chal), p.withRe)
	}
	return sb.String()
}

func c45RecordBytes(i int) []byte {
	b, err := rlp.EncodeToBytes(c45Idents[i].ln.Node().Record())
	if err != nil {
		panic(err)
	}
	return b
}

// c45CraftHandshake builds a handshake packet for node dest "by hand", the way an adversary would: claimed source
// id, ID-nonce signature by an arbitrary key, an arbitrary (or no) record, and session keys derived exactly as
// the recipient will derive them (from the ephemeral key, the recipient's static key, the CLAIMED source id and
// the challenge data), so that the message decrypts if and only if the identity checks let the packet through.
func c45CraftHandshake(dest int, srcID enode.ID, signer *ecdsa.PrivateKey, record, cdata []byte, eph *ecdsa.PrivateKey, msg Packet) []byte {
	c := NewCodec(c45Idents[c45C].ln, c45Idents[c45C].key, new(mclock.Simulated), nil) // scratch codec: buffers only
	destID := c45ID(dest)
	ephpub := EncodePubkey(&eph.PublicKey)
	sig, err := makeIDSignature(sha256.New(), signer, cdata, ephpub[:], destID)
	if err != nil {
		panic(err)
	}
	sess := deriveKeys(sha256.New, eph, &c45Idents[dest].key.PublicKey, srcID, destID, cdata)
	if sess == nil {
		panic("c45: key derivation failed")
	}
	var auth handshakeAuthData
	auth.h.SrcID = srcID
	auth.h.SigSize = byte(len(sig))
	auth.h.PubkeySize = byte(len(ephpub))
	var ab bytes.Buffer
	binary.Write(&ab, binary.BigEndian, &auth.h)
	ab.Write(sig)
	ab.Write(ephpub[:])
	ab.Write(record)
	head := c.makeHeader(destID, flagHandshake, len(sig)+len(ephpub)+len(record))
	head.AuthData = ab.Bytes()
	copy(head.Nonce[:], "c45-crafted-")
	copy(head.IV[:], "c45-crafted-iv--")
	c.writeHeaders(&head)
	headerData := bytes.Clone(c.buf.Bytes())
	msgData, err := c.encryptMessage(sess, msg, &head, headerData)
	if err != nil {
		panic(err)
	}
	enc, err := c.EncodeRaw(destID, head, msgData)
	if err != nil {
		panic(err)
	}
	return bytes.Clone(enc)
}

// c45Replay: see the comment on the same helper of C46 (stable violation key for run.py's confirmation).
func c45Replay(r *mc.R, name string) {
	raw, err := os.ReadFile(os.Getenv("VERIF_REPLAY"))
	if err != nil {
		return
	}
	var f struct {
		Replay struct {
			Explore string   `json:"explore"`
			Ops     []string `json:"ops"`
		} `json:"replay"`
	}
	if json.Unmarshal(raw, &f) != nil || f.Replay.Explore != name {
		return
	}
	desc := map[string]any{"explore": name, "ops": f.Replay.Ops}
	r.Case(desc, func() error { return nil })
	s := c45NewSys(r)
	err = mc.Safely(func() error {
		for _, opn := range f.Replay.Ops {
			op := c45OpIndex(opn)
			if !s.Enabled(op) {
				return fmt.Errorf("replay: op %q not enabled", opn)
			}
			if e := s.Apply(op); e != nil {
				return fmt.Errorf("at op %s: %v", opn, e)
			}
		}
		return nil
	})
	if err != nil {
		r.Violation(name+":"+strings.Join(f.Replay.Ops, ";"), err.Error(), desc)
	}
}

// c45Handshake runs the honest exchange up to the point where A's handshake packet (carrying msg) is on the
// wire; knownRecord selects whether B's challenge says it already has A's record.
func c45Handshake(r *mc.R, msg Packet, knownRecord bool) (*c45Sys, *c45Pkt, error) {
	s := c45NewSys(r)
	s.sweep = false
	s.probe = true
	if knownRecord {
		s.chals = 1
	}
	p, err := s.send(c45A, c45B, msg)
	if err != nil {
		return nil, nil, err
	}
	if _, err := s.deliver(c45B, p, c45Idents[c45A].addr); err != nil {
		return nil, nil, err
	}
	w, err := s.whoareyou(c45B, c45A)
	if err != nil {
		return nil, nil, err
	}
	pkt, err := s.deliver(c45A, w, c45Idents[c45B].addr)
	if err != nil {
		return nil, nil, err
	}
	hs, err := s.answer(c45A, c45B, pkt.(*Whoareyou), w.chal)
	if err != nil {
		return nil, nil, err
	}
	if hs == nil {
		return nil, nil, fmt.Errorf("harness: A did not answer the challenge")
	}
	if hs.withRe == knownRecord {
		return nil, nil, fmt.Errorf("harness: record inclusion %v with knownRecord %v", hs.withRe, knownRecord)
	}
	s.hsAB = hs
	return s, w, nil
}

func c45SampleRecords() []*enr.Record {
	return []*enr.Record{c45Idents[c45A].ln.Node().Record(), c45Idents[c45C].ln.Node().Record()}
}

func TestVerif_C45_wire(t *testing.T) {
	c45Setup()
	defer c45Teardown()
	mc.Run(t, "C45", func(r *mc.R) {
		depth := mc.Pick(r, 6, 8)
		r.Rule("(a) BFS (r.Explore, de-duplicated by the abstract session/challenge state) over all sequences of network and restart events between codecs A, B and bystander C up to the depth bound; " +
			"every legitimately decoded message packet is additionally re-delivered with every single byte flipped (3 masks). (b) r.Case grids: every message type through handshake and established " +
			"session in both directions; every byte x 3 masks of the handshake packet (with and without record) and of the WHOAREYOU packet. distinct = distinct abstract states / tampered packets")
		r.Bound("depth", depth)
		r.Assume("reference model: abstract ids for session keys and challenges; legitimacy of a packet = receiver is the addressee and shares that key id / has that challenge outstanding and not timed out")
		r.Assume("nonce, masking IV and ephemeral keys are scripted through the SessionCache hooks, the clock is mclock.Simulated; the content of 'random' kick-off packets comes from crypto/rand and is not part of any verdict")
		r.Assume("the harness plays the transport layer: WHOAREYOU is answered only if its nonce equals the nonce of the last request sent to that node")

		// (a)
		if r.Replaying() {
			c45Replay(r, "wire")
		} else {
			r.Explore(mc.Config{Name: "wire", Ops: c45Ops, Depth: depth, New: func() mc.Sys { return c45NewSys(r) }})
		}

		// (b1) every message type: inside the handshake packet, then A->B and B->A in the session
		addrA, addrB := c45Idents[c45A].addr, c45Idents[c45B].addr
		msgs := []func() Packet{
			func() Packet { return &Ping{ReqID: []byte{1}, ENRSeq: 5} },
			func() Packet { return &Pong{ReqID: []byte{1, 2}, ENRSeq: 1 << 40, ToIP: net.IP{1, 2, 3, 4}, ToPort: 65535} },
			func() Packet { return &Findnode{ReqID: []byte{3}, Distances: []uint{0, 1, 255, 256}} },
			func() Packet { return &Findnode{ReqID: []byte{}, Distances: nil} },
			func() Packet { return &Nodes{ReqID: []byte{4}, RespCount: 3, Nodes: c45SampleRecords()} },
			func() Packet { return &Nodes{ReqID: []byte{4, 4, 4, 4, 4, 4, 4, 4}, RespCount: 0} },
			func() Packet { return &TalkRequest{ReqID: []byte{5}, Protocol: "proto", Message: bytes.Repeat([]byte{7}, 500)} },
			func() Packet { return &TalkResponse{ReqID: []byte{6}, Message: nil} },
			func() Packet { return &TalkResponse{ReqID: []byte{6}, Message: bytes.Repeat([]byte{9}, 1000)} },
		}
		for mi, mk := range msgs {
			for _, known := range []bool{false, true} {
				c := map[string]any{"grid": "types", "msg": mk().Name(), "variant": mi, "known_record": known}
				r.Case(c, func() error {
					s, _, err := c45Handshake(r, mk(), known)
					if err != nil {
						return err
					}
					if _, err := s.deliver(c45B, s.hsAB, addrA); err != nil {
						return err
					}
					if s.nodes[c45B].sess[c45PeerKey{c45A, addrA}] == 0 {
						return fmt.Errorf("honest handshake carrying %s was not accepted", mk().Name())
					}
					for dir := 0; dir < 2; dir++ {
						from, to, addr := c45A, c45B, addrA
						if dir == 1 {
							from, to, addr = c45B, c45A, addrB
						}
						p, err := s.send(from, to, mk())
						if err != nil {
							return err
						}
						if p.kind != "msg" {
							return fmt.Errorf("no session after handshake")
						}
						if _, err := s.deliver(to, p, addr); err != nil {
							return err
						}
						if err := s.flipSweep(to, p, addr); err != nil {
							return err
						}
						// and the bystander cannot read it
						if _, err := s.deliver(c45C, p, addr); err != nil {
							return err
						}
					}
					return nil
				})
			}
		}
		r.Sample(map[string]any{"grid": "types", "msg": "NODES/v5", "variant": 4, "known_record": false})

		// (b2) every byte of the handshake packet
		for _, known := range []bool{false, true} {
			s0, _, err := c45Handshake(r, &Ping{ReqID: []byte{1}, ENRSeq: 1}, known)
			if err != nil {
				r.Violation("hs-base", err.Error(), nil)
				return
			}
			n := len(s0.hsAB.raw)
			r.Bound(fmt.Sprintf("handshake_packet_bytes_known_record_%v", known), n)
			r.Parallel(n, func(off int) {
				for _, m := range []byte{0x01, 0x80, 0xff} {
					c := map[string]any{"grid": "tamper-handshake", "known_record": known, "offset": off, "mask": int(m)}
					r.Case(c, func() error {
						s, _, err := c45Handshake(r, &Ping{ReqID: []byte{1}, ENRSeq: 1}, known)
						if err != nil {
							return err
						}
						if len(s.hsAB.raw) != n {
							return fmt.Errorf("harness: handshake packet size not reproducible (%d vs %d)", len(s.hsAB.raw), n)
						}
						mut := bytes.Clone(s.hsAB.raw)
						mut[off] ^= m
						_, node, pkt, derr := s.nodes[c45B].codec.Decode(mut, addrA)
						if derr == nil && c45IsMessage(pkt) {
							return fmt.Errorf("handshake packet with byte %d xor %#x accepted: %s (node %v)", off, m, pkt.Name(), node)
						}
						if s.nodes[c45B].codec.sc.session(c45ID(c45A), addrA) != nil {
							return fmt.Errorf("handshake packet with byte %d xor %#x installed session keys (err %v)", off, m, derr)
						}
						if derr != nil {
							r.Outcome("tamper-handshake:error")
						} else {
							r.Outcome("tamper-handshake:unknown")
						}
						return nil
					})
					r.DistinctHash(mc.Hash64(fmt.Sprintf("hs/%v/%d/%d", known, off, m)))
				}
				if off%97 == 0 {
					r.Sample(map[string]any{"grid": "tamper-handshake", "known_record": known, "offset": off, "mask": 128})
				}
			})
		}

		// (b2') adversarial handshake answers. B has challenged A's id at A's address (and optionally also C's id at the
		// same address). The answer is crafted from every combination of
		//   challenge issued {without record (Node==nil), with A's record, with A's record but RecordSeq 0}
		//   ID-nonce signature by {A's key, C's key} x record carried {A's, C's, none} x SrcID {A's id, C's id}
		// with session keys consistent with the claimed SrcID. A session may only come into being for an id whose own
		// key signed the ID nonce and whose own record (carried or already known) vouches for that key.
		for _, chalKind := range []string{"no-record", "known-record", "known-record-seq0"} {
			for _, alsoC := range []bool{false, true} {
				for _, signer := range []int{c45A, c45C} {
					for _, rec := range []string{"A", "C", "none"} {
						for _, src := range []int{c45A, c45C} {
							c := map[string]any{"grid": "forged-handshake", "challenge": chalKind, "c_also_challenged": alsoC,
								"signed_by": c45Names[signer], "record_of": rec, "src_id": c45Names[src]}
							r.Case(c, func() error {
								s := c45NewSys(r)
								b := s.nodes[c45B]
								issue := func(to int, kind string) *Whoareyou {
									s.chals++
									w := &Whoareyou{Nonce: Nonce{byte(to), 7, 7}}
									binary.BigEndian.PutUint64(w.IDNonce[:8], uint64(s.chals))
									switch kind {
									case "known-record":
										w.Node = c45Idents[to].ln.Node()
										w.RecordSeq = w.Node.Seq()
									case "known-record-seq0":
										w.Node = c45Idents[to].ln.Node()
									}
									if _, _, err := b.codec.Encode(c45ID(to), addrA, w, nil); err != nil {
										panic(err)
									}
									b.chal[c45PeerKey{to, addrA}] = &c45Chal{id: s.chals, sent: s.clock.Now(), w: w}
									return w
								}
								chal := map[int]*Whoareyou{c45A: issue(c45A, chalKind)}
								if alsoC {
									chal[c45C] = issue(c45C, "no-record")
								}
								// the adversary answers the challenge that was sent to the id it claims (if there is none, A's)
								w := chal[src]
								if w == nil {
									w = chal[c45A]
								}
								var record []byte
								switch rec {
								case "A":
									record = c45RecordBytes(c45A)
								case "C":
									record = c45RecordBytes(c45C)
								}
								msg := &Ping{ReqID: []byte{9}, ENRSeq: 3}
								raw := c45CraftHandshake(c45B, c45ID(src), c45Idents[signer].key, record, w.ChallengeData, c45EphKeys[14], msg)
								before := s.fingerprint(b)
								gotSrc, node, pkt, err := b.codec.Decode(raw, addrA)

								challenged := chal[src] != nil
								knows := challenged && chal[src].Node != nil // B already holds the record of the claimed id
								ownRecord := rec == map[int]string{c45A: "A", c45C: "C"}[src]
								mustReject := !challenged || signer != src || !(ownRecord || knows)
								// with a known record, a carried foreign record is dropped or refused depending on sequence numbers
								ambiguous := !mustReject && knows && rec != "none" && !ownRecord
								accepted := err == nil && c45IsMessage(pkt)
								sess := b.codec.sc.session(c45ID(src), addrA)
								switch {
								case mustReject:
									if accepted || sess != nil {
										return fmt.Errorf("forged handshake accepted: claimed id %s, ID nonce signed by %s, record of %s, challenge %s: decoded %v, session=%v", c45Names[src], c45Names[signer], rec, chalKind, pkt, sess != nil)
									}
									if after := s.fingerprint(b); after != before {
										return fmt.Errorf("rejected handshake changed B's session keys")
									}
									r.Outcome("forged-handshake:rejected")
								case ambiguous:
									r.Outcome("forged-handshake:foreign-record-with-known-record")
								default:
									if !accepted || !c45SameMsg(pkt, msg) || gotSrc != c45ID(src) || sess == nil {
										return fmt.Errorf("honest hand-built handshake (id %s, own key, record %s, challenge %s) not accepted: %v, err %v — the crafting helper or the codec is wrong", c45Names[src], rec, chalKind, pkt, err)
									}
									r.Outcome("forged-handshake:honest-control-accepted")
								}
								// whatever happened: every session B holds is bound to a node record of that very id
								for peer := 0; peer < 3; peer++ {
									if ss := b.codec.sc.session(c45ID(peer), addrA); ss != nil {
										if ss.node == nil || ss.node.ID() != c45ID(peer) {
											return fmt.Errorf("B holds a session for id %s bound to the record of another node", c45Names[peer])
										}
										if signer != peer {
											return fmt.Errorf("B holds a session for id %s although the ID nonce was signed by %s", c45Names[peer], c45Names[signer])
										}
									}
								}
								if accepted && (node == nil || node.ID() != c45ID(src)) {
									return fmt.Errorf("handshake accepted with node %v for claimed id %s", node, c45Names[src])
								}
								return nil
							})
							r.DistinctHash(mc.Hash64(fmt.Sprint("fh", chalKind, alsoC, signer, rec, src)))
						}
					}
				}
			}
		}
		r.Sample(map[string]any{"grid": "forged-handshake", "challenge": "no-record", "c_also_challenged": false, "signed_by": "c", "record_of": "C", "src_id": "a"})

		// (b3) every byte of the WHOAREYOU packet: either A refuses it, or its answer is refused by B
		{
			s0, w0, err := c45Handshake(r, &Ping{ReqID: []byte{1}, ENRSeq: 1}, false)
			if err != nil {
				r.Violation("wru-base", err.Error(), nil)
				return
			}
			_ = s0
			n := len(w0.raw)
			r.Bound("whoareyou_packet_bytes", n)
			r.Parallel(n, func(off int) {
				for _, m := range []byte{0x01, 0x80, 0xff} {
					c := map[string]any{"grid": "tamper-whoareyou", "offset": off, "mask": int(m)}
					r.Case(c, func() error {
						s := c45NewSys(r)
						s.sweep, s.probe = false, true
						p, err := s.send(c45A, c45B, &Ping{ReqID: []byte{1}, ENRSeq: 1})
						if err != nil {
							return err
						}
						if _, err := s.deliver(c45B, p, addrA); err != nil {
							return err
						}
						w, err := s.whoareyou(c45B, c45A)
						if err != nil {
							return err
						}
						mut := bytes.Clone(w.raw)
						mut[off] ^= m
						_, _, pkt, derr := s.nodes[c45A].codec.Decode(mut, addrB)
						if derr == nil && c45IsMessage(pkt) {
							return fmt.Errorf("tampered WHOAREYOU decoded to a message %s", pkt.Name())
						}
						wp, ok := pkt.(*Whoareyou)
						if derr != nil || !ok {
							r.Outcome("tamper-whoareyou:refused-by-a")
							return nil
						}
						hs, err := s.answer(c45A, c45B, wp, 0)
						if err != nil {
							// A could not build a handshake from the corrupted challenge: fine
							r.Outcome("tamper-whoareyou:unanswerable")
							return nil
						}
						if hs == nil {
							r.Outcome("tamper-whoareyou:nonce-mismatch-ignored")
							return nil
						}
						if _, err := s.deliver(c45B, hs, addrA); err != nil {
							return err
						}
						if s.nodes[c45B].codec.sc.session(c45ID(c45A), addrA) != nil {
							return fmt.Errorf("answer to a corrupted WHOAREYOU (byte %d xor %#x) installed session keys at B", off, m)
						}
						r.Outcome("tamper-whoareyou:answer-refused-by-b")
						return nil
					})
					r.DistinctHash(mc.Hash64(fmt.Sprintf("wru/%d/%d", off, m)))
				}
			})
		}
	})
}
